(* Proofs about M-GITIGNORE (Gitignore/Model.v).  The editing theorems are proved for EVERY matcher
   (the Section variables [build] / [chk] of the model stay abstract). *)
From Coq Require Import List NArith Bool Lia.
From XV Require Import Glob.Match Glob.Pattern Walker.Model Gitignore.Model.
From XV Require Gen.GitignoreInitial.
Import ListNotations.
Open Scope N_scope.

(* ---- equality tests --------------------------------------------------------------------------- *)
Lemma beq_spec a : forall b, bytes_eqb a b = true <-> a = b.
Proof.
  induction a as [|x a IH]; intros [|y b]; cbn [bytes_eqb]; split; intros H; try discriminate; try reflexivity.
  - apply andb_true_iff in H as [H1 H2]. apply N.eqb_eq in H1. apply IH in H2. now subst.
  - injection H as -> ->. rewrite N.eqb_refl. cbn [andb]. now apply IH.
Qed.

Lemma path_eqb_spec a : forall b, path_eqb a b = true <-> a = b.
Proof.
  induction a as [|x a IH]; intros [|y b]; cbn [path_eqb]; split; intros H; try discriminate; try reflexivity.
  - apply andb_true_iff in H as [H1 H2]. apply beq_spec in H1. apply IH in H2. now subst.
  - injection H as -> ->. apply andb_true_iff. split; [now apply beq_spec | now apply IH].
Qed.

Lemma path_eqb_refl a : path_eqb a a = true.
Proof. now apply path_eqb_spec. Qed.

Lemma path_eqb_false a b : a <> b -> path_eqb a b = false.
Proof. intros H. destruct (path_eqb a b) eqn:E; [apply path_eqb_spec in E; contradiction | reflexivity]. Qed.

(* ---- the only write: append ------------------------------------------------------------------- *)
Lemma content_append_to gf d s d' :
  content (append_to gf d s) d' = if path_eqb d d' then content gf d' ++ s else content gf d'.
Proof.
  induction gf as [|[k v] r IH]; cbn [append_to content].
  - destruct (path_eqb d d'); reflexivity.
  - destruct (path_eqb k d) eqn:Ekd; cbn [content].
    + apply path_eqb_spec in Ekd. subst k.
      destruct (path_eqb d d'); reflexivity.
    + rewrite IH. destruct (path_eqb d d') eqn:Edd'; [|reflexivity].
      apply path_eqb_spec in Edd'. subst d'. rewrite Ekd. reflexivity.
Qed.

Definition is_prefix (a b : bytes) : Prop := exists s, b = a ++ s.

Lemma is_prefix_refl a : is_prefix a a.
Proof. exists []. now rewrite app_nil_r. Qed.

Lemma is_prefix_trans a b c : is_prefix a b -> is_prefix b c -> is_prefix a c.
Proof. intros [s ->] [t ->]. exists (s ++ t). now rewrite app_assoc. Qed.

(* gf' extends gf: every file keeps its old content as a prefix *)
Definition extends (gf gf' : gfiles) : Prop := forall d, is_prefix (content gf d) (content gf' d).

Lemma extends_refl gf : extends gf gf.
Proof. intros d. apply is_prefix_refl. Qed.

Lemma extends_trans a b c : extends a b -> extends b c -> extends a c.
Proof. intros H1 H2 d. eapply is_prefix_trans; [apply H1 | apply H2]. Qed.

Lemma extends_append_to gf d s : extends gf (append_to gf d s).
Proof.
  intros d'. rewrite content_append_to. destruct (path_eqb d d'); [now exists s | apply is_prefix_refl].
Qed.

Section EditProofs.
Variable RT : Type.
Variable build : env -> gfiles -> option RT.
Variable chk : RT -> bytes -> verdict.
Variable fixed_nl fixed_P5 fixed_sn fixed_em : bool.

Notation write_blocks := (write_blocks fixed_nl).
Notation update_dirs := (update_dirs RT chk fixed_nl fixed_sn fixed_em).
Notation update_files := (update_files RT chk fixed_nl fixed_sn fixed_em).
Notation run_cmd := (run_cmd RT build chk fixed_nl fixed_P5 fixed_sn fixed_em).
Notation run_cmds := (run_cmds RT build chk fixed_nl fixed_P5 fixed_sn fixed_em).

Lemma extends_write_blocks groups date : forall gf, extends gf (write_blocks gf groups date).
Proof.
  induction groups as [|g r IH]; intros gf; cbn [Model.write_blocks fold_left].
  - apply extends_refl.
  - eapply extends_trans; [apply extends_append_to | apply IH].
Qed.

Lemma extends_update_dirs R gf dirs date : extends gf (update_dirs R gf dirs date).
Proof. apply extends_write_blocks. Qed.

Lemma extends_update_files R gf files date : extends gf (update_files R gf files date).
Proof. apply extends_write_blocks. Qed.

Lemma extends_run_cmd gf c : extends gf (fst (run_cmd gf c)).
Proof.
  destruct c as [e dirs files | e ops | e dests]; cbn [Model.run_cmd].
  - destruct (build e gf) as [R1|]; cbn [fst]; [|apply extends_refl].
    destruct (build e (update_dirs R1 gf dirs (e_date e))) as [R2|]; cbn [fst].
    + eapply extends_trans; [apply extends_update_dirs | apply extends_update_files].
    + apply extends_update_dirs.
  - destruct (build e gf) as [R0|]; cbn [fst]; [|apply extends_refl].
    destruct (collect RT chk fixed_em R0 ops [] []) as [ds fs].
    destruct (build e (update_dirs R0 gf ds (e_date e))) as [R1|]; cbn [fst].
    + eapply extends_trans; [apply extends_update_dirs | apply extends_update_files].
    + apply extends_update_dirs.
  - destruct fixed_P5; cbn [fst]; [|apply extends_refl].
    destruct (build e gf) as [R|]; cbn [fst]; [apply extends_update_files | apply extends_refl].
Qed.

(* gitignore_append_only: for every sequence of commands, every matcher, every .gitignore file *)
Lemma append_only cs : forall gf, extends gf (run_cmds gf cs).
Proof.
  induction cs as [|c r IH]; intros gf; cbn [Model.run_cmds].
  - apply extends_refl.
  - eapply extends_trans; [apply extends_run_cmd | apply IH].
Qed.
End EditProofs.

(* ---- lines ------------------------------------------------------------------------------------ *)
Lemma glines_nonempty s : s <> [] -> glines s <> [].
Proof.
  destruct s as [|x r]; [congruence|]. intros _. cbn [glines].
  destruct (N.eqb x c_nl); [discriminate|]. destruct (glines r); discriminate.
Qed.

Lemma glines_cons x r :
  glines (x :: r) = if N.eqb x c_nl then [] :: glines r
                    else match glines r with [] => [[x]] | l :: ls => (x :: l) :: ls end.
Proof. reflexivity. Qed.

Lemma ends_nl_cons x y r : ends_nl (x :: y :: r) = ends_nl (y :: r).
Proof. reflexivity. Qed.

Lemma glines_app_nl s t : ends_nl s = true -> glines (s ++ t) = glines s ++ glines t.
Proof.
  induction s as [|x r IH]; intros H; [reflexivity|].
  destruct r as [|y r'].
  - change (N.eqb x c_nl = true) in H. cbn [app].
    rewrite (glines_cons x t), (glines_cons x []), H. reflexivity.
  - rewrite ends_nl_cons in H. specialize (IH H).
    change ((x :: y :: r') ++ t) with (x :: ((y :: r') ++ t)).
    rewrite (glines_cons x ((y :: r') ++ t)), (glines_cons x (y :: r')).
    rewrite IH. destruct (N.eqb x c_nl); [reflexivity|].
    destruct (glines (y :: r')) as [|l ls] eqn:E; [exfalso; revert E; apply glines_nonempty; discriminate|].
    reflexivity.
Qed.

Lemma glines_add_nl s : s <> [] -> ends_nl s = false -> glines (s ++ [c_nl]) = glines s.
Proof.
  induction s as [|x r IH]; intros Hne H; [congruence|].
  destruct r as [|y r'].
  - change (N.eqb x c_nl = false) in H. cbn [app].
    rewrite (glines_cons x [c_nl]), (glines_cons x []), H. reflexivity.
  - rewrite ends_nl_cons in H. assert (IH' := IH ltac:(discriminate) H).
    change ((x :: y :: r') ++ [c_nl]) with (x :: ((y :: r') ++ [c_nl])).
    rewrite (glines_cons x ((y :: r') ++ [c_nl])), (glines_cons x (y :: r')).
    rewrite IH'. reflexivity.
Qed.

Lemma last_byte_snoc s b : last_byte (s ++ [b]) = Some b.
Proof.
  induction s as [|x r IH]; [reflexivity|].
  destruct r as [|y r']; [reflexivity|].
  change ((x :: y :: r') ++ [b]) with (x :: y :: (r' ++ [b])).
  cbn [last_byte]. exact IH.
Qed.

Lemma ends_nl_snoc s : ends_nl (s ++ [c_nl]) = true.
Proof. unfold ends_nl. rewrite last_byte_snoc. reflexivity. Qed.

Lemma glines_line l t : has_nl l = false -> glines (l ++ c_nl :: t) = l :: glines t.
Proof.
  induction l as [|x l' IH]; intros H.
  - reflexivity.
  - cbn [has_nl existsb] in H. apply orb_false_iff in H as [Hx Hl].
    cbn [app]. rewrite glines_cons.
    rewrite N.eqb_sym, Hx. rewrite (IH Hl). reflexivity.
Qed.

Lemma glines_join ls : ls <> [] -> Forall (fun l => has_nl l = false) ls ->
  glines (join_nl ls ++ [c_nl]) = ls.
Proof.
  induction ls as [|a r IH]; intros Hne Hall; [congruence|].
  inversion Hall as [|? ? Ha Hr]; subst.
  destruct r as [|b r'].
  - cbn [join_nl]. rewrite (glines_line a [] Ha). reflexivity.
  - change (join_nl (a :: b :: r')) with (a ++ [c_nl] ++ join_nl (b :: r')).
    rewrite <- !app_assoc. cbn [app].
    rewrite (glines_line a _ Ha). f_equal. apply IH; [discriminate | assumption].
Qed.

(* ---- the block xvc writes --------------------------------------------------------------------- *)
Lemma has_nl_app a b : has_nl (a ++ b) = has_nl a || has_nl b.
Proof. unfold has_nl. apply existsb_app. Qed.

Lemma uint_bytes_no_nl u : has_nl (uint_bytes u) = false.
Proof. induction u; cbn [uint_bytes has_nl existsb]; try reflexivity; exact IHu. Qed.

Lemma header_no_nl n date : has_nl date = false -> has_nl (header n date) = false.
Proof.
  intros H. unfold header. rewrite !has_nl_app, H. unfold dec_bytes. rewrite uint_bytes_no_nl. reflexivity.
Qed.

Lemma glines_block ls date :
  ls <> [] -> has_nl date = false -> Forall (fun l => has_nl l = false) ls ->
  glines (block ls date) = header (length ls) date :: ls.
Proof.
  intros Hne Hd Hall. unfold block.
  change (header (length ls) date ++ [c_nl] ++ join_nl ls ++ [c_nl])
    with (header (length ls) date ++ c_nl :: (join_nl ls ++ [c_nl])).
  rewrite glines_line by (apply header_no_nl; exact Hd).
  f_equal. apply glines_join; assumption.
Qed.

Lemma block_ends_nl ls date : ends_nl (block ls date) = true.
Proof.
  unfold block. rewrite !app_assoc. apply ends_nl_snoc.
Qed.

(* ---- positive lines --------------------------------------------------------------------------- *)
Definition pos_line (l : pline) : Prop := match l with LPat p => g_neg p = false | _ => True end.
(* what xvc writes: one line, not a negation *)
Definition good_line (l : bytes) : Prop := has_nl l = false /\ pos_line (parse_line l).

Lemma parse_header n date : parse_line (header n date) = LNone.
Proof. reflexivity. Qed.

Lemma parse_slash_pos x : pos_line (parse_line (c_slash :: x)).
Proof.
  unfold parse_line.
  change (N.eqb c_slash c_hash) with false. cbv iota.
  destruct (ends_cr (c_slash :: x)); [exact I|].
  change (N.eqb c_slash c_bang) with false. cbv iota.
  destruct (lex (c_slash :: x)) as [t1|]; [|exact I].
  destruct (strip_last_slash t1) as [dir t2].
  destruct (is_nil t2); [exact I|].
  destruct (existsb is_tslash t2).
  - match goal with |- pos_line (if ?b then _ else _) => destruct b end; [exact I | reflexivity].
  - match goal with |- pos_line (if ?b then _ else _) => destruct b end; [exact I | reflexivity].
Qed.

Lemma weird_good : good_line weird_line.
Proof. split; reflexivity. Qed.

Lemma plines_block ls date :
  ls <> [] -> has_nl date = false -> Forall good_line ls ->
  plines (block ls date) = LNone :: map parse_line ls /\ Forall pos_line (plines (block ls date)).
Proof.
  intros Hne Hd Hall.
  assert (Hnl : Forall (fun l => has_nl l = false) ls) by (eapply Forall_impl; [|exact Hall]; intros a [H _]; exact H).
  unfold plines. rewrite (glines_block ls date Hne Hd Hnl). cbn [map]. rewrite parse_header.
  split; [reflexivity|]. constructor; [exact I|].
  apply Forall_map. eapply Forall_impl; [|exact Hall]. intros a [_ H]. exact H.
Qed.

(* ---- names ------------------------------------------------------------------------------------ *)
Lemma split_tslash_noslash t : existsb is_tslash t = false -> split_tslash t = [t].
Proof.
  induction t as [|x r IH]; intros H; [reflexivity|].
  cbn [existsb] in H. apply orb_false_iff in H as [Hx Hr].
  cbn [split_tslash]. rewrite Hx, (IH Hr). reflexivity.
Qed.

Lemma sls_noslash t : existsb is_tslash t = false -> strip_last_slash t = (false, t).
Proof.
  induction t as [|x r IH]; intros H; [reflexivity|].
  cbn [existsb] in H. apply orb_false_iff in H as [Hx Hr].
  destruct r as [|y r'].
  - cbn [strip_last_slash]. rewrite Hx. reflexivity.
  - change (strip_last_slash (x :: y :: r')) with (let '(d, r'') := strip_last_slash (y :: r') in (d, x :: r'')).
    rewrite (IH Hr). reflexivity.
Qed.

Lemma sls_cons_noslash x t : t <> [] -> existsb is_tslash t = false ->
  strip_last_slash (x :: t) = (false, x :: t).
Proof.
  intros Hne H. destruct t as [|y r]; [congruence|].
  change (strip_last_slash (x :: y :: r)) with (let '(d, r'') := strip_last_slash (y :: r) in (d, x :: r'')).
  rewrite (sls_noslash _ H). reflexivity.
Qed.

Lemma sls_snoc t : strip_last_slash (t ++ [TSlash]) = (true, t).
Proof.
  induction t as [|x r IH]; [reflexivity|].
  destruct r as [|y r'].
  - reflexivity.
  - change ((x :: y :: r') ++ [TSlash]) with (x :: y :: (r' ++ [TSlash])).
    change (strip_last_slash (x :: y :: (r' ++ [TSlash])))
      with (let '(d, r'') := strip_last_slash (y :: (r' ++ [TSlash])) in (d, x :: r'')).
    change (y :: (r' ++ [TSlash])) with ((y :: r') ++ [TSlash]). rewrite IH. reflexivity.
Qed.

(* the tokens of a written name: not empty, no separator, no `**` *)
Definition good_toks (t : list gtok) : Prop := t <> [] /\ existsb is_tslash t = false /\ has_star2 t = false.

Lemma good_toks_not_star2 t : good_toks t -> is_star2 t = false.
Proof.
  intros (_ & _ & H). destruct t as [|[| | |b] [|[| | |b'] [|z r]]]; try reflexivity. discriminate.
Qed.

Definition name_pat (dir : bool) (t : list gtok) : gpat :=
  {| g_neg := false; g_dir := dir; g_anch := true; g_segs := [GSG t] |}.

Lemma lex_slash (w : bytes) : lex (c_slash :: w) = match lex w with Some t => Some (TSlash :: t) | None => None end.
Proof. reflexivity. Qed.

Lemma ends_cr_snoc_slash w : ends_cr (w ++ [c_slash]) = false.
Proof. unfold ends_cr. rewrite last_byte_snoc. reflexivity. Qed.

(* a line `/w` whose w lexes to good tokens is the anchored pattern of these tokens *)
Lemma parse_toks_file w t : ends_cr (c_slash :: w) = false -> lex w = Some t -> good_toks t ->
  parse_line (c_slash :: w) = LPat (name_pat false t).
Proof.
  intros Hcr Hlex Hg. assert (Hs2 := good_toks_not_star2 t Hg). destruct Hg as (Hne & Hns & Hst).
  unfold parse_line.
  change (N.eqb c_slash c_hash) with false. cbv iota. rewrite Hcr.
  change (N.eqb c_slash c_bang) with false. cbv iota.
  rewrite lex_slash, Hlex. rewrite (sls_cons_noslash TSlash t Hne Hns).
  change (is_nil (TSlash :: t)) with false. cbv iota.
  change (existsb is_tslash (TSlash :: t)) with true. cbv iota.
  rewrite (split_tslash_noslash t Hns). cbn [existsb map].
  unfold bad_piece. rewrite Hst, Hs2. destruct t as [|x t']; [congruence|]. reflexivity.
Qed.

Lemma parse_toks_dir w t : lex (w ++ [c_slash]) = Some (t ++ [TSlash]) -> good_toks t ->
  parse_line ([c_slash] ++ w ++ [c_slash]) = LPat (name_pat true t).
Proof.
  intros Hlex Hg. assert (Hs2 := good_toks_not_star2 t Hg). destruct Hg as (Hne & Hns & Hst).
  unfold parse_line. cbn [app].
  change (N.eqb c_slash c_hash) with false. cbv iota.
  change (c_slash :: w ++ [c_slash]) with ((c_slash :: w) ++ [c_slash]). rewrite ends_cr_snoc_slash.
  change (N.eqb c_slash c_bang) with false. cbv iota.
  change ((c_slash :: w) ++ [c_slash]) with (c_slash :: (w ++ [c_slash])).
  rewrite lex_slash, Hlex.
  change (TSlash :: t ++ [TSlash]) with ((TSlash :: t) ++ [TSlash]). rewrite sls_snoc.
  change (is_nil (TSlash :: t)) with false. cbv iota.
  change (existsb is_tslash (TSlash :: t)) with true. cbv iota.
  rewrite (split_tslash_noslash t Hns). cbn [existsb map].
  unfold bad_piece. rewrite Hst, Hs2. destruct t as [|x t']; [congruence|]. reflexivity.
Qed.

(* ---- lexing one byte --------------------------------------------------------------------------- *)
(* rewriting with an equation whose left side is the left side of the goal up to conversion (byte = N) *)
Ltac rwl L := etransitivity; [exact L|].
Lemma lex_ord (b : byte) (r : bytes) : N.eqb b c_bs = false -> N.eqb b c_space = false -> N.eqb b c_lb = false ->
  N.eqb b c_rb = false -> N.eqb b 0 = false ->
  lex (b :: r) = match lex r with Some t => Some (tok_of b :: t) | None => None end.
Proof. intros H1 H2 H3 H4 H5. cbn [lex]. rewrite H1, H2, H3, H4, H5. reflexivity. Qed.

Lemma lex_blank (r : bytes) : all_spaces r = false ->
  lex (c_space :: r) = match lex r with Some t => Some (TLit c_space :: t) | None => None end.
Proof. intros H. cbn [lex]. change (N.eqb c_space c_bs) with false. cbv iota. rewrite N.eqb_refl, H. reflexivity. Qed.

Lemma lex_bs (d : byte) (r : bytes) : N.eqb d c_slash = false -> N.eqb d 0 = false ->
  lex (c_bs :: d :: r) = match lex r with Some t => Some (TLit d :: t) | None => None end.
Proof. intros H1 H2. cbn [lex]. rewrite N.eqb_refl, H1, H2. reflexivity. Qed.

(* ---- plain names, written as they are ----------------------------------------------------------- *)
Lemma ok_byte_facts b : ok_byte b = true ->
  N.eqb b c_bs = false /\ N.eqb b c_space = false /\ N.eqb b c_lb = false /\ N.eqb b c_rb = false /\
  N.eqb b 0 = false /\ N.eqb b c_nl = false.
Proof.
  unfold ok_byte. intros H.
  apply andb_true_iff in H as [H _]. apply andb_true_iff in H as [H H4]. apply andb_true_iff in H as [H H3].
  apply andb_true_iff in H as [H1 H2]. apply N.ltb_lt in H1.
  apply negb_true_iff in H2, H3, H4.
  repeat split; try assumption; apply N.eqb_neq; unfold c_space, c_nl; lia.
Qed.

Lemma lex_plain (n : bytes) : forallb ok_byte n = true -> forall (sfx : bytes) ts, lex sfx = Some ts ->
  lex (n ++ sfx) = Some (map tok_of n ++ ts).
Proof.
  induction n as [|b r IH]; intros Hok sfx ts Hs; [exact Hs|].
  cbn [forallb] in Hok. apply andb_true_iff in Hok as [Hb Hr].
  destruct (ok_byte_facts b Hb) as (H1 & H2 & H3 & H4 & H5 & _).
  cbn [app map]. rwl (lex_ord b (r ++ sfx) H1 H2 H3 H4 H5). rewrite (IH Hr sfx ts Hs). reflexivity.
Qed.

Lemma tok_of_slash b : is_tslash (tok_of b) = N.eqb b c_slash.
Proof.
  unfold tok_of. destruct (N.eqb b c_star) eqn:E1; [apply N.eqb_eq in E1; subst b; reflexivity|].
  destruct (N.eqb b c_q) eqn:E2; [apply N.eqb_eq in E2; subst b; reflexivity|].
  destruct (N.eqb b c_slash); reflexivity.
Qed.

Lemma tok_of_star b : is_tstar (tok_of b) = N.eqb b c_star.
Proof.
  unfold tok_of. destruct (N.eqb b c_star) eqn:E1; [reflexivity|].
  destruct (N.eqb b c_q); [reflexivity|]. destruct (N.eqb b c_slash); reflexivity.
Qed.

Lemma toks_noslash n : existsb (N.eqb c_slash) n = false -> existsb is_tslash (map tok_of n) = false.
Proof.
  induction n as [|b r IH]; intros H; [reflexivity|].
  cbn [existsb] in H. apply orb_false_iff in H as [Hb Hr].
  cbn [map existsb]. rewrite tok_of_slash, N.eqb_sym, Hb, (IH Hr). reflexivity.
Qed.

Lemma toks_star2 n : has_star2 (map tok_of n) = has_star2b n.
Proof.
  induction n as [|a r IH]; [reflexivity|].
  destruct r as [|b r']; [reflexivity|].
  change (has_star2 (map tok_of (a :: b :: r')))
    with ((is_tstar (tok_of a) && is_tstar (tok_of b)) || has_star2 (map tok_of (b :: r'))).
  rewrite IH, !tok_of_star. reflexivity.
Qed.

Lemma plain_name_parts n : plain_name n = true ->
  n <> [] /\ forallb ok_byte n = true /\ existsb (N.eqb c_slash) n = false /\ has_star2b n = false.
Proof.
  unfold plain_name. intros H.
  apply andb_true_iff in H as [H H4]. apply andb_true_iff in H as [H H3]. apply andb_true_iff in H as [H1 H2].
  apply negb_true_iff in H4.
  repeat split.
  - destruct n; [discriminate | discriminate].
  - exact H2.
  - now apply negb_true_iff in H3.
  - exact H4.
Qed.

Lemma plain_good_toks n : plain_name n = true -> good_toks (map tok_of n).
Proof.
  intros Hp. destruct (plain_name_parts n Hp) as (Hne & _ & Hns & Hst).
  split; [destruct n; [congruence | discriminate]|]. split; [apply toks_noslash; exact Hns|].
  rewrite toks_star2. exact Hst.
Qed.

Lemma ok_bytes_no b n : forallb ok_byte n = true -> b <= 32 -> existsb (N.eqb b) n = false.
Proof.
  intros Hok Hb. induction n as [|x r IH]; [reflexivity|].
  cbn [forallb] in Hok. apply andb_true_iff in Hok as [Hx Hr].
  cbn [existsb]. rewrite (IH Hr), orb_false_r.
  unfold ok_byte in Hx. apply andb_true_iff in Hx as [Hx _]. apply andb_true_iff in Hx as [Hx _].
  apply andb_true_iff in Hx as [Hx _]. apply andb_true_iff in Hx as [Hx _].
  apply N.ltb_lt in Hx. apply N.eqb_neq. lia.
Qed.

Lemma plain_last_not_cr x n : forallb ok_byte n = true -> n <> [] -> ends_cr (x :: n) = false.
Proof.
  intros Hok Hne. unfold ends_cr.
  assert (H : forall y, last_byte (y :: n) = last_byte n).
  { intros y. destruct n; [congruence | reflexivity]. }
  rewrite H. clear H x.
  induction n as [|b r IH]; [congruence|].
  cbn [forallb] in Hok. apply andb_true_iff in Hok as [Hb Hr].
  destruct r as [|c r'].
  - cbn [last_byte]. unfold ok_byte in Hb. apply andb_true_iff in Hb as [Hb _]. apply andb_true_iff in Hb as [Hb _].
    apply andb_true_iff in Hb as [Hb _]. apply andb_true_iff in Hb as [Hb _]. apply N.ltb_lt in Hb.
    apply N.eqb_neq. unfold c_cr. lia.
  - change (last_byte (b :: c :: r')) with (last_byte (c :: r')). apply IH; [exact Hr | discriminate].
Qed.

(* ---- every name, escaped ------------------------------------------------------------------------ *)
(* the tokens the escaped name lexes to: the bytes of the name, `?` for a line break and a final CR *)
Definition ntok1 (b : byte) : gtok := if N.eqb b c_nl then TQ else TLit b.
Fixpoint name_toks (n : gname) : list gtok :=
  match n with
  | [] => []
  | [b] => if N.eqb b c_cr then [TQ] else [ntok1 b]
  | b :: r => ntok1 b :: name_toks r
  end.

Lemma name_toks_cons b c r : name_toks (b :: c :: r) = ntok1 b :: name_toks (c :: r).
Proof. reflexivity. Qed.
Lemma escape_cons b c r : escape_name (b :: c :: r) = esc1 b ++ escape_name (c :: r).
Proof. reflexivity. Qed.

Lemma valid_name_parts n : valid_name n = true ->
  n <> [] /\ existsb (N.eqb c_slash) n = false /\ existsb (N.eqb 0) n = false.
Proof.
  unfold valid_name. intros H. apply andb_true_iff in H as [H H3]. apply andb_true_iff in H as [H1 H2].
  apply negb_true_iff in H2, H3. repeat split; try assumption. destruct n; [discriminate | discriminate].
Qed.

(* the head of esc1 b is a blank only for b = blank *)
Lemma esc1_spaces (b : byte) (rest : bytes) : N.eqb b c_space = false -> all_spaces (esc1 b ++ rest) = false.
Proof.
  intros H. unfold esc1. destruct (needs_bs b); [reflexivity|].
  destruct (N.eqb b c_nl); [reflexivity|]. cbn [app all_spaces forallb]. rewrite N.eqb_sym, H. reflexivity.
Qed.

Lemma escape_not_all_spaces (n : gname) (sfx : bytes) : n <> [] -> all_spaces (escape_name n ++ sfx) = false.
Proof.
  induction n as [|b r IH]; intros Hne; [congruence|].
  destruct r as [|c r'].
  - cbn [escape_name]. destruct (N.eqb b c_space) eqn:Es; [reflexivity|].
    destruct (N.eqb b c_cr); [reflexivity|]. apply esc1_spaces; exact Es.
  - rewrite escape_cons, <- app_assoc.
    destruct (N.eqb b c_space) eqn:Es; [|apply esc1_spaces; exact Es].
    apply N.eqb_eq in Es. subst b. change (esc1 c_space) with [c_space]. cbn [app all_spaces forallb].
    apply IH. discriminate.
Qed.

(* esc1 b followed by anything that is not all blanks (or any b but the blank) lexes to ntok1 b *)
Lemma lex_esc1 (b : byte) (rest : bytes) : N.eqb b c_slash = false -> N.eqb b 0 = false ->
  (N.eqb b c_space = true -> all_spaces rest = false) ->
  lex (esc1 b ++ rest) = match lex rest with Some t => Some (ntok1 b :: t) | None => None end.
Proof.
  intros Hsl H0 Hsp. unfold esc1, needs_bs, ntok1.
  destruct (N.eqb b c_bs) eqn:E1; [apply N.eqb_eq in E1; subst b; reflexivity|].
  destruct (N.eqb b c_star) eqn:E2; [apply N.eqb_eq in E2; subst b; reflexivity|].
  destruct (N.eqb b c_q) eqn:E3; [apply N.eqb_eq in E3; subst b; reflexivity|].
  destruct (N.eqb b c_lb) eqn:E4; [apply N.eqb_eq in E4; subst b; reflexivity|].
  destruct (N.eqb b c_rb) eqn:E5; [apply N.eqb_eq in E5; subst b; reflexivity|].
  cbn [orb].
  destruct (N.eqb b c_nl) eqn:E6; [reflexivity|].
  cbn [app].
  destruct (N.eqb b c_space) eqn:E7.
  - apply N.eqb_eq in E7. subst b. exact (lex_blank rest (Hsp eq_refl)).
  - rwl (lex_ord b rest E1 E7 E4 E5 H0). unfold tok_of. rewrite E2, E3, Hsl. reflexivity.
Qed.

Lemma lex_escape (n : gname) : existsb (N.eqb c_slash) n = false -> existsb (N.eqb 0) n = false ->
  forall (sfx : bytes) ts, lex sfx = Some ts -> lex (escape_name n ++ sfx) = Some (name_toks n ++ ts).
Proof.
  induction n as [|b r IH]; intros Hsl H0 sfx ts Hs; [exact Hs|].
  cbn [existsb] in Hsl, H0. apply orb_false_iff in Hsl as [Hb Hr]. apply orb_false_iff in H0 as [Hb0 Hr0].
  rewrite N.eqb_sym in Hb. rewrite N.eqb_sym in Hb0.
  destruct r as [|c r'].
  - cbn [escape_name name_toks].
    destruct (N.eqb b c_space) eqn:Es.
    + apply N.eqb_eq in Es. subst b. cbn [app]. rwl (lex_bs c_space sfx eq_refl eq_refl). rewrite Hs. reflexivity.
    + destruct (N.eqb b c_cr) eqn:Ec.
      * cbn [app]. rwl (lex_ord c_q sfx eq_refl eq_refl eq_refl eq_refl eq_refl). rewrite Hs. reflexivity.
      * rwl (lex_esc1 b sfx Hb Hb0 ltac:(intros H; rewrite H in Es; discriminate)). rewrite Hs. reflexivity.
  - rewrite escape_cons, name_toks_cons, <- app_assoc.
    rwl (lex_esc1 b (escape_name (c :: r') ++ sfx) Hb Hb0 ltac:(intros _; apply escape_not_all_spaces; discriminate)).
    rewrite (IH Hr Hr0 sfx ts Hs). reflexivity.
Qed.

Lemma ntok1_not_special b : is_tslash (ntok1 b) = false /\ is_tstar (ntok1 b) = false.
Proof. unfold ntok1. destruct (N.eqb b c_nl); split; reflexivity. Qed.

Lemma name_toks_plain n : existsb is_tslash (name_toks n) = false /\ existsb is_tstar (name_toks n) = false.
Proof.
  induction n as [|b r IH]; [split; reflexivity|].
  destruct r as [|c r'].
  - cbn [name_toks]. destruct (N.eqb b c_cr); [split; reflexivity|].
    cbn [existsb]. destruct (ntok1_not_special b) as [-> ->]. split; reflexivity.
  - rewrite name_toks_cons. cbn [existsb]. destruct (ntok1_not_special b) as [-> ->]. exact IH.
Qed.

Lemma no_star_no_star2 t : existsb is_tstar t = false -> has_star2 t = false.
Proof.
  induction t as [|a r IH]; intros H; [reflexivity|].
  cbn [existsb] in H. apply orb_false_iff in H as [Ha Hr].
  destruct r as [|b r']; [reflexivity|].
  change (has_star2 (a :: b :: r')) with ((is_tstar a && is_tstar b) || has_star2 (b :: r')).
  rewrite Ha, (IH Hr). reflexivity.
Qed.

Lemma name_good_toks n : n <> [] -> good_toks (name_toks n).
Proof.
  intros Hne. destruct (name_toks_plain n) as [H1 H2].
  split; [|split; [exact H1 | apply no_star_no_star2; exact H2]].
  destruct n as [|b [|c r]]; [congruence | | rewrite name_toks_cons; discriminate].
  cbn [name_toks]. destruct (N.eqb b c_cr); discriminate.
Qed.

Lemma last_byte_cons x n : n <> [] -> last_byte (x :: n) = last_byte n.
Proof. destruct n; [congruence | reflexivity]. Qed.

Lemma last_byte_app a b : b <> [] -> last_byte (a ++ b) = last_byte b.
Proof.
  intros Hb. induction a as [|x r IH]; [reflexivity|].
  cbn [app]. rewrite last_byte_cons; [exact IH|]. destruct r; [exact Hb | discriminate].
Qed.

Lemma esc1_last b : N.eqb b c_cr = false -> esc1 b <> [] /\ last_byte (esc1 b) <> Some c_cr.
Proof.
  intros H. unfold esc1. destruct (needs_bs b).
  - split; [discriminate|]. cbn [last_byte]. intros E. injection E as ->. discriminate.
  - destruct (N.eqb b c_nl); [split; discriminate|]. split; [discriminate|].
    cbn [last_byte]. intros E. injection E as ->. discriminate.
Qed.

Lemma escape_nonempty n : n <> [] -> escape_name n <> [].
Proof.
  destruct n as [|b [|c r]]; intros H; [congruence | |].
  - cbn [escape_name]. destruct (N.eqb b c_space); [discriminate|]. destruct (N.eqb b c_cr); [discriminate|].
    unfold esc1. destruct (needs_bs b); [discriminate|]. destruct (N.eqb b c_nl); discriminate.
  - rewrite escape_cons. unfold esc1. destruct (needs_bs b); [discriminate|]. destruct (N.eqb b c_nl); discriminate.
Qed.

Lemma escape_last_not_cr n : n <> [] -> last_byte (escape_name n) <> Some c_cr.
Proof.
  induction n as [|b r IH]; intros Hne; [congruence|].
  destruct r as [|c r'].
  - cbn [escape_name]. destruct (N.eqb b c_space); [discriminate|].
    destruct (N.eqb b c_cr) eqn:Ec; [discriminate|]. apply esc1_last; exact Ec.
  - rewrite escape_cons, last_byte_app by (apply escape_nonempty; discriminate). apply IH. discriminate.
Qed.

Lemma escape_ends_cr n : n <> [] -> ends_cr (c_slash :: escape_name n) = false.
Proof.
  intros Hne. unfold ends_cr. rewrite last_byte_cons by (apply escape_nonempty; exact Hne).
  destruct (last_byte (escape_name n)) as [b|] eqn:E; [|reflexivity].
  destruct (N.eqb b c_cr) eqn:Eb; [|reflexivity].
  apply N.eqb_eq in Eb. subst b. exfalso. exact (escape_last_not_cr n Hne E).
Qed.

Lemma esc1_no_nl b : has_nl (esc1 b) = false.
Proof.
  unfold esc1. destruct (needs_bs b) eqn:E.
  - unfold needs_bs in E. cbn [has_nl existsb]. rewrite orb_false_r.
    destruct (N.eqb c_nl b) eqn:Eb; [|reflexivity]. apply N.eqb_eq in Eb. subst b. discriminate.
  - destruct (N.eqb b c_nl) eqn:Eb; [reflexivity|]. cbn [has_nl existsb]. rewrite N.eqb_sym, Eb. reflexivity.
Qed.

Lemma escape_no_nl n : has_nl (escape_name n) = false.
Proof.
  induction n as [|b r IH]; [reflexivity|].
  destruct r as [|c r'].
  - cbn [escape_name]. destruct (N.eqb b c_space); [reflexivity|]. destruct (N.eqb b c_cr); [reflexivity|]. apply esc1_no_nl.
  - rewrite escape_cons, has_nl_app, esc1_no_nl, IH. reflexivity.
Qed.

(* ---- the written line, both writers ------------------------------------------------------------- *)
Definition wtoks (sn : bool) (n : gname) : list gtok := if sn then name_toks n else map tok_of n.

Lemma lex_slash_only : lex [c_slash] = Some [TSlash].
Proof. reflexivity. Qed.

Lemma parse_file_line sn n : name_ok sn n = true ->
  parse_line (c_slash :: wname sn n) = LPat (name_pat false (wtoks sn n)).
Proof.
  destruct sn; cbn [name_ok wname wtoks]; intros Hn.
  - destruct (valid_name_parts n Hn) as (Hne & Hsl & H0).
    apply parse_toks_file; [apply escape_ends_cr; exact Hne | | apply name_good_toks; exact Hne].
    rewrite <- (app_nil_r (escape_name n)), <- (app_nil_r (name_toks n)). apply lex_escape; [exact Hsl | exact H0 | reflexivity].
  - destruct (plain_name_parts n Hn) as (Hne & Hok & _ & _).
    apply parse_toks_file; [apply plain_last_not_cr; assumption | | apply plain_good_toks; exact Hn].
    rewrite <- (app_nil_r n) at 1. rewrite <- (app_nil_r (map tok_of n)). apply lex_plain; [exact Hok | reflexivity].
Qed.

Lemma parse_dir_line sn n : name_ok sn n = true ->
  parse_line ([c_slash] ++ wname sn n ++ [c_slash]) = LPat (name_pat true (wtoks sn n)).
Proof.
  destruct sn; cbn [name_ok wname wtoks]; intros Hn.
  - destruct (valid_name_parts n Hn) as (Hne & Hsl & H0).
    apply parse_toks_dir; [|apply name_good_toks; exact Hne].
    apply lex_escape; [exact Hsl | exact H0 | exact lex_slash_only].
  - destruct (plain_name_parts n Hn) as (Hne & Hok & _ & _).
    apply parse_toks_dir; [|apply plain_good_toks; exact Hn].
    apply lex_plain; [exact Hok | exact lex_slash_only].
Qed.

Lemma plain_name_no_nl n : plain_name n = true -> has_nl n = false.
Proof.
  intros Hp. destruct (plain_name_parts n Hp) as (_ & Hok & _ & _).
  unfold has_nl. apply ok_bytes_no; [exact Hok | unfold c_nl; lia].
Qed.

Lemma wname_no_nl sn n : name_ok sn n = true -> has_nl (wname sn n) = false.
Proof. destruct sn; cbn [name_ok wname]; intros H; [apply escape_no_nl | apply plain_name_no_nl; exact H]. Qed.

Lemma split_last_spec p : p <> [] -> exists par n, split_last p = Some (par, n) /\ p = par ++ [n].
Proof.
  induction p as [|x r IH]; intros H; [congruence|].
  destruct r as [|y r'].
  - exists [], x. split; reflexivity.
  - destruct (IH ltac:(discriminate)) as (par & n & E & Ep).
    exists (x :: par), n. split.
    + change (split_last (x :: y :: r')) with (match split_last (y :: r') with Some (d, n) => Some (x :: d, n) | None => None end).
      rewrite E. reflexivity.
    + rewrite Ep. reflexivity.
Qed.

Lemma path_ok_last sn p : path_ok sn p = true ->
  exists par n, split_last p = Some (par, n) /\ p = par ++ [n] /\ name_ok sn n = true.
Proof.
  intros H.
  assert (H' : negb (match p with [] => true | _ => false end) && forallb (name_ok sn) p = true)
    by (destruct sn; exact H).
  apply andb_true_iff in H' as [H1 H2].
  assert (Hne : p <> []) by (destruct p; [discriminate | discriminate]).
  destruct (split_last_spec p Hne) as (par & n & E & Ep).
  exists par, n. split; [exact E|]. split; [exact Ep|].
  rewrite Ep, forallb_app in H2. apply andb_true_iff in H2 as [_ H2]. cbn in H2. now rewrite andb_true_r in H2.
Qed.

Lemma file_item_good sn f : path_ok sn f = true -> good_line (snd (file_item sn f)).
Proof.
  intros H. destruct (path_ok_last sn f H) as (par & n & E & _ & Hn).
  unfold file_item. rewrite E. cbn [snd]. split.
  - change (has_nl (c_slash :: wname sn n)) with (N.eqb c_nl c_slash || has_nl (wname sn n)). rewrite (wname_no_nl sn n Hn). reflexivity.
  - apply parse_slash_pos.
Qed.

Lemma dir_item_good sn d : path_ok sn d = true -> good_line (snd (dir_item sn d)).
Proof.
  intros H. destruct (path_ok_last sn d H) as (par & n & E & _ & Hn).
  unfold dir_item. rewrite E. cbn [snd]. split.
  - rewrite !has_nl_app, (wname_no_nl sn n Hn). reflexivity.
  - apply (parse_slash_pos (wname sn n ++ [c_slash])).
Qed.

(* ---- the reference semantics under appended positive lines ------------------------------------- *)
Lemma lm_app a b rel isdir acc :
  last_match (a ++ b) rel isdir acc = last_match b rel isdir (last_match a rel isdir acc).
Proof.
  revert acc. induction a as [|l r IH]; intros acc; [reflexivity|].
  destruct l as [| |p]; cbn [app last_match]; apply IH.
Qed.

Lemma lm_mono ls rel isdir : forall acc acc',
  (acc = Some true -> acc' = Some true) ->
  last_match ls rel isdir acc = Some true -> last_match ls rel isdir acc' = Some true.
Proof.
  induction ls as [|l r IH]; intros acc acc' Himp; cbn [last_match]; [exact Himp|].
  destruct l as [| |p]; try (apply IH; exact Himp).
  destruct (pat_match p rel isdir); apply IH; [tauto | exact Himp].
Qed.

Lemma lm_pos extra rel isdir : Forall pos_line extra -> last_match extra rel isdir (Some true) = Some true.
Proof.
  induction extra as [|l r IH]; intros H; [reflexivity|].
  inversion H as [|? ? Hl Hr]; subst.
  destruct l as [| |p]; cbn [last_match]; try (apply IH; exact Hr).
  destruct (pat_match p rel isdir); [|apply IH; exact Hr].
  cbn in Hl. rewrite Hl. apply IH; exact Hr.
Qed.

Lemma lm_pos_hit extra rel isdir p : Forall pos_line extra -> In (LPat p) extra -> g_neg p = false ->
  pat_match p rel isdir = true -> forall acc, last_match extra rel isdir acc = Some true.
Proof.
  induction extra as [|l r IH]; intros Hall Hin Hneg Hm acc; [contradiction|].
  inversion Hall as [|? ? Hl Hr]; subst.
  destruct Hin as [E|Hin].
  - subst l. cbn [last_match]. rewrite Hm, Hneg. apply lm_pos; exact Hr.
  - destruct l as [| |q]; cbn [last_match]; apply IH; assumption.
Qed.

(* gf' has, in every file, the lines of gf followed by lines that are not negations *)
Definition ext_pos (gf gf' : gfiles) : Prop :=
  forall d, exists extra, plines (content gf' d) = plines (content gf d) ++ extra /\ Forall pos_line extra.

Lemma ext_pos_refl gf : ext_pos gf gf.
Proof. intros d. exists []. now rewrite app_nil_r. Qed.

Lemma ext_pos_trans a b c : ext_pos a b -> ext_pos b c -> ext_pos a c.
Proof.
  intros H1 H2 d. destruct (H1 d) as (e1 & E1 & F1). destruct (H2 d) as (e2 & E2 & F2).
  exists (e1 ++ e2). rewrite E2, E1, app_assoc. split; [reflexivity | now apply Forall_app].
Qed.

Lemma excl_from_mono gf gf' : ext_pos gf gf' -> forall rest pre isdir acc acc',
  (acc = Some true -> acc' = Some true) ->
  excl_from gf pre rest isdir acc = Some true -> excl_from gf' pre rest isdir acc' = Some true.
Proof.
  intros Hext. induction rest as [|n r IH]; intros pre isdir acc acc' Himp; cbn [excl_from]; [exact Himp|].
  apply IH. destruct (Hext pre) as (extra & E & F). rewrite E, lm_app.
  intros H. eapply lm_mono in H; [|exact Himp].
  rewrite H. apply lm_pos; exact F.
Qed.

Lemma excluded_mono gf gf' q isdir : ext_pos gf gf' -> excluded gf q isdir = true -> excluded gf' q isdir = true.
Proof.
  intros Hext. unfold excluded.
  destruct (excl_from gf [] q isdir None) as [[|]|] eqn:E; try discriminate. intros _.
  rewrite (excl_from_mono gf gf' Hext q [] isdir None None (fun x => x) E). reflexivity.
Qed.

Lemma ign_from_mono gf gf' isdir : ext_pos gf gf' -> forall rest pre,
  ign_from gf isdir pre rest = true -> ign_from gf' isdir pre rest = true.
Proof.
  intros Hext. induction rest as [|n r IH]; intros pre; [discriminate|].
  destruct r as [|m r'].
  - cbn [ign_from]. apply excluded_mono; exact Hext.
  - change (ign_from gf isdir pre (n :: m :: r')) with (excluded gf (pre ++ [n]) true || ign_from gf isdir (pre ++ [n]) (m :: r')).
    change (ign_from gf' isdir pre (n :: m :: r')) with (excluded gf' (pre ++ [n]) true || ign_from gf' isdir (pre ++ [n]) (m :: r')).
    intros H. apply orb_true_iff in H as [H|H]; apply orb_true_iff.
    + left. eapply excluded_mono; eassumption.
    + right. apply IH. exact H.
Qed.

(* an ignored path stays ignored when positive lines are appended *)
Lemma ignored_mono gf gf' p : ext_pos gf gf' -> ignored gf p = true -> ignored gf' p = true.
Proof. intros H. apply ign_from_mono; exact H. Qed.

(* ---- matching a written name ------------------------------------------------------------------- *)
Lemma wm_star_step p' s :
  wm (TStar :: p') s = wm p' s || match s with [] => false | _ :: s' => wm (TStar :: p') s' end.
Proof. destruct s; reflexivity. Qed.

(* an unescaped plain name matches itself (`*` and `?` of the name act as wildcards, and match themselves too) *)
Lemma wm_tok_refl n : existsb (N.eqb c_slash) n = false -> wm (map tok_of n) n = true.
Proof.
  induction n as [|c r IH]; intros H; [reflexivity|].
  cbn [existsb] in H. apply orb_false_iff in H as [Hc Hr]. specialize (IH Hr).
  cbn [map]. unfold tok_of at 1.
  destruct (N.eqb c c_star) eqn:E1.
  - rewrite wm_star_step. rewrite wm_star_step. rewrite IH. apply orb_true_iff. right. reflexivity.
  - destruct (N.eqb c c_q) eqn:E2; [exact IH|].
    rewrite N.eqb_sym in Hc. rewrite Hc. cbn [wm]. rewrite N.eqb_refl, IH. reflexivity.
Qed.

(* the tokens of an escaped name match the name *)
Lemma wm_name_toks n : wm (name_toks n) n = true.
Proof.
  induction n as [|b r IH]; [reflexivity|].
  assert (H1 : forall t s, wm t s = true -> wm (ntok1 b :: t) (b :: s) = true).
  { intros t s H. unfold ntok1. destruct (N.eqb b c_nl); cbn [wm]; [exact H | now rewrite N.eqb_refl, H]. }
  destruct r as [|c r'].
  - cbn [name_toks]. destruct (N.eqb b c_cr); [reflexivity | now apply H1].
  - rewrite name_toks_cons. apply H1. exact IH.
Qed.

(* literal tokens match exactly the bytes *)
Lemma wm_lit n : forall s, wm (map TLit n) s = true <-> s = n.
Proof.
  induction n as [|b r IH]; intros s; cbn [map wm].
  - destruct s; cbn [is_empty]; split; intros H; try reflexivity; discriminate.
  - destruct s as [|x s']; [split; discriminate|].
    rewrite andb_true_iff, N.eqb_eq, IH. split; [intros [-> ->]; reflexivity | intros H; injection H as -> ->; split; reflexivity].
Qed.

Lemma name_toks_strict n : existsb (N.eqb c_nl) n = false ->
  (match last_byte n with Some b => N.eqb b c_cr | None => false end) = false -> name_toks n = map TLit n.
Proof.
  induction n as [|b r IH]; intros Hnl Hcr; [reflexivity|].
  cbn [existsb] in Hnl. apply orb_false_iff in Hnl as [Hb Hr]. rewrite N.eqb_sym in Hb.
  destruct r as [|c r'].
  - cbn [name_toks last_byte] in *. rewrite Hcr. unfold ntok1. rewrite Hb. reflexivity.
  - rewrite name_toks_cons. unfold ntok1 at 1. rewrite Hb. cbn [map]. f_equal. apply IH; [exact Hr | exact Hcr].
Qed.

Lemma wtoks_match sn n : name_ok sn n = true -> wm (wtoks sn n) n = true.
Proof.
  destruct sn; cbn [name_ok wtoks]; intros H; [apply wm_name_toks|].
  apply wm_tok_refl. now destruct (plain_name_parts n H) as (_ & _ & Hs & _).
Qed.

Lemma name_pat_match dir t n isdir : wm t n = true -> (dir = false \/ isdir = true) -> pat_match (name_pat dir t) [n] isdir = true.
Proof.
  intros Hw H. unfold pat_match, name_pat. cbn [g_dir g_anch g_segs pm]. rewrite Hw.
  destruct H as [-> | ->]; [reflexivity | now rewrite orb_true_r].
Qed.

(* the anchored one-segment pattern of literal tokens matches the one path [n] and nothing else *)
Lemma name_pat_exact dir n q isdir : pat_match (name_pat dir (map TLit n)) q isdir = true <-> (q = [n] /\ (dir = false \/ isdir = true)).
Proof.
  unfold pat_match, name_pat. cbn [g_dir g_anch g_segs pm]. rewrite andb_true_iff.
  split.
  - intros [Hd Hm]. destruct q as [|c [|c' q']]; try discriminate.
    + rewrite andb_true_r in Hm. apply wm_lit in Hm. subst c. split; [reflexivity|].
      destruct dir; [right | now left]. exact Hd.
    + rewrite andb_false_r in Hm. discriminate.
  - intros [-> Hd]. split; [destruct Hd as [-> | ->]; [reflexivity | apply orb_true_r]|].
    rewrite andb_true_r. now apply wm_lit.
Qed.

Lemma excl_from_snoc gf n isdir : forall d pre acc,
  exists acc0, excl_from gf pre (d ++ [n]) isdir acc = last_match (plines (content gf (pre ++ d))) [n] isdir acc0.
Proof.
  induction d as [|x d' IH]; intros pre acc.
  - cbn [app excl_from]. rewrite app_nil_r. eexists. reflexivity.
  - cbn [app excl_from]. destruct (IH (pre ++ [x]) (last_match (plines (content gf pre)) (x :: d' ++ [n]) isdir acc)) as (acc0 & E).
    exists acc0. rewrite E, <- app_assoc. reflexivity.
Qed.

(* the file of directory [par] ends (after what it had in gf0) with positive lines one of which is [l] *)
Definition has_rule (gf0 gf : gfiles) (par : gpath) (l : pline) : Prop :=
  exists extra, plines (content gf par) = plines (content gf0 par) ++ extra /\ Forall pos_line extra /\ In l extra.

Lemma has_rule_then gf0 gf gf' par l : has_rule gf0 gf par l -> ext_pos gf gf' -> has_rule gf0 gf' par l.
Proof.
  intros (e1 & E1 & F1 & I1) H. destruct (H par) as (e2 & E2 & F2).
  exists (e1 ++ e2). rewrite E2, E1, app_assoc. repeat split; [now apply Forall_app | apply in_or_app; now left].
Qed.

Lemma has_rule_after gf0 gf gf' par l : ext_pos gf0 gf -> has_rule gf gf' par l -> has_rule gf0 gf' par l.
Proof.
  intros H (e2 & E2 & F2 & I2). destruct (H par) as (e1 & E1 & F1).
  exists (e1 ++ e2). rewrite E2, E1, app_assoc. repeat split; [now apply Forall_app | apply in_or_app; now right].
Qed.

Lemma rule_excludes gf0 gf par t (n : gname) dir isdir :
  has_rule gf0 gf par (LPat (name_pat dir t)) -> wm t n = true -> (dir = false \/ isdir = true) ->
  excluded gf (par ++ [n]) isdir = true.
Proof.
  intros (extra & E & F & I) Hw Hd. unfold excluded.
  destruct (excl_from_snoc gf n isdir par [] None) as (acc0 & Es). rewrite Es. cbn [app].
  rewrite E, lm_app.
  rewrite (lm_pos_hit extra [n] isdir (name_pat dir t) F I eq_refl (name_pat_match dir t n isdir Hw Hd)). reflexivity.
Qed.

Lemma ign_from_last gf isdir : forall rest pre, rest <> [] ->
  excluded gf (pre ++ rest) isdir = true -> ign_from gf isdir pre rest = true.
Proof.
  induction rest as [|n r IH]; intros pre Hne H; [congruence|].
  destruct r as [|m r'].
  - exact H.
  - change (ign_from gf isdir pre (n :: m :: r')) with (excluded gf (pre ++ [n]) true || ign_from gf isdir (pre ++ [n]) (m :: r')).
    apply orb_true_iff. right. apply IH; [discriminate|]. rewrite <- app_assoc. exact H.
Qed.

Lemma ign_from_ancestor gf isdir : forall d pre rest, d <> [] -> rest <> [] ->
  excluded gf (pre ++ d) true = true -> ign_from gf isdir pre (d ++ rest) = true.
Proof.
  induction d as [|n d' IH]; intros pre rest Hd Hr H; [congruence|].
  destruct d' as [|m d''].
  - destruct rest as [|r0 rest']; [congruence|].
    change (ign_from gf isdir pre ([n] ++ r0 :: rest')) with (excluded gf (pre ++ [n]) true || ign_from gf isdir (pre ++ [n]) (r0 :: rest')).
    rewrite H. reflexivity.
  - change (ign_from gf isdir pre ((n :: m :: d'') ++ rest))
      with (excluded gf (pre ++ [n]) true || ign_from gf isdir (pre ++ [n]) ((m :: d'') ++ rest)).
    apply orb_true_iff. right. apply IH; [discriminate | exact Hr |]. rewrite <- app_assoc. exact H.
Qed.

(* ---- writes keep the old lines and add positive ones ------------------------------------------- *)
Lemma ends_nl_app_block x ls date : ends_nl (x ++ block ls date) = true.
Proof. unfold block. rewrite !app_assoc. apply ends_nl_snoc. Qed.

Section Edit2.
Variable RT : Type.
Variable build : env -> gfiles -> option RT.
Variable chk : RT -> bytes -> verdict.
Variable fixed_nl fixed_P5 fixed_sn fixed_em : bool.

(* every .gitignore ends with a line break, or the writer repairs an unterminated last line *)
Definition nl_ok (gf : gfiles) : Prop := fixed_nl = true \/ forall d, ends_nl (content gf d) = true.

Lemma all_end_nl_content gf : all_end_nl gf = true -> forall d, ends_nl (content gf d) = true.
Proof.
  induction gf as [|[k v] r IH]; intros H d; [reflexivity|].
  cbn [all_end_nl forallb snd] in H. apply andb_true_iff in H as [Hv Hr].
  cbn [content]. destruct (path_eqb k d); [exact Hv | apply IH; exact Hr].
Qed.

Lemma plines_write old ls date :
  (fixed_nl = true \/ ends_nl old = true) ->
  plines (old ++ sep_for fixed_nl old ++ block ls date) = plines old ++ plines (block ls date).
Proof.
  intros H. unfold plines, sep_for.
  destruct (ends_nl old) eqn:E.
  - rewrite andb_false_r. cbn [app]. rewrite glines_app_nl by exact E. apply map_app.
  - destruct H as [-> | H]; [|discriminate]. cbn [andb negb].
    destruct old as [|x r]; [discriminate|].
    change ((x :: r) ++ [c_nl] ++ block ls date) with ((x :: r) ++ c_nl :: block ls date).
    replace ((x :: r) ++ c_nl :: block ls date) with (((x :: r) ++ [c_nl]) ++ block ls date) by (rewrite <- app_assoc; reflexivity).
    rewrite glines_app_nl by apply ends_nl_snoc.
    rewrite glines_add_nl by (try discriminate; exact E). apply map_app.
Qed.

Definition good_group (g : gpath * list bytes) : Prop := snd g <> [] /\ Forall good_line (snd g).

Lemma write_one gf d ls date :
  nl_ok gf -> has_nl date = false -> good_group (d, ls) ->
  let gf' := append_to gf d (sep_for fixed_nl (content gf d) ++ block ls date) in
  ext_pos gf gf' /\ nl_ok gf' /\ forall l, In l ls -> has_rule gf gf' d (parse_line l).
Proof.
  intros Hnl Hd [Hne Hg] gf'. cbn [snd] in Hne, Hg.
  assert (Hcond : fixed_nl = true \/ ends_nl (content gf d) = true) by (destruct Hnl as [H|H]; [now left | right; apply H]).
  destruct (plines_block ls date Hne Hd Hg) as [Epl Fpl].
  assert (Econt : content gf' d = content gf d ++ sep_for fixed_nl (content gf d) ++ block ls date).
  { unfold gf'. rewrite content_append_to, path_eqb_refl. reflexivity. }
  split; [|split].
  - intros d'. destruct (path_eqb d d') eqn:E.
    + apply path_eqb_spec in E. subst d'. exists (plines (block ls date)).
      rewrite Econt, plines_write by exact Hcond. split; [reflexivity | exact Fpl].
    + exists []. unfold gf'. rewrite content_append_to, E, app_nil_r. split; [reflexivity | constructor].
  - destruct Hnl as [H|H]; [now left | right]. intros d'. unfold gf'. rewrite content_append_to.
    destruct (path_eqb d d'); [|apply H]. rewrite app_assoc. apply ends_nl_app_block.
  - intros l Hl. exists (plines (block ls date)). rewrite Econt, plines_write by exact Hcond.
    split; [reflexivity|]. split; [exact Fpl|]. rewrite Epl. right. apply in_map. exact Hl.
Qed.

Lemma write_blocks_ok groups date : has_nl date = false -> forall gf,
  nl_ok gf -> Forall good_group groups ->
  let gf' := write_blocks fixed_nl gf groups date in
  ext_pos gf gf' /\ nl_ok gf' /\
  forall d ls l, In (d, ls) groups -> In l ls -> has_rule gf gf' d (parse_line l).
Proof.
  intros Hd. induction groups as [|[d0 ls0] r IH]; intros gf Hnl Hg; cbn [write_blocks fold_left].
  - split; [apply ext_pos_refl|]. split; [exact Hnl|]. intros ? ? ? [].
  - inversion Hg as [|? ? Hg0 Hgr]; subst. cbn [fst snd].
    destruct (write_one gf d0 ls0 date Hnl Hd Hg0) as (E1 & N1 & R1).
    set (gf1 := append_to gf d0 (sep_for fixed_nl (content gf d0) ++ block ls0 date)) in *.
    destruct (IH gf1 N1 Hgr) as (E2 & N2 & R2).
    split; [eapply ext_pos_trans; eassumption|]. split; [exact N2|].
    intros d ls l [Eg|Hin] Hl.
    + injection Eg as -> ->. eapply has_rule_then; [apply R1; exact Hl | exact E2].
    + eapply has_rule_after; [exact E1 | eapply R2; eassumption].
Qed.

(* ---- grouping ---------------------------------------------------------------------------------- *)
Lemma group_add_new g d l : exists ls, In (d, ls) (group_add g d l) /\ In l ls.
Proof.
  induction g as [|[k ks] r IH]; cbn [group_add].
  - exists [l]. split; now left.
  - destruct (path_eqb k d) eqn:E.
    + apply path_eqb_spec in E. subst k. exists (ks ++ [l]). split; [now left | apply in_or_app; right; now left].
    + destruct IH as (ls & H1 & H2). exists ls. split; [now right | exact H2].
Qed.

Lemma group_add_keeps g d l d0 ls0 l0 : In (d0, ls0) g -> In l0 ls0 ->
  exists ls', In (d0, ls') (group_add g d l) /\ In l0 ls'.
Proof.
  induction g as [|[k ks] r IH]; intros Hin Hl; [contradiction|]. cbn [group_add].
  destruct Hin as [E|Hin].
  - injection E as -> ->. destruct (path_eqb d0 d).
    + exists (ls0 ++ [l]). split; [now left | apply in_or_app; now left].
    + exists ls0. split; [now left | exact Hl].
  - destruct (IH Hin Hl) as (ls' & H1 & H2). destruct (path_eqb k d).
    + exists ls0. split; [now right | exact Hl].
    + exists ls'. split; [now right | exact H2].
Qed.

Lemma group_fold_In items : forall g0 d l,
  (In (d, l) items \/ exists ls, In (d, ls) g0 /\ In l ls) ->
  exists ls, In (d, ls) (fold_left (fun g it => group_add g (fst it) (snd it)) items g0) /\ In l ls.
Proof.
  induction items as [|[d1 l1] r IH]; intros g0 d l H; cbn [fold_left fst snd].
  - destruct H as [[]|H]; exact H.
  - apply IH. destruct H as [[E|Hin]|(ls & H1 & H2)].
    + injection E as -> ->. right. apply group_add_new.
    + now left.
    + right. eapply group_add_keeps; eassumption.
Qed.

Lemma group_In items d l : In (d, l) items -> exists ls, In (d, ls) (group items) /\ In l ls.
Proof. intros H. apply group_fold_In. now left. Qed.

Lemma group_add_good g d l : Forall good_group g -> good_line l -> Forall good_group (group_add g d l).
Proof.
  induction g as [|[k ks] r IH]; intros Hg Hl; cbn [group_add].
  - constructor; [|constructor]. split; cbn [snd]; [discriminate | constructor; [exact Hl | constructor]].
  - inversion Hg as [|? ? [Hk1 Hk2] Hr]; subst. cbn [snd] in Hk1, Hk2. destruct (path_eqb k d).
    + constructor; [|exact Hr]. split; cbn [snd].
      * destruct ks; discriminate.
      * apply Forall_app. split; [exact Hk2 | constructor; [exact Hl | constructor]].
    + constructor; [split; assumption | apply IH; assumption].
Qed.

Lemma group_good items : Forall (fun it => good_line (snd it)) items -> Forall good_group (group items).
Proof.
  unfold group. assert (H0 : Forall good_group []) by constructor. revert H0. generalize (@nil (gpath * list bytes)).
  induction items as [|it r IH]; intros g0 H0 H; cbn [fold_left]; [exact H0|].
  inversion H as [|? ? Hi Hr]; subst. apply IH; [apply group_add_good; assumption | exact Hr].
Qed.

(* ---- one update stage -------------------------------------------------------------------------- *)
Notation update_files := (Model.update_files RT chk fixed_nl fixed_sn fixed_em).
Notation update_dirs := (Model.update_dirs RT chk fixed_nl fixed_sn fixed_em).
Notation keep_file := (Model.keep_file RT chk fixed_em).
Notation keep_dir := (Model.keep_dir RT chk fixed_em).
Notation keep_files := (Model.keep_files RT chk fixed_em).
Notation keep_dirs := (Model.keep_dirs RT chk fixed_em).
Notation collect := (Model.collect RT chk fixed_em).
Notation path_ok := (Model.path_ok fixed_sn).
Notation name_ok := (Model.name_ok fixed_sn).
Notation wf_cmd := (Model.wf_cmd fixed_sn).

Lemma update_files_ok R gf files date :
  nl_ok gf -> has_nl date = false -> forallb path_ok files = true ->
  let gf' := update_files R gf files date in
  ext_pos gf gf' /\ nl_ok gf' /\
  forall par n, In (par ++ [n]) files -> name_ok n = true -> keep_file R gf (par ++ [n]) = true ->
    has_rule gf gf' par (LPat (name_pat false (wtoks fixed_sn n))).
Proof.
  intros Hnl Hd Hp gf'. unfold gf', Model.update_files.
  assert (Hgood : Forall good_group (group (map (file_item fixed_sn) (keep_files R gf files)))).
  { apply group_good. apply Forall_map. apply Forall_forall. intros f Hf.
    apply filter_In in Hf as [Hf _]. apply file_item_good. eapply forallb_forall in Hp; eassumption. }
  destruct (write_blocks_ok _ date Hd gf Hnl Hgood) as (E & N & Rr).
  split; [exact E|]. split; [exact N|].
  intros par n Hin Hn Hc.
  assert (Hk : In (par ++ [n]) (keep_files R gf files)) by (apply filter_In; split; [exact Hin | exact Hc]).
  assert (Hit : file_item fixed_sn (par ++ [n]) = (par, c_slash :: wname fixed_sn n)).
  { unfold file_item. destruct (split_last_spec (par ++ [n])) as (par' & n' & Es & Ep); [destruct par; discriminate|].
    apply app_inj_tail in Ep as [-> ->]. rewrite Es. reflexivity. }
  assert (Hmem : In (par, c_slash :: wname fixed_sn n) (map (file_item fixed_sn) (keep_files R gf files))) by (rewrite <- Hit; apply in_map; exact Hk).
  destruct (group_In _ par (c_slash :: wname fixed_sn n) Hmem) as (ls & Hg & Hl).
  rewrite <- (parse_file_line fixed_sn n Hn). eapply Rr; eassumption.
Qed.

Lemma update_dirs_ok R gf dirs date :
  nl_ok gf -> has_nl date = false -> forallb path_ok dirs = true ->
  let gf' := update_dirs R gf dirs date in
  ext_pos gf gf' /\ nl_ok gf' /\
  forall par n, In (par ++ [n]) dirs -> name_ok n = true -> keep_dir R gf (par ++ [n]) = true ->
    has_rule gf gf' par (LPat (name_pat true (wtoks fixed_sn n))).
Proof.
  intros Hnl Hd Hp gf'. unfold gf', Model.update_dirs.
  assert (Hgood : Forall good_group (group (map (dir_item fixed_sn) (keep_dirs R gf dirs)))).
  { apply group_good. apply Forall_map. apply Forall_forall. intros f Hf.
    apply filter_In in Hf as [Hf _]. apply dir_item_good. eapply forallb_forall in Hp; eassumption. }
  destruct (write_blocks_ok _ date Hd gf Hnl Hgood) as (E & N & Rr).
  split; [exact E|]. split; [exact N|].
  intros par n Hin Hn Hc.
  assert (Hk : In (par ++ [n]) (keep_dirs R gf dirs)) by (apply filter_In; split; [exact Hin | exact Hc]).
  assert (Hit : dir_item fixed_sn (par ++ [n]) = (par, [c_slash] ++ wname fixed_sn n ++ [c_slash])).
  { unfold dir_item. destruct (split_last_spec (par ++ [n])) as (par' & n' & Es & Ep); [destruct par; discriminate|].
    apply app_inj_tail in Ep as [-> ->]. rewrite Es. reflexivity. }
  assert (Hmem : In (par, [c_slash] ++ wname fixed_sn n ++ [c_slash]) (map (dir_item fixed_sn) (keep_dirs R gf dirs))) by (rewrite <- Hit; apply in_map; exact Hk).
  destruct (group_In _ par ([c_slash] ++ wname fixed_sn n ++ [c_slash]) Hmem) as (ls & Hg & Hl).
  rewrite <- (parse_dir_line fixed_sn n Hn). eapply Rr; eassumption.
Qed.

(* ---- commands ---------------------------------------------------------------------------------- *)
Notation run_cmd := (Model.run_cmd RT build chk fixed_nl fixed_P5 fixed_sn fixed_em).
Notation run_cmds := (Model.run_cmds RT build chk fixed_nl fixed_P5 fixed_sn fixed_em).
Notation K_white := (K_user_whitelist RT build chk fixed_nl fixed_sn fixed_em).
Notation K_mism := (K_engine_mismatch RT build chk fixed_nl fixed_sn fixed_em).

Lemma mem_path_In p l : mem_path p l = true <-> In p l.
Proof.
  induction l as [|x r IH]; cbn [mem_path]; [split; [discriminate | contradiction]|].
  rewrite orb_true_iff, IH, path_eqb_spec. reflexivity.
Qed.

Lemma collect_plain R0 ops : forall ds fs,
  forallb path_ok (map op_path ops) = true -> forallb path_ok ds = true -> forallb path_ok fs = true ->
  forallb path_ok (fst (collect R0 ops ds fs)) = true /\ forallb path_ok (snd (collect R0 ops ds fs)) = true.
Proof.
  induction ops as [|o r IH]; intros ds fs Ho Hd Hf; cbn [Model.collect]; [split; assumption|].
  cbn [map forallb] in Ho. apply andb_true_iff in Ho as [Ho Hr].
  destruct o as [d|f]; cbn [op_path] in Ho.
  - destruct (negb (mem_path d ds) && passes fixed_em (chk R0 (render d))); apply IH; try assumption.
    rewrite forallb_app, Hd. cbn. now rewrite Ho.
  - destruct (negb (mem_path f fs) && passes fixed_em (chk R0 (render f))); apply IH; try assumption.
    rewrite forallb_app, Hf. cbn. now rewrite Ho.
Qed.

Lemma collect_file R0 f ops : forall ds fs,
  (In f fs \/ In (IgnFile f) ops) -> passes fixed_em (chk R0 (render f)) = true -> In f (snd (collect R0 ops ds fs)).
Proof.
  induction ops as [|o r IH]; intros ds fs H Hc; cbn [Model.collect].
  - destruct H as [H|[]]. exact H.
  - destruct o as [d|g].
    + destruct (negb (mem_path d ds) && passes fixed_em (chk R0 (render d))); apply IH; try exact Hc;
        (destruct H as [H|[E|H]]; [now left | discriminate | now right]).
    + destruct (negb (mem_path g fs) && passes fixed_em (chk R0 (render g))) eqn:Eg; apply IH; try exact Hc.
      * destruct H as [H|[E|H]]; [left; apply in_or_app; now left | | now right].
        injection E as ->. left. apply in_or_app. right. now left.
      * destruct H as [H|[E|H]]; [now left | | now right].
        injection E as ->. rewrite Hc in Eg. rewrite andb_true_r in Eg.
        apply negb_false_iff in Eg. left. now apply mem_path_In.
Qed.

Lemma wf_cmd_parts c : wf_cmd c = true -> forallb path_ok (cmd_paths c) = true /\ has_nl (e_date (cmd_env c)) = false.
Proof. unfold Model.wf_cmd. intros H. apply andb_true_iff in H as [H1 H2]. split; [exact H1 | now apply negb_true_iff in H2]. Qed.

(* one command keeps every old line and adds only positive ones *)
Lemma run_cmd_stable gf c : nl_ok gf -> wf_cmd c = true ->
  ext_pos gf (fst (run_cmd gf c)) /\ nl_ok (fst (run_cmd gf c)).
Proof.
  intros Hnl Hwf. destruct (wf_cmd_parts c Hwf) as [Hp Hd].
  destruct c as [e dirs files | e ops | e dests]; cbn [cmd_paths cmd_env] in Hp, Hd; cbn [Model.run_cmd].
  - rewrite forallb_app in Hp. apply andb_true_iff in Hp as [Hpd Hpf].
    destruct (build e gf) as [R1|]; cbn [fst]; [|split; [apply ext_pos_refl | exact Hnl]].
    destruct (update_dirs_ok R1 gf dirs (e_date e) Hnl Hd Hpd) as (E1 & N1 & _).
    destruct (build e (update_dirs R1 gf dirs (e_date e))) as [R2|]; cbn [fst]; [|split; assumption].
    destruct (update_files_ok R2 _ files (e_date e) N1 Hd Hpf) as (E2 & N2 & _).
    split; [eapply ext_pos_trans; eassumption | exact N2].
  - destruct (build e gf) as [R0|]; cbn [fst]; [|split; [apply ext_pos_refl | exact Hnl]].
    destruct (collect_plain R0 ops [] [] Hp eq_refl eq_refl) as [Hpd Hpf].
    destruct (collect R0 ops [] []) as [ds fs]. cbn [fst snd] in Hpd, Hpf.
    destruct (update_dirs_ok R0 gf ds (e_date e) Hnl Hd Hpd) as (E1 & N1 & _).
    destruct (build e (update_dirs R0 gf ds (e_date e))) as [R1|]; cbn [fst]; [|split; assumption].
    destruct (update_files_ok R1 _ fs (e_date e) N1 Hd Hpf) as (E2 & N2 & _).
    split; [eapply ext_pos_trans; eassumption | exact N2].
  - destruct fixed_P5; cbn [fst]; [|split; [apply ext_pos_refl | exact Hnl]].
    destruct (build e gf) as [R|]; cbn [fst]; [|split; [apply ext_pos_refl | exact Hnl]].
    destruct (update_files_ok R gf dests (e_date e) Hnl Hd Hp) as (E2 & N2 & _). split; assumption.
Qed.

Lemma run_cmds_stable cs : forall gf, nl_ok gf -> forallb wf_cmd cs = true ->
  ext_pos gf (run_cmds gf cs) /\ nl_ok (run_cmds gf cs).
Proof.
  induction cs as [|c r IH]; intros gf Hnl Hwf; cbn [Model.run_cmds]; [split; [apply ext_pos_refl | exact Hnl]|].
  cbn [forallb] in Hwf. apply andb_true_iff in Hwf as [Hc Hr].
  destruct (run_cmd_stable gf c Hnl Hc) as [E1 N1]. destruct (IH _ N1 Hr) as [E2 N2].
  split; [eapply ext_pos_trans; eassumption | exact N2].
Qed.

(* ignored_stable: what Git ignores stays ignored through every sequence of xvc commands *)
Lemma ignored_stable cs gf p : nl_ok gf -> forallb wf_cmd cs = true ->
  ignored gf p = true -> ignored (run_cmds gf cs) p = true.
Proof. intros Hnl Hwf. apply ignored_mono. apply run_cmds_stable; assumption. Qed.

(* a file that gets its rule is ignored afterwards *)
Lemma kept_file_ignored R gf1 files date f :
  nl_ok gf1 -> has_nl date = false -> forallb path_ok files = true -> In f files ->
  keep_file R gf1 f = true -> ignored (update_files R gf1 files date) f = true.
Proof.
  intros Hnl Hd Hp Hin Hk.
  destruct (update_files_ok R gf1 files date Hnl Hd Hp) as (E & N & Rr).
  assert (Hpf : path_ok f = true) by (eapply forallb_forall in Hp; eassumption).
  destruct (path_ok_last fixed_sn f Hpf) as (par & n & _ & Ef & Hn). subst f.
  unfold ignored. apply ign_from_last; [destruct par; discriminate|]. cbn [app].
  eapply rule_excludes; [apply (Rr par n); assumption | apply wtoks_match; exact Hn | now left].
Qed.

(* the decision of one stage: not whitelisted by xvc's matcher and no engine mismatch (only possible
   without repo-patches/76) => ignored after the stage *)
Lemma stage_ok R gf1 files date f :
  nl_ok gf1 -> has_nl date = false -> forallb path_ok files = true -> In f files ->
  is_whitelist (chk R (render f)) = false ->
  negb fixed_em && (is_ignore (chk R (render f)) && negb (ignored gf1 f)) = false ->
  ignored (update_files R gf1 files date) f = true.
Proof.
  intros Hnl Hd Hp Hin Hw Hm.
  destruct (update_files_ok R gf1 files date Hnl Hd Hp) as (E & N & _).
  destruct (ignored gf1 f) eqn:Ei; [eapply ignored_mono; eassumption|].
  apply kept_file_ignored; try assumption.
  unfold Model.keep_file. destruct fixed_em.
  - rewrite Ei, Hw. reflexivity.
  - cbn [negb andb] in Hm. rewrite andb_true_r in Hm.
    destruct (chk R (render f)); [reflexivity | discriminate | discriminate].
Qed.

Definition is_move (c : cmd) : bool := match c with CMoveRename _ _ => true | _ => false end.

(* tracked_paths_git_ignored, one command: a file target outside the two classes is ignored by Git
   after the command *)
Lemma cmd_targets_ignored gf c f :
  nl_ok gf -> wf_cmd c = true -> snd (run_cmd gf c) = true -> (is_move c = true -> fixed_P5 = true) ->
  In f (file_targets c) -> K_white gf c f = false -> K_mism gf c f = false ->
  ignored (fst (run_cmd gf c)) f = true.
Proof.
  intros Hnl Hwf Hok Hmv Hin Hkw Hkm. destruct (wf_cmd_parts c Hwf) as [Hp Hd].
  destruct c as [e dirs files | e ops | e dests]; cbn [cmd_paths cmd_env file_targets is_move] in *;
    unfold K_user_whitelist, K_engine_mismatch in Hkw, Hkm; cbn [Model.run_cmd Model.file_stage] in *.
  - rewrite forallb_app in Hp. apply andb_true_iff in Hp as [Hpd Hpf].
    destruct (build e gf) as [R1|]; [|discriminate].
    destruct (update_dirs_ok R1 gf dirs (e_date e) Hnl Hd Hpd) as (E1 & N1 & _).
    destruct (build e (update_dirs R1 gf dirs (e_date e))) as [R2|]; [|discriminate].
    cbn [fst orb] in *. apply stage_ok; assumption.
  - destruct (build e gf) as [R0|]; [|discriminate].
    destruct (collect_plain R0 ops [] [] Hp eq_refl eq_refl) as [Hpd Hpf].
    assert (Hcf := collect_file R0 f ops [] []).
    destruct (collect R0 ops [] []) as [ds fs]. cbn [fst snd] in *.
    destruct (update_dirs_ok R0 gf ds (e_date e) Hnl Hd Hpd) as (E1 & N1 & _).
    destruct (build e (update_dirs R0 gf ds (e_date e))) as [R1|]; [|discriminate].
    cbn [fst] in *. apply orb_false_iff in Hkw as [Hw0 Hw1].
    assert (Hf : In (IgnFile f) ops).
    { clear - Hin. induction ops as [|o r IH]; [contradiction|]. cbn [flat_map] in Hin. apply in_app_or in Hin as [H|H].
      - destruct o; [contradiction|]. destruct H as [->|[]]. now left.
      - right. now apply IH. }
    destruct (update_files_ok R1 _ fs (e_date e) N1 Hd Hpf) as (E2 & _ & _).
    assert (Hcase : fixed_em = true \/ fixed_em = false) by (destruct fixed_em; auto).
    destruct Hcase as [Eem|Eem].
    + (* everything but Whitelist reaches the writer *)
      apply stage_ok; try assumption; [|rewrite Eem; reflexivity].
      apply Hcf; [now right|]. unfold passes. rewrite Eem, Hw0. reflexivity.
    + rewrite Eem in Hkm. cbn [negb andb] in Hkm. apply orb_false_iff in Hkm as [Hm0 Hm1].
      destruct (chk R0 (render f)) eqn:Ev0.
      * apply stage_ok; try assumption; [|rewrite Eem; cbn [negb andb]; exact Hm1].
        apply Hcf; [now right|]. unfold passes. rewrite Eem. reflexivity.
      * cbn [is_ignore andb] in Hm0. apply negb_false_iff in Hm0.
        exact (ignored_mono gf _ f (ext_pos_trans _ _ _ E1 E2) Hm0).
      * discriminate.
  - rewrite (Hmv eq_refl) in *. destruct (build e gf) as [R|]; [|discriminate].
    cbn [fst orb] in *. apply stage_ok; assumption.
Qed.

(* the files below a directory target whose rule was written *)
Lemma track_dir_contents_ignored gf e dirs files par n rest R1 :
  nl_ok gf -> wf_cmd (CTrack e dirs files) = true -> build e gf = Some R1 ->
  In (par ++ [n]) dirs -> keep_dir R1 gf (par ++ [n]) = true -> rest <> [] ->
  ignored (fst (run_cmd gf (CTrack e dirs files))) (par ++ [n] ++ rest) = true.
Proof.
  intros Hnl Hwf Hb Hin Hc Hr. destruct (wf_cmd_parts _ Hwf) as [Hp Hd]. cbn [cmd_paths cmd_env] in Hp, Hd.
  rewrite forallb_app in Hp. apply andb_true_iff in Hp as [Hpd Hpf].
  assert (Hpn : name_ok n = true).
  { eapply forallb_forall in Hpd; [|exact Hin]. destruct (path_ok_last fixed_sn _ Hpd) as (par' & n' & _ & Ep & Hn').
    apply app_inj_tail in Ep as [_ <-]. exact Hn'. }
  cbn [Model.run_cmd]. rewrite Hb.
  destruct (update_dirs_ok R1 gf dirs (e_date e) Hnl Hd Hpd) as (E1 & N1 & Rr).
  assert (Hx : excluded (update_dirs R1 gf dirs (e_date e)) (par ++ [n]) true = true)
    by (eapply rule_excludes; [apply (Rr par n); assumption | apply wtoks_match; exact Hpn | now right]).
  assert (Hi : forall gf', ext_pos (update_dirs R1 gf dirs (e_date e)) gf' -> ignored gf' (par ++ [n] ++ rest) = true).
  { intros gf' He. unfold ignored. rewrite app_assoc. apply ign_from_ancestor; [destruct par; discriminate | exact Hr |].
    cbn [app]. eapply excluded_mono; eassumption. }
  destruct (build e (update_dirs R1 gf dirs (e_date e))) as [R2|]; cbn [fst].
  - apply Hi. apply (update_files_ok R2 _ files (e_date e) N1 Hd Hpf).
  - apply Hi. apply ext_pos_refl.
Qed.

Lemma run_cmds_app cs1 cs2 : forall gf, run_cmds gf (cs1 ++ cs2) = run_cmds (run_cmds gf cs1) cs2.
Proof. induction cs1 as [|c r IH]; intros gf; [reflexivity|]. cbn [app Model.run_cmds]. apply IH. Qed.

(* tracked_paths_git_ignored over histories: a file target of ANY command of a history, outside the
   two classes when that command ran, is ignored by Git at the end of the history *)
Lemma history_targets_ignored cs1 c cs2 gf f :
  nl_ok gf -> forallb wf_cmd (cs1 ++ c :: cs2) = true ->
  let gfk := run_cmds gf cs1 in
  snd (run_cmd gfk c) = true -> (is_move c = true -> fixed_P5 = true) ->
  In f (file_targets c) -> K_white gfk c f = false -> K_mism gfk c f = false ->
  ignored (run_cmds gf (cs1 ++ c :: cs2)) f = true.
Proof.
  intros Hnl Hwf gfk Hok Hmv Hin Hkw Hkm.
  rewrite forallb_app in Hwf. apply andb_true_iff in Hwf as [Hw1 Hw2].
  cbn [forallb] in Hw2. apply andb_true_iff in Hw2 as [Hwc Hw2].
  destruct (run_cmds_stable cs1 gf Hnl Hw1) as [_ Nk]. fold gfk in Nk.
  rewrite run_cmds_app. cbn [Model.run_cmds]. fold gfk.
  destruct (run_cmd_stable gfk c Nk Hwc) as [_ Nc].
  apply ignored_stable; [exact Nc | exact Hw2|].
  apply cmd_targets_ignored; assumption.
Qed.

(* with repo-patches/76 the class of engine mismatches is empty *)
Lemma mism_empty_when_fixed gf c f : fixed_em = true -> K_mism gf c f = false.
Proof. intros H. unfold K_engine_mismatch. rewrite H. reflexivity. Qed.
End Edit2.

(* ---- both repairs: only the user's whitelisting is left ------------------------------------------ *)
Section Fixed.
Variable RT : Type.
Variable build : env -> gfiles -> option RT.
Variable chk : RT -> bytes -> verdict.
Variable fixed_nl fixed_P5 : bool.
Notation run_cmd := (Model.run_cmd RT build chk fixed_nl fixed_P5 true true).
Notation run_cmds := (Model.run_cmds RT build chk fixed_nl fixed_P5 true true).
Notation K_white := (K_user_whitelist RT build chk fixed_nl true true).

Lemma cmd_targets_ignored_fixed gf c f :
  nl_ok fixed_nl gf -> wf_cmd true c = true -> snd (run_cmd gf c) = true -> (is_move c = true -> fixed_P5 = true) ->
  In f (file_targets c) -> K_white gf c f = false ->
  ignored (fst (run_cmd gf c)) f = true.
Proof.
  intros. apply cmd_targets_ignored; try assumption. apply mism_empty_when_fixed. reflexivity.
Qed.

Lemma history_targets_ignored_fixed cs1 c cs2 gf f :
  nl_ok fixed_nl gf -> forallb (wf_cmd true) (cs1 ++ c :: cs2) = true ->
  snd (run_cmd (run_cmds gf cs1) c) = true -> (is_move c = true -> fixed_P5 = true) ->
  In f (file_targets c) -> K_white (run_cmds gf cs1) c f = false ->
  ignored (run_cmds gf (cs1 ++ c :: cs2)) f = true.
Proof.
  intros. apply history_targets_ignored; try assumption. apply mism_empty_when_fixed. reflexivity.
Qed.
End Fixed.

(* ---- the escaped line ---------------------------------------------------------------------------- *)
Lemma strict_name_parts n : strict_name n = true ->
  valid_name n = true /\ name_toks n = map TLit n.
Proof.
  unfold strict_name. intros H. apply andb_true_iff in H as [H H3]. apply andb_true_iff in H as [H1 H2].
  apply negb_true_iff in H2, H3. split; [exact H1 | apply name_toks_strict; assumption].
Qed.

(* escape_matches_exactly: the line xvc writes for the file [n] is a positive pattern that matches, among
   the paths relative to the directory of the .gitignore, exactly [n] *)
Lemma escape_file_line_exact n : strict_name n = true ->
  exists p, parse_line (c_slash :: escape_name n) = LPat p /\ g_neg p = false /\
            forall q isdir, pat_match p q isdir = true <-> q = [n].
Proof.
  intros Hs. destruct (strict_name_parts n Hs) as [Hv Ht].
  exists (name_pat false (map TLit n)). split; [|split; [reflexivity|]].
  - rewrite <- Ht. exact (parse_file_line true n Hv).
  - intros q isdir. rewrite name_pat_exact. split; [intros [H _]; exact H | intros H; split; [exact H | now left]].
Qed.

(* ... and the line for the directory [n] matches exactly the directory [n] *)
Lemma escape_dir_line_exact n : strict_name n = true ->
  exists p, parse_line ([c_slash] ++ escape_name n ++ [c_slash]) = LPat p /\ g_neg p = false /\
            forall q isdir, pat_match p q isdir = true <-> (q = [n] /\ isdir = true).
Proof.
  intros Hs. destruct (strict_name_parts n Hs) as [Hv Ht].
  exists (name_pat true (map TLit n)). split; [|split; [reflexivity|]].
  - rewrite <- Ht. exact (parse_dir_line true n Hv).
  - intros q isdir. rewrite name_pat_exact. split; intros [H1 H2]; (split; [exact H1|]).
    + destruct H2 as [H2|H2]; [discriminate | exact H2].
    + now right.
Qed.

(* every name a directory can hold (also with a line break or a final carriage return, written `?`) is
   matched by its line *)
Lemma escape_line_matches n : valid_name n = true ->
  exists p, parse_line (c_slash :: escape_name n) = LPat p /\ g_neg p = false /\
            forall isdir, pat_match p [n] isdir = true.
Proof.
  intros Hv. exists (name_pat false (name_toks n)). split; [exact (parse_file_line true n Hv)|]. split; [reflexivity|].
  intros isdir. apply name_pat_match; [apply wm_name_toks | now left].
Qed.

(* ... in the reference semantics of whole work trees: a .gitignore in directory d that holds just this line *)
Lemma escape_line_ignores d n : valid_name n = true ->
  ignored [(d, c_slash :: escape_name n ++ [c_nl])] (d ++ [n]) = true.
Proof.
  intros Hv. destruct (escape_line_matches n Hv) as (p & Hp & Hneg & Hm).
  unfold ignored. apply ign_from_last; [destruct d; discriminate|]. cbn [app]. unfold excluded.
  destruct (excl_from_snoc [(d, c_slash :: escape_name n ++ [c_nl])] n false d [] None) as (acc0 & Es).
  rewrite Es. cbn [app content]. rewrite path_eqb_refl.
  unfold plines.
  change (c_slash :: escape_name n ++ [c_nl]) with ((c_slash :: escape_name n) ++ c_nl :: []).
  rewrite glines_line.
  - cbn [glines map last_match]. rewrite Hp. cbn [last_match]. rewrite (Hm false), Hneg. reflexivity.
  - change (has_nl (c_slash :: escape_name n)) with (N.eqb c_nl c_slash || has_nl (escape_name n)).
    rewrite escape_no_nl. reflexivity.
Qed.

(* ---- the initial root .gitignore --------------------------------------------------------------- *)
Definition xvc_name : gname := Gen.GitignoreInitial.xvc_dir_name.
Definition cache_dirs : list gname := [[98;51]; [98;50]; [115;50]; [115;51]].     (* b3 b2 s2 s3 *)

Lemma init_all_end_nl : all_end_nl init_gf = true.
Proof. vm_compute. reflexivity. Qed.

Lemma init_supported : supported init_gf = true.
Proof. vm_compute. reflexivity. Qed.

Lemma cache_dir_excluded c : In c cache_dirs -> excluded init_gf [xvc_name; c] true = true.
Proof.
  intros H. cbn [cache_dirs In] in H.
  destruct H as [<-|[<-|[<-|[<-|[]]]]]; vm_compute; reflexivity.
Qed.

Section InitProofs.
Variable RT : Type.
Variable build : env -> gfiles -> option RT.
Variable chk : RT -> bytes -> verdict.
Variable fixed_nl fixed_P5 fixed_sn fixed_em : bool.

(* cache_never_staged: from the initial .gitignore, after any sequence of xvc commands, every path
   below .xvc/{b3,b2,s2,s3} is ignored *)
Lemma cache_ignored cs c rest :
  In c cache_dirs -> rest <> [] -> forallb (wf_cmd fixed_sn) cs = true ->
  ignored (run_cmds RT build chk fixed_nl fixed_P5 fixed_sn fixed_em init_gf cs) (xvc_name :: c :: rest) = true.
Proof.
  intros Hc Hr Hwf. apply ignored_stable; [right; apply all_end_nl_content; exact init_all_end_nl | exact Hwf |].
  unfold ignored. change (xvc_name :: c :: rest) with ([xvc_name; c] ++ rest).
  apply ign_from_ancestor; [discriminate | exact Hr | apply cache_dir_excluded; exact Hc].
Qed.
End InitProofs.
