(* M-REPO (core): executable model of the file repository: a file system with inodes (so that
   hard links and symlinks are what they are), the content-addressed cache, the records of the
   tracked paths, and the commands  track / carry-in / recheck  with the user actions between them.
   Written from file/src/{track,carry_in,recheck}/mod.rs, file/src/common/{mod,compare}.rs,
   core/src/types/{xvcpath,diff}.rs, core/src/types/xvcdigest/*.rs, core/src/util/file.rs.
   Hash functions are ideal: a digest IS (algorithm, normalised content).
   No proofs in this file. *)
From Coq Require Import List Bool NArith.
From XV Require Import Base.Amap Base.Bytes.
Import ListNotations.
Set Implicit Arguments.

(* ---- vocabulary -------------------------------------------------------------------------- *)
Inductive algo := B3 | B2 | S2 | S3.
Inductive tob := Auto | Text | Binary.
Inductive method := Copy | Hardlink | Symlink | Reflink.

Definition algo_eqb (a b : algo) : bool :=
  match a, b with B3, B3 | B2, B2 | S2, S2 | S3, S3 => true | _, _ => false end.
Definition tob_eqb (a b : tob) : bool :=
  match a, b with Auto, Auto | Text, Text | Binary, Binary => true | _, _ => false end.
Definition method_eqb (a b : method) : bool :=
  match a, b with Copy, Copy | Hardlink, Hardlink | Symlink, Symlink | Reflink, Reflink => true | _, _ => false end.

Definition path := bytes.

(* ideal hash: equal digests <-> equal algorithm and equal hashed bytes *)
Record digest := { d_algo : algo; d_norm : bytes }.
Definition digest_eqb (a b : digest) : bool := algo_eqb (d_algo a) (d_algo b) && beqb (d_norm a) (d_norm b).

(* ContentDigest::new *)
Definition treat_as_text (t : tob) (content : bytes) : bool :=
  match t with Text => true | Binary => false | Auto => is_text content end.
Definition digest_of (a : algo) (t : tob) (content : bytes) : digest :=
  {| d_algo := a; d_norm := if treat_as_text t content then strip_crlf content else content |}.

(* XvcCachePath::new: <prefix>/<3>/<3>/<58>/0.<extension of the tracked path> ; the directory
   part is a function of the digest alone, the file name of the extension alone *)
Record caddr := { a_digest : digest; a_ext : bytes }.
Definition caddr_eqb (a b : caddr) : bool := digest_eqb (a_digest a) (a_digest b) && beqb (a_ext a) (a_ext b).
Definition cache_addr (p : path) (d : digest) : caddr := {| a_digest := d; a_ext := extension p |}.

(* ---- file system --------------------------------------------------------------------------- *)
Record inode := { i_bytes : bytes; i_w : bool (* some write bit set *); i_mt : N (* logical mtime *) }.
(* a directory entry: a regular file (by inode number; hard links share it) or a symbolic link
   to the absolute path of a cache address (the only symlinks xvc makes) *)
Inductive entry := EFile (ino : N) | ELink (a : caddr).

Record fsys := {
  ws : list (path * entry);           (* workspace: path |-> entry; directories are implicit *)
  objs : list (caddr * entry);        (* cache: address |-> entry *)
  dirw : list (digest * bool);        (* cache object directories: present |-> writable? *)
  inodes : list (N * inode);
  next_ino : N;
  clock : N                           (* source of fresh modification stamps *)
}.

Definition wget (f : fsys) p := get beqb (ws f) p.
Definition oget (f : fsys) a := get caddr_eqb (objs f) a.
Definition iget (f : fsys) i := get N.eqb (inodes f) i.
Definition dget (f : fsys) d := get digest_eqb (dirw f) d.

Definition set_ws (f : fsys) w := {| ws := w; objs := objs f; dirw := dirw f; inodes := inodes f; next_ino := next_ino f; clock := clock f |}.
Definition set_objs (f : fsys) o := {| ws := ws f; objs := o; dirw := dirw f; inodes := inodes f; next_ino := next_ino f; clock := clock f |}.
Definition set_dirw (f : fsys) d := {| ws := ws f; objs := objs f; dirw := d; inodes := inodes f; next_ino := next_ino f; clock := clock f |}.
Definition set_inodes (f : fsys) i := {| ws := ws f; objs := objs f; dirw := dirw f; inodes := i; next_ino := next_ino f; clock := clock f |}.

Definition wput f p e := set_ws f (put beqb bltb (ws f) p e).
Definition wdel f p := set_ws f (del beqb (ws f) p).
Definition noltc (_ _ : caddr) := false.
Definition noltd (_ _ : digest) := false.
Definition oput f a e := set_objs f (put caddr_eqb noltc (objs f) a e).
Definition odel f a := set_objs f (del caddr_eqb (objs f) a).
Definition dput f d w := set_dirw f (put digest_eqb noltd (dirw f) d w).
Definition ddel f d := set_dirw f (del digest_eqb (dirw f) d).
Definition iput f i n := set_inodes f (put N.eqb N.ltb (inodes f) i n).

(* following symlinks (they point into the cache); fuel bounds chains, a loop does not resolve *)
Fixpoint resolve (f : fsys) (fuel : nat) (e : entry) : option N :=
  match e with
  | EFile i => Some i
  | ELink a => match fuel with
               | O => None
               | S k => match oget f a with Some e' => resolve f k e' | None => None end
               end
  end.
Definition link_fuel : nat := 8.
Definition read_entry (f : fsys) (e : entry) : option bytes :=
  match resolve f link_fuel e with
  | Some i => match iget f i with Some n => Some (i_bytes n) | None => None end
  | None => None
  end.
(* what a user sees reading the workspace path *)
Definition ws_read (f : fsys) (p : path) : option bytes :=
  match wget f p with Some e => read_entry f e | None => None end.
Definition obj_read (f : fsys) (a : caddr) : option bytes :=
  match oget f a with Some e => read_entry f e | None => None end.
(* Path::exists follows symlinks *)
Definition ws_exists (f : fsys) (p : path) : bool :=
  match wget f p with Some e => match resolve f link_fuel e with Some _ => true | None => false end | None => false end.
Definition obj_exists (f : fsys) (a : caddr) : bool :=
  match oget f a with Some e => match resolve f link_fuel e with Some _ => true | None => false end | None => false end.

Definition tick (f : fsys) : fsys :=
  {| ws := ws f; objs := objs f; dirw := dirw f; inodes := inodes f; next_ino := next_ino f; clock := N.succ (clock f) |}.
Definition fresh_ino (f : fsys) : N * fsys :=
  (next_ino f, {| ws := ws f; objs := objs f; dirw := dirw f; inodes := inodes f; next_ino := N.succ (next_ino f); clock := clock f |}).

(* XvcMetadata as fs::metadata (following symlinks) gives it: Some (size, mtime) for a file, None = Missing *)
Definition meta := option (N * N).
Definition meta_eqb (a b : meta) : bool :=
  match a, b with
  | None, None => true
  | Some (s1, m1), Some (s2, m2) => N.eqb s1 s2 && N.eqb m1 m2
  | _, _ => false
  end.
Definition Nlen (l : bytes) : N := N.of_nat (length l).
Definition ws_meta (f : fsys) (p : path) : meta :=
  match wget f p with
  | Some e => match resolve f link_fuel e with
              | Some i => match iget f i with Some n => Some (Nlen (i_bytes n), i_mt n) | None => None end
              | None => None
              end
  | None => None
  end.

(* ---- user actions ---------------------------------------------------------------------------- *)
(* write (create or replace) a regular, writable file with a fresh stamp; a symlink or read-only
   hard link at the path is replaced, as the scenario runner does (unlink, then create) *)
Definition user_write (f : fsys) (p : path) (c : bytes) : fsys :=
  let '(i, f1) := fresh_ino (tick f) in
  wput (iput f1 i {| i_bytes := c; i_w := true; i_mt := clock f1 |}) p (EFile i).
Definition user_delete (f : fsys) (p : path) : fsys := wdel f p.
(* write THROUGH the entry (what an editor that does not replace the file does): changes the
   inode the path resolves to; refused when that inode is read-only *)
Definition user_write_through (f : fsys) (p : path) (c : bytes) : fsys :=
  match wget f p with
  | Some e => match resolve f link_fuel e with
              | Some i => match iget f i with
                          | Some n => if i_w n
                                      then let f1 := tick f in iput f1 i {| i_bytes := c; i_w := true; i_mt := clock f1 |}
                                      else f
                          | None => f end
              | None => f end
  | None => user_write f p c
  end.
(* touch: fresh stamp, same content *)
Definition user_touch (f : fsys) (p : path) : fsys :=
  match wget f p with
  | Some (EFile i) => match iget f i with
                      | Some n => let f1 := tick f in iput f1 i {| i_bytes := i_bytes n; i_w := i_w n; i_mt := clock f1 |}
                      | None => f end
  | _ => f
  end.

(* ---- primitives of file/src/common/mod.rs ------------------------------------------------------ *)
Inductive outcome := Ok | Err | Panic.

(* move_to_cache: mkdir -p dir; dir +w; rename(path, cache_path); object -w; dir -w.
   rename moves the directory entry whatever it is (also a symlink) and replaces the target.
   Called only when the workspace entry exists (lexists); otherwise rename fails *)
Definition move_to_cache (f : fsys) (p : path) (a : caddr) : fsys * outcome :=
  match wget f p with
  | None => (dput f (a_digest a) true, Err)        (* the directory was created and left writable *)
  | Some e =>
      let f1 := oput (wdel f p) a e in
      (* set_readonly(true) on cache_path.metadata(): follows a symlink; fails when it dangles *)
      match resolve f1 link_fuel e with
      | Some i => match iget f1 i with
                  | Some n => (dput (iput f1 i {| i_bytes := i_bytes n; i_w := false; i_mt := i_mt n |}) (a_digest a) false, Ok)
                  | None => (dput f1 (a_digest a) true, Err)
                  end
      | None => (dput f1 (a_digest a) true, Err)
      end
  end.

(* recheck_from_cache (the parent directory and .gitignore parts are not in the core model):
   if path.exists() (follows links) remove_file; then copy (+ u+w, fresh stamp) / hard_link / symlink.
   hard_link and symlink fail with EEXIST when a dangling symlink is still at the path *)
Definition recheck_from_cache (f : fsys) (p : path) (a : caddr) (m : method) : fsys * outcome :=
  let f0 := if ws_exists f p then wdel f p else f in
  match m with
  | Copy | Reflink =>
      match obj_read f0 a with
      | None => (f0, Err)
      | Some c =>
          match wget f0 p with
          | Some (ELink _) => (f0, Err)           (* fs::copy opens the dangling link: fails *)
          | _ => let '(i, f1) := fresh_ino (tick f0) in
                 (wput (iput f1 i {| i_bytes := c; i_w := true; i_mt := clock f1 |}) p (EFile i), Ok)
          end
      end
  | Hardlink =>
      match wget f0 p, oget f0 a with
      | None, Some (EFile i) => (wput f0 p (EFile i), Ok)
      | None, Some (ELink b) => (wput f0 p (ELink b), Ok)   (* link(2) does not follow: links the symlink *)
      | _, _ => (f0, Err)
      end
  | Symlink =>
      match wget f0 p with
      | None => (wput f0 p (ELink a), Ok)
      | Some _ => (f0, Err)
      end
  end.

(* ---- records ------------------------------------------------------------------------------------- *)
(* the five component stores of a tracked FILE entity, seen through their loaded maps (C08 proves
   the stores replay to these maps); hist is the list of all digests ever recorded, newest first *)
Record frec := {
  r_path : path; r_meta : meta; r_digest : option digest; r_hist : list digest;
  r_method : method; r_tob : tob
}.
Record repo := {
  fs : fsys;
  recs : list (N * frec);            (* entity counter |-> record, in entity order *)
  next_ent : N;
  cfg_algo : algo; cfg_method : method; cfg_tob : tob
}.
Definition rget (r : repo) e := get N.eqb (recs r) e.
Definition set_fs (r : repo) f := {| fs := f; recs := recs r; next_ent := next_ent r; cfg_algo := cfg_algo r; cfg_method := cfg_method r; cfg_tob := cfg_tob r |}.
Definition set_recs (r : repo) rs := {| fs := fs r; recs := rs; next_ent := next_ent r; cfg_algo := cfg_algo r; cfg_method := cfg_method r; cfg_tob := cfg_tob r |}.
Definition rput (r : repo) e x := set_recs r (put N.eqb N.ltb (recs r) e x).
Fixpoint find_path (rs : list (N * frec)) (p : path) : option (N * frec) :=
  match rs with
  | [] => None
  | (e, x) :: t => if beqb (r_path x) p then Some (e, x) else find_path t p
  end.
Definition init_repo (a : algo) (m : method) (t : tob) : repo :=
  {| fs := {| ws := []; objs := []; dirw := []; inodes := []; next_ino := 1; clock := 1 |};
     recs := []; next_ent := 2; cfg_algo := a; cfg_method := m; cfg_tob := t |}.

(* ---- diffs (core/src/types/diff.rs) ---------------------------------------------------------------- *)
Inductive ddiff := DIdentical | DSkipped | DRecordMissing (actual : digest) | DActualMissing
                 | DDifferent (actual : digest).

(* diff_file_content_digest for a file entity that has a path record (path diff Identical):
   the digest is computed only when the metadata changed *)
Definition digest_diff (r : repo) (x : frec) (a : algo) (t : tob) : ddiff :=
  let f := fs r in
  let actual_meta := ws_meta f (r_path x) in
  if meta_eqb (r_meta x) actual_meta then DSkipped
  else match actual_meta with
       | None => DActualMissing
       | Some _ =>
           match ws_read f (r_path x) with
           | None => DActualMissing
           | Some c => let d := digest_of a t c in
                       match r_digest x with
                       | Some rd => if digest_eqb d rd then DIdentical else DDifferent d
                       | None => DRecordMissing d
                       end
           end
       end.

(* ---- carry_in (file/src/carry_in/mod.rs::carry_in, one target) -------------------------------------- *)
Definition carry_one (f : fsys) (p : path) (a : caddr) (m : method) (force : bool) : fsys * outcome :=
  let '(f1, o1) :=
    if obj_exists f a then
      (* (after the fix of P27) a workspace symlink has no content of its own: the cached copy is kept *)
      if force && negb (match wget f p with Some (ELink _) => true | _ => false end) then
        (* dir +w, object +w (through a link), unlink, move_to_cache *)
        let f' := dput f (a_digest a) true in
        let f' := match oget f' a with
                  | Some e => match resolve f' link_fuel e with
                              | Some i => match iget f' i with
                                          | Some n => iput f' i {| i_bytes := i_bytes n; i_w := true; i_mt := i_mt n |}
                                          | None => f' end
                              | None => f' end
                  | None => f' end in
        move_to_cache (odel f' a) p a
      else (f, Ok)
    else move_to_cache f p a in
  match o1 with
  | Ok =>
      let f2 := if ws_exists f1 p then wdel f1 p else f1 in
      recheck_from_cache f2 p a m
  | _ => (f1, Panic)        (* uwr! panics the worker *)
  end.

(* ---- commands ----------------------------------------------------------------------------------------- *)
(* `xvc file track [--recheck-method m] [--text-or-binary t] [--no-commit] [--force] p...` on file
   targets that exist in the workspace (target resolution is modelled separately).  Per target:
   new entity or the existing one; if path/metadata changed: method := requested or configured
   default (the CLI completes the option from the configuration), tob := requested or configured,
   digest computed and recorded; then, unless --no-commit, carry_in for RecordMissing|Different. *)
Record track_opts := { t_method : option method; t_tob : option tob; t_no_commit : bool; t_force : bool }.

(* walked = the targets were collected by the directory walker (some target contains '/', '*' or
   names a directory) rather than by path_metadata_map_from_file_targets: the walker reports a
   symlink as a symlink, and (after the fix of P28) track leaves such paths alone *)
Definition track_one (o : track_opts) (walked : bool) (r : repo) (p : path) : repo * outcome :=
  let f := fs r in
  if walked && match wget f p with Some (ELink _) => true | _ => false end then (r, Ok) else
  match ws_meta f p with
  | None => (r, Ok)                         (* not on disk: not a target *)
  | Some sm =>
      let m := match t_method o with Some m => m | None => cfg_method r end in
      let t := match t_tob o with Some t => t | None => cfg_tob r end in
      match find_path (recs r) p with
      | None =>
          match ws_read f p with
          | None => (r, Err)
          | Some c =>
              let d := digest_of (cfg_algo r) t c in
              let e := next_ent r in
              let x := {| r_path := p; r_meta := Some sm; r_digest := Some d; r_hist := [d]; r_method := m; r_tob := t |} in
              let r1 := {| fs := f; recs := put N.eqb N.ltb (recs r) e x; next_ent := N.succ e;
                           cfg_algo := cfg_algo r; cfg_method := cfg_method r; cfg_tob := cfg_tob r |} in
              if t_no_commit o then (r1, Ok)
              else let '(f2, oc) := carry_one f p (cache_addr p d) m (t_force o) in (set_fs r1 f2, oc)
          end
      | Some (e, x) =>
          if meta_eqb (r_meta x) (Some sm) then (r, Ok)       (* nothing changed: all diffs Skipped *)
          else
            match digest_diff r x (cfg_algo r) t with
            | DDifferent d | DRecordMissing d =>
                let x' := {| r_path := p; r_meta := Some sm; r_digest := Some d; r_hist := d :: r_hist x; r_method := m; r_tob := t |} in
                let r1 := rput r e x' in
                if t_no_commit o then (r1, Ok)
                else let '(f2, oc) := carry_one f p (cache_addr p d) m (t_force o) in (set_fs r1 f2, oc)
            | _ =>
                (* digest identical: metadata, method and text-or-binary records are still updated *)
                (rput r e {| r_path := p; r_meta := Some sm; r_digest := r_digest x; r_hist := r_hist x; r_method := m; r_tob := t |}, Ok)
            end
      end
  end.

(* `xvc file carry-in [--text-or-binary t] [--force] p...` on tracked file targets.
   Phase 1 (per target): digest diff with the requested (completed) text-or-binary and the configured
   algorithm; selection (force, or digest / text-or-binary changed); cache address from the actual
   digest (Different) or the stored one (Identical | Skipped); a selected target without an address
   (ActualMissing | RecordMissing) trips the length assertion of carry_in(): the command panics
   before anything is done.  Phase 2: carry_in per target.  Phase 3: metadata, text-or-binary and
   digest records updated (add_new = false, remove_missing = false). *)
Record carry_opts := { c_tob : option tob; c_force : bool }.
Record cplan := { cp_ent : N; cp_rec : frec; cp_dd : ddiff; cp_tob : tob; cp_sel : bool;
                  cp_addr : option caddr; cp_meta : meta }.
Definition carry_plan (o : carry_opts) (r : repo) (p : path) : option cplan :=
  match find_path (recs r) p with
  | None => None
  | Some (e, x) =>
      match r_meta x with
      | None => None              (* only_file_targets: the recorded metadata is not a file *)
      | Some _ =>
        let t := match c_tob o with Some t => t | None => cfg_tob r end in
        let dd := digest_diff r x (cfg_algo r) t in
        let tob_changed := negb (tob_eqb (r_tob x) t) in
        let changed := match dd with DDifferent _ | DRecordMissing _ | DActualMissing => true | _ => false end in
        let sel := c_force o || changed || tob_changed in
        Some {| cp_ent := e; cp_rec := x; cp_dd := dd; cp_tob := t; cp_sel := sel;
                cp_addr := match dd with
                           | DIdentical | DSkipped => match r_digest x with Some d => Some (cache_addr p d) | None => None end
                           | DDifferent d => Some (cache_addr p d)
                           | DActualMissing | DRecordMissing _ => None
                           end;
                cp_meta := ws_meta (fs r) p |}
      end
  end.
Fixpoint plans (o : carry_opts) (r : repo) (ps : list path) : list cplan :=
  match ps with
  | [] => []
  | p :: t => match carry_plan o r p with Some c => c :: plans o r t | None => plans o r t end
  end.
Fixpoint carry_phase (f : fsys) (cs : list cplan) (force : bool) : fsys * outcome :=
  match cs with
  | [] => (f, Ok)
  | c :: t =>
      match cp_sel c, cp_addr c with
      | true, Some a =>
          let '(f1, o1) := carry_one f (r_path (cp_rec c)) a (r_method (cp_rec c)) force in
          match o1 with
          | Ok => carry_phase f1 t force
          | _ => (f1, Panic)
          end
      | _, _ => carry_phase f t force
      end
  end.
Definition record_phase (r : repo) (cs : list cplan) : repo :=
  fold_left (fun r c =>
    let x := cp_rec c in
    rput r (cp_ent c)
      {| r_path := r_path x;
         r_meta := match cp_meta c with Some sm => Some sm | None => None end;
         r_digest := match cp_dd c with DDifferent d => Some d | _ => r_digest x end;
         r_hist := match cp_dd c with DDifferent d => d :: r_hist x | _ => r_hist x end;
         r_method := r_method x; r_tob := cp_tob c |}) cs r.
Definition carry_in_cmd (o : carry_opts) (r : repo) (ps : list path) : repo * outcome :=
  let cs := plans o r ps in
  if existsb (fun c => cp_sel c && match cp_addr c with None => true | Some _ => false end) cs
  then (r, Panic)
  else
    let '(f1, oc) := carry_phase (fs r) cs (c_force o) in
    match oc with
    | Ok => (record_phase (set_fs r f1) cs, Ok)
    | _ => (set_fs r f1, Panic)
    end.

(* `xvc file recheck [--recheck-method m] [--force] p...` on tracked file targets (after the fix
   of P1: the digest record is never changed by recheck) *)
Record recheck_opts := { k_method : option method; k_force : bool }.
Definition recheck_one (o : recheck_opts) (r : repo) (p : path) : repo * outcome :=
  match find_path (recs r) p with
  | None => (r, Ok)
  | Some (e, x) =>
    if match r_meta x with None => true | Some _ => false end then (r, Ok) else   (* only_file_targets *)
      let m := match k_method o with Some m => m | None => r_method x end in
      let method_changed := negb (method_eqb m (r_method x)) in
      (* recheck computes the digest diff with the STORED text-or-binary and the configured algorithm *)
      let dd := digest_diff r x (cfg_algo r) (r_tob x) in
      let differs := match dd with DDifferent _ => true | _ => false end in
      let missing := match dd with DActualMissing => true | _ => false end in
      let selected := k_force o || (method_changed && negb differs) || missing in
      if negb selected then (r, if method_changed && differs then Err else Ok)
      else
        match r_digest x with
        | None => (r, Err)
        | Some d =>
            let a := cache_addr p d in
            let r1 := rput r e {| r_path := p; r_meta := r_meta x; r_digest := r_digest x; r_hist := r_hist x;
                                  r_method := m; r_tob := r_tob x |} in
            if obj_exists (fs r) a then
              let f1 := if ws_exists (fs r) p then wdel (fs r) p else fs r in
              let '(f2, oc) := recheck_from_cache f1 p a m in (set_fs r1 f2, oc)
            else (r1, Err)      (* "cannot found in cache" *)
        end
  end.

(* ---- histories -------------------------------------------------------------------------------------- *)
Inductive item :=
| UWrite (p : path) (c : bytes) | UWriteThrough (p : path) (c : bytes) | UDelete (p : path) | UTouch (p : path)
| XTrack (o : track_opts) (ps : list path)
| XCarryIn (o : carry_opts) (ps : list path)
| XRecheck (o : recheck_opts) (ps : list path).

Definition worst (a b : outcome) : outcome :=
  match a, b with Panic, _ | _, Panic => Panic | Err, _ | _, Err => Err | _, _ => Ok end.
Fixpoint each (step : repo -> path -> repo * outcome) (r : repo) (ps : list path) : repo * outcome :=
  match ps with
  | [] => (r, Ok)
  | p :: t => let '(r1, o1) := step r p in let '(r2, o2) := each step r1 t in (r2, worst o1 o2)
  end.

Definition do_item (r : repo) (it : item) : repo * outcome :=
  match it with
  | UWrite p c => (set_fs r (user_write (fs r) p c), Ok)
  | UWriteThrough p c => (set_fs r (user_write_through (fs r) p c), Ok)
  | UDelete p => (set_fs r (user_delete (fs r) p), Ok)
  | UTouch p => (set_fs r (user_touch (fs r) p), Ok)
  | XTrack o ps => each (track_one o (existsb (fun p => existsb (N.eqb slash) p) ps)) r ps
  | XCarryIn o ps => carry_in_cmd o r ps
  | XRecheck o ps => each (recheck_one o) r ps
  end.
Definition run_items (r : repo) (h : list item) : repo := fold_left (fun r it => fst (do_item r it)) h r.
