(* Repo/Safe.v (C03: an unforced track / carry-in / recheck never destroys workspace data) for the commands with
   the repair switches of Repo/Fix.v: whatever was readable at a path before the command is readable there
   afterwards, or the path's record names a cache object holding the same bytes up to CR/LF bytes -- for EVERY value
   of the switches, in every repository reachable outside the classes of Repo/FixProofs.v. *)
From Coq Require Import List Bool NArith Lia.
From XV Require Import Base.Amap Base.Bytes Repo.Model Repo.Proofs Repo.Inv Repo.Restore Repo.Stamps Repo.Main Repo.Safe
  Repo.Fix Repo.FixProofs.
Import ListNotations.

(* ---- one target of its own command ------------------------------------------------------------------------------------ *)
Lemma carry_one_x_saves fx f p a m b : FI f -> relink_x fx f p a false = false -> fits_read f p a ->
  ws_read f p = Some b ->
  snd (carry_one_x fx f p a m false) = Ok /\
  exists b', obj_read (fst (carry_one_x fx f p a m false)) a = Some b' /\ strip_crlf b' = strip_crlf b.
Proof.
  intros F G Hfit Hr.
  assert (Hrd : ws_read f p <> None) by congruence.
  destruct (carry_one_x_ok fx f p a m false F G Hfit Hrd) as (K1 & i & n & K2 & K3 & K4 & K5).
  split; [auto|]. exists (i_bytes n).
  pose proof (carry_one_x_spec fx f p a m false F G Hfit) as S.
  assert (Er : obj_read (fst (carry_one_x fx f p a m false)) a = Some (i_bytes n)) by (apply obj_read_spec; [apply (cs_FI S)|eauto]).
  split; [auto|]. apply (fits_same_norm (a_digest a)); [|now apply Hfit]. eapply FI_cas; [apply (cs_FI S)|eauto].
Qed.

(* the record track writes for a target it commits *)
Lemma track_one_x_record fx o w r done p a m : RI r -> track_call o w r p = Some (a, m) ->
  exists e x d, find_path (recs (fst (fst (track_one_x fx o w (r, done) p)))) p = Some (e, x) /\
                r_meta x <> None /\ r_digest x = Some d /\ a = cache_addr p d /\ r_method x = m.
Proof.
  intros R Hc.
  assert (Erec : recs (fst (fst (track_one_x fx o w (r, done) p))) = recs (fst (track_one o w r p))).
  { unfold track_one_x. rewrite Hc.
    destruct (carry_one_x fx (fs r) p a m (eff_force fx done a (t_force o))) as [f2 oc2]. cbn [fst].
    rewrite track_call_eq in Hc. destruct (track_one_split o w r p a m Hc) as [E _]. rewrite E. reflexivity. }
  rewrite track_call_eq in Hc.
  destruct (track_one_record o w r p a m R Hc) as (e & x & dg & Ef & Hp & Hm & Hd & Ha & Hmm & _).
  exists e, x, dg. rewrite Erec. auto.
Qed.

Lemma track_own_x fx o w r done p b : INV r -> t_force o = false ->
  mon_track_one_x fx (class_x fx) o w (r, done) p = false -> ws_read (fs r) p = Some b ->
  Keep p b (fst (fst (track_one_x fx o w (r, done) p))).
Proof.
  intros [F R] Hf G Hr. destruct (track_one_x_facts fx o w r done p R) as (S1 & S2 & S3 & S4).
  unfold mon_track_one_x in G. cbn [fst snd] in G. destruct (track_call o w r p) as [[a m]|] eqn:Hc.
  - right. destruct S4 as (Efs & Eoc & _ & Hfit & _). rewrite Hf in *. rewrite eff_force_false in *.
    destruct (track_one_x_record fx o w r done p a m R Hc) as (e & x & d & Ef & Hm & Hd & -> & _).
    destruct (carry_one_x_saves fx (fs r) p (cache_addr p d) m b F (class_x_relink _ _ _ _ _ G) Hfit Hr) as (_ & b' & Hb' & Hs).
    exists e, x, d, b'. rewrite Efs. auto.
  - left. destruct S4 as [Efs _]. now rewrite Efs.
Qed.

Lemma track_step_unclean fx o w r done q : RI r ->
  mon_track_one_x fx (class_x fx) o w (r, done) q = false -> mon_track_one_x fx (unclean_x fx) o w (r, done) q = false.
Proof.
  intros R G. destruct (track_one_x_facts fx o w r done q R) as (_ & _ & _ & S4).
  unfold mon_track_one_x in *. cbn [fst snd] in *. destruct (track_call o w r q) as [[a m]|]; auto.
  destruct S4 as (_ & _ & _ & Hfit & _). apply class_x_unclean; auto. now apply fits_read_pre.
Qed.

Lemma track_other_x fx o w r done q p b : INV r -> t_force o = false ->
  mon_track_one_x fx (class_x fx) o w (r, done) q = false -> q <> p ->
  Keep p b r -> Keep p b (fst (fst (track_one_x fx o w (r, done) q))).
Proof.
  intros I Hf G Hne K. pose proof I as [F R].
  destruct (track_one_x_step fx o w r done q I (track_step_unclean fx o w r done q R G)) as (T1 & T2 & T3 & T4 & T5 & T6 & T7 & T8 & T9).
  eapply keep_frame; eauto. rewrite T9 by congruence. reflexivity.
Qed.

Lemma track_list_x fx o w ps : forall r done p b, INV r -> t_force o = false -> nodupb ps = true ->
  mon_each_x (track_one_x fx o w) (mon_track_one_x fx (class_x fx) o w) (r, done) ps = false ->
  (In p ps -> ws_read (fs r) p = Some b) -> (~ In p ps -> Keep p b r) ->
  Keep p b (fst (fst (each_x (track_one_x fx o w) (r, done) ps))).
Proof.
  induction ps as [|q t IH]; intros r done p b I Hf Hn G Hin Hout; [apply Hout; tauto|].
  destruct (nodupb_cons q t Hn) as [Hq Hn'].
  cbn [mon_each_x] in G. apply orb_false_iff in G. destruct G as [G1 G2].
  destruct (each_x_cons (track_one_x fx o w) (r, done) q t) as [E _]. rewrite E.
  pose proof I as [F R].
  destruct (track_one_x_step fx o w r done q I (track_step_unclean fx o w r done q R G1)) as (T1 & T2 & T3 & T4 & T5 & T6 & T7 & T8 & T9).
  pose proof (track_own_x fx o w r done q b I Hf G1) as Own.
  pose proof (fun Hne K => track_other_x fx o w r done q p b I Hf G1 Hne K) as Oth.
  destruct (track_one_x fx o w (r, done) q) as [[r1 d1] o1]. cbn [fst snd] in *.
  destruct (beqb_spec q p) as [->|Hne].
  - apply IH; auto; [tauto|]. intros _. apply Own. apply Hin. now left.
  - apply IH; auto.
    + intros Hint. apply (ws_read_frame (fs r) _ p b F); [apply T8; congruence|apply T6; auto|exact T5|apply Hin; now right].
    + intros Hnt. apply Oth; auto. apply Hout. intros [->|H]; tauto.
Qed.

(* ---- recheck keeps what is kept (used for the recheck that ends a track with an explicit method, P43) ------------------- *)
Lemma recheck_keep o r q p b : INV r -> SINV r -> k_force o = false -> Keep p b r -> Keep p b (fst (recheck_one o r q)).
Proof.
  intros I S Hf K. destruct (beqb_spec q p) as [->|Hne]; [|now apply recheck_other].
  destruct K as [Hr|Hs]; [now apply recheck_own|]. right.
  destruct I as [F R]. destruct (recheck_one_spec o r p F R) as (S1 & S2 & S3 & (W1 & W2 & W3 & W4 & W5) & S5 & S6 & S7).
  apply (saved_frame r _ p b F (S6 p)); auto.
  - intros a e H. now rewrite W2.
  - intros i n H. eauto.
Qed.

Lemma recheck_list_keep o ps : k_force o = false -> forall r p b, INV r -> SINV r -> Keep p b r ->
  Keep p b (fst (each (recheck_one o) r ps)).
Proof.
  intros Hf. induction ps as [|q t IH]; intros r p b I S K; [exact K|].
  destruct (each_cons (recheck_one o) r q t) as [E _]. rewrite E.
  pose proof I as [F R].
  destruct (recheck_one_spec o r q F R) as (S1 & S2 & _).
  apply IH; [split; auto|apply recheck_one_stamp; auto|now apply recheck_keep].
Qed.

(* ---- carry-in ------------------------------------------------------------------------------------------------------------ *)
Lemma carry_phase_x_active fx force cs : forall f done, carry_phase_x fx f cs force done = carry_phase_x fx f (active cs) force done.
Proof.
  induction cs as [|c t IH]; intros f done; [reflexivity|].
  change (active (c :: t)) with (if is_active c then c :: active t else active t). unfold is_active.
  destruct (cp_sel c) eqn:Es; [|cbn [andb carry_phase_x]; rewrite Es; apply IH].
  destruct (cp_addr c) as [a|] eqn:Ea; [|cbn [andb carry_phase_x]; rewrite Es, Ea; apply IH].
  cbn [andb carry_phase_x]. rewrite Es, Ea.
  destruct (carry_one_x fx f (r_path (cp_rec c)) a (r_method (cp_rec c)) (eff_force fx done a force)) as [f1 o1]. destruct o1; auto.
Qed.

Lemma mon_carry_phase_x_active fx bad force cs : forall f done,
  mon_carry_phase_x fx bad f cs force done = mon_carry_phase_x fx bad f (active cs) force done.
Proof.
  induction cs as [|c t IH]; intros f done; [reflexivity|].
  change (active (c :: t)) with (if is_active c then c :: active t else active t). unfold is_active.
  destruct (cp_sel c) eqn:Es; [|cbn [andb mon_carry_phase_x]; rewrite Es; apply IH].
  destruct (cp_addr c) as [a|] eqn:Ea; [|cbn [andb mon_carry_phase_x]; rewrite Es, Ea; apply IH].
  cbn [andb mon_carry_phase_x]. rewrite Es, Ea.
  destruct (snd (carry_one_x fx f (r_path (cp_rec c)) a (r_method (cp_rec c)) (eff_force fx done a force))); auto. now rewrite IH.
Qed.

Lemma carry_phase_x_safe fx cs : forall f done, FI f -> NoDup (paths_of cs) -> (forall c, In c cs -> is_active c = true) ->
  mon_carry_phase_x fx (class_x fx) f cs false done = false -> (forall c, In c cs -> plan_ready f c) ->
  snd (carry_phase_x fx f cs false done) = Ok /\ FI (fst (carry_phase_x fx f cs false done)) /\
  R_mono f (fst (carry_phase_x fx f cs false done)) /\ R_bytes f (fst (carry_phase_x fx f cs false done)) /\
  (forall q, ~ In q (paths_of cs) -> wget (fst (carry_phase_x fx f cs false done)) q = wget f q) /\
  (forall c, In c cs -> forall a, cp_addr c = Some a -> forall b, ws_read f (r_path (cp_rec c)) = Some b ->
     exists b', obj_read (fst (carry_phase_x fx f cs false done)) a = Some b' /\ strip_crlf b' = strip_crlf b).
Proof.
  induction cs as [|c t IH]; intros f done F ND Act G Rd.
  - cbn. split; [auto|split; [auto|split; [apply R_mono_refl|split; [apply R_bytes_refl|split; [auto|tauto]]]]].
  - cbn [paths_of map] in ND. inversion ND as [|? ? Hnin ND']; subst.
    pose proof (Act c (or_introl eq_refl)) as Ac. unfold is_active in Ac. apply andb_true_iff in Ac. destruct Ac as [Asel Aad].
    destruct (cp_addr c) as [a|] eqn:Ea; [|discriminate].
    cbn [carry_phase_x mon_carry_phase_x] in *. rewrite Asel, Ea in *. rewrite eff_force_false in *.
    apply orb_false_iff in G. destruct G as [G1 G2]. apply class_x_relink in G1.
    destruct (Rd c (or_introl eq_refl) a Ea) as (Hfit & Hcont & Hsome).
    destruct (ws_read f (r_path (cp_rec c))) as [b0|] eqn:Hr0; [|congruence].
    assert (Hfr : fits_read f (r_path (cp_rec c)) a) by (intros b1 Hb1; apply Hcont; congruence).
    destruct (carry_one_x_saves fx f (r_path (cp_rec c)) a (r_method (cp_rec c)) b0 F G1 Hfr Hr0) as (Kok & b' & Kb & Ks).
    pose proof (carry_one_x_spec fx f (r_path (cp_rec c)) a (r_method (cp_rec c)) false F G1 Hfr) as S.
    destruct (cs_rel _ _ _ _ _ _ S) as [M1 _]. specialize (M1 eq_refl).
    destruct (carry_one_x fx f (r_path (cp_rec c)) a (r_method (cp_rec c)) false) as [f1 o1]. cbn [fst snd] in *. subst o1.
    assert (Fwd : forall c', In c' t -> forall b, ws_read f (r_path (cp_rec c')) = Some b -> ws_read f1 (r_path (cp_rec c')) = Some b).
    { intros c' Hin b Hb. apply (ws_read_frame f f1 _ b F); auto; [|apply (cs_bytes S)].
      apply (cs_ws S). intros E. apply Hnin. rewrite <- E. apply (in_map (fun c => r_path (cp_rec c)) t c' Hin). }
    destruct (IH f1 (a :: done) (cs_FI S) ND') as (A1 & A2 & A3 & A4 & A5 & A6); auto.
    { intros c' Hin. apply Act. now right. }
    { intros c' Hin a' Ha'. destruct (Rd c' (or_intror Hin) a' Ha') as (Hfit' & Hcont' & Hsome').
      destruct (ws_read f (r_path (cp_rec c'))) as [b1|] eqn:Hr1; [|congruence].
      pose proof (Fwd c' Hin b1 Hr1) as Hr1'.
      assert (Hne : r_path (cp_rec c') <> r_path (cp_rec c)).
      { intros E. apply Hnin. rewrite <- E. apply (in_map (fun c => r_path (cp_rec c)) t c' Hin). }
      split; [|split; [|congruence]].
      - intros j n Hw Hi. rewrite (cs_ws S) in Hw by auto.
        destruct (iget f j) as [n0|] eqn:Hj; [|exfalso; eapply (fi_ws F); eauto].
        destruct (cs_bytes S _ _ Hj) as (n1 & H1 & E1). rewrite Hi in H1. injection H1 as <-. rewrite E1. eapply Hfit'; eauto.
      - intros b Hb. rewrite Hr1' in Hb. injection Hb as <-. auto. }
    split; [auto|split; [auto|split; [eapply R_mono_trans; eauto|split; [eapply R_bytes_trans; [apply (cs_bytes S)|auto]|split]]]].
    + intros q Hq. rewrite A5 by (intros H; apply Hq; now right). apply (cs_ws S). intros ->. apply Hq. now left.
    + intros c' [<-|Hin] a' Ha' b Hb.
      * rewrite Ea in Ha'. injection Ha' as <-. rewrite Hr0 in Hb. injection Hb as <-.
        exists b'. split; [apply (obj_read_frame f1 _ a b' (cs_FI S) A3 A4 Kb)|auto].
      * apply (A6 c' Hin a' Ha' b). now apply Fwd.
Qed.

Lemma active_not_left_alone c : is_active c = true -> left_alone c = false.
Proof.
  unfold is_active, left_alone. destruct (cp_sel c); [|reflexivity]. destruct (cp_addr c); [reflexivity|discriminate].
Qed.

Lemma carry_list_x fx o r ps p b : INV r -> SINV r -> c_force o = false -> nodupb ps = true ->
  mon_item_x fx (class_x fx) r (XCarryIn o ps) = false -> ws_read (fs r) p = Some b ->
  Keep p b (fst (carry_in_cmd_x fx o r ps)).
Proof.
  intros [F R] S Hf Hn G Hr. cbn [mon_item_x] in G. unfold carry_in_cmd_x.
  set (cs := plans o r ps) in *. rewrite Hf in *.
  destruct (negb (fixed_P49 fx) && existsb left_alone cs); [now left|].
  rewrite carry_phase_x_active. rewrite mon_carry_phase_x_active in G.
  assert (NDp : NoDup (paths_of cs)) by (apply paths_of_plans_nodup, nodupb_NoDup, Hn).
  assert (InA : forall c, In c (active cs) -> In c cs /\ is_active c = true) by (intros c H; apply filter_In in H; exact H).
  destruct (carry_phase_x_safe fx (active cs) (fs r) [] F (NoDup_filter_paths cs NDp)) as (A1 & A2 & A3 & A4 & A5 & A6); auto.
  { intros c H. apply InA, H. }
  { intros c H. destruct (InA c H) as [Hin _]. destruct (plans_plan o r ps c Hin) as [q Hq]. eapply plan_ready_init; eauto. }
  destruct (carry_phase_x fx (fs r) (active cs) false []) as [f1 oc]. cbn [fst snd] in *. subst oc.
  fold (recorded fx cs).
  assert (Hrec : forall c, In c (recorded fx cs) -> exists x, rget (set_fs r f1) (cp_ent c) = Some x /\ r_path x = r_path (cp_rec c)).
  { intros c Hin. apply recorded_sub in Hin. pose proof (plans_rec o r ps c Hin) as Hfp.
    apply (find_path_spec r _ _ _ R) in Hfp. destruct Hfp as [Hg Hp]. exists (cp_rec c). auto. }
  assert (NDr : NoDup (paths_of (recorded fx cs))).
  { unfold recorded. destruct (fixed_P49 fx); [|exact NDp].
    clear -NDp. induction cs as [|c t IH]; cbn; [constructor|]. cbn [paths_of map] in NDp. inversion NDp as [|? ? Hn ND']; subst.
    destruct (negb (left_alone c)); cbn; auto. constructor; auto.
    intros H. apply Hn. unfold paths_of in *. apply in_map_iff in H. destruct H as (c' & E & Hin).
    apply filter_In in Hin. apply in_map_iff. exists c'. tauto. }
  destruct (record_phase_spec (recorded fx cs) (set_fs r f1) (RI_set_fs r f1 R) Hrec) as (B1 & B2 & B3 & B4).
  cbn [fst].
  destruct (in_dec (list_eq_dec N.eq_dec) p (paths_of (active cs))) as [Hin|Hnin].
  - right. unfold paths_of in Hin. apply in_map_iff in Hin. destruct Hin as (c & Ep & Hc).
    destruct (InA c Hc) as [Hcs Hact]. pose proof Hact as Hact0. unfold is_active in Hact. apply andb_true_iff in Hact. destruct Hact as [_ Had].
    destruct (cp_addr c) as [a|] eqn:Ea; [|discriminate].
    destruct (plans_plan o r ps c Hcs) as [q Hq]. destruct (carry_plan_rec o r q c Hq) as [_ Eq].
    assert (q = p) by congruence. subst q. rewrite ?Ep in Hq.
    destruct (plan_addr_digest o r p c a Hq Ea) as (d & Hd & ->).
    destruct (A6 c Hc _ Ea b) as (b' & Hb' & Hs); [now rewrite Ep|].
    assert (Hcr : In c (recorded fx cs)).
    { unfold recorded. destruct (fixed_P49 fx); [|exact Hcs]. apply filter_In. split; [exact Hcs|]. now rewrite (active_not_left_alone c Hact0). }
    exists (cp_ent c), (plan_record c), d, b'. rewrite B3. cbn [fs set_fs].
    split; [rewrite <- Ep; apply record_phase_at; auto using RI_set_fs|auto].
  - left. rewrite B3. cbn [fs set_fs]. apply (ws_read_frame (fs r) f1 p b F (A5 p Hnin) A3 A4 Hr).
Qed.

(* ---- the statement for C03, for every value of the switches ------------------------------------------------------------------ *)
Theorem unforced_keeps_or_saves_x fx r it p b : reachable_x fx r -> K_item_x fx r it = false -> unforced_cmd it = true ->
  ws_read (fs r) p = Some b ->
  ws_read (fs (fst (do_item_x fx r it))) p = Some b \/ saved (fst (do_item_x fx r it)) p b.
Proof.
  intros Hr G U Hb. destruct (reachable_x_INV fx r Hr) as [I S]. unfold K_item_x in G.
  destruct it as [q c|q c|q|q|o ps|o ps|o ps]; try discriminate U; cbn [unforced_cmd] in U;
    apply andb_true_iff in U; destruct U as [U1 U2]; apply negb_true_iff in U1.
  - (* track, and the recheck that ends it when the method was given on the command line *)
    cbn [do_item_x mon_item_x] in *. fold (walked_of ps) in *. set (w := walked_of ps) in *.
    pose proof (track_list_x fx o w ps r [] p b I U1 U2 G (fun _ => Hb) (fun _ => or_introl Hb)) as K1.
    pose proof (each_track_x_nomisfit fx o w ps r [] (proj2 I) G) as Un.
    destruct (each_track_x_spec fx o w ps r [] I Un) as (I1 & _).
    assert (S1 : SINV (fst (fst (each_x (track_one_x fx o w) (r, []) ps)))).
    { pose proof (each_x_inv (track_one_x fx o w) (fun st => RI (fst st) /\ SINV (fst st))) as E.
      destruct E with (ps := ps) (st := (r, @nil caddr)) as [_ E2]; [|split; [apply I|exact S]|exact E2].
      intros [r0 d0] p0 [R0 S0]. cbn [fst] in *. split; [apply (track_one_x_facts fx o w r0 d0 p0 R0)|now apply track_one_x_stamp]. }
    destruct (each_x (track_one_x fx o w) (r, []) ps) as [[r1 d1] oc]. cbn [fst snd] in *.
    destruct (if fixed_P43 fx then t_method o else None) as [m|]; [|exact K1].
    pose proof (recheck_list_keep {| k_method := Some m; k_force := false |} ps eq_refl r1 p b I1 S1 K1) as K2.
    destruct oc; [| |exact K1]; destruct (each (recheck_one {| k_method := Some m; k_force := false |}) r1 ps) as [r2 oc2]; exact K2.
  - cbn [do_item_x]. apply carry_list_x; auto.
  - change (do_item_x fx r (XRecheck o ps)) with (do_item r (XRecheck o ps)). cbn [do_item]. apply recheck_list; auto. now left.
Qed.

Corollary unforced_keeps_or_saves_exact_x fx r it p b : reachable_x fx r -> K_item_x fx r it = false -> unforced_cmd it = true ->
  ws_read (fs r) p = Some b ->
  ws_read (fs (fst (do_item_x fx r it))) p = Some b \/
  exists e x d b', find_path (recs (fst (do_item_x fx r it))) p = Some (e, x) /\ r_digest x = Some d /\
                   obj_read (fs (fst (do_item_x fx r it))) (cache_addr p d) = Some b' /\ (b' = b \/ alias_pair b b' = true).
Proof.
  intros Hr G U Hb. destruct (unforced_keeps_or_saves_x fx r it p b Hr G U Hb) as [H|(e & x & d & b' & H1 & H2 & H3 & H4)]; [now left|].
  right. exists e, x, d, b'. split; [auto|split; [auto|split; [auto|now apply same_norm_exact_or_alias]]].
Qed.
