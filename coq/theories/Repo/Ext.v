(* M-REPO (extension): copy / move / remove --from-cache / untrack on top of the core model.
   Written from file/src/{copy,mv,remove,untrack}/mod.rs, file/src/common/mod.rs
   (filter_targets_from_store, filter_paths_by_globs, build_glob_matcher, cache_paths_for_xvc_paths,
   recheck_from_cache), file/src/recheck/mod.rs (make_recheck_handler), core/src/types/xvcpath.rs
   (XvcCachePath::new / remove, XvcPath::join / join_file_name / parents) as the code is now.
   The core model keeps the records of FILE entities only; copy and move also create DIRECTORY
   records (path + metadata of type Directory) for the parents of their destinations, and
   remove / untrack select them as targets: they live in the wrapper record [xrepo].
   Defects of the unchanged tree that have a candidate repair are behind the booleans of [flags]
   (false = the code as it is now).
   No proofs in this file. *)
From Coq Require Import List Bool NArith.
From XV Require Import Base.Amap Base.Bytes Repo.Model Repo.Fix Glob.Match.
Import ListNotations.
Set Implicit Arguments.

Record flags := {
  fixed_P7 : bool;          (* untrack re-materialises hard links into the cache too *)
  fixed_P8 : bool;          (* untrack skips targets that are not in the workspace / directory records *)
  fixed_mv_absent : bool;   (* move of a copy-method file whose source is absent rechecks the destination *)
  fixed_P45 : bool;         (* move refuses to remove (not rename) a source whose content has no cache object *)
  fixed_P47 : bool;         (* untrack leaves a link whose object is not in the cache as it is instead of panicking *)
  fixed_P3 : bool;          (* copy / move put the content at the cache address of the destination (another extension =
                               another address) and stop before any record changes when it is not in the cache *)
  core : fixes;             (* the repairs in track / carry-in (Repo/Fix.v: P44 / P42, P41, P49) *)
  fixed_P50 : bool          (* XvcCachePath::remove sets the directory of the deleted cache file read-only again when other
                               cache files (the same content under another extension) stay in it *)
}.
Definition as_is : flags := {| fixed_P7 := false; fixed_P8 := false; fixed_mv_absent := false; fixed_P45 := false; fixed_P47 := false; fixed_P3 := false; core := Fix.as_is; fixed_P50 := false |}.
Definition all_fixed : flags := {| fixed_P7 := true; fixed_P8 := true; fixed_mv_absent := true; fixed_P45 := true; fixed_P47 := true; fixed_P3 := true; core := Fix.all_fixed; fixed_P50 := true |}.

Record xrepo := { base : repo; dirs : list path }.
Definition xinit (a : algo) (m : method) (t : tob) : xrepo := {| base := init_repo a m t; dirs := [] |}.
Definition set_base (r : xrepo) (b : repo) : xrepo := {| base := b; dirs := dirs r |}.
Definition xfs (r : xrepo) : fsys := fs (base r).
Definition set_xfs (r : xrepo) (f : fsys) : xrepo := set_base r (set_fs (base r) f).

(* the only places where records of the core model are built *)
Definition mk_frec (p : path) (m : meta) (d : option digest) (h : list digest) (me : method) (t : tob) : frec :=
  {| r_path := p; r_meta := m; r_digest := d; r_hist := h; r_method := me; r_tob := t |}.
Definition mk_inode (c : bytes) (w : bool) (mt : N) : inode := {| i_bytes := c; i_w := w; i_mt := mt |}.
Definition set_next_ent (r : repo) (n : N) : repo :=
  {| fs := fs r; recs := recs r; next_ent := n; cfg_algo := cfg_algo r; cfg_method := cfg_method r; cfg_tob := cfg_tob r |}.

(* ---- strings ----------------------------------------------------------------------------------- *)
Definition star : N := 42.
Fixpoint last_is (c : N) (s : bytes) : bool :=
  match s with [] => false | [x] => N.eqb x c | _ :: t => last_is c t end.
Definition ends_slash (s : bytes) : bool := last_is slash s.
Definition has_star (s : bytes) : bool := existsb (N.eqb star) s.
Fixpoint starts_with (pre s : bytes) : bool :=
  match pre, s with
  | [], _ => true
  | x :: p, y :: t => N.eqb x y && starts_with p t
  | _ :: _, [] => false
  end.
(* RelativePath::join *)
Definition join (d n : bytes) : bytes := match d with [] => n | _ => d ++ slash :: n end.
(* XvcPath::parents: every proper ancestor directory, nearest first *)
Fixpoint parents_fuel (k : nat) (p : bytes) : list bytes :=
  match k with
  | O => []
  | S k' => match parent p with [] => [] | q => q :: parents_fuel k' q end
  end.
Definition parents (p : bytes) : list bytes := parents_fuel (length p) p.
Definition mem (p : path) (l : list path) : bool := existsb (beqb p) l.

(* ---- target resolution from the stores (filter_targets_from_store at the repository root) ------- *)
Definition is_file (x : frec) : bool := match r_meta x with Some _ => true | None => false end.
Definition all_stored (r : xrepo) : list path := map (fun ex => r_path (snd ex)) (recs (base r)) ++ dirs r.
Definition stored (r : xrepo) (p : path) : bool := mem p (all_stored r).
(* filter_paths_by_globs: a target without '*' and without a trailing '/' gets the '/' when some
   stored path lies below it; build_glob_matcher: "t/" becomes "t/**" (its is_dir test on the disk is
   not modelled: the histories never name a bare directory that holds no stored path) *)
Definition norm_target (all : list path) (g : bytes) : bytes :=
  if ends_slash g || has_star g then g
  else if existsb (starts_with (g ++ [slash])) all then g ++ [slash] else g.
Definition matcher_glob (g : bytes) : bytes := if ends_slash g then g ++ [star; star] else g.
Definition matches (all : list path) (targets : list bytes) (p : path) : bool :=
  match targets with
  | [] => true
  | _ => existsb (fun g => glob_matches (matcher_glob (norm_target all g)) p) targets
  end.
Definition select (r : xrepo) (targets : list bytes) : list (N * frec) :=
  filter (fun ex => matches (all_stored r) targets (r_path (snd ex))) (recs (base r)).
Definition select_dirs (r : xrepo) (targets : list bytes) : list path :=
  filter (matches (all_stored r) targets) (dirs r).

(* get_source_path_metadata: "src/" means "src/*"; only entities recorded as files *)
Definition src_glob (s : bytes) : bytes := if ends_slash s then s ++ [star] else s.
Definition sources (r : xrepo) (src : bytes) : list (N * frec) :=
  filter (fun ex => is_file (snd ex)) (select r [src_glob src]).

(* check_if_sources_have_changed: only a Different content digest counts, a missing file does not *)
Definition changed (r : xrepo) (x : frec) : bool :=
  match digest_diff (base r) x (cfg_algo (base r)) (r_tob x) with DDifferent _ => true | _ => false end.

(* create the directory records of the parents of a destination *)
Definition add_parent_dirs (r : xrepo) (p : path) : xrepo :=
  fold_left (fun r q => if stored r q then r
                        else {| base := set_next_ent (base r) (N.succ (next_ent (base r))); dirs := dirs r ++ [q] |})
            (parents p) r.

(* recheck_destination: one RecheckOperation per destination, executed by the handler thread in
   the order sent; the first failure panics the thread and with it the command *)
Fixpoint recheck_dests (r : xrepo) (ps : list path) : xrepo * outcome :=
  match ps with
  | [] => (r, Ok)
  | p :: t =>
      match find_path (recs (base r)) p with
      | None => (r, Panic)
      | Some (_, x) =>
          match r_digest x with
          | None => (r, Panic)                    (* stored_content_digests.get(&xe).unwrap() *)
          | Some d =>
              let '(f1, oc) := recheck_from_cache (xfs r) p (cache_addr p d) (r_method x) in
              match oc with
              | Ok => recheck_dests (set_xfs r f1) t
              | _ => (set_xfs r f1, Panic)
              end
          end
      end
  end.

(* check_untracked_destinations (the repair of P4, in the tree now): something is at the path in the
   workspace (symlink_metadata().is_ok(): a file, a link, dangling or not, or a directory) *)
Definition ws_lexists (f : fsys) (d : path) : bool :=
  match wget f d with
  | Some _ => true
  | None => existsb (fun pe => starts_with (d ++ [slash]) (fst pe)) (ws f)
  end.

(* ---- copy ------------------------------------------------------------------------------------------ *)
Record copy_opts := { c_as : option method; c_cforce : bool; c_no_recheck : bool; c_name_only : bool }.
(* one planned (source, destination) pair; cd_ent = the entity of an already recorded destination *)
Record cpair := { cs_rec : frec; cd_ent : option N; cd_isdir : bool; cd_path : path }.

Definition dest_path (name_only : bool) (dir : path) (x : frec) : path :=
  if name_only then join dir (file_name (r_path x)) else join dir (r_path x).
Definition plan_pair (r : xrepo) (x : frec) (d : path) : cpair :=
  {| cs_rec := x; cd_ent := match find_path (recs (base r)) d with Some (e, _) => Some e | None => None end;
     cd_isdir := mem d (dirs r); cd_path := d |}.
Definition pair_taken (c : cpair) : bool := match cd_ent c with Some _ => true | None => cd_isdir c end.

(* the records of one pair: path, metadata (the source's), digest (an Add event on the destination
   entity), text-or-binary, method (the source's or --as); parent directory records *)
Definition copy_records_one (o : copy_opts) (r : xrepo) (c : cpair) : xrepo :=
  let x := cs_rec c in
  let b := base r in
  let '(e, old_hist, old_digest, b1) :=
    match cd_ent c with
    | Some e => (e, match rget b e with Some y => r_hist y | None => [] end,
                    match rget b e with Some y => r_digest y | None => None end, b)
    | None => (next_ent b, [], None, set_next_ent b (N.succ (next_ent b)))
    end in
  let y := mk_frec (cd_path c) (r_meta x)
                   (match r_digest x with Some d => Some d | None => old_digest end)
                   (match r_digest x with Some d => d :: old_hist | None => old_hist end)
                   (match c_as o with Some m => m | None => r_method x end) (r_tob x) in
  let r1 := {| base := rput b1 e y; dirs := filter (fun q => negb (beqb q (cd_path c))) (dirs r) |} in
  add_parent_dirs r1 (cd_path c).

Definition copy_apply (o : copy_opts) (r : xrepo) (plan : list cpair) (skipped : bool) : xrepo * outcome :=
  let r1 := fold_left (copy_records_one o) plan r in
  if c_no_recheck o then (r1, if skipped then Err else Ok)
  else let '(r2, oc) := recheck_dests r1 (map cd_path plan) in (r2, worst oc (if skipped then Err else Ok)).

Definition recorded_as_file (r : xrepo) (p : path) : bool :=
  match find_path (recs (base r)) p with Some _ => true | None => false end.

(* which pairs a copy will carry out ([skipped]: some pair of a directory destination was refused),
   or the outcome with which it stops before changing anything *)
Inductive cplanned := CRefused (oc : outcome) | CPlanned (plan : list cpair) (skipped : bool).
(* without --force, a planned destination that is not recorded but exists in the workspace stops the
   command before any record changes *)
Definition untracked_dest_exists (r : xrepo) (plan : list cpair) : bool :=
  existsb (fun c => negb (pair_taken c) && ws_lexists (xfs r) (cd_path c)) plan.
Definition copy_checked (o : copy_opts) (r : xrepo) (plan : list cpair) (skipped : bool) : cplanned :=
  if negb (c_cforce o) && untracked_dest_exists r plan then CRefused Err else CPlanned plan skipped.
Definition copy_plan (o : copy_opts) (src dst : bytes) (r : xrepo) : cplanned :=
  let srcs := map snd (sources r src) in
  if Nat.ltb 1 (length srcs) && negb (ends_slash dst) then CRefused Err
  else if ends_slash dst then
    let dir := removelast dst in
    if recorded_as_file r dir then CRefused Err           (* check_if_destination_is_a_directory *)
    else if existsb (changed r) srcs then CRefused Err
    else
      let pairs := map (fun x => plan_pair r x (dest_path (c_name_only o) dir x)) srcs in
      copy_checked o r (filter (fun c => c_cforce o || negb (pair_taken c)) pairs)
                       (existsb (fun c => negb (c_cforce o) && pair_taken c) pairs)
  else
    if existsb (changed r) srcs then CRefused Err
    else match srcs with
         | [] => CRefused Panic                           (* source_xvc_paths.keys().next().unwrap() *)
         | x :: _ =>
             let c := plan_pair r x dst in
             if pair_taken c && negb (c_cforce o) then CRefused Err else copy_checked o r [c] false
         end.
Definition copy_cmd (o : copy_opts) (src dst : bytes) (r : xrepo) : xrepo * outcome :=
  match copy_plan o src dst r with
  | CRefused oc => (r, oc)
  | CPlanned plan skipped => copy_apply o r plan skipped
  end.

(* ---- the repair of P3 ------------------------------------------------------------------------------ *)
(* copy_cache_file_for_path: the object of digest d at the address of path s is copied to the address of
   path p (the same digest directory, another extension) when that address has no object yet: a new
   regular file (fs::copy under a temporary name, read-only, renamed), the directory is left read-only;
   the object at the address of s stays.  Nothing happens when the address of p has an object already or
   when the one of s has none (this covers equal addresses) *)
Definition share_object (f : fsys) (s p : path) (d : digest) : fsys :=
  if obj_exists f (cache_addr p d) then f
  else match obj_read f (cache_addr s d) with
       | None => f
       | Some c =>
           let '(i, f1) := fresh_ino (tick f) in
           dput (oput (iput f1 i (mk_inode c false (clock f1))) (cache_addr p d) (EFile i)) d false
       end.
(* cache_file_available_for_path *)
Definition available (f : fsys) (s p : path) (d : digest) : bool :=
  obj_exists f (cache_addr p d) || obj_exists f (cache_addr s d).

(* copy: a destination that will be rechecked needs the content; then every pair's current digest is shared *)
Definition copy_unavailable (o : copy_opts) (r : xrepo) (plan : list cpair) : bool :=
  negb (c_no_recheck o) &&
  existsb (fun c => match r_digest (cs_rec c) with
                    | Some d => negb (available (xfs r) (r_path (cs_rec c)) (cd_path c) d)
                    | None => false
                    end) plan.
Definition share_pair (f : fsys) (c : cpair) : fsys :=
  match r_digest (cs_rec c) with
  | Some d => share_object f (r_path (cs_rec c)) (cd_path c) d
  | None => f
  end.
Definition copy_cmd3 (fl : flags) (o : copy_opts) (src dst : bytes) (r : xrepo) : xrepo * outcome :=
  match copy_plan o src dst r with
  | CRefused oc => (r, oc)
  | CPlanned plan skipped =>
      if fixed_P3 fl then
        if copy_unavailable o r plan then (r, Err)
        else copy_apply o (set_xfs r (fold_left share_pair plan (xfs r))) plan skipped
      else copy_apply o r plan skipped
  end.

(* ---- move ------------------------------------------------------------------------------------------- *)
Record move_opts := { m_as : option method; m_no_recheck : bool }.

Definition move_path_one (r : xrepo) (ed : N * frec * path) : xrepo :=
  let '(e, x, d) := ed in
  let y := mk_frec d (r_meta x) (r_digest x) (r_hist x) (r_method x) (r_tob x) in
  add_parent_dirs (set_base r (rput (base r) e y)) d.

(* the loop over the sources inside with_store_mut(recheck-method store): file-system effects happen
   at once, the method updates are saved only if the whole loop succeeds; returns the file system,
   the method updates, the destinations to recheck *)
Fixpoint move_loop (fl : flags) (o : move_opts) (f : fsys) (l : list (N * frec * path))
         (ups : list (N * method)) (rechk : list path) : fsys * option (list (N * method) * list path) :=
  match l with
  | [] => (f, Some (ups, rechk))
  | (e, x, d) :: t =>
      let sm := r_method x in
      let dm := match m_as o with Some m => m | None => sm end in
      let ups' := if method_eqb dm sm then ups else ups ++ [(e, dm)] in
      let s := r_path x in
      match sm, dm with
      | Copy, Copy =>
          if beqb s d then move_loop fl o f t ups' rechk
          else if fixed_mv_absent fl && negb (ws_exists f s) then move_loop fl o f t ups' (rechk ++ [d])
          else
            match wget f s with
            | None => (f, None)                              (* fs::remove_file / fs::rename: ENOENT *)
            | Some en =>
                if m_no_recheck o then move_loop fl o (wdel f s) t ups' rechk
                else move_loop fl o (wput (wdel f s) d en) t ups' rechk      (* rename replaces *)
            end
      | _, _ =>
          let f1 := if ws_exists f s then wdel f s else f in
          move_loop fl o f1 t ups' (rechk ++ [d])
      end
  end.

Definition set_method (b : repo) (em : N * method) : repo :=
  match rget b (fst em) with
  | Some x => rput b (fst em) (mk_frec (r_path x) (r_meta x) (r_digest x) (r_hist x) (snd em) (r_tob x))
  | None => b
  end.

Definition move_apply (fl : flags) (o : move_opts) (r : xrepo) (l : list (N * frec * path)) : xrepo * outcome :=
  let r1 := fold_left move_path_one l r in
  let '(f2, res) := move_loop fl o (xfs r1) l [] [] in
  let r2 := set_xfs r1 f2 in
  match res with
  | None => (r2, Err)
  | Some (ups, rechk) =>
      let r3 := set_base r2 (fold_left set_method ups (base r2)) in
      if m_no_recheck o then (r3, Ok) else recheck_dests r3 rechk
  end.

Inductive mplanned := MRefused (oc : outcome) | MPlanned (l : list (N * frec * path)).
Definition move_checked (r : xrepo) (l : list (N * frec * path)) : mplanned :=
  if existsb (fun ed => ws_lexists (xfs r) (snd ed)) l then MRefused Err else MPlanned l.
Definition move_plan (src dst : bytes) (r : xrepo) : mplanned :=
  let srcs := sources r src in
  if Nat.ltb 1 (length srcs) && negb (ends_slash dst) then MRefused Err
  else if ends_slash dst then
    let dir := removelast dst in
    if recorded_as_file r dir then MRefused Err
    else if existsb (fun ex => changed r (snd ex)) srcs then MRefused Err
    else
      let l := map (fun ex => (fst ex, snd ex, join dir (r_path (snd ex)))) srcs in
      if existsb (fun ed => stored r (snd ed)) l then MRefused Err else move_checked r l
  else
    if existsb (fun ex => changed r (snd ex)) srcs then MRefused Err
    else match srcs with
         | [] => MRefused Panic
         | (e, x) :: _ => if stored r dst then MRefused Err else move_checked r [(e, x, dst)]
         end.
Definition move_cmd (fl : flags) (o : move_opts) (src dst : bytes) (r : xrepo) : xrepo * outcome :=
  match move_plan src dst r with
  | MRefused oc => (r, oc)
  | MPlanned l => move_apply fl o r l
  end.

(* the pre-check added by the fix of P45 (after the destination checks, before any record changes): a
   source that would be REMOVED rather than renamed (a recheck method other than copy on either side, or
   --no-recheck) and exists in the workspace must have a cache object under the name the destination
   will be rechecked from; a file tracked with --no-commit has none *)
Definition move_uncommitted (o : move_opts) (r : xrepo) (l : list (N * frec * path)) : bool :=
  existsb (fun ed : N * frec * path =>
    let '(e, x, d) := ed in
    let sm := r_method x in
    let dm := match m_as o with Some m => m | None => sm end in
    let renamed := negb (m_no_recheck o) && method_eqb sm Copy && method_eqb dm Copy in
    negb renamed && ws_exists (xfs r) (r_path x) &&
    negb (match r_digest x with Some dg => obj_exists (xfs r) (cache_addr d dg) | None => false end)) l.
(* with the repair of P3 the pre-check asks for the content at the address of the destination OR of the
   source, also for a destination that is rechecked because its source is absent from the workspace; then
   every version of the entity's digest history (all Add events of its content digest) is shared *)
Definition move_unavailable (o : move_opts) (r : xrepo) (l : list (N * frec * path)) : bool :=
  existsb (fun ed : N * frec * path =>
    let '(e, x, d) := ed in
    let sm := r_method x in
    let dm := match m_as o with Some m => m | None => sm end in
    let inws := ws_exists (xfs r) (r_path x) in
    let renamed := negb (m_no_recheck o) && inws && method_eqb sm Copy && method_eqb dm Copy in
    let removed := negb renamed && inws in
    let rechecked := negb renamed && negb (m_no_recheck o) in
    (removed || rechecked) &&
    negb (match r_digest x with Some dg => available (xfs r) (r_path x) d dg | None => false end)) l.
Definition share_moved (f : fsys) (ed : N * frec * path) : fsys :=
  let '(e, x, d) := ed in
  fold_left (fun f dg => share_object f (r_path x) d dg) (rev (r_hist x)) f.
Definition move_cmd45 (fl : flags) (o : move_opts) (src dst : bytes) (r : xrepo) : xrepo * outcome :=
  match move_plan src dst r with
  | MPlanned l =>
      if fixed_P3 fl then
        if move_unavailable o r l then (r, Err)
        else move_apply fl o (set_xfs r (fold_left share_moved l (xfs r))) l
      else if fixed_P45 fl && move_uncommitted o r l then (r, Err) else move_cmd fl o src dst r
  | MRefused _ => move_cmd fl o src dst r
  end.

(* ---- remove --from-cache ------------------------------------------------------------------------------ *)
(* --only-version <hex prefix>: hash functions are ideal in the model, so the prefix is given by the
   digests whose hexadecimal form starts with it (v_any = the empty prefix) *)
Inductive versions := VCurrent | VAll | VOnly (v_any : bool) (ds : list digest).
Record remove_opts := { rm_versions : versions; rm_force : bool }.

(* cache_paths_for_xvc_paths: per recorded entity, the addresses of all Add events of its digest
   history, computed with the extension of its CURRENT path *)
Definition addrs_of (x : frec) : list caddr := map (cache_addr (r_path x)) (r_hist x).
Definition refers (x : frec) (a : caddr) : bool := existsb (caddr_eqb a) (addrs_of x).
Definition is_target (targets : list (N * frec)) (e : N) : bool := existsb (fun ex => N.eqb (fst ex) e) targets.
(* every entity that refers to the address is a target *)
Definition deletable (all targets : list (N * frec)) (a : caddr) : bool :=
  forallb (fun ex => negb (refers (snd ex) a) || is_target targets (fst ex)) all.

(* XvcCachePath::remove *)
Definition digest_dir_used (f : fsys) (d : digest) : bool :=
  existsb (fun ae => digest_eqb (a_digest (fst ae)) d) (objs f).
Definition prune (f : fsys) (d : digest) : fsys := if digest_dir_used f d then f else ddel f d.
Definition chmod_w_through (f : fsys) (e : entry) : fsys :=
  match resolve f link_fuel e with
  | Some i => match iget f i with Some n => iput f i (mk_inode (i_bytes n) true (i_mt n)) | None => f end
  | None => f
  end.
(* the repair of P50: after the file is deleted, a directory that still holds cache files is set read-only again
   (parent.read_dir()?.next().is_some() => set_readonly(true)); [p50] = the switch fixed_P50 *)
Definition reseal (p50 : bool) (f : fsys) (d : digest) : fsys :=
  if p50 && digest_dir_used f d then dput f d false else f.
Definition cache_remove (p50 : bool) (f : fsys) (a : caddr) : fsys :=
  if obj_exists f a then
    let f1 := dput f (a_digest a) true in
    let f2 := match oget f1 a with Some e => chmod_w_through f1 e | None => f1 end in
    prune (reseal p50 (odel f2 a) (a_digest a)) (a_digest a)
  else prune f (a_digest a).

Definition version_matches (v_any : bool) (ds : list digest) (a : caddr) : bool :=
  v_any || existsb (digest_eqb (a_digest a)) ds.

Definition remove_cmd (fl : flags) (o : remove_opts) (targets : list bytes) (r : xrepo) : xrepo * outcome :=
  let all := recs (base r) in
  let tg := select r targets in
  let cands : option (list caddr) :=
    match rm_versions o with
    | VAll => Some (flat_map (fun ex => addrs_of (snd ex)) tg)
    | VOnly any ds =>
        let l := flat_map (fun ex => filter (version_matches any ds) (addrs_of (snd ex))) tg in
        if Nat.ltb 1 (length l) then None else Some l
    | VCurrent =>
        Some (flat_map (fun ex => match r_digest (snd ex) with
                                  | Some d => [cache_addr (r_path (snd ex)) d] | None => [] end) tg)
    end in
  match cands with
  | None => (r, Err)                                       (* "Version prefix is not unique" *)
  | Some l =>
      let del := filter (fun a => rm_force o || deletable all tg a) l in
      (set_xfs r (fold_left (cache_remove (fixed_P50 fl)) del (xfs r)), Ok)
  end.

(* ---- untrack --------------------------------------------------------------------------------------------- *)
(* is the regular file with inode i the cache object a itself (a hard link made by recheck)?
   [is_hardlink_to] of the candidate repair: same device and inode as cache_path.metadata() *)
Definition same_inode_as_object (f : fsys) (i : N) (a : caddr) : bool :=
  match oget f a with
  | Some e => match resolve f link_fuel e with Some j => N.eqb i j | None => false end
  | None => false
  end.
(* does untrack re-materialise the entry as a copy? *)
Definition needs_copy (fl : flags) (f : fsys) (en : entry) (a : caddr) : bool :=
  match en with
  | ELink _ => true                                   (* not a regular file *)
  | EFile i => fixed_P7 fl && same_inode_as_object f i a
  end.
(* the loop that re-materialises the targets before their records and objects go away *)
Fixpoint materialise (fl : flags) (f : fsys) (tg : list (N * frec)) : fsys * outcome :=
  match tg with
  | [] => (f, Ok)
  | (_, x) :: t =>
      let p := r_path x in
      match wget f p with
      | None => if fixed_P8 fl then materialise fl f t else (f, Panic)     (* symlink_metadata().unwrap() *)
      | Some en =>
          match r_digest x with
          | None =>                                                          (* all_content_digests[xe] *)
              match en with
              | ELink _ => if fixed_P8 fl then materialise fl f t else (f, Panic)
              | EFile _ => materialise fl f t
              end
          | Some d =>
              if needs_copy fl f en (cache_addr p d) then
                if fixed_P47 fl && negb (obj_exists f (cache_addr p d)) then materialise fl f t   (* nothing to copy from *)
                else
                let '(f1, oc) := recheck_from_cache f p (cache_addr p d) Copy in
                match oc with Ok => materialise fl f1 t | _ => (f1, Panic) end
              else materialise fl f t
          end
      end
  end.

Definition untrack_cmd (fl : flags) (targets : list bytes) (r : xrepo) : xrepo * outcome :=
  let all := recs (base r) in
  let tg := select r targets in
  let tdirs := select_dirs r targets in
  (* a directory record among the targets: not a regular file and no content digest *)
  if negb (fixed_P8 fl) && match tdirs with [] => false | _ => true end then (r, Panic)
  else
    let '(f1, oc) := materialise fl (xfs r) tg in
    match oc with
    | Ok =>
        let del := filter (deletable all tg) (flat_map (fun ex => addrs_of (snd ex)) tg) in
        let b1 := set_recs (set_fs (base r) f1) (filter (fun ex => negb (is_target tg (fst ex))) all) in
        let r1 := {| base := b1; dirs := filter (fun q => negb (mem q tdirs)) (dirs r) |} in
        (set_xfs r1 (fold_left (cache_remove (fixed_P50 fl)) del (xfs r1)), Ok)
    | _ => (set_xfs r f1, Panic)
    end.

(* ---- histories ------------------------------------------------------------------------------------------------ *)
Inductive xitem :=
| XBase (it : item)
| XCopy (o : copy_opts) (src dst : bytes)
| XMove (o : move_opts) (src dst : bytes)
| XRemove (o : remove_opts) (targets : list bytes)
| XUntrack (targets : list bytes).

Definition do_xitem (fl : flags) (r : xrepo) (it : xitem) : xrepo * outcome :=
  match it with
  | XBase i => let '(b, oc) := do_item_x (core fl) (base r) i in (set_base r b, oc)
  | XCopy o s d => copy_cmd3 fl o s d r
  | XMove o s d => move_cmd45 fl o s d r
  | XRemove o ts => remove_cmd fl o ts r
  | XUntrack ts => untrack_cmd fl ts r
  end.
Definition run_xitems (fl : flags) (r : xrepo) (h : list xitem) : xrepo :=
  fold_left (fun r it => fst (do_xitem fl r it)) h r.
