(* Proofs about M-REPO with the repairs of P44 / P42 and P41 behind switches (Repo/Fix.v).
   1. With both switches off the model IS Repo/Model.v (do_item_x_as_is).
   2. For EVERY value of the switches: the invariants of Repo/Inv.v and Repo/Stamps.v hold in every
      repository reached outside the class [relink_x fx] -- which is [relink] while P41 is not repaired
      and EMPTY once it is (relink_x_empty_when_fixed).
   3. With fixed_P44: every target that one track command commits ends materialised with the method in
      force, whatever the other targets of the command are (equal addresses, --force, any visiting
      order): track_all_materialised. *)
From Coq Require Import List Bool NArith Lia.
From XV Require Import Base.Amap Base.Bytes Repo.Model Repo.Proofs Repo.Inv Repo.Restore Repo.Stamps Repo.Fix.
Import ListNotations.

(* ---- 1. switches off: the model of Repo/Model.v ---------------------------------------------------------- *)
Lemma mtcx_off fx f p a : fixed_P41 fx = false -> move_to_cache_x fx f p a = move_to_cache f p a.
Proof. intros H. unfold move_to_cache_x. rewrite H. destruct (wget f p); reflexivity. Qed.

Lemma carry_one_x_off fx f p a m force : fixed_P41 fx = false -> carry_one_x fx f p a m force = carry_one f p a m force.
Proof.
  intros H. unfold carry_one_x, carry_one, target_is_link. rewrite H. cbv zeta. rewrite !mtcx_off by auto. reflexivity.
Qed.

Lemma track_call_eq o w r p : track_call o w r p = track_one_call o w r p.
Proof. reflexivity. Qed.

(* track_one = the records (track_one with --no-commit) + carry_one on the file system *)
Lemma track_one_split o w r p a m : track_one_call o w r p = Some (a, m) ->
  track_one o w r p = (set_fs (fst (track_one (records_only o) w r p)) (fst (carry_one (fs r) p a m (t_force o))),
                       snd (carry_one (fs r) p a m (t_force o))) /\
  fs (fst (track_one (records_only o) w r p)) = fs r.
Proof.
  unfold track_one, track_one_call, records_only. cbv zeta. cbn [t_method t_tob t_no_commit t_force].
  change (match wget (fs r) p with Some (ELink _) => true | _ => false end) with (is_link_entry (fs r) p).
  fold (track_method o r). fold (track_tob o r).
  destruct (w && is_link_entry (fs r) p); [discriminate|].
  destruct (ws_meta (fs r) p) as [sm|]; [|discriminate].
  destruct (find_path (recs r) p) as [[e x]|].
  - destruct (meta_eqb (r_meta x) (Some sm)); [discriminate|].
    destruct (digest_diff r x (cfg_algo r) (track_tob o r)) as [| |d| |d]; try discriminate;
      (destruct (t_no_commit o); [discriminate|]); intros [= <- <-];
      destruct (carry_one (fs r) p (cache_addr p d) (track_method o r) (t_force o)) as [f2 oc]; cbn [fst snd]; split; reflexivity.
  - destruct (ws_read (fs r) p) as [c|]; [|discriminate].
    destruct (t_no_commit o); [discriminate|]. intros [= <- <-].
    destruct (carry_one (fs r) p _ (track_method o r) (t_force o)) as [f2 oc]; cbn [fst snd]; split; reflexivity.
Qed.

Definition off (fx : fixes) : Prop := fixed_P44 fx = false /\ fixed_P41 fx = false /\ fixed_P49 fx = false /\ fixed_P43 fx = false.

Lemma eff_force_off fx done a force : fixed_P44 fx = false -> eff_force fx done a force = force.
Proof. intros H. unfold eff_force. rewrite H. cbn. apply andb_true_r. Qed.

Lemma track_one_x_off fx o w r done p : off fx ->
  fst (fst (track_one_x fx o w (r, done) p)) = fst (track_one o w r p) /\
  snd (track_one_x fx o w (r, done) p) = snd (track_one o w r p).
Proof.
  intros (H44 & H41 & H49 & H43). unfold track_one_x. rewrite track_call_eq, H43.
  destruct (track_one_call o w r p) as [[a m]|] eqn:Hc.
  - destruct (track_one_split o w r p a m Hc) as [E _]. rewrite E.
    rewrite carry_one_x_off, eff_force_off by auto.
    destruct (carry_one (fs r) p a m (t_force o)) as [f2 oc]. split; reflexivity.
  - destruct (track_one o w r p) as [r1 oc]. split; reflexivity.
Qed.

Lemma each_x_off fx o w ps : off fx -> forall r done,
  fst (fst (each_x (track_one_x fx o w) (r, done) ps)) = fst (each (track_one o w) r ps) /\
  snd (each_x (track_one_x fx o w) (r, done) ps) = snd (each (track_one o w) r ps).
Proof.
  intros Hoff. induction ps as [|p t IH]; intros r done; [split; reflexivity|].
  cbn [each_x each]. destruct (track_one_x_off fx o w r done p Hoff) as [E1 E2].
  destruct (track_one_x fx o w (r, done) p) as [[r1 d1] o1]. cbn [fst snd] in E1, E2.
  destruct (track_one o w r p) as [r1' o1']. cbn [fst snd] in E1, E2. subst r1' o1'.
  destruct (IH r1 d1) as [F1 F2].
  destruct (each_x (track_one_x fx o w) (r1, d1) t) as [[r2 d2] o2]. cbn [fst snd] in F1, F2.
  destruct (each (track_one o w) r1 t) as [r2' o2']. cbn [fst snd] in F1, F2. subst r2' o2'. split; reflexivity.
Qed.

Lemma carry_phase_x_off fx cs force : off fx -> forall f done, carry_phase_x fx f cs force done = carry_phase f cs force.
Proof.
  intros (H44 & H41 & H49 & H43). induction cs as [|c t IH]; intros f done; [reflexivity|]. cbn [carry_phase_x carry_phase].
  destruct (cp_sel c); [|apply IH]. destruct (cp_addr c) as [a|]; [|apply IH].
  rewrite carry_one_x_off, eff_force_off by auto.
  destruct (carry_one f (r_path (cp_rec c)) a (r_method (cp_rec c)) force) as [f1 [| |]]; auto.
Qed.

Theorem do_item_x_off fx r it : off fx -> do_item_x fx r it = do_item r it.
Proof.
  intros Hoff. destruct it as [p c|p c|p|p|o ps|o ps|o ps]; try reflexivity.
  - cbn [do_item_x do_item]. set (w := existsb (fun p => existsb (N.eqb slash) p) ps).
    destruct (each_x_off fx o w ps Hoff r []) as [E1 E2].
    destruct Hoff as (_ & _ & _ & H43). rewrite H43.
    destruct (each_x (track_one_x fx o w) (r, []) ps) as [[r1 d1] o1]. cbn [fst snd] in *.
    destruct (each (track_one o w) r ps) as [r1' o1']. cbn [fst snd] in *. now subst.
  - cbn [do_item_x do_item]. unfold carry_in_cmd_x, carry_in_cmd. pose proof Hoff as (H44 & H41 & H49 & H43). rewrite H49. cbn [negb andb].
    change (existsb left_alone (plans o r ps)) with (existsb (fun c => cp_sel c && match cp_addr c with None => true | Some _ => false end) (plans o r ps)).
    rewrite carry_phase_x_off by (repeat split; tauto). reflexivity.
Qed.

Theorem do_item_x_as_is r it : do_item_x as_is r it = do_item r it.
Proof. apply do_item_x_off. repeat split. Qed.

Theorem run_items_x_as_is h : forall r, run_items_x as_is r h = run_items r h.
Proof.
  induction h as [|it t IH]; intros r; [reflexivity|].
  unfold run_items_x, run_items in *. cbn [fold_left]. rewrite do_item_x_as_is. apply IH.
Qed.

(* ---- 2. one carry_in closure, any switches ------------------------------------------------------------------ *)
(* the excluded class: [relink] until P41 is repaired, nothing afterwards *)
Definition relink_x (fx : fixes) (f : fsys) (p : path) (a : caddr) (force : bool) : bool :=
  negb (fixed_P41 fx) && relink f p a force.
Lemma relink_x_fixed fx f p a force : fixed_P41 fx = true -> relink_x fx f p a force = false.
Proof. intros H. unfold relink_x. now rewrite H. Qed.

(* the content read THROUGH the entry at p (a regular file or a link) fits the address it is committed to *)
Definition fits_read (f : fsys) (p : path) (a : caddr) : Prop := forall c, ws_read f p = Some c -> fits (a_digest a) c.
Lemma fits_read_pre f p a : fits_read f p a -> fits_pre f p a.
Proof. intros H j n Hw Hi. apply H. now apply (ws_read_file f p j n). Qed.

Definition commit_part_x (fx : fixes) (f : fsys) (p : path) (a : caddr) (force : bool) : fsys * outcome :=
  if obj_exists f a then
    if force && negb (target_is_link fx f p a) then
      let f' := dput f (a_digest a) true in
      let f' := match oget f' a with
                | Some e => match resolve f' link_fuel e with
                            | Some i => match iget f' i with
                                        | Some n => iput f' i {| i_bytes := i_bytes n; i_w := true; i_mt := i_mt n |}
                                        | None => f' end
                            | None => f' end
                | None => f' end in
      move_to_cache_x fx (odel f' a) p a
    else (f, Ok)
  else move_to_cache_x fx f p a.

Lemma carry_one_x_eq fx f p a m force :
  carry_one_x fx f p a m force =
  let '(f1, o1) := commit_part_x fx f p a force in
  match o1 with Ok => recheck_from_cache (cleared f1 p) p a m | _ => (f1, Panic) end.
Proof. reflexivity. Qed.

Lemma commit_part_x_off fx f p a force : fixed_P41 fx = false -> commit_part_x fx f p a force = commit_part f p a force.
Proof. intros H. unfold commit_part_x, commit_part, target_is_link. rewrite H. cbv zeta. rewrite !mtcx_off by auto. reflexivity. Qed.

(* the cache file made by copying content c: a new read-only inode with a fresh stamp at address a, the
   workspace entry gone, the directory read-only again *)
Definition copied (g : fsys) (p : path) (a : caddr) (c : bytes) : fsys :=
  dput (oput (wdel (alloc (tick g) {| i_bytes := c; i_w := false; i_mt := clock (tick g) |}) p) a (EFile (next_ino g)))
       (a_digest a) false.

Lemma mtcx_copy fx g p a e c : fixed_P41 fx = true -> wget g p = Some e -> has_other_names g p e = true ->
  read_entry g e = Some c -> move_to_cache_x fx g p a = (copied g p a c, Ok).
Proof. intros H Hw Ho Hr. unfold move_to_cache_x. rewrite Hw, H, Ho, Hr. cbn [andb]. rewrite fresh_ino_eq. reflexivity. Qed.

Lemma mtcx_copy_failed fx g p a e : fixed_P41 fx = true -> wget g p = Some e -> has_other_names g p e = true ->
  read_entry g e = None -> move_to_cache_x fx g p a = (dput g (a_digest a) true, Err).
Proof. intros H Hw Ho Hr. unfold move_to_cache_x. rewrite Hw, H, Ho, Hr. reflexivity. Qed.

Lemma mtcx_rename fx g p a e : wget g p = Some e -> has_other_names g p e = false ->
  move_to_cache_x fx g p a = move_to_cache g p a.
Proof. intros Hw Ho. unfold move_to_cache_x. rewrite Hw, Ho, andb_false_r. reflexivity. Qed.

Lemma mtcx_none fx g p a : wget g p = None -> move_to_cache_x fx g p a = (dput g (a_digest a) true, Err).
Proof. intros Hw. unfold move_to_cache_x. rewrite Hw. now apply mtc_none. Qed.

(* what the committing part of the closure does *)
Inductive ccase (f : fsys) (p : path) (a : caddr) (force : bool) : fsys * outcome -> Prop :=
| KKept : oget f a <> None -> (force = false \/ links_to f p a = true \/ is_link_entry f p = true) -> ccase f p a force (f, Ok)
| KMoved g j n : wget f p = Some (EFile j) -> iget f j = Some n -> iget g j = Some n ->
    (forall b, oget f b <> Some (EFile j)) -> pre_state f a force g ->
    ccase f p a force (dput (oput (iput (wdel g p) j (ro n)) a (EFile j)) (a_digest a) false, Ok)
| KCopied g c : pre_state f a force g -> wget f p <> None -> ws_read f p = Some c ->
    (oget f a <> None -> is_link_entry f p = false) -> ccase f p a force (copied g p a c, Ok)
| KFailed g : pre_state f a force g -> ws_read f p = None -> ccase f p a force (dput g (a_digest a) true, Err).

Lemma commit_case_ccase f p a force res : commit_case f p a force res -> ccase f p a force res.
Proof.
  intros [Hoa Hk | g j n Hw Hj Hgj Hs P | g Hw P].
  - apply KKept; auto. destruct Hk; auto.
  - eapply KMoved; eauto.
  - apply KFailed; auto. unfold ws_read. now rewrite Hw.
Qed.

Lemma ccase_spec f p a force res : FI f -> fits_read f p a -> ccase f p a force res ->
  CarrySpec f p a force (fst res) (match snd res with Ok => Ok | _ => Panic end).
Proof.
  intros F Hfr [Hoa Hk | g j n Hw Hj Hgj Hs P | g c P Hw Hr Hl | g P Hrn]; cbn [fst snd].
  - (* kept *)
    split; [exact F|auto|apply R_bytes_refl|auto|auto| |auto|auto|lia].
    intros _ i n Ho Hi. right; eauto.
  - (* moved *)
    pose proof (fits_read_pre f p a Hfr) as Hfit.
    destruct (pre_state_facts _ _ _ _ F P) as (Fg & Wg & Og & Bg & Ig & Dg & Ng).
    assert (Hro : iget (iput (wdel g p) j (ro n)) j = Some (ro n)) by (fsrw; now rewrite N.eqb_refl).
    split.
    + apply FI_dput. eapply FI_oput; [eapply FI_iput_same with (n := n); [apply FI_wdel, Fg|now fsrw|reflexivity|now right]
                                     |exact Hro|reflexivity|cbn; eapply Hfit; eauto|].
      intros b Hb. fsrw. rewrite Og. destruct (caddr_eqb_spec a b); [congruence|apply Hs].
    + intros q Hq. fsrw. rewrite Wg. destruct (beqb_spec p q); [congruence|reflexivity].
    + intros i0 n0 H0. destruct (Bg _ _ H0) as (n1 & H1 & E1). fsrw.
      destruct (N.eqb_spec j i0) as [<-|]; [|eauto].
      exists (ro n). split; auto. cbn. rewrite Hgj in H1. injection H1 as ->. exact E1.
    + intros b Hb. fsrw. rewrite Og. destruct (caddr_eqb_spec a b); [congruence|auto].
    + intros -> e He. destruct P as [[Hn _]|[Hx _]]; congruence.
    + intros Ha i ni Ho Hi. right. exists j, (ro n). fsrw. rewrite caddr_eqb_refl, N.eqb_refl.
      split; [auto|split; [auto|]]. cbn.
      destruct P as [[Hn _]|[-> _]]; [congruence|].
      unfold alias_swap, is_link_entry in Ha. rewrite Hw in Ha. cbn in Ha.
      unfold alias_meet in Ha.
      assert (Er : obj_read f a = Some (i_bytes ni)) by (apply obj_read_spec; eauto).
      assert (Ew : ws_read f p = Some (i_bytes n)) by (unfold ws_read; now rewrite Hw, read_file, Hj).
      rewrite Er, Ew in Ha. apply negb_false_iff in Ha. destruct (beqb_spec (i_bytes n) (i_bytes ni)); congruence.
    + intros _. fsrw. rewrite caddr_eqb_refl. discriminate.
    + intros _ D b Hb. fsrw. destruct (digest_eqb_spec (a_digest a) (a_digest b)) as [E|Hne]; auto.
      rewrite Dg by congruence. apply D. rewrite Og in Hb.
      destruct (caddr_eqb_spec a b) as [E'|]; [congruence|auto].
    + fsrw. lia.
  - (* copied *)
    destruct (pre_state_facts _ _ _ _ F P) as (Fg & Wg & Og & Bg & Ig & Dg & Ng).
    set (n0 := {| i_bytes := c; i_w := false; i_mt := clock (tick g) |}).
    assert (Hnew : iget (wdel (alloc (tick g) n0) p) (next_ino g) = Some n0).
    { rewrite iget_wdel. change (next_ino g) with (next_ino (tick g)). apply iget_alloc_new. }
    assert (Hfresh : forall b, oget g b <> Some (EFile (next_ino g))).
    { intros b Hb. destruct (FI_obj_file _ _ _ Fg Hb) as (nb & Hnb & _). apply (fi_bound Fg) in Hnb. lia. }
    unfold copied. fold n0. split.
    + apply FI_dput. eapply FI_oput; [apply FI_wdel, FI_alloc, FI_tick, Fg|exact Hnew|reflexivity|cbn; now apply Hfr|].
      intros b _. unfold alloc. fsrw. apply Hfresh.
    + intros q Hq. unfold alloc. fsrw. rewrite Wg. destruct (beqb_spec p q); [congruence|reflexivity].
    + intros i0 ni0 H0. destruct (Bg _ _ H0) as (n1 & H1 & E1). unfold alloc. fsrw.
      destruct (N.eqb_spec (next_ino g) i0) as [E|]; [|eauto]. apply (fi_bound Fg) in H1. lia.
    + intros b Hb. unfold alloc. fsrw. rewrite Og. destruct (caddr_eqb_spec a b); [congruence|auto].
    + intros -> e He. destruct P as [[Hn _]|[Hx _]]; congruence.
    + intros Ha i ni Ho Hi. right. exists (next_ino g), n0. unfold alloc. fsrw. rewrite caddr_eqb_refl.
      split; [auto|split; [now rewrite N.eqb_refl|]]. cbn.
      destruct P as [[Hn _]|[-> _]]; [congruence|].
      unfold alias_swap in Ha. rewrite Hl in Ha by congruence. cbn in Ha. unfold alias_meet in Ha.
      assert (Er : obj_read f a = Some (i_bytes ni)) by (apply obj_read_spec; eauto).
      rewrite Er, Hr in Ha. apply negb_false_iff in Ha. destruct (beqb_spec c (i_bytes ni)); congruence.
    + intros _. unfold alloc. fsrw. rewrite caddr_eqb_refl. discriminate.
    + intros _ D b Hb. unfold alloc in *. fsrw. destruct (digest_eqb_spec (a_digest a) (a_digest b)) as [E|Hne]; auto.
      rewrite Dg by congruence. apply D. rewrite Og in Hb.
      destruct (caddr_eqb_spec a b) as [E'|]; [congruence|auto].
    + unfold alloc. fsrw. lia.
  - (* failed *)
    destruct (pre_state_facts _ _ _ _ F P) as (Fg & Wg & Og & Bg & Ig & Dg & Ng).
    split; try (intros; congruence).
    + now apply FI_dput.
    + intros q _. fsrw. apply Wg.
    + intros i0 n0 H0. destruct (Bg _ _ H0) as (n1 & H1 & E1). fsrw. eauto.
    + intros b Hb. fsrw. rewrite Og. destruct (caddr_eqb_spec a b); [congruence|auto].
    + intros -> e He. destruct P as [[Hn _]|[Hx _]]; congruence.
    + intros _ i ni Ho Hi. left. fsrw. rewrite Og. now rewrite caddr_eqb_refl.
    + fsrw. lia.
Qed.

Lemma other_names_noobj g p j : has_other_names g p (EFile j) = false -> forall b, oget g b <> Some (EFile j).
Proof.
  cbn [has_other_names]. intros H. apply orb_false_iff in H. destruct H as [_ H]. now apply shares_false.
Qed.

Lemma commit_part_x_cases fx f p a force :
  FI f -> relink_x fx f p a force = false -> ccase f p a force (commit_part_x fx f p a force).
Proof.
  intros F G. destruct (fixed_P41 fx) eqn:H41.
  2:{ rewrite commit_part_x_off by auto. apply commit_case_ccase, commit_part_cases; auto.
      unfold relink_x in G. now rewrite H41 in G. }
  clear G. unfold commit_part_x, target_is_link. rewrite H41.
  destruct (obj_exists f a) eqn:Ex.
  - assert (Hoa : oget f a <> None) by (apply obj_exists_spec; auto).
    destruct (oget f a) as [e|] eqn:Eo; [|congruence].
    destruct (fi_obj F _ _ Eo) as (i & ni & -> & Hi & Hwi & Hfi).
    destruct force; cbn [andb]; [|apply KKept; [rewrite Eo; discriminate|auto]].
    destruct (links_to f p a) eqn:El; cbn [negb]; [apply KKept; [rewrite Eo; discriminate|auto]|].
    cbv zeta. rewrite oget_dput, Eo, resolve_file, iget_dput, Hi.
    set (g0 := iput (dput f (a_digest a) true) i _).
    assert (Eg : odel g0 a = iput (odel (dput f (a_digest a) true) a) i (rw ni)) by reflexivity.
    assert (P : pre_state f a true (odel g0 a)) by (right; split; auto; exists i, ni; auto).
    destruct (pre_state_facts _ _ _ _ F P) as (Fg & Wg & Og & Bg & Ig & _).
    destruct (wget f p) as [[j|b]|] eqn:Ew.
    + assert (Hji : N.eqb j i = false) by (unfold links_to in El; now rewrite Ew, Eo, resolve_file in El).
      destruct (iget f j) as [nj|] eqn:Hj; [|exfalso; eapply (fi_ws F); eauto].
      destruct (has_other_names (odel g0 a) p (EFile j)) eqn:Ho.
      * destruct (Bg _ _ Hj) as (n' & Hn' & En').
        rewrite (mtcx_copy fx (odel g0 a) p a (EFile j) (i_bytes n')) by (first [exact H41|exact Ho|now rewrite Wg|now rewrite read_file, Hn']).
        apply KCopied; auto; [congruence| |intros _; unfold is_link_entry; now rewrite Ew].
        rewrite En'. now apply (ws_read_file f p j nj).
      * pose proof (other_names_noobj _ _ _ Ho) as Hs.
        assert (Hsf : forall b, oget f b <> Some (EFile j)).
        { intros b Hb. destruct (caddr_eqb_spec a b) as [<-|Hne].
          - rewrite Eo in Hb. injection Hb as <-. now rewrite N.eqb_refl in Hji.
          - apply (Hs b). rewrite Og. destruct (caddr_eqb_spec a b); [congruence|auto]. }
        assert (Hgj : iget (odel g0 a) j = Some nj).
        { rewrite Ig; auto. unfold obj_ino; intros [b Hb]. eapply Hsf; eauto. }
        rewrite (mtcx_rename fx (odel g0 a) p a (EFile j)) by (first [exact Ho|now rewrite Wg]).
        rewrite (mtc_file (odel g0 a) p a j nj) by (first [exact Hgj|now rewrite Wg]).
        eapply KMoved; eauto.
    + unfold links_to in El. rewrite Ew in El. discriminate.
    + rewrite mtcx_none by now rewrite Wg. apply KFailed; auto. unfold ws_read. now rewrite Ew.
  - pose proof (obj_exists_false _ _ F Ex) as Hn.
    assert (P : pre_state f a force f) by (left; auto).
    destruct (wget f p) as [[j|b]|] eqn:Ew.
    + destruct (iget f j) as [nj|] eqn:Hj; [|exfalso; eapply (fi_ws F); eauto].
      destruct (has_other_names f p (EFile j)) eqn:Ho.
      * rewrite (mtcx_copy fx f p a (EFile j) (i_bytes nj)) by (first [exact H41|exact Ho|exact Ew|now rewrite read_file, Hj]).
        apply KCopied; auto; [congruence|now apply (ws_read_file f p j nj)|congruence].
      * pose proof (other_names_noobj _ _ _ Ho) as Hs.
        rewrite (mtcx_rename fx f p a (EFile j)) by (first [exact Ho|exact Ew]).
        rewrite (mtc_file f p a j nj) by (first [exact Hj|exact Ew]). eapply KMoved; eauto.
    + destruct (read_entry f (ELink b)) as [c|] eqn:Er.
      * rewrite (mtcx_copy fx f p a (ELink b) c) by (first [exact H41|exact Er|exact Ew|reflexivity]).
        apply KCopied; auto; [congruence|unfold ws_read; now rewrite Ew|congruence].
      * rewrite (mtcx_copy_failed fx f p a (ELink b)) by (first [exact H41|exact Er|exact Ew|reflexivity]). apply KFailed; auto. unfold ws_read. now rewrite Ew.
    + rewrite mtcx_none by auto. apply KFailed; auto. unfold ws_read. now rewrite Ew.
Qed.

Lemma commit_part_x_spec fx f p a force : FI f -> relink_x fx f p a force = false -> fits_read f p a ->
  CarrySpec f p a force (fst (commit_part_x fx f p a force))
            (match snd (commit_part_x fx f p a force) with Ok => Ok | _ => Panic end).
Proof. intros F G Hfr. apply ccase_spec; auto. now apply commit_part_x_cases. Qed.

Lemma carry_one_x_spec fx f p a m force : FI f -> relink_x fx f p a force = false -> fits_read f p a ->
  CarrySpec f p a force (fst (carry_one_x fx f p a m force)) (snd (carry_one_x fx f p a m force)).
Proof.
  intros F G Hfit. pose proof (commit_part_x_spec fx f p a force F G Hfit) as S.
  rewrite carry_one_x_eq. destruct (commit_part_x fx f p a force) as [f1 o1]. cbn [fst snd] in S.
  destruct o1; [|exact S|exact S].
  destruct S as [S1 S2 S3 S4 S5 S6 S7 S8 S10].
  destruct (rfc_spec (cleared f1 p) p a m (FI_cleared _ _ S1)) as (R1 & R2 & R3 & R4 & R5 & R6).
  destruct (recheck_from_cache (cleared f1 p) p a m) as [f2 o2]. cbn [fst snd] in *.
  assert (O2 : forall b, oget f2 b = oget f1 b) by (intros; rewrite R3; now fsrw).
  assert (I2 : forall i n, iget f1 i = Some n -> iget f2 i = Some n) by (intros; apply R4; now fsrw).
  assert (Pres : oget f1 a <> None) by (apply S7; discriminate).
  split; auto.
  - intros q Hq. rewrite R2 by auto. rewrite cleared_other by congruence. auto.
  - intros i n Hi. destruct (S3 _ _ Hi) as (n1 & H1 & E1). eauto.
  - intros b Hb. rewrite O2. auto.
  - intros Hf e He. rewrite O2. auto.
  - intros Ha i n Ho Hi. destruct (S6 Ha i n Ho Hi) as [Hn|(i' & n' & H1 & H2 & H3)]; [congruence|].
    right. exists i', n'. rewrite O2. auto.
  - intros _. now rewrite O2.
  - intros _ D b Hb. rewrite O2 in Hb. rewrite R5. fsrw. apply S8; auto. discriminate.
  - fsrw. lia.
Qed.

Lemma carry_one_x_no_panic fx f p a m force :
  FI f -> relink_x fx f p a force = false -> ws_read f p <> None -> snd (carry_one_x fx f p a m force) <> Panic.
Proof.
  intros F G Hr. rewrite carry_one_x_eq.
  destruct (commit_part_x_cases fx f p a force F G) as [Hoa Hk | g j n Hw Hj Hgj Hs P | g c P Hw Hr' Hl | g P Hrn];
    [apply rfc_no_panic|apply rfc_no_panic|apply rfc_no_panic|congruence].
Qed.

(* ---- 3. the monitors of Repo/Inv.v for the commands with switches ------------------------------------------------ *)
Definition misfit_x (f : fsys) (p : path) (a : caddr) (force : bool) : bool :=
  match ws_read f p with Some c => negb (fits_b (a_digest a) c) | None => false end.
Definition unclean_x (fx : fixes) (f : fsys) (p : path) (a : caddr) (force : bool) : bool :=
  relink_x fx f p a force || misfit_x f p a force.

Lemma misfit_x_false f p a force : misfit_x f p a force = false -> fits_read f p a.
Proof. unfold misfit_x. intros H c Hc. rewrite Hc in H. now apply negb_false_iff, fits_b_spec in H. Qed.
Lemma fits_read_misfit_x f p a force : fits_read f p a -> misfit_x f p a force = false.
Proof.
  unfold misfit_x. intros H. destruct (ws_read f p) as [c|] eqn:Hr; auto. apply negb_false_iff, fits_b_spec. now apply H.
Qed.

Section MonitorX.
Variable fx : fixes.
Variable bad : fsys -> path -> caddr -> bool -> bool.

Definition mon_track_one_x (o : track_opts) (w : bool) (st : repo * list caddr) (p : path) : bool :=
  match track_call o w (fst st) p with
  | Some (a, _) => bad (fs (fst st)) p a (eff_force fx (snd st) a (t_force o))
  | None => false
  end.
Fixpoint mon_each_x (step : repo * list caddr -> path -> (repo * list caddr) * outcome)
         (mon : repo * list caddr -> path -> bool) (st : repo * list caddr) (ps : list path) : bool :=
  match ps with
  | [] => false
  | p :: t => mon st p || mon_each_x step mon (fst (step st p)) t
  end.
Fixpoint mon_carry_phase_x (f : fsys) (cs : list cplan) (force : bool) (done : list caddr) : bool :=
  match cs with
  | [] => false
  | c :: t =>
      match cp_sel c, cp_addr c with
      | true, Some a =>
          bad f (r_path (cp_rec c)) a (eff_force fx done a force) ||
          match snd (carry_one_x fx f (r_path (cp_rec c)) a (r_method (cp_rec c)) (eff_force fx done a force)) with
          | Ok => mon_carry_phase_x (fst (carry_one_x fx f (r_path (cp_rec c)) a (r_method (cp_rec c)) (eff_force fx done a force))) t force (a :: done)
          | _ => false
          end
      | _, _ => mon_carry_phase_x f t force done
      end
  end.
Definition mon_item_x (r : repo) (it : item) : bool :=
  match it with
  | XTrack o ps => mon_each_x (track_one_x fx o (walked_of ps)) (mon_track_one_x o (walked_of ps)) (r, []) ps
  | XCarryIn o ps =>
      let cs := plans o r ps in
      if negb (fixed_P49 fx) && existsb left_alone cs then false
      else mon_carry_phase_x (fs r) cs (c_force o) []
  | _ => false
  end.
Fixpoint mon_run_x (r : repo) (h : list item) : bool :=
  match h with
  | [] => false
  | it :: t => mon_item_x r it || mon_run_x (fst (do_item_x fx r it)) t
  end.
End MonitorX.

(* once P41 is repaired the class is empty *)
Lemma mon_each_x_never fx o w ps : forall st,
  mon_each_x (track_one_x fx o w) (mon_track_one_x fx (fun _ _ _ _ => false) o w) st ps = false.
Proof.
  induction ps as [|p t IH]; intros st; [reflexivity|]. cbn [mon_each_x]. rewrite IH.
  unfold mon_track_one_x. destruct (track_call o w (fst st) p) as [[a m]|]; reflexivity.
Qed.
Lemma mon_carry_phase_x_never fx cs force : forall f done, mon_carry_phase_x fx (fun _ _ _ _ => false) f cs force done = false.
Proof.
  induction cs as [|c t IH]; intros f done; [reflexivity|]. cbn [mon_carry_phase_x].
  destruct (cp_sel c); auto. destruct (cp_addr c); auto. cbn [orb].
  destruct (snd (carry_one_x fx f _ _ _ _)); auto.
Qed.
Lemma mon_item_x_never fx r it : mon_item_x fx (fun _ _ _ _ => false) r it = false.
Proof.
  destruct it; cbn [mon_item_x]; auto using mon_each_x_never.
  destruct (negb _ && existsb _ _); auto using mon_carry_phase_x_never.
Qed.

(* P43 (A): restoring the recorded method touches nothing else *)
Lemma keep_method_spec r0 r1 p : RI r1 ->
  RI (keep_method r0 r1 p) /\ same_cfg r1 (keep_method r0 r1 p) /\ fs (keep_method r0 r1 p) = fs r1 /\
  (forall q, q <> p -> find_path (recs (keep_method r0 r1 p)) q = find_path (recs r1) q) /\
  (forall q, view_core (find_path (recs (keep_method r0 r1 p)) q) = view_core (find_path (recs r1) q)).
Proof.
  intros R. unfold keep_method.
  assert (Triv : RI r1 /\ same_cfg r1 r1 /\ fs r1 = fs r1 /\ (forall q, q <> p -> find_path (recs r1) q = find_path (recs r1) q) /\
                 (forall q, view_core (find_path (recs r1) q) = view_core (find_path (recs r1) q)))
    by (split; [auto|split; [apply same_cfg_refl|auto]]).
  destruct (find_path (recs r0) p) as [[e0 x0]|]; [|exact Triv].
  destruct (find_path (recs r1) p) as [[e x1]|] eqn:Ef; [|exact Triv].
  destruct (digest_opt_eqb _ _ && _); [|exact Triv].
  pose proof (proj1 (find_path_spec r1 p e x1 R) Ef) as [Hg Hp].
  set (x' := {| r_path := r_path x1; r_meta := r_meta x1; r_digest := r_digest x1; r_hist := r_hist x1;
                r_method := r_method x0; r_tob := r_tob x1 |}).
  assert (Hx' : r_path x' = r_path x1) by reflexivity.
  split; [eapply RI_put_existing; eauto|split; [repeat split|split; [reflexivity|split]]].
  - intros q Hq. eapply find_path_rput_other; eauto. congruence.
  - intros q. destruct (beqb_spec p q) as [<-|Hne].
    + rewrite Ef. rewrite <- Hp at 1. rewrite (find_path_rput_same r1 e x1 x' R Hg Hx'). reflexivity.
    + f_equal. eapply find_path_rput_other; eauto. congruence.
Qed.

(* one target of track *)
Lemma track_one_x_facts fx o w r done p : RI r ->
  let r' := fst (fst (track_one_x fx o w (r, done) p)) in
  let oc := snd (track_one_x fx o w (r, done) p) in
  RI r' /\ same_cfg r r' /\ (forall q, q <> p -> find_path (recs r') q = find_path (recs r) q) /\
  match track_call o w r p with
  | None => fs r' = fs r /\ oc <> Panic /\ snd (fst (track_one_x fx o w (r, done) p)) = done
  | Some (a, m) =>
      fs r' = fst (carry_one_x fx (fs r) p a m (eff_force fx done a (t_force o))) /\
      oc = snd (carry_one_x fx (fs r) p a m (eff_force fx done a (t_force o))) /\
      snd (fst (track_one_x fx o w (r, done) p)) = a :: done /\
      fits_read (fs r) p a /\ ws_read (fs r) p <> None
  end.
Proof.
  intros R. cbv zeta. unfold track_one_x.
  destruct (track_call o w r p) as [[a m]|] eqn:Hc.
  - (* the records: track_one with --no-commit *)
    destruct (track_one_spec (records_only o) w r p R) as (S1 & S2 & S3 & S4).
    assert (Hnc : track_one_call (records_only o) w r p = None).
    { unfold track_one_call, records_only. cbn [t_no_commit t_method t_tob].
      destruct (w && _); auto. destruct (ws_meta _ _); auto. destruct (find_path _ _) as [[e x]|].
      - destruct (meta_eqb _ _); auto. destruct (digest_diff _ _ _ _); auto.
      - destruct (ws_read _ _); auto. }
    rewrite Hnc in S4. destruct S4 as [Efs _].
    destruct (carry_one_x fx (fs r) p a m (eff_force fx done a (t_force o))) as [f2 oc] eqn:Ec. cbn [fst snd].
    split; [now apply RI_set_fs|split; [exact S2|split; [exact S3|]]].
    split; [reflexivity|split; [reflexivity|split; [reflexivity|]]].
    (* the address fits what is read through the entry *)
    rewrite track_call_eq in Hc. unfold track_one_call in Hc. cbv zeta in Hc.
    destruct (w && _); [discriminate Hc|].
    destruct (ws_meta (fs r) p) as [sm|] eqn:Em; [|discriminate Hc].
    pose proof (ws_meta_read _ _ _ Em) as Hrd.
    split; [|exact Hrd].
    destruct (find_path (recs r) p) as [[e x]|] eqn:Ef.
    + pose proof (proj1 (find_path_spec r p e x R) Ef) as [Hg Hp].
      destruct (meta_eqb (r_meta x) (Some sm)); [discriminate Hc|].
      assert (New : forall d, (digest_diff r x (cfg_algo r) (track_tob o r) = DDifferent d \/
                               digest_diff r x (cfg_algo r) (track_tob o r) = DRecordMissing d) ->
                fits_read (fs r) p (cache_addr p d)).
      { intros d Hd. apply digest_diff_new in Hd. destruct Hd as (c & Hc' & ->). rewrite Hp in Hc'.
        intros c0 Hc0. rewrite Hc' in Hc0. injection Hc0 as <-. cbn. apply digest_of_fits. }
      destruct (digest_diff r x (cfg_algo r) (track_tob o r)) as [| |d| |d] eqn:Ed; try discriminate Hc;
        (destruct (t_no_commit o); [discriminate Hc|]); injection Hc as <- <-; apply New; auto.
    + destruct (ws_read (fs r) p) as [c|] eqn:Er; [|discriminate Hc].
      destruct (t_no_commit o); [discriminate Hc|]. injection Hc as <- <-.
      intros c0 Hc0. rewrite Er in Hc0. injection Hc0 as <-. cbn. apply digest_of_fits.
  - destruct (track_one_spec o w r p R) as (S1 & S2 & S3 & S4).
    rewrite track_call_eq in Hc. rewrite Hc in S4. destruct S4 as [E1 E2].
    destruct (track_one o w r p) as [r1 oc]. cbn [fst snd] in *.
    destruct (fixed_P43 fx); [|repeat (split; auto)].
    destruct (keep_method_spec r r1 p S1) as (K1 & K2 & K3 & K4 & _).
    split; [auto|split; [eapply same_cfg_trans; eauto|split; [|split; [congruence|auto]]]].
    intros q Hq. rewrite K4 by auto. auto.
Qed.

Lemma eff_force_false fx done a : eff_force fx done a false = false.
Proof. reflexivity. Qed.

Lemma track_one_x_step fx o w r done p : INV r -> mon_track_one_x fx (unclean_x fx) o w (r, done) p = false ->
  let r' := fst (fst (track_one_x fx o w (r, done) p)) in
  INV r' /\ same_cfg r r' /\ snd (track_one_x fx o w (r, done) p) <> Panic /\ (DRO (fs r) -> DRO (fs r')) /\
  R_bytes (fs r) (fs r') /\ (t_force o = false -> R_mono (fs r) (fs r')) /\
  (mon_track_one_x fx alias_swap o w (r, done) p = false -> R_keep (fs r) (fs r')) /\
  (forall q, q <> p -> wget (fs r') q = wget (fs r) q) /\
  (forall q, q <> p -> find_path (recs r') q = find_path (recs r) q).
Proof.
  intros [F R] G. destruct (track_one_x_facts fx o w r done p R) as (S1 & S2 & S3 & S4).
  unfold mon_track_one_x in *. cbn [fst snd] in *. destruct (track_call o w r p) as [[a m]|].
  - destruct S4 as (E1 & E2 & _ & Hfit & Hrd). unfold unclean_x in G. apply orb_false_iff in G. destruct G as [G1 G2].
    pose proof (carry_one_x_spec fx (fs r) p a m _ F G1 Hfit) as S.
    pose proof (carry_one_x_no_panic fx (fs r) p a m _ F G1 Hrd) as NP.
    destruct (cs_rel _ _ _ _ _ _ S) as [M1 M2]. cbv zeta. unfold INV. rewrite E1, E2.
    split; [split; [apply (cs_FI S)|auto]|split; [auto|split; [auto|split; [apply (cs_dro S); auto|
      split; [apply (cs_bytes S)|split; [|split; [|split; [apply (cs_ws S)|auto]]]]]]]].
    + intros Hf. apply M1. rewrite Hf. apply eff_force_false.
    + intros Ha. apply M2; auto.
  - destruct S4 as (E1 & E2 & _). cbv zeta. unfold INV. rewrite E1.
    split; [split; auto|split; [auto|split; [auto|split; [auto|split; [apply R_bytes_refl|
      split; [intros; apply R_mono_refl|split; [intros; apply R_keep_refl|auto]]]]]]].
Qed.

Lemma each_x_cons step st p t :
  fst (each_x step st (p :: t)) = fst (each_x step (fst (step st p)) t) /\
  snd (each_x step st (p :: t)) = worst (snd (step st p)) (snd (each_x step (fst (step st p)) t)).
Proof. cbn. destruct (step st p) as [s1 o1]. cbn. destruct (each_x step s1 t) as [s2 o2]. auto. Qed.

Lemma each_track_x_spec fx o w ps : forall r done, INV r ->
  mon_each_x (track_one_x fx o w) (mon_track_one_x fx (unclean_x fx) o w) (r, done) ps = false ->
  let r' := fst (fst (each_x (track_one_x fx o w) (r, done) ps)) in
  INV r' /\ same_cfg r r' /\ snd (each_x (track_one_x fx o w) (r, done) ps) <> Panic /\ (DRO (fs r) -> DRO (fs r')) /\
  R_bytes (fs r) (fs r') /\ (t_force o = false -> R_mono (fs r) (fs r')) /\
  (mon_each_x (track_one_x fx o w) (mon_track_one_x fx alias_swap o w) (r, done) ps = false -> R_keep (fs r) (fs r')) /\
  (forall q, ~ In q ps -> wget (fs r') q = wget (fs r) q) /\
  (forall q, ~ In q ps -> find_path (recs r') q = find_path (recs r) q).
Proof.
  induction ps as [|p t IH]; intros r done I G.
  - cbn. split; [auto|split; [apply same_cfg_refl|split; [discriminate|split; [auto|split; [apply R_bytes_refl|
      split; [intros; apply R_mono_refl|split; [intros; apply R_keep_refl|auto]]]]]]].
  - cbn [mon_each_x] in G. apply orb_false_iff in G. destruct G as [G1 G2].
    destruct (track_one_x_step fx o w r done p I G1) as (T1 & T2 & T3 & T4 & T5 & T6 & T7 & T8 & T9).
    destruct (each_x_cons (track_one_x fx o w) (r, done) p t) as [E1 E2]. cbv zeta. rewrite E1, E2. cbn [mon_each_x].
    destruct (track_one_x fx o w (r, done) p) as [[r1 d1] o1]. cbn [fst snd] in *.
    destruct (IH r1 d1 T1 G2) as (A1 & A2 & A3 & A4 & A5 & A6 & A7 & A8 & A9).
    split; [auto|split; [eapply same_cfg_trans; eauto|split; [|split; [auto|split; [eapply R_bytes_trans; eauto|
      split; [|split; [|split]]]]]]].
    + destruct o1, (snd (each_x (track_one_x fx o w) (r1, d1) t)); cbn; congruence.
    + intros Hf. eapply R_mono_trans; eauto.
    + intros Ha. apply orb_false_iff in Ha. destruct Ha as [Ha1 Ha2].
      eapply R_keep_trans; [apply T7; exact Ha1|apply A7; exact Ha2].
    + intros q Hq. rewrite A8 by (intros H; apply Hq; now right). apply T8. intros ->. apply Hq. now left.
    + intros q Hq. rewrite A9 by (intros H; apply Hq; now right). apply T9. intros ->. apply Hq. now left.
Qed.

Definition PFR (f : fsys) (cs : list cplan) : Prop :=
  forall c, In c cs -> forall a, cp_addr c = Some a -> fits_read f (r_path (cp_rec c)) a.

Lemma carry_phase_x_spec fx force cs : forall f done,
  FI f -> mon_carry_phase_x fx (unclean_x fx) f cs force done = false ->
  let f' := fst (carry_phase_x fx f cs force done) in
  let oc := snd (carry_phase_x fx f cs force done) in
  FI f' /\ R_bytes f f' /\ (force = false -> R_mono f f') /\
  (mon_carry_phase_x fx alias_swap f cs force done = false -> R_weak f f' /\ (oc <> Panic -> R_keep f f')) /\
  (oc <> Panic -> DRO f -> DRO f') /\
  (forall q, ~ In q (paths_of cs) -> wget f' q = wget f q) /\ (oc = Ok \/ oc = Panic).
Proof.
  induction cs as [|c t IH]; intros f done F G.
  - cbn. split; [auto|split; [apply R_bytes_refl|split; [intros; apply R_mono_refl|split; [|auto]]]].
    intros _. split; [apply R_keep_weak, R_keep_refl|intros; apply R_keep_refl].
  - cbn [carry_phase_x mon_carry_phase_x paths_of map] in *.
    destruct (cp_sel c); [|destruct (IH f done F G) as (A1 & A2 & A3 & A4 & A5 & A6 & A7);
                           split; [auto|split; [auto|split; [auto|split; [auto|split; [auto|split; [|auto]]]]]];
                           intros q Hq; apply A6; intros Hin; apply Hq; now right].
    destruct (cp_addr c) as [a|]; [|destruct (IH f done F G) as (A1 & A2 & A3 & A4 & A5 & A6 & A7);
                           split; [auto|split; [auto|split; [auto|split; [auto|split; [auto|split; [|auto]]]]]];
                           intros q Hq; apply A6; intros Hin; apply Hq; now right].
    apply orb_false_iff in G. destruct G as [G1 G2]. unfold unclean_x in G1. apply orb_false_iff in G1. destruct G1 as [G1 G1'].
    set (fe := eff_force fx done a force) in *.
    pose proof (carry_one_x_spec fx f (r_path (cp_rec c)) a (r_method (cp_rec c)) fe F G1 (misfit_x_false _ _ _ _ G1')) as S.
    destruct (carry_one_x fx f (r_path (cp_rec c)) a (r_method (cp_rec c)) fe) as [f1 o1]. cbn [fst snd] in *.
    destruct (cs_rel _ _ _ _ _ _ S) as [M1 M2].
    assert (Hfe : force = false -> fe = false) by (intros ->; apply eff_force_false).
    destruct o1.
    + destruct (IH f1 (a :: done) (cs_FI S) G2) as (A1 & A2 & A3 & A4 & A5 & A6 & A7).
      destruct (carry_phase_x fx f1 t force (a :: done)) as [f2 o2]. cbn [fst snd] in *.
      split; [auto|split; [eapply R_bytes_trans; [apply (cs_bytes S)|auto]|split; [|split; [|split; [|split; [|auto]]]]]].
      * intros Hf. eapply R_mono_trans; eauto.
      * intros Ha. apply orb_false_iff in Ha. destruct Ha as [Ha1 Ha2].
        destruct (M2 Ha1) as [W K]. destruct (A4 Ha2) as [W2 K2].
        assert (K1 : R_keep f f1) by (apply K; discriminate).
        split; [eapply R_keep_weak_trans; eauto|intros Ho; eapply R_keep_trans; eauto].
      * intros Ho D. apply A5; auto. apply (cs_dro S); auto. discriminate.
      * intros q Hq. rewrite A6 by (intros Hin; apply Hq; now right).
        apply (cs_ws S). intros ->. apply Hq. now left.
    + cbn [fst snd].
      split; [apply (cs_FI S)|split; [apply (cs_bytes S)|split; [auto|split; [|split; [congruence|split; [|auto]]]]]].
      * intros Ha. rewrite orb_false_r in Ha. destruct (M2 Ha) as [W K]. split; [auto|congruence].
      * intros q Hq. apply (cs_ws S). intros ->. apply Hq. now left.
    + cbn [fst snd].
      split; [apply (cs_FI S)|split; [apply (cs_bytes S)|split; [auto|split; [|split; [congruence|split; [|auto]]]]]].
      * intros Ha. rewrite orb_false_r in Ha. destruct (M2 Ha) as [W K]. split; [auto|congruence].
      * intros q Hq. apply (cs_ws S). intros ->. apply Hq. now left.
Qed.

(* ---- one item, all histories -------------------------------------------------------------------------------------- *)
Lemma do_item_x_other fx r it : (forall o ps, it <> XTrack o ps) -> (forall o ps, it <> XCarryIn o ps) ->
  do_item_x fx r it = do_item r it /\ forall bad, mon_item_x fx bad r it = false /\ mon_item bad r it = false.
Proof. intros H1 H2. destruct it; try (split; [reflexivity|intros; split; reflexivity]); exfalso; [eapply H1|eapply H2]; eauto. Qed.

(* the plans whose records carry-in updates *)
Definition recorded (fx : fixes) (cs : list cplan) : list cplan :=
  if fixed_P49 fx then filter (fun c => negb (left_alone c)) cs else cs.
Lemma recorded_sub fx cs c : In c (recorded fx cs) -> In c cs.
Proof. unfold recorded. destruct (fixed_P49 fx); auto. intros H. apply filter_In in H. tauto. Qed.
Lemma paths_of_recorded fx cs q : In q (paths_of (recorded fx cs)) -> In q (paths_of cs).
Proof.
  unfold paths_of. intros H. apply in_map_iff in H. destruct H as (c & <- & Hc).
  apply (in_map (fun c => r_path (cp_rec c))). eapply recorded_sub; eauto.
Qed.

Lemma item_spec_x fx r it : INV r -> mon_item_x fx (unclean_x fx) r it = false ->
  let r' := fst (do_item_x fx r it) in
  INV r' /\ same_cfg r r' /\
  (unforced it = true -> R_mono (fs r) (fs r') /\ R_keep (fs r) (fs r')) /\
  (mon_item_x fx alias_swap r it = false -> R_weak (fs r) (fs r')) /\
  (snd (do_item_x fx r it) <> Panic -> DRO (fs r) -> DRO (fs r')).
Proof.
  intros I G. pose proof I as [F R].
  destruct it as [p c|p c|p|p|o ps|o ps|o ps];
    try (match goal with |- context [do_item_x fx r ?it] => exact (item_spec r it I eq_refl) end).
  - (* track *)
    cbn [do_item_x mon_item_x unforced] in *. fold (walked_of ps). set (w := walked_of ps) in *.
    destruct (each_track_x_spec fx o w ps r [] I G) as (A1 & A2 & A3 & A4 & A5 & A6 & A7 & A8 & A9).
    destruct (each_x (track_one_x fx o w) (r, []) ps) as [[r1 d1] oc]. cbn [fst snd] in *.
    assert (Base : INV r1 /\ same_cfg r r1 /\ (negb (t_force o) = true -> R_mono (fs r) (fs r1) /\ R_keep (fs r) (fs r1)) /\
                   (mon_each_x (track_one_x fx o w) (mon_track_one_x fx alias_swap o w) (r, []) ps = false -> R_keep (fs r) (fs r1)) /\
                   (DRO (fs r) -> DRO (fs r1))).
    { split; [auto|split; [auto|split; [|split; [auto|auto]]]].
      intros Hf. apply negb_true_iff in Hf. split; [auto|apply R_mono_bytes_keep; auto]. }
    clear A1 A2 A4 A5 A6 A7 A8 A9. destruct Base as (A1 & A2 & A5 & A7 & A4).
    assert (Plain : INV r1 /\ same_cfg r r1 /\ (negb (t_force o) = true -> R_mono (fs r) (fs r1) /\ R_keep (fs r) (fs r1)) /\
                    (mon_each_x (track_one_x fx o w) (mon_track_one_x fx alias_swap o w) (r, []) ps = false -> R_weak (fs r) (fs r1)) /\
                    (oc <> Panic -> DRO (fs r) -> DRO (fs r1))).
    { split; [auto|split; [auto|split; [auto|split; [intros; apply R_keep_weak; auto|auto]]]]. }
    destruct (if fixed_P43 fx then t_method o else None) as [m|]; [|exact Plain].
    (* P43 (B): the recheck of the same targets with the method of the command line *)
    set (o' := {| k_method := Some m; k_force := false |}).
    assert (Phase : forall oc0, let res := each (recheck_one o') r1 ps in
              INV (fst res) /\ same_cfg r (fst res) /\
              (negb (t_force o) = true -> R_mono (fs r) (fs (fst res)) /\ R_keep (fs r) (fs (fst res))) /\
              (mon_each_x (track_one_x fx o w) (mon_track_one_x fx alias_swap o w) (r, []) ps = false -> R_weak (fs r) (fs (fst res))) /\
              (worst oc0 (snd res) <> Panic -> DRO (fs r) -> DRO (fs (fst res)))).
    { intros oc0. cbv zeta.
      destruct (item_spec r1 (XRecheck o' ps) A1 eq_refl) as (B1 & B2 & B3 & _ & B5). cbn [do_item] in *.
      destruct (B3 eq_refl) as [B3a B3b].
      split; [auto|split; [eapply same_cfg_trans; eauto|split; [|split]]].
      - intros Hf. destruct (A5 Hf). split; [eapply R_mono_trans; eauto|eapply R_keep_trans; eauto].
      - intros Ha. apply R_keep_weak. eapply R_keep_trans; eauto.
      - intros Hw D. apply B5; auto. intros E. rewrite E in Hw. destruct oc0; cbn in Hw; congruence. }
    destruct oc; [| |exact Plain].
    + specialize (Phase Ok). destruct (each (recheck_one o') r1 ps) as [r2 oc2]. exact Phase.
    + specialize (Phase Err). destruct (each (recheck_one o') r1 ps) as [r2 oc2]. exact Phase.
  - (* carry-in *)
    cbn [do_item_x mon_item_x unforced] in *. unfold carry_in_cmd_x.
    set (cs := plans o r ps) in *.
    destruct (negb (fixed_P49 fx) && existsb left_alone cs); [cbn [fst snd]; split; [auto|split; [apply same_cfg_refl|split;
       [intros; split; [apply R_mono_refl|apply R_keep_refl]|split; [intros; apply R_keep_weak, R_keep_refl|auto]]]]|].
    destruct (carry_phase_x_spec fx (c_force o) cs (fs r) [] F G) as (A1 & A2 & A3 & A4 & A5 & A6 & A7).
    destruct (carry_phase_x fx (fs r) cs (c_force o) []) as [f1 oc]. cbn [fst snd] in *.
    assert (Common : (negb (c_force o) = true -> R_mono (fs r) f1 /\ R_keep (fs r) f1) /\
                     (mon_carry_phase_x fx alias_swap (fs r) cs (c_force o) [] = false -> R_weak (fs r) f1)).
    { split.
      - intros Hf. apply negb_true_iff in Hf. split; [auto|apply R_mono_bytes_keep; auto].
      - intros Ha. apply A4; auto. }
    destruct Common as [C1 C2].
    destruct A7 as [->| ->].
    + destruct (record_phase_spec (recorded fx cs) (set_fs r f1) (RI_set_fs r f1 R)) as (B1 & B2 & B3 & B4).
      { intros c Hin. apply recorded_sub in Hin. pose proof (plans_rec o r ps c Hin) as Hf.
        apply (find_path_spec r _ _ _ R) in Hf. destruct Hf as [Hg Hp]. exists (cp_rec c). auto. }
      cbn [fst snd]. fold (recorded fx cs). unfold INV. rewrite B3. cbn [fs set_fs].
      split; [split; [auto|auto]|split; [eapply same_cfg_trans; [|exact B2]; repeat split|split; [auto|split; [auto|auto]]]].
    + unfold INV. cbn [fst snd fs set_fs].
      split; [split; [auto|now apply RI_set_fs]|split; [repeat split|split; [auto|split; [auto|congruence]]]].
Qed.

Lemma run_items_x_cons fx r it t : run_items_x fx r (it :: t) = run_items_x fx (fst (do_item_x fx r it)) t.
Proof. reflexivity. Qed.

Theorem inv_run_x fx h : forall r, INV r -> mon_run_x fx (unclean_x fx) r h = false -> INV (run_items_x fx r h).
Proof.
  induction h as [|it t IH]; intros r I G; [exact I|].
  cbn [mon_run_x] in G. apply orb_false_iff in G. destruct G as [G1 G2].
  rewrite run_items_x_cons. apply IH; auto. apply (item_spec_x fx r it I G1).
Qed.

Fixpoint panics_x (fx : fixes) (r : repo) (h : list item) : bool :=
  match h with
  | [] => false
  | it :: t => match snd (do_item_x fx r it) with Panic => true | _ => false end || panics_x fx (fst (do_item_x fx r it)) t
  end.

Theorem ro_run_x fx h : forall r, INV r -> DRO (fs r) -> mon_run_x fx (unclean_x fx) r h = false -> panics_x fx r h = false ->
  DRO (fs (run_items_x fx r h)).
Proof.
  induction h as [|it t IH]; intros r I D G P; [exact D|].
  cbn [mon_run_x] in G. apply orb_false_iff in G. destruct G as [G1 G2].
  cbn [panics_x] in P. apply orb_false_iff in P. destruct P as [P1 P2].
  rewrite run_items_x_cons. destruct (item_spec_x fx r it I G1) as (A1 & A2 & A3 & A4 & A5).
  apply IH; auto. apply A5; auto. intros E. rewrite E in P1. discriminate.
Qed.

(* ---- 4. stamps (Repo/Stamps.v) for the commands with switches ------------------------------------------------------ *)
Lemma SP_copied g p a c : SP g (copied g p a c).
Proof.
  unfold copied.
  apply SP_trans with (g := alloc (tick g) {| i_bytes := c; i_w := false; i_mt := clock (tick g) |});
    [|apply SP_ext; [intros; reflexivity|cbn; lia]].
  unfold alloc. apply (SP_iput_fresh g (bump (tick g))); [intros; reflexivity|reflexivity].
Qed.

Lemma SP_mtcx fx f p a : SP f (fst (move_to_cache_x fx f p a)).
Proof.
  unfold move_to_cache_x. destruct (wget f p) as [e|] eqn:Hw; [|apply SP_mtc].
  destruct (fixed_P41 fx && has_other_names f p e); [|apply SP_mtc].
  destruct (read_entry f e) as [c|]; [|apply SP_ext; [intros; reflexivity|cbn; lia]].
  rewrite fresh_ino_eq. cbn [fst]. apply (SP_copied f p a c).
Qed.

Lemma SP_commit_part_x fx f p a force : SP f (fst (commit_part_x fx f p a force)).
Proof.
  unfold commit_part_x. destruct (obj_exists f a); [|apply SP_mtcx].
  destruct (force && _); [|apply SP_refl]. cbv zeta.
  set (f1 := dput f (a_digest a) true).
  assert (S1 : SP f f1) by (apply SP_ext; [intros; reflexivity|cbn; lia]).
  match goal with |- SP f (fst (move_to_cache_x fx ?st p a)) => apply (SP_trans f st); [|apply SP_mtcx] end.
  assert (D : forall h, SP f h -> SP f (odel h a)).
  { intros h Sh. apply SP_trans with (g := h); [auto|apply SP_ext; [intros; reflexivity|cbn; lia]]. }
  apply D.
  destruct (oget f1 a) as [e|]; [|exact S1].
  destruct (resolve f1 link_fuel e) as [i|]; [|exact S1].
  destruct (iget f1 i) as [n|] eqn:Hi; [|exact S1].
  apply SP_trans with (g := f1); [exact S1|]. eapply SP_iput_same; eauto.
Qed.

Lemma SP_carry_one_x fx f p a m force : SP f (fst (carry_one_x fx f p a m force)).
Proof.
  rewrite carry_one_x_eq. pose proof (SP_commit_part_x fx f p a force) as S.
  destruct (commit_part_x fx f p a force) as [f1 o1]. cbn [fst] in S.
  destruct o1; auto. apply SP_trans with (g := f1); [exact S|].
  apply SP_trans with (g := cleared f1 p); [apply SP_cleared|apply SP_rfc].
Qed.

Lemma track_records_only o w r p : RI r ->
  fs (fst (track_one (records_only o) w r p)) = fs r.
Proof.
  intros R. destruct (track_one_spec (records_only o) w r p R) as (_ & _ & _ & S4).
  assert (Hnc : track_one_call (records_only o) w r p = None).
  { unfold track_one_call, records_only. cbn [t_no_commit t_method t_tob].
    destruct (w && _); auto. destruct (ws_meta _ _); auto. destruct (find_path _ _) as [[e x]|].
    - destruct (meta_eqb _ _); auto. destruct (digest_diff _ _ _ _); auto.
    - destruct (ws_read _ _); auto. }
  rewrite Hnc in S4. tauto.
Qed.

Lemma keep_method_stamp r0 r1 p : RI r1 -> SINV r1 -> SINV (keep_method r0 r1 p).
Proof.
  intros R [T M]. unfold keep_method.
  destruct (find_path (recs r0) p) as [[e0 x0]|]; [|split; auto].
  destruct (find_path (recs r1) p) as [[e x1]|] eqn:Ef; [|split; auto].
  destruct (digest_opt_eqb _ _ && _); [|split; auto].
  pose proof (proj1 (find_path_spec r1 p e x1 R) Ef) as [Hg Hp].
  split; [exact T|]. apply RM_rput; auto.
  intros s mt d Hm Hd. apply (M e x1 Hg s mt d); cbn in *; auto.
Qed.

Lemma track_one_x_stamp fx o w r done p : RI r -> SINV r -> SINV (fst (fst (track_one_x fx o w (r, done) p))).
Proof.
  intros R S. unfold track_one_x. destruct (track_call o w r p) as [[a m]|].
  - pose proof (track_one_stamp (records_only o) w r p R S) as S1.
    pose proof (track_records_only o w r p R) as E.
    pose proof (SP_carry_one_x fx (fs r) p a m (eff_force fx done a (t_force o))) as SPc.
    destruct (carry_one_x fx (fs r) p a m (eff_force fx done a (t_force o))) as [f2 oc]. cbn [fst] in *.
    apply SINV_set_fs; auto. now rewrite E.
  - pose proof (track_one_stamp o w r p R S) as S1. destruct (track_one_spec o w r p R) as (R1 & _).
    destruct (track_one o w r p) as [r1 oc]. cbn [fst] in *.
    destruct (fixed_P43 fx); [now apply keep_method_stamp|exact S1].
Qed.

Lemma carry_phase_x_SP fx force cs : forall f done, SP f (fst (carry_phase_x fx f cs force done)).
Proof.
  induction cs as [|c t IH]; intros f done; [apply SP_refl|]. cbn [carry_phase_x].
  destruct (cp_sel c); [|apply IH]. destruct (cp_addr c) as [a|]; [|apply IH].
  pose proof (SP_carry_one_x fx f (r_path (cp_rec c)) a (r_method (cp_rec c)) (eff_force fx done a force)) as S.
  destruct (carry_one_x fx f (r_path (cp_rec c)) a (r_method (cp_rec c)) (eff_force fx done a force)) as [f1 o1]. cbn [fst] in S.
  destruct o1; [|exact S|exact S]. apply SP_trans with (g := f1); auto.
Qed.

Lemma each_x_inv step (P : repo * list caddr -> Prop) : (forall st p, P st -> P (fst (step st p))) ->
  forall ps st, P st -> P (fst (each_x step st ps)).
Proof.
  intros H ps; induction ps as [|p t IH]; intros st HP; [exact HP|].
  destruct (each_x_cons step st p t) as [E _]. rewrite E. auto.
Qed.

Lemma item_stamp_x fx r it : INV r -> SINV r -> mon_item_x fx (unclean_x fx) r it = false -> SINV (fst (do_item_x fx r it)).
Proof.
  intros I S G. pose proof I as [F R].
  destruct it as [p c|p c|p|p|o ps|o ps|o ps];
    try (match goal with |- context [do_item_x fx r ?it] => exact (item_stamp r it I S) end).
  - cbn [do_item_x]. fold (walked_of ps). set (w := walked_of ps).
    pose proof (each_x_inv (track_one_x fx o w) (fun st => RI (fst st) /\ SINV (fst st))) as E.
    destruct (E) with (ps := ps) (st := (r, @nil caddr)) as [_ E2]; [|split; auto|].
    + intros [r0 d0] p0 [R0 S0]. cbn [fst] in *. split; [apply (track_one_x_facts fx o w r0 d0 p0 R0)|now apply track_one_x_stamp].
    + cbn [mon_item_x] in G. fold w in G.
      destruct (each_track_x_spec fx o w ps r [] I G) as (A1 & _).
      destruct (each_x (track_one_x fx o w) (r, []) ps) as [[r1 d1] oc]. cbn [fst snd] in *.
      destruct (if fixed_P43 fx then t_method o else None) as [m|]; [|exact E2].
      pose proof (item_stamp r1 (XRecheck {| k_method := Some m; k_force := false |} ps) A1 E2) as S2. cbn [do_item] in S2.
      destruct oc; [| |exact E2]; destruct (each (recheck_one {| k_method := Some m; k_force := false |}) r1 ps) as [r2 oc2]; exact S2.
  - cbn [do_item_x]. unfold carry_in_cmd_x. destruct (negb (fixed_P49 fx) && existsb left_alone (plans o r ps)); [exact S|].
    pose proof (carry_phase_x_SP fx (c_force o) (plans o r ps) (fs r) []) as SPh.
    destruct (carry_phase_x fx (fs r) (plans o r ps) (c_force o) []) as [f1 oc]. cbn [fst] in SPh.
    destruct oc; cbn [fst]; [|apply SINV_set_fs; auto|apply SINV_set_fs; auto].
    fold (recorded fx (plans o r ps)).
    pose proof (SINV_set_fs r f1 S SPh) as [T1 M1]. split.
    + destruct (record_phase_spec (recorded fx (plans o r ps)) (set_fs r f1) (RI_set_fs r f1 R)) as (_ & _ & B3 & _).
      { intros c Hin. apply recorded_sub in Hin. pose proof (plans_rec o r ps c Hin) as Hf.
        apply (find_path_spec r _ _ _ R) in Hf. destruct Hf as [Hg Hp]. exists (cp_rec c). auto. }
      rewrite B3. exact T1.
    + apply record_phase_RM; auto. intros c Hin. apply recorded_sub in Hin. destruct (plans_plan o r ps c Hin) as [p Hp].
      cbn [fs set_fs]. eapply rm_ok_stamp; [eapply plan_record_ok; eauto|apply SPh].
Qed.

(* ---- 5. a commit stores the content and materialises the entry (Repo/Restore.v carry_one_ok) ----------------------- *)
Lemma ws_read_nodangling f p c : ws_read f p = Some c -> wget f p <> None /\ no_dangling f p.
Proof.
  unfold ws_read, read_entry, no_dangling, ws_exists. destruct (wget f p) as [e|]; [|discriminate].
  destruct (resolve f link_fuel e) as [i|]; [|discriminate]. intros _. split; [discriminate|now right].
Qed.

Lemma carry_one_x_ok fx f p a m force :
  FI f -> relink_x fx f p a force = false -> fits_read f p a -> ws_read f p <> None ->
  snd (carry_one_x fx f p a m force) = Ok /\
  exists i n, oget (fst (carry_one_x fx f p a m force)) a = Some (EFile i) /\
              iget (fst (carry_one_x fx f p a m force)) i = Some n /\
              materialised (fst (carry_one_x fx f p a m force)) p a m (i_bytes n) /\
              (alias_meet f p a force = false -> forall c, ws_read f p = Some c -> i_bytes n = c).
Proof.
  intros F G Hfit Hrd.
  destruct (ws_read f p) as [c0|] eqn:Hr0; [|congruence].
  destruct (ws_read_nodangling f p c0 Hr0) as [Hw Hnd].
  pose proof (commit_part_x_spec fx f p a force F G Hfit) as S.
  rewrite carry_one_x_eq.
  destruct (commit_part_x_cases fx f p a force F G) as [Hoa Hk | g j nj Hwj Hj Hgj Hs P | g c P Hw' Hr' Hl | g P Hrn];
    [| | |congruence].
  - (* kept *)
    destruct (oget f a) as [e|] eqn:Eo; [|congruence].
    destruct (fi_obj F _ _ Eo) as (i & n & -> & Hi & Hwr & Hf).
    destruct (rfc_ok (cleared f p) p a m i n) as [K1 K2];
      [apply FI_cleared, F|now autorewrite with fsdb|now autorewrite with fsdb|rewrite cleared_idem; now apply cleared_none|].
    destruct (rfc_spec (cleared f p) p a m (FI_cleared _ _ F)) as (R1 & R2 & R3 & R4 & R5 & R6).
    split; [auto|]. exists i, n. rewrite R3. autorewrite with fsdb.
    split; [auto|split; [apply R4; now autorewrite with fsdb|split; [auto|]]].
    intros Ha c Hc. unfold alias_meet in Ha.
    assert (Er : obj_read f a = Some (i_bytes n)) by (apply obj_read_spec; eauto).
    rewrite Er, Hr0 in Ha. apply negb_false_iff in Ha. injection Hc as <-. destruct (beqb_spec c0 (i_bytes n)); congruence.
  - (* moved *)
    cbn [fst snd] in S. set (f1 := dput (oput (iput (wdel g p) j (ro nj)) a (EFile j)) (a_digest a) false) in *.
    assert (W1 : wget f1 p = None) by (unfold f1; autorewrite with fsdb;
                                        destruct (pre_state_facts _ _ _ _ F P) as (_ & Wg & _); now rewrite beqb_refl).
    assert (C1 : cleared f1 p = f1) by (unfold cleared, ws_exists; now rewrite W1).
    assert (O1 : oget f1 a = Some (EFile j)) by (unfold f1; autorewrite with fsdb; now rewrite caddr_eqb_refl).
    assert (I1 : iget f1 j = Some (ro nj)) by (unfold f1; autorewrite with fsdb; now rewrite N.eqb_refl).
    rewrite C1.
    destruct (rfc_ok f1 p a m j (ro nj) (cs_FI S) O1 I1) as [K1 K2]; [now rewrite C1|].
    destruct (rfc_spec f1 p a m (cs_FI S)) as (R1 & R2 & R3 & R4 & R5 & R6).
    split; [auto|]. exists j, (ro nj). rewrite R3.
    split; [auto|split; [now apply R4|split; [auto|]]].
    intros _ c Hc. rewrite (ws_read_file f p j nj Hwj Hj) in Hr0. cbn. congruence.
  - (* copied *)
    cbn [fst snd] in S. set (n0 := {| i_bytes := c; i_w := false; i_mt := clock (tick g) |}).
    set (f1 := copied g p a c) in *.
    assert (W1 : wget f1 p = None) by (unfold f1, copied, alloc; autorewrite with fsdb; now rewrite beqb_refl).
    assert (C1 : cleared f1 p = f1) by (unfold cleared, ws_exists; now rewrite W1).
    assert (O1 : oget f1 a = Some (EFile (next_ino g))) by (unfold f1, copied; autorewrite with fsdb; now rewrite caddr_eqb_refl).
    assert (I1 : iget f1 (next_ino g) = Some n0).
    { unfold f1, copied. rewrite iget_dput, iget_oput, iget_wdel. change (next_ino g) with (next_ino (tick g)). apply iget_alloc_new. }
    rewrite C1.
    destruct (rfc_ok f1 p a m (next_ino g) n0 (cs_FI S) O1 I1) as [K1 K2]; [now rewrite C1|].
    destruct (rfc_spec f1 p a m (cs_FI S)) as (R1 & R2 & R3 & R4 & R5 & R6).
    split; [auto|]. exists (next_ino g), n0. rewrite R3.
    split; [auto|split; [now apply R4|split; [auto|]]].
    intros _ c1 Hc1. cbn. congruence.
Qed.

(* ---- 6. the excluded classes --------------------------------------------------------------------------------------- *)
(* [stale_x]: the workspace entry is a symbolic link and what is read through it does not fit the address the
   command planned for it.  It can only happen in a forced carry-in that swapped the linked object for a CR/LF
   alias earlier in the same command (P2); Props/C02.v has the witness *)
Definition stale_x (f : fsys) (p : path) (a : caddr) (force : bool) : bool := is_link_entry f p && misfit_x f p a force.
Definition class_x (fx : fixes) (f : fsys) (p : path) (a : caddr) (force : bool) : bool :=
  relink_x fx f p a force || stale_x f p a force.

Lemma class_x_unclean fx f p a force : fits_pre f p a -> class_x fx f p a force = false -> unclean_x fx f p a force = false.
Proof.
  unfold class_x, unclean_x, stale_x. intros Hfit H. apply orb_false_iff in H. destruct H as [H1 H2]. rewrite H1. cbn [orb].
  unfold is_link_entry in H2. unfold misfit_x in *. destruct (wget f p) as [[j|b]|] eqn:Ew.
  - destruct (ws_read f p) as [c|] eqn:Er; auto. apply negb_false_iff, fits_b_spec.
    unfold ws_read in Er. rewrite Ew, read_file in Er. destruct (iget f j) as [n|] eqn:Hi; [|discriminate].
    injection Er as <-. eapply Hfit; eauto.
  - exact H2.
  - unfold ws_read. now rewrite Ew.
Qed.

Lemma each_track_x_nomisfit fx o w ps : forall r done, RI r ->
  mon_each_x (track_one_x fx o w) (mon_track_one_x fx (class_x fx) o w) (r, done) ps = false ->
  mon_each_x (track_one_x fx o w) (mon_track_one_x fx (unclean_x fx) o w) (r, done) ps = false.
Proof.
  induction ps as [|p t IH]; intros r done R G; [reflexivity|]. cbn [mon_each_x] in *.
  apply orb_false_iff in G. destruct G as [G1 G2].
  destruct (track_one_x_facts fx o w r done p R) as (S1 & S2 & S3 & S4).
  destruct (track_one_x fx o w (r, done) p) as [[r1 d1] o1] eqn:Et. cbn [fst snd] in *.
  rewrite IH by auto. rewrite orb_false_r.
  unfold mon_track_one_x in *. cbn [fst snd] in *. destruct (track_call o w r p) as [[a m]|]; auto.
  destruct S4 as (_ & _ & _ & Hfit & _). apply class_x_unclean; auto. now apply fits_read_pre.
Qed.

Lemma carry_one_x_entry_fits fx f p a m force : FI f -> relink_x fx f p a force = false -> fits_read f p a ->
  snd (carry_one_x fx f p a m force) = Ok -> fits_pre (fst (carry_one_x fx f p a m force)) p a.
Proof.
  intros F G Hfit. pose proof (commit_part_x_spec fx f p a force F G Hfit) as S. rewrite carry_one_x_eq.
  destruct (commit_part_x fx f p a force) as [f1 o1]. cbn [fst snd] in S.
  destruct o1; [|discriminate|discriminate]. apply rfc_entry_fits. apply FI_cleared, (cs_FI S).
Qed.

Lemma carry_phase_x_nomisfit fx force cs : forall f done, FI f -> PF f cs -> plan_det cs ->
  mon_carry_phase_x fx (class_x fx) f cs force done = false -> mon_carry_phase_x fx (unclean_x fx) f cs force done = false.
Proof.
  induction cs as [|c t IH]; intros f done F P D G; [reflexivity|]. cbn [mon_carry_phase_x] in *.
  assert (Pt : PF f t) by (intros c' Hin; apply P; now right).
  assert (Dt : plan_det t) by (intros c1 c2 H1 H2; apply D; now right).
  destruct (cp_sel c); [|apply IH; auto]. destruct (cp_addr c) as [a|] eqn:Ea; [|apply IH; auto].
  apply orb_false_iff in G. destruct G as [G1 G2].
  assert (Hfit : fits_pre f (r_path (cp_rec c)) a) by (apply (P c (or_introl eq_refl)); auto).
  set (fe := eff_force fx done a force) in *.
  pose proof (class_x_unclean fx _ _ _ fe Hfit G1) as U. rewrite U. cbn [orb].
  unfold unclean_x in U. apply orb_false_iff in U. destruct U as [U1 U2].
  pose proof (misfit_x_false _ _ _ _ U2) as Hfr.
  pose proof (carry_one_x_spec fx f (r_path (cp_rec c)) a (r_method (cp_rec c)) fe F U1 Hfr) as S.
  pose proof (carry_one_x_entry_fits fx f (r_path (cp_rec c)) a (r_method (cp_rec c)) fe F U1 Hfr) as E.
  destruct (carry_one_x fx f (r_path (cp_rec c)) a (r_method (cp_rec c)) fe) as [f1 o1]. cbn [fst snd] in *.
  destruct o1; auto. apply IH; auto; [apply (cs_FI S)|].
  intros c' Hin a' Ha' j n Hw Hi.
  destruct (beqb_spec (r_path (cp_rec c')) (r_path (cp_rec c))) as [Ep|Hne].
  - assert (a' = a).
    { pose proof (D c' c (or_intror Hin) (or_introl eq_refl) Ep) as Hd. rewrite Ha', Ea in Hd. congruence. }
    subst a'. rewrite Ep in Hw. eapply E; eauto.
  - rewrite (cs_ws S) in Hw by auto.
    destruct (iget f j) as [n0|] eqn:Hj.
    + destruct (cs_bytes S _ _ Hj) as (n1 & H1 & E1). rewrite Hi in H1. injection H1 as <-. rewrite E1.
      eapply (Pt c' Hin a' Ha'); eauto.
    + exfalso. eapply (fi_ws F); eauto.
Qed.

Lemma item_nomisfit_x fx r it : INV r -> SINV r -> mon_item_x fx (class_x fx) r it = false -> mon_item_x fx (unclean_x fx) r it = false.
Proof.
  intros [F R] S G. destruct it as [p c|p c|p|p|o ps|o ps|o ps]; cbn [mon_item_x] in *; auto.
  - apply each_track_x_nomisfit; auto.
  - destruct (negb (fixed_P49 fx) && existsb left_alone (plans o r ps)); auto.
    apply carry_phase_x_nomisfit; auto using plans_det.
    intros c Hin a Ha. destruct (plans_plan o r ps c Hin) as [p Hp].
    destruct (carry_plan_rec o r p c Hp) as [_ E]. rewrite E. eapply plan_fits; eauto.
Qed.

Theorem run_nomisfit_x fx h : forall r, INV r -> SINV r -> mon_run_x fx (class_x fx) r h = false ->
  mon_run_x fx (unclean_x fx) r h = false /\ SINV (run_items_x fx r h).
Proof.
  induction h as [|it t IH]; intros r I S G; [split; [reflexivity|exact S]|].
  cbn [mon_run_x] in *. apply orb_false_iff in G. destruct G as [G1 G2].
  pose proof (item_nomisfit_x fx r it I S G1) as U. rewrite U. cbn [orb]. rewrite run_items_x_cons.
  apply IH; auto; [apply (item_spec_x fx r it I U)|now apply item_stamp_x].
Qed.

(* a repository reached by ANY history outside the classes: [relink] while P41 is not repaired, and a symbolic link
   that went stale inside a forced carry-in (a corner of P2) *)
Definition reachable_x (fx : fixes) (r : repo) : Prop :=
  exists a m t h, mon_run_x fx (class_x fx) (init_repo a m t) h = false /\ r = run_items_x fx (init_repo a m t) h.

Lemma reachable_x_INV fx r : reachable_x fx r -> INV r /\ SINV r.
Proof.
  intros (a & m & t & h & G & ->).
  destruct (run_nomisfit_x fx h _ (INV_init a m t) (SINV_init a m t) G) as [U S].
  split; [apply inv_run_x; auto using INV_init|exact S].
Qed.

Lemma mon_run_x_app fx bad h1 h2 : forall r,
  mon_run_x fx bad r (h1 ++ h2) = mon_run_x fx bad r h1 || mon_run_x fx bad (run_items_x fx r h1) h2.
Proof.
  induction h1 as [|it t IH]; intros r; [reflexivity|]. cbn [app mon_run_x]. rewrite IH, run_items_x_cons. now rewrite orb_assoc.
Qed.

Lemma reachable_x_steps fx r h : reachable_x fx r -> mon_run_x fx (class_x fx) r h = false -> reachable_x fx (run_items_x fx r h).
Proof.
  intros (a & m & t & h0 & G & ->) Gh. exists a, m, t, (h0 ++ h). split.
  - rewrite mon_run_x_app, G, Gh. reflexivity.
  - unfold run_items_x. now rewrite fold_left_app.
Qed.

Lemma reachable_x_run fx a m t h : mon_run_x fx (class_x fx) (init_repo a m t) h = false -> reachable_x fx (run_items_x fx (init_repo a m t) h).
Proof. intros G. exists a, m, t, h. auto. Qed.

Lemma item_clean_x fx r it : reachable_x fx r -> mon_item_x fx (class_x fx) r it = false -> mon_item_x fx (unclean_x fx) r it = false.
Proof. intros Hr. destruct (reachable_x_INV fx r Hr). now apply item_nomisfit_x. Qed.

(* ---- 7. what one closure leaves alone: inodes that are neither cache objects nor the target's own -------------------- *)
Record CarryFrame (f : fsys) (q : path) (b : caddr) (f' : fsys) (oc : outcome) : Prop := {
  cf_ino : forall k n, iget f k = Some n -> (forall b', oget f b' <> Some (EFile k)) -> wget f q <> Some (EFile k) ->
           iget f' k = Some n;
  cf_obj : forall k, oget f' b = Some (EFile k) -> oget f b = Some (EFile k) \/ wget f q = Some (EFile k) \/ iget f k = None;
  cf_ent : forall k, wget f' q = Some (EFile k) ->
           (oget f' b = Some (EFile k) \/ iget f k = None) \/ (oc <> Ok /\ wget f q = Some (EFile k))
}.

Lemma fresh_none f : FI f -> iget f (next_ino f) = None.
Proof. intros F. destruct (iget f (next_ino f)) as [n|] eqn:E; auto. apply (fi_bound F) in E. lia. Qed.

Lemma ccase_frame f p a force res : FI f -> ccase f p a force res ->
  (forall k n, iget f k = Some n -> (forall b', oget f b' <> Some (EFile k)) -> wget f p <> Some (EFile k) -> iget (fst res) k = Some n) /\
  (forall k, oget (fst res) a = Some (EFile k) -> oget f a = Some (EFile k) \/ wget f p = Some (EFile k) \/ iget f k = None) /\
  (forall q, wget (fst res) q = if beqb p q then (match snd res with Ok => match res with (f1, _) => wget f1 p end | _ => wget f p end) else wget f q) /\
  (forall k n, iget f k = Some n -> exists n', iget (fst res) k = Some n') /\
  (next_ino f <= next_ino (fst res))%N.
Proof.
  intros F [Hoa Hk | g j n Hw Hj Hgj Hs P | g c P Hw Hr Hl | g P Hrn]; cbn [fst snd].
  - split; [auto|split; [auto|split; [|split; [eauto|lia]]]]. intros q. destruct (beqb_spec p q) as [<-|]; auto.
  - destruct (pre_state_facts _ _ _ _ F P) as (Fg & Wg & Og & Bg & Ig & Dg & Ng).
    split; [|split; [|split; [|split]]].
    + intros k nk Hk Hno Hq. fsrw. destruct (N.eqb_spec j k) as [<-|]; [congruence|].
      rewrite Ig; auto. intros [b' Hb']. eapply Hno; eauto.
    + intros k. fsrw. rewrite caddr_eqb_refl. intros [= <-]. auto.
    + intros q. fsrw. rewrite Wg. destruct (beqb_spec p q) as [<-|]; [now rewrite beqb_refl|reflexivity].
    + intros k nk Hk. destruct (Bg _ _ Hk) as (n1 & H1 & _). fsrw. destruct (N.eqb_spec j k); eauto.
    + fsrw. lia.
  - destruct (pre_state_facts _ _ _ _ F P) as (Fg & Wg & Og & Bg & Ig & Dg & Ng).
    unfold copied, alloc. split; [|split; [|split; [|split]]].
    + intros k nk Hk Hno Hq. fsrw. destruct (N.eqb_spec (next_ino g) k) as [E|].
      * apply (fi_bound F) in Hk. lia.
      * rewrite Ig; auto. intros [b' Hb']. eapply Hno; eauto.
    + intros k. fsrw. rewrite caddr_eqb_refl. intros [= <-]. right. right. rewrite Ng. now apply fresh_none.
    + intros q. fsrw. rewrite Wg. destruct (beqb_spec p q) as [<-|]; [now rewrite beqb_refl|reflexivity].
    + intros k nk Hk. destruct (Bg _ _ Hk) as (n1 & H1 & _). fsrw. destruct (N.eqb_spec (next_ino g) k); eauto.
    + fsrw. lia.
  - destruct (pre_state_facts _ _ _ _ F P) as (Fg & Wg & Og & Bg & Ig & Dg & Ng).
    split; [|split; [|split; [|split]]].
    + intros k nk Hk Hno Hq. fsrw. rewrite Ig; auto. intros [b' Hb']. eapply Hno; eauto.
    + intros k. fsrw. rewrite Og, caddr_eqb_refl. discriminate.
    + intros q. fsrw. rewrite Wg. destruct (beqb_spec p q) as [<-|]; reflexivity.
    + intros k nk Hk. destruct (Bg _ _ Hk) as (n1 & H1 & _). fsrw. eauto.
    + fsrw. lia.
Qed.

Lemma cleared_no_file f p k : wget (cleared f p) p <> Some (EFile k).
Proof.
  unfold cleared, ws_exists. destruct (wget f p) as [[j|b]|] eqn:Ew.
  - rewrite resolve_file. rewrite wget_wdel, beqb_refl. discriminate.
  - destruct (resolve f link_fuel (ELink b)); [rewrite wget_wdel, beqb_refl|rewrite Ew]; discriminate.
  - rewrite Ew. discriminate.
Qed.

Lemma rfc_new_entry f p a m k : wget (fst (recheck_from_cache f p a m)) p = Some (EFile k) ->
  oget f a = Some (EFile k) \/ k = next_ino f.
Proof.
  rewrite rfc_unfold. cbv zeta. pose proof (cleared_no_file f p k) as H0.
  destruct m.
  - destruct (obj_read (cleared f p) a); [|cbn [fst]; congruence].
    destruct (wget (cleared f p) p) as [[i|l]|] eqn:Ew; cbn [fst]; try congruence;
      rewrite wget_wput, beqb_refl; intros [= <-]; right; now rewrite ni_cleared.
  - destruct (wget (cleared f p) p) eqn:Ew; [cbn [fst]; congruence|].
    destruct (oget (cleared f p) a) as [[i|l]|] eqn:Eo; cbn [fst]; try congruence.
    + rewrite wget_wput, beqb_refl. intros [= <-]. left. now rewrite oget_cleared in Eo.
    + rewrite wget_wput, beqb_refl. discriminate.
  - destruct (wget (cleared f p) p) eqn:Ew; cbn [fst]; [congruence|]. rewrite wget_wput, beqb_refl. discriminate.
  - destruct (obj_read (cleared f p) a); [|cbn [fst]; congruence].
    destruct (wget (cleared f p) p) as [[i|l]|] eqn:Ew; cbn [fst]; try congruence;
      rewrite wget_wput, beqb_refl; intros [= <-]; right; now rewrite ni_cleared.
Qed.

Lemma carry_one_x_frame fx f p a m force : FI f -> relink_x fx f p a force = false -> fits_read f p a ->
  CarryFrame f p a (fst (carry_one_x fx f p a m force)) (snd (carry_one_x fx f p a m force)).
Proof.
  intros F G Hfr. pose proof (commit_part_x_cases fx f p a force F G) as C.
  pose proof (commit_part_x_spec fx f p a force F G Hfr) as S.
  destruct (ccase_frame f p a force _ F C) as (C1 & C2 & C3 & C4 & C5).
  rewrite carry_one_x_eq. destruct (commit_part_x fx f p a force) as [f1 o1]. cbn [fst snd] in *.
  destruct o1.
  - (* committed: recheck *)
    assert (F1 : FI f1) by apply (cs_FI S).
    destruct (rfc_spec (cleared f1 p) p a m (FI_cleared _ _ F1)) as (R1 & R2 & R3 & R4 & R5 & R6).
    split.
    + intros k n Hk Hno Hq. apply R4. rewrite iget_cleared. eapply C1; eauto.
    + intros k. rewrite R3, oget_cleared. apply C2.
    + intros k Hk. left. apply rfc_new_entry in Hk. destruct Hk as [Hk| ->].
      * left. rewrite R3. exact Hk.
      * right. rewrite ni_cleared. destruct (iget f (next_ino f1)) as [n|] eqn:E; auto. apply (fi_bound F) in E. lia.
  - cbn [fst snd] in *. split; [auto|auto|]. intros k Hk. right. split; [discriminate|].
    specialize (C3 p). rewrite beqb_refl in C3. congruence.
  - cbn [fst snd] in *. split; [auto|auto|]. intros k Hk. right. split; [discriminate|].
    specialize (C3 p). rewrite beqb_refl in C3. congruence.
Qed.

(* ---- 8. P44 / P42: every target one track command commits ends materialised ------------------------------------------- *)
(* if the inode of p's entry is not a cache object, no other workspace path has it *)
Definition private_ino (f : fsys) (p : path) : Prop :=
  forall i, wget f p = Some (EFile i) -> (forall b, oget f b <> Some (EFile i)) -> forall q, q <> p -> wget f q <> Some (EFile i).
Definition Mat (f : fsys) (p : path) (a : caddr) (m : method) (c : bytes) : Prop :=
  materialised f p a m c /\ obj_read f a = Some c /\ private_ino f p.

(* a closure on ANOTHER path keeps it, provided it does not force-replace the object p is materialised from *)
Lemma carry_keeps_mat fx f q b mq fq p a m c : FI f -> q <> p -> relink_x fx f q b fq = false -> fits_read f q b ->
  (b = a -> fq = false) -> Mat f p a m c -> Mat (fst (carry_one_x fx f q b mq fq)) p a m c.
Proof.
  intros F Hqp G Hfr Hsame ([Hr M] & Ho & Pv).
  pose proof (carry_one_x_spec fx f q b mq fq F G Hfr) as S.
  pose proof (carry_one_x_frame fx f q b mq fq F G Hfr) as Fr.
  set (f' := fst (carry_one_x fx f q b mq fq)) in *. set (oc := snd (carry_one_x fx f q b mq fq)) in *.
  pose proof (cs_FI S) as F'.
  assert (Wp : wget f' p = wget f p) by (apply (cs_ws S); congruence).
  apply (obj_read_spec _ _ _ F) in Ho. destruct Ho as (i0 & n0 & Ho & Hi0 & Hc0).
  assert (Ho' : oget f' a = Some (EFile i0)).
  { destruct (caddr_eqb_spec b a) as [E|Hne].
    - subst b. apply (cs_mono S); auto.
    - rewrite (cs_objs S) by congruence. exact Ho. }
  destruct (cs_bytes S _ _ Hi0) as (n0' & Hi0' & Eb0).
  assert (Or : obj_read f' a = Some c) by (apply obj_read_spec; [exact F'|exists i0, n0'; split; [auto|split; [auto|congruence]]]).
  split; [|split; [exact Or|]].
  - (* materialised *)
    destruct m.
    + destruct M as (ip & np & Hw & Hip & Hwr & Hno).
      assert (Hq : wget f q <> Some (EFile ip)) by (apply (Pv ip Hw Hno); congruence).
      assert (Hip' : iget f' ip = Some np) by (apply (cf_ino _ _ _ _ _ Fr); auto).
      split.
      * unfold ws_read. rewrite Wp, Hw, read_file, Hip'. rewrite (ws_read_file f p ip np Hw Hip) in Hr. exact Hr.
      * exists ip, np. rewrite Wp. split; [auto|split; [auto|split; [auto|]]].
        intros b' Hb'. destruct (caddr_eqb_spec b' b) as [->|Hne].
        -- apply (cf_obj _ _ _ _ _ Fr) in Hb'. destruct Hb' as [H|[H|H]]; [eapply Hno; eauto|congruence|congruence].
        -- rewrite (cs_objs S) in Hb' by auto. eapply Hno; eauto.
    + destruct M as (i & n & Hw & Hoa & Hi & Hwr). rewrite Ho in Hoa. injection Hoa as <-.
      destruct (fi_obj F' _ _ Ho') as (i1 & n1 & E1 & Hi1 & Hw1 & _). injection E1 as <-.
      split.
      * unfold ws_read. rewrite Wp, Hw, read_file, Hi1. rewrite Hi0' in Hi1. injection Hi1 as <-. congruence.
      * exists i0, n1. rewrite Wp. auto.
    + split; [|now rewrite Wp].
      unfold ws_read. rewrite Wp, M. unfold read_entry. rewrite (resolve_link_file f' a i0 Ho'), Hi0'. congruence.
    + destruct M as (ip & np & Hw & Hip & Hwr & Hno).
      assert (Hq : wget f q <> Some (EFile ip)) by (apply (Pv ip Hw Hno); congruence).
      assert (Hip' : iget f' ip = Some np) by (apply (cf_ino _ _ _ _ _ Fr); auto).
      split.
      * unfold ws_read. rewrite Wp, Hw, read_file, Hip'. rewrite (ws_read_file f p ip np Hw Hip) in Hr. exact Hr.
      * exists ip, np. rewrite Wp. split; [auto|split; [auto|split; [auto|]]].
        intros b' Hb'. destruct (caddr_eqb_spec b' b) as [->|Hne].
        -- apply (cf_obj _ _ _ _ _ Fr) in Hb'. destruct Hb' as [H|[H|H]]; [eapply Hno; eauto|congruence|congruence].
        -- rewrite (cs_objs S) in Hb' by auto. eapply Hno; eauto.
  - (* private_ino *)
    intros i Hw' Hno' q' Hq'. rewrite Wp in Hw'.
    assert (Hno : forall b', oget f b' <> Some (EFile i)).
    { intros b' Hb'. destruct (caddr_eqb_spec b' b) as [->|Hne].
      - (* the object at b before: still there unless replaced; an inode that stops being an object ... *)
        destruct (caddr_eqb_spec b a) as [E|Hne'].
        + subst b. rewrite Ho in Hb'. injection Hb' as <-. eapply Hno'; eauto.
        + (* p's entry shares the inode of the object at b <> a: p is a regular file with an object inode: FI *)
          destruct (fi_obj F _ _ Hb') as (i1 & n1 & E1 & Hi1 & Hw1 & _). injection E1 as <-.
          destruct m.
          * destruct M as (ip & np & Hw & Hip & Hwr & Hn). rewrite Hw in Hw'. injection Hw' as <-. eapply Hn; eauto.
          * destruct M as (i2 & n2 & Hw & Hoa & Hi & Hwr). rewrite Hw in Hw'. injection Hw' as <-.
            rewrite Ho in Hoa. injection Hoa as <-. eapply Hno'; eauto.
          * rewrite M in Hw'. discriminate.
          * destruct M as (ip & np & Hw & Hip & Hwr & Hn). rewrite Hw in Hw'. injection Hw' as <-. eapply Hn; eauto.
      - apply (Hno' b'). rewrite (cs_objs S) by auto. exact Hb'. }
    destruct (beqb_spec q' q) as [->|Hne].
    + intros Hwq. apply (cf_ent _ _ _ _ _ Fr) in Hwq. destruct Hwq as [[H|H]|[_ H]].
      * eapply Hno'; eauto.
      * destruct (iget f i) eqn:E; [discriminate|]. eapply (fi_ws F); eauto.
      * eapply (Pv i Hw' Hno q); eauto.
    + rewrite (cs_ws S) by auto. apply (Pv i Hw' Hno). exact Hq'.
Qed.

(* the closure on p itself *)
Lemma carry_own_mat fx f p a m force : FI f -> relink_x fx f p a force = false -> fits_read f p a -> ws_read f p <> None ->
  snd (carry_one_x fx f p a m force) = Ok /\
  exists c, Mat (fst (carry_one_x fx f p a m force)) p a m c /\
            (alias_meet f p a force = false -> ws_read f p = Some c).
Proof.
  intros F G Hfr Hrd.
  destruct (carry_one_x_ok fx f p a m force F G Hfr Hrd) as (K1 & i & n & K2 & K3 & K4 & K5).
  pose proof (carry_one_x_spec fx f p a m force F G Hfr) as S.
  pose proof (carry_one_x_frame fx f p a m force F G Hfr) as Fr.
  split; [exact K1|]. exists (i_bytes n). split; [split; [exact K4|split]|].
  - apply obj_read_spec; [apply (cs_FI S)|eauto].
  - intros k Hw Hno q Hq Hwq. apply (cf_ent _ _ _ _ _ Fr) in Hw. destruct Hw as [[H|H]|[H _]].
    + eapply Hno; eauto.
    + rewrite (cs_ws S) in Hwq by auto. destruct (iget f k) eqn:E; [discriminate|]. eapply (fi_ws F); eauto.
    + congruence.
  - intros Ha. destruct (ws_read f p) as [c|] eqn:Hr; [|congruence]. now rewrite (K5 Ha c eq_refl).
Qed.

Lemma amem_cons a b d : amem a (b :: d) = caddr_eqb a b || amem a d.
Proof. reflexivity. Qed.

Lemma eff_force_done fx d a force : fixed_P44 fx = true -> amem a d = true -> eff_force fx d a force = false.
Proof. intros H1 H2. unfold eff_force. rewrite H1, H2. now destruct force. Qed.

Lemma class_x_relink fx f p a force : class_x fx f p a force = false -> relink_x fx f p a force = false.
Proof. unfold class_x. intros H. apply orb_false_iff in H. tauto. Qed.

(* the carry_in calls one track command makes: (target, address, method), in visiting order *)
Fixpoint calls_x (fx : fixes) (o : track_opts) (w : bool) (st : repo * list caddr) (ps : list path) : list (path * caddr * method) :=
  match ps with
  | [] => []
  | p :: t => match track_call o w (fst st) p with Some (a, m) => [(p, a, m)] | None => [] end
              ++ calls_x fx o w (fst (track_one_x fx o w st p)) t
  end.
Definition call_addr (x : path * caddr * method) : caddr := snd (fst x).
(* two calls of the command have the same cache address *)
Fixpoint dup_addr (l : list (path * caddr * method)) : bool :=
  match l with
  | [] => false
  | x :: t => existsb (fun y => caddr_eqb (call_addr x) (call_addr y)) t || dup_addr t
  end.

(* the later targets of the command never force-replace the object at a: the repair is in and a was handled, or
   the command has no --force, or no later target has the address *)
Definition safe_for (fx : fixes) (o : track_opts) (w : bool) (a : caddr) (st : repo * list caddr) (t : list path) : Prop :=
  (fixed_P44 fx = true /\ amem a (snd st) = true) \/ t_force o = false \/
  (forall x, In x (calls_x fx o w st t) -> call_addr x <> a).

Lemma each_keeps_mat fx o w p a m c t : forall r d, INV r -> ~ In p t -> safe_for fx o w a (r, d) t ->
  mon_each_x (track_one_x fx o w) (mon_track_one_x fx (class_x fx) o w) (r, d) t = false ->
  Mat (fs r) p a m c -> Mat (fs (fst (fst (each_x (track_one_x fx o w) (r, d) t)))) p a m c.
Proof.
  induction t as [|q t IH]; intros r d I Hnin Hs G HM; [exact HM|].
  cbn [mon_each_x] in G. apply orb_false_iff in G. destruct G as [G1 G2].
  pose proof I as [F R].
  destruct (track_one_x_facts fx o w r d q R) as (S1 & S2 & S3 & S4).
  assert (U : mon_track_one_x fx (unclean_x fx) o w (r, d) q = false).
  { unfold mon_track_one_x in *. cbn [fst snd] in *. destruct (track_call o w r q) as [[b mq]|]; auto.
    destruct S4 as (_ & _ & _ & Hfit & _). apply class_x_unclean; auto. now apply fits_read_pre. }
  destruct (track_one_x_step fx o w r d q I U) as (T1 & _).
  destruct (each_x_cons (track_one_x fx o w) (r, d) q t) as [E1 _]. rewrite E1.
  unfold mon_track_one_x in G1. cbn [fst snd] in G1.
  unfold safe_for in Hs. cbn [calls_x fst snd] in Hs.
  destruct (track_one_x fx o w (r, d) q) as [[r1 d1] o1]. cbn [fst snd] in *.
  assert (Hqp : q <> p) by (intros ->; apply Hnin; now left).
  apply IH; auto.
  - intros H; apply Hnin; now right.
  - unfold safe_for. cbn [snd]. destruct Hs as [[H44 Hd]|[Hf|Hn]]; [left|right; left; exact Hf|right; right].
    + split; [exact H44|]. destruct (track_call o w r q) as [[b mq]|]; [|destruct S4 as (_ & _ & ->); auto].
      destruct S4 as (_ & _ & -> & _). rewrite amem_cons, Hd. apply orb_true_r.
    + intros x Hx. apply Hn. apply in_or_app. now right.
  - destruct (track_call o w r q) as [[b mq]|].
    + destruct S4 as (E & _ & _ & Hfit & _). rewrite E.
      apply carry_keeps_mat; auto; [now apply class_x_relink|].
      intros ->. destruct Hs as [[H44 Hd]|[Hf|Hn]].
      * now apply eff_force_done.
      * rewrite Hf. apply eff_force_false.
      * exfalso. apply (Hn (q, a, mq)); [now left|reflexivity].
    + destruct S4 as (E & _). now rewrite E.
Qed.

Lemma dup_addr_cons x t : dup_addr (x :: t) = false -> (forall y, In y t -> call_addr y <> call_addr x) /\ dup_addr t = false.
Proof.
  cbn [dup_addr]. intros H. apply orb_false_iff in H. destruct H as [H1 H2]. split; auto.
  intros y Hy E. assert (existsb (fun y => caddr_eqb (call_addr x) (call_addr y)) t = true); [|congruence].
  apply existsb_exists. exists y. split; auto. rewrite E. apply caddr_eqb_refl.
Qed.

(* every target the command commits ends materialised with the method in force -- from the address the command
   committed it to, reading what that object reads -- unless the command is forced, two of its targets have the
   same address and the repair of P44 / P42 is not in (the class forced-duplicate) *)
Theorem track_calls_materialised fx o w ps : forall r d, INV r -> NoDup ps ->
  mon_each_x (track_one_x fx o w) (mon_track_one_x fx (class_x fx) o w) (r, d) ps = false ->
  (fixed_P44 fx = true \/ t_force o = false \/ dup_addr (calls_x fx o w (r, d) ps) = false) ->
  snd (each_x (track_one_x fx o w) (r, d) ps) <> Panic /\
  forall p a m, In (p, a, m) (calls_x fx o w (r, d) ps) ->
    In p ps /\ m = track_method o r /\
    exists c, Mat (fs (fst (fst (each_x (track_one_x fx o w) (r, d) ps)))) p a m c.
Proof.
  induction ps as [|p0 t IH]; intros r d I ND G Hs; [split; [discriminate|intros p a m []]|].
  cbn [mon_each_x] in G. apply orb_false_iff in G. destruct G as [G1 G2].
  inversion ND as [|? ? Hnin ND']; subst.
  pose proof I as [F R].
  destruct (track_one_x_facts fx o w r d p0 R) as (S1 & S2 & S3 & S4).
  assert (U : mon_track_one_x fx (unclean_x fx) o w (r, d) p0 = false).
  { unfold mon_track_one_x in *. cbn [fst snd] in *. destruct (track_call o w r p0) as [[b mq]|]; auto.
    destruct S4 as (_ & _ & _ & Hfit & _). apply class_x_unclean; auto. now apply fits_read_pre. }
  destruct (track_one_x_step fx o w r d p0 I U) as (T1 & T2 & T3 & _).
  destruct (each_x_cons (track_one_x fx o w) (r, d) p0 t) as [E1 E2]. rewrite E1, E2.
  cbn [calls_x fst] in *. unfold mon_track_one_x in G1. cbn [fst snd] in G1.
  destruct (track_one_x fx o w (r, d) p0) as [[r1 d1] o1] eqn:Et. cbn [fst snd] in *.
  assert (Hs1 : fixed_P44 fx = true \/ t_force o = false \/ dup_addr (calls_x fx o w (r1, d1) t) = false).
  { destruct Hs as [H|[H|H]]; auto. right. right.
    destruct (track_call o w r p0) as [[a0 m0]|]; [|exact H]. cbn [app] in H. now apply dup_addr_cons in H. }
  destruct (IH r1 d1 T1 ND' G2 Hs1) as [NP IH'].
  split; [destruct o1, (snd (each_x (track_one_x fx o w) (r1, d1) t)); cbn; congruence|].
  assert (Hm1 : track_method o r1 = track_method o r).
  { unfold track_method. destruct S2 as (_ & -> & _). reflexivity. }
  intros p a m Hin. apply in_app_or in Hin. destruct Hin as [Hin|Hin].
  - destruct (track_call o w r p0) as [[a0 m0]|] eqn:Hc; [|destruct Hin].
    destruct Hin as [[= <- <- <-]|[]]. destruct S4 as (E & Eo & Ed & Hfit & Hrd).
    split; [now left|split].
    + rewrite track_call_eq in Hc. destruct (track_one_record o w r p0 a0 m0 R Hc) as (_ & _ & _ & _ & _ & _ & _ & _ & _ & Hm & _). exact Hm.
    + destruct (carry_own_mat fx (fs r) p0 a0 m0 (eff_force fx d a0 (t_force o)) F (class_x_relink _ _ _ _ _ G1) Hfit Hrd) as (Kok & c & KM & _).
      exists c. apply each_keeps_mat; auto.
      * unfold safe_for. cbn [snd]. destruct Hs as [H|[H|H]]; [left|right; left; exact H|right; right].
        -- split; [exact H|]. subst d1. rewrite amem_cons, caddr_eqb_refl. reflexivity.
        -- cbn [app] in H. apply dup_addr_cons in H. destruct H as [H _]. intros x Hx. now apply H.
      * now rewrite E.
  - destruct (IH' p a m Hin) as (K1 & K2 & K3). split; [now right|split; [congruence|exact K3]].
Qed.

Lemma track_calls_recorded fx o w ps : forall r d, INV r -> NoDup ps ->
  mon_each_x (track_one_x fx o w) (mon_track_one_x fx (class_x fx) o w) (r, d) ps = false ->
  forall p a m, In (p, a, m) (calls_x fx o w (r, d) ps) ->
  exists e x dg, find_path (recs (fst (fst (each_x (track_one_x fx o w) (r, d) ps)))) p = Some (e, x) /\
                 r_meta x <> None /\ r_digest x = Some dg /\ a = cache_addr p dg /\ r_method x = m.
Proof.
  induction ps as [|p0 t IH]; intros r d I ND G p a m Hin; [destruct Hin|].
  cbn [mon_each_x] in G. apply orb_false_iff in G. destruct G as [G1 G2].
  inversion ND as [|? ? Hnin ND']; subst.
  pose proof I as [F R].
  destruct (track_one_x_facts fx o w r d p0 R) as (S1 & S2 & S3 & S4).
  assert (U : mon_track_one_x fx (unclean_x fx) o w (r, d) p0 = false).
  { unfold mon_track_one_x in *. cbn [fst snd] in *. destruct (track_call o w r p0) as [[b mq]|]; auto.
    destruct S4 as (_ & _ & _ & Hfit & _). apply class_x_unclean; auto. now apply fits_read_pre. }
  destruct (track_one_x_step fx o w r d p0 I U) as (T1 & _).
  destruct (each_x_cons (track_one_x fx o w) (r, d) p0 t) as [E1 _]. rewrite E1.
  cbn [calls_x fst] in Hin.
  destruct (track_one_x fx o w (r, d) p0) as [[r1 d1] o1] eqn:Et. cbn [fst snd] in *.
  apply in_app_or in Hin. destruct Hin as [Hin|Hin]; [|now apply IH].
  destruct (track_call o w r p0) as [[a0 m0]|] eqn:Hc; [|destruct Hin].
  destruct Hin as [[= <- <- <-]|[]].
  (* the record written at p0's turn *)
  assert (Erec : recs r1 = recs (fst (track_one o w r p0))).
  { unfold track_one_x in Et. rewrite Hc in Et.
    destruct (carry_one_x fx (fs r) p0 a0 m0 (eff_force fx d a0 (t_force o))) as [f2 oc2]. injection Et as <- _ _.
    rewrite track_call_eq in Hc. destruct (track_one_split o w r p0 a0 m0 Hc) as [E _]. rewrite E. reflexivity. }
  rewrite track_call_eq in Hc.
  destruct (track_one_record o w r p0 a0 m0 R Hc) as (e & x & dg & Ef & Hp & Hm & Hd & Ha & Hmm & _).
  (* the later targets leave it alone *)
  pose proof (each_track_x_nomisfit fx o w t r1 d1 (proj2 T1) G2) as U2.
  destruct (each_track_x_spec fx o w t r1 d1 T1 U2) as (_ & _ & _ & _ & _ & _ & _ & _ & A9).
  exists e, x, dg. rewrite A9 by exact Hnin. rewrite Erec. auto.
Qed.

(* ---- 9. the theorems in their final form -------------------------------------------------------------------------------- *)
Definition K_x (fx : fixes) (r : repo) (h : list item) : bool := mon_run_x fx (class_x fx) r h.
Definition K_item_x (fx : fixes) (r : repo) (it : item) : bool := mon_item_x fx (class_x fx) r it.

(* C02 *)
Theorem cas_x fx r a c : reachable_x fx r -> obj_read (fs r) a = Some c -> fits (a_digest a) c.
Proof. intros Hr. apply FI_cas. apply (reachable_x_INV fx r Hr). Qed.

Theorem objects_plain_x fx r a e : reachable_x fx r -> oget (fs r) a = Some e ->
  exists i n, e = EFile i /\ iget (fs r) i = Some n /\ i_w n = false /\ (forall b, oget (fs r) b = Some (EFile i) -> b = a).
Proof.
  intros Hr H. destruct (reachable_x_INV fx r Hr) as [[F _] _].
  destruct (fi_obj F _ _ H) as (i & n & -> & Hi & Hw & _). exists i, n.
  split; [auto|split; [auto|split; [auto|]]]. intros b Hb. eapply (fi_inj F); eauto.
Qed.

Theorem readonly_x fx a m t h b : K_x fx (init_repo a m t) h = false -> panics_x fx (init_repo a m t) h = false ->
  oget (fs (run_items_x fx (init_repo a m t) h)) b <> None ->
  dget (fs (run_items_x fx (init_repo a m t) h)) (a_digest b) = Some false.
Proof.
  intros G P. destruct (run_nomisfit_x fx h _ (INV_init a m t) (SINV_init a m t) G) as [U _].
  apply (ro_run_x fx h _ (INV_init a m t) (DRO_init a m t) U P).
Qed.

Theorem immutable_x fx r it b c c' : reachable_x fx r -> K_item_x fx r it = false -> mon_item_x fx alias_swap r it = false ->
  obj_read (fs r) b = Some c -> obj_read (fs (fst (do_item_x fx r it))) b = Some c' -> c = c'.
Proof.
  intros Hr G Ga H1 H2. destruct (reachable_x_INV fx r Hr) as [I _].
  destruct (item_spec_x fx r it I (item_clean_x fx r it Hr G)) as ([F' _] & _ & _ & W & _). specialize (W Ga).
  destruct I as [F _].
  apply (obj_read_spec _ _ _ F) in H1. destruct H1 as (i & n & Ho & Hi & <-).
  apply (obj_read_spec _ _ _ F') in H2. destruct H2 as (i' & n' & Ho' & Hi' & <-).
  destruct (W b i n Ho Hi) as [Hn|(i2 & n2 & K1 & K2 & K3)]; [congruence|].
  rewrite Ho' in K1. injection K1 as <-. rewrite Hi' in K2. injection K2 as <-. auto.
Qed.

Theorem monotone_x fx r it b e : reachable_x fx r -> K_item_x fx r it = false -> unforced it = true ->
  oget (fs r) b = Some e ->
  oget (fs (fst (do_item_x fx r it))) b = Some e /\ obj_read (fs (fst (do_item_x fx r it))) b = obj_read (fs r) b.
Proof.
  intros Hr G U H. destruct (reachable_x_INV fx r Hr) as [I _].
  destruct (item_spec_x fx r it I (item_clean_x fx r it Hr G)) as ([F' _] & _ & M & _ & _). destruct (M U) as [M1 M2].
  destruct I as [F _]. split; [auto|].
  destruct (fi_obj F _ _ H) as (i & n & -> & Hi & _).
  destruct (M2 b i n H Hi) as (i' & n' & K1 & K2 & K3).
  transitivity (Some (i_bytes n)); [|symmetry]; apply obj_read_spec; eauto.
Qed.

(* the class [relink] is empty once P41 is repaired: what is left of [class_x] is [stale_x] *)
Section MonExt.
Variable fx : fixes.
Variables bad1 bad2 : fsys -> path -> caddr -> bool -> bool.
Hypothesis Hext : forall f p a force, bad1 f p a force = bad2 f p a force.

Lemma mon_each_x_ext o w ps : forall st,
  mon_each_x (track_one_x fx o w) (mon_track_one_x fx bad1 o w) st ps = mon_each_x (track_one_x fx o w) (mon_track_one_x fx bad2 o w) st ps.
Proof.
  induction ps as [|p t IH]; intros st; [reflexivity|]. cbn [mon_each_x]. rewrite IH. f_equal.
  unfold mon_track_one_x. destruct (track_call o w (fst st) p) as [[a m]|]; auto.
Qed.
Lemma mon_carry_phase_x_ext cs force : forall f done,
  mon_carry_phase_x fx bad1 f cs force done = mon_carry_phase_x fx bad2 f cs force done.
Proof.
  induction cs as [|c t IH]; intros f done; [reflexivity|]. cbn [mon_carry_phase_x].
  destruct (cp_sel c); auto. destruct (cp_addr c); auto. rewrite Hext.
  destruct (snd (carry_one_x fx f _ _ _ _)); auto. now rewrite IH.
Qed.
Lemma mon_item_x_ext r it : mon_item_x fx bad1 r it = mon_item_x fx bad2 r it.
Proof.
  destruct it; cbn [mon_item_x]; auto using mon_each_x_ext.
  destruct (negb _ && existsb _ _); auto using mon_carry_phase_x_ext.
Qed.
Lemma mon_run_x_ext h : forall r, mon_run_x fx bad1 r h = mon_run_x fx bad2 r h.
Proof. induction h as [|it t IH]; intros r; [reflexivity|]. cbn [mon_run_x]. now rewrite IH, mon_item_x_ext. Qed.
End MonExt.

Lemma mon_run_x_never fx h : forall r, mon_run_x fx (fun _ _ _ _ => false) r h = false.
Proof. induction h as [|it t IH]; intros r; [reflexivity|]. cbn [mon_run_x]. now rewrite IH, mon_item_x_never. Qed.

Theorem relink_class_empty_when_fixed fx : fixed_P41 fx = true -> forall r h, mon_run_x fx (relink_x fx) r h = false.
Proof.
  intros H r h. rewrite (mon_run_x_ext fx (relink_x fx) (fun _ _ _ _ => false)); [apply mon_run_x_never|].
  intros. now apply relink_x_fixed.
Qed.

Lemma class_x_fixed fx f p a force : fixed_P41 fx = true -> class_x fx f p a force = stale_x f p a force.
Proof. intros H. unfold class_x. now rewrite relink_x_fixed. Qed.

(* while P41 is not repaired the class is the one of Repo/Inv.v: relink (a stale link is then a renamed link) *)
Lemma stale_relink f p a force : FI f -> stale_x f p a force = true -> moves_entry f p a force = true -> relink f p a force = true.
Proof.
  intros F H Hm. unfold stale_x in H. apply andb_true_iff in H. destruct H as [H _].
  unfold relink, is_cache_link. unfold is_link_entry in H. destruct (wget f p) as [[j|b]|]; try discriminate. now rewrite Hm.
Qed.

Lemma K_x_fixed fx r h : fixed_P41 fx = true -> K_x fx r h = mon_run_x fx stale_x r h.
Proof. intros H. apply mon_run_x_ext. intros. now apply class_x_fixed. Qed.

(* ---- 10. C01 / C17 for the commands with switches ------------------------------------------------------------------------ *)
(* recheck is not touched by the repairs: the theorems of Repo/Restore.v need INV only *)
Lemma run_x_recheck fx r p o : run_items_x fx r [UDelete p; XRecheck o [p]] = run_items r [UDelete p; XRecheck o [p]].
Proof. reflexivity. Qed.
Lemma run_x_damage fx r p junk o : run_items_x fx r [UWrite p junk; XRecheck o [p]] = run_items r [UWrite p junk; XRecheck o [p]].
Proof. reflexivity. Qed.

Theorem restore_after_delete_x fx r p c o : reachable_x fx r -> committed r p c ->
  ws_read (fs (run_items_x fx r [UDelete p; XRecheck o [p]])) p = Some c /\
  committed (run_items_x fx r [UDelete p; XRecheck o [p]]) p c.
Proof. intros Hr C. rewrite run_x_recheck. apply restore_after_delete; auto. apply (reachable_x_INV fx r Hr). Qed.

Theorem restore_after_damage_x fx r p c junk m : reachable_x fx r -> committed r p c ->
  ws_read (fs (run_items_x fx r [UWrite p junk; XRecheck {| k_method := m; k_force := true |} [p]])) p = Some c /\
  committed (run_items_x fx r [UWrite p junk; XRecheck {| k_method := m; k_force := true |} [p]]) p c.
Proof. intros Hr C. rewrite run_x_damage. apply restore_after_damage; auto. apply (reachable_x_INV fx r Hr). Qed.

Theorem recheck_materialises_x fx r p c o : reachable_x fx r -> committed r p c ->
  exists e x d, find_path (recs r) p = Some (e, x) /\ r_digest x = Some d /\
    materialised (fs (run_items_x fx r [UDelete p; XRecheck o [p]])) p (cache_addr p d) (recheck_method o x) c /\
    find_path (recs (run_items_x fx r [UDelete p; XRecheck o [p]])) p = Some (e, with_method x (recheck_method o x)).
Proof. intros Hr C. rewrite run_x_recheck. apply recheck_materialises; auto. apply (reachable_x_INV fx r Hr). Qed.

(* ---- P43 (B): the recheck that ends a track with an explicit method leaves the targets just committed as they are ---- *)
Lemma recheck_one_noop o r p e x : find_path (recs r) p = Some (e, x) -> k_method o = Some (r_method x) -> k_force o = false ->
  ws_read (fs r) p <> None -> recheck_one o r p = (r, Ok).
Proof.
  intros Ef Hm Hf Hr. unfold recheck_one. rewrite Ef. destruct (r_meta x) as [sm|] eqn:Em; [|reflexivity]. cbv zeta.
  rewrite Hm, Hf. assert (Hme : method_eqb (r_method x) (r_method x) = true) by (destruct (r_method x); reflexivity).
  rewrite Hme. cbn [negb andb orb].
  assert (Hp : r_path x = p) by (apply find_path_In in Ef; tauto).
  assert (Hnm : match digest_diff r x (cfg_algo r) (r_tob x) with DActualMissing => true | _ => false end = false).
  { unfold digest_diff. rewrite Hp. destruct (meta_eqb (r_meta x) (ws_meta (fs r) p)); [reflexivity|].
    destruct (ws_meta (fs r) p) eqn:Ewm.
    - destruct (ws_read (fs r) p); [|congruence]. destruct (r_digest x); [destruct (digest_eqb _ _)|]; reflexivity.
    - exfalso. apply Hr. unfold ws_meta in Ewm. unfold ws_read, read_entry.
      destruct (wget (fs r) p) as [en|]; [|reflexivity].
      destruct (resolve (fs r) link_fuel en) as [ir|]; [|reflexivity].
      destruct (iget (fs r) ir); [discriminate Ewm|reflexivity]. }
  rewrite Hnm. reflexivity.
Qed.

Lemma recheck_one_entry o r q k : wget (fs (fst (recheck_one o r q))) q = Some (EFile k) ->
  wget (fs r) q = Some (EFile k) \/ (exists b, oget (fs r) b = Some (EFile k)) \/ k = next_ino (fs r).
Proof.
  unfold recheck_one. destruct (find_path (recs r) q) as [[e x]|]; [|auto].
  destruct (r_meta x); [|auto]. cbv zeta.
  match goal with |- context [if negb ?s then _ else _] => destruct s end; cbn [negb]; [|auto].
  destruct (r_digest x) as [d|]; [|auto].
  destruct (obj_exists (fs r) (cache_addr q d)); [|cbn; auto].
  change (if ws_exists (fs r) q then wdel (fs r) q else fs r) with (cleared (fs r) q).
  destruct (recheck_from_cache (cleared (fs r) q) q (cache_addr q d) _) as [f2 oc] eqn:Er. cbn [fst fs set_fs].
  intros Hw. assert (Hw' : wget (fst (recheck_from_cache (cleared (fs r) q) q (cache_addr q d) (match k_method o with Some m => m | None => r_method x end))) q = Some (EFile k)) by now rewrite Er.
  apply rfc_new_entry in Hw'. destruct Hw' as [H| ->].
  - right. left. exists (cache_addr q d). now rewrite oget_cleared in H.
  - right. right. apply ni_cleared.
Qed.

Lemma recheck_other_keeps_mat o r q p a m c : INV r -> q <> p -> Mat (fs r) p a m c -> Mat (fs (fst (recheck_one o r q))) p a m c.
Proof.
  intros [F R] Hqp ([Hr M] & Ho & Pv).
  destruct (recheck_one_spec o r q F R) as (F' & _ & _ & (W1 & W2 & W3 & _ & _) & _).
  pose proof (recheck_one_entry o r q) as En.
  set (f' := fs (fst (recheck_one o r q))) in *.
  assert (Wp : wget f' p = wget (fs r) p) by (apply W1; congruence).
  apply (obj_read_spec _ _ _ F) in Ho. destruct Ho as (i0 & n0 & Ho & Hi0 & Hc0).
  assert (Or : obj_read f' a = Some c) by (apply obj_read_spec; [exact F'|exists i0, n0; rewrite W2; auto]).
  assert (Rd : ws_read f' p = Some c).
  { unfold ws_read in *. rewrite Wp. destruct (wget (fs r) p) as [[j|b]|]; [| |discriminate].
    - rewrite read_file in *. destruct (iget (fs r) j) as [n|] eqn:Hj; [|discriminate]. now rewrite (W3 _ _ Hj).
    - unfold read_entry, link_fuel in *. rewrite resolve_link in *. rewrite W2.
      destruct (oget (fs r) b) as [eb|] eqn:Eb; [|discriminate].
      destruct (fi_obj F _ _ Eb) as (ib & nb & -> & Hib & _). rewrite resolve_file in *. rewrite Hib in Hr. now rewrite (W3 _ _ Hib). }
  split; [split; [exact Rd|]|split; [exact Or|]].
  - destruct m.
    + destruct M as (ip & np & Hw & Hip & Hwr & Hno). exists ip, np. rewrite Wp.
      split; [auto|split; [auto|split; [auto|intros b; rewrite W2; apply Hno]]].
    + destruct M as (i & n & Hw & Hoa & Hi & Hwr). exists i, n. rewrite Wp, W2. auto.
    + now rewrite Wp.
    + destruct M as (ip & np & Hw & Hip & Hwr & Hno). exists ip, np. rewrite Wp.
      split; [auto|split; [auto|split; [auto|intros b; rewrite W2; apply Hno]]].
  - intros i Hw' Hno' q' Hq'. rewrite Wp in Hw'.
    assert (Hno : forall b, oget (fs r) b <> Some (EFile i)) by (intros b; rewrite <- W2; apply Hno').
    destruct (beqb_spec q' q) as [->|Hne].
    + intros Hwq. destruct (En i Hwq) as [H|[[b H]|H]].
      * eapply (Pv i Hw' Hno q); eauto.
      * eapply Hno; eauto.
      * destruct (iget (fs r) i) as [ni|] eqn:Ei; [apply (fi_bound F) in Ei; lia|eapply (fi_ws F); eauto].
    + rewrite W1 by auto. apply (Pv i Hw' Hno). exact Hq'.
Qed.

Lemma each_recheck_keeps o ps : k_force o = false -> forall r p a m c e x dg, INV r -> Mat (fs r) p a m c ->
  find_path (recs r) p = Some (e, x) -> r_meta x <> None -> r_digest x = Some dg -> r_method x = m -> k_method o = Some m ->
  Mat (fs (fst (each (recheck_one o) r ps))) p a m c /\
  exists x', find_path (recs (fst (each (recheck_one o) r ps))) p = Some (e, x') /\ r_meta x' <> None /\ r_digest x' = Some dg /\ r_method x' = m.
Proof.
  intros Hf. induction ps as [|q t IH]; intros r p a m c e x dg I HM Ef Hm Hd Hmm Hk; [cbn; split; [exact HM|exists x; auto]|].
  destruct (each_cons (recheck_one o) r q t) as [E _]. rewrite E.
  destruct (beqb_spec q p) as [->|Hne].
  - rewrite (recheck_one_noop o r p e x Ef); [|congruence|exact Hf|]. { cbn [fst]. eapply IH; eauto. }
    destruct HM as ([Hr _] & _). congruence.
  - pose proof I as [F R].
    destruct (recheck_one_spec o r q F R) as (F' & R' & _ & _ & _ & _ & S7).
    eapply IH; [split; eauto|now apply recheck_other_keeps_mat|rewrite S7 by congruence; exact Ef|auto|auto|auto|auto].
Qed.

(* every target ONE track command commits (any number of targets, equal addresses, --force, any visiting order):
   the command does not panic, the record names the object, the entry is materialised from it with the method in force *)
Definition K_forced_duplicate (fx : fixes) (r : repo) (o : track_opts) (ps : list path) : bool :=
  negb (fixed_P44 fx) && t_force o && dup_addr (calls_x fx o (walked_of ps) (r, []) ps).

Theorem track_all_materialised fx o ps r : reachable_x fx r -> NoDup ps ->
  K_item_x fx r (XTrack o ps) = false -> K_forced_duplicate fx r o ps = false ->
  snd (do_item_x fx r (XTrack o ps)) <> Panic /\
  forall p a m, In (p, a, m) (calls_x fx o (walked_of ps) (r, []) ps) ->
    In p ps /\ m = track_method o r /\
    exists c, committed (fst (do_item_x fx r (XTrack o ps))) p c /\
              materialised (fs (fst (do_item_x fx r (XTrack o ps)))) p a m c /\
              obj_read (fs (fst (do_item_x fx r (XTrack o ps)))) a = Some c.
Proof.
  intros Hr ND G Kd. destruct (reachable_x_INV fx r Hr) as [I _].
  unfold K_item_x in G. cbn [mon_item_x] in G. cbn [do_item_x]. fold (walked_of ps). set (w := walked_of ps) in *.
  assert (Hs : fixed_P44 fx = true \/ t_force o = false \/ dup_addr (calls_x fx o w (r, []) ps) = false).
  { unfold K_forced_duplicate in Kd. fold w in Kd. destruct (fixed_P44 fx); [now left|]. destruct (t_force o); [|now right; left].
    right. right. exact Kd. }
  destruct (track_calls_materialised fx o w ps r [] I ND G Hs) as [NP HM].
  pose proof (track_calls_recorded fx o w ps r [] I ND G) as HR.
  pose proof (each_track_x_nomisfit fx o w ps r [] (proj2 I) G) as U.
  destruct (each_track_x_spec fx o w ps r [] I U) as (I1 & _).
  destruct (each_x (track_one_x fx o w) (r, []) ps) as [[r1 d1] oc]. cbn [fst snd] in *.
  assert (Plain : oc <> Panic /\ forall p a m, In (p, a, m) (calls_x fx o w (r, []) ps) ->
            In p ps /\ m = track_method o r /\
            exists c, committed r1 p c /\ materialised (fs r1) p a m c /\ obj_read (fs r1) a = Some c).
  { split; [exact NP|]. intros p a m Hin. destruct (HM p a m Hin) as (K1 & K2 & c & KM & KO & _).
    destruct (HR p a m Hin) as (e & x & dg & Ef & Hm & Hd & Ha & _).
    split; [auto|split; [auto|]]. exists c. split; [|split; auto].
    exists e, x, dg. subst a. auto. }
  destruct (if fixed_P43 fx then t_method o else None) as [m'|] eqn:Eph; [|exact Plain].
  assert (Etm : track_method o r = m').
  { unfold track_method. destruct (fixed_P43 fx); [|discriminate]. now rewrite Eph. }
  set (o' := {| k_method := Some m'; k_force := false |}).
  assert (Phase : forall oc0, oc0 <> Panic ->
            snd (let '(r2, oc2) := each (recheck_one o') r1 ps in (r2, worst oc0 oc2)) <> Panic /\
            forall p a m, In (p, a, m) (calls_x fx o w (r, []) ps) ->
              In p ps /\ m = track_method o r /\
              exists c, committed (fst (let '(r2, oc2) := each (recheck_one o') r1 ps in (r2, worst oc0 oc2))) p c /\
                        materialised (fs (fst (let '(r2, oc2) := each (recheck_one o') r1 ps in (r2, worst oc0 oc2)))) p a m c /\
                        obj_read (fs (fst (let '(r2, oc2) := each (recheck_one o') r1 ps in (r2, worst oc0 oc2)))) a = Some c).
  { intros oc0 Hoc0.
    assert (NP2 : snd (each (recheck_one o') r1 ps) <> Panic).
    { destruct (item_spec r1 (XRecheck o' ps) I1 eq_refl) as (_ & _ & _ & _ & _).
      apply (each_no_panic (recheck_one o') (fun _ _ => false) (fun r => INV r)); auto.
      - intros r0 p0 I0 _. destruct (recheck_one_step o' r0 p0 I0) as (T1 & _ & T3 & _). auto.
      - clear. generalize r1. induction ps; intros r0; cbn; auto. }
    split.
    - destruct (each (recheck_one o') r1 ps) as [r2 oc2]. cbn [snd] in *. destruct oc0, oc2; cbn; congruence.
    - intros p a m Hin. destruct (HM p a m Hin) as (K1 & K2 & c & KM).
      destruct (HR p a m Hin) as (e & x & dg & Ef & Hm & Hd & Ha & Hmm).
      assert (Em : m = m') by congruence.
      destruct (each_recheck_keeps o' ps eq_refl r1 p a m c e x dg I1 KM Ef Hm Hd Hmm) as (KM2 & x' & Ef2 & Hm2 & Hd2 & _);
        [cbn; congruence|].
      destruct (each (recheck_one o') r1 ps) as [r2 oc2]. cbn [fst snd] in *.
      destruct KM2 as (KMa & KMo & _).
      split; [auto|split; [auto|]]. exists c. split; [|split; auto].
      exists e, x', dg. subst a. auto. }
  destruct oc; [exact (Phase Ok ltac:(discriminate))|exact (Phase Err ltac:(discriminate))|congruence].
Qed.

Lemma forced_duplicate_class_empty_when_fixed fx r o ps : fixed_P44 fx = true -> K_forced_duplicate fx r o ps = false.
Proof. intros H. unfold K_forced_duplicate. now rewrite H. Qed.

(* committed content stays restorable (Repo/Restore.v committed_step / stays_restorable) *)
Lemma committed_step_x fx r it p c : INV r -> mon_item_x fx (unclean_x fx) r it = false -> harmless p it = true ->
  committed r p c -> committed (fst (do_item_x fx r it)) p c.
Proof.
  intros I G Hh (e & x & d & Ef & Hm & Hd & Hr).
  destruct (item_spec_x fx r it I G) as ([F' R'] & _ & M & _ & _).
  destruct (M (harmless_unforced p it Hh)) as [M1 M2].
  pose proof I as [F R].
  assert (Hr' : obj_read (fs (fst (do_item_x fx r it))) (cache_addr p d) = Some c).
  { apply (obj_read_spec _ _ _ F) in Hr. destruct Hr as (i & n & Ho & Hi & <-).
    destruct (M2 _ i n Ho Hi) as (i' & n' & K1 & K2 & K3). apply obj_read_spec; eauto. }
  assert (V : view_core (find_path (recs (fst (do_item_x fx r it))) p) = view_core (find_path (recs r) p)).
  { destruct it as [q b|q b|q|q|o ps|o ps|o ps]; try reflexivity.
    - cbn [harmless] in Hh. apply andb_true_iff in Hh. destruct Hh as [_ Hh]. apply negb_true_iff in Hh.
      clear F' R' M M1 M2 Hr'. cbn [do_item_x mon_item_x] in *. fold (walked_of ps).
      destruct (each_track_x_spec fx o (walked_of ps) ps r [] I G) as (A1 & _ & _ & _ & _ & _ & _ & _ & A9).
      destruct (each_x (track_one_x fx o (walked_of ps)) (r, []) ps) as [[r1 d1] oc]. cbn [fst snd] in *.
      assert (V1 : find_path (recs r1) p = find_path (recs r) p) by (apply A9; now apply mem_path_false).
      destruct (if fixed_P43 fx then t_method o else None) as [m|]; [|cbn [fst]; now rewrite V1].
      pose proof (recheck_keeps_records r1 {| k_method := Some m; k_force := false |} ps p A1) as V2. cbn [do_item] in V2.
      destruct oc; [| |cbn [fst]; now rewrite V1];
        destruct (each (recheck_one {| k_method := Some m; k_force := false |}) r1 ps) as [r2 oc2]; cbn [fst] in *; now rewrite V2, V1.
    - cbn [harmless] in Hh. apply andb_true_iff in Hh. destruct Hh as [_ Hh]. apply negb_true_iff in Hh.
      apply mem_path_false in Hh.
      cbn [do_item_x mon_item_x] in *. unfold carry_in_cmd_x.
      destruct (negb (fixed_P49 fx) && existsb left_alone (plans o r ps)); [reflexivity|].
      destruct (carry_phase_x fx (fs r) (plans o r ps) (c_force o) []) as [f1 oc].
      destruct oc; try reflexivity. cbn [fst]. fold (recorded fx (plans o r ps)).
      destruct (record_phase_spec (recorded fx (plans o r ps)) (set_fs r f1) (RI_set_fs r f1 R)) as (B1 & B2 & B3 & B4).
      { intros c0 Hin. apply recorded_sub in Hin. pose proof (plans_rec o r ps c0 Hin) as Hf.
        apply (find_path_spec r _ _ _ R) in Hf. destruct Hf as [Hg Hp]. exists (cp_rec c0). auto. }
      f_equal. rewrite B4; [reflexivity|]. intros Hin. apply Hh. apply paths_of_recorded in Hin. eapply paths_of_plans; eauto.
    - apply recheck_keeps_records; auto. }
  destruct (view_core_some _ _ e x V Ef) as (x' & Ef' & Hc).
  unfold rec_core in Hc. injection Hc as H1 H2 H3 H4 H5.
  exists e, x', d. split; [auto|split; [congruence|split; [congruence|auto]]].
Qed.

Theorem committed_run_x fx h : forall r p c, INV r -> mon_run_x fx (unclean_x fx) r h = false -> forallb (harmless p) h = true ->
  committed r p c -> committed (run_items_x fx r h) p c.
Proof.
  induction h as [|it t IH]; intros r p c I G H C; [exact C|].
  cbn [mon_run_x] in G. apply orb_false_iff in G. destruct G as [G1 G2].
  cbn [forallb] in H. apply andb_true_iff in H. destruct H as [H1 H2].
  rewrite run_items_x_cons. apply IH; auto.
  - apply (item_spec_x fx r it I G1).
  - apply committed_step_x; auto.
Qed.

Theorem stays_restorable_x fx r h p c o : reachable_x fx r -> committed r p c ->
  K_x fx r h = false -> forallb (harmless p) h = true ->
  ws_read (fs (run_items_x fx (run_items_x fx r h) [UDelete p; XRecheck o [p]])) p = Some c.
Proof.
  intros Hr C G H. destruct (reachable_x_INV fx r Hr) as [I S].
  destruct (run_nomisfit_x fx h r I S G) as [U _].
  rewrite run_x_recheck. apply restore_after_delete.
  - apply inv_run_x; auto.
  - apply committed_run_x; auto.
Qed.

(* ---- 11. the stale-link class is a corner of P2: without an alias swap in the same command it is empty ------------------ *)
(* every remaining plan is readable and what is read fits the planned address *)
Definition PR (f : fsys) (cs : list cplan) : Prop :=
  forall c, In c cs -> forall a, cp_addr c = Some a -> exists c0, ws_read f (r_path (cp_rec c)) = Some c0 /\ fits (a_digest a) c0.

Lemma plan_reads o r p c a : RI r -> SINV r -> carry_plan o r p = Some c -> cp_addr c = Some a ->
  exists c0, ws_read (fs r) p = Some c0 /\ fits (a_digest a) c0.
Proof.
  intros R [T M]. unfold carry_plan. destruct (find_path (recs r) p) as [[e x]|] eqn:Ef; [|discriminate].
  pose proof (proj1 (find_path_spec r p e x R) Ef) as [Hg Hp].
  destruct (r_meta x) as [sm0|] eqn:Emx; [|discriminate]. intros [= <-]. cbn [cp_addr].
  set (t := match c_tob o with Some t => t | None => cfg_tob r end).
  intros Ha.
  destruct (digest_diff r x (cfg_algo r) t) as [| |d| |d] eqn:Ed; try discriminate.
  - destruct (digest_diff_identical r x _ _ Ed) as (c0 & rd & Hc & Hrd & Hf). rewrite Hp in Hc.
    rewrite Hrd in Ha. injection Ha as <-. exists c0. auto.
  - pose proof (digest_diff_skipped r x _ _ Ed) as Hs. rewrite Hp in Hs.
    destruct (r_digest x) as [d|] eqn:Erd; [|discriminate]. injection Ha as <-. cbn.
    destruct sm0 as [s mt]. rewrite Emx in Hs. symmetry in Hs.
    destruct (ws_meta_inode _ _ _ _ Hs) as (i & ni & Hii & Hmt & _ & Hr & _).
    exists (i_bytes ni). split; [exact Hr|].
    destruct (M e x Hg s mt d Emx Erd) as [_ H]. eapply H; eauto.
  - assert (Hd : digest_diff r x (cfg_algo r) t = DDifferent d \/ digest_diff r x (cfg_algo r) t = DRecordMissing d) by auto.
    apply digest_diff_new in Hd. destruct Hd as (c0 & Hc & ->). rewrite Hp in Hc. injection Ha as <-.
    exists c0. split; [exact Hc|]. cbn. apply digest_of_fits.
Qed.

(* what a path other than the target reads is kept by a closure that swaps no alias *)
Lemma ws_read_kept f q p a force f' oc c0 : FI f -> CarrySpec f p a force f' oc -> q <> p -> oc <> Panic ->
  alias_swap f p a force = false -> ws_read f q = Some c0 -> ws_read f' q = Some c0.
Proof.
  intros F S Hqp Hoc Ha. unfold ws_read. rewrite (cs_ws S) by auto.
  destruct (wget f q) as [[j|b]|]; [| |discriminate].
  - rewrite !read_file. destruct (iget f j) as [n|] eqn:Hj; [|discriminate]. intros [= <-].
    destruct (cs_bytes S _ _ Hj) as (n' & H1 & H2). now rewrite H1, H2.
  - unfold read_entry, link_fuel. rewrite !resolve_link.
    destruct (oget f b) as [e|] eqn:Ho; [|discriminate].
    destruct (fi_obj F _ _ Ho) as (i & n & -> & Hi & _). rewrite resolve_file, Hi. intros [= <-].
    destruct (caddr_eqb_spec b a) as [->|Hne].
    + destruct (cs_keep S Ha i n Ho Hi) as [Hn|(i' & n' & K1 & K2 & K3)].
      * exfalso. apply (cs_present S); auto.
      * now rewrite K1, resolve_file, K2, K3.
    + rewrite (cs_objs S) by auto. rewrite Ho, resolve_file.
      destruct (cs_bytes S _ _ Hi) as (n' & H1 & H2). now rewrite H1, H2.
Qed.

Lemma carry_phase_x_nostale fx force cs : forall f done, FI f -> PR f cs -> plan_det cs ->
  mon_carry_phase_x fx (relink_x fx) f cs force done = false ->
  mon_carry_phase_x fx alias_swap f cs force done = false ->
  mon_carry_phase_x fx stale_x f cs force done = false.
Proof.
  induction cs as [|c t IH]; intros f done F P D G Ga; [reflexivity|]. cbn [mon_carry_phase_x] in *.
  assert (Pt : PR f t) by (intros c' Hin; apply P; now right).
  assert (Dt : plan_det t) by (intros c1 c2 H1 H2; apply D; now right).
  destruct (cp_sel c); [|apply IH; auto]. destruct (cp_addr c) as [a|] eqn:Ea; [|apply IH; auto].
  apply orb_false_iff in G. destruct G as [G1 G2]. apply orb_false_iff in Ga. destruct Ga as [Ga1 Ga2].
  set (fe := eff_force fx done a force) in *.
  destruct (P c (or_introl eq_refl) a Ea) as (c0 & Hr0 & Hf0).
  assert (Hfr : fits_read f (r_path (cp_rec c)) a) by (intros c1 Hc1; congruence).
  unfold stale_x at 1. rewrite (fits_read_misfit_x _ _ _ fe Hfr), andb_false_r. cbn [orb].
  pose proof (carry_one_x_spec fx f (r_path (cp_rec c)) a (r_method (cp_rec c)) fe F G1 Hfr) as S.
  assert (Hrd : ws_read f (r_path (cp_rec c)) <> None) by congruence.
  destruct (carry_one_x_ok fx f (r_path (cp_rec c)) a (r_method (cp_rec c)) fe F G1 Hfr Hrd) as (Kok & i & n & K2 & K3 & K4 & _).
  destruct (carry_one_x fx f (r_path (cp_rec c)) a (r_method (cp_rec c)) fe) as [f1 o1]. cbn [fst snd] in *. subst o1.
  apply IH; auto; [apply (cs_FI S)|].
  intros c' Hin a' Ha'.
  destruct (beqb_spec (r_path (cp_rec c')) (r_path (cp_rec c))) as [Ep|Hne].
  - assert (a' = a).
    { pose proof (D c' c (or_intror Hin) (or_introl eq_refl) Ep) as Hd. rewrite Ha', Ea in Hd. congruence. }
    subst a'. rewrite Ep. destruct K4 as [Hr _]. exists (i_bytes n). split; [exact Hr|].
    destruct (fi_obj (cs_FI S) _ _ K2) as (i1 & n1 & E1 & Hi1 & _ & Hf1). injection E1 as <-. congruence.
  - destruct (Pt c' Hin a' Ha') as (c1 & Hr1 & Hf1). exists c1. split; [|exact Hf1].
    eapply ws_read_kept; eauto. discriminate.
Qed.

Theorem stale_needs_alias_swap fx r it : INV r -> SINV r ->
  mon_item_x fx (relink_x fx) r it = false -> mon_item_x fx alias_swap r it = false -> mon_item_x fx stale_x r it = false.
Proof.
  intros [F R] S G Ga. destruct it as [p c|p c|p|p|o ps|o ps|o ps]; cbn [mon_item_x] in *; auto.
  - (* track computes the address from what it reads: never stale *)
    clear Ga. revert G. generalize (@nil caddr). revert R. generalize r. clear F S.
    induction ps as [|p t IH]; intros r0 R d G; [reflexivity|]. cbn [mon_each_x] in *.
    apply orb_false_iff in G. destruct G as [G1 G2].
    destruct (track_one_x_facts fx o (walked_of (p :: t)) r0 d p R) as (S1 & S2 & S3 & S4).
    assert (E : mon_track_one_x fx stale_x o (walked_of (p :: t)) (r0, d) p = false).
    { unfold mon_track_one_x. cbn [fst snd]. destruct (track_call o (walked_of (p :: t)) r0 p) as [[a m]|]; auto.
      destruct S4 as (_ & _ & _ & Hfit & _). unfold stale_x. now rewrite (fits_read_misfit_x _ _ _ _ Hfit), andb_false_r. }
    rewrite E. cbn [orb].
    destruct (track_one_x fx o (walked_of (p :: t)) (r0, d) p) as [[r1 d1] o1]. cbn [fst] in *.
    (* the walked flag of the whole command stays fixed: generalise over it *)
    revert S1 G2. generalize (walked_of (p :: t)) as w. intros w S1 G2.
    clear - S1 G2. revert r1 d1 S1 G2. induction t as [|q t IHt]; intros r1 d1 R1 G; [reflexivity|].
    cbn [mon_each_x] in *. apply orb_false_iff in G. destruct G as [G1 G2].
    destruct (track_one_x_facts fx o w r1 d1 q R1) as (S1 & S2 & S3 & S4).
    assert (E : mon_track_one_x fx stale_x o w (r1, d1) q = false).
    { unfold mon_track_one_x. cbn [fst snd]. destruct (track_call o w r1 q) as [[a m]|]; auto.
      destruct S4 as (_ & _ & _ & Hfit & _). unfold stale_x. now rewrite (fits_read_misfit_x _ _ _ _ Hfit), andb_false_r. }
    rewrite E. cbn [orb]. destruct (track_one_x fx o w (r1, d1) q) as [[r2 d2] o2]. cbn [fst] in *. now apply IHt.
  - destruct (negb (fixed_P49 fx) && existsb left_alone (plans o r ps)); auto.
    apply carry_phase_x_nostale; auto using plans_det.
    intros c Hin a Ha. destruct (plans_plan o r ps c Hin) as [p Hp].
    destruct (carry_plan_rec o r p c Hp) as [_ E]. rewrite E. eapply plan_reads; eauto.
Qed.

(* ---- 12. P49: carry-in leaves a target that is not in the workspace alone ------------------------------------------------ *)
Lemma missing_plan_left_alone o r p c e x : find_path (recs r) p = Some (e, x) -> wget (fs r) p = None ->
  carry_plan o r p = Some c -> left_alone c = true.
Proof.
  intros Ef Hw. unfold carry_plan. rewrite Ef. destruct (r_meta x) as [sm|] eqn:Em; [|discriminate].
  intros [= <-]. unfold left_alone. cbn [cp_sel cp_addr].
  assert (Hd : digest_diff r x (cfg_algo r) (match c_tob o with Some t => t | None => cfg_tob r end) = DActualMissing).
  { unfold digest_diff. assert (Hp : r_path x = p) by (apply find_path_In in Ef; tauto).
    rewrite Hp. unfold ws_meta. rewrite Hw, Em. destruct sm as [s0 m0]. reflexivity. }
  rewrite Hd. cbn. now rewrite orb_true_r.
Qed.

(* content committed for a path that is missing from the workspace stays committed through an unforced carry-in that
   names it (and any other targets), once P49 is repaired; the command is not stopped by it *)
Theorem carry_in_keeps_missing_target fx o r ps p c : fixed_P49 fx = true -> reachable_x fx r ->
  K_item_x fx r (XCarryIn o ps) = false -> c_force o = false ->
  committed r p c -> wget (fs r) p = None ->
  committed (fst (do_item_x fx r (XCarryIn o ps))) p c.
Proof.
  intros H49 Hr G Hf (e & x & d & Ef & Hm & Hd & Hrd) Hw.
  destruct (reachable_x_INV fx r Hr) as [I _]. pose proof I as [F R].
  pose proof (item_clean_x fx r _ Hr G) as U.
  destruct (item_spec_x fx r (XCarryIn o ps) I U) as ([F' R'] & _ & M & _ & _).
  destruct (M (proj2 (negb_true_iff _) Hf)) as [M1 M2].
  assert (Hr' : obj_read (fs (fst (do_item_x fx r (XCarryIn o ps)))) (cache_addr p d) = Some c).
  { apply (obj_read_spec _ _ _ F) in Hrd. destruct Hrd as (i & n & Ho & Hi & <-).
    destruct (M2 _ i n Ho Hi) as (i' & n' & K1 & K2 & K3). apply obj_read_spec; eauto. }
  assert (V : find_path (recs (fst (do_item_x fx r (XCarryIn o ps)))) p = find_path (recs r) p).
  { cbn [do_item_x]. unfold carry_in_cmd_x.
    destruct (negb (fixed_P49 fx) && existsb left_alone (plans o r ps)) eqn:Eg; [rewrite H49 in Eg; discriminate Eg|].
    destruct (carry_phase_x fx (fs r) (plans o r ps) (c_force o) []) as [f1 oc].
    destruct oc; try reflexivity. cbn [fst]. fold (recorded fx (plans o r ps)).
    destruct (record_phase_spec (recorded fx (plans o r ps)) (set_fs r f1) (RI_set_fs r f1 R)) as (B1 & B2 & B3 & B4).
    { intros c0 Hin. apply recorded_sub in Hin. pose proof (plans_rec o r ps c0 Hin) as Hf0.
      apply (find_path_spec r _ _ _ R) in Hf0. destruct Hf0 as [Hg Hp]. exists (cp_rec c0). auto. }
    rewrite B4; [reflexivity|].
    intros Hin. unfold paths_of in Hin. apply in_map_iff in Hin. destruct Hin as (c0 & Hp0 & Hc0).
    unfold recorded in Hc0. rewrite H49 in Hc0. apply filter_In in Hc0. destruct Hc0 as [Hc0 Hla].
    destruct (plans_plan o r ps c0 Hc0) as [p0 Hp0'].
    destruct (carry_plan_rec o r p0 c0 Hp0') as [_ E0]. assert (Ep : p0 = p) by congruence. rewrite Ep in Hp0'.
    rewrite (missing_plan_left_alone o r p c0 e x Ef Hw Hp0') in Hla. discriminate. }
  exists e, x, d. rewrite V. auto.
Qed.

(* ---- 13. P43: track --recheck-method m on a tracked path whose content did not change ------------------------------------ *)
(* the class of the finding: the method is given explicitly, the target is tracked, its content is not committed by
   the command (track makes no carry_in call for it), and the repair is not in *)
Definition K_track_unchanged (fx : fixes) (o : track_opts) (r : repo) (p : path) : bool :=
  negb (fixed_P43 fx) &&
  match t_method o, find_path (recs r) p, track_call o (walked_of [p]) r p with Some _, Some _, None => true | _, _, _ => false end.
Lemma track_unchanged_class_empty_when_fixed fx o r p : fixed_P43 fx = true -> K_track_unchanged fx o r p = false.
Proof. intros H. unfold K_track_unchanged. now rewrite H. Qed.

Lemma worst_ok_r o : worst o Ok = o.
Proof. destruct o; reflexivity. Qed.

Lemma do_track_single_x fx o r p :
  do_item_x fx r (XTrack o [p]) =
  let '(st, oc) := track_one_x fx o (walked_of [p]) (r, []) p in
  match (if fixed_P43 fx then t_method o else None), oc with
  | Some m, Ok | Some m, Err =>
      let '(r2, oc2) := recheck_one {| k_method := Some m; k_force := false |} (fst st) p in (r2, worst oc oc2)
  | _, _ => (fst st, oc)
  end.
Proof.
  cbn [do_item_x each_x each]. fold (walked_of [p]).
  destruct (track_one_x fx o (walked_of [p]) (r, []) p) as [[r1 d1] oc]. cbn [fst snd]. rewrite worst_ok_r.
  destruct (if fixed_P43 fx then t_method o else None) as [m|]; [|reflexivity].
  destruct oc; try reflexivity;
    destruct (recheck_one {| k_method := Some m; k_force := false |} r1 p) as [r2 oc2]; cbn [fst snd]; now rewrite worst_ok_r.
Qed.

(* with the repair: `track --recheck-method m p` on a tracked path p whose entry reads the committed bytes and whose
   recorded method is another one replaces the entry by one of kind m and records m *)
Theorem track_method_unchanged_fixed fx o r p c m e x d :
  fixed_P43 fx = true -> reachable_x fx r -> committed r p c ->
  find_path (recs r) p = Some (e, x) -> r_digest x = Some d -> t_method o = Some m -> m <> r_method x ->
  ws_read (fs r) p = Some c ->
  digest_of (cfg_algo r) (track_tob o r) c = d -> digest_of (cfg_algo r) (r_tob x) c = d ->
  let r' := fst (do_item_x fx r (XTrack o [p])) in
  snd (do_item_x fx r (XTrack o [p])) = Ok /\
  materialised (fs r') p (cache_addr p d) m c /\
  exists x', find_path (recs r') p = Some (e, x') /\ r_method x' = m /\ r_digest x' = Some d.
Proof.
  intros H43 Hr C Ef Hd Hm Hne Hrd Hdig1 Hdig2. cbv zeta.
  destruct (reachable_x_INV fx r Hr) as [I _]. pose proof I as [F R].
  destruct (committed_inode r p c I C) as (e0 & x0 & sm & d0 & i & n & Ef0 & Hmeta & Hd0 & Ho & Hi & Hc).
  rewrite Ef in Ef0. injection Ef0 as <- <-. rewrite Hd in Hd0. injection Hd0 as <-.
  pose proof (proj1 (find_path_spec r p e x R) Ef) as [Hg Hp].
  set (w := walked_of [p]).
  (* track makes no carry_in call for p *)
  assert (Hcall : track_call o w r p = None).
  { rewrite track_call_eq. unfold track_one_call. cbv zeta. destruct (w && _); [reflexivity|].
    destruct (ws_meta (fs r) p) as [sm'|] eqn:Ewm; [|reflexivity]. rewrite Ef.
    destruct (meta_eqb (r_meta x) (Some sm')) eqn:Eme; [reflexivity|].
    unfold digest_diff. rewrite Hp, Ewm, Eme, Hrd, Hd, Hdig1, digest_eqb_refl. reflexivity. }
  rewrite do_track_single_x. fold w. rewrite H43, Hm.
  destruct (track_one_x_facts fx o w r [] p R) as (S1 & S2 & S3 & S4). rewrite Hcall in S4. destruct S4 as (Efs & Eoc & _).
  (* the record of p after the track part: same digest, same method, text-or-binary the old or the requested one *)
  assert (Rec : exists x1 sm1, find_path (recs (fst (fst (track_one_x fx o w (r, []) p)))) p = Some (e, x1) /\
                  r_meta x1 = Some sm1 /\ r_digest x1 = Some d /\ r_method x1 = r_method x /\
                  (r_tob x1 = r_tob x \/ r_tob x1 = track_tob o r) /\ snd (track_one_x fx o w (r, []) p) = Ok).
  { unfold track_one_x. rewrite Hcall, H43. unfold track_one. cbv zeta.
    change (match wget (fs r) p with Some (ELink _) => true | _ => false end) with (is_link_entry (fs r) p).
    fold (track_method o r). fold (track_tob o r).
    assert (Same : exists x1 sm1, find_path (recs (keep_method r r p)) p = Some (e, x1) /\ r_meta x1 = Some sm1 /\
                     r_digest x1 = Some d /\ r_method x1 = r_method x /\ (r_tob x1 = r_tob x \/ r_tob x1 = track_tob o r) /\ Ok = Ok).
    { unfold keep_method. rewrite Ef. assert (Hme : method_eqb (r_method x) (r_method x) = true) by (destruct (r_method x); reflexivity).
      rewrite Hme, andb_false_r. exists x, sm. rewrite Ef. auto 10. }
    destruct (w && is_link_entry (fs r) p); [cbn [fst snd]; exact Same|].
    destruct (ws_meta (fs r) p) as [sm'|] eqn:Ewm; [|cbn [fst snd]; exact Same]. rewrite Ef.
    destruct (meta_eqb (r_meta x) (Some sm')) eqn:Eme; [cbn [fst snd]; exact Same|].
    assert (Edd : digest_diff r x (cfg_algo r) (track_tob o r) = DIdentical).
    { unfold digest_diff. rewrite Hp, Ewm, Eme, Hrd, Hd, Hdig1, digest_eqb_refl. reflexivity. }
    rewrite Edd. cbn [fst snd].
    set (x1 := {| r_path := p; r_meta := Some sm'; r_digest := r_digest x; r_hist := r_hist x; r_method := track_method o r; r_tob := track_tob o r |}).
    assert (Hx1 : r_path x1 = r_path x) by (cbn; congruence).
    assert (Ef1 : find_path (recs (rput r e x1)) p = Some (e, x1)) by (rewrite <- Hp at 1; now apply find_path_rput_same).
    unfold keep_method. rewrite Ef, Ef1.
    assert (Hde : digest_opt_eqb (r_digest x) (r_digest x1) = true) by (cbn; rewrite Hd; cbn; apply digest_eqb_refl).
    rewrite Hde. cbn [andb].
    destruct (method_eqb (r_method x) (r_method x1)) eqn:Emm; cbn [negb].
    - exists x1, sm'. rewrite Ef1. destruct (method_eqb_spec (r_method x) (r_method x1)) as [Eq|]; [|discriminate].
      split; [auto|split; [auto|split; [exact Hd|split; [congruence|split; [now right|reflexivity]]]]].
    - set (x2 := {| r_path := r_path x1; r_meta := r_meta x1; r_digest := r_digest x1; r_hist := r_hist x1; r_method := r_method x; r_tob := r_tob x1 |}).
      assert (R1 : RI (rput r e x1)) by (eapply RI_put_existing; eauto).
      assert (Hg1 : rget (rput r e x1) e = Some x1) by (rewrite rget_rput; now rewrite N.eqb_refl).
      pose proof (find_path_rput_same (rput r e x1) e x1 x2 R1 Hg1 eq_refl) as Ef2.
      exists x2, sm'. split; [exact Ef2|]. split; [reflexivity|split; [exact Hd|split; [reflexivity|split; [now right|reflexivity]]]]. }
  destruct Rec as (x1 & sm1 & Ef1 & Hm1 & Hd1 & Hmeth1 & Htob & Hoc1).
  assert (U : mon_track_one_x fx (unclean_x fx) o w (r, []) p = false) by (unfold mon_track_one_x; cbn [fst]; now rewrite Hcall).
  destruct (track_one_x_step fx o w r [] p I U) as (I1 & _).
  destruct (track_one_x fx o w (r, []) p) as [[r1 d1] oc1]. cbn [fst snd] in *.
  set (o' := {| k_method := Some m; k_force := false |}).
  assert (Hp1 : r_path x1 = p) by (apply find_path_In in Ef1; tauto).
  assert (Hcfg : cfg_algo r1 = cfg_algo r) by (destruct S2 as (-> & _); reflexivity).
  assert (Hsel : recheck_selected o' r1 x1 = true).
  { apply selected_method; [cbn; congruence|]. intros d' Hdd.
    unfold digest_diff in Hdd. rewrite Hp1, Efs, Hcfg in Hdd.
    destruct (meta_eqb (r_meta x1) (ws_meta (fs r) p)); [discriminate|].
    destruct (ws_meta (fs r) p); [|discriminate]. rewrite Hrd, Hd1 in Hdd.
    assert (Hdig : digest_of (cfg_algo r) (r_tob x1) c = d) by (destruct Htob as [-> | ->]; auto).
    rewrite Hdig, digest_eqb_refl in Hdd. discriminate. }
  assert (Ho1 : oget (fs r1) (cache_addr p d) = Some (EFile i)) by now rewrite Efs.
  assert (Hi1 : iget (fs r1) i = Some n) by now rewrite Efs.
  assert (Hnd : no_dangling (fs r1) p) by (rewrite Efs; apply (ws_read_nodangling _ _ _ Hrd)).
  destruct (recheck_one_ok o' r1 p e x1 sm1 d i n I1 Ef1 Hm1 Hd1 Ho1 Hi1 Hsel Hnd) as (K1 & K2 & K3).
  subst oc1. fold o'. destruct (recheck_one o' r1 p) as [r2 oc2]. cbn [fst snd] in *. subst oc2 c.
  split; [reflexivity|split; [exact K2|]].
  exists (with_method x1 m). split; [exact K3|split; [reflexivity|exact Hd1]].
Qed.
