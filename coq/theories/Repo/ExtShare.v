(* The repair of P3 (copy / move to a destination with another extension): Ext.share_object puts the content at
   the cache address of the destination before any record changes.  What sharing preserves (the invariant FI of
   Repo/Inv.v, every existing object, the workspace) and what it establishes (the destination's address holds
   the bytes of the source's object). *)
From Coq Require Import List Bool NArith Lia.
From XV Require Import Base.Amap Base.Bytes Repo.Model Repo.Proofs Repo.Inv Glob.Match Repo.Ext Repo.ExtProofs.
Import ListNotations.

(* ---- one object ------------------------------------------------------------------------------------------------ *)
Lemma share_object_unfold f s p d :
  share_object f s p d =
  if obj_exists f (cache_addr p d) then f
  else match obj_read f (cache_addr s d) with
       | None => f
       | Some c => dput (oput (alloc (tick f) (mk_inode c false (clock (tick f)))) (cache_addr p d) (EFile (next_ino f))) d false
       end.
Proof. reflexivity. Qed.

Lemma share_object_FI f s p d : FI f -> FI (share_object f s p d).
Proof.
  intros F. rewrite share_object_unfold.
  destruct (obj_exists f (cache_addr p d)) eqn:EX; [exact F|].
  destruct (obj_read f (cache_addr s d)) as [c|] eqn:RD; [|exact F].
  apply FI_dput.
  assert (FA : FI (alloc (tick f) (mk_inode c false (clock (tick f))))) by (apply FI_alloc, FI_tick, F).
  eapply FI_oput; [exact FA| | | |].
  - change (next_ino f) with (next_ino (tick f)). apply iget_alloc_new.
  - reflexivity.
  - cbn [i_bytes mk_inode a_digest cache_addr]. exact (FI_cas f (cache_addr s d) c F RD).
  - intros b _ H. destruct (fi_obj FA b _ H) as (i & n & E & Hi & _). injection E as <-.
    unfold alloc in H. autorewrite with fsdb in H.
    destruct (fi_obj F b _ H) as (i & n' & E & Hi' & _). injection E as <-.
    apply (fi_bound F) in Hi'. lia.
Qed.

(* what sharing leaves alone *)
Record grows (f f' : fsys) : Prop := {
  gr_ws : ws f' = ws f;
  gr_obj : forall a e, oget f a = Some e -> oget f' a = Some e;
  gr_ino : forall i n, iget f i = Some n -> iget f' i = Some n;
  gr_next : (next_ino f <= next_ino f')%N
}.
Lemma grows_refl f : grows f f.
Proof. constructor; auto; lia. Qed.
Lemma grows_trans f g h : grows f g -> grows g h -> grows f h.
Proof. intros [A B C D] [A' B' C' D']; constructor; auto; try congruence; lia. Qed.

Lemma share_object_grows f s p d : FI f -> grows f (share_object f s p d).
Proof.
  intros F. rewrite share_object_unfold.
  destruct (obj_exists f (cache_addr p d)) eqn:EX; [apply grows_refl|].
  destruct (obj_read f (cache_addr s d)) as [c|] eqn:RD; [|apply grows_refl].
  pose proof (obj_exists_false f _ F EX) as NO.
  constructor.
  - reflexivity.
  - intros a e H. unfold alloc. autorewrite with fsdb.
    destruct (caddr_eqb_spec (cache_addr p d) a) as [<-|NE]; [congruence|exact H].
  - intros i n H. unfold alloc. autorewrite with fsdb.
    destruct (N.eqb_spec (next_ino f) i) as [<-|NE]; [apply (fi_bound F) in H; lia|exact H].
  - unfold alloc. autorewrite with fsdb. lia.
Qed.

Lemma grows_holds f f' a c : grows f f' -> holds f a c -> holds f' a c.
Proof. intros G (i & n & Ho & Hi & Hb). exists i, n. split; [apply (gr_obj _ _ G); auto|split; [apply (gr_ino _ _ G); auto|auto]]. Qed.
Lemma grows_wget f f' p : grows f f' -> wget f' p = wget f p.
Proof. intros G. unfold wget. now rewrite (gr_ws _ _ G). Qed.

(* what it establishes: afterwards the destination's address has an object; if it had none before, the new one
   holds exactly the bytes of the source's *)
Lemma share_object_holds f s p d c :
  FI f -> holds f (cache_addr s d) c ->
  exists c', holds (share_object f s p d) (cache_addr p d) c' /\
             (obj_exists f (cache_addr p d) = false -> c' = c /\ oget f (cache_addr p d) = None).
Proof.
  intros F H. rewrite share_object_unfold.
  destruct (obj_exists f (cache_addr p d)) eqn:EX.
  - apply (obj_exists_spec f _ F) in EX. destruct (oget f (cache_addr p d)) as [e|] eqn:O; [|congruence].
    destruct (fi_obj F _ _ O) as (i & n & -> & Hi & _). exists (i_bytes n). split; [exists i, n; auto|discriminate].
  - rewrite (holds_obj_read _ _ _ H). exists c. split; [|intros _; split; [reflexivity|apply (obj_exists_false f _ F EX)]].
    exists (next_ino f), (mk_inode c false (clock (tick f))). unfold alloc. autorewrite with fsdb.
    destruct (caddr_eqb_spec (cache_addr p d) (cache_addr p d)); [|congruence].
    rewrite N.eqb_refl. auto.
Qed.

(* the new objects are at the destination's address only *)
Lemma share_object_new f s p d a :
  oget (share_object f s p d) a <> None -> oget f a <> None \/ (a = cache_addr p d /\ obj_exists f (cache_addr s d) = true).
Proof.
  rewrite share_object_unfold.
  destruct (obj_exists f (cache_addr p d)) eqn:EX; [auto|].
  destruct (obj_read f (cache_addr s d)) as [c|] eqn:RD; [|auto].
  unfold alloc. autorewrite with fsdb.
  destruct (caddr_eqb_spec (cache_addr p d) a) as [<-|NE]; [|auto].
  intros _. right. split; auto. unfold obj_read in RD. unfold obj_exists.
  destruct (oget f (cache_addr s d)) as [e|]; [|discriminate]. unfold read_entry in RD.
  destruct (resolve f link_fuel e); [reflexivity|discriminate].
Qed.

(* ---- folds ------------------------------------------------------------------------------------------------------ *)
Lemma share_pair_FI f c : FI f -> FI (share_pair f c).
Proof. intros F. unfold share_pair. destruct (r_digest (cs_rec c)); auto using share_object_FI. Qed.
Lemma share_pair_grows f c : FI f -> grows f (share_pair f c).
Proof. intros F. unfold share_pair. destruct (r_digest (cs_rec c)); auto using share_object_grows, grows_refl. Qed.
Lemma share_pairs_spec plan : forall f, FI f -> FI (fold_left share_pair plan f) /\ grows f (fold_left share_pair plan f).
Proof.
  induction plan as [|c t IH]; intros f F; cbn [fold_left]; [auto using grows_refl|].
  destruct (IH (share_pair f c) (share_pair_FI f c F)) as (A & B). split; auto.
  eapply grows_trans; [apply share_pair_grows; auto|exact B].
Qed.

Lemma share_hist_spec s p l : forall f, FI f ->
  FI (fold_left (fun f dg => share_object f s p dg) l f) /\ grows f (fold_left (fun f dg => share_object f s p dg) l f).
Proof.
  induction l as [|d t IH]; intros f F; cbn [fold_left]; [auto using grows_refl|].
  destruct (IH (share_object f s p d) (share_object_FI f s p d F)) as (A & B). split; auto.
  eapply grows_trans; [apply share_object_grows; auto|exact B].
Qed.
Lemma share_moved_spec f ed : FI f -> FI (share_moved f ed) /\ grows f (share_moved f ed).
Proof. destruct ed as [[e x] d]. intros F. unfold share_moved. apply share_hist_spec; auto. Qed.
Lemma share_moves_spec l : forall f, FI f -> FI (fold_left share_moved l f) /\ grows f (fold_left share_moved l f).
Proof.
  induction l as [|ed t IH]; intros f F; cbn [fold_left]; [auto using grows_refl|].
  destruct (share_moved_spec f ed F) as (F1 & G1).
  destruct (IH _ F1) as (A & B). split; auto. eapply grows_trans; eauto.
Qed.

(* ---- the file-system invariant through the file-system effects of copy and move (used by Repo/ExtReach.v) ---- *)
Lemma FI_wf_fs f : FI f -> wf_fs f.
Proof. intros F i n H. exact (fi_bound F i n H). Qed.
Lemma recheck_dests_FI : forall ps r r' oc, FI (xfs r) -> recheck_dests r ps = (r', oc) -> FI (xfs r').
Proof.
  induction ps as [|p t IH]; intros r r' oc F; cbn [recheck_dests].
  - intros E; injection E as <- <-; auto.
  - destruct (find_path (recs (base r)) p) as [[e x]|]; [|intros E; injection E as <- <-; auto].
    destruct (r_digest x) as [d|]; [|intros E; injection E as <- <-; auto].
    pose proof (proj1 (rfc_spec (xfs r) p (cache_addr p d) (r_method x) F)) as F1.
    destruct (recheck_from_cache (xfs r) p (cache_addr p d) (r_method x)) as [f1 [| |]]; cbn [fst] in F1.
    + apply IH. exact F1.
    + intros E; injection E as <- <-; exact F1.
    + intros E; injection E as <- <-; exact F1.
Qed.

Lemma FI_wput_entry f s d en : FI f -> wget f s = Some en -> FI (wput (wdel f s) d en).
Proof.
  intros F G. destruct en as [i|a].
  - apply FI_wput_file; [apply FI_wdel; auto|]. exact (fi_ws F s i G).
  - apply FI_wput_link. apply FI_wdel; auto.
Qed.

Lemma move_loop_FI fl o : forall l f ups rechk f' res,
  FI f -> move_loop fl o f l ups rechk = (f', res) -> FI f'.
Proof.
  induction l as [|[[e x] d] t IH]; intros f ups rechk f' res F; cbn [move_loop].
  - intros E; injection E as <- <-. auto.
  - assert (G : forall f1 u k, FI f1 -> move_loop fl o f1 t u k = (f', res) -> FI f') by (intros; eapply IH; eauto).
    destruct (r_method x) eqn:SM; destruct (match m_as o with Some m => m | None => _ end) eqn:DM;
      try (destruct (ws_exists f (r_path x)); apply G; auto using FI_wdel).
    destruct (beqb (r_path x) d); [apply G; auto|].
    destruct (fixed_mv_absent fl && negb (ws_exists f (r_path x))); [apply G; auto|].
    destruct (wget f (r_path x)) as [en|] eqn:W; [|intros E; injection E as <- <-; auto].
    destruct (m_no_recheck o); apply G; auto using FI_wdel, FI_wput_entry.
Qed.

(* the file-system invariant through copy_apply and move_apply *)
Lemma copy_apply_FI o r plan sk r' oc :
  FI (xfs r) -> wf_recs (base r) -> NoDup (map cd_path plan) -> (forall c, In c plan -> plan_acc (recs (base r)) c) ->
  copy_apply o r plan sk = (r', oc) -> FI (xfs r').
Proof.
  intros F Wr C A E. unfold copy_apply in E.
  destruct (copy_records_spec o plan r Wr C A) as (_ & F1 & _).
  destruct (c_no_recheck o).
  - injection E as <- _. rewrite F1. exact F.
  - destruct (recheck_dests (fold_left (copy_records_one o) plan r) (map cd_path plan)) as [r2 oc2] eqn:RD. injection E as <- _.
    eapply recheck_dests_FI; [|exact RD]. rewrite F1. exact F.
Qed.

Lemma move_apply_FI fl o r l r' oc :
  FI (xfs r) -> wf_recs (base r) -> move_plan_ok r l -> move_apply fl o r l = (r', oc) -> FI (xfs r').
Proof.
  intros F Wr OKP E.
  unfold move_apply in E. destruct Wr as [K P Fr]. destruct OKP as [MI MN MJ MD].
  destruct (move_paths_spec l r K MD) as (K1 & F1 & _).
  destruct (move_loop fl o (xfs (fold_left move_path_one l r)) l [] []) as [f2 res] eqn:ML.
  assert (F2 : FI f2) by (eapply move_loop_FI; [|exact ML]; rewrite F1; exact F).
  destruct res as [[ups rechk]|]; [|injection E as <- _; exact F2].
  destruct (set_methods_spec ups (base (set_xfs (fold_left move_path_one l r) f2)) K1) as (_ & F3 & _).
  destruct (m_no_recheck o).
  - injection E as <- _. change (FI (fs (fold_left set_method ups (base (set_xfs (fold_left move_path_one l r) f2))))). rewrite F3. exact F2.
  - eapply recheck_dests_FI; [|exact E].
    change (FI (fs (fold_left set_method ups (base (set_xfs (fold_left move_path_one l r) f2))))). rewrite F3. exact F2.
Qed.


(* ---- the records through move ---- *)
Lemma wf_recs_same_paths b b' :
  NoDup (keys (recs b')) -> next_ent b' = next_ent b ->
  (forall k v', In (k, v') (recs b') -> exists v, In (k, v) (recs b) /\ r_path v' = r_path v) ->
  wf_recs b -> wf_recs b'.
Proof.
  intros K' NX C [K P F]. constructor; auto.
  - intros e1 x1 e2 x2 I1 I2 E. destruct (C _ _ I1) as (v1 & J1 & P1). destruct (C _ _ I2) as (v2 & J2 & P2).
    eapply P; eauto. congruence.
  - intros e x I. destruct (C _ _ I) as (v & J & _). rewrite NX. eauto.
Qed.

Lemma move_apply_wf fl o r l r' oc :
  wf_fs (xfs r) -> wf_recs (base r) -> move_plan_ok r l -> move_apply fl o r l = (r', oc) -> wf_recs (base r').
Proof.
  intros Wf [K P F] [MI MN MJ MD]. unfold move_apply.
  destruct (move_paths_spec l r K MD) as (K1 & F1 & N1 & C1 & L1).
  set (r1 := fold_left move_path_one l r) in *.
  assert (W1 : wf_recs (base r1)).
  { constructor; auto.
    - intros k1 v1 k2 v2 I1 I2 E. apply C1 in I1. apply C1 in I2.
      destruct I1 as [(x1 & d1 & J1 & ->)|[N1' J1]], I2 as [(x2 & d2 & J2 & ->)|[N2' J2]].
      + cbn in E. eapply MJ; eauto.
      + exfalso. cbn in E. eapply (stored_false_no_record r d1); [eapply MN; eauto|exact J2|congruence].
      + exfalso. cbn in E. eapply (stored_false_no_record r d2); [eapply MN; eauto|exact J1|congruence].
      + eapply P; eauto.
    - intros k v I. apply C1 in I. destruct I as [(x & d & J & ->)|[_ J]].
      + apply MI in J. apply F in J. lia.
      + apply F in J. lia. }
  destruct (move_loop fl o (xfs r1) l [] []) as [f2 res] eqn:ML.
  destruct res as [[ups rechk]|].
  - destruct (set_methods_spec ups (base (set_xfs r1 f2))) as (K3 & F3 & N3 & L3 & B3 & C3); [exact K1|].
    set (r3 := set_base (set_xfs r1 f2) (fold_left set_method ups (base (set_xfs r1 f2)))) in *.
    assert (W3 : wf_recs (base r3)).
    { apply (wf_recs_same_paths (base r1)); auto.
      intros k v' I. destruct (B3 k v' I) as (v & J & (SP & _)). eauto. }
    destruct (m_no_recheck o).
    + intros E; injection E as <- <-. exact W3.
    + intros E.
      assert (Wf3 : wf_fs (xfs r3)).
      { assert (X3 : xfs r3 = f2) by (unfold r3, xfs; cbn [base set_base]; rewrite F3; reflexivity).
        rewrite X3. assert (Wf1 : wf_fs (xfs r1)) by (rewrite F1; auto).
        pose proof (ws_only_frame _ _ Wf1 (move_loop_ws_only fl o _ _ _ _ _ _ ML)) as FR. destruct FR; auto. }
      destruct (recheck_dests_spec _ _ _ _ Wf3 E) as (R4 & N4 & _).
      apply (wf_recs_ext (base r3)); auto. lia.
  - intros E; injection E as <- <-. apply (wf_recs_ext (base r1)); auto. cbn. lia.
Qed.


(* ---- sharing along a plan --------------------------------------------------------------------------------------- *)
Lemma holds_fits f a c : FI f -> holds f a c -> fits (a_digest a) c.
Proof. intros F H. exact (FI_cas f a c F (holds_obj_read _ _ _ H)). Qed.

Lemma share_pairs_holds plan : forall f, FI f ->
  forall c dg b, In c plan -> r_digest (cs_rec c) = Some dg -> holds f (cache_addr (r_path (cs_rec c)) dg) b ->
  exists b', holds (fold_left share_pair plan f) (cache_addr (cd_path c) dg) b'.
Proof.
  induction plan as [|c0 t IH]; intros f F c dg b I RD H; [destruct I|]. cbn [fold_left].
  pose proof (share_pair_FI f c0 F) as F1. pose proof (share_pair_grows f c0 F) as G1.
  destruct I as [<-|I].
  - unfold share_pair in *. rewrite RD in *.
    destruct (share_object_holds f (r_path (cs_rec c0)) (cd_path c0) dg b F H) as (b' & H' & _).
    exists b'. destruct (share_pairs_spec t _ F1) as (_ & G). eapply grows_holds; eauto.
  - eapply IH; eauto. eapply grows_holds; eauto.
Qed.

Lemma share_pairs_new plan : forall f a,
  oget (fold_left share_pair plan f) a <> None ->
  oget f a <> None \/ exists c dg, In c plan /\ r_digest (cs_rec c) = Some dg /\ a = cache_addr (cd_path c) dg.
Proof.
  induction plan as [|c0 t IH]; intros f a H; cbn [fold_left] in H; [auto|].
  destruct (IH _ _ H) as [H1|(c & dg & I & RD & ->)].
  - unfold share_pair in H1. destruct (r_digest (cs_rec c0)) as [dg|] eqn:RD; [|auto].
    destruct (share_object_new _ _ _ _ _ H1) as [|(-> & _)]; [auto|]. right. exists c0, dg. split; [now left|auto].
  - right. exists c, dg. split; [now right|auto].
Qed.

(* copy_apply, read at the address of the DESTINATION (no hypothesis on the extensions) *)
Lemma copy_apply_dest o r plan skipped r' oc :
  wf_fs (xfs r) -> wf_recs (base r) -> NoDup (map cd_path plan) ->
  (forall c, In c plan -> plan_acc (recs (base r)) c) ->
  copy_apply o r plan skipped = (r', oc) ->
  forall c, In c plan -> exists e y, In (e, y) (recs (base r')) /\ copied_as o (cs_rec c) y (cd_path c) /\
    forall dg b, r_digest (cs_rec c) = Some dg -> holds (xfs r) (cache_addr (cd_path c) dg) b ->
      c_no_recheck o = false -> oc <> Panic -> ws_read (xfs r') (cd_path c) = Some b.
Proof.
  intros Wf Wr ND A. unfold copy_apply.
  destruct (copy_records_spec o plan r Wr ND A) as (W1 & F1 & C1 & O1).
  set (r1 := fold_left (copy_records_one o) plan r) in *.
  destruct (c_no_recheck o) eqn:NR.
  - intros E; injection E as <- <-. intros c I. destruct (C1 c I) as (e & y & IN & CA). exists e, y.
    split; [exact IN|]. split; [exact CA|]. intros; discriminate.
  - destruct (recheck_dests r1 (map cd_path plan)) as [r2 oc2] eqn:RDs. intros E; injection E as <- <-.
    assert (Wf1 : wf_fs (xfs r1)) by (rewrite F1; auto).
    destruct (recheck_dests_spec _ _ _ _ Wf1 RDs) as (R & NX & DS & FR & WS & RD).
    intros c I. destruct (C1 c I) as (e & y & IN & CA). exists e, y. rewrite R.
    split; [exact IN|]. split; [exact CA|]. intros dg b RDG H _ NP.
    destruct (recheck_dests_oc _ _ _ _ RDs) as [-> | ->]; [|destruct skipped; cbn in NP; congruence].
    destruct CA as (EP & DG & _).
    eapply (RD eq_refl ND (cd_path c) e y dg b); [now apply in_map| apply find_path_unique; auto| auto|].
    rewrite F1. exact H.
Qed.

(* ---- copy with the repair ---------------------------------------------------------------------------------------- *)
(* the destination of a planned pair after the command: recorded with the source's digest, text-or-binary flag,
   metadata and method; its OWN address holds bytes b' with the same normal form as the source's committed bytes b
   (equal to b when the command made the object), and unless --no-recheck or a panic the destination reads b' *)
Definition copy_result3 (o : copy_opts) (r r' : xrepo) (oc : outcome) (c : cpair) : Prop :=
  exists e y, In (e, y) (recs (base r')) /\ copied_as o (cs_rec c) y (cd_path c) /\
  forall dg b, r_digest (cs_rec c) = Some dg -> holds (xfs r) (cache_addr (r_path (cs_rec c)) dg) b ->
    exists b', holds (xfs r') (cache_addr (cd_path c) dg) b' /\ strip_crlf b' = strip_crlf b /\
               (c_no_recheck o = false -> oc <> Panic -> ws_read (xfs r') (cd_path c) = Some b').

Lemma copy_cmd3_refused fl o src dst r plan sk :
  fixed_P3 fl = true -> copy_plan o src dst r = CPlanned plan sk -> copy_unavailable o r plan = true ->
  copy_cmd3 fl o src dst r = (r, Err).
Proof. intros P3 PL U. unfold copy_cmd3. now rewrite PL, P3, U. Qed.

Lemma copy_cmd3_as_is fl o src dst r : fixed_P3 fl = false -> copy_cmd3 fl o src dst r = copy_cmd o src dst r.
Proof. intros P3. unfold copy_cmd3, copy_cmd. destruct (copy_plan o src dst r); [reflexivity|]. now rewrite P3. Qed.

Theorem copy_cmd3_spec fl o src dst r r' oc plan sk :
  fixed_P3 fl = true -> FI (xfs r) -> wf_recs (base r) ->
  copy_plan o src dst r = CPlanned plan sk -> NoDup (map cd_path plan) -> copy_unavailable o r plan = false ->
  copy_cmd3 fl o src dst r = (r', oc) ->
  (forall a e, oget (xfs r) a = Some e -> oget (xfs r') a = Some e) /\
  (forall a b, holds (xfs r) a b -> holds (xfs r') a b) /\
  (forall a, oget (xfs r') a <> None -> oget (xfs r) a <> None \/
     exists c dg, In c plan /\ r_digest (cs_rec c) = Some dg /\ a = cache_addr (cd_path c) dg) /\
  FI (xfs r') /\ wf_recs (base r') /\
  forall c, In c plan -> copy_result3 o r r' oc c.
Proof.
  intros P3 F Wr PL ND U. unfold copy_cmd3. rewrite PL, P3, U.
  destruct (share_pairs_spec plan (xfs r) F) as (FS & GS).
  set (fs_s := fold_left share_pair plan (xfs r)) in *. set (rs := set_xfs r fs_s).
  assert (Ws : wf_recs (base rs)) by (apply (wf_recs_ext (base r)); auto; cbn; lia).
  assert (As : forall c, In c plan -> plan_acc (recs (base rs)) c)
    by (intros c I; exact (proj1 (copy_plan_pairs _ _ _ _ _ _ PL c I))).
  assert (Xs : xfs rs = fs_s) by reflexivity.
  intros E.
  assert (Wfs : wf_fs (xfs rs)) by (rewrite Xs; apply FI_wf_fs; auto).
  destruct (copy_apply_shares o rs plan sk r' oc Wfs Ws ND As E) as (OB & HO & W' & Wf' & _ & _ & _).
  pose proof (copy_apply_dest o rs plan sk r' oc Wfs Ws ND As E) as DST.
  assert (F' : FI (xfs r')) by exact (copy_apply_FI o rs plan sk r' oc FS Ws ND As E).
  split; [|split; [|split; [|split; [|split]]]]; auto.
  - intros a e H. unfold oget. rewrite OB. apply (gr_obj _ _ GS). exact H.
  - intros a b H. apply HO. rewrite Xs. eapply grows_holds; eauto.
  - intros a H. unfold oget in H. rewrite OB in H. apply share_pairs_new. exact H.
  - intros c I. destruct (DST c I) as (e & y & IN & CA & RD). exists e, y. split; [exact IN|]. split; [exact CA|].
    intros dg b RDG H.
    destruct (share_pairs_holds plan (xfs r) F c dg b I RDG H) as (b' & H').
    exists b'. split; [apply HO; rewrite Xs; exact H'|]. split.
    + apply (fits_same_norm dg); [exact (holds_fits _ _ _ FS H')|exact (holds_fits _ _ _ F H)].
    + intros NR NP. eapply RD; eauto.
Qed.

(* a single pair (the only way a copy changes the extension: a file destination): the object the command
   makes holds exactly the source's bytes *)
Lemma copy_cmd3_single fl o src dst r r' oc c sk dg b :
  fixed_P3 fl = true -> FI (xfs r) -> wf_recs (base r) ->
  copy_plan o src dst r = CPlanned [c] sk -> copy_unavailable o r [c] = false ->
  copy_cmd3 fl o src dst r = (r', oc) ->
  r_digest (cs_rec c) = Some dg -> holds (xfs r) (cache_addr (r_path (cs_rec c)) dg) b ->
  obj_exists (xfs r) (cache_addr (cd_path c) dg) = false ->
  holds (xfs r') (cache_addr (cd_path c) dg) b /\ oget (xfs r) (cache_addr (cd_path c) dg) = None.
Proof.
  intros P3 F Wr PL U. unfold copy_cmd3. rewrite PL, P3, U. cbn [fold_left]. intros E RD H NE.
  set (rs := set_xfs r (share_pair (xfs r) c)) in *.
  assert (FS : FI (xfs rs)) by (apply share_pair_FI; auto).
  assert (Ws : wf_recs (base rs)) by (apply (wf_recs_ext (base r)); auto; cbn; lia).
  assert (ND : NoDup (map cd_path [c])) by (constructor; [intros []|constructor]).
  assert (As : forall c0, In c0 [c] -> plan_acc (recs (base rs)) c0)
    by (intros c0 I; exact (proj1 (copy_plan_pairs _ _ _ _ _ _ PL c0 I))).
  destruct (copy_apply_shares o rs [c] sk r' oc (FI_wf_fs _ FS) Ws ND As E) as (_ & HO & _).
  destruct (share_object_holds (xfs r) (r_path (cs_rec c)) (cd_path c) dg b F H) as (b' & H' & EQ).
  destruct (EQ NE) as (-> & NO). split; [|exact NO]. apply HO.
  change (xfs rs) with (share_pair (xfs r) c). unfold share_pair. rewrite RD. exact H'.
Qed.

(* ---- move with the repair ------------------------------------------------------------------------------------------ *)
Lemma share_hist_holds s p l : forall f, FI f ->
  forall dg b, In dg l -> holds f (cache_addr s dg) b ->
  exists b', holds (fold_left (fun f dg => share_object f s p dg) l f) (cache_addr p dg) b'.
Proof.
  induction l as [|d0 t IH]; intros f F dg b I H; [destruct I|]. cbn [fold_left].
  pose proof (share_object_FI f s p d0 F) as F1. pose proof (share_object_grows f s p d0 F) as G1.
  destruct I as [<-|I].
  - destruct (share_object_holds f s p d0 b F H) as (b' & H' & _).
    exists b'. destruct (share_hist_spec s p t _ F1) as (_ & G). eapply grows_holds; eauto.
  - eapply IH; eauto. eapply grows_holds; eauto.
Qed.

Lemma share_hist_new s p l : forall f a,
  oget (fold_left (fun f dg => share_object f s p dg) l f) a <> None ->
  oget f a <> None \/ exists dg, In dg l /\ a = cache_addr p dg.
Proof.
  induction l as [|d0 t IH]; intros f a H; cbn [fold_left] in H; [auto|].
  destruct (IH _ _ H) as [H1|(dg & I & ->)].
  - destruct (share_object_new _ _ _ _ _ H1) as [|(-> & _)]; [auto|]. right. exists d0. split; [now left|auto].
  - right. exists dg. split; [now right|auto].
Qed.

Lemma share_moves_holds l : forall f, FI f ->
  forall e x d dg b, In (e, x, d) l -> In dg (r_hist x) -> holds f (cache_addr (r_path x) dg) b ->
  exists b', holds (fold_left share_moved l f) (cache_addr d dg) b'.
Proof.
  induction l as [|ed t IH]; intros f F e x d dg b I ID H; [destruct I|]. cbn [fold_left].
  destruct (share_moved_spec f ed F) as (F1 & G1).
  destruct I as [->|I].
  - unfold share_moved in *.
    destruct (share_hist_holds (r_path x) d (rev (r_hist x)) f F dg b (proj1 (in_rev _ _) ID) H) as (b' & H').
    exists b'. destruct (share_moves_spec t _ F1) as (_ & G). eapply grows_holds; eauto.
  - eapply IH; eauto. eapply grows_holds; eauto.
Qed.

Lemma share_moves_new l : forall f a,
  oget (fold_left share_moved l f) a <> None ->
  oget f a <> None \/ exists e x d dg, In (e, x, d) l /\ In dg (r_hist x) /\ a = cache_addr d dg.
Proof.
  induction l as [|[[e0 x0] d0] t IH]; intros f a H; cbn [fold_left] in H; [auto|].
  destruct (IH _ _ H) as [H1|(e & x & d & dg & I & ID & ->)].
  - unfold share_moved in H1. destruct (share_hist_new _ _ _ _ _ H1) as [|(dg & ID & ->)]; [auto|].
    right. exists e0, x0, d0, dg. split; [now left|]. split; [apply in_rev; exact ID|reflexivity].
  - right. exists e, x, d, dg. split; [now right|auto].
Qed.

Lemma move_cmd45_refused3 fl o src dst r l :
  fixed_P3 fl = true -> move_plan src dst r = MPlanned l -> move_unavailable o r l = true ->
  move_cmd45 fl o src dst r = (r, Err).
Proof. intros P3 PL U. unfold move_cmd45. now rewrite PL, P3, U. Qed.

Theorem move_cmd45_spec3 fl o src dst r r' oc l :
  fixed_P3 fl = true -> FI (xfs r) -> wf_recs (base r) ->
  move_plan src dst r = MPlanned l -> move_unavailable o r l = false ->
  move_cmd45 fl o src dst r = (r', oc) ->
  length (recs (base r')) = length (recs (base r)) /\
  (forall a e, oget (xfs r) a = Some e -> oget (xfs r') a = Some e) /\
  (forall a b, holds (xfs r) a b -> holds (xfs r') a b) /\
  (forall a, oget (xfs r') a <> None -> oget (xfs r) a <> None \/
     exists e x d dg, In (e, x, d) l /\ In dg (r_hist x) /\ a = cache_addr d dg) /\
  FI (xfs r') /\ wf_recs (base r') /\
  (forall e x d, In (e, x, d) l -> move_result r r' e x d /\
     forall dg b, In dg (r_hist x) -> holds (xfs r) (cache_addr (r_path x) dg) b ->
       exists b', holds (xfs r') (cache_addr d dg) b' /\ strip_crlf b' = strip_crlf b) /\
  (oc = Ok -> forall e x d, In (e, x, d) l -> ws_exists (xfs r') (r_path x) = false).
Proof.
  intros P3 F Wr PL U. unfold move_cmd45. rewrite PL, P3, U.
  destruct (share_moves_spec l (xfs r) F) as (FS & GS).
  set (fs_s := fold_left share_moved l (xfs r)) in *. set (rs := set_xfs r fs_s).
  assert (Ws : wf_recs (base rs)) by (apply (wf_recs_ext (base r)); auto; cbn; lia).
  pose proof (move_plan_is_ok src dst r l Wr PL) as OKP.
  assert (OKs : move_plan_ok rs l) by (destruct OKP as [MI MN MJ MD]; constructor; auto).
  assert (Xs : xfs rs = fs_s) by reflexivity.
  assert (Wfs : wf_fs (xfs rs)) by (rewrite Xs; apply FI_wf_fs; auto).
  intros E.
  destruct (move_apply_spec fl o rs l r' oc Wfs Ws OKs E) as (LEN & OB & HO & RES & ABS).
  pose proof (move_apply_FI fl o rs l r' oc FS Ws OKs E) as F'.
  split; [exact LEN|]. split; [|split; [|split; [|split; [|split; [|split]]]]]; auto.
  - intros a e H. unfold oget. rewrite OB. apply (gr_obj _ _ GS). exact H.
  - intros a b H. apply HO. rewrite Xs. eapply grows_holds; eauto.
  - intros a H. unfold oget in H. rewrite OB in H. apply share_moves_new. exact H.
  - eapply move_apply_wf; eauto.
  - intros e x d I. split; [exact (RES e x d I)|]. intros dg b ID H.
    destruct (share_moves_holds l (xfs r) F e x d dg b I ID H) as (b' & H').
    exists b'. split; [apply HO; rewrite Xs; exact H'|].
    apply (fits_same_norm dg); [exact (holds_fits _ _ _ FS H')|exact (holds_fits _ _ _ F H)].
Qed.
