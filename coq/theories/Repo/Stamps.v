(* Proofs about M-REPO (core), part 4: modification stamps (edits_visible as a THEOREM of the model).
   Every user write, write-through, touch and every copy made by recheck takes a fresh stamp from the
   logical clock; renames, chmods and links keep bytes and stamp.  Hence
   TI : two inodes with the same stamp have the same bytes, and no stamp is ahead of the clock;
   RM : a record whose metadata carries stamp mt and whose digest is d: every inode with stamp mt
        has bytes that fit d  ("metadata equal to the record => content is the recorded content").
   With them the class [misfit] of Repo/Inv.v is empty for reachable repositories, so the only
   excluded class is [relink]; and unforced commands never destroy workspace data (C03). *)
From Coq Require Import List Bool NArith Lia.
From XV Require Import Base.Amap Base.Bytes Repo.Model Repo.Proofs Repo.Inv.
Import ListNotations.

Record TI (f : fsys) : Prop := {
  ti_mt : forall i j n n', iget f i = Some n -> iget f j = Some n' -> i_mt n = i_mt n' -> i_bytes n = i_bytes n';
  ti_cl : forall i n, iget f i = Some n -> (i_mt n <= clock f)%N
}.
Arguments ti_mt {f}. Arguments ti_cl {f}.

(* old inodes keep bytes and stamp, the others carry stamps newer than the old clock *)
Definition R_stamp (f f' : fsys) : Prop :=
  (clock f <= clock f')%N /\
  forall i n', iget f' i = Some n' ->
    (exists n, iget f i = Some n /\ i_bytes n' = i_bytes n /\ i_mt n' = i_mt n) \/ (clock f < i_mt n')%N.

Definition SP (f f' : fsys) : Prop := (TI f -> TI f') /\ R_stamp f f'.

Lemma R_stamp_refl f : R_stamp f f.
Proof. split; [lia|]. intros i n H. left; eauto. Qed.

Lemma R_stamp_trans f g h : R_stamp f g -> R_stamp g h -> R_stamp f h.
Proof.
  intros [C1 A] [C2 B]. split; [lia|]. intros i n2 H2.
  destruct (B _ _ H2) as [(n1 & H1 & E1 & E2)|Hn]; [|right; lia].
  destruct (A _ _ H1) as [(n0 & H0 & F1 & F2)|Hn]; [|right; rewrite E2; lia].
  left. exists n0. split; [auto|split; congruence].
Qed.

Lemma SP_refl f : SP f f.
Proof. split; [auto|apply R_stamp_refl]. Qed.
Lemma SP_trans f g h : SP f g -> SP g h -> SP f h.
Proof. intros [A1 A2] [B1 B2]. split; [auto|eapply R_stamp_trans; eauto]. Qed.

(* same inodes, clock not behind *)
Lemma SP_ext f g : (forall i, iget g i = iget f i) -> (clock f <= clock g)%N -> SP f g.
Proof.
  intros Hi Hc. split.
  - intros [M C]. split.
    + intros i j n n'. rewrite !Hi. apply M.
    + intros i n. rewrite Hi. intros H. apply C in H. lia.
  - split; [auto|]. intros i n'. rewrite Hi. intros H. left; eauto.
Qed.

(* an inode keeps bytes and stamp (chmod) *)
Lemma SP_iput_same f i n n' : iget f i = Some n -> i_bytes n' = i_bytes n -> i_mt n' = i_mt n -> SP f (iput f i n').
Proof.
  intros Hi Hb Hm. split.
  - intros [M C]. split.
    + intros a b na nb. rewrite !iget_iput.
      destruct (N.eqb_spec i a) as [<-|], (N.eqb_spec i b) as [<-|]; intros H1 H2 E.
      * congruence.
      * injection H1 as <-. rewrite Hb. eapply M; eauto. congruence.
      * injection H2 as <-. rewrite Hb. eapply M; eauto. congruence.
      * eapply M; eauto.
    + intros a na. rewrite iget_iput. destruct (N.eqb_spec i a) as [<-|]; [|apply C].
      intros [= <-]. rewrite Hm. cbn. change (clock (iput f i n')) with (clock f). eapply C; eauto.
  - split; [cbn; lia|]. intros a na. rewrite iget_iput. destruct (N.eqb_spec i a) as [<-|].
    + intros [= <-]. left. eauto.
    + intros H. left; eauto.
Qed.

(* an inode (new or existing) gets bytes with the stamp of the ticked clock *)
Lemma SP_iput_fresh f g i c w : (forall j, iget g j = iget f j) -> clock g = N.succ (clock f) ->
  SP f (iput g i {| i_bytes := c; i_w := w; i_mt := clock g |}).
Proof.
  intros Hi Hc. split.
  - intros [M C]. split.
    + intros a b na nb. rewrite !iget_iput, !Hi.
      destruct (N.eqb_spec i a) as [<-|], (N.eqb_spec i b) as [<-|]; intros H1 H2 E.
      * congruence.
      * injection H1 as <-. cbn in E. apply C in H2. lia.
      * injection H2 as <-. cbn in E. apply C in H1. lia.
      * eapply M; eauto.
    + intros a na. rewrite iget_iput, Hi. change (clock (iput g i _)) with (clock g).
      destruct (N.eqb_spec i a) as [<-|].
      * intros [= <-]. cbn. lia.
      * intros H. apply C in H. lia.
  - split; [change (clock (iput g i _)) with (clock g); lia|].
    intros a na. rewrite iget_iput, Hi. destruct (N.eqb_spec i a) as [<-|].
    + intros [= <-]. right. cbn. lia.
    + intros H. left; eauto.
Qed.

(* ---- user actions ------------------------------------------------------------------------------------------ *)
Lemma SP_user_write f p c : SP f (user_write f p c).
Proof.
  rewrite user_write_eq.
  apply SP_trans with (g := alloc (tick f) {| i_bytes := c; i_w := true; i_mt := clock (tick f) |});
    [|apply SP_ext; [intros; reflexivity|cbn; lia]].
  unfold alloc. apply (SP_iput_fresh f (bump (tick f))); [intros; reflexivity|reflexivity].
Qed.

Lemma SP_user_delete f p : SP f (user_delete f p).
Proof. apply SP_ext; [intros; reflexivity|cbn; lia]. Qed.

Lemma SP_user_write_through f p c : SP f (user_write_through f p c).
Proof.
  unfold user_write_through. destruct (wget f p) as [e|]; [|apply SP_user_write].
  destruct (resolve f link_fuel e) as [i|]; [|apply SP_refl].
  destruct (iget f i) as [n|]; [|apply SP_refl]. destruct (i_w n); [|apply SP_refl].
  apply SP_iput_fresh; [intros; reflexivity|reflexivity].
Qed.

Lemma SP_user_touch f p : SP f (user_touch f p).
Proof.
  unfold user_touch. destruct (wget f p) as [[i|a]|]; try apply SP_refl.
  destruct (iget f i) as [n|]; [|apply SP_refl].
  apply (SP_iput_fresh f (tick f) i (i_bytes n) (i_w n)); [intros; reflexivity|reflexivity].
Qed.

(* ---- the primitives ------------------------------------------------------------------------------------------ *)
Lemma SP_mtc f p a : SP f (fst (move_to_cache f p a)).
Proof.
  unfold move_to_cache. destruct (wget f p) as [e|]; [|apply SP_ext; [intros; reflexivity|cbn; lia]].
  cbv zeta. destruct (resolve _ link_fuel e) as [i|]; [|apply SP_ext; [intros; reflexivity|cbn; lia]].
  destruct (iget (oput (wdel f p) a e) i) as [n|] eqn:Hi; [|apply SP_ext; [intros; reflexivity|cbn; lia]].
  cbn [fst].
  apply SP_trans with (g := iput (oput (wdel f p) a e) i {| i_bytes := i_bytes n; i_w := false; i_mt := i_mt n |});
    [|apply SP_ext; [intros; reflexivity|cbn; lia]].
  apply SP_trans with (g := oput (wdel f p) a e); [apply SP_ext; [intros; reflexivity|cbn; lia]|].
  eapply SP_iput_same; eauto.
Qed.

Lemma SP_cleared f p : SP f (cleared f p).
Proof. unfold cleared. destruct (ws_exists f p); [apply SP_ext; [intros; reflexivity|cbn; lia]|apply SP_refl]. Qed.

Lemma SP_rfc f p a m : SP f (fst (recheck_from_cache f p a m)).
Proof.
  rewrite rfc_unfold. cbv zeta.
  assert (Copy_case : forall c, SP f (wput (alloc (tick (cleared f p)) {| i_bytes := c; i_w := true; i_mt := clock (tick (cleared f p)) |}) p
                                          (EFile (next_ino (cleared f p))))).
  { intros c. apply SP_trans with (g := cleared f p); [apply SP_cleared|].
    apply SP_trans with (g := alloc (tick (cleared f p)) {| i_bytes := c; i_w := true; i_mt := clock (tick (cleared f p)) |});
      [|apply SP_ext; [intros; reflexivity|cbn; lia]].
    unfold alloc. apply (SP_iput_fresh (cleared f p) (bump (tick (cleared f p)))); [intros; reflexivity|reflexivity]. }
  assert (Put_case : forall e, SP f (wput (cleared f p) p e)).
  { intros e. apply SP_trans with (g := cleared f p); [apply SP_cleared|apply SP_ext; [intros; reflexivity|cbn; lia]]. }
  destruct m.
  - destruct (obj_read _ a); [|apply SP_cleared]. destruct (wget _ p) as [[|]|]; cbn [fst]; auto using SP_cleared.
  - destruct (wget _ p); [apply SP_cleared|]. destruct (oget _ a) as [[|]|]; cbn [fst]; auto using SP_cleared.
  - destruct (wget _ p); cbn [fst]; auto using SP_cleared.
  - destruct (obj_read _ a); [|apply SP_cleared]. destruct (wget _ p) as [[|]|]; cbn [fst]; auto using SP_cleared.
Qed.

Lemma SP_commit_part f p a force : SP f (fst (commit_part f p a force)).
Proof.
  unfold commit_part. destruct (obj_exists f a); [|apply SP_mtc].
  destruct (force && _); [|apply SP_refl]. cbv zeta.
  set (f1 := dput f (a_digest a) true).
  assert (S1 : SP f f1) by (apply SP_ext; [intros; reflexivity|cbn; lia]).
  match goal with |- SP f (fst (move_to_cache ?st p a)) => apply (SP_trans f st); [|apply SP_mtc] end.
  assert (D : forall h, SP f h -> SP f (odel h a)).
  { intros h Sh. apply SP_trans with (g := h); [auto|apply SP_ext; [intros; reflexivity|cbn; lia]]. }
  apply D.
  destruct (oget f1 a) as [e|]; [|exact S1].
  destruct (resolve f1 link_fuel e) as [i|]; [|exact S1].
  destruct (iget f1 i) as [n|] eqn:Hi; [|exact S1].
  apply SP_trans with (g := f1); [exact S1|]. eapply SP_iput_same; eauto.
Qed.

Lemma SP_carry_one f p a m force : SP f (fst (carry_one f p a m force)).
Proof.
  rewrite carry_one_eq. pose proof (SP_commit_part f p a force) as S.
  destruct (commit_part f p a force) as [f1 o1]. cbn [fst] in S.
  destruct o1; auto. apply SP_trans with (g := f1); [exact S|].
  apply SP_trans with (g := cleared f1 p); [apply SP_cleared|apply SP_rfc].
Qed.

(* ---- records and stamps ---------------------------------------------------------------------------------------- *)
Definition rm_ok (f : fsys) (x : frec) : Prop :=
  forall s mt d, r_meta x = Some (s, mt) -> r_digest x = Some d ->
  (mt <= clock f)%N /\ forall i n, iget f i = Some n -> i_mt n = mt -> fits d (i_bytes n).
Definition RM (r : repo) : Prop := forall e x, rget r e = Some x -> rm_ok (fs r) x.
Definition SINV (r : repo) : Prop := TI (fs r) /\ RM r.

Lemma rm_ok_stamp f f' x : rm_ok f x -> R_stamp f f' -> rm_ok f' x.
Proof.
  intros H [Hc Hs] s mt d Hm Hd. destruct (H s mt d Hm Hd) as [H1 H2]. split; [lia|].
  intros i n' Hi Hmt. destruct (Hs _ _ Hi) as [(n & Hn & E1 & E2)|Hnew]; [|lia].
  rewrite E1. eapply H2; eauto. congruence.
Qed.

Lemma RM_fs r f' : RM r -> R_stamp (fs r) f' -> RM (set_fs r f').
Proof. intros H S e x Hg. eapply rm_ok_stamp; [apply (H e x Hg)|exact S]. Qed.

Lemma RM_rput r e x : RM r -> rm_ok (fs r) x -> RM (rput r e x).
Proof.
  intros H Hx e0 x0. rewrite rget_rput. destruct (N.eqb_spec e e0); [intros [= <-]; exact Hx|apply H].
Qed.

Lemma RM_radd r x : RM r -> rm_ok (fs r) x -> RM (radd r x).
Proof.
  intros H Hx e0 x0. rewrite rget_radd. destruct (N.eqb_spec (next_ent r) e0); [intros [= <-]; exact Hx|apply H].
Qed.

Lemma ws_meta_inode f p s mt : ws_meta f p = Some (s, mt) ->
  exists i n, iget f i = Some n /\ mt = i_mt n /\ s = Nlen (i_bytes n) /\ ws_read f p = Some (i_bytes n) /\
              (forall j, wget f p = Some (EFile j) -> j = i).
Proof.
  unfold ws_meta, ws_read, read_entry. destruct (wget f p) as [e|]; [|discriminate].
  destruct (resolve f link_fuel e) as [i|] eqn:Er; [|discriminate].
  destruct (iget f i) as [n|] eqn:Hi; [|discriminate]. intros [= <- <-].
  exists i, n. split; [auto|split; [auto|split; [auto|split; [auto|]]]].
  intros j [= ->]. rewrite resolve_file in Er. congruence.
Qed.

(* a record made from the metadata and (a digest that fits) the content of the workspace file *)
Lemma rm_ok_new f p sm c d x : TI f -> ws_meta f p = Some sm -> ws_read f p = Some c -> fits d c ->
  r_meta x = Some sm -> r_digest x = Some d -> rm_ok f x.
Proof.
  intros T Hm Hr Hf Hxm Hxd s mt d' Hm' Hd'. rewrite Hxm in Hm'. rewrite Hxd in Hd'. injection Hd' as <-.
  injection Hm' as ->. destruct (ws_meta_inode f p s mt Hm) as (i & n & Hi & -> & _ & Hr' & _).
  rewrite Hr in Hr'. injection Hr' as ->. split; [apply (ti_cl T _ _ Hi)|].
  intros j nj Hj E. rewrite (ti_mt T j i nj n Hj Hi E). exact Hf.
Qed.

Lemma meta_eqb_eq a b : meta_eqb a b = true -> a = b.
Proof.
  destruct a as [[s1 m1]|], b as [[s2 m2]|]; cbn; try discriminate; auto.
  intros H. apply andb_true_iff in H. destruct H as [H1 H2].
  apply N.eqb_eq in H1. apply N.eqb_eq in H2. congruence.
Qed.

Lemma ws_meta_read f p sm : ws_meta f p = Some sm -> ws_read f p <> None.
Proof. destruct sm as [s mt]. intros H. destruct (ws_meta_inode f p s mt H) as (i & n & _ & _ & _ & Hr & _). congruence. Qed.

(* what digest_diff says about the content *)
Lemma digest_diff_identical r x al t : digest_diff r x al t = DIdentical ->
  exists c rd, ws_read (fs r) (r_path x) = Some c /\ r_digest x = Some rd /\ fits rd c.
Proof.
  unfold digest_diff. destruct (meta_eqb _ _); [discriminate|].
  destruct (ws_meta _ _); [|discriminate].
  destruct (ws_read (fs r) (r_path x)) as [c|]; [|discriminate].
  destruct (r_digest x) as [rd|]; [|discriminate].
  destruct (digest_eqb_spec (digest_of al t c) rd) as [E|]; [|discriminate].
  intros _. exists c, rd. split; [auto|split; [auto|]]. rewrite <- E. apply digest_of_fits.
Qed.

Lemma digest_diff_skipped r x al t : digest_diff r x al t = DSkipped -> r_meta x = ws_meta (fs r) (r_path x).
Proof.
  unfold digest_diff. destruct (meta_eqb _ _) eqn:E; [intros _; now apply meta_eqb_eq|].
  destruct (ws_meta _ _); [|discriminate].
  destruct (ws_read (fs r) (r_path x)) as [c|]; [|discriminate].
  destruct (r_digest x) as [rd|]; [|discriminate]. destruct (digest_eqb _ rd); discriminate.
Qed.

Lemma digest_diff_recmissing r x al t d : digest_diff r x al t = DRecordMissing d -> r_digest x = None.
Proof.
  unfold digest_diff. destruct (meta_eqb _ _); [discriminate|].
  destruct (ws_meta _ _); [|discriminate]. destruct (ws_read _ _); [|discriminate].
  destruct (r_digest x); [destruct (digest_eqb _ _); discriminate|reflexivity].
Qed.

Lemma digest_diff_missing r x al t : digest_diff r x al t = DActualMissing ->
  ws_meta (fs r) (r_path x) = None \/ ws_read (fs r) (r_path x) = None.
Proof.
  unfold digest_diff. destruct (meta_eqb _ _); [discriminate|].
  destruct (ws_meta _ _); [|auto]. destruct (ws_read _ _); [|auto].
  destruct (r_digest x); [destruct (digest_eqb _ _); discriminate|discriminate].
Qed.

(* when the metadata differ the diff is not Skipped, and with a readable file it is not ActualMissing *)
Lemma digest_diff_changed r x al t sm : ws_meta (fs r) (r_path x) = Some sm -> meta_eqb (r_meta x) (Some sm) = false ->
  match digest_diff r x al t with DSkipped | DActualMissing => False | _ => True end.
Proof.
  intros Hm He. unfold digest_diff. rewrite Hm, He.
  pose proof (ws_meta_read _ _ _ Hm) as Hr. destruct (ws_read (fs r) (r_path x)); [|congruence].
  destruct (r_digest x); [destruct (digest_eqb _ _)|]; exact I.
Qed.

(* ---- the commands keep SINV ---------------------------------------------------------------------------------------- *)
Lemma SINV_set_fs r f' : SINV r -> SP (fs r) f' -> SINV (set_fs r f').
Proof. intros [T M] [S1 S2]. split; [now apply S1|now apply RM_fs]. Qed.

Lemma track_one_stamp o w r p : RI r -> SINV r -> SINV (fst (track_one o w r p)).
Proof.
  intros R [T M]. unfold track_one. cbv zeta.
  destruct (w && _); [split; auto|].
  destruct (ws_meta (fs r) p) as [sm|] eqn:Em; [|split; auto].
  fold (track_method o r). fold (track_tob o r).
  assert (Carry : forall r1 a, fs r1 = fs r -> SINV r1 ->
            SINV (fst (let '(f2, oc) := carry_one (fs r) p a (track_method o r) (t_force o) in (set_fs r1 f2, oc)))).
  { intros r1 a E S1. pose proof (SP_carry_one (fs r) p a (track_method o r) (t_force o)) as S.
    destruct (carry_one (fs r) p a (track_method o r) (t_force o)) as [f2 oc]. cbn [fst] in *.
    apply SINV_set_fs; auto. now rewrite E. }
  destruct (find_path (recs r) p) as [[e x]|] eqn:Ef.
  - pose proof (proj1 (find_path_spec r p e x R) Ef) as [Hg Hp].
    destruct (meta_eqb (r_meta x) (Some sm)) eqn:Eme; [split; auto|].
    assert (Hm' : ws_meta (fs r) (r_path x) = Some sm) by now rewrite Hp.
    pose proof (digest_diff_changed r x (cfg_algo r) (track_tob o r) sm Hm' Eme) as NC.
    assert (New : forall d x', (digest_diff r x (cfg_algo r) (track_tob o r) = DDifferent d \/
                                digest_diff r x (cfg_algo r) (track_tob o r) = DRecordMissing d) ->
              r_meta x' = Some sm -> r_digest x' = Some d -> SINV (rput r e x')).
    { intros d x' Hd Hxm Hxd. apply digest_diff_new in Hd. destruct Hd as (c & Hc & ->). rewrite Hp in Hc.
      split; [exact T|]. apply RM_rput; auto.
      exact (rm_ok_new (fs r) p sm c _ x' T Em Hc (digest_of_fits _ _ _) Hxm Hxd). }
    destruct (digest_diff r x (cfg_algo r) (track_tob o r)) as [| |d| |d] eqn:Ed; try contradiction.
    + (* identical *) cbn [fst]. split; [exact T|]. apply RM_rput; auto.
      destruct (digest_diff_identical r x _ _ Ed) as (c & rd & Hc & Hrd & Hf). rewrite Hp in Hc.
      apply (rm_ok_new (fs r) p sm c rd _ T Em Hc Hf); [reflexivity|exact Hrd].
    + match goal with |- context [rput r e ?y] => pose proof (New d y (or_intror eq_refl) eq_refl eq_refl) as S1 end.
      destruct (t_no_commit o); [exact S1|]. apply Carry; auto.
    + match goal with |- context [rput r e ?y] => pose proof (New d y (or_introl eq_refl) eq_refl eq_refl) as S1 end.
      destruct (t_no_commit o); [exact S1|]. apply Carry; auto.
  - destruct (ws_read (fs r) p) as [c|] eqn:Er; [|split; auto].
    set (x0 := {| r_path := p; r_meta := Some sm; r_digest := Some (digest_of (cfg_algo r) (track_tob o r) c);
                  r_hist := [digest_of (cfg_algo r) (track_tob o r) c]; r_method := track_method o r; r_tob := track_tob o r |}).
    change {| fs := fs r; recs := put N.eqb N.ltb (recs r) (next_ent r) x0; next_ent := N.succ (next_ent r);
              cfg_algo := cfg_algo r; cfg_method := cfg_method r; cfg_tob := cfg_tob r |} with (radd r x0).
    assert (S1 : SINV (radd r x0)).
    { split; [exact T|]. apply RM_radd; auto.
      apply (rm_ok_new (fs r) p sm c _ x0 T Em Er (digest_of_fits (cfg_algo r) (track_tob o r) c)); reflexivity. }
    destruct (t_no_commit o); [exact S1|]. apply Carry; auto.
Qed.

Lemma recheck_one_stamp o r p : RI r -> SINV r -> SINV (fst (recheck_one o r p)).
Proof.
  intros R [T M]. unfold recheck_one.
  destruct (find_path (recs r) p) as [[e x]|] eqn:Ef; [|split; auto].
  pose proof (proj1 (find_path_spec r p e x R) Ef) as [Hg Hp].
  destruct (r_meta x) as [sm|] eqn:Emx; [|split; auto]. cbv zeta.
  match goal with |- context [if negb ?s then _ else _] => destruct s end; cbn [negb]; [|split; auto].
  destruct (r_digest x) as [d|] eqn:Ed; [|split; auto].
  match goal with |- context [rput r e ?y] => set (x' := y) end.
  assert (S1 : SINV (rput r e x')).
  { split; [exact T|]. apply RM_rput; auto. intros s mt d' Hm' Hd'. apply (M e x Hg s mt d'); cbn in *; congruence. }
  destruct (obj_exists (fs r) (cache_addr p d)); [|exact S1].
  match goal with |- context [recheck_from_cache ?g p ?a ?m] =>
    pose proof (SP_rfc g p a m) as S; destruct (recheck_from_cache g p a m) as [f2 oc] end.
  cbn [fst] in *. apply SINV_set_fs; auto. cbn [fs rput set_recs].
  apply SP_trans with (g := cleared (fs r) p); [apply SP_cleared|exact S].
Qed.

Lemma each_inv step (P : repo -> Prop) : (forall r p, P r -> P (fst (step r p))) ->
  forall ps r, P r -> P (fst (each step r ps)).
Proof.
  intros H ps; induction ps as [|p t IH]; intros r HP; [exact HP|].
  destruct (each_cons step r p t) as [E _]. rewrite E. auto.
Qed.

Lemma carry_phase_SP force cs : forall f, SP f (fst (carry_phase f cs force)).
Proof.
  induction cs as [|c t IH]; intros f; [apply SP_refl|]. cbn [carry_phase].
  destruct (cp_sel c); [|apply IH]. destruct (cp_addr c) as [a|]; [|apply IH].
  pose proof (SP_carry_one f (r_path (cp_rec c)) a (r_method (cp_rec c)) force) as S.
  destruct (carry_one f (r_path (cp_rec c)) a (r_method (cp_rec c)) force) as [f1 o1]. cbn [fst] in S.
  destruct o1; [|exact S|exact S]. apply SP_trans with (g := f1); auto.
Qed.

(* the record carry-in writes for a plan fits the workspace as it was when the plan was made *)
Lemma plan_record_ok o r p c : RI r -> SINV r -> carry_plan o r p = Some c -> rm_ok (fs r) (plan_record c).
Proof.
  intros R [T M]. unfold carry_plan. destruct (find_path (recs r) p) as [[e x]|] eqn:Ef; [|discriminate].
  pose proof (proj1 (find_path_spec r p e x R) Ef) as [Hg Hp].
  destruct (r_meta x) as [sm0|] eqn:Emx; [|discriminate]. intros [= <-].
  unfold plan_record; cbn [cp_rec cp_meta cp_dd cp_tob].
  set (t := match c_tob o with Some t => t | None => cfg_tob r end).
  destruct (ws_meta (fs r) p) as [sm|] eqn:Em; [|intros s mt d H; discriminate H].
  destruct (digest_diff r x (cfg_algo r) t) as [| |d| |d] eqn:Ed.
  - destruct (digest_diff_identical r x _ _ Ed) as (c0 & rd & Hc & Hrd & Hf). rewrite Hp in Hc.
    apply (rm_ok_new (fs r) p sm c0 rd _ T Em Hc Hf); [reflexivity|exact Hrd].
  - pose proof (digest_diff_skipped r x _ _ Ed) as Hs. rewrite Hp, Em in Hs.
    intros s mt d Hm Hd. apply (M e x Hg s mt d); cbn in *; congruence.
  - intros s mt d' Hm Hd'. cbn in Hd'. apply digest_diff_recmissing in Ed. congruence.
  - apply digest_diff_missing in Ed. rewrite Hp in Ed. pose proof (ws_meta_read _ _ _ Em) as Hr.
    destruct Ed; congruence.
  - assert (Hd : digest_diff r x (cfg_algo r) t = DDifferent d \/ digest_diff r x (cfg_algo r) t = DRecordMissing d) by auto.
    apply digest_diff_new in Hd. destruct Hd as (c0 & Hc & ->). rewrite Hp in Hc.
    apply (rm_ok_new (fs r) p sm c0 _ _ T Em Hc (digest_of_fits (cfg_algo r) t c0)); reflexivity.
Qed.

Lemma plans_plan o r ps c : In c (plans o r ps) -> exists p, carry_plan o r p = Some c.
Proof.
  induction ps as [|p t IH]; cbn; [tauto|]. destruct (carry_plan o r p) as [c0|] eqn:E; auto.
  intros [<-|H]; eauto.
Qed.

Lemma record_phase_RM cs : forall r, RM r -> (forall c, In c cs -> rm_ok (fs r) (plan_record c)) -> RM (record_phase r cs).
Proof.
  induction cs as [|c t IH]; intros r M H; [exact M|].
  rewrite record_phase_cons. apply IH.
  - apply RM_rput; auto. apply H. now left.
  - intros c' Hin. apply H. now right.
Qed.

Lemma item_stamp r it : INV r -> SINV r -> SINV (fst (do_item r it)).
Proof.
  intros [F R] S. destruct it as [p c|p c|p|p|o ps|o ps|o ps]; cbn [do_item fst].
  - apply SINV_set_fs; auto. apply SP_user_write.
  - apply SINV_set_fs; auto. apply SP_user_write_through.
  - apply SINV_set_fs; auto. apply SP_user_delete.
  - apply SINV_set_fs; auto. apply SP_user_touch.
  - apply (each_inv (track_one o _) (fun r => RI r /\ SINV r)); auto.
    intros r0 p0 [R0 S0]. split; [apply (track_one_spec o _ r0 p0 R0)|now apply track_one_stamp].
  - unfold carry_in_cmd. destruct (existsb _ (plans o r ps)); [exact S|].
    pose proof (carry_phase_SP (c_force o) (plans o r ps) (fs r)) as SPh.
    destruct (carry_phase (fs r) (plans o r ps) (c_force o)) as [f1 oc]. cbn [fst] in SPh.
    destruct oc; cbn [fst]; [|apply SINV_set_fs; auto|apply SINV_set_fs; auto].
    pose proof (SINV_set_fs r f1 S SPh) as [T1 M1]. split.
    + destruct (record_phase_spec (plans o r ps) (set_fs r f1) (RI_set_fs r f1 R)) as (_ & _ & B3 & _).
      { intros c Hin. pose proof (plans_rec o r ps c Hin) as Hf.
        apply (find_path_spec r _ _ _ R) in Hf. destruct Hf as [Hg Hp]. exists (cp_rec c). auto. }
      rewrite B3. exact T1.
    + apply record_phase_RM; auto. intros c Hin. destruct (plans_plan o r ps c Hin) as [p Hp].
      cbn [fs set_fs]. eapply rm_ok_stamp; [eapply plan_record_ok; eauto|apply SPh].
  - apply (each_inv (recheck_one o) (fun r => (FI (fs r) /\ RI r) /\ SINV r)); auto.
    intros r0 p0 [[F0 R0] S0]. destruct (recheck_one_spec o r0 p0 F0 R0) as (A1 & A2 & _).
    split; [split; auto|now apply recheck_one_stamp].
Qed.

Lemma SINV_init a m t : SINV (init_repo a m t).
Proof.
  split; [split; cbn; intros; discriminate|]. intros e x H. cbn in H. discriminate.
Qed.

(* ---- the class [misfit] is empty: a committed regular file always fits its address ------------------------------ *)
Lemma plan_fits o r p c a : RI r -> SINV r -> carry_plan o r p = Some c -> cp_addr c = Some a -> fits_pre (fs r) p a.
Proof.
  intros R [T M]. unfold carry_plan. destruct (find_path (recs r) p) as [[e x]|] eqn:Ef; [|discriminate].
  pose proof (proj1 (find_path_spec r p e x R) Ef) as [Hg Hp].
  destruct (r_meta x) as [sm0|] eqn:Emx; [|discriminate]. intros [= <-]. cbn [cp_addr].
  set (t := match c_tob o with Some t => t | None => cfg_tob r end).
  intros Ha j n Hw Hi. pose proof (ws_read_file _ _ _ _ Hw Hi) as Hr.
  destruct (digest_diff r x (cfg_algo r) t) as [| |d| |d] eqn:Ed; try discriminate.
  - destruct (digest_diff_identical r x _ _ Ed) as (c0 & rd & Hc & Hrd & Hf). rewrite Hp in Hc.
    rewrite Hrd in Ha. injection Ha as <-. cbn. congruence.
  - pose proof (digest_diff_skipped r x _ _ Ed) as Hs. rewrite Hp in Hs.
    destruct (r_digest x) as [d|] eqn:Erd; [|discriminate]. injection Ha as <-. cbn.
    destruct sm0 as [s mt]. rewrite Emx in Hs. symmetry in Hs.
    destruct (ws_meta_inode _ _ _ _ Hs) as (i & ni & Hii & -> & _ & _ & Hu).
    rewrite (Hu j Hw) in Hi. rewrite Hi in Hii. injection Hii as <-.
    destruct (M e x Hg s (i_mt n) d Emx Erd) as [_ H]. eapply H; eauto.
  - assert (Hd : digest_diff r x (cfg_algo r) t = DDifferent d \/ digest_diff r x (cfg_algo r) t = DRecordMissing d) by auto.
    apply digest_diff_new in Hd. destruct Hd as (c0 & Hc & ->). rewrite Hp in Hc. injection Ha as <-. cbn.
    rewrite Hr in Hc. injection Hc as <-. apply digest_of_fits.
Qed.

Lemma rfc_entry_fits f p a m : FI f -> snd (recheck_from_cache f p a m) = Ok -> fits_pre (fst (recheck_from_cache f p a m)) p a.
Proof.
  intros F. rewrite rfc_unfold. cbv zeta. pose proof (FI_cleared f p F) as F0.
  assert (Copy_case : forall c, obj_read (cleared f p) a = Some c ->
    fits_pre (wput (alloc (tick (cleared f p)) {| i_bytes := c; i_w := true; i_mt := clock (tick (cleared f p)) |}) p
                   (EFile (next_ino (cleared f p)))) p a).
  { intros c Hc j n Hw Hi. rewrite wget_wput, beqb_refl in Hw. injection Hw as <-.
    rewrite iget_wput in Hi. change (next_ino (cleared f p)) with (next_ino (tick (cleared f p))) in Hi.
    rewrite iget_alloc_new in Hi. injection Hi as <-. cbn. eapply FI_cas; eauto. }
  destruct m.
  - destruct (obj_read (cleared f p) a) as [c|] eqn:Hc; [|discriminate].
    destruct (wget (cleared f p) p) as [[i|l]|]; cbn [fst snd]; try discriminate; intros _; auto.
  - destruct (wget (cleared f p) p); [discriminate|].
    destruct (oget (cleared f p) a) as [[i|l]|] eqn:Ho; cbn [fst snd]; try discriminate; intros _ j n Hw Hi.
    + rewrite wget_wput, beqb_refl in Hw. injection Hw as <-. rewrite iget_wput in Hi.
      destruct (FI_obj_file _ _ _ F0 Ho) as (n' & Hn' & _ & Hf). congruence.
    + rewrite wget_wput, beqb_refl in Hw. discriminate.
  - destruct (wget (cleared f p) p); cbn [fst snd]; [discriminate|]. intros _ j n Hw Hi.
    rewrite wget_wput, beqb_refl in Hw. discriminate.
  - destruct (obj_read (cleared f p) a) as [c|] eqn:Hc; [|discriminate].
    destruct (wget (cleared f p) p) as [[i|l]|]; cbn [fst snd]; try discriminate; intros _; auto.
Qed.

Lemma carry_one_entry_fits f p a m force : FI f -> relink f p a force = false -> fits_pre f p a ->
  snd (carry_one f p a m force) = Ok -> fits_pre (fst (carry_one f p a m force)) p a.
Proof.
  intros F G Hfit. pose proof (commit_part_spec f p a force F G Hfit) as S. rewrite carry_one_eq.
  destruct (commit_part f p a force) as [f1 o1]. cbn [fst snd] in S.
  destruct o1; [|discriminate|discriminate]. apply rfc_entry_fits. apply FI_cleared, (cs_FI S).
Qed.

Definition PF (f : fsys) (cs : list cplan) : Prop :=
  forall c, In c cs -> forall a, cp_addr c = Some a -> fits_pre f (r_path (cp_rec c)) a.
Definition plan_det (cs : list cplan) : Prop :=
  forall c1 c2, In c1 cs -> In c2 cs -> r_path (cp_rec c1) = r_path (cp_rec c2) -> cp_addr c1 = cp_addr c2.

Lemma carry_phase_nomisfit force cs : forall f, FI f -> PF f cs -> plan_det cs ->
  mon_carry_phase relink f cs force = false -> mon_carry_phase unclean f cs force = false.
Proof.
  induction cs as [|c t IH]; intros f F P D G; [reflexivity|]. cbn [mon_carry_phase] in *.
  assert (Pt : PF f t) by (intros c' Hin; apply P; now right).
  assert (Dt : plan_det t) by (intros c1 c2 H1 H2; apply D; now right).
  destruct (cp_sel c); [|apply IH; auto]. destruct (cp_addr c) as [a|] eqn:Ea; [|apply IH; auto].
  apply orb_false_iff in G. destruct G as [G1 G2].
  assert (Hfit : fits_pre f (r_path (cp_rec c)) a) by (apply (P c (or_introl eq_refl)); auto).
  unfold unclean. rewrite G1, (fits_pre_misfit _ _ _ force Hfit). cbn [orb].
  pose proof (carry_one_spec f (r_path (cp_rec c)) a (r_method (cp_rec c)) force F G1 Hfit) as S.
  pose proof (carry_one_entry_fits f (r_path (cp_rec c)) a (r_method (cp_rec c)) force F G1 Hfit) as E.
  destruct (carry_one f (r_path (cp_rec c)) a (r_method (cp_rec c)) force) as [f1 o1]. cbn [fst snd] in *.
  destruct o1; auto. apply IH; auto; [apply (cs_FI S)|].
  intros c' Hin a' Ha' j n Hw Hi.
  destruct (beqb_spec (r_path (cp_rec c')) (r_path (cp_rec c))) as [Ep|Hne].
  - assert (a' = a).
    { pose proof (D c' c (or_intror Hin) (or_introl eq_refl) Ep) as Hd. rewrite Ha', Ea in Hd. congruence. }
    subst a'. rewrite Ep in Hw. eapply E; eauto.
  - rewrite (cs_ws S) in Hw by auto.
    (* the inode existed before with the same bytes, or is new: new inodes at other paths do not appear *)
    destruct (iget f j) as [n0|] eqn:Hj.
    + destruct (cs_bytes S _ _ Hj) as (n1 & H1 & E1). rewrite Hi in H1. injection H1 as <-. rewrite E1.
      eapply (Pt c' Hin a' Ha'); eauto.
    + exfalso. eapply (fi_ws F); eauto.
Qed.

Lemma plans_det o r ps : plan_det (plans o r ps).
Proof.
  intros c1 c2 H1 H2 Ep. destruct (plans_plan o r ps c1 H1) as [p1 P1]. destruct (plans_plan o r ps c2 H2) as [p2 P2].
  destruct (carry_plan_rec o r p1 c1 P1) as [_ E1]. destruct (carry_plan_rec o r p2 c2 P2) as [_ E2].
  assert (p1 = p2) by congruence. subst p2. congruence.
Qed.

Lemma each_track_nomisfit o w ps : forall r, RI r ->
  mon_each (track_one o w) (mon_track_one relink o w) r ps = false ->
  mon_each (track_one o w) (mon_track_one unclean o w) r ps = false.
Proof.
  induction ps as [|p t IH]; intros r R G; [reflexivity|]. cbn [mon_each] in *.
  apply orb_false_iff in G. destruct G as [G1 G2].
  destruct (track_one_spec o w r p R) as (S1 & S2 & S3 & S4).
  rewrite IH by auto. rewrite orb_false_r.
  unfold mon_track_one in *. destruct (track_one_call o w r p) as [[a m]|]; auto.
  destruct S4 as (_ & _ & Hfit & _). unfold unclean. rewrite G1. now rewrite (fits_pre_misfit _ _ _ (t_force o) Hfit).
Qed.

Lemma item_nomisfit r it : INV r -> SINV r -> mon_item relink r it = false -> mon_item unclean r it = false.
Proof.
  intros [F R] S G. destruct it as [p c|p c|p|p|o ps|o ps|o ps]; cbn [mon_item] in *; auto.
  - apply each_track_nomisfit; auto.
  - destruct (existsb _ (plans o r ps)); auto.
    apply carry_phase_nomisfit; auto using plans_det.
    intros c Hin a Ha. destruct (plans_plan o r ps c Hin) as [p Hp].
    destruct (carry_plan_rec o r p c Hp) as [_ E]. rewrite E. eapply plan_fits; eauto.
Qed.

Theorem run_nomisfit h : forall r, INV r -> SINV r -> mon_run relink r h = false ->
  mon_run unclean r h = false /\ SINV (run_items r h).
Proof.
  induction h as [|it t IH]; intros r I S G; [split; [reflexivity|exact S]|].
  cbn [mon_run] in *. apply orb_false_iff in G. destruct G as [G1 G2].
  pose proof (item_nomisfit r it I S G1) as U. rewrite U. cbn [orb]. rewrite run_items_cons.
  apply IH; auto; [apply (item_spec r it I U)|now apply item_stamp].
Qed.

(* the excluded class is exactly [relink] *)
Theorem clean_of_relink a m t h : mon_run relink (init_repo a m t) h = false -> mon_run unclean (init_repo a m t) h = false.
Proof. intros G. apply (run_nomisfit h _ (INV_init a m t) (SINV_init a m t) G). Qed.

Definition reachable_r (r : repo) : Prop :=
  exists a m t h, mon_run relink (init_repo a m t) h = false /\ r = run_items (init_repo a m t) h.

Lemma reachable_r_reachable r : reachable_r r -> reachable r.
Proof. intros (a & m & t & h & G & ->). exists a, m, t, h. split; [now apply clean_of_relink|reflexivity]. Qed.

Lemma reachable_r_SINV r : reachable_r r -> SINV r.
Proof. intros (a & m & t & h & G & ->). apply (run_nomisfit h _ (INV_init a m t) (SINV_init a m t) G). Qed.
