(* Reachable repositories: the invariants assumed by the theorems of Repo/ExtProofs.v hold in every state
   reached from an initialised repository by a history of user actions, track / carry-in / recheck
   (outside the known classes of Repo/Inv.v) and copy / move / remove / untrack (outside --name-only
   destination collisions). *)
From Coq Require Import List Bool NArith Lia.
From XV Require Import Base.Amap Base.Bytes Repo.Model Repo.Proofs Repo.Inv Glob.Match Repo.Ext Repo.ExtProofs.
Import ListNotations.

(* ---- the invariants of Repo/Inv.v give the hypotheses of Repo/ExtProofs.v ---------------------------------------- *)
Lemma FI_wf_fs f : FI f -> wf_fs f.
Proof. intros F i n H. exact (fi_bound F i n H). Qed.
Lemma FI_objs_bounded f : FI f -> objs_bounded f.
Proof.
  intros F a j H. destruct (fi_obj F a _ H) as (i & n & E & Hi & _). injection E as <-. exact (fi_bound F _ _ Hi).
Qed.
Lemma RI_wf_recs b : RI b -> wf_recs b.
Proof.
  intros [K P B]. constructor; auto.
  - intros e1 x1 e2 x2 I1 I2 E. apply (In_get _ _ _ K) in I1. apply (In_get _ _ _ K) in I2. eapply P; eauto.
  - intros e x I. apply (In_get _ _ _ K) in I. eapply B; eauto.
Qed.
Lemma wf_recs_RI b : wf_recs b -> RI b.
Proof.
  intros [K P B]. constructor; auto.
  - intros e1 x1 e2 x2 G1 G2 E. apply (In_get _ _ _ K) in G1. apply (In_get _ _ _ K) in G2. eapply P; eauto.
  - intros e x G. apply (In_get _ _ _ K) in G. eapply B; eauto.
Qed.

(* ---- FI through the file-system effects of the four commands ------------------------------------------------------- *)
Lemma FI_same f g :
  (forall p, wget g p = wget f p) -> (forall a, oget g a = oget f a) -> (forall i, iget g i = iget f i) ->
  next_ino g = next_ino f -> FI f -> FI g.
Proof.
  intros Hw Ho Hi Hn [B W O I]. constructor.
  - intros i n. rewrite Hi, Hn. apply B.
  - intros p i. rewrite Hw, Hi. apply W.
  - intros a e. rewrite Ho. intros H. destruct (O a e H) as (i & n & E & G & R). exists i, n. rewrite Hi. auto.
  - intros a1 a2 i. rewrite !Ho. apply I.
Qed.

Lemma recheck_dests_FI : forall ps r r' oc, FI (xfs r) -> recheck_dests r ps = (r', oc) -> FI (xfs r').
Proof.
  induction ps as [|p t IH]; intros r r' oc F; cbn [recheck_dests].
  - intros E; injection E as <- <-; auto.
  - destruct (find_path (recs (base r)) p) as [[e x]|]; [|intros E; injection E as <- <-; auto].
    destruct (r_digest x) as [d|]; [|intros E; injection E as <- <-; auto].
    pose proof (proj1 (rfc_spec (xfs r) p (cache_addr p d) (r_method x) F)) as F1.
    destruct (recheck_from_cache (xfs r) p (cache_addr p d) (r_method x)) as [f1 [| |]]; cbn [fst] in F1.
    + apply IH. exact F1.
    + intros E; injection E as <- <-; exact F1.
    + intros E; injection E as <- <-; exact F1.
Qed.

Lemma FI_wput_entry f s d en : FI f -> wget f s = Some en -> FI (wput (wdel f s) d en).
Proof.
  intros F G. destruct en as [i|a].
  - apply FI_wput_file; [apply FI_wdel; auto|]. exact (fi_ws F s i G).
  - apply FI_wput_link. apply FI_wdel; auto.
Qed.

Lemma move_loop_FI fl o : forall l f ups rechk f' res,
  FI f -> move_loop fl o f l ups rechk = (f', res) -> FI f'.
Proof.
  induction l as [|[[e x] d] t IH]; intros f ups rechk f' res F; cbn [move_loop].
  - intros E; injection E as <- <-. auto.
  - assert (G : forall f1 u k, FI f1 -> move_loop fl o f1 t u k = (f', res) -> FI f') by (intros; eapply IH; eauto).
    destruct (r_method x) eqn:SM; destruct (match m_as o with Some m => m | None => _ end) eqn:DM;
      try (destruct (ws_exists f (r_path x)); apply G; auto using FI_wdel).
    destruct (beqb (r_path x) d); [apply G; auto|].
    destruct (fixed_mv_absent fl && negb (ws_exists f (r_path x))); [apply G; auto|].
    destruct (wget f (r_path x)) as [en|] eqn:W; [|intros E; injection E as <- <-; auto].
    destruct (m_no_recheck o); apply G; auto using FI_wdel, FI_wput_entry.
Qed.

Lemma materialise_FI fl : forall tg f f' oc, FI f -> materialise fl f tg = (f', oc) -> FI f'.
Proof.
  induction tg as [|[e x] t IH]; intros f f' oc F; cbn [materialise].
  - intros E; injection E as <- <-; auto.
  - destruct (wget f (r_path x)) as [en|].
    2:{ destruct (fixed_P8 fl); [apply IH; auto|intros E; injection E as <- <-; auto]. }
    destruct (r_digest x) as [d|].
    2:{ destruct en; [apply IH; auto|]. destruct (fixed_P8 fl); [apply IH; auto|intros E; injection E as <- <-; auto]. }
    destruct (needs_copy fl f en (cache_addr (r_path x) d)); [|apply IH; auto].
    destruct (fixed_P47 fl && negb (obj_exists f (cache_addr (r_path x) d))); [apply IH; auto|].
    pose proof (proj1 (rfc_spec f (r_path x) (cache_addr (r_path x) d) Copy F)) as F1.
    destruct (recheck_from_cache f (r_path x) (cache_addr (r_path x) d) Copy) as [f1 [| |]]; cbn [fst] in F1.
    + apply IH; auto.
    + intros E; injection E as <- <-; auto.
    + intros E; injection E as <- <-; auto.
Qed.

Lemma FI_prune f d : FI f -> FI (prune f d).
Proof. intros F. unfold prune. destruct (digest_dir_used f d); auto. apply (FI_same f); auto. Qed.

Lemma cache_remove_FI f a : FI f -> FI (cache_remove f a).
Proof.
  intros F. unfold cache_remove. destruct (obj_exists f a); [|apply FI_prune; auto].
  apply FI_prune. set (f1 := dput f (a_digest a) true).
  assert (F1 : FI f1) by (apply FI_dput; auto).
  destruct (oget f1 a) as [e0|] eqn:G; [|apply FI_odel; auto].
  destruct (fi_obj F1 a e0 G) as (i & n & -> & Hi & Hw & Hf).
  unfold chmod_w_through. rewrite resolve_file, Hi.
  destruct F1 as [B W O I]. constructor.
  - intros j m. change (iget (odel (iput f1 i (mk_inode (i_bytes n) true (i_mt n))) a) j) with (iget (iput f1 i (mk_inode (i_bytes n) true (i_mt n))) j).
    rewrite iget_iput. change (next_ino (odel (iput f1 i (mk_inode (i_bytes n) true (i_mt n))) a)) with (next_ino f1).
    destruct (N.eqb_spec i j) as [<-|]; [intros _; eapply B; eauto|apply B].
  - intros p j. change (wget (odel (iput f1 i (mk_inode (i_bytes n) true (i_mt n))) a) p) with (wget f1 p).
    change (iget (odel (iput f1 i (mk_inode (i_bytes n) true (i_mt n))) a) j) with (iget (iput f1 i (mk_inode (i_bytes n) true (i_mt n))) j).
    rewrite iget_iput. destruct (N.eqb_spec i j); [discriminate|apply W].
  - intros b e. rewrite oget_odel. destruct (caddr_eqb_spec a b) as [|NE]; [discriminate|].
    change (oget (iput f1 i (mk_inode (i_bytes n) true (i_mt n))) b) with (oget f1 b). intros H.
    destruct (O b e H) as (j & m & -> & Hj & R). exists j, m. split; auto. split; auto.
    change (iget (odel (iput f1 i (mk_inode (i_bytes n) true (i_mt n))) a) j) with (iget (iput f1 i (mk_inode (i_bytes n) true (i_mt n))) j).
    rewrite iget_iput. destruct (N.eqb_spec i j) as [<-|]; auto. exfalso. apply NE. eapply I; eauto.
  - intros a1 a2 j. rewrite !oget_odel. destruct (caddr_eqb a a1); [discriminate|]. destruct (caddr_eqb a a2); [discriminate|].
    apply I.
Qed.
Lemma cache_removes_FI l : forall f, FI f -> FI (fold_left cache_remove l f).
Proof. induction l as [|a t IH]; intros f F; cbn [fold_left]; auto using cache_remove_FI. Qed.

(* ---- the records through move and untrack ---------------------------------------------------------------------------- *)
Lemma wf_recs_same_paths b b' :
  NoDup (keys (recs b')) -> next_ent b' = next_ent b ->
  (forall k v', In (k, v') (recs b') -> exists v, In (k, v) (recs b) /\ r_path v' = r_path v) ->
  wf_recs b -> wf_recs b'.
Proof.
  intros K' NX C [K P F]. constructor; auto.
  - intros e1 x1 e2 x2 I1 I2 E. destruct (C _ _ I1) as (v1 & J1 & P1). destruct (C _ _ I2) as (v2 & J2 & P2).
    eapply P; eauto. congruence.
  - intros e x I. destruct (C _ _ I) as (v & J & _). rewrite NX. eauto.
Qed.

Lemma move_apply_wf fl o r l r' oc :
  wf_fs (xfs r) -> wf_recs (base r) -> move_plan_ok r l -> move_apply fl o r l = (r', oc) -> wf_recs (base r').
Proof.
  intros Wf [K P F] [MI MN MJ MD MU MF]. unfold move_apply.
  destruct (move_paths_spec l r K MD) as (K1 & F1 & N1 & C1 & L1).
  set (r1 := fold_left move_path_one l r) in *.
  assert (W1 : wf_recs (base r1)).
  { constructor; auto.
    - intros k1 v1 k2 v2 I1 I2 E. apply C1 in I1. apply C1 in I2.
      destruct I1 as [(x1 & d1 & J1 & ->)|[N1' J1]], I2 as [(x2 & d2 & J2 & ->)|[N2' J2]].
      + cbn in E. eapply MJ; eauto.
      + exfalso. cbn in E. eapply (stored_false_no_record r d1); [eapply MN; eauto|exact J2|congruence].
      + exfalso. cbn in E. eapply (stored_false_no_record r d2); [eapply MN; eauto|exact J1|congruence].
      + eapply P; eauto.
    - intros k v I. apply C1 in I. destruct I as [(x & d & J & ->)|[_ J]].
      + apply MI in J. apply F in J. lia.
      + apply F in J. lia. }
  destruct (move_loop fl o (xfs r1) l [] []) as [f2 res] eqn:ML.
  destruct res as [[ups rechk]|].
  - destruct (set_methods_spec ups (base (set_xfs r1 f2))) as (K3 & F3 & N3 & L3 & B3 & C3); [exact K1|].
    set (r3 := set_base (set_xfs r1 f2) (fold_left set_method ups (base (set_xfs r1 f2)))) in *.
    assert (W3 : wf_recs (base r3)).
    { apply (wf_recs_same_paths (base r1)); auto.
      intros k v' I. destruct (B3 k v' I) as (v & J & (SP & _)). eauto. }
    destruct (m_no_recheck o).
    + intros E; injection E as <- <-. exact W3.
    + intros E.
      assert (Wf3 : wf_fs (xfs r3)).
      { assert (X3 : xfs r3 = f2) by (unfold r3, xfs; cbn [base set_base]; rewrite F3; reflexivity).
        rewrite X3. assert (Wf1 : wf_fs (xfs r1)) by (rewrite F1; auto).
        pose proof (ws_only_frame _ _ Wf1 (move_loop_ws_only fl o _ _ _ _ _ _ ML)) as FR. destruct FR; auto. }
      destruct (recheck_dests_spec _ _ _ _ Wf3 E) as (R4 & N4 & _).
      apply (wf_recs_ext (base r3)); auto. lia.
  - intros E; injection E as <- <-. apply (wf_recs_ext (base r1)); auto. cbn. lia.
Qed.

Lemma wf_recs_filter b b' (p : N * frec -> bool) :
  recs b' = filter p (recs b) -> next_ent b' = next_ent b -> wf_recs b -> wf_recs b'.
Proof.
  intros R NX [K P F]. constructor; rewrite R.
  - apply (sublist_filter_nodup fst p). exact K.
  - intros e1 x1 e2 x2 I1 I2. apply filter_In in I1. apply filter_In in I2. apply (P e1 x1 e2 x2); tauto.
  - intros e x I. apply filter_In in I. rewrite NX. apply (F e x); tauto.
Qed.

(* ---- reachable repositories --------------------------------------------------------------------------------------------------- *)
Fixpoint nodupb (l : list bytes) : bool :=
  match l with [] => true | x :: t => negb (existsb (beqb x) t) && nodupb t end.
Lemma nodupb_spec l : nodupb l = true -> NoDup l.
Proof.
  induction l as [|x t IH]; cbn; [constructor|]. intros H. apply andb_true_iff in H. destruct H as (H1 & H2).
  constructor; auto. intros I. apply negb_true_iff in H1.
  assert (existsb (beqb x) t = true) by (apply existsb_exists; exists x; split; auto; apply beqb_refl). congruence.
Qed.

(* the step is outside the known classes: Repo/Inv.v's monitor for track / carry-in / recheck; for copy, pairwise
   distinct destinations (two sources with one --name-only destination create two entities with one path) *)
Definition xclean (r : xrepo) (it : xitem) : bool :=
  match it with
  | XBase i => negb (mon_item unclean (base r) i)
  | XCopy o s d => match copy_plan o s d r with CPlanned plan _ => nodupb (map cd_path plan) | CRefused _ => true end
  | _ => true
  end.

(* the move command with the pre-check of the P45 fix either refuses (repository unchanged) or is the move *)
Lemma move_cmd45_cases fl o s d r :
  move_cmd45 fl o s d r = (r, Err) \/ move_cmd45 fl o s d r = move_cmd fl o s d r.
Proof.
  unfold move_cmd45. destruct (move_plan s d r) as [oc|l]; [now right|].
  destruct (fixed_P45 fl && move_uncommitted o r l); [now left|now right].
Qed.

Lemma move_uncommitted_refused_lemma fl o s d r l :
  fixed_P45 fl = true -> move_plan s d r = MPlanned l -> move_uncommitted o r l = true ->
  move_cmd45 fl o s d r = (r, Err).
Proof. intros F P U. unfold move_cmd45. rewrite P, F, U. reflexivity. Qed.

Lemma move_cmd45_is_move_lemma fl o s d r :
  (fixed_P45 fl = false \/ forall l, move_plan s d r = MPlanned l -> move_uncommitted o r l = false) ->
  move_cmd45 fl o s d r = move_cmd fl o s d r.
Proof.
  intros H. unfold move_cmd45. destruct (move_plan s d r) as [oc|l] eqn:P; [reflexivity|].
  destruct H as [F|U]; [rewrite F; reflexivity|]. rewrite (U l eq_refl), andb_false_r. reflexivity.
Qed.

Lemma xstep_inv fl r it : INV (base r) -> xclean r it = true -> INV (base (fst (do_xitem fl r it))).
Proof.
  intros [F R] C. pose proof (FI_wf_fs _ F) as Wf. pose proof (RI_wf_recs _ R) as Wr.
  destruct it as [i|o s d|o s d|o ts|ts]; cbn [do_xitem xclean] in *.
  - apply negb_true_iff in C. destruct (item_spec (base r) i (conj F R) C) as (I & _).
    destruct (do_item (base r) i) as [b oc]. exact I.
  - unfold copy_cmd. destruct (copy_plan o s d r) as [oc|plan sk] eqn:PL; [split; auto|].
    apply nodupb_spec in C.
    destruct (copy_apply o r plan sk) as [r' oc] eqn:E. cbn [fst].
    destruct (copy_apply_shares o r plan sk r' oc Wf Wr C (fun c I => proj1 (copy_plan_pairs _ _ _ _ _ _ PL c I)) E) as (_ & _ & W' & _).
    split; [|apply wf_recs_RI; auto].
    unfold copy_apply in E.
    destruct (copy_records_spec o plan r Wr C (fun c I => proj1 (copy_plan_pairs _ _ _ _ _ _ PL c I))) as (_ & F1 & _).
    destruct (c_no_recheck o).
    + injection E as <- _. change (fs (base ?x)) with (xfs x). rewrite F1. exact F.
    + destruct (recheck_dests (fold_left (copy_records_one o) plan r) (map cd_path plan)) as [r2 oc2] eqn:RD. injection E as <- _.
      change (fs (base r2)) with (xfs r2). eapply recheck_dests_FI; [|exact RD]. rewrite F1. exact F.
  - destruct (move_cmd45_cases fl o s d r) as [E45|E45]; rewrite E45; [split; auto|].
    unfold move_cmd. destruct (move_plan s d r) as [oc|l] eqn:PL; [split; auto|].
    pose proof (move_plan_is_ok s d r l Wr PL) as OKP.
    destruct (move_apply fl o r l) as [r' oc] eqn:E. cbn [fst].
    split; [|apply wf_recs_RI; eapply move_apply_wf; eauto].
    unfold move_apply in E. destruct Wr as [K P Fr]. destruct OKP as [MI MN MJ MD MU MF].
    destruct (move_paths_spec l r K MD) as (K1 & F1 & _).
    destruct (move_loop fl o (xfs (fold_left move_path_one l r)) l [] []) as [f2 res] eqn:ML.
    assert (F2 : FI f2) by (eapply move_loop_FI; [|exact ML]; rewrite F1; exact F).
    destruct res as [[ups rechk]|]; [|injection E as <- _; exact F2].
    destruct (set_methods_spec ups (base (set_xfs (fold_left move_path_one l r) f2)) K1) as (_ & F3 & _).
    destruct (m_no_recheck o).
    + injection E as <- _. change (FI (fs (fold_left set_method ups (base (set_xfs (fold_left move_path_one l r) f2))))). rewrite F3. exact F2.
    + change (fs (base r')) with (xfs r'). eapply recheck_dests_FI; [|exact E].
      change (FI (fs (fold_left set_method ups (base (set_xfs (fold_left move_path_one l r) f2))))). rewrite F3. exact F2.
  - unfold remove_cmd. cbv zeta.
    match goal with |- context [match ?cands with Some _ => _ | None => _ end] => destruct cands as [l|] end; cbn [fst]; [|split; auto].
    split; [|apply RI_set_fs; exact R]. change (fs (base (set_xfs r ?f))) with f. apply cache_removes_FI. exact F.
  - unfold untrack_cmd. cbv zeta.
    destruct (negb (fixed_P8 fl) && match select_dirs r ts with [] => false | _ => true end); [split; auto|].
    destruct (materialise fl (xfs r) (select r ts)) as [f1 oc1] eqn:MT.
    assert (F1 : FI f1) by (eapply materialise_FI; [exact F|exact MT]).
    destruct oc1; cbn [fst]; try (split; [exact F1|apply RI_set_fs; exact R]).
    split.
    + change (fs (base (set_xfs ?x ?f))) with f. apply cache_removes_FI. exact F1.
    + apply wf_recs_RI. eapply (wf_recs_filter (base r)); [reflexivity|reflexivity|exact Wr].
Qed.

Inductive xreach (fl : flags) : xrepo -> Prop :=
| xr_init a m t : xreach fl (xinit a m t)
| xr_step r it : xreach fl r -> xclean r it = true -> xreach fl (fst (do_xitem fl r it)).

Theorem xreach_INV fl r : xreach fl r -> INV (base r).
Proof. induction 1; [apply INV_init|apply xstep_inv; auto]. Qed.

Theorem xreach_wf fl r : xreach fl r -> wf_fs (xfs r) /\ objs_bounded (xfs r) /\ wf_recs (base r).
Proof.
  intros X. destruct (xreach_INV fl r X) as [F R]. auto using FI_wf_fs, FI_objs_bounded, RI_wf_recs.
Qed.

(* ---- the theorems of Repo/ExtProofs.v for every reachable repository ------------------------------------------------------ *)
Theorem copy_shares_reachable fl o src dst r r' oc plan sk :
  xreach fl r -> copy_plan o src dst r = CPlanned plan sk -> NoDup (map cd_path plan) ->
  copy_cmd o src dst r = (r', oc) ->
  objs (xfs r') = objs (xfs r) /\ (forall a b, holds (xfs r) a b -> holds (xfs r') a b) /\
  forall c, In c plan -> copy_result o r r' oc c.
Proof.
  intros X PL ND E. destruct (xreach_wf fl r X) as (Wf & _ & Wr).
  destruct (copy_cmd_shares o src dst r r' oc plan sk Wf Wr PL ND E) as (A & B & _ & _ & C). auto.
Qed.

Theorem move_count_reachable fl o src dst r r' oc l :
  xreach fl r -> move_plan src dst r = MPlanned l -> move_cmd fl o src dst r = (r', oc) ->
  length (recs (base r')) = length (recs (base r)) /\
  objs (xfs r') = objs (xfs r) /\ (forall a b, holds (xfs r) a b -> holds (xfs r') a b) /\
  (forall e x d, In (e, x, d) l -> move_result r r' e x d) /\
  (oc = Ok -> forall e x d, In (e, x, d) l -> ws_exists (xfs r') (r_path x) = false).
Proof.
  intros X PL E. destruct (xreach_wf fl r X) as (Wf & _ & Wr). exact (move_cmd_spec fl o src dst r r' oc l Wf Wr PL E).
Qed.

Theorem absent_source_reachable fl o src dst r e x dg c :
  xreach fl r ->
  sources r src = [(e, x)] -> ends_slash dst = false -> stored r dst = false ->
  ws_meta (xfs r) (r_path x) = None ->
  r_digest x = Some dg -> extension dst = extension (r_path x) -> holds (xfs r) (cache_addr (r_path x) dg) c ->
  ws_lexists (xfs r) dst = false ->
  exists r', copy_cmd o src dst r = (r', Ok) /\
    (exists e' y, In (e', y) (recs (base r')) /\ copied_as o x y dst) /\
    (c_no_recheck o = false -> ws_read (xfs r') dst = Some c).
Proof.
  intros X. destruct (xreach_wf fl r X) as (Wf & _ & Wr). exact (copy_absent_source o src dst r e x dg c Wf Wr).
Qed.

Theorem untrack_reachable fl targets r r' oc :
  xreach fl r -> untrack_cmd fl targets r = (r', oc) ->
  let tg := select r targets in
  (forall a, obj_present (xfs r) a -> ~ obj_present (xfs r') a ->
     forall e x, In (e, x) (recs (base r)) -> refers x a = true -> is_target tg e = true) /\
  (forall a en, oget (xfs r') a = Some en -> oget (xfs r) a = Some en) /\
  (forall e x, In (e, x) (recs (base r)) -> is_target tg e = false ->
     In (e, x) (recs (base r')) /\
     forall d c, In d (r_hist x) -> holds (xfs r) (cache_addr (r_path x) d) c -> holds (xfs r') (cache_addr (r_path x) d) c) /\
  (oc = Ok -> forall e x, In (e, x) tg ->
     (forall k v, In (k, v) (recs (base r')) -> r_path v <> r_path x) /\
     forall c, mat_pre fl (xfs r) x c -> private_file (xfs r') (r_path x) c).
Proof.
  intros X E. destruct (xreach_wf fl r X) as (Wf & Ob & Wr). exact (untrack_cmd_spec fl targets r r' oc Wf Ob Wr E).
Qed.

(* reachable repositories exist and the class predicate is decidable: a run of a history *)
Fixpoint xrun_clean (fl : flags) (r : xrepo) (h : list xitem) : bool :=
  match h with
  | [] => true
  | it :: t => xclean r it && xrun_clean fl (fst (do_xitem fl r it)) t
  end.
Lemma xrun_reach fl h : forall r, xreach fl r -> xrun_clean fl r h = true -> xreach fl (run_xitems fl r h).
Proof.
  induction h as [|it t IH]; intros r X C; cbn in *; auto.
  apply andb_true_iff in C. destruct C as (C1 & C2). apply IH; auto. now apply xr_step.
Qed.
