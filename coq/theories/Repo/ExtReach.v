(* Reachable repositories: the invariants assumed by the theorems of Repo/ExtProofs.v hold in every state
   reached from an initialised repository by a history of user actions, track / carry-in / recheck
   (outside the known classes of Repo/Inv.v) and copy / move / remove / untrack (outside --name-only
   destination collisions). *)
From Coq Require Import List Bool NArith Lia.
From XV Require Import Base.Amap Base.Bytes Repo.Model Repo.Proofs Repo.Inv Repo.Fix Repo.FixProofs Glob.Match Repo.Ext Repo.ExtProofs Repo.ExtShare.
Import ListNotations.

(* ---- the invariants of Repo/Inv.v give the hypotheses of Repo/ExtProofs.v ---------------------------------------- *)
Lemma FI_objs_bounded f : FI f -> objs_bounded f.
Proof.
  intros F a j H. destruct (fi_obj F a _ H) as (i & n & E & Hi & _). injection E as <-. exact (fi_bound F _ _ Hi).
Qed.
Lemma RI_wf_recs b : RI b -> wf_recs b.
Proof.
  intros [K P B]. constructor; auto.
  - intros e1 x1 e2 x2 I1 I2 E. apply (In_get _ _ _ K) in I1. apply (In_get _ _ _ K) in I2. eapply P; eauto.
  - intros e x I. apply (In_get _ _ _ K) in I. eapply B; eauto.
Qed.
Lemma wf_recs_RI b : wf_recs b -> RI b.
Proof.
  intros [K P B]. constructor; auto.
  - intros e1 x1 e2 x2 G1 G2 E. apply (In_get _ _ _ K) in G1. apply (In_get _ _ _ K) in G2. eapply P; eauto.
  - intros e x G. apply (In_get _ _ _ K) in G. eapply B; eauto.
Qed.

(* ---- FI through the file-system effects of the four commands ------------------------------------------------------- *)
Lemma FI_same f g :
  (forall p, wget g p = wget f p) -> (forall a, oget g a = oget f a) -> (forall i, iget g i = iget f i) ->
  next_ino g = next_ino f -> FI f -> FI g.
Proof.
  intros Hw Ho Hi Hn [B W O I]. constructor.
  - intros i n. rewrite Hi, Hn. apply B.
  - intros p i. rewrite Hw, Hi. apply W.
  - intros a e. rewrite Ho. intros H. destruct (O a e H) as (i & n & E & G & R). exists i, n. rewrite Hi. auto.
  - intros a1 a2 i. rewrite !Ho. apply I.
Qed.

Lemma materialise_FI fl : forall tg f f' oc, FI f -> materialise fl f tg = (f', oc) -> FI f'.
Proof.
  induction tg as [|[e x] t IH]; intros f f' oc F; cbn [materialise].
  - intros E; injection E as <- <-; auto.
  - destruct (wget f (r_path x)) as [en|].
    2:{ destruct (fixed_P8 fl); [apply IH; auto|intros E; injection E as <- <-; auto]. }
    destruct (r_digest x) as [d|].
    2:{ destruct en; [apply IH; auto|]. destruct (fixed_P8 fl); [apply IH; auto|intros E; injection E as <- <-; auto]. }
    destruct (needs_copy fl f en (cache_addr (r_path x) d)); [|apply IH; auto].
    destruct (fixed_P47 fl && negb (obj_exists f (cache_addr (r_path x) d))); [apply IH; auto|].
    pose proof (proj1 (rfc_spec f (r_path x) (cache_addr (r_path x) d) Copy F)) as F1.
    destruct (recheck_from_cache f (r_path x) (cache_addr (r_path x) d) Copy) as [f1 [| |]]; cbn [fst] in F1.
    + apply IH; auto.
    + intros E; injection E as <- <-; auto.
    + intros E; injection E as <- <-; auto.
Qed.

Lemma FI_prune f d : FI f -> FI (prune f d).
Proof. intros F. unfold prune. destruct (digest_dir_used f d); auto. apply (FI_same f); auto. Qed.

Lemma FI_reseal p50 f d : FI f -> FI (reseal p50 f d).
Proof. intros F. unfold reseal. destruct (p50 && digest_dir_used f d); auto using FI_dput. Qed.
Lemma cache_remove_FI p50 f a : FI f -> FI (cache_remove p50 f a).
Proof.
  intros F. unfold cache_remove. destruct (obj_exists f a); [|apply FI_prune; auto].
  apply FI_prune. apply FI_reseal. set (f1 := dput f (a_digest a) true).
  assert (F1 : FI f1) by (apply FI_dput; auto).
  destruct (oget f1 a) as [e0|] eqn:G; [|apply FI_odel; auto].
  destruct (fi_obj F1 a e0 G) as (i & n & -> & Hi & Hw & Hf).
  unfold chmod_w_through. rewrite resolve_file, Hi.
  destruct F1 as [B W O I]. constructor.
  - intros j m. change (iget (odel (iput f1 i (mk_inode (i_bytes n) true (i_mt n))) a) j) with (iget (iput f1 i (mk_inode (i_bytes n) true (i_mt n))) j).
    rewrite iget_iput. change (next_ino (odel (iput f1 i (mk_inode (i_bytes n) true (i_mt n))) a)) with (next_ino f1).
    destruct (N.eqb_spec i j) as [<-|]; [intros _; eapply B; eauto|apply B].
  - intros p j. change (wget (odel (iput f1 i (mk_inode (i_bytes n) true (i_mt n))) a) p) with (wget f1 p).
    change (iget (odel (iput f1 i (mk_inode (i_bytes n) true (i_mt n))) a) j) with (iget (iput f1 i (mk_inode (i_bytes n) true (i_mt n))) j).
    rewrite iget_iput. destruct (N.eqb_spec i j); [discriminate|apply W].
  - intros b e. rewrite oget_odel. destruct (caddr_eqb_spec a b) as [|NE]; [discriminate|].
    change (oget (iput f1 i (mk_inode (i_bytes n) true (i_mt n))) b) with (oget f1 b). intros H.
    destruct (O b e H) as (j & m & -> & Hj & R). exists j, m. split; auto. split; auto.
    change (iget (odel (iput f1 i (mk_inode (i_bytes n) true (i_mt n))) a) j) with (iget (iput f1 i (mk_inode (i_bytes n) true (i_mt n))) j).
    rewrite iget_iput. destruct (N.eqb_spec i j) as [<-|]; auto. exfalso. apply NE. eapply I; eauto.
  - intros a1 a2 j. rewrite !oget_odel. destruct (caddr_eqb a a1); [discriminate|]. destruct (caddr_eqb a a2); [discriminate|].
    apply I.
Qed.
Lemma cache_removes_FI p50 l : forall f, FI f -> FI (fold_left (cache_remove p50) l f).
Proof. induction l as [|a t IH]; intros f F; cbn [fold_left]; auto using cache_remove_FI. Qed.

(* ---- the records through untrack (move: Repo/ExtShare.v) ---- *)
Lemma wf_recs_filter b b' (p : N * frec -> bool) :
  recs b' = filter p (recs b) -> next_ent b' = next_ent b -> wf_recs b -> wf_recs b'.
Proof.
  intros R NX [K P F]. constructor; rewrite R.
  - apply (sublist_filter_nodup fst p). exact K.
  - intros e1 x1 e2 x2 I1 I2. apply filter_In in I1. apply filter_In in I2. apply (P e1 x1 e2 x2); tauto.
  - intros e x I. apply filter_In in I. rewrite NX. apply (F e x); tauto.
Qed.

(* ---- reachable repositories --------------------------------------------------------------------------------------------------- *)
Fixpoint nodupb (l : list bytes) : bool :=
  match l with [] => true | x :: t => negb (existsb (beqb x) t) && nodupb t end.
Lemma nodupb_spec l : nodupb l = true -> NoDup l.
Proof.
  induction l as [|x t IH]; cbn; [constructor|]. intros H. apply andb_true_iff in H. destruct H as (H1 & H2).
  constructor; auto. intros I. apply negb_true_iff in H1.
  assert (existsb (beqb x) t = true) by (apply existsb_exists; exists x; split; auto; apply beqb_refl). congruence.
Qed.

(* the step is outside the known classes: Repo/Inv.v's monitor for track / carry-in / recheck; for copy, pairwise
   distinct destinations (two sources with one --name-only destination create two entities with one path) *)
(* every value of the switches of Repo/Fix.v: the step of a core item must be clean whichever repairs are in the tree *)
Definition all_fixes : list fixes :=
  flat_map (fun a => flat_map (fun b => flat_map (fun c => map (fun d => {| fixed_P44 := a; fixed_P41 := b; fixed_P49 := c; fixed_P43 := d |})
                                                              [false; true]) [false; true]) [false; true]) [false; true].
Lemma all_fixes_complete fx : In fx all_fixes.
Proof. destruct fx as [[|] [|] [|] [|]]; cbn; tauto. Qed.

Definition xclean (r : xrepo) (it : xitem) : bool :=
  match it with
  | XBase i => negb (mon_item unclean (base r) i) && forallb (fun fx => negb (mon_item_x fx (unclean_x fx) (base r) i)) all_fixes
  | XCopy o s d => match copy_plan o s d r with CPlanned plan _ => nodupb (map cd_path plan) | CRefused _ => true end
  | _ => true
  end.

(* the move command with the pre-check of the P45 fix either refuses (repository unchanged) or is the move *)
Lemma move_cmd45_cases fl o s d r :
  fixed_P3 fl = false -> move_cmd45 fl o s d r = (r, Err) \/ move_cmd45 fl o s d r = move_cmd fl o s d r.
Proof.
  intros P3. unfold move_cmd45. destruct (move_plan s d r) as [oc|l]; [now right|]. rewrite P3.
  destruct (fixed_P45 fl && move_uncommitted o r l); [now left|now right].
Qed.

Lemma move_uncommitted_refused_lemma fl o s d r l :
  fixed_P3 fl = false -> fixed_P45 fl = true -> move_plan s d r = MPlanned l -> move_uncommitted o r l = true ->
  move_cmd45 fl o s d r = (r, Err).
Proof. intros P3 F P U. unfold move_cmd45. rewrite P, P3, F, U. reflexivity. Qed.

Lemma move_cmd45_is_move_lemma fl o s d r :
  fixed_P3 fl = false ->
  (fixed_P45 fl = false \/ forall l, move_plan s d r = MPlanned l -> move_uncommitted o r l = false) ->
  move_cmd45 fl o s d r = move_cmd fl o s d r.
Proof.
  intros P3 H. unfold move_cmd45. destruct (move_plan s d r) as [oc|l] eqn:P; [reflexivity|]. rewrite P3.
  destruct H as [F|U]; [rewrite F; reflexivity|]. rewrite (U l eq_refl), andb_false_r. reflexivity.
Qed.

(* move_plan_ok only looks at the records, the directory records and the workspace paths *)
Lemma move_plan_ok_set_xfs r f l : move_plan_ok r l -> move_plan_ok (set_xfs r f) l.
Proof. intros [MI MN MJ MD]. constructor; auto. Qed.

Lemma xstep_inv fl r it : INV (base r) -> xclean r it = true -> INV (base (fst (do_xitem fl r it))).
Proof.
  intros [F R] C. pose proof (FI_wf_fs _ F) as Wf. pose proof (RI_wf_recs _ R) as Wr.
  destruct it as [i|o s d|o s d|o ts|ts]; cbn [do_xitem xclean] in *.
  - apply andb_true_iff in C. destruct C as [_ C].
    pose proof (proj1 (forallb_forall _ _) C (core fl) (all_fixes_complete (core fl))) as Cx. apply negb_true_iff in Cx.
    destruct (item_spec_x (core fl) (base r) i (conj F R) Cx) as (I & _).
    destruct (do_item_x (core fl) (base r) i) as [b oc]. exact I.
  - unfold copy_cmd3. destruct (copy_plan o s d r) as [oc|plan sk] eqn:PL; [split; auto|].
    apply nodupb_spec in C.
    pose proof (fun c I => proj1 (copy_plan_pairs _ _ _ _ _ _ PL c I)) as A.
    assert (G : forall r0 : xrepo, FI (xfs r0) -> recs (base r0) = recs (base r) -> wf_recs (base r0) ->
                INV (base (fst (copy_apply o r0 plan sk)))).
    { intros r0 F0 R0 W0. destruct (copy_apply o r0 plan sk) as [r' oc] eqn:E. cbn [fst].
      assert (A0 : forall c, In c plan -> plan_acc (recs (base r0)) c) by (intros c I; rewrite R0; auto).
      destruct (copy_apply_shares o r0 plan sk r' oc (FI_wf_fs _ F0) W0 C A0 E) as (_ & _ & W' & _).
      split; [|apply wf_recs_RI; auto]. exact (copy_apply_FI o r0 plan sk r' oc F0 W0 C A0 E). }
    destruct (fixed_P3 fl); [|apply G; auto].
    destruct (copy_unavailable o r plan); [split; auto|].
    destruct (share_pairs_spec plan (xfs r) F) as (FS & _).
    apply G; auto. apply (wf_recs_ext (base r)); auto. cbn. lia.
  - unfold move_cmd45. destruct (move_plan s d r) as [oc|l] eqn:PL.
    { unfold move_cmd. rewrite PL. split; auto. }
    pose proof (move_plan_is_ok s d r l Wr PL) as OKP.
    assert (G : forall r0 : xrepo, FI (xfs r0) -> wf_recs (base r0) -> move_plan_ok r0 l -> INV (base (fst (move_apply fl o r0 l)))).
    { intros r0 F0 W0 OK0. destruct (move_apply fl o r0 l) as [r' oc] eqn:E. cbn [fst].
      split; [exact (move_apply_FI fl o r0 l r' oc F0 W0 OK0 E)|apply wf_recs_RI; exact (move_apply_wf fl o r0 l r' oc (FI_wf_fs _ F0) W0 OK0 E)]. }
    destruct (fixed_P3 fl).
    + destruct (move_unavailable o r l); [split; auto|].
      destruct (share_moves_spec l (xfs r) F) as (FS & _).
      apply G; auto; [apply (wf_recs_ext (base r)); auto; cbn; lia|apply move_plan_ok_set_xfs; auto].
    + destruct (fixed_P45 fl && move_uncommitted o r l); [split; auto|].
      unfold move_cmd. rewrite PL. apply G; auto.
  - unfold remove_cmd. cbv zeta.
    match goal with |- context [match ?cands with Some _ => _ | None => _ end] => destruct cands as [l|] end; cbn [fst]; [|split; auto].
    split; [|apply RI_set_fs; exact R]. change (fs (base (set_xfs r ?f))) with f. apply cache_removes_FI. exact F.
  - unfold untrack_cmd. cbv zeta.
    destruct (negb (fixed_P8 fl) && match select_dirs r ts with [] => false | _ => true end); [split; auto|].
    destruct (materialise fl (xfs r) (select r ts)) as [f1 oc1] eqn:MT.
    assert (F1 : FI f1) by (eapply materialise_FI; [exact F|exact MT]).
    destruct oc1; cbn [fst]; try (split; [exact F1|apply RI_set_fs; exact R]).
    split.
    + change (fs (base (set_xfs ?x ?f))) with f. apply cache_removes_FI. exact F1.
    + apply wf_recs_RI. eapply (wf_recs_filter (base r)); [reflexivity|reflexivity|exact Wr].
Qed.

Inductive xreach (fl : flags) : xrepo -> Prop :=
| xr_init a m t : xreach fl (xinit a m t)
| xr_step r it : xreach fl r -> xclean r it = true -> xreach fl (fst (do_xitem fl r it)).

Theorem xreach_INV fl r : xreach fl r -> INV (base r).
Proof. induction 1; [apply INV_init|apply xstep_inv; auto]. Qed.

Theorem xreach_wf fl r : xreach fl r -> wf_fs (xfs r) /\ objs_bounded (xfs r) /\ wf_recs (base r).
Proof.
  intros X. destruct (xreach_INV fl r X) as [F R]. auto using FI_wf_fs, FI_objs_bounded, RI_wf_recs.
Qed.

(* ---- the theorems of Repo/ExtProofs.v for every reachable repository ------------------------------------------------------ *)
Theorem copy_shares_reachable fl o src dst r r' oc plan sk :
  xreach fl r -> copy_plan o src dst r = CPlanned plan sk -> NoDup (map cd_path plan) ->
  copy_cmd o src dst r = (r', oc) ->
  objs (xfs r') = objs (xfs r) /\ (forall a b, holds (xfs r) a b -> holds (xfs r') a b) /\
  forall c, In c plan -> copy_result o r r' oc c.
Proof.
  intros X PL ND E. destruct (xreach_wf fl r X) as (Wf & _ & Wr).
  destruct (copy_cmd_shares o src dst r r' oc plan sk Wf Wr PL ND E) as (A & B & _ & _ & C). auto.
Qed.

Theorem move_count_reachable fl o src dst r r' oc l :
  xreach fl r -> move_plan src dst r = MPlanned l -> move_cmd fl o src dst r = (r', oc) ->
  length (recs (base r')) = length (recs (base r)) /\
  objs (xfs r') = objs (xfs r) /\ (forall a b, holds (xfs r) a b -> holds (xfs r') a b) /\
  (forall e x d, In (e, x, d) l -> move_result r r' e x d) /\
  (oc = Ok -> forall e x d, In (e, x, d) l -> ws_exists (xfs r') (r_path x) = false).
Proof.
  intros X PL E. destruct (xreach_wf fl r X) as (Wf & _ & Wr). exact (move_cmd_spec fl o src dst r r' oc l Wf Wr PL E).
Qed.

Theorem absent_source_reachable fl o src dst r e x dg c :
  xreach fl r ->
  sources r src = [(e, x)] -> ends_slash dst = false -> stored r dst = false ->
  ws_meta (xfs r) (r_path x) = None ->
  r_digest x = Some dg -> extension dst = extension (r_path x) -> holds (xfs r) (cache_addr (r_path x) dg) c ->
  ws_lexists (xfs r) dst = false ->
  exists r', copy_cmd o src dst r = (r', Ok) /\
    (exists e' y, In (e', y) (recs (base r')) /\ copied_as o x y dst) /\
    (c_no_recheck o = false -> ws_read (xfs r') dst = Some c).
Proof.
  intros X. destruct (xreach_wf fl r X) as (Wf & _ & Wr). exact (copy_absent_source o src dst r e x dg c Wf Wr).
Qed.

Theorem untrack_reachable fl targets r r' oc :
  xreach fl r -> untrack_cmd fl targets r = (r', oc) ->
  let tg := select r targets in
  (forall a, obj_present (xfs r) a -> ~ obj_present (xfs r') a ->
     forall e x, In (e, x) (recs (base r)) -> refers x a = true -> is_target tg e = true) /\
  (forall a en, oget (xfs r') a = Some en -> oget (xfs r) a = Some en) /\
  (forall e x, In (e, x) (recs (base r)) -> is_target tg e = false ->
     In (e, x) (recs (base r')) /\
     forall d c, In d (r_hist x) -> holds (xfs r) (cache_addr (r_path x) d) c -> holds (xfs r') (cache_addr (r_path x) d) c) /\
  (oc = Ok -> forall e x, In (e, x) tg ->
     (forall k v, In (k, v) (recs (base r')) -> r_path v <> r_path x) /\
     forall c, mat_pre fl (xfs r) x c -> private_file (xfs r') (r_path x) c).
Proof.
  intros X E. destruct (xreach_wf fl r X) as (Wf & Ob & Wr). exact (untrack_cmd_spec fl targets r r' oc Wf Ob Wr E).
Qed.

(* ---- the repair of P3 for every reachable repository ------------------------------------------------------------------------- *)
Theorem copy_fixed_reachable fl o src dst r r' oc plan sk :
  fixed_P3 fl = true -> xreach fl r ->
  copy_plan o src dst r = CPlanned plan sk -> NoDup (map cd_path plan) -> copy_unavailable o r plan = false ->
  copy_cmd3 fl o src dst r = (r', oc) ->
  (forall a e, oget (xfs r) a = Some e -> oget (xfs r') a = Some e) /\
  (forall a b, holds (xfs r) a b -> holds (xfs r') a b) /\
  (forall a, oget (xfs r') a <> None -> oget (xfs r) a <> None \/
     exists c dg, In c plan /\ r_digest (cs_rec c) = Some dg /\ a = cache_addr (cd_path c) dg) /\
  forall c, In c plan -> copy_result3 o r r' oc c.
Proof.
  intros P3 X PL ND U E. destruct (xreach_INV fl r X) as [F R].
  destruct (copy_cmd3_spec fl o src dst r r' oc plan sk P3 F (RI_wf_recs _ R) PL ND U E) as (A & B & C & _ & _ & D). auto.
Qed.

Theorem move_fixed_reachable fl o src dst r r' oc l :
  fixed_P3 fl = true -> xreach fl r ->
  move_plan src dst r = MPlanned l -> move_unavailable o r l = false ->
  move_cmd45 fl o src dst r = (r', oc) ->
  length (recs (base r')) = length (recs (base r)) /\
  (forall a e, oget (xfs r) a = Some e -> oget (xfs r') a = Some e) /\
  (forall a b, holds (xfs r) a b -> holds (xfs r') a b) /\
  (forall a, oget (xfs r') a <> None -> oget (xfs r) a <> None \/
     exists e x d dg, In (e, x, d) l /\ In dg (r_hist x) /\ a = cache_addr d dg) /\
  (forall e x d, In (e, x, d) l -> move_result r r' e x d /\
     forall dg b, In dg (r_hist x) -> holds (xfs r) (cache_addr (r_path x) dg) b ->
       exists b', holds (xfs r') (cache_addr d dg) b' /\ strip_crlf b' = strip_crlf b) /\
  (oc = Ok -> forall e x d, In (e, x, d) l -> ws_exists (xfs r') (r_path x) = false).
Proof.
  intros P3 X PL U E. destruct (xreach_INV fl r X) as [F R].
  destruct (move_cmd45_spec3 fl o src dst r r' oc l P3 F (RI_wf_recs _ R) PL U E) as (A & B & C & D & _ & _ & G & H).
  split; [exact A|]. split; [exact B|]. split; [exact C|]. split; [exact D|]. split; [exact G|exact H].
Qed.

Theorem copy_single_reachable fl o src dst r r' oc c sk dg b :
  fixed_P3 fl = true -> xreach fl r ->
  copy_plan o src dst r = CPlanned [c] sk -> copy_unavailable o r [c] = false ->
  copy_cmd3 fl o src dst r = (r', oc) ->
  r_digest (cs_rec c) = Some dg -> holds (xfs r) (cache_addr (r_path (cs_rec c)) dg) b ->
  obj_exists (xfs r) (cache_addr (cd_path c) dg) = false ->
  holds (xfs r') (cache_addr (cd_path c) dg) b /\ oget (xfs r) (cache_addr (cd_path c) dg) = None.
Proof.
  intros P3 X PL U E RD H NE. destruct (xreach_INV fl r X) as [F R].
  exact (copy_cmd3_single fl o src dst r r' oc c sk dg b P3 F (RI_wf_recs _ R) PL U E RD H NE).
Qed.

(* ---- C19 as one statement with a class parameter ------------------------------------------------------------------------------
   [C19_copy_at fl K]: for the command as the histories run it (copy_cmd3 fl), from every reachable repository, every planned
   pair outside K ends with the destination's OWN cache address holding the committed content (bytes with the normal form
   of the source's object: equal digests; the same bytes when the address is the source's or the command made the object),
   and unless --no-recheck the destination reads them.  [C19_move_at fl K]: the same for every recorded version of a
   moved entity.  The class of P3 follows the switch: *)
Definition ext_differs (s d : path) : bool := negb (beqb (extension d) (extension s)).
Definition K_cross_ext_fl (fl : flags) (s d : path) : bool := negb (fixed_P3 fl) && ext_differs s d.

Definition C19_copy_at (fl : flags) (K : path -> path -> bool) : Prop :=
  forall r o src dst plan sk r' oc,
    xreach fl r -> copy_plan o src dst r = CPlanned plan sk -> NoDup (map cd_path plan) ->
    copy_cmd3 fl o src dst r = (r', oc) -> oc <> Panic -> copy_unavailable o r plan = false ->
    forall c dg b, In c plan -> K (r_path (cs_rec c)) (cd_path c) = false ->
      r_digest (cs_rec c) = Some dg -> holds (xfs r) (cache_addr (r_path (cs_rec c)) dg) b ->
      exists b', holds (xfs r') (cache_addr (cd_path c) dg) b' /\ strip_crlf b' = strip_crlf b /\
                 (c_no_recheck o = false -> ws_read (xfs r') (cd_path c) = Some b').
Definition C19_move_at (fl : flags) (K : path -> path -> bool) : Prop :=
  forall r o src dst l r' oc,
    xreach fl r -> move_plan src dst r = MPlanned l -> move_cmd45 fl o src dst r = (r', oc) -> oc = Ok ->
    forall e x d dg b, In (e, x, d) l -> K (r_path x) d = false ->
      In dg (r_hist x) -> holds (xfs r) (cache_addr (r_path x) dg) b ->
      move_result r r' e x d /\ exists b', holds (xfs r') (cache_addr d dg) b' /\ strip_crlf b' = strip_crlf b.

Lemma ext_differs_false s d : ext_differs s d = false -> extension d = extension s.
Proof. unfold ext_differs. destruct (beqb_spec (extension d) (extension s)); [auto|discriminate]. Qed.

Theorem copy_outside_class fl : C19_copy_at fl (K_cross_ext_fl fl).
Proof.
  intros r o src dst plan sk r' oc X PL ND E NP U c dg b I K RD H. unfold K_cross_ext_fl in K.
  destruct (fixed_P3 fl) eqn:P3.
  - destruct (copy_fixed_reachable fl o src dst r r' oc plan sk P3 X PL ND U E) as (_ & _ & _ & RES).
    destruct (RES c I) as (e & y & _ & _ & G). destruct (G dg b RD H) as (b' & H' & N & RE).
    exists b'. split; [exact H'|]. split; [exact N|]. intros NR. apply RE; auto.
  - cbn in K. apply ext_differs_false in K. rewrite (copy_cmd3_as_is fl o src dst r P3) in E.
    destruct (copy_shares_reachable fl o src dst r r' oc plan sk X PL ND E) as (_ & HO & RES).
    destruct (RES c I) as (e & y & _ & _ & G). destruct (G dg RD K) as (AE & RE).
    exists b. rewrite AE. split; [apply HO; exact H|]. split; [reflexivity|]. intros NR. apply RE; auto.
Qed.

Theorem move_outside_class fl : C19_move_at fl (K_cross_ext_fl fl).
Proof.
  intros r o src dst l r' oc X PL E OK e x d dg b I K ID H. unfold K_cross_ext_fl in K.
  destruct (fixed_P3 fl) eqn:P3.
  - destruct (move_unavailable o r l) eqn:U.
    + rewrite (move_cmd45_refused3 fl o src dst r l P3 PL U) in E. injection E as _ <-. discriminate.
    + destruct (move_fixed_reachable fl o src dst r r' oc l P3 X PL U E) as (_ & _ & _ & _ & RES & _).
      destruct (RES e x d I) as (MR & G). split; [exact MR|]. exact (G dg b ID H).
  - cbn in K. apply ext_differs_false in K.
    destruct (move_cmd45_cases fl o src dst r P3) as [E45|E45]; rewrite E45 in E.
    + injection E as _ <-. discriminate.
    + destruct (move_count_reachable fl o src dst r r' oc l X PL E) as (_ & _ & HO & RES & _).
      split; [exact (RES e x d I)|]. exists b. split; [|reflexivity].
      rewrite (same_ext_same_addr d (r_path x) dg K). apply HO. exact H.
Qed.

Lemma copy_at_weaken fl (K K' : path -> path -> bool) :
  (forall s d, K' s d = false -> K s d = false) -> C19_copy_at fl K -> C19_copy_at fl K'.
Proof. intros W A r o src dst plan sk r' oc X PL ND E NP U c dg b I KF. apply (A r o src dst plan sk r' oc); auto. Qed.
Lemma move_at_weaken fl (K K' : path -> path -> bool) :
  (forall s d, K' s d = false -> K s d = false) -> C19_move_at fl K -> C19_move_at fl K'.
Proof. intros W A r o src dst l r' oc X PL E OK e x d dg b I KF. apply (A r o src dst l r' oc); auto. Qed.

Theorem full_when_fixed fl : fixed_P3 fl = true ->
  C19_copy_at fl (fun _ _ => false) /\ C19_move_at fl (fun _ _ => false).
Proof.
  intros P3. split.
  - apply (copy_at_weaken fl (K_cross_ext_fl fl)); [|apply copy_outside_class].
    intros s d _. unfold K_cross_ext_fl. now rewrite P3.
  - apply (move_at_weaken fl (K_cross_ext_fl fl)); [|apply move_outside_class].
    intros s d _. unfold K_cross_ext_fl. now rewrite P3.
Qed.

Lemma K_cross_ext_empty_when_fixed_lemma fl s d : fixed_P3 fl = true -> K_cross_ext_fl fl s d = false.
Proof. intros P3. unfold K_cross_ext_fl. now rewrite P3. Qed.

(* reachable repositories exist and the class predicate is decidable: a run of a history *)
Fixpoint xrun_clean (fl : flags) (r : xrepo) (h : list xitem) : bool :=
  match h with
  | [] => true
  | it :: t => xclean r it && xrun_clean fl (fst (do_xitem fl r it)) t
  end.
Lemma xrun_reach fl h : forall r, xreach fl r -> xrun_clean fl r h = true -> xreach fl (run_xitems fl r h).
Proof.
  induction h as [|it t IH]; intros r X C; cbn in *; auto.
  apply andb_true_iff in C. destruct C as (C1 & C2). apply IH; auto. now apply xr_step.
Qed.

(* ---- P3, the code as it is: concrete refutations of the statement without a class --------------------------------------------- *)
Definition h_cross : list xitem := [XBase (UWrite s_a_txt s_hello); XBase (XTrack t_plain [s_a_txt])].
Definition c_norecheck : copy_opts := {| c_as := None; c_cforce := false; c_no_recheck := true; c_name_only := false |}.
Definition x_a_txt : frec := mk_frec s_a_txt (Some (6%N, 2%N)) (Some (digest_of B3 Auto s_hello)) [digest_of B3 Auto s_hello] Copy Auto.
Lemma h_cross_reach fl : xrun_clean fl r0 h_cross = true -> xreach fl (run_xitems fl r0 h_cross).
Proof. intros C. apply (xrun_reach fl h_cross r0); [apply xr_init|exact C]. Qed.

Lemma cross_ext_copy_refuted_lemma : ~ C19_copy_at as_is (fun _ _ => false).
Proof.
  intros F.
  pose (r := run_xitems as_is r0 h_cross).
  pose (c := plan_pair r x_a_txt s_b_dat).
  destruct (F r c_norecheck s_a_txt s_b_dat [c] false (fst (copy_cmd3 as_is c_norecheck s_a_txt s_b_dat r)) Ok
              (h_cross_reach as_is eq_refl)) with (c := c) (dg := digest_of B3 Auto s_hello) (b := s_hello)
    as (b' & (i & n & O & _) & _).
  - vm_compute; reflexivity.
  - constructor; [intros []|constructor].
  - vm_compute; reflexivity.
  - discriminate.
  - reflexivity.
  - now left.
  - reflexivity.
  - reflexivity.
  - exists 1%N. eexists. vm_compute. repeat split; reflexivity.
  - vm_compute in O. discriminate.
Qed.

Lemma cross_ext_move_refuted_lemma : ~ C19_move_at as_is (fun _ _ => false).
Proof.
  intros F.
  pose (r := run_xitems as_is r0 h_cross).
  destruct (F r m_plain s_a_txt s_b_dat [(2%N, x_a_txt, s_b_dat)] (fst (move_cmd45 as_is m_plain s_a_txt s_b_dat r)) Ok
              (h_cross_reach as_is eq_refl)) with (e := 2%N) (x := x_a_txt) (d := s_b_dat) (dg := digest_of B3 Auto s_hello) (b := s_hello)
    as (_ & b' & (i & n & O & _) & _).
  - vm_compute; reflexivity.
  - vm_compute; reflexivity.
  - reflexivity.
  - now left.
  - reflexivity.
  - now left.
  - exists 1%N. eexists. vm_compute. repeat split; reflexivity.
  - vm_compute in O. discriminate.
Qed.


(* ---- C04: copy and move never delete or alter a cache object (both values of every switch) -------------------------------------- *)
Definition is_copy_or_move (it : xitem) : bool := match it with XCopy _ _ _ | XMove _ _ _ => true | _ => false end.

Lemma kept_obj_read f f' a e :
  FI f -> oget f a = Some e -> oget f' a = Some e -> (forall b, holds f a b -> holds f' a b) -> obj_read f' a = obj_read f a.
Proof.
  intros F O O' HO. destruct (fi_obj F a e O) as (i & n & -> & Hi & _).
  assert (H : holds f a (i_bytes n)) by (exists i, n; auto).
  rewrite (holds_obj_read _ _ _ H). exact (holds_obj_read _ _ _ (HO _ H)).
Qed.

Theorem copy_move_retain fl r it a e :
  xreach fl r -> xclean r it = true -> is_copy_or_move it = true -> oget (xfs r) a = Some e ->
  oget (xfs (fst (do_xitem fl r it))) a = Some e /\ obj_read (xfs (fst (do_xitem fl r it))) a = obj_read (xfs r) a.
Proof.
  intros X C M O. destruct (xreach_INV fl r X) as [F R]. pose proof (RI_wf_recs _ R) as Wr. pose proof (FI_wf_fs _ F) as Wf.
  assert (SAME : oget (xfs r) a = Some e /\ obj_read (xfs r) a = obj_read (xfs r) a) by auto.
  assert (KEPT : forall r' : xrepo, oget (xfs r') a = Some e -> (forall b, holds (xfs r) a b -> holds (xfs r') a b) ->
                 oget (xfs r') a = Some e /\ obj_read (xfs r') a = obj_read (xfs r) a).
  { intros r' O' HO. split; [exact O'|]. eapply kept_obj_read; eauto. }
  destruct it as [i|o s d|o s d|o ts|ts]; try discriminate; cbn [do_xitem xclean] in *.
  - destruct (copy_plan o s d r) as [oc|plan sk] eqn:PL.
    { unfold copy_cmd3. rewrite PL. exact SAME. }
    apply nodupb_spec in C.
    destruct (fixed_P3 fl) eqn:P3.
    + destruct (copy_unavailable o r plan) eqn:U.
      * rewrite (copy_cmd3_refused fl o s d r plan sk P3 PL U). exact SAME.
      * destruct (copy_cmd3 fl o s d r) as [r' oc] eqn:E. cbn [fst].
        destruct (copy_cmd3_spec fl o s d r r' oc plan sk P3 F Wr PL C U E) as (KO & HO & _). apply KEPT; auto.
    + rewrite (copy_cmd3_as_is fl o s d r P3). destruct (copy_cmd o s d r) as [r' oc] eqn:E. cbn [fst].
      destruct (copy_cmd_shares o s d r r' oc plan sk Wf Wr PL C E) as (OB & HO & _). apply KEPT; auto.
      unfold oget. rewrite OB. exact O.
  - destruct (move_plan s d r) as [oc|l] eqn:PL.
    { unfold move_cmd45, move_cmd. rewrite PL. exact SAME. }
    destruct (fixed_P3 fl) eqn:P3.
    + destruct (move_unavailable o r l) eqn:U.
      * rewrite (move_cmd45_refused3 fl o s d r l P3 PL U). exact SAME.
      * destruct (move_cmd45 fl o s d r) as [r' oc] eqn:E. cbn [fst].
        destruct (move_cmd45_spec3 fl o s d r r' oc l P3 F Wr PL U E) as (_ & KO & HO & _). apply KEPT; auto.
    + destruct (move_cmd45_cases fl o s d r P3) as [E45|E45]; rewrite E45; [exact SAME|].
      destruct (move_cmd fl o s d r) as [r' oc] eqn:E. cbn [fst].
      destruct (move_cmd_spec fl o s d r r' oc l Wf Wr PL E) as (_ & OB & HO & _). apply KEPT; auto.
      unfold oget. rewrite OB. exact O.
Qed.

(* ---- the repair of P50: XvcCachePath::remove leaves the directories that still hold objects read-only ---------------- *)
Lemma dget_ddel f d d' : dget (ddel f d) d' = if digest_eqb d d' then None else dget f d'.
Proof. unfold dget, ddel, set_dirw; cbn [dirw]. apply (@get_del _ _ _ digest_eqb_spec). Qed.
Lemma obj_uses_dir f b : oget f b <> None -> digest_dir_used f (a_digest b) = true.
Proof.
  intros H. destruct (oget f b) as [e|] eqn:G; [|congruence].
  unfold oget in G. apply (@get_In _ _ _ caddr_eqb_spec) in G.
  unfold digest_dir_used. apply existsb_exists. exists (b, e). split; [exact G|].
  cbn [fst]. destruct (digest_eqb_spec (a_digest b) (a_digest b)); congruence.
Qed.
Lemma DRO_prune f d : DRO f -> DRO (prune f d).
Proof.
  intros D. unfold prune. destruct (digest_dir_used f d) eqn:U; [exact D|].
  intros b H. change (oget (ddel f d) b) with (oget f b) in H. rewrite dget_ddel.
  destruct (digest_eqb_spec d (a_digest b)) as [->|NE]; [|apply D; exact H].
  rewrite (obj_uses_dir f b H) in U. discriminate.
Qed.
Lemma cache_remove_DRO f a : DRO f -> DRO (cache_remove true f a).
Proof.
  intros D. unfold cache_remove. destruct (obj_exists f a); [|apply DRO_prune; exact D].
  apply DRO_prune. set (f1 := dput f (a_digest a) true).
  set (f2 := match oget f1 a with Some e => chmod_w_through f1 e | None => f1 end).
  assert (O2 : forall b, oget f2 b = oget f b).
  { intros b. unfold f2. destruct (oget f1 a) as [e|]; [|reflexivity].
    unfold chmod_w_through. destruct (resolve f1 link_fuel e) as [i|]; [|reflexivity]. destruct (iget f1 i); reflexivity. }
  assert (D2 : forall d, dget f2 d = dget f1 d).
  { intros d. unfold f2. destruct (oget f1 a) as [e|]; [|reflexivity].
    unfold chmod_w_through. destruct (resolve f1 link_fuel e) as [i|]; [|reflexivity]. destruct (iget f1 i); reflexivity. }
  unfold reseal. cbn [andb]. intros b H.
  assert (Hb : oget (odel f2 a) b <> None).
  { destruct (digest_dir_used (odel f2 a) (a_digest a)); exact H. }
  assert (Hf : oget f b <> None).
  { rewrite oget_odel in Hb. destruct (caddr_eqb a b); [congruence|]. rewrite O2 in Hb. exact Hb. }
  destruct (digest_eqb_spec (a_digest a) (a_digest b)) as [E|NE].
  - rewrite E. rewrite (obj_uses_dir _ b Hb). rewrite dget_dput.
    destruct (digest_eqb_spec (a_digest b) (a_digest b)); congruence.
  - assert (G : dget (odel f2 a) (a_digest b) = Some false).
    { rewrite dget_odel, D2. unfold f1. rewrite dget_dput. destruct (digest_eqb_spec (a_digest a) (a_digest b)); [congruence|]. apply D; exact Hf. }
    destruct (digest_dir_used (odel f2 a) (a_digest a)); [|exact G].
    rewrite dget_dput. destruct (digest_eqb_spec (a_digest a) (a_digest b)); [congruence|exact G].
Qed.
Lemma cache_removes_DRO l : forall f, DRO f -> DRO (fold_left (cache_remove true) l f).
Proof. induction l as [|a t IH]; intros f D; cbn [fold_left]; auto using cache_remove_DRO. Qed.

(* the re-materialisation loop of untrack leaves the object table and the object directories alone *)
Lemma rfc_cache_same f p a m :
  objs (fst (recheck_from_cache f p a m)) = objs f /\ dirw (fst (recheck_from_cache f p a m)) = dirw f.
Proof.
  unfold recheck_from_cache. cbv zeta.
  set (f0 := if ws_exists f p then wdel f p else f).
  assert (E0 : objs f0 = objs f /\ dirw f0 = dirw f) by (unfold f0; destruct (ws_exists f p); split; reflexivity).
  destruct E0 as (Eo & Ed).
  destruct m.
  - destruct (obj_read f0 a); [|cbn [fst]; auto]. destruct (wget f0 p) as [[?|?]|]; cbn [fst]; auto.
  - destruct (wget f0 p); [cbn [fst]; auto|]. destruct (oget f0 a) as [[?|?]|]; cbn [fst]; auto.
  - destruct (wget f0 p); cbn [fst]; auto.
  - destruct (obj_read f0 a); [|cbn [fst]; auto]. destruct (wget f0 p) as [[?|?]|]; cbn [fst]; auto.
Qed.
Lemma materialise_cache_same fl : forall tg f f' oc, materialise fl f tg = (f', oc) -> objs f' = objs f /\ dirw f' = dirw f.
Proof.
  induction tg as [|[e x] t IH]; intros f f' oc; cbn [materialise].
  - intros E; injection E as <- <-; auto.
  - destruct (wget f (r_path x)) as [en|].
    2:{ destruct (fixed_P8 fl); [apply IH|intros E; injection E as <- <-; auto]. }
    destruct (r_digest x) as [d|].
    2:{ destruct en; [apply IH|]. destruct (fixed_P8 fl); [apply IH|intros E; injection E as <- <-; auto]. }
    destruct (needs_copy fl f en (cache_addr (r_path x) d)); [|apply IH].
    destruct (fixed_P47 fl && negb (obj_exists f (cache_addr (r_path x) d))); [apply IH|].
    destruct (rfc_cache_same f (r_path x) (cache_addr (r_path x) d) Copy) as (Eo & Ed).
    destruct (recheck_from_cache f (r_path x) (cache_addr (r_path x) d) Copy) as [f1 [| |]]; cbn [fst] in Eo, Ed.
    + intros E. destruct (IH _ _ _ E) as (A & B). split; congruence.
    + intros E; injection E as <- <-; auto.
    + intros E; injection E as <- <-; auto.
Qed.
Lemma DRO_same f g : objs g = objs f -> dirw g = dirw f -> DRO f -> DRO g.
Proof. intros Eo Ed D b. unfold oget, dget. rewrite Eo, Ed. apply D. Qed.

Theorem remove_cmd_DRO fl o targets r :
  fixed_P50 fl = true -> DRO (xfs r) -> DRO (xfs (fst (remove_cmd fl o targets r))).
Proof.
  intros P D. unfold remove_cmd. cbv zeta. rewrite P.
  match goal with |- context [match ?cands with Some _ => _ | None => _ end] => destruct cands as [l|] end; cbn [fst]; [|exact D].
  change (xfs (set_xfs r ?f)) with f. apply cache_removes_DRO. exact D.
Qed.
Theorem untrack_cmd_DRO fl targets r :
  fixed_P50 fl = true -> DRO (xfs r) -> DRO (xfs (fst (untrack_cmd fl targets r))).
Proof.
  intros P D. unfold untrack_cmd. cbv zeta. rewrite P.
  destruct (negb (fixed_P8 fl) && match select_dirs r targets with [] => false | _ => true end); [exact D|].
  destruct (materialise fl (xfs r) (select r targets)) as [f1 oc1] eqn:MT.
  destruct (materialise_cache_same _ _ _ _ _ MT) as (Eo & Ed).
  assert (D1 : DRO f1) by (apply (DRO_same (xfs r)); auto).
  destruct oc1; cbn [fst]; try exact D1.
  change (xfs (set_xfs ?x ?f)) with f. apply cache_removes_DRO. exact D1.
Qed.

(* one XvcCachePath::remove, both values of the switch: the directories stay read-only unless the deleted file leaves a
   sibling (another extension of the same digest) behind and the repair is absent *)
Definition K_sibling_left (p50 : bool) (f : fsys) (a : caddr) : bool :=
  negb p50 && obj_exists f a &&
  existsb (fun be => digest_eqb (a_digest (fst be)) (a_digest a) && negb (caddr_eqb (fst be) a)) (objs f).
Lemma K_sibling_left_empty_when_fixed_lemma f a : K_sibling_left true f a = false.
Proof. reflexivity. Qed.
Lemma In_del_objs (m : list (caddr * entry)) a b e : In (b, e) (del caddr_eqb m a) -> In (b, e) m /\ b <> a.
Proof.
  induction m as [|[k v] t IH]; cbn [del]; [intros []|].
  destruct (caddr_eqb_spec k a) as [->|NE].
  - intros I. destruct (IH I). split; [right|]; auto.
  - intros [E|I]; [injection E as -> ->; split; [left; reflexivity|exact NE]|destruct (IH I); split; [right|]; auto].
Qed.
Lemma cache_remove_DRO_outside p50 f a : K_sibling_left p50 f a = false -> DRO f -> DRO (cache_remove p50 f a).
Proof.
  destruct p50; [intros _; apply cache_remove_DRO|].
  intros K D. unfold cache_remove. unfold K_sibling_left in K. cbn [negb andb] in K.
  destruct (obj_exists f a); [|apply DRO_prune; exact D]. cbn [andb] in K.
  unfold reseal. cbn [andb]. set (f1 := dput f (a_digest a) true).
  set (f2 := match oget f1 a with Some e => chmod_w_through f1 e | None => f1 end).
  assert (O2 : objs f2 = objs f).
  { unfold f2. destruct (oget f1 a) as [e|]; [|reflexivity].
    unfold chmod_w_through. destruct (resolve f1 link_fuel e) as [i|]; [|reflexivity]. destruct (iget f1 i); reflexivity. }
  assert (D2 : forall d, dget f2 d = dget f1 d).
  { intros d. unfold f2. destruct (oget f1 a) as [e|]; [|reflexivity].
    unfold chmod_w_through. destruct (resolve f1 link_fuel e) as [i|]; [|reflexivity]. destruct (iget f1 i); reflexivity. }
  assert (U : digest_dir_used (odel f2 a) (a_digest a) = false).
  { destruct (digest_dir_used (odel f2 a) (a_digest a)) eqn:U; [|reflexivity]. exfalso.
    unfold digest_dir_used in U. apply existsb_exists in U. destruct U as ([b e] & I & E). cbn [fst] in E.
    unfold odel, set_objs in I. cbn [objs] in I. rewrite O2 in I. apply In_del_objs in I. destruct I as (I & NE).
    assert (X : existsb (fun be : caddr * entry => digest_eqb (a_digest (fst be)) (a_digest a) && negb (caddr_eqb (fst be) a)) (objs f) = true).
    { apply existsb_exists. exists (b, e). split; [exact I|]. cbn [fst]. rewrite E. destruct (caddr_eqb_spec b a); [contradiction|reflexivity]. }
    rewrite X in K. discriminate. }
  unfold prune. rewrite U. intros b H.
  change (oget (ddel (odel f2 a) (a_digest a)) b) with (oget (odel f2 a) b) in H.
  rewrite dget_ddel. destruct (digest_eqb_spec (a_digest a) (a_digest b)) as [E|NE].
  - rewrite E in U. rewrite (obj_uses_dir _ b H) in U. discriminate.
  - rewrite dget_odel, D2. unfold f1. rewrite dget_dput. destruct (digest_eqb_spec (a_digest a) (a_digest b)); [congruence|].
    apply D. rewrite oget_odel in H. destruct (caddr_eqb a b); [congruence|]. unfold oget in *. rewrite O2 in H. exact H.
Qed.

(* a decision procedure for DRO (for the concrete witnesses) *)
Definition DRO_b (f : fsys) : bool :=
  forallb (fun ae : caddr * entry => match dget f (a_digest (fst ae)) with Some false => true | _ => false end) (objs f).
Lemma DRO_b_sound f : DRO_b f = true -> DRO f.
Proof.
  unfold DRO_b. rewrite forallb_forall. intros H b Hb. destruct (oget f b) as [e|] eqn:G; [|congruence].
  unfold oget in G. apply (@get_In _ _ _ caddr_eqb_spec) in G. specialize (H _ G). cbn [fst] in H.
  destruct (dget f (a_digest b)) as [[|]|]; congruence.
Qed.
