(* The directories of the cache objects stay read-only over WHOLE histories of the extended repository model
   (Repo/Ext.v): user actions, track / carry-in / recheck, copy, move, remove, untrack.  Repo/ExtReach.v proves the
   step for remove / untrack, Repo/FixProofs.v the one for the base commands; this file adds copy and move (the
   records change, the workspace changes, copy_cache_file_for_path -- the repair of P3 -- creates a sibling object and
   leaves its directory read-only) and the induction over histories. *)
From Coq Require Import List Bool NArith Lia.
From XV Require Import Base.Amap Base.Bytes Repo.Model Repo.Proofs Repo.Inv Repo.Fix Repo.FixProofs Glob.Match Repo.Ext Repo.ExtProofs Repo.ExtShare Repo.ExtReach.
Import ListNotations.

(* ---- copy_cache_file_for_path ------------------------------------------------------------------------------------ *)
Lemma share_object_DRO f s p d : DRO f -> DRO (share_object f s p d).
Proof.
  intros D. rewrite share_object_unfold.
  destruct (obj_exists f (cache_addr p d)); [exact D|].
  destruct (obj_read f (cache_addr s d)) as [c|]; [|exact D].
  intros b. unfold alloc. autorewrite with fsdb.
  destruct (digest_eqb_spec d (a_digest b)) as [E|NE]; [reflexivity|].
  destruct (caddr_eqb_spec (cache_addr p d) b) as [<-|NB]; [exfalso; apply NE; reflexivity|].
  apply D.
Qed.
Lemma share_pair_DRO f c : DRO f -> DRO (share_pair f c).
Proof. intros D. unfold share_pair. destruct (r_digest (cs_rec c)); auto using share_object_DRO. Qed.
Lemma share_pairs_DRO plan : forall f, DRO f -> DRO (fold_left share_pair plan f).
Proof. induction plan as [|c t IH]; intros f D; cbn [fold_left]; auto using share_pair_DRO. Qed.
Lemma share_hist_DRO s p ds : forall f, DRO f -> DRO (fold_left (fun f dg => share_object f s p dg) ds f).
Proof. induction ds as [|d t IH]; intros f D; cbn [fold_left]; auto using share_object_DRO. Qed.
Lemma share_moved_DRO f ed : DRO f -> DRO (share_moved f ed).
Proof. destruct ed as [[e x] d]. intros D. unfold share_moved. apply share_hist_DRO, D. Qed.
Lemma share_moves_DRO l : forall f, DRO f -> DRO (fold_left share_moved l f).
Proof. induction l as [|ed t IH]; intros f D; cbn [fold_left]; auto using share_moved_DRO. Qed.

(* ---- what only touches the records ------------------------------------------------------------------------------ *)
Lemma xfs_add_parent_dirs r p : xfs (add_parent_dirs r p) = xfs r.
Proof.
  unfold add_parent_dirs. generalize (parents p). intros l. revert r.
  induction l as [|q t IH]; intros r; cbn [fold_left]; [reflexivity|].
  rewrite IH. destruct (stored r q); reflexivity.
Qed.
Lemma xfs_copy_records_one o r c : xfs (copy_records_one o r c) = xfs r.
Proof. unfold copy_records_one. destruct (cd_ent c); cbv zeta; rewrite xfs_add_parent_dirs; reflexivity. Qed.
Lemma xfs_copy_records o plan : forall r, xfs (fold_left (copy_records_one o) plan r) = xfs r.
Proof. induction plan as [|c t IH]; intros r; cbn [fold_left]; [reflexivity|]. rewrite IH. apply xfs_copy_records_one. Qed.
Lemma xfs_move_path_one r ed : xfs (move_path_one r ed) = xfs r.
Proof. destruct ed as [[e x] d]. unfold move_path_one. rewrite xfs_add_parent_dirs. reflexivity. Qed.
Lemma xfs_move_paths l : forall r, xfs (fold_left move_path_one l r) = xfs r.
Proof. induction l as [|c t IH]; intros r; cbn [fold_left]; [reflexivity|]. rewrite IH. apply xfs_move_path_one. Qed.
Lemma fs_set_method b em : fs (set_method b em) = fs b.
Proof. unfold set_method. destruct (rget b (fst em)); reflexivity. Qed.
Lemma fs_set_methods ups : forall b, fs (fold_left set_method ups b) = fs b.
Proof. induction ups as [|u t IH]; intros b; cbn [fold_left]; [reflexivity|]. rewrite IH. apply fs_set_method. Qed.

(* ---- recheck of the destinations: the object table and the object directories are left alone ------------------------ *)
Lemma recheck_dests_cache_same : forall ps r r' oc, recheck_dests r ps = (r', oc) ->
  objs (xfs r') = objs (xfs r) /\ dirw (xfs r') = dirw (xfs r).
Proof.
  induction ps as [|p t IH]; intros r r' oc; cbn [recheck_dests].
  - intros E; injection E as <- _; auto.
  - destruct (find_path (recs (base r)) p) as [[e0 x0]|]; [|intros E; injection E as <- _; auto].
    destruct (r_digest x0) as [d0|]; [|intros E; injection E as <- _; auto].
    destruct (rfc_cache_same (xfs r) p (cache_addr p d0) (r_method x0)) as (Eo & Ed).
    destruct (recheck_from_cache (xfs r) p (cache_addr p d0) (r_method x0)) as [f1 oc1]. cbn [fst] in Eo, Ed.
    destruct oc1.
    + intros E. apply IH in E. change (xfs (set_xfs r f1)) with f1 in E. destruct E as (A & B). split; congruence.
    + intros E; injection E as <- _. change (xfs (set_xfs r f1)) with f1. auto.
    + intros E; injection E as <- _. change (xfs (set_xfs r f1)) with f1. auto.
Qed.
Lemma recheck_dests_DRO ps r : DRO (xfs r) -> DRO (xfs (fst (recheck_dests r ps))).
Proof.
  intros D. destruct (recheck_dests r ps) as [r' oc] eqn:E. cbn [fst].
  destruct (recheck_dests_cache_same ps r r' oc E) as (A & B). exact (DRO_same (xfs r) (xfs r') A B D).
Qed.

(* ---- copy ---------------------------------------------------------------------------------------------------------- *)
Lemma copy_apply_DRO o r plan sk : DRO (xfs r) -> DRO (xfs (fst (copy_apply o r plan sk))).
Proof.
  intros D. unfold copy_apply. cbv zeta.
  assert (D1 : DRO (xfs (fold_left (copy_records_one o) plan r))) by (rewrite xfs_copy_records; exact D).
  destruct (c_no_recheck o); [exact D1|].
  pose proof (recheck_dests_DRO (map cd_path plan) _ D1) as D2.
  destruct (recheck_dests (fold_left (copy_records_one o) plan r) (map cd_path plan)) as [r2 oc2]. exact D2.
Qed.
Theorem copy_cmd_DRO fl o src dst r : DRO (xfs r) -> DRO (xfs (fst (copy_cmd3 fl o src dst r))).
Proof.
  intros D. unfold copy_cmd3. destruct (copy_plan o src dst r) as [oc|plan sk]; [exact D|].
  destruct (fixed_P3 fl); [|apply copy_apply_DRO, D].
  destruct (copy_unavailable o r plan); [exact D|].
  apply copy_apply_DRO. change (xfs (set_xfs r ?f)) with f. apply share_pairs_DRO, D.
Qed.

(* ---- move ---------------------------------------------------------------------------------------------------------- *)
Lemma move_apply_DRO fl o r l : DRO (xfs r) -> DRO (xfs (fst (move_apply fl o r l))).
Proof.
  intros D. unfold move_apply. cbv zeta.
  destruct (move_loop fl o (xfs (fold_left move_path_one l r)) l [] []) as [f2 res] eqn:ML.
  pose proof (move_loop_ws_only fl o _ _ _ _ _ _ ML) as WO. rewrite xfs_move_paths in WO.
  assert (D2 : DRO f2) by (apply (DRO_same (xfs r)); [rewrite WO; reflexivity|rewrite WO; reflexivity|exact D]).
  destruct res as [[ups rechk]|]; [|exact D2].
  set (r3 := set_base _ _).
  assert (D3 : DRO (xfs r3)).
  { unfold r3. change (DRO (fs (fold_left set_method ups (base (set_xfs (fold_left move_path_one l r) f2))))).
    rewrite fs_set_methods. exact D2. }
  destruct (m_no_recheck o); [exact D3|apply recheck_dests_DRO, D3].
Qed.
Theorem move_cmd_DRO fl o src dst r : DRO (xfs r) -> DRO (xfs (fst (move_cmd45 fl o src dst r))).
Proof.
  intros D. unfold move_cmd45, move_cmd. destruct (move_plan src dst r) as [oc|l]; [exact D|].
  destruct (fixed_P3 fl).
  - destruct (move_unavailable o r l); [exact D|].
    apply move_apply_DRO. change (xfs (set_xfs r ?f)) with f. apply share_moves_DRO, D.
  - destruct (fixed_P45 fl && move_uncommitted o r l); [exact D|apply move_apply_DRO, D].
Qed.

(* ---- one step, whole histories ------------------------------------------------------------------------------------------ *)
(* the hypotheses on a step are the ones of [xreach] (the base commands outside the known classes of Repo/Inv.v and
   Repo/Fix.v, copy without colliding --name-only destinations) plus: a base command does not panic (a panic of
   track / carry-in can leave the directory it was writing to writable; class K_panic of C07).  copy, move, remove and
   untrack need no such hypothesis. *)
Definition base_panics (fl : flags) (r : xrepo) (it : xitem) : bool :=
  match it with
  | XBase i => match snd (do_item_x (core fl) (base r) i) with Panic => true | _ => false end
  | _ => false
  end.

Theorem xstep_DRO fl r it :
  fixed_P50 fl = true -> INV (base r) -> xclean r it = true -> base_panics fl r it = false ->
  DRO (xfs r) -> DRO (xfs (fst (do_xitem fl r it))).
Proof.
  intros P50 I C NP D. destruct it as [i|o s d|o s d|o ts|ts]; cbn [do_xitem].
  - cbn [xclean] in C. apply andb_true_iff in C. destruct C as [_ C].
    pose proof (proj1 (forallb_forall _ _) C (core fl) (all_fixes_complete (core fl))) as Cx. apply negb_true_iff in Cx.
    destruct (item_spec_x (core fl) (base r) i I Cx) as (_ & _ & _ & _ & K).
    cbn [base_panics] in NP.
    destruct (do_item_x (core fl) (base r) i) as [b oc]. cbn [fst snd] in *.
    change (DRO (fs b)). apply K; [destruct oc; congruence|exact D].
  - apply copy_cmd_DRO, D.
  - apply move_cmd_DRO, D.
  - apply remove_cmd_DRO; assumption.
  - apply untrack_cmd_DRO; assumption.
Qed.

Fixpoint xhist_ok (fl : flags) (r : xrepo) (h : list xitem) : bool :=
  match h with
  | [] => true
  | it :: t => xclean r it && negb (base_panics fl r it) && xhist_ok fl (fst (do_xitem fl r it)) t
  end.

Lemma xhist_DRO fl : fixed_P50 fl = true -> forall h r, xreach fl r -> xhist_ok fl r h = true ->
  DRO (xfs r) -> xreach fl (run_xitems fl r h) /\ DRO (xfs (run_xitems fl r h)).
Proof.
  intros P50. induction h as [|it t IH]; intros r X OK D; cbn [run_xitems fold_left]; [auto|].
  cbn [xhist_ok] in OK. apply andb_true_iff in OK. destruct OK as [OK OKt]. apply andb_true_iff in OK. destruct OK as [C NP].
  apply negb_true_iff in NP.
  apply IH; [apply xr_step; assumption|exact OKt|].
  apply xstep_DRO; auto. apply (xreach_INV fl), X.
Qed.

Theorem xhistory_DRO fl a m t h :
  fixed_P50 fl = true -> xhist_ok fl (xinit a m t) h = true -> DRO (xfs (run_xitems fl (xinit a m t) h)).
Proof.
  intros P50 OK. apply (xhist_DRO fl P50 h); [apply xr_init|exact OK|apply DRO_init].
Qed.
