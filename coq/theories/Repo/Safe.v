(* Proofs about M-REPO (core), part 6 (for C03): an unforced track / carry-in / recheck never destroys
   workspace data: whatever was readable at a path before the command is still readable there after
   it, or the path's record names a cache object holding the same bytes up to CR/LF bytes (exactly
   the same bytes outside the text-alias class P2).
   Target lists are duplicate-free (the implementation collects targets in a map keyed by path). *)
From Coq Require Import List Bool NArith Lia.
From XV Require Import Base.Amap Base.Bytes Repo.Model Repo.Proofs Repo.Inv Repo.Restore Repo.Stamps Repo.Main.
Import ListNotations.

(* the record of p names an object whose bytes are b up to CR and LF bytes *)
Definition saved (r : repo) (p : path) (b : bytes) : Prop :=
  exists e x d b', find_path (recs r) p = Some (e, x) /\ r_digest x = Some d /\
                   obj_read (fs r) (cache_addr p d) = Some b' /\ strip_crlf b' = strip_crlf b.

(* the text-alias class (P2) on a pair (content given, content stored) *)
Definition alias_pair (b b' : bytes) : bool := negb (beqb b b') && beqb (strip_crlf b) (strip_crlf b').

Lemma same_norm_exact_or_alias b b' : strip_crlf b' = strip_crlf b -> b' = b \/ alias_pair b b' = true.
Proof.
  intros H. unfold alias_pair. destruct (beqb_spec b b') as [->|Hne]; [now left|right].
  cbn. rewrite H. apply beqb_refl.
Qed.

Fixpoint nodupb (ps : list path) : bool :=
  match ps with [] => true | p :: t => negb (mem_path p t) && nodupb t end.

Lemma nodupb_cons p t : nodupb (p :: t) = true -> ~ In p t /\ nodupb t = true.
Proof. cbn. intros H. apply andb_true_iff in H. destruct H as [H1 H2]. apply negb_true_iff in H1. split; [now apply mem_path_false|auto]. Qed.

(* ---- frames ------------------------------------------------------------------------------------------------ *)
Lemma ws_read_frame f f' p b : FI f -> wget f' p = wget f p -> R_mono f f' -> R_bytes f f' ->
  ws_read f p = Some b -> ws_read f' p = Some b.
Proof.
  intros F Hw M B. unfold ws_read. rewrite Hw. destruct (wget f p) as [[i|a]|]; [| |discriminate].
  - rewrite !read_file. destruct (iget f i) as [n|] eqn:Hi; [|discriminate]. intros [= <-].
    destruct (B _ _ Hi) as (n' & H1 & H2). now rewrite H1, H2.
  - unfold read_entry, link_fuel. rewrite !resolve_link.
    destruct (oget f a) as [e|] eqn:Ho; [|discriminate].
    destruct (fi_obj F _ _ Ho) as (i & n & -> & Hi & _). rewrite (M _ _ Ho). rewrite !resolve_file, Hi.
    intros [= <-]. destruct (B _ _ Hi) as (n' & H1 & H2). now rewrite H1, H2.
Qed.

Lemma obj_read_frame f f' a b : FI f -> R_mono f f' -> R_bytes f f' -> obj_read f a = Some b -> obj_read f' a = Some b.
Proof.
  intros F M B H. apply (obj_read_spec _ _ _ F) in H. destruct H as (i & n & Ho & Hi & <-).
  unfold obj_read. rewrite (M _ _ Ho), read_file. destruct (B _ _ Hi) as (n' & H1 & H2). now rewrite H1, H2.
Qed.

Lemma saved_frame r r' p b : FI (fs r) -> view_core (find_path (recs r') p) = view_core (find_path (recs r) p) ->
  R_mono (fs r) (fs r') -> R_bytes (fs r) (fs r') -> saved r p b -> saved r' p b.
Proof.
  intros F V M B (e & x & d & b' & Ef & Hd & Hr & Hs).
  destruct (view_core_some _ _ e x V Ef) as (x' & Ef' & Hc). unfold rec_core in Hc. injection Hc as _ _ H3 _ _.
  exists e, x', d, b'. split; [auto|split; [congruence|split; [eapply obj_read_frame; eauto|auto]]].
Qed.

Lemma ws_read_meta f p b : ws_read f p = Some b -> ws_meta f p <> None /\ wget f p <> None /\ no_dangling f p.
Proof.
  unfold ws_read, ws_meta, read_entry, no_dangling, ws_exists. destruct (wget f p) as [e|]; [|discriminate].
  destruct (resolve f link_fuel e) as [i|]; [|discriminate]. destruct (iget f i); [|discriminate].
  intros _. split; [discriminate|split; [discriminate|now right]].
Qed.

(* ---- one target of its own command ---------------------------------------------------------------------------- *)
(* carry_one without --force, with content that fits the address: the object holds the content up to CR/LF *)
Lemma carry_one_saves f p a m b : FI f -> relink f p a false = false -> fits_pre f p a -> fits (a_digest a) b ->
  ws_read f p = Some b ->
  snd (carry_one f p a m false) = Ok /\
  exists b', obj_read (fst (carry_one f p a m false)) a = Some b' /\ strip_crlf b' = strip_crlf b.
Proof.
  intros F G Hfit Hfb Hr. destruct (ws_read_meta f p b Hr) as (_ & Hw & Hnd).
  destruct (carry_one_ok f p a m false F G Hfit Hw Hnd) as (K1 & i & n & K2 & K3 & K4 & K5).
  split; [auto|]. exists (i_bytes n).
  pose proof (carry_one_spec f p a m false F G Hfit) as S.
  assert (Er : obj_read (fst (carry_one f p a m false)) a = Some (i_bytes n)) by (apply obj_read_spec; [apply (cs_FI S)|eauto]).
  split; [auto|]. apply (fits_same_norm (a_digest a)); [|auto]. eapply FI_cas; [apply (cs_FI S)|eauto].
Qed.

Lemma track_one_call_fits o w r p a m b : RI r -> track_one_call o w r p = Some (a, m) ->
  ws_read (fs r) p = Some b -> fits (a_digest a) b.
Proof.
  intros R. unfold track_one_call. cbv zeta. destruct (w && _); [discriminate|].
  destruct (ws_meta (fs r) p) as [sm|]; [|discriminate].
  destruct (find_path (recs r) p) as [[e x]|] eqn:Ef.
  - pose proof (proj1 (find_path_spec r p e x R) Ef) as [Hg Hp].
    destruct (meta_eqb _ _); [discriminate|].
    destruct (digest_diff r x (cfg_algo r) (track_tob o r)) as [| |d| |d] eqn:Ed; try discriminate;
      (destruct (t_no_commit o); [discriminate|]); intros [= <- <-] Hr;
      (assert (Hd : digest_diff r x (cfg_algo r) (track_tob o r) = DDifferent d \/
                    digest_diff r x (cfg_algo r) (track_tob o r) = DRecordMissing d) by auto);
      apply digest_diff_new in Hd; destruct Hd as (c & Hc & ->); rewrite Hp in Hc; rewrite Hr in Hc;
      injection Hc as <-; cbn; apply digest_of_fits.
  - destruct (ws_read (fs r) p) as [c|]; [|discriminate]. destruct (t_no_commit o); [discriminate|].
    intros [= <- <-] [= <-]. cbn. apply digest_of_fits.
Qed.

Lemma track_own o w r p b : INV r -> t_force o = false -> mon_track_one relink o w r p = false ->
  ws_read (fs r) p = Some b ->
  ws_read (fs (fst (track_one o w r p))) p = Some b \/ saved (fst (track_one o w r p)) p b.
Proof.
  intros [F R] Hf G Hr. destruct (track_one_spec o w r p R) as (S1 & S2 & S3 & S4).
  unfold mon_track_one in G. destruct (track_one_call o w r p) as [[a m]|] eqn:Hc.
  - right. destruct S4 as (Efs & Eoc & Hfit & Hw). rewrite Hf in *.
    destruct (track_one_record o w r p a m R Hc) as (e & x & d & Ef & Hp & Hm & Hd & -> & _).
    destruct (carry_one_saves (fs r) p (cache_addr p d) m b F G Hfit (track_one_call_fits o w r p _ m b R Hc Hr) Hr)
      as (_ & b' & Hb' & Hs).
    exists e, x, d, b'. rewrite Efs. auto.
  - left. destruct S4 as [Efs _]. now rewrite Efs.
Qed.

Lemma recheck_own o r p b : INV r -> SINV r -> k_force o = false -> ws_read (fs r) p = Some b ->
  ws_read (fs (fst (recheck_one o r p))) p = Some b \/ saved (fst (recheck_one o r p)) p b.
Proof.
  intros [F R] [T M] Hf Hr. unfold recheck_one.
  destruct (find_path (recs r) p) as [[e x]|] eqn:Ef; [|now left].
  pose proof (proj1 (find_path_spec r p e x R) Ef) as [Hg Hp].
  destruct (r_meta x) as [sm|] eqn:Emx; [|now left]. cbv zeta. rewrite Hf. cbn [orb].
  set (dd := digest_diff r x (cfg_algo r) (r_tob x)).
  match goal with |- context [if negb ?s then _ else _] => destruct s eqn:Es end; cbn [negb]; [|now left].
  destruct (r_digest x) as [d|] eqn:Ed; [|now left].
  (* the content fits the recorded digest: the diff is Identical or Skipped *)
  assert (Hfd : fits d b).
  { destruct (ws_read_meta _ _ _ Hr) as (Hm & _ & _).
    destruct dd eqn:Edd; subst dd.
    - destruct (digest_diff_identical r x _ _ Edd) as (c & rd & Hc & Hrd & Hfc). rewrite Hp in Hc. congruence.
    - pose proof (digest_diff_skipped r x _ _ Edd) as Hs. rewrite Hp, Emx in Hs. symmetry in Hs. destruct sm as [s mt].
      destruct (ws_meta_inode _ _ _ _ Hs) as (i & n & Hi & -> & _ & Hri & _). rewrite Hr in Hri. injection Hri as ->.
      destruct (M e x Hg s (i_mt n) d Emx Ed) as [_ H]. eapply H; eauto.
    - apply digest_diff_recmissing in Edd. congruence.
    - apply digest_diff_missing in Edd. rewrite Hp in Edd. destruct Edd; congruence.
    - cbn in Es. now rewrite andb_false_r in Es. }
  set (x' := {| r_path := p; r_meta := Some sm; r_digest := Some d; r_hist := r_hist x;
                r_method := match k_method o with Some m => m | None => r_method x end; r_tob := r_tob x |}).
  assert (Ef' : find_path (recs (rput r e x')) p = Some (e, x')).
  { rewrite <- Hp. apply find_path_rput_same; auto. }
  destruct (obj_exists (fs r) (cache_addr p d)) eqn:Ex; [|now left].
  right.
  assert (Hoa : oget (fs r) (cache_addr p d) <> None) by (apply obj_exists_spec; auto).
  destruct (oget (fs r) (cache_addr p d)) as [eo|] eqn:Eo; [|congruence].
  destruct (fi_obj F _ _ Eo) as (i & n & -> & Hi & _ & Hfo).
  change (if ws_exists (fs r) p then wdel (fs r) p else fs r) with (cleared (fs r) p).
  destruct (rfc_spec (cleared (fs r) p) p (cache_addr p d) (match k_method o with Some m => m | None => r_method x end)
              (FI_cleared _ _ F)) as (Q1 & Q2 & Q3 & Q4 & Q5 & Q6).
  destruct (recheck_from_cache (cleared (fs r) p) p (cache_addr p d) _) as [f2 oc]. cbn [fst snd] in *.
  exists e, x', d, (i_bytes n). cbn [recs set_fs fs]. split; [exact Ef'|split; [reflexivity|split]].
  - unfold obj_read. rewrite Q3. autorewrite with fsdb. rewrite Eo, read_file.
    rewrite (Q4 i n) by (now autorewrite with fsdb). reflexivity.
  - apply (fits_same_norm d); auto.
Qed.

(* ---- other targets of the command ------------------------------------------------------------------------------ *)
Definition Keep (p : path) (b : bytes) (r : repo) : Prop := ws_read (fs r) p = Some b \/ saved r p b.

Lemma keep_frame r r' p b : FI (fs r) -> wget (fs r') p = wget (fs r) p ->
  view_core (find_path (recs r') p) = view_core (find_path (recs r) p) ->
  R_mono (fs r) (fs r') -> R_bytes (fs r) (fs r') -> Keep p b r -> Keep p b r'.
Proof.
  intros F Hw V M B [H|H]; [left; eapply ws_read_frame; eauto|right; eapply saved_frame; eauto].
Qed.

Lemma track_other o w r q p b : INV r -> t_force o = false -> mon_track_one relink o w r q = false -> q <> p ->
  Keep p b r -> Keep p b (fst (track_one o w r q)).
Proof.
  intros I Hf G Hne K. pose proof I as [F R].
  assert (U : mon_track_one unclean o w r q = false).
  { destruct (track_one_spec o w r q R) as (_ & _ & _ & S4). unfold mon_track_one in *.
    destruct (track_one_call o w r q) as [[a m]|]; auto. destruct S4 as (_ & _ & Hfit & _).
    unfold unclean. rewrite G. now rewrite (fits_pre_misfit _ _ _ (t_force o) Hfit). }
  destruct (track_one_step o w r q I U) as (T1 & T2 & T3 & T4 & T5 & T6 & T7 & T8 & T9).
  eapply keep_frame; eauto. rewrite T9 by congruence. reflexivity.
Qed.

Lemma recheck_other o r q p b : INV r -> q <> p -> Keep p b r -> Keep p b (fst (recheck_one o r q)).
Proof.
  intros [F R] Hne K. destruct (recheck_one_spec o r q F R) as (S1 & S2 & S3 & (W1 & W2 & W3 & W4 & W5) & S5 & S6 & S7).
  apply (keep_frame r _ p b F); [apply W1; congruence|apply S6| | |exact K].
  - intros a e H. now rewrite W2.
  - intros i n H. eauto.
Qed.

(* ---- track and recheck over duplicate-free target lists ------------------------------------------------------------ *)
Lemma track_list o w ps : forall r p b, INV r -> t_force o = false -> nodupb ps = true ->
  mon_each (track_one o w) (mon_track_one relink o w) r ps = false ->
  (In p ps -> ws_read (fs r) p = Some b) -> (~ In p ps -> Keep p b r) ->
  Keep p b (fst (each (track_one o w) r ps)).
Proof.
  induction ps as [|q t IH]; intros r p b I Hf Hn G Hin Hout; [apply Hout; tauto|].
  destruct (nodupb_cons q t Hn) as [Hq Hn'].
  cbn [mon_each] in G. apply orb_false_iff in G. destruct G as [G1 G2].
  destruct (each_cons (track_one o w) r q t) as [E _]. rewrite E.
  pose proof I as [F R].
  assert (U : mon_track_one unclean o w r q = false).
  { destruct (track_one_spec o w r q R) as (_ & _ & _ & S4). unfold mon_track_one in *.
    destruct (track_one_call o w r q) as [[a m]|]; auto. destruct S4 as (_ & _ & Hfit & _).
    unfold unclean. rewrite G1. now rewrite (fits_pre_misfit _ _ _ (t_force o) Hfit). }
  destruct (track_one_step o w r q I U) as (T1 & T2 & T3 & T4 & T5 & T6 & T7 & T8 & T9).
  destruct (beqb_spec q p) as [->|Hne].
  - (* p's own step; afterwards p is not a target any more *)
    apply IH; auto; [tauto|]. intros _. apply track_own; auto. apply Hin. now left.
  - apply IH; auto.
    + (* p is still a target, untouched so far: its content is what it was *)
      intros Hint. apply (ws_read_frame (fs r) _ p b F); [apply T8; congruence|apply T6; auto|exact T5|apply Hin; now right].
    + intros Hnt. apply track_other; auto. apply Hout. intros [->|H]; tauto.
Qed.

Lemma recheck_list o ps : forall r p b, INV r -> SINV r -> k_force o = false -> nodupb ps = true ->
  (In p ps -> ws_read (fs r) p = Some b) -> (~ In p ps -> Keep p b r) ->
  Keep p b (fst (each (recheck_one o) r ps)).
Proof.
  induction ps as [|q t IH]; intros r p b I S Hf Hn Hin Hout; [apply Hout; tauto|].
  destruct (nodupb_cons q t Hn) as [Hq Hn'].
  destruct (each_cons (recheck_one o) r q t) as [E _]. rewrite E.
  pose proof I as [F R].
  destruct (recheck_one_spec o r q F R) as (S1 & S2 & S3 & (W1 & W2 & W3 & W4 & W5) & S5 & S6 & S7).
  assert (I' : INV (fst (recheck_one o r q))) by (split; auto).
  assert (S' : SINV (fst (recheck_one o r q))) by (apply recheck_one_stamp; auto).
  destruct (beqb_spec q p) as [->|Hne].
  - apply IH; auto; [tauto|]. intros _. apply recheck_own; auto. apply Hin. now left.
  - apply IH; auto.
    + intros Hint. apply (ws_read_frame (fs r) _ p b F); [apply W1; congruence| | |apply Hin; now right].
      * intros a e H. now rewrite W2.
      * intros i n H. eauto.
    + intros Hnt. apply recheck_other; auto. apply Hout. intros [->|H]; tauto.
Qed.

(* ---- carry-in --------------------------------------------------------------------------------------------------- *)
Definition is_active (c : cplan) : bool := cp_sel c && match cp_addr c with Some _ => true | None => false end.
Definition active (cs : list cplan) : list cplan := filter is_active cs.

Lemma carry_phase_active force cs : forall f, carry_phase f cs force = carry_phase f (active cs) force.
Proof.
  induction cs as [|c t IH]; intros f; [reflexivity|].
  change (active (c :: t)) with (if is_active c then c :: active t else active t). unfold is_active.
  destruct (cp_sel c) eqn:Es; [|cbn [andb carry_phase]; rewrite Es; apply IH].
  destruct (cp_addr c) as [a|] eqn:Ea; [|cbn [andb carry_phase]; rewrite Es, Ea; apply IH].
  cbn [andb carry_phase]. rewrite Es, Ea.
  destruct (carry_one f (r_path (cp_rec c)) a (r_method (cp_rec c)) force) as [f1 o1]. destruct o1; auto.
Qed.

Lemma mon_carry_phase_active bad force cs : forall f, mon_carry_phase bad f cs force = mon_carry_phase bad f (active cs) force.
Proof.
  induction cs as [|c t IH]; intros f; [reflexivity|].
  change (active (c :: t)) with (if is_active c then c :: active t else active t). unfold is_active.
  destruct (cp_sel c) eqn:Es; [|cbn [andb mon_carry_phase]; rewrite Es; apply IH].
  destruct (cp_addr c) as [a|] eqn:Ea; [|cbn [andb mon_carry_phase]; rewrite Es, Ea; apply IH].
  cbn [andb mon_carry_phase]. rewrite Es, Ea.
  destruct (snd (carry_one f (r_path (cp_rec c)) a (r_method (cp_rec c)) force)); auto. now rewrite IH.
Qed.

Definition plan_ready (f : fsys) (c : cplan) : Prop :=
  forall a, cp_addr c = Some a ->
  fits_pre f (r_path (cp_rec c)) a /\ (forall b, ws_read f (r_path (cp_rec c)) = Some b -> fits (a_digest a) b) /\
  ws_read f (r_path (cp_rec c)) <> None.

Lemma carry_phase_safe cs : forall f, FI f -> NoDup (paths_of cs) -> (forall c, In c cs -> is_active c = true) ->
  mon_carry_phase relink f cs false = false -> (forall c, In c cs -> plan_ready f c) ->
  snd (carry_phase f cs false) = Ok /\ FI (fst (carry_phase f cs false)) /\
  R_mono f (fst (carry_phase f cs false)) /\ R_bytes f (fst (carry_phase f cs false)) /\
  (forall q, ~ In q (paths_of cs) -> wget (fst (carry_phase f cs false)) q = wget f q) /\
  (forall c, In c cs -> forall a, cp_addr c = Some a -> forall b, ws_read f (r_path (cp_rec c)) = Some b ->
     exists b', obj_read (fst (carry_phase f cs false)) a = Some b' /\ strip_crlf b' = strip_crlf b).
Proof.
  induction cs as [|c t IH]; intros f F ND Act G Rd.
  - cbn. split; [auto|split; [auto|split; [apply R_mono_refl|split; [apply R_bytes_refl|split; [auto|tauto]]]]].
  - cbn [paths_of map] in ND. inversion ND as [|? ? Hnin ND']; subst.
    pose proof (Act c (or_introl eq_refl)) as Ac. unfold is_active in Ac. apply andb_true_iff in Ac. destruct Ac as [Asel Aad].
    destruct (cp_addr c) as [a|] eqn:Ea; [|discriminate].
    cbn [carry_phase mon_carry_phase] in *. rewrite Asel, Ea in *.
    apply orb_false_iff in G. destruct G as [G1 G2].
    destruct (Rd c (or_introl eq_refl) a Ea) as (Hfit & Hcont & Hsome).
    destruct (ws_read f (r_path (cp_rec c))) as [b0|] eqn:Hr0; [|congruence].
    destruct (carry_one_saves f (r_path (cp_rec c)) a (r_method (cp_rec c)) b0 F G1 Hfit (Hcont b0 eq_refl) Hr0) as (Kok & b' & Kb & Ks).
    pose proof (carry_one_spec f (r_path (cp_rec c)) a (r_method (cp_rec c)) false F G1 Hfit) as S.
    destruct (cs_rel _ _ _ _ _ _ S) as [M1 _]. specialize (M1 eq_refl).
    destruct (carry_one f (r_path (cp_rec c)) a (r_method (cp_rec c)) false) as [f1 o1]. cbn [fst snd] in *. subst o1.
    assert (Fwd : forall c', In c' t -> forall b, ws_read f (r_path (cp_rec c')) = Some b -> ws_read f1 (r_path (cp_rec c')) = Some b).
    { intros c' Hin b Hb. apply (ws_read_frame f f1 _ b F); auto; [|apply (cs_bytes S)].
      apply (cs_ws S). intros E. apply Hnin. rewrite <- E. apply (in_map (fun c => r_path (cp_rec c)) t c' Hin). }
    destruct (IH f1 (cs_FI S) ND') as (A1 & A2 & A3 & A4 & A5 & A6); auto.
    { intros c' Hin. apply Act. now right. }
    { intros c' Hin a' Ha'. destruct (Rd c' (or_intror Hin) a' Ha') as (Hfit' & Hcont' & Hsome').
      destruct (ws_read f (r_path (cp_rec c'))) as [b1|] eqn:Hr1; [|congruence].
      pose proof (Fwd c' Hin b1 Hr1) as Hr1'.
      assert (Hne : r_path (cp_rec c') <> r_path (cp_rec c)).
      { intros E. apply Hnin. rewrite <- E. apply (in_map (fun c => r_path (cp_rec c)) t c' Hin). }
      split; [|split; [|congruence]].
      - intros j n Hw Hi. rewrite (cs_ws S) in Hw by auto.
        destruct (iget f j) as [n0|] eqn:Hj; [|exfalso; eapply (fi_ws F); eauto].
        destruct (cs_bytes S _ _ Hj) as (n1 & H1 & E1). rewrite Hi in H1. injection H1 as <-. rewrite E1. eapply Hfit'; eauto.
      - intros b Hb. rewrite Hr1' in Hb. injection Hb as <-. auto. }
    split; [auto|split; [auto|split; [eapply R_mono_trans; eauto|split; [eapply R_bytes_trans; [apply (cs_bytes S)|auto]|split]]]].
    + intros q Hq. rewrite A5 by (intros H; apply Hq; now right). apply (cs_ws S). intros ->. apply Hq. now left.
    + intros c' [<-|Hin] a' Ha' b Hb.
      * rewrite Ea in Ha'. injection Ha' as <-. rewrite Hr0 in Hb. injection Hb as <-.
        exists b'. split; [apply (obj_read_frame f1 _ a b' (cs_FI S) A3 A4 Kb)|auto].
      * apply (A6 c' Hin a' Ha' b). now apply Fwd.
Qed.

Lemma plan_addr_digest o r p c a : carry_plan o r p = Some c -> cp_addr c = Some a ->
  exists d, r_digest (plan_record c) = Some d /\ a = cache_addr p d.
Proof.
  unfold carry_plan. destruct (find_path (recs r) p) as [[e x]|]; [|discriminate].
  destruct (r_meta x); [|discriminate]. intros [= <-]. unfold plan_record. cbn [cp_addr cp_dd cp_rec].
  destruct (digest_diff r x (cfg_algo r) _) as [| |d| |d]; try discriminate.
  - destruct (r_digest x) as [d|]; [|discriminate]. intros [= <-]. exists d. cbn. auto.
  - destruct (r_digest x) as [d|]; [|discriminate]. intros [= <-]. exists d. cbn. auto.
  - intros [= <-]. exists d. cbn. auto.
Qed.

Lemma plan_ready_init o r p c : RI r -> SINV r -> carry_plan o r p = Some c -> plan_ready (fs r) c.
Proof.
  intros R S Hp a Ha. destruct (carry_plan_rec o r p c Hp) as [Ef Epath]. rewrite Epath.
  split; [eapply plan_fits; eauto|].
  destruct S as [T M]. revert Hp Ha. unfold carry_plan. rewrite Ef.
  pose proof (proj1 (find_path_spec r p _ _ R) Ef) as [Hg Hpx].
  destruct (r_meta (cp_rec c)) as [sm0|] eqn:Emx; [|discriminate]. intros [= <-]. cbn [cp_addr cp_rec] in *.
  set (x := cp_rec c) in *. set (t := match c_tob o with Some t => t | None => cfg_tob r end).
  destruct (digest_diff r x (cfg_algo r) t) as [| |d| |d] eqn:Ed; try discriminate.
  - destruct (digest_diff_identical r x _ _ Ed) as (c0 & rd & Hc & Hrd & Hf). rewrite Hpx in Hc.
    rewrite Hrd. intros [= <-]. split; [intros b Hb; cbn; congruence|congruence].
  - pose proof (digest_diff_skipped r x _ _ Ed) as Hs. rewrite Hpx, Emx in Hs. symmetry in Hs. destruct sm0 as [s mt].
    destruct (ws_meta_inode _ _ _ _ Hs) as (i & n & Hi & -> & _ & Hri & _).
    destruct (r_digest x) as [d|] eqn:Erd; [|discriminate]. intros [= <-].
    split; [|congruence]. intros b Hb. rewrite Hb in Hri. injection Hri as ->. cbn.
    destruct (M _ x Hg s (i_mt n) d Emx Erd) as [_ H]. eapply H; eauto.
  - assert (Hd : digest_diff r x (cfg_algo r) t = DDifferent d \/ digest_diff r x (cfg_algo r) t = DRecordMissing d) by auto.
    apply digest_diff_new in Hd. destruct Hd as (c0 & Hc & ->). rewrite Hpx in Hc. intros [= <-].
    split; [|congruence]. intros b Hb. rewrite Hb in Hc. injection Hc as <-. cbn. apply digest_of_fits.
Qed.

Lemma paths_of_plans_nodup o r ps : NoDup ps -> NoDup (paths_of (plans o r ps)).
Proof.
  induction ps as [|p t IH]; intros ND; [constructor|]. inversion ND as [|? ? Hn ND']; subst. cbn.
  destruct (carry_plan o r p) as [c|] eqn:E; [|auto]. cbn. constructor; [|auto].
  destruct (carry_plan_rec o r p c E) as [_ ->]. intros H. apply Hn. eapply paths_of_plans; eauto.
Qed.

Lemma nodupb_NoDup ps : nodupb ps = true -> NoDup ps.
Proof. induction ps as [|p t IH]; intros H; [constructor|]. destruct (nodupb_cons p t H). constructor; auto. Qed.

Lemma NoDup_filter_paths cs : NoDup (paths_of cs) -> NoDup (paths_of (active cs)).
Proof.
  induction cs as [|c t IH]; cbn; intros ND; [constructor|]. inversion ND as [|? ? Hn ND']; subst.
  destruct (is_active c); cbn; auto. constructor; auto.
  intros H. apply Hn. clear -H. unfold paths_of, active in *. apply in_map_iff in H. destruct H as (c' & E & Hin).
  apply filter_In in Hin. apply in_map_iff. exists c'. tauto.
Qed.

Lemma record_phase_at cs : forall r c, RI r -> NoDup (paths_of cs) -> In c cs ->
  (forall c', In c' cs -> exists x, rget r (cp_ent c') = Some x /\ r_path x = r_path (cp_rec c')) ->
  find_path (recs (record_phase r cs)) (r_path (cp_rec c)) = Some (cp_ent c, plan_record c).
Proof.
  induction cs as [|c0 t IH]; intros r c R ND Hin H; [destruct Hin|].
  cbn [paths_of map] in ND. inversion ND as [|? ? Hn ND']; subst.
  rewrite record_phase_cons.
  destruct (H c0 (or_introl eq_refl)) as (x0 & Hg0 & Hp0).
  assert (R1 : RI (rput r (cp_ent c0) (plan_record c0))) by (eapply RI_put_existing; eauto).
  assert (H1 : forall c', In c' t -> exists x, rget (rput r (cp_ent c0) (plan_record c0)) (cp_ent c') = Some x /\ r_path x = r_path (cp_rec c')).
  { intros c' Hin'. destruct (H c' (or_intror Hin')) as (x' & Hg' & Hp').
    rewrite rget_rput. destruct (N.eqb_spec (cp_ent c0) (cp_ent c')) as [E|]; eauto.
    exists (plan_record c0). split; auto. cbn. rewrite <- Hp', <- Hp0. rewrite <- E in Hg'. congruence. }
  destruct Hin as [<-|Hin].
  - destruct (record_phase_spec t _ R1 H1) as (_ & _ & _ & B4). rewrite B4 by exact Hn.
    rewrite <- Hp0. apply find_path_rput_same; auto.
  - apply IH; auto.
Qed.

Lemma carry_list o r ps p b : INV r -> SINV r -> c_force o = false -> nodupb ps = true ->
  mon_item relink r (XCarryIn o ps) = false -> ws_read (fs r) p = Some b ->
  Keep p b (fst (carry_in_cmd o r ps)).
Proof.
  intros [F R] S Hf Hn G Hr. cbn [mon_item] in G. unfold carry_in_cmd.
  set (cs := plans o r ps) in *. rewrite Hf in *.
  destruct (existsb _ cs); [now left|].
  rewrite carry_phase_active. rewrite mon_carry_phase_active in G.
  assert (NDp : NoDup (paths_of cs)) by (apply paths_of_plans_nodup, nodupb_NoDup, Hn).
  assert (InA : forall c, In c (active cs) -> In c cs /\ is_active c = true) by (intros c H; apply filter_In in H; exact H).
  destruct (carry_phase_safe (active cs) (fs r) F (NoDup_filter_paths cs NDp)) as (A1 & A2 & A3 & A4 & A5 & A6); auto.
  { intros c H. apply InA, H. }
  { intros c H. destruct (InA c H) as [Hin _]. destruct (plans_plan o r ps c Hin) as [q Hq]. eapply plan_ready_init; eauto. }
  destruct (carry_phase (fs r) (active cs) false) as [f1 oc]. cbn [fst snd] in *. subst oc.
  assert (Hrec : forall c, In c cs -> exists x, rget (set_fs r f1) (cp_ent c) = Some x /\ r_path x = r_path (cp_rec c)).
  { intros c Hin. pose proof (plans_rec o r ps c Hin) as Hfp.
    apply (find_path_spec r _ _ _ R) in Hfp. destruct Hfp as [Hg Hp]. exists (cp_rec c). auto. }
  destruct (record_phase_spec cs (set_fs r f1) (RI_set_fs r f1 R) Hrec) as (B1 & B2 & B3 & B4).
  cbn [fst].
  destruct (in_dec (list_eq_dec N.eq_dec) p (paths_of (active cs))) as [Hin|Hnin].
  - right. unfold paths_of in Hin. apply in_map_iff in Hin. destruct Hin as (c & Ep & Hc).
    destruct (InA c Hc) as [Hcs Hact]. unfold is_active in Hact. apply andb_true_iff in Hact. destruct Hact as [_ Had].
    destruct (cp_addr c) as [a|] eqn:Ea; [|discriminate].
    destruct (plans_plan o r ps c Hcs) as [q Hq]. destruct (carry_plan_rec o r q c Hq) as [_ Eq].
    assert (q = p) by congruence. subst q. rewrite ?Ep in Hq.
    destruct (plan_addr_digest o r p c a Hq Ea) as (d & Hd & ->).
    destruct (A6 c Hc _ Ea b) as (b' & Hb' & Hs); [now rewrite Ep|].
    exists (cp_ent c), (plan_record c), d, b'. rewrite B3. cbn [fs set_fs].
    split; [rewrite <- Ep; apply record_phase_at; auto using RI_set_fs|auto].
  - left. rewrite B3. cbn [fs set_fs]. apply (ws_read_frame (fs r) f1 p b F (A5 p Hnin) A3 A4 Hr).
Qed.

(* ---- the statement for C03 ------------------------------------------------------------------------------------------ *)
(* an xvc command without --force whose target list has no repeated path *)
Definition unforced_cmd (it : item) : bool :=
  match it with
  | XTrack o ps => negb (t_force o) && nodupb ps
  | XCarryIn o ps => negb (c_force o) && nodupb ps
  | XRecheck o ps => negb (k_force o) && nodupb ps
  | _ => false
  end.

Theorem unforced_keeps_or_saves r it p b : reachable_r r -> mon_item relink r it = false -> unforced_cmd it = true ->
  ws_read (fs r) p = Some b ->
  ws_read (fs (fst (do_item r it))) p = Some b \/ saved (fst (do_item r it)) p b.
Proof.
  intros Hr G U Hb. pose proof (reachable_r_INV r Hr) as I. pose proof (reachable_r_SINV r Hr) as S.
  destruct it as [q c|q c|q|q|o ps|o ps|o ps]; try discriminate U; cbn [unforced_cmd] in U;
    apply andb_true_iff in U; destruct U as [U1 U2]; apply negb_true_iff in U1; cbn [do_item].
  - apply track_list; auto. now left.
  - apply carry_list; auto.
  - apply recheck_list; auto. now left.
Qed.

(* exact bytes outside the text-alias class *)
Corollary unforced_keeps_or_saves_exact r it p b : reachable_r r -> mon_item relink r it = false -> unforced_cmd it = true ->
  ws_read (fs r) p = Some b ->
  ws_read (fs (fst (do_item r it))) p = Some b \/
  exists e x d b', find_path (recs (fst (do_item r it))) p = Some (e, x) /\ r_digest x = Some d /\
                   obj_read (fs (fst (do_item r it))) (cache_addr p d) = Some b' /\ (b' = b \/ alias_pair b b' = true).
Proof.
  intros Hr G U Hb. destruct (unforced_keeps_or_saves r it p b Hr G U Hb) as [H|(e & x & d & b' & H1 & H2 & H3 & H4)]; [now left|].
  right. exists e, x, d, b'. split; [auto|split; [auto|split; [auto|now apply same_norm_exact_or_alias]]].
Qed.

(* the exact-bytes statement is false of the faithful model (P2): the second of two files that differ
   only in CR/LF bytes loses its bytes when it is tracked *)
Definition unforced_exact_full : Prop := forall r it p b, reachable_r r -> mon_item relink r it = false ->
  unforced_cmd it = true -> ws_read (fs r) p = Some b ->
  ws_read (fs (fst (do_item r it))) p = Some b \/
  exists e x d, find_path (recs (fst (do_item r it))) p = Some (e, x) /\ r_digest x = Some d /\
                obj_read (fs (fst (do_item r it))) (cache_addr p d) = Some b.

Lemma unforced_exact_refuted : ~ unforced_exact_full.
Proof.
  intros H.
  set (a_txt := [97; 46; 116; 120; 116]%N). set (b_txt := [98; 46; 116; 120; 116]%N).
  set (lf := [97; 10; 98; 10]%N). set (crlf := [97; 13; 10; 98; 13; 10]%N).
  set (t0 := {| t_method := None; t_tob := None; t_no_commit := false; t_force := false |}).
  set (r := run_items (init_repo B3 Copy Auto) [UWrite a_txt lf; UWrite b_txt crlf; XTrack t0 [a_txt]]).
  assert (R : reachable_r r) by (apply reachable_r_run; vm_compute; reflexivity).
  destruct (H r (XTrack t0 [b_txt]) b_txt crlf R) as [E|(e & x & d & Ef & Ed & Eo)]; try (vm_compute; reflexivity).
  - vm_compute in E. discriminate E.
  - vm_compute in Ef. injection Ef as <- <-. vm_compute in Ed. injection Ed as <-. vm_compute in Eo. discriminate Eo.
Qed.

Lemma unforced_alias_witness :
  let a_txt := [97; 46; 116; 120; 116]%N in let b_txt := [98; 46; 116; 120; 116]%N in
  let lf := [97; 10; 98; 10]%N in let crlf := [97; 13; 10; 98; 13; 10]%N in
  alias_pair crlf lf = true.
Proof. vm_compute. reflexivity. Qed.
