(* Proofs about M-REPO (core), part 5: the theorems in their final form.  The only excluded class is
   [relink] (Repo/Inv.v): Repo/Stamps.v shows that the auxiliary class [misfit] is empty. *)
From Coq Require Import List Bool NArith Lia.
From XV Require Import Base.Amap Base.Bytes Repo.Model Repo.Proofs Repo.Inv Repo.Restore Repo.Stamps.
Import ListNotations.

Lemma reachable_r_INV r : reachable_r r -> INV r.
Proof. intros H. apply reachable_INV. now apply reachable_r_reachable. Qed.

Lemma reachable_r_run a m t h : mon_run relink (init_repo a m t) h = false -> reachable_r (run_items (init_repo a m t) h).
Proof. intros G. exists a, m, t, h. auto. Qed.

Lemma mon_run_app bad h1 h2 : forall r, mon_run bad r (h1 ++ h2) = mon_run bad r h1 || mon_run bad (run_items r h1) h2.
Proof.
  induction h1 as [|it t IH]; intros r; [reflexivity|]. cbn [app mon_run]. rewrite IH, run_items_cons. now rewrite orb_assoc.
Qed.

Lemma reachable_r_steps r h : reachable_r r -> mon_run relink r h = false -> reachable_r (run_items r h).
Proof.
  intros (a & m & t & h0 & G & ->) Gh. exists a, m, t, (h0 ++ h). split.
  - rewrite mon_run_app, G, Gh. reflexivity.
  - unfold run_items. now rewrite fold_left_app.
Qed.

Lemma reachable_r_step r it : reachable_r r -> mon_item relink r it = false -> reachable_r (fst (do_item r it)).
Proof. intros Hr G. apply (reachable_r_steps r [it] Hr). cbn. now rewrite G. Qed.

Lemma item_clean r it : reachable_r r -> mon_item relink r it = false -> mon_item unclean r it = false.
Proof. intros Hr. apply item_nomisfit; [now apply reachable_r_INV|now apply reachable_r_SINV]. Qed.

Lemma run_clean r h : reachable_r r -> mon_run relink r h = false -> mon_run unclean r h = false.
Proof. intros Hr G. apply (run_nomisfit h r (reachable_r_INV r Hr) (reachable_r_SINV r Hr) G). Qed.

(* ---- C02 ------------------------------------------------------------------------------------------------------ *)
Theorem cas_final a m t h b c : mon_run relink (init_repo a m t) h = false ->
  obj_read (fs (run_items (init_repo a m t) h)) b = Some c -> fits (a_digest b) c.
Proof. intros G. apply cas_run. now apply clean_of_relink. Qed.

Theorem objects_plain_final a m t h b e : mon_run relink (init_repo a m t) h = false ->
  oget (fs (run_items (init_repo a m t) h)) b = Some e ->
  exists i n, e = EFile i /\ iget (fs (run_items (init_repo a m t) h)) i = Some n /\ i_w n = false /\
              (forall b', oget (fs (run_items (init_repo a m t) h)) b' = Some (EFile i) -> b' = b).
Proof. intros G. apply objects_plain_run. now apply clean_of_relink. Qed.

Theorem readonly_final a m t h b : mon_run relink (init_repo a m t) h = false -> panics (init_repo a m t) h = false ->
  oget (fs (run_items (init_repo a m t) h)) b <> None ->
  dget (fs (run_items (init_repo a m t) h)) (a_digest b) = Some false.
Proof. intros G. apply readonly_run. now apply clean_of_relink. Qed.

Theorem immutable_final r it b c c' : reachable_r r -> mon_item relink r it = false -> mon_item alias_swap r it = false ->
  obj_read (fs r) b = Some c -> obj_read (fs (fst (do_item r it))) b = Some c' -> c = c'.
Proof. intros Hr G. apply immutable_step; [now apply reachable_r_reachable|now apply item_clean]. Qed.

Theorem monotone_final r it b e : reachable_r r -> mon_item relink r it = false -> unforced it = true ->
  oget (fs r) b = Some e ->
  oget (fs (fst (do_item r it))) b = Some e /\ obj_read (fs (fst (do_item r it))) b = obj_read (fs r) b.
Proof. intros Hr G. apply cache_monotone_step; [now apply reachable_r_reachable|now apply item_clean]. Qed.

(* ---- C01 / C17 -------------------------------------------------------------------------------------------------- *)
Theorem track_commits_final o r p a m : reachable_r r -> track_one_call o (walked_of [p]) r p = Some (a, m) ->
  relink (fs r) p a (t_force o) = false ->
  snd (do_item r (XTrack o [p])) = Ok /\ m = track_method o r /\
  exists c', committed (fst (do_item r (XTrack o [p]))) p c' /\
             materialised (fs (fst (do_item r (XTrack o [p])))) p a m c' /\
             (alias_meet (fs r) p a (t_force o) = false -> ws_read (fs r) p = Some c').
Proof.
  intros Hr Hc G. pose proof (reachable_r_INV r Hr) as I. apply track_commits; auto.
  destruct (track_one_spec o (walked_of [p]) r p (proj2 I)) as (_ & _ & _ & S4). rewrite Hc in S4.
  destruct S4 as (_ & _ & Hfit & _). unfold unclean. rewrite G. now rewrite (fits_pre_misfit _ _ _ (t_force o) Hfit).
Qed.

Theorem track_then_restore_final o r p a m c ko : reachable_r r -> track_one_call o (walked_of [p]) r p = Some (a, m) ->
  relink (fs r) p a (t_force o) = false -> alias_meet (fs r) p a (t_force o) = false -> ws_read (fs r) p = Some c ->
  ws_read (fs (run_items r [XTrack o [p]; UDelete p; XRecheck ko [p]])) p = Some c.
Proof.
  intros Hr Hc G. pose proof (reachable_r_INV r Hr) as I. apply (track_then_restore o r p a m c ko I Hc).
  destruct (track_one_spec o (walked_of [p]) r p (proj2 I)) as (_ & _ & _ & S4). rewrite Hc in S4.
  destruct S4 as (_ & _ & Hfit & _). unfold unclean. rewrite G. now rewrite (fits_pre_misfit _ _ _ (t_force o) Hfit).
Qed.

Theorem stays_restorable_final r h p c o : reachable_r r -> committed r p c ->
  mon_run relink r h = false -> forallb (harmless p) h = true ->
  ws_read (fs (run_items (run_items r h) [UDelete p; XRecheck o [p]])) p = Some c.
Proof.
  intros Hr C G H. apply stays_restorable; auto; [now apply reachable_r_reachable|now apply run_clean].
Qed.
