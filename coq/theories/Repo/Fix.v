(* M-REPO (core) with the repairs of P44 / P42 and of P41 behind switches.
   [fixes] says which repairs the code contains (false = the code as Repo/Model.v describes it); the
   check derives the switches from the source of /repo on every run (vlib/repo.py:fixes_from_source).

   fixed_P44 (file/src/carry_in/mod.rs::carry_in): the targets of one track / carry-in command that
     have the same cache path are handled one after the other and --force applies only to the first
     of them: the cached file is replaced at most once in a command, every later target with that
     address finds the object and is rechecked from it.  (Before: in parallel mode the per-target
     closures raced on the cache path, P44; serially each of them replaced the object the earlier ones
     had just been linked to, P42.)  The visiting order stays a parameter (the order of the target
     list); groups of targets with different cache directories touch disjoint parts of the file
     system, so every parallel schedule of the groups equals one of these orders.
   fixed_P41 (file/src/common/mod.rs::rename_or_copy, is_link_to_cache): move_to_cache never renames
     a LINK into the cache: the content of a symbolic link, or of a file that has other names (hard
     links), is copied to a new cache file and the workspace entry removed; and carry-in --force
     treats a hard link to the cached file like a symbolic link (nothing of its own to carry in: the
     cached file stays).

   fixed_P49 (file/src/carry_in/mod.rs::cmd_carry_in): a selected target that has no cache path -- it is not
     in the workspace (or has no digest record) -- is left alone: it is not carried in and keeps its records,
     the other targets are carried in.  (Before: the length assertion of carry_in() panicked and NO target
     was committed.)

   fixed_P43 (file/src/track/mod.rs::cmd_track): `track --recheck-method m` applies m also to the targets that are
     tracked already and whose content did not change: (A) track records a recheck method only for the targets whose
     content it records (new or changed content); the others keep theirs; (B) when the method was given on the command
     line, track ends with `recheck --recheck-method m` on its targets, which re-materialises the unchanged ones whose
     recorded method differs and records m for them.  (Before: after a touch the method was recorded but the entry
     stayed as it was; without a touch nothing happened; a path rechecked as a symbolic link was skipped altogether.)

   No proofs in this file. *)
From Coq Require Import List Bool NArith.
From XV Require Import Base.Amap Base.Bytes Repo.Model.
Import ListNotations.
Set Implicit Arguments.

Record fixes := { fixed_P44 : bool; fixed_P41 : bool; fixed_P49 : bool; fixed_P43 : bool }.
Definition as_is : fixes := {| fixed_P44 := false; fixed_P41 := false; fixed_P49 := false; fixed_P43 := false |}.
Definition all_fixed : fixes := {| fixed_P44 := true; fixed_P41 := true; fixed_P49 := true; fixed_P43 := true |}.

(* ---- P41 ----------------------------------------------------------------------------------------- *)
(* has_other_names: a symbolic link, or a regular file with st_nlink > 1: another workspace path, or a
   cache path, is a name of the same inode *)
Definition is_ino (i : N) (e : entry) : bool := match e with EFile j => N.eqb i j | ELink _ => false end.
Definition has_other_names (f : fsys) (p : path) (e : entry) : bool :=
  match e with
  | ELink _ => true
  | EFile i => existsb (fun qe => negb (beqb (fst qe) p) && is_ino i (snd qe)) (ws f)
               || existsb (fun ae => is_ino i (snd ae)) (objs f)
  end.

(* move_to_cache with rename_or_copy as repaired: a link is not renamed; its content is copied to a new
   file (fresh inode, fresh stamp) that is renamed to the address, the workspace entry is removed *)
Definition move_to_cache_x (fx : fixes) (f : fsys) (p : path) (a : caddr) : fsys * outcome :=
  match wget f p with
  | Some e =>
      if fixed_P41 fx && has_other_names f p e then
        match read_entry f e with
        | Some c =>
            let '(i, f1) := fresh_ino (tick f) in
            (dput (oput (wdel (iput f1 i {| i_bytes := c; i_w := false; i_mt := clock f1 |}) p) a (EFile i)) (a_digest a) false, Ok)
        | None => (dput f (a_digest a) true, Err)      (* fs::copy of a dangling link fails; the directory stays writable *)
        end
      else move_to_cache f p a
  | None => move_to_cache f p a
  end.

(* is_link_to_cache: a symbolic link, or the same inode as the file at the cache path (metadata of the
   cache path follows a symbolic link) *)
Definition links_to (f : fsys) (p : path) (a : caddr) : bool :=
  match wget f p with
  | Some (ELink _) => true
  | Some (EFile i) => match oget f a with
                      | Some e => match resolve f link_fuel e with Some j => N.eqb i j | None => false end
                      | None => false
                      end
  | None => false
  end.
Definition target_is_link (fx : fixes) (f : fsys) (p : path) (a : caddr) : bool :=
  if fixed_P41 fx then links_to f p a else match wget f p with Some (ELink _) => true | _ => false end.

(* carry_in's closure for one target *)
Definition carry_one_x (fx : fixes) (f : fsys) (p : path) (a : caddr) (m : method) (force : bool) : fsys * outcome :=
  let '(f1, o1) :=
    if obj_exists f a then
      if force && negb (target_is_link fx f p a) then
        let f' := dput f (a_digest a) true in
        let f' := match oget f' a with
                  | Some e => match resolve f' link_fuel e with
                              | Some i => match iget f' i with
                                          | Some n => iput f' i {| i_bytes := i_bytes n; i_w := true; i_mt := i_mt n |}
                                          | None => f' end
                              | None => f' end
                  | None => f' end in
        move_to_cache_x fx (odel f' a) p a
      else (f, Ok)
    else move_to_cache_x fx f p a in
  match o1 with
  | Ok =>
      let f2 := if ws_exists f1 p then wdel f1 p else f1 in
      recheck_from_cache f2 p a m
  | _ => (f1, Panic)
  end.

(* ---- P44 / P42 ----------------------------------------------------------------------------------- *)
(* the cache paths the command has already handled; --force applies to the first target of each *)
Definition amem (a : caddr) (l : list caddr) : bool := existsb (caddr_eqb a) l.
Definition eff_force (fx : fixes) (done : list caddr) (a : caddr) (force : bool) : bool :=
  force && negb (fixed_P44 fx && amem a done).

(* the address track commits target p to and the method it rechecks it with (None: p is not carried in) *)
Definition track_call (o : track_opts) (walked : bool) (r : repo) (p : path) : option (caddr * method) :=
  let f := fs r in
  if walked && match wget f p with Some (ELink _) => true | _ => false end then None else
  match ws_meta f p with
  | None => None
  | Some sm =>
      let m := match t_method o with Some m => m | None => cfg_method r end in
      let t := match t_tob o with Some t => t | None => cfg_tob r end in
      match find_path (recs r) p with
      | None =>
          match ws_read f p with
          | None => None
          | Some c => if t_no_commit o then None else Some (cache_addr p (digest_of (cfg_algo r) t c), m)
          end
      | Some (e, x) =>
          if meta_eqb (r_meta x) (Some sm) then None
          else match digest_diff r x (cfg_algo r) t with
               | DDifferent d | DRecordMissing d => if t_no_commit o then None else Some (cache_addr p d, m)
               | _ => None
               end
      end
  end.
Definition records_only (o : track_opts) : track_opts :=
  {| t_method := t_method o; t_tob := t_tob o; t_no_commit := true; t_force := t_force o |}.

(* P43 (A): a target whose recorded digest did not change keeps its recorded method *)
Definition digest_opt_eqb (a b : option digest) : bool :=
  match a, b with Some x, Some y => digest_eqb x y | None, None => true | _, _ => false end.
Definition keep_method (r0 r1 : repo) (p : path) : repo :=
  match find_path (recs r0) p, find_path (recs r1) p with
  | Some (_, x0), Some (e, x1) =>
      if digest_opt_eqb (r_digest x0) (r_digest x1) && negb (method_eqb (r_method x0) (r_method x1))
      then rput r1 e {| r_path := r_path x1; r_meta := r_meta x1; r_digest := r_digest x1; r_hist := r_hist x1;
                        r_method := r_method x0; r_tob := r_tob x1 |}
      else r1
  | _, _ => r1
  end.

(* one target of track: the records as track_one writes them, the content by carry_one_x *)
Definition track_one_x (fx : fixes) (o : track_opts) (walked : bool) (st : repo * list caddr) (p : path)
  : (repo * list caddr) * outcome :=
  let '(r, done) := st in
  match track_call o walked r p with
  | None => let '(r1, oc) := track_one o walked r p in ((if fixed_P43 fx then keep_method r r1 p else r1, done), oc)
  | Some (a, m) =>
      let r1 := fst (track_one (records_only o) walked r p) in
      let '(f2, oc) := carry_one_x fx (fs r) p a m (eff_force fx done a (t_force o)) in
      ((set_fs r1 f2, a :: done), oc)
  end.
Fixpoint each_x (step : repo * list caddr -> path -> (repo * list caddr) * outcome) (st : repo * list caddr) (ps : list path)
  : (repo * list caddr) * outcome :=
  match ps with
  | [] => (st, Ok)
  | p :: t => let '(s1, o1) := step st p in let '(s2, o2) := each_x step s1 t in (s2, worst o1 o2)
  end.

Fixpoint carry_phase_x (fx : fixes) (f : fsys) (cs : list cplan) (force : bool) (done : list caddr) : fsys * outcome :=
  match cs with
  | [] => (f, Ok)
  | c :: t =>
      match cp_sel c, cp_addr c with
      | true, Some a =>
          let '(f1, o1) := carry_one_x fx f (r_path (cp_rec c)) a (r_method (cp_rec c)) (eff_force fx done a force) in
          match o1 with
          | Ok => carry_phase_x fx f1 t force (a :: done)
          | _ => (f1, Panic)
          end
      | _, _ => carry_phase_x fx f t force done
      end
  end.
(* a selected target without a cache path *)
Definition left_alone (c : cplan) : bool := cp_sel c && match cp_addr c with None => true | Some _ => false end.
Definition carry_in_cmd_x (fx : fixes) (o : carry_opts) (r : repo) (ps : list path) : repo * outcome :=
  let cs := plans o r ps in
  if negb (fixed_P49 fx) && existsb left_alone cs
  then (r, Panic)
  else
    let '(f1, oc) := carry_phase_x fx (fs r) cs (c_force o) [] in
    match oc with
    | Ok => (record_phase (set_fs r f1) (if fixed_P49 fx then filter (fun c => negb (left_alone c)) cs else cs), Ok)
    | _ => (set_fs r f1, Panic)
    end.

Definition do_item_x (fx : fixes) (r : repo) (it : item) : repo * outcome :=
  match it with
  | XTrack o ps =>
      let '(st, oc) := each_x (track_one_x fx o (existsb (fun p => existsb (N.eqb slash) p) ps)) (r, []) ps in
      match (if fixed_P43 fx then t_method o else None), oc with
      | Some m, Ok | Some m, Err =>
          (* P43 (B): the method given on the command line is applied by a recheck of the same targets *)
          let '(r2, oc2) := each (recheck_one {| k_method := Some m; k_force := false |}) (fst st) ps in (r2, worst oc oc2)
      | _, _ => (fst st, oc)
      end
  | XCarryIn o ps => carry_in_cmd_x fx o r ps
  | _ => do_item r it
  end.
Definition run_items_x (fx : fixes) (r : repo) (h : list item) : repo := fold_left (fun r it => fst (do_item_x fx r it)) h r.
