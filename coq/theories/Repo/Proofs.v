(* Proofs about M-REPO (core), part 1: basic facts.
   - text normalisation and addresses (fits, deduplication, the alias class);
   - the boolean key equalities are decision procedures;
   - how the accessors of the file system see each elementary update (rewrite base [fsdb]);
   - the primitives move_to_cache / recheck_from_cache written as sequences of elementary updates.
   The invariants over histories are in Repo/Inv.v, C01 in Repo/Restore.v, C17 in Repo/Methods.v. *)
From Coq Require Import List Bool NArith Lia.
From XV Require Import Base.Amap Base.Bytes Repo.Model.
Import ListNotations.

(* ---- text normalisation --------------------------------------------------------------------- *)
Definition fits (d : digest) (c : bytes) : Prop := d_norm d = c \/ d_norm d = strip_crlf c.

Lemma digest_of_fits a t c : fits (digest_of a t c) c.
Proof. unfold fits, digest_of; cbn. destruct (treat_as_text t c); auto. Qed.

(* equal content, extension, algorithm and mode => one address (deduplication) *)
Lemma dedup_same_address a t c p1 p2 :
  extension p1 = extension p2 -> cache_addr p1 (digest_of a t c) = cache_addr p2 (digest_of a t c).
Proof. unfold cache_addr; intros ->; reflexivity. Qed.

(* text mode: contents differing only in CR/LF bytes share one address (the alias class P2) *)
Lemma text_alias_same_address a c1 c2 p :
  strip_crlf c1 = strip_crlf c2 -> cache_addr p (digest_of a Text c1) = cache_addr p (digest_of a Text c2).
Proof. unfold cache_addr, digest_of; cbn; intros ->; reflexivity. Qed.

(* two contents that fit one digest have the same text normal form *)
Lemma fits_same_norm d c1 c2 : fits d c1 -> fits d c2 -> strip_crlf c1 = strip_crlf c2.
Proof.
  unfold fits; intros [H1|H1] [H2|H2].
  - congruence.
  - rewrite <- H1, H2. now rewrite strip_crlf_idem.
  - rewrite <- H2, H1. now rewrite strip_crlf_idem.
  - congruence.
Qed.

(* ---- key equalities --------------------------------------------------------------------------- *)
Lemma algo_eqb_spec a b : reflect (a = b) (algo_eqb a b).
Proof. destruct a, b; cbn; constructor; congruence. Qed.

Lemma method_eqb_spec a b : reflect (a = b) (method_eqb a b).
Proof. destruct a, b; cbn; constructor; congruence. Qed.

Lemma tob_eqb_spec a b : reflect (a = b) (tob_eqb a b).
Proof. destruct a, b; cbn; constructor; congruence. Qed.

Lemma digest_eqb_spec a b : reflect (a = b) (digest_eqb a b).
Proof.
  destruct a as [a1 n1], b as [a2 n2]; unfold digest_eqb; cbn.
  destruct (algo_eqb_spec a1 a2) as [->|H]; cbn; [|constructor; congruence].
  destruct (beqb_spec n1 n2) as [->|H]; constructor; congruence.
Qed.

Lemma caddr_eqb_spec a b : reflect (a = b) (caddr_eqb a b).
Proof.
  destruct a as [d1 e1], b as [d2 e2]; unfold caddr_eqb; cbn.
  destruct (digest_eqb_spec d1 d2) as [->|H]; cbn; [|constructor; congruence].
  destruct (beqb_spec e1 e2) as [->|H]; constructor; congruence.
Qed.

Lemma beqb_neq a b : a <> b -> beqb a b = false.
Proof. destruct (beqb_spec a b); congruence. Qed.
Lemma caddr_eqb_refl a : caddr_eqb a a = true.
Proof. destruct (caddr_eqb_spec a a); congruence. Qed.
Lemma caddr_eqb_neq a b : a <> b -> caddr_eqb a b = false.
Proof. destruct (caddr_eqb_spec a b); congruence. Qed.
Lemma digest_eqb_refl a : digest_eqb a a = true.
Proof. destruct (digest_eqb_spec a a); congruence. Qed.

(* ---- accessors under elementary updates ---------------------------------------------------------- *)
(* the file system after taking a fresh inode number *)
Definition bump (f : fsys) : fsys :=
  {| ws := ws f; objs := objs f; dirw := dirw f; inodes := inodes f; next_ino := N.succ (next_ino f); clock := clock f |}.
Lemma fresh_ino_eq f : fresh_ino f = (next_ino f, bump f).
Proof. reflexivity. Qed.

Lemma wget_wput f p e q : wget (wput f p e) q = if beqb p q then Some e else wget f q.
Proof. unfold wget, wput; cbn. apply get_put, beqb_spec. Qed.
Lemma wget_wdel f p q : wget (wdel f p) q = if beqb p q then None else wget f q.
Proof. unfold wget, wdel; cbn. apply get_del, beqb_spec. Qed.
Lemma oget_oput f a e b : oget (oput f a e) b = if caddr_eqb a b then Some e else oget f b.
Proof. unfold oget, oput; cbn. apply get_put, caddr_eqb_spec. Qed.
Lemma oget_odel f a b : oget (odel f a) b = if caddr_eqb a b then None else oget f b.
Proof. unfold oget, odel; cbn. apply get_del, caddr_eqb_spec. Qed.
Lemma dget_dput f d w d' : dget (dput f d w) d' = if digest_eqb d d' then Some w else dget f d'.
Proof. unfold dget, dput; cbn. apply get_put, digest_eqb_spec. Qed.
Lemma iget_iput f i n j : iget (iput f i n) j = if N.eqb i j then Some n else iget f j.
Proof. unfold iget, iput; cbn. apply get_put, N.eqb_spec. Qed.

(* updates of one component do not show in the others *)
Lemma wget_oput f a e q : wget (oput f a e) q = wget f q. Proof. reflexivity. Qed.
Lemma wget_odel f a q : wget (odel f a) q = wget f q. Proof. reflexivity. Qed.
Lemma wget_dput f d w q : wget (dput f d w) q = wget f q. Proof. reflexivity. Qed.
Lemma wget_iput f i n q : wget (iput f i n) q = wget f q. Proof. reflexivity. Qed.
Lemma wget_tick f q : wget (tick f) q = wget f q. Proof. reflexivity. Qed.
Lemma wget_bump f q : wget (bump f) q = wget f q. Proof. reflexivity. Qed.
Lemma oget_wput f p e b : oget (wput f p e) b = oget f b. Proof. reflexivity. Qed.
Lemma oget_wdel f p b : oget (wdel f p) b = oget f b. Proof. reflexivity. Qed.
Lemma oget_dput f d w b : oget (dput f d w) b = oget f b. Proof. reflexivity. Qed.
Lemma oget_iput f i n b : oget (iput f i n) b = oget f b. Proof. reflexivity. Qed.
Lemma oget_tick f b : oget (tick f) b = oget f b. Proof. reflexivity. Qed.
Lemma oget_bump f b : oget (bump f) b = oget f b. Proof. reflexivity. Qed.
Lemma iget_wput f p e j : iget (wput f p e) j = iget f j. Proof. reflexivity. Qed.
Lemma iget_wdel f p j : iget (wdel f p) j = iget f j. Proof. reflexivity. Qed.
Lemma iget_oput f a e j : iget (oput f a e) j = iget f j. Proof. reflexivity. Qed.
Lemma iget_odel f a j : iget (odel f a) j = iget f j. Proof. reflexivity. Qed.
Lemma iget_dput f d w j : iget (dput f d w) j = iget f j. Proof. reflexivity. Qed.
Lemma iget_tick f j : iget (tick f) j = iget f j. Proof. reflexivity. Qed.
Lemma iget_bump f j : iget (bump f) j = iget f j. Proof. reflexivity. Qed.
Lemma dget_wput f p e d : dget (wput f p e) d = dget f d. Proof. reflexivity. Qed.
Lemma dget_wdel f p d : dget (wdel f p) d = dget f d. Proof. reflexivity. Qed.
Lemma dget_oput f a e d : dget (oput f a e) d = dget f d. Proof. reflexivity. Qed.
Lemma dget_odel f a d : dget (odel f a) d = dget f d. Proof. reflexivity. Qed.
Lemma dget_iput f i n d : dget (iput f i n) d = dget f d. Proof. reflexivity. Qed.
Lemma dget_tick f d : dget (tick f) d = dget f d. Proof. reflexivity. Qed.
Lemma dget_bump f d : dget (bump f) d = dget f d. Proof. reflexivity. Qed.
Lemma ni_wput f p e : next_ino (wput f p e) = next_ino f. Proof. reflexivity. Qed.
Lemma ni_wdel f p : next_ino (wdel f p) = next_ino f. Proof. reflexivity. Qed.
Lemma ni_oput f a e : next_ino (oput f a e) = next_ino f. Proof. reflexivity. Qed.
Lemma ni_odel f a : next_ino (odel f a) = next_ino f. Proof. reflexivity. Qed.
Lemma ni_dput f d w : next_ino (dput f d w) = next_ino f. Proof. reflexivity. Qed.
Lemma ni_iput f i n : next_ino (iput f i n) = next_ino f. Proof. reflexivity. Qed.
Lemma ni_tick f : next_ino (tick f) = next_ino f. Proof. reflexivity. Qed.
Lemma ni_bump f : next_ino (bump f) = N.succ (next_ino f). Proof. reflexivity. Qed.
Lemma clock_wput f p e : clock (wput f p e) = clock f. Proof. reflexivity. Qed.
Lemma clock_iput f i n : clock (iput f i n) = clock f. Proof. reflexivity. Qed.
Lemma clock_bump f : clock (bump f) = clock f. Proof. reflexivity. Qed.

Global Hint Rewrite wget_wput wget_wdel oget_oput oget_odel dget_dput iget_iput
  wget_oput wget_odel wget_dput wget_iput wget_tick wget_bump
  oget_wput oget_wdel oget_dput oget_iput oget_tick oget_bump
  iget_wput iget_wdel iget_oput iget_odel iget_dput iget_tick iget_bump
  dget_wput dget_wdel dget_oput dget_odel dget_iput dget_tick dget_bump
  ni_wput ni_wdel ni_oput ni_odel ni_dput ni_iput ni_tick ni_bump : fsdb.

(* ---- reading --------------------------------------------------------------------------------------- *)
Lemma resolve_file f k i : resolve f k (EFile i) = Some i.
Proof. destruct k; reflexivity. Qed.

Lemma resolve_link f k a :
  resolve f (S k) (ELink a) = match oget f a with Some e' => resolve f k e' | None => None end.
Proof. reflexivity. Qed.

Lemma read_file f i : read_entry f (EFile i) = match iget f i with Some n => Some (i_bytes n) | None => None end.
Proof. unfold read_entry. now rewrite resolve_file. Qed.

(* a symlink to an address whose entry is a regular file *)
Lemma resolve_link_file f a i : oget f a = Some (EFile i) -> resolve f link_fuel (ELink a) = Some i.
Proof. intros H. unfold link_fuel. rewrite resolve_link, H. apply resolve_file. Qed.

Lemma resolve_link_none f a : oget f a = None -> resolve f link_fuel (ELink a) = None.
Proof. intros H. unfold link_fuel. now rewrite resolve_link, H. Qed.

(* the workspace without the entry at p when the path exists (Path::exists follows links) *)
Definition cleared (f : fsys) (p : path) : fsys := if ws_exists f p then wdel f p else f.

Lemma cleared_other f p q : p <> q -> wget (cleared f p) q = wget f q.
Proof.
  intros H; unfold cleared. destruct (ws_exists f p); auto.
  rewrite wget_wdel. now rewrite beqb_neq.
Qed.
Lemma oget_cleared f p a : oget (cleared f p) a = oget f a.
Proof. unfold cleared; destruct (ws_exists f p); reflexivity. Qed.
Lemma iget_cleared f p i : iget (cleared f p) i = iget f i.
Proof. unfold cleared; destruct (ws_exists f p); reflexivity. Qed.
Lemma dget_cleared f p d : dget (cleared f p) d = dget f d.
Proof. unfold cleared; destruct (ws_exists f p); reflexivity. Qed.
Lemma ni_cleared f p : next_ino (cleared f p) = next_ino f.
Proof. unfold cleared; destruct (ws_exists f p); reflexivity. Qed.
Global Hint Rewrite oget_cleared iget_cleared dget_cleared ni_cleared : fsdb.

(* resolution and reading depend on the cache entries and inodes only *)
Lemma resolve_ext f g k e :
  (forall a, oget g a = oget f a) -> resolve g k e = resolve f k e.
Proof.
  intros H; revert e; induction k as [|k IH]; intros [i|a]; cbn; auto.
  rewrite H. destruct (oget f a); auto.
Qed.
Lemma read_entry_ext f g e :
  (forall a, oget g a = oget f a) -> (forall i, iget g i = iget f i) -> read_entry g e = read_entry f e.
Proof.
  intros Ho Hi; unfold read_entry. rewrite (resolve_ext f g link_fuel e Ho).
  destruct (resolve f link_fuel e); auto. now rewrite Hi.
Qed.
Lemma obj_read_ext f g a :
  (forall a, oget g a = oget f a) -> (forall i, iget g i = iget f i) -> obj_read g a = obj_read f a.
Proof. intros Ho Hi; unfold obj_read. rewrite Ho. destruct (oget f a); auto. now apply read_entry_ext. Qed.
Lemma obj_exists_ext f g a :
  (forall a, oget g a = oget f a) -> obj_exists g a = obj_exists f a.
Proof. intros Ho; unfold obj_exists. rewrite Ho. destruct (oget f a); auto. now rewrite (resolve_ext f g link_fuel e Ho). Qed.

Lemma obj_read_cleared f p a : obj_read (cleared f p) a = obj_read f a.
Proof. apply obj_read_ext; intros; autorewrite with fsdb; auto. Qed.
Lemma obj_exists_cleared f p a : obj_exists (cleared f p) a = obj_exists f a.
Proof. apply obj_exists_ext; intros; autorewrite with fsdb; auto. Qed.

(* ---- the primitives as sequences of elementary updates ---------------------------------------------- *)
Definition ro (n : inode) : inode := {| i_bytes := i_bytes n; i_w := false; i_mt := i_mt n |}.
Definition rw (n : inode) : inode := {| i_bytes := i_bytes n; i_w := true; i_mt := i_mt n |}.

(* move_to_cache of a regular file: the entry leaves the workspace, its inode becomes read-only, the
   address gets the entry, the directory ends read-only *)
Lemma mtc_file f p a j n :
  wget f p = Some (EFile j) -> iget f j = Some n ->
  move_to_cache f p a = (dput (oput (iput (wdel f p) j (ro n)) a (EFile j)) (a_digest a) false, Ok).
Proof.
  intros Hw Hi; unfold move_to_cache. rewrite Hw, resolve_file.
  autorewrite with fsdb. rewrite Hi. reflexivity.
Qed.

Lemma mtc_none f p a :
  wget f p = None -> move_to_cache f p a = (dput f (a_digest a) true, Err).
Proof. intros Hw; unfold move_to_cache. now rewrite Hw. Qed.

(* the new inode of a copy *)
Definition alloc (f : fsys) (n : inode) : fsys := iput (bump f) (next_ino f) n.

Lemma rfc_unfold f p a m :
  recheck_from_cache f p a m =
  let f0 := cleared f p in
  match m with
  | Copy | Reflink =>
      match obj_read f0 a with
      | None => (f0, Err)
      | Some c => match wget f0 p with
                  | Some (ELink _) => (f0, Err)
                  | _ => (wput (alloc (tick f0) {| i_bytes := c; i_w := true; i_mt := clock (tick f0) |}) p (EFile (next_ino f0)), Ok)
                  end
      end
  | Hardlink =>
      match wget f0 p, oget f0 a with
      | None, Some (EFile i) => (wput f0 p (EFile i), Ok)
      | None, Some (ELink b) => (wput f0 p (ELink b), Ok)
      | _, _ => (f0, Err)
      end
  | Symlink => match wget f0 p with None => (wput f0 p (ELink a), Ok) | Some _ => (f0, Err) end
  end.
Proof.
  unfold recheck_from_cache, cleared. cbv zeta.
  destruct m; reflexivity.
Qed.
