(* Proofs about M-REPO (core). *)
From Coq Require Import List Bool NArith Lia.
From XV Require Import Base.Amap Base.Bytes Repo.Model.
Import ListNotations.

(* ---- text normalisation --------------------------------------------------------------------- *)
Definition fits (d : digest) (c : bytes) : Prop := d_norm d = c \/ d_norm d = strip_crlf c.

Lemma digest_of_fits a t c : fits (digest_of a t c) c.
Proof. unfold fits, digest_of; cbn. destruct (treat_as_text t c); auto. Qed.

(* equal content, extension, algorithm and mode => one address (deduplication) *)
Lemma dedup_same_address a t c p1 p2 :
  extension p1 = extension p2 -> cache_addr p1 (digest_of a t c) = cache_addr p2 (digest_of a t c).
Proof. unfold cache_addr; intros ->; reflexivity. Qed.

(* text mode: contents differing only in CR/LF bytes share one address (the alias class P2) *)
Lemma text_alias_same_address a c1 c2 p :
  strip_crlf c1 = strip_crlf c2 -> cache_addr p (digest_of a Text c1) = cache_addr p (digest_of a Text c2).
Proof. unfold cache_addr, digest_of; cbn; intros ->; reflexivity. Qed.
