(* Proofs about M-REPO (core), part 3: what a commit stores and what recheck restores (C01), and
   how each recheck method materialises the workspace entry (C17). *)
From Coq Require Import List Bool NArith Lia.
From XV Require Import Base.Amap Base.Bytes Repo.Model Repo.Proofs Repo.Inv.
Import ListNotations.

(* the record of p names a version whose object is in the cache and reads c *)
Definition committed (r : repo) (p : path) (c : bytes) : Prop :=
  exists e x d, find_path (recs r) p = Some (e, x) /\ r_meta x <> None /\ r_digest x = Some d /\
                obj_read (fs r) (cache_addr p d) = Some c.

(* what the workspace entry at p is after a restore with method m from address a, reading c *)
Definition materialised (f : fsys) (p : path) (a : caddr) (m : method) (c : bytes) : Prop :=
  ws_read f p = Some c /\
  match m with
  | Copy | Reflink => exists i n, wget f p = Some (EFile i) /\ iget f i = Some n /\ i_w n = true /\
                                 (forall b, oget f b <> Some (EFile i))
  | Hardlink => exists i n, wget f p = Some (EFile i) /\ oget f a = Some (EFile i) /\ iget f i = Some n /\ i_w n = false
  | Symlink => wget f p = Some (ELink a)
  end.

(* not a dangling symbolic link *)
Definition no_dangling (f : fsys) (p : path) : Prop := wget f p = None \/ ws_exists f p = true.

Lemma cleared_none f p : no_dangling f p -> wget (cleared f p) p = None.
Proof.
  unfold cleared. intros [H|H].
  - destruct (ws_exists f p); auto. rewrite wget_wdel. now rewrite beqb_refl.
  - rewrite H. rewrite wget_wdel. now rewrite beqb_refl.
Qed.

Lemma cleared_idem f p : cleared (cleared f p) p = cleared f p.
Proof.
  unfold cleared at 2 3. destruct (ws_exists f p) eqn:E.
  - unfold cleared. unfold ws_exists. rewrite wget_wdel, beqb_refl. reflexivity.
  - unfold cleared. now rewrite E.
Qed.

Lemma rfc_ok f p a m i n : FI f -> oget f a = Some (EFile i) -> iget f i = Some n -> wget (cleared f p) p = None ->
  snd (recheck_from_cache f p a m) = Ok /\ materialised (fst (recheck_from_cache f p a m)) p a m (i_bytes n).
Proof.
  intros F Ho Hi Hw. rewrite rfc_unfold. cbv zeta.
  pose proof (FI_cleared f p F) as F0.
  assert (Hr : obj_read (cleared f p) a = Some (i_bytes n)).
  { rewrite obj_read_cleared. apply obj_read_spec; eauto. }
  assert (Copy_case :
    let g := wput (alloc (tick (cleared f p)) {| i_bytes := i_bytes n; i_w := true; i_mt := clock (tick (cleared f p)) |}) p
                  (EFile (next_ino (cleared f p))) in
    ws_read g p = Some (i_bytes n) /\
    exists i0 n0, wget g p = Some (EFile i0) /\ iget g i0 = Some n0 /\ i_w n0 = true /\ (forall b, oget g b <> Some (EFile i0))).
  { intros g. unfold g.
    assert (Eg : wget g p = Some (EFile (next_ino (cleared f p)))) by (unfold g; rewrite wget_wput; now rewrite beqb_refl).
    assert (Ei : iget g (next_ino (cleared f p)) = Some {| i_bytes := i_bytes n; i_w := true; i_mt := clock (tick (cleared f p)) |}).
    { unfold g. rewrite iget_wput. change (next_ino (cleared f p)) with (next_ino (tick (cleared f p))). apply iget_alloc_new. }
    fold g. split.
    - unfold ws_read. rewrite Eg, read_file, Ei. reflexivity.
    - eexists _, _. split; [exact Eg|split; [exact Ei|split; [reflexivity|]]].
      intros b Hb. unfold g, alloc in Hb. autorewrite with fsdb in Hb.
      destruct (FI_obj_file _ _ _ F Hb) as (nb & Hnb & _). apply (fi_bound F) in Hnb. lia. }
  destruct m.
  - rewrite Hr, Hw. cbn [fst snd]. split; [reflexivity|]. destruct Copy_case as [C1 C2]. split; auto.
  - rewrite Hw. autorewrite with fsdb. rewrite Ho. cbn [fst snd]. split; [reflexivity|].
    destruct (FI_obj_file _ _ _ F Ho) as (n' & Hn' & Hw' & _). rewrite Hi in Hn'. injection Hn' as <-.
    assert (Eg : wget (wput (cleared f p) p (EFile i)) p = Some (EFile i)) by (rewrite wget_wput; now rewrite beqb_refl).
    split.
    + unfold ws_read. rewrite Eg, read_file. autorewrite with fsdb. now rewrite Hi.
    + exists i, n. autorewrite with fsdb. rewrite beqb_refl. auto.
  - rewrite Hw. cbn [fst snd]. split; [reflexivity|].
    assert (Eg : wget (wput (cleared f p) p (ELink a)) p = Some (ELink a)) by (rewrite wget_wput; now rewrite beqb_refl).
    split; auto. unfold ws_read. rewrite Eg. unfold read_entry.
    rewrite (resolve_link_file _ a i) by (autorewrite with fsdb; auto).
    autorewrite with fsdb. now rewrite Hi.
  - rewrite Hr, Hw. cbn [fst snd]. split; [reflexivity|]. destruct Copy_case as [C1 C2]. split; auto.
Qed.

(* ---- recheck ------------------------------------------------------------------------------------------------ *)
Definition recheck_selected (o : recheck_opts) (r : repo) (x : frec) : bool :=
  let dd := digest_diff r x (cfg_algo r) (r_tob x) in
  k_force o
  || (negb (method_eqb (recheck_method o x) (r_method x)) && negb (match dd with DDifferent _ => true | _ => false end))
  || (match dd with DActualMissing => true | _ => false end).

Lemma selected_force o r x : k_force o = true -> recheck_selected o r x = true.
Proof. unfold recheck_selected. intros ->. reflexivity. Qed.

Lemma selected_missing o r x sm : r_meta x = Some sm -> ws_meta (fs r) (r_path x) = None -> recheck_selected o r x = true.
Proof.
  intros Hm Hw. unfold recheck_selected, digest_diff. rewrite Hm, Hw. destruct sm as [s0 m0]. cbn. apply orb_true_r.
Qed.

(* the method changes and the workspace file is not modified *)
Lemma selected_method o r x : recheck_method o x <> r_method x ->
  (forall d, digest_diff r x (cfg_algo r) (r_tob x) <> DDifferent d) -> recheck_selected o r x = true.
Proof.
  intros Hm Hd. unfold recheck_selected.
  destruct (method_eqb_spec (recheck_method o x) (r_method x)); [congruence|]. cbn.
  destruct (digest_diff r x (cfg_algo r) (r_tob x)); try (now rewrite orb_true_r); try (now destruct (k_force o)).
  exfalso. eapply Hd; eauto.
Qed.

Lemma recheck_one_ok o r p e x sm d i n :
  INV r -> find_path (recs r) p = Some (e, x) -> r_meta x = Some sm -> r_digest x = Some d ->
  oget (fs r) (cache_addr p d) = Some (EFile i) -> iget (fs r) i = Some n ->
  recheck_selected o r x = true -> no_dangling (fs r) p ->
  snd (recheck_one o r p) = Ok /\
  materialised (fs (fst (recheck_one o r p))) p (cache_addr p d) (recheck_method o x) (i_bytes n) /\
  find_path (recs (fst (recheck_one o r p))) p = Some (e, with_method x (recheck_method o x)).
Proof.
  intros [F R] Ef Hm Hd Ho Hi Hs Hnd. unfold recheck_one. rewrite Ef, Hm. cbv zeta.
  fold (recheck_method o x). unfold recheck_selected in Hs. cbv zeta in Hs. rewrite Hs. cbn [negb].
  rewrite Hd.
  pose proof (proj1 (find_path_spec r p e x R) Ef) as [Hg Hp].
  assert (Ex : obj_exists (fs r) (cache_addr p d) = true) by (apply obj_exists_spec; auto; congruence).
  rewrite Ex.
  change (if ws_exists (fs r) p then wdel (fs r) p else fs r) with (cleared (fs r) p).
  destruct (rfc_ok (cleared (fs r) p) p (cache_addr p d) (recheck_method o x) i n) as [K1 K2];
    [apply FI_cleared, F|now autorewrite with fsdb|now autorewrite with fsdb|rewrite cleared_idem; now apply cleared_none|].
  destruct (recheck_from_cache (cleared (fs r) p) p (cache_addr p d) (recheck_method o x)) as [f2 oc].
  cbn [fst snd] in *. split; [auto|split; [auto|]].
  cbn [recs set_fs]. rewrite <- Hp at 2.
  assert (Ew : {| r_path := p; r_meta := Some sm; r_digest := Some d; r_hist := r_hist x;
                  r_method := recheck_method o x; r_tob := r_tob x |} = with_method x (recheck_method o x)).
  { unfold with_method. now rewrite Hp, Hm, Hd. }
  rewrite Ew. apply find_path_rput_same; auto.
Qed.

Lemma do_recheck_single o r p :
  fst (do_item r (XRecheck o [p])) = fst (recheck_one o r p) /\ snd (do_item r (XRecheck o [p])) = snd (recheck_one o r p).
Proof. cbn. destruct (recheck_one o r p) as [r1 [| |]]; auto. Qed.

Lemma do_track_single o r p :
  fst (do_item r (XTrack o [p])) = fst (track_one o (walked_of [p]) r p) /\
  snd (do_item r (XTrack o [p])) = snd (track_one o (walked_of [p]) r p).
Proof. cbn [do_item]. fold (walked_of [p]). cbn [each]. destruct (track_one o (walked_of [p]) r p) as [r1 [| |]]; auto. Qed.

(* committed content in terms of the object's inode *)
Lemma committed_inode r p c : INV r -> committed r p c ->
  exists e x sm d i n, find_path (recs r) p = Some (e, x) /\ r_meta x = Some sm /\ r_digest x = Some d /\
    oget (fs r) (cache_addr p d) = Some (EFile i) /\ iget (fs r) i = Some n /\ i_bytes n = c.
Proof.
  intros [F R] (e & x & d & Ef & Hm & Hd & Hr).
  apply (obj_read_spec _ _ _ F) in Hr. destruct Hr as (i & n & Ho & Hi & Hc).
  destruct (r_meta x) as [sm|] eqn:E; [|congruence]. exists e, x, sm, d, i, n. repeat split; auto.
Qed.

(* C01 core: delete, then recheck with any options *)
Theorem restore_after_delete r p c o : INV r -> committed r p c ->
  let r1 := run_items r [UDelete p; XRecheck o [p]] in
  ws_read (fs r1) p = Some c /\ committed r1 p c.
Proof.
  intros I C. destruct (committed_inode r p c I C) as (e & x & sm & d & i & n & Ef & Hm & Hd & Ho & Hi & Hc).
  cbv zeta. unfold run_items. cbn [fold_left].
  change (fst (do_item r (UDelete p))) with (set_fs r (user_delete (fs r) p)).
  set (r0 := set_fs r (user_delete (fs r) p)).
  assert (I0 : INV r0).
  { destruct I as [F R]. split; [apply FI_user_delete, F|now apply RI_set_fs]. }
  assert (W0 : wget (fs r0) p = None) by (unfold r0; rewrite set_fs_fs; unfold user_delete; rewrite wget_wdel; now rewrite beqb_refl).
  pose proof (proj1 (find_path_spec r p e x (proj2 I)) Ef) as [_ Hp].
  destruct (recheck_one_ok o r0 p e x sm d i n I0 Ef Hm Hd Ho Hi) as (K1 & [K2 K3] & K4).
  - eapply selected_missing; eauto. rewrite Hp. unfold ws_meta. now rewrite W0.
  - now left.
  - destruct (do_recheck_single o r0 p) as [E1 E2]. rewrite E1. split; [congruence|].
    destruct (recheck_one_spec o r0 p (proj1 I0) (proj2 I0)) as (S1 & S2 & S3 & (W1 & W2 & W3 & W4 & W5) & _).
    exists e, (with_method x (recheck_method o x)), d. split; [auto|split; [cbn; congruence|split; [auto|]]].
    apply obj_read_spec; auto. exists i, n. rewrite W2. split; [auto|split; [apply W3; auto|auto]].
Qed.

(* C01: a locally modified copy is replaced by recheck --force *)
Theorem restore_after_damage r p c junk m : INV r -> committed r p c ->
  let r1 := run_items r [UWrite p junk; XRecheck {| k_method := m; k_force := true |} [p]] in
  ws_read (fs r1) p = Some c /\ committed r1 p c.
Proof.
  intros I C. destruct (committed_inode r p c I C) as (e & x & sm & d & i & n & Ef & Hm & Hd & Ho & Hi & Hc).
  cbv zeta. unfold run_items. cbn [fold_left].
  change (fst (do_item r (UWrite p junk))) with (set_fs r (user_write (fs r) p junk)).
  set (o := {| k_method := m; k_force := true |}).
  set (r0 := set_fs r (user_write (fs r) p junk)).
  assert (I0 : INV r0).
  { destruct I as [F R]. split; [apply FI_user_write, F|now apply RI_set_fs]. }
  assert (Hi0 : iget (fs r0) i = Some n).
  { unfold r0. rewrite set_fs_fs, user_write_eq. unfold alloc. autorewrite with fsdb.
    destruct (N.eqb_spec (next_ino (fs r)) i) as [E|]; auto. apply (fi_bound (proj1 I)) in Hi. lia. }
  destruct (recheck_one_ok o r0 p e x sm d i n I0 Ef Hm Hd Ho Hi0) as (K1 & [K2 K3] & K4).
  - now apply selected_force.
  - right. unfold r0. rewrite set_fs_fs, user_write_eq. unfold ws_exists. rewrite wget_wput, beqb_refl. now rewrite resolve_file.
  - destruct (do_recheck_single o r0 p) as [E1 E2]. rewrite E1. split; [congruence|].
    destruct (recheck_one_spec o r0 p (proj1 I0) (proj2 I0)) as (S1 & S2 & S3 & (W1 & W2 & W3 & W4 & W5) & _).
    exists e, (with_method x (recheck_method o x)), d. split; [auto|split; [cbn; congruence|split; [auto|]]].
    apply obj_read_spec; auto. exists i, n. rewrite W2. split; [auto|split; [apply W3; auto|auto]].
Qed.

(* recheck never changes which version is recorded: digest, history, metadata, text-or-binary of EVERY
   path are what they were; only the recheck method may change *)
Theorem recheck_keeps_records r o ps q : INV r ->
  view_core (find_path (recs (fst (do_item r (XRecheck o ps)))) q) = view_core (find_path (recs r) q).
Proof.
  intros I. cbn [do_item].
  destruct (each_spec (recheck_one o) (fun _ _ => false) (fun r => INV r)
             (fun a b => forall q, view_core (find_path (recs b) q) = view_core (find_path (recs a) q)))
    with (ps := ps) (r := r) as [_ E]; auto.
  - intros a b c A B q0. now rewrite B.
  - intros r0 p0 I0 _. destruct I0 as [F0 R0].
    destruct (recheck_one_spec o r0 p0 F0 R0) as (S1 & S2 & S3 & S4 & S5 & S6 & S7). split; [split; auto|auto].
  - clear. generalize r. induction ps; intros r0; cbn; auto.
Qed.

(* ---- a commit stores the content and materialises the entry ----------------------------------------------- *)
Lemma carry_one_ok f p a m force :
  FI f -> relink f p a force = false -> fits_pre f p a -> wget f p <> None -> no_dangling f p ->
  snd (carry_one f p a m force) = Ok /\
  exists i n, oget (fst (carry_one f p a m force)) a = Some (EFile i) /\
              iget (fst (carry_one f p a m force)) i = Some n /\
              materialised (fst (carry_one f p a m force)) p a m (i_bytes n) /\
              (alias_meet f p a force = false -> forall c, ws_read f p = Some c -> i_bytes n = c).
Proof.
  intros F G Hfit Hw Hnd.
  pose proof (commit_part_spec f p a force F G Hfit) as S.
  rewrite carry_one_eq.
  destruct (commit_part_cases f p a force F G) as [Hoa Hk | g j nj Hwj Hj Hgj Hs P | g Hw' P]; [| |congruence].
  - (* kept *)
    destruct (oget f a) as [e|] eqn:Eo; [|congruence].
    destruct (fi_obj F _ _ Eo) as (i & n & -> & Hi & Hwr & Hf).
    destruct (rfc_ok (cleared f p) p a m i n) as [K1 K2];
      [apply FI_cleared, F|now autorewrite with fsdb|now autorewrite with fsdb|rewrite cleared_idem; now apply cleared_none|].
    destruct (rfc_spec (cleared f p) p a m (FI_cleared _ _ F)) as (R1 & R2 & R3 & R4 & R5 & R6).
    split; [auto|]. exists i, n. rewrite R3. autorewrite with fsdb.
    split; [auto|split; [apply R4; now autorewrite with fsdb|split; [auto|]]].
    intros Ha c Hc. unfold alias_meet in Ha.
    assert (Er : obj_read f a = Some (i_bytes n)) by (apply obj_read_spec; eauto).
    rewrite Er, Hc in Ha. apply negb_false_iff in Ha. destruct (beqb_spec c (i_bytes n)); congruence.
  - (* moved *)
    cbn [fst snd] in S. set (f1 := dput (oput (iput (wdel g p) j (ro nj)) a (EFile j)) (a_digest a) false) in *.
    assert (W1 : wget f1 p = None) by (unfold f1; autorewrite with fsdb;
                                        destruct (pre_state_facts _ _ _ _ F P) as (_ & Wg & _); now rewrite beqb_refl).
    assert (C1 : cleared f1 p = f1) by (unfold cleared, ws_exists; now rewrite W1).
    assert (O1 : oget f1 a = Some (EFile j)) by (unfold f1; autorewrite with fsdb; now rewrite caddr_eqb_refl).
    assert (I1 : iget f1 j = Some (ro nj)) by (unfold f1; autorewrite with fsdb; now rewrite N.eqb_refl).
    rewrite C1.
    destruct (rfc_ok f1 p a m j (ro nj) (cs_FI S) O1 I1) as [K1 K2]; [now rewrite C1|].
    destruct (rfc_spec f1 p a m (cs_FI S)) as (R1 & R2 & R3 & R4 & R5 & R6).
    split; [auto|]. exists j, (ro nj). rewrite R3.
    split; [auto|split; [now apply R4|split; [auto|]]].
    intros _ c Hc. rewrite (ws_read_file f p j nj Hwj Hj) in Hc. now injection Hc as <-.
Qed.

(* what track records for a target it commits *)
Lemma track_one_record o w r p a m : RI r -> track_one_call o w r p = Some (a, m) ->
  exists e x d, find_path (recs (fst (track_one o w r p))) p = Some (e, x) /\ r_path x = p /\ r_meta x <> None /\
                r_digest x = Some d /\ a = cache_addr p d /\ r_method x = m /\ m = track_method o r /\
                no_dangling (fs r) p.
Proof.
  intros R. unfold track_one, track_one_call. cbv zeta.
  change (match wget (fs r) p with Some (ELink _) => true | _ => false end) with (is_link_entry (fs r) p).
  fold (track_method o r). fold (track_tob o r).
  destruct (w && is_link_entry (fs r) p); [discriminate|].
  destruct (ws_meta (fs r) p) as [sm|] eqn:Em; [|discriminate].
  assert (Hnd : no_dangling (fs r) p).
  { right. unfold ws_meta in Em. unfold ws_exists. destruct (wget (fs r) p); [|discriminate].
    destruct (resolve (fs r) link_fuel e); [auto|discriminate]. }
  destruct (find_path (recs r) p) as [[e x]|] eqn:Ef.
  - pose proof (proj1 (find_path_spec r p e x R) Ef) as [Hg Hp].
    destruct (meta_eqb (r_meta x) (Some sm)); [discriminate|].
    assert (Put : forall x', r_path x' = p -> find_path (recs (rput r e x')) p = Some (e, x')).
    { intros x' Hx'. rewrite <- Hp. apply find_path_rput_same; auto. congruence. }
    destruct (digest_diff r x (cfg_algo r) (track_tob o r)) as [| |d| |d]; try discriminate;
      (destruct (t_no_commit o); [discriminate|]); intros [= <- <-];
      destruct (carry_one (fs r) p (cache_addr p d) (track_method o r) (t_force o)) as [f2 oc]; cbn [fst recs set_fs];
      rewrite Put by reflexivity; eexists _, _, d; cbn;
      (split; [reflexivity|split; [reflexivity|split; [discriminate|split; [reflexivity|auto]]]]).
  - destruct (ws_read (fs r) p) as [c|] eqn:Er; [|discriminate].
    destruct (t_no_commit o); [discriminate|]. intros [= <- <-].
    set (x0 := {| r_path := p; r_meta := Some sm; r_digest := Some (digest_of (cfg_algo r) (track_tob o r) c);
                  r_hist := [digest_of (cfg_algo r) (track_tob o r) c]; r_method := track_method o r; r_tob := track_tob o r |}).
    change {| fs := fs r; recs := put N.eqb N.ltb (recs r) (next_ent r) x0; next_ent := N.succ (next_ent r);
              cfg_algo := cfg_algo r; cfg_method := cfg_method r; cfg_tob := cfg_tob r |} with (radd r x0).
    destruct (carry_one (fs r) p _ (track_method o r) (t_force o)) as [f2 oc]. cbn [fst recs set_fs].
    exists (next_ent r), x0, (digest_of (cfg_algo r) (track_tob o r) c).
    split; [apply (find_path_radd_same r x0 R Ef)|cbn].
    split; [reflexivity|split; [discriminate|split; [reflexivity|auto]]].
Qed.

(* C01/C17: a track that commits its target: the record names the object, the object and the
   workspace entry read the same bytes c', the entry is materialised with the requested (else
   configured) method; c' is what was in the workspace unless the content met an alias *)
Theorem track_commits o r p a m : INV r -> track_one_call o (walked_of [p]) r p = Some (a, m) ->
  unclean (fs r) p a (t_force o) = false ->
  let r' := fst (do_item r (XTrack o [p])) in
  snd (do_item r (XTrack o [p])) = Ok /\ m = track_method o r /\
  exists c', committed r' p c' /\ materialised (fs r') p a m c' /\
             (alias_meet (fs r) p a (t_force o) = false -> ws_read (fs r) p = Some c').
Proof.
  intros [F R] Hc G. cbv zeta. destruct (do_track_single o r p) as [E1 E2]. rewrite E1, E2.
  set (w := walked_of [p]) in *.
  destruct (track_one_spec o w r p R) as (S1 & S2 & S3 & S4). rewrite Hc in S4.
  destruct S4 as (Efs & Eoc & Hfit & Hw).
  destruct (track_one_record o w r p a m R Hc) as (e & x & d & Ef & Hp & Hm & Hd & -> & Hmm & Hmo & Hnd).
  unfold unclean in G. apply orb_false_iff in G. destruct G as [G1 G2].
  destruct (carry_one_ok (fs r) p (cache_addr p d) m (t_force o) F G1 Hfit Hw Hnd) as (K1 & i & n & K2 & K3 & K4 & K5).
  rewrite Eoc, Efs. split; [auto|split; [auto|]]. exists (i_bytes n). split; [|split; [auto|]].
  - exists e, x, d. split; [auto|split; [auto|split; [auto|]]]. rewrite Efs.
    pose proof (carry_one_spec (fs r) p (cache_addr p d) m (t_force o) F G1 Hfit) as S.
    apply obj_read_spec; [apply (cs_FI S)|eauto].
  - intros Ha. destruct (ws_read (fs r) p) as [c|] eqn:Er.
    + now rewrite (K5 Ha c eq_refl).
    + exfalso. destruct (wget (fs r) p) as [en|] eqn:Ew; [|congruence].
      destruct Hnd as [Hn|Hex]; [congruence|]. unfold ws_exists in Hex. rewrite Ew in Hex.
      unfold ws_read in Er. rewrite Ew in Er. unfold read_entry in Er.
      destruct (resolve (fs r) link_fuel en) as [i0|] eqn:Eres; [|discriminate].
      (* the resolved inode exists: a file entry has one, a link resolves through an object *)
      destruct en as [i1|b].
      * rewrite resolve_file in Eres. injection Eres as <-.
        destruct (iget (fs r) i1) eqn:Ei; [discriminate|]. eapply (fi_ws F); eauto.
      * unfold link_fuel in Eres. rewrite resolve_link in Eres.
        destruct (oget (fs r) b) as [eb|] eqn:Eb; [|discriminate].
        destruct (fi_obj F _ _ Eb) as (ib & nb & -> & Hib & _). rewrite resolve_file in Eres. injection Eres as <-.
        rewrite Hib in Er. discriminate.
Qed.

(* ---- committed content stays restorable --------------------------------------------------------------------- *)
Definition mem_path (p : path) (ps : list path) : bool := existsb (beqb p) ps.
(* items that cannot change what is committed for p: user actions, any recheck, and track / carry-in
   without --force that do not name p *)
Definition harmless (p : path) (it : item) : bool :=
  match it with
  | XTrack o ps => negb (t_force o) && negb (mem_path p ps)
  | XCarryIn o ps => negb (c_force o) && negb (mem_path p ps)
  | _ => true
  end.

Lemma mem_path_false p ps : mem_path p ps = false -> ~ In p ps.
Proof.
  unfold mem_path. intros H Hin. assert (existsb (beqb p) ps = true); [|congruence].
  apply existsb_exists. exists p. split; auto. apply beqb_refl.
Qed.

Lemma harmless_unforced p it : harmless p it = true -> unforced it = true.
Proof. destruct it; cbn; auto; intros H; apply andb_true_iff in H; tauto. Qed.

Lemma each_track_frame o w ps : forall r, INV r -> mon_each (track_one o w) (mon_track_one unclean o w) r ps = false ->
  forall q, ~ In q ps -> find_path (recs (fst (each (track_one o w) r ps))) q = find_path (recs r) q.
Proof.
  induction ps as [|p t IH]; intros r I G q Hq; [reflexivity|].
  cbn [mon_each] in G. apply orb_false_iff in G. destruct G as [G1 G2].
  destruct (track_one_step o w r p I G1) as (T1 & T2 & T3 & T4 & T5 & T6 & T7 & T8 & T9).
  destruct (each_cons (track_one o w) r p t) as [E _]. rewrite E.
  rewrite IH; auto; [|intros Hin; apply Hq; now right].
  apply T9. intros ->. apply Hq. now left.
Qed.

Lemma paths_of_plans o r ps q : In q (paths_of (plans o r ps)) -> In q ps.
Proof.
  induction ps as [|p t IH]; cbn; auto.
  destruct (carry_plan o r p) as [c|] eqn:E; cbn; [|auto].
  intros [H|H]; auto. left. destruct (carry_plan_rec o r p c E) as [_ Hp]. congruence.
Qed.

Lemma view_core_some v v' e x : view_core v' = view_core v -> v = Some (e, x) ->
  exists x', v' = Some (e, x') /\ rec_core x' = rec_core x.
Proof.
  intros H ->. destruct v' as [[e' x']|]; cbn in H; [|discriminate].
  injection H as -> H. exists x'. split; [reflexivity|]. unfold rec_core. congruence.
Qed.

Lemma committed_step r it p c : INV r -> mon_item unclean r it = false -> harmless p it = true ->
  committed r p c -> committed (fst (do_item r it)) p c.
Proof.
  intros I G Hh (e & x & d & Ef & Hm & Hd & Hr).
  destruct (item_spec r it I G) as ([F' R'] & _ & M & _ & _).
  destruct (M (harmless_unforced p it Hh)) as [M1 M2].
  pose proof I as [F R].
  assert (Hr' : obj_read (fs (fst (do_item r it))) (cache_addr p d) = Some c).
  { apply (obj_read_spec _ _ _ F) in Hr. destruct Hr as (i & n & Ho & Hi & <-).
    destruct (M2 _ i n Ho Hi) as (i' & n' & K1 & K2 & K3). apply obj_read_spec; eauto. }
  assert (V : view_core (find_path (recs (fst (do_item r it))) p) = view_core (find_path (recs r) p)).
  { destruct it as [q b|q b|q|q|o ps|o ps|o ps]; try reflexivity.
    - cbn [harmless] in Hh. apply andb_true_iff in Hh. destruct Hh as [_ Hh]. apply negb_true_iff in Hh.
      cbn [do_item mon_item] in *. f_equal. apply each_track_frame; auto. now apply mem_path_false.
    - cbn [harmless] in Hh. apply andb_true_iff in Hh. destruct Hh as [_ Hh]. apply negb_true_iff in Hh.
      apply mem_path_false in Hh.
      cbn [do_item mon_item] in *. unfold carry_in_cmd.
      destruct (existsb _ (plans o r ps)); [reflexivity|].
      destruct (carry_phase (fs r) (plans o r ps) (c_force o)) as [f1 oc].
      destruct oc; try reflexivity. cbn [fst].
      destruct (record_phase_spec (plans o r ps) (set_fs r f1) (RI_set_fs r f1 R)) as (B1 & B2 & B3 & B4).
      { intros c0 Hin. pose proof (plans_rec o r ps c0 Hin) as Hf.
        apply (find_path_spec r _ _ _ R) in Hf. destruct Hf as [Hg Hp]. exists (cp_rec c0). auto. }
      f_equal. rewrite B4; [reflexivity|]. intros Hin. apply Hh. eapply paths_of_plans; eauto.
    - apply recheck_keeps_records; auto. }
  destruct (view_core_some _ _ e x V Ef) as (x' & Ef' & Hc).
  unfold rec_core in Hc. injection Hc as H1 H2 H3 H4 H5.
  exists e, x', d. split; [auto|split; [congruence|split; [congruence|auto]]].
Qed.

Theorem committed_run h : forall r p c, INV r -> mon_run unclean r h = false -> forallb (harmless p) h = true ->
  committed r p c -> committed (run_items r h) p c.
Proof.
  induction h as [|it t IH]; intros r p c I G H C; [exact C|].
  cbn [mon_run] in G. apply orb_false_iff in G. destruct G as [G1 G2].
  cbn [forallb] in H. apply andb_true_iff in H. destruct H as [H1 H2].
  rewrite run_items_cons. apply IH; auto.
  - apply (item_spec r it I G1).
  - apply committed_step; auto.
Qed.

(* C01 over histories: what is committed for p in a reachable repository is restored byte for byte by
   delete + recheck (any method, with or without --force) after ANY later history of user actions,
   rechecks, and unforced track / carry-in commands on other paths *)
Theorem stays_restorable r h p c o : reachable r -> committed r p c ->
  mon_run unclean r h = false -> forallb (harmless p) h = true ->
  ws_read (fs (run_items (run_items r h) [UDelete p; XRecheck o [p]])) p = Some c.
Proof.
  intros Hr C G H. pose proof (reachable_INV r Hr) as I.
  apply restore_after_delete.
  - apply inv_run; auto.
  - apply committed_run; auto.
Qed.

(* ---- C17 ------------------------------------------------------------------------------------------------------ *)
(* recheck materialises the entry with the requested, else the stored method *)
Theorem recheck_materialises r p c o : INV r -> committed r p c ->
  exists e x d, find_path (recs r) p = Some (e, x) /\ r_digest x = Some d /\
  let r1 := run_items r [UDelete p; XRecheck o [p]] in
  materialised (fs r1) p (cache_addr p d) (recheck_method o x) c /\
  find_path (recs r1) p = Some (e, with_method x (recheck_method o x)).
Proof.
  intros I C. destruct (committed_inode r p c I C) as (e & x & sm & d & i & n & Ef & Hm & Hd & Ho & Hi & Hc).
  exists e, x, d. split; [auto|split; [auto|]].
  cbv zeta. unfold run_items. cbn [fold_left].
  change (fst (do_item r (UDelete p))) with (set_fs r (user_delete (fs r) p)).
  set (r0 := set_fs r (user_delete (fs r) p)).
  assert (I0 : INV r0).
  { destruct I as [F R]. split; [apply FI_user_delete, F|now apply RI_set_fs]. }
  assert (W0 : wget (fs r0) p = None) by (unfold r0; rewrite set_fs_fs; unfold user_delete; rewrite wget_wdel; now rewrite beqb_refl).
  pose proof (proj1 (find_path_spec r p e x (proj2 I)) Ef) as [_ Hp].
  destruct (recheck_one_ok o r0 p e x sm d i n I0 Ef Hm Hd Ho Hi) as (K1 & K2 & K4).
  - eapply selected_missing; eauto. rewrite Hp. unfold ws_meta. now rewrite W0.
  - now left.
  - destruct (do_recheck_single o r0 p) as [E1 E2]. rewrite E1. subst c. auto.
Qed.

(* rechecking an unmodified, present entry with ANOTHER method replaces the entry accordingly *)
Theorem method_change_replaces_entry r p c m e x d : INV r -> committed r p c ->
  find_path (recs r) p = Some (e, x) -> r_digest x = Some d -> m <> r_method x ->
  ws_exists (fs r) p = true -> (forall d', digest_diff r x (cfg_algo r) (r_tob x) <> DDifferent d') ->
  let o := {| k_method := Some m; k_force := false |} in
  materialised (fs (fst (do_item r (XRecheck o [p])))) p (cache_addr p d) m c /\
  find_path (recs (fst (do_item r (XRecheck o [p])))) p = Some (e, with_method x m).
Proof.
  intros I C Ef Hd Hm Hex Hdd. cbv zeta.
  destruct (committed_inode r p c I C) as (e' & x' & sm & d' & i & n & Ef' & Hmm & Hd' & Ho & Hi & Hc).
  rewrite Ef in Ef'. injection Ef' as <- <-. rewrite Hd in Hd'. injection Hd' as <-.
  set (o := {| k_method := Some m; k_force := false |}).
  destruct (recheck_one_ok o r p e x sm d i n I Ef Hmm Hd Ho Hi) as (K1 & K2 & K4).
  - apply selected_method; auto.
  - now right.
  - destruct (do_recheck_single o r p) as [E1 E2]. rewrite E1. subst c. auto.
Qed.

(* the method recorded by a recheck is the one a later plain recheck uses *)
Theorem stored_method_used_next_time r p c m : INV r -> committed r p c ->
  let r1 := run_items r [UDelete p; XRecheck {| k_method := Some m; k_force := false |} [p]] in
  let r2 := run_items r1 [UDelete p; XRecheck {| k_method := None; k_force := false |} [p]] in
  exists d, materialised (fs r2) p (cache_addr p d) m c.
Proof.
  intros I C. cbv zeta.
  set (o1 := {| k_method := Some m; k_force := false |}). set (o2 := {| k_method := None; k_force := false |}).
  destruct (recheck_materialises r p c o1 I C) as (e & x & d & Ef & Hd & K1 & K2). cbv zeta in K1, K2.
  destruct (restore_after_delete r p c o1 I C) as [_ C1]. cbv zeta in C1.
  set (r1 := run_items r [UDelete p; XRecheck o1 [p]]) in *.
  assert (I1 : INV r1).
  { unfold r1. apply inv_run; auto. }
  destruct (recheck_materialises r1 p c o2 I1 C1) as (e2 & x2 & d2 & Ef2 & Hd2 & L1 & L2). cbv zeta in L1.
  rewrite K2 in Ef2. injection Ef2 as <- <-. cbn in Hd2. rewrite Hd in Hd2. injection Hd2 as <-.
  exists d. exact L1.
Qed.

(* editing a copy never changes a cache object *)
Theorem copy_independent f p a m c c2 b : FI f -> (m = Copy \/ m = Reflink) -> materialised f p a m c ->
  obj_read (user_write_through f p c2) b = obj_read f b /\ ws_read (user_write_through f p c2) p = Some c2.
Proof.
  intros F Hm [Hr M].
  assert (M' : exists i n, wget f p = Some (EFile i) /\ iget f i = Some n /\ i_w n = true /\ (forall b, oget f b <> Some (EFile i)))
    by (destruct Hm as [-> | ->]; exact M).
  destruct M' as (i & n & Hw & Hi & Hwr & Hno).
  unfold user_write_through. rewrite Hw, resolve_file, Hi, Hwr.
  split.
  - unfold obj_read. autorewrite with fsdb. destruct (oget f b) as [e|] eqn:Eo; auto.
    destruct (fi_obj F _ _ Eo) as (j & nj & -> & Hj & _). rewrite !read_file. autorewrite with fsdb.
    destruct (N.eqb_spec i j) as [E|]; auto. subst j. exfalso. eapply Hno; eauto.
  - unfold ws_read. autorewrite with fsdb. rewrite Hw, read_file. autorewrite with fsdb. now rewrite N.eqb_refl.
Qed.

(* contrast: a hard link IS the cache object: the same inode, read-only; a write through the entry
   is refused, and if the permission were lifted it would change the object *)
Theorem hardlink_shares_object f p a c : FI f -> materialised f p a Hardlink c ->
  (exists i, wget f p = Some (EFile i) /\ oget f a = Some (EFile i)) /\
  forall c2, user_write_through f p c2 = f.
Proof.
  intros F [Hr (i & n & Hw & Ho & Hi & Hwr)]. split; [eauto|].
  intros c2. unfold user_write_through. now rewrite Hw, resolve_file, Hi, Hwr.
Qed.

(* a symlink reads the object it points to *)
Theorem symlink_reads_object f p a c : FI f -> materialised f p a Symlink c -> wget f p = Some (ELink a) /\ obj_read f a = Some c.
Proof.
  intros F [Hr Hw]. split; auto. unfold ws_read in Hr. rewrite Hw in Hr. unfold read_entry, link_fuel in Hr.
  rewrite resolve_link in Hr. unfold obj_read. destruct (oget f a) as [e|] eqn:Eo; [|discriminate].
  destruct (fi_obj F _ _ Eo) as (j & nj & -> & Hj & _). rewrite resolve_file in Hr. now rewrite read_file.
Qed.

(* C01 end to end for one path: commit by track, then delete and recheck *)
Lemma mon_item_track_single bad o r p :
  mon_item bad r (XTrack o [p]) =
  match track_one_call o (walked_of [p]) r p with Some (a, _) => bad (fs r) p a (t_force o) | None => false end.
Proof. cbn [mon_item mon_each]. unfold mon_track_one. destruct (track_one_call o (walked_of [p]) r p) as [[a m]|]; auto using orb_false_r. Qed.

Theorem track_then_restore o r p a m c ko : INV r -> track_one_call o (walked_of [p]) r p = Some (a, m) ->
  unclean (fs r) p a (t_force o) = false -> alias_meet (fs r) p a (t_force o) = false ->
  ws_read (fs r) p = Some c ->
  ws_read (fs (run_items r [XTrack o [p]; UDelete p; XRecheck ko [p]])) p = Some c.
Proof.
  intros I Hc G Ha Hr. rewrite run_items_cons.
  destruct (track_commits o r p a m I Hc G) as (K1 & K2 & c' & C & M & E). cbv zeta in C, M.
  specialize (E Ha). rewrite Hr in E. injection E as <-.
  apply restore_after_delete; auto.
  apply (item_spec r (XTrack o [p]) I). rewrite mon_item_track_single, Hc. exact G.
Qed.
