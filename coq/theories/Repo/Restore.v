(* Proofs about M-REPO (core), part 3: what a commit stores and what recheck restores (C01), and
   how each recheck method materialises the workspace entry (C17). *)
From Coq Require Import List Bool NArith Lia.
From XV Require Import Base.Amap Base.Bytes Repo.Model Repo.Proofs Repo.Inv.
Import ListNotations.

(* the record of p names a version whose object is in the cache and reads c *)
Definition committed (r : repo) (p : path) (c : bytes) : Prop :=
  exists e x d, find_path (recs r) p = Some (e, x) /\ r_meta x <> None /\ r_digest x = Some d /\
                obj_read (fs r) (cache_addr p d) = Some c.

(* what the workspace entry at p is after a restore with method m from address a, reading c *)
Definition materialised (f : fsys) (p : path) (a : caddr) (m : method) (c : bytes) : Prop :=
  ws_read f p = Some c /\
  match m with
  | Copy | Reflink => exists i n, wget f p = Some (EFile i) /\ iget f i = Some n /\ i_w n = true /\
                                 (forall b, oget f b <> Some (EFile i))
  | Hardlink => exists i n, wget f p = Some (EFile i) /\ oget f a = Some (EFile i) /\ iget f i = Some n /\ i_w n = false
  | Symlink => wget f p = Some (ELink a)
  end.

(* not a dangling symbolic link *)
Definition no_dangling (f : fsys) (p : path) : Prop := wget f p = None \/ ws_exists f p = true.

Lemma cleared_none f p : no_dangling f p -> wget (cleared f p) p = None.
Proof.
  unfold cleared. intros [H|H].
  - destruct (ws_exists f p); auto. rewrite wget_wdel. now rewrite beqb_refl.
  - rewrite H. rewrite wget_wdel. now rewrite beqb_refl.
Qed.

Lemma cleared_idem f p : cleared (cleared f p) p = cleared f p.
Proof.
  unfold cleared at 2 3. destruct (ws_exists f p) eqn:E.
  - unfold cleared. unfold ws_exists. rewrite wget_wdel, beqb_refl. reflexivity.
  - unfold cleared. now rewrite E.
Qed.

Lemma rfc_ok f p a m i n : FI f -> oget f a = Some (EFile i) -> iget f i = Some n -> wget (cleared f p) p = None ->
  snd (recheck_from_cache f p a m) = Ok /\ materialised (fst (recheck_from_cache f p a m)) p a m (i_bytes n).
Proof.
  intros F Ho Hi Hw. rewrite rfc_unfold. cbv zeta.
  pose proof (FI_cleared f p F) as F0.
  assert (Hr : obj_read (cleared f p) a = Some (i_bytes n)).
  { rewrite obj_read_cleared. apply obj_read_spec; eauto. }
  assert (Copy_case :
    let g := wput (alloc (tick (cleared f p)) {| i_bytes := i_bytes n; i_w := true; i_mt := clock (tick (cleared f p)) |}) p
                  (EFile (next_ino (cleared f p))) in
    ws_read g p = Some (i_bytes n) /\
    exists i0 n0, wget g p = Some (EFile i0) /\ iget g i0 = Some n0 /\ i_w n0 = true /\ (forall b, oget g b <> Some (EFile i0))).
  { intros g. unfold g.
    assert (Eg : wget g p = Some (EFile (next_ino (cleared f p)))) by (unfold g; rewrite wget_wput; now rewrite beqb_refl).
    assert (Ei : iget g (next_ino (cleared f p)) = Some {| i_bytes := i_bytes n; i_w := true; i_mt := clock (tick (cleared f p)) |}).
    { unfold g. rewrite iget_wput. change (next_ino (cleared f p)) with (next_ino (tick (cleared f p))). apply iget_alloc_new. }
    fold g. split.
    - unfold ws_read. rewrite Eg, read_file, Ei. reflexivity.
    - eexists _, _. split; [exact Eg|split; [exact Ei|split; [reflexivity|]]].
      intros b Hb. unfold g, alloc in Hb. autorewrite with fsdb in Hb.
      destruct (FI_obj_file _ _ _ F Hb) as (nb & Hnb & _). apply (fi_bound F) in Hnb. lia. }
  destruct m.
  - rewrite Hr, Hw. cbn [fst snd]. split; [reflexivity|]. destruct Copy_case as [C1 C2]. split; auto.
  - rewrite Hw. autorewrite with fsdb. rewrite Ho. cbn [fst snd]. split; [reflexivity|].
    destruct (FI_obj_file _ _ _ F Ho) as (n' & Hn' & Hw' & _). rewrite Hi in Hn'. injection Hn' as <-.
    assert (Eg : wget (wput (cleared f p) p (EFile i)) p = Some (EFile i)) by (rewrite wget_wput; now rewrite beqb_refl).
    split.
    + unfold ws_read. rewrite Eg, read_file. autorewrite with fsdb. now rewrite Hi.
    + exists i, n. autorewrite with fsdb. rewrite beqb_refl. auto.
  - rewrite Hw. cbn [fst snd]. split; [reflexivity|].
    assert (Eg : wget (wput (cleared f p) p (ELink a)) p = Some (ELink a)) by (rewrite wget_wput; now rewrite beqb_refl).
    split; auto. unfold ws_read. rewrite Eg. unfold read_entry.
    rewrite (resolve_link_file _ a i) by (autorewrite with fsdb; auto).
    autorewrite with fsdb. now rewrite Hi.
  - rewrite Hr, Hw. cbn [fst snd]. split; [reflexivity|]. destruct Copy_case as [C1 C2]. split; auto.
Qed.

(* ---- recheck ------------------------------------------------------------------------------------------------ *)
Definition recheck_selected (o : recheck_opts) (r : repo) (x : frec) : bool :=
  let dd := digest_diff r x (cfg_algo r) (r_tob x) in
  k_force o
  || (negb (method_eqb (recheck_method o x) (r_method x)) && negb (match dd with DDifferent _ => true | _ => false end))
  || (match dd with DActualMissing => true | _ => false end).

Lemma selected_force o r x : k_force o = true -> recheck_selected o r x = true.
Proof. unfold recheck_selected. intros ->. reflexivity. Qed.

Lemma selected_missing o r x sm : r_meta x = Some sm -> ws_meta (fs r) (r_path x) = None -> recheck_selected o r x = true.
Proof.
  intros Hm Hw. unfold recheck_selected, digest_diff. rewrite Hm, Hw. cbn. Show.
Qed.

(* the method changes and the workspace file is not modified *)
Lemma selected_method o r x : recheck_method o x <> r_method x ->
  (forall d, digest_diff r x (cfg_algo r) (r_tob x) <> DDifferent d) -> recheck_selected o r x = true.
Proof.
  intros Hm Hd. unfold recheck_selected.
  destruct (method_eqb_spec (recheck_method o x) (r_method x)); [congruence|]. cbn.
  destruct (digest_diff r x (cfg_algo r) (r_tob x)); try (now rewrite orb_true_r); try (now destruct (k_force o)).
  exfalso. eapply Hd; eauto.
Qed.

Lemma recheck_one_ok o r p e x sm d i n :
  INV r -> find_path (recs r) p = Some (e, x) -> r_meta x = Some sm -> r_digest x = Some d ->
  oget (fs r) (cache_addr p d) = Some (EFile i) -> iget (fs r) i = Some n ->
  recheck_selected o r x = true -> no_dangling (fs r) p ->
  snd (recheck_one o r p) = Ok /\
  materialised (fs (fst (recheck_one o r p))) p (cache_addr p d) (recheck_method o x) (i_bytes n) /\
  find_path (recs (fst (recheck_one o r p))) p = Some (e, with_method x (recheck_method o x)).
Proof.
  intros [F R] Ef Hm Hd Ho Hi Hs Hnd. unfold recheck_one. rewrite Ef, Hm. cbv zeta.
  fold (recheck_method o x). unfold recheck_selected in Hs. cbv zeta in Hs. rewrite Hs. cbn [negb].
  rewrite Hd.
  pose proof (proj1 (find_path_spec r p e x R) Ef) as [Hg Hp].
  assert (Ex : obj_exists (fs r) (cache_addr p d) = true) by (apply obj_exists_spec; auto; congruence).
  rewrite Ex.
  change (if ws_exists (fs r) p then wdel (fs r) p else fs r) with (cleared (fs r) p).
  destruct (rfc_ok (cleared (fs r) p) p (cache_addr p d) (recheck_method o x) i n) as [K1 K2];
    [apply FI_cleared, F|now autorewrite with fsdb|now autorewrite with fsdb|rewrite cleared_idem; now apply cleared_none|].
  destruct (recheck_from_cache (cleared (fs r) p) p (cache_addr p d) (recheck_method o x)) as [f2 oc].
  cbn [fst snd] in *. split; [auto|split; [auto|]].
  cbn [recs set_fs]. rewrite <- Hp at 2.
  assert (Ew : {| r_path := p; r_meta := Some sm; r_digest := Some d; r_hist := r_hist x;
                  r_method := recheck_method o x; r_tob := r_tob x |} = with_method x (recheck_method o x)).
  { unfold with_method. now rewrite Hp, Hm, Hd. }
  rewrite Ew. apply find_path_rput_same; auto.
Qed.

Lemma do_recheck_single o r p :
  fst (do_item r (XRecheck o [p])) = fst (recheck_one o r p) /\ snd (do_item r (XRecheck o [p])) = snd (recheck_one o r p).
Proof. cbn. destruct (recheck_one o r p) as [r1 [| |]]; auto. Qed.

Lemma do_track_single o r p :
  fst (do_item r (XTrack o [p])) = fst (track_one o (walked_of [p]) r p) /\
  snd (do_item r (XTrack o [p])) = snd (track_one o (walked_of [p]) r p).
Proof. cbn [do_item]. fold (walked_of [p]). cbn [each]. destruct (track_one o (walked_of [p]) r p) as [r1 [| |]]; auto. Qed.

(* committed content in terms of the object's inode *)
Lemma committed_inode r p c : INV r -> committed r p c ->
  exists e x sm d i n, find_path (recs r) p = Some (e, x) /\ r_meta x = Some sm /\ r_digest x = Some d /\
    oget (fs r) (cache_addr p d) = Some (EFile i) /\ iget (fs r) i = Some n /\ i_bytes n = c.
Proof.
  intros [F R] (e & x & d & Ef & Hm & Hd & Hr).
  apply (obj_read_spec _ _ _ F) in Hr. destruct Hr as (i & n & Ho & Hi & Hc).
  destruct (r_meta x) as [sm|] eqn:E; [|congruence]. exists e, x, sm, d, i, n. auto.
Qed.

(* C01 core: delete, then recheck with any options *)
Theorem restore_after_delete r p c o : INV r -> committed r p c ->
  let r1 := run_items r [UDelete p; XRecheck o [p]] in
  ws_read (fs r1) p = Some c /\ committed r1 p c.
Proof.
  intros I C. destruct (committed_inode r p c I C) as (e & x & sm & d & i & n & Ef & Hm & Hd & Ho & Hi & Hc).
  cbv zeta. unfold run_items. cbn [fold_left]. cbn [do_item fst].
  set (r0 := set_fs r (user_delete (fs r) p)).
  assert (I0 : INV r0).
  { destruct I as [F R]. split; [apply FI_user_delete, F|now apply RI_set_fs]. }
  assert (W0 : wget (fs r0) p = None) by (cbn; unfold user_delete; rewrite wget_wdel; now rewrite beqb_refl).
  pose proof (proj1 (find_path_spec r p e x (proj2 I)) Ef) as [_ Hp].
  destruct (recheck_one_ok o r0 p e x sm d i n I0 Ef Hm Hd Ho Hi) as (K1 & [K2 K3] & K4).
  - eapply selected_missing; eauto. rewrite Hp. unfold ws_meta. now rewrite W0.
  - now left.
  - destruct (do_recheck_single o r0 p) as [E1 E2]. rewrite E1. split; [congruence|].
    destruct (recheck_one_spec o r0 p (proj1 I0) (proj2 I0)) as (S1 & S2 & S3 & (W1 & W2 & W3 & W4 & W5) & _).
    exists e, (with_method x (recheck_method o x)), d. split; [auto|split; [cbn; congruence|split; [auto|]]].
    apply obj_read_spec; auto. exists i, n. rewrite W2. split; [auto|split; [apply W3; auto|auto]].
Qed.

(* C01: a locally modified copy is replaced by recheck --force *)
Theorem restore_after_damage r p c junk m : INV r -> committed r p c ->
  let r1 := run_items r [UWrite p junk; XRecheck {| k_method := m; k_force := true |} [p]] in
  ws_read (fs r1) p = Some c /\ committed r1 p c.
Proof.
  intros I C. destruct (committed_inode r p c I C) as (e & x & sm & d & i & n & Ef & Hm & Hd & Ho & Hi & Hc).
  cbv zeta. unfold run_items. cbn [fold_left]. cbn [do_item fst].
  set (o := {| k_method := m; k_force := true |}).
  set (r0 := set_fs r (user_write (fs r) p junk)).
  assert (I0 : INV r0).
  { destruct I as [F R]. split; [apply FI_user_write, F|now apply RI_set_fs]. }
  assert (Hi0 : iget (fs r0) i = Some n).
  { cbn. rewrite user_write_eq. unfold alloc. autorewrite with fsdb.
    destruct (N.eqb_spec (next_ino (fs r)) i) as [E|]; auto. apply (fi_bound (proj1 I)) in Hi. lia. }
  destruct (recheck_one_ok o r0 p e x sm d i n I0 Ef Hm Hd Ho Hi0) as (K1 & [K2 K3] & K4).
  - now apply selected_force.
  - right. cbn. rewrite user_write_eq. unfold ws_exists. rewrite wget_wput, beqb_refl. now rewrite resolve_file.
  - destruct (do_recheck_single o r0 p) as [E1 E2]. rewrite E1. split; [congruence|].
    destruct (recheck_one_spec o r0 p (proj1 I0) (proj2 I0)) as (S1 & S2 & S3 & (W1 & W2 & W3 & W4 & W5) & _).
    exists e, (with_method x (recheck_method o x)), d. split; [auto|split; [cbn; congruence|split; [auto|]]].
    apply obj_read_spec; auto. exists i, n. rewrite W2. split; [auto|split; [apply W3; auto|auto]].
Qed.

(* recheck never changes which version is recorded: digest, history, metadata, text-or-binary of EVERY
   path are what they were; only the recheck method may change *)
Theorem recheck_keeps_records r o ps q : INV r ->
  view_core (find_path (recs (fst (do_item r (XRecheck o ps)))) q) = view_core (find_path (recs r) q).
Proof.
  intros I. cbn [do_item].
  destruct (each_spec (recheck_one o) (fun _ _ => false) (fun r => INV r)
             (fun a b => forall q, view_core (find_path (recs b) q) = view_core (find_path (recs a) q)))
    with (ps := ps) (r := r) as [_ E]; auto.
  - intros a b c A B q0. now rewrite B.
  - intros r0 p0 I0 _. destruct I0 as [F0 R0].
    destruct (recheck_one_spec o r0 p0 F0 R0) as (S1 & S2 & S3 & S4 & S5 & S6 & S7). split; [split; auto|auto].
  - clear. generalize r. induction ps; intros r0; cbn; auto.
Qed.
