(* Proofs about M-REPO (core), part 2: the invariants of every reachable repository.
   FI   (file system): inode numbers are below the allocation counter; every regular workspace entry
        has an inode; every cache entry is a regular file with a READ-ONLY inode whose bytes FIT the
        address (I_cas); two addresses never share an inode.
   RI   (records): entity keys are distinct and below the counter; no two records have the same path.
   They are proved for run_items from init_repo over ANY item list outside one boolean class
   ([relink]: a commit renames a workspace entry that is itself a link into the cache -- a genuine
   defect of the code, witnessed in Props/C02.v). *)
From Coq Require Import List Bool NArith Lia.
From XV Require Import Base.Amap Base.Bytes Repo.Model Repo.Proofs.
Import ListNotations.

(* ---- the file-system invariant ------------------------------------------------------------------ *)
Record FI (f : fsys) : Prop := {
  fi_bound : forall i n, iget f i = Some n -> (i < next_ino f)%N;
  fi_ws : forall p i, wget f p = Some (EFile i) -> iget f i <> None;
  fi_obj : forall a e, oget f a = Some e ->
           exists i n, e = EFile i /\ iget f i = Some n /\ i_w n = false /\ fits (a_digest a) (i_bytes n);
  fi_inj : forall a1 a2 i, oget f a1 = Some (EFile i) -> oget f a2 = Some (EFile i) -> a1 = a2
}.

Arguments fi_bound {f}. Arguments fi_ws {f}. Arguments fi_obj {f}. Arguments fi_inj {f}.

Definition obj_ino (f : fsys) (i : N) : Prop := exists a, oget f a = Some (EFile i).

Lemma FI_obj_file f a i : FI f -> oget f a = Some (EFile i) ->
  exists n, iget f i = Some n /\ i_w n = false /\ fits (a_digest a) (i_bytes n).
Proof.
  intros F H. destruct (fi_obj F _ _ H) as (i' & n & E & Hi & Hw & Hf). injection E as <-. eauto.
Qed.

Lemma obj_read_spec f a c : FI f ->
  (obj_read f a = Some c <-> exists i n, oget f a = Some (EFile i) /\ iget f i = Some n /\ i_bytes n = c).
Proof.
  intros F; unfold obj_read; split.
  - destruct (oget f a) as [e|] eqn:E; [|discriminate].
    destruct (fi_obj F _ _ E) as (i & n & -> & Hi & _ & _). rewrite read_file, Hi. intros [= <-]. eauto.
  - intros (i & n & -> & Hi & <-). now rewrite read_file, Hi.
Qed.

Lemma obj_exists_spec f a : FI f -> (obj_exists f a = true <-> oget f a <> None).
Proof.
  intros F; unfold obj_exists. destruct (oget f a) as [e|] eqn:E.
  - destruct (fi_obj F _ _ E) as (i & n & -> & _). rewrite resolve_file. split; congruence.
  - split; congruence.
Qed.

Lemma obj_exists_false f a : FI f -> obj_exists f a = false -> oget f a = None.
Proof.
  intros F H. destruct (oget f a) eqn:E; auto.
  assert (obj_exists f a = true) by (apply obj_exists_spec; congruence). congruence.
Qed.

(* I_cas as a statement about what is read *)
Lemma FI_cas f a c : FI f -> obj_read f a = Some c -> fits (a_digest a) c.
Proof.
  intros F H. apply (obj_read_spec _ _ _ F) in H. destruct H as (i & n & Ho & Hi & <-).
  destruct (FI_obj_file _ _ _ F Ho) as (n' & Hi' & _ & Hf). congruence.
Qed.

(* ---- FI under the elementary updates --------------------------------------------------------------- *)
Ltac fsrw := autorewrite with fsdb in *.

Lemma FI_wdel f p : FI f -> FI (wdel f p).
Proof.
  intros [B W O I]; split; intros *; fsrw; eauto.
  destruct (beqb p p0); [discriminate|eauto].
Qed.

Lemma FI_wput_link f p a : FI f -> FI (wput f p (ELink a)).
Proof.
  intros [B W O I]; split; intros *; fsrw; eauto.
  destruct (beqb p p0); [discriminate|eauto].
Qed.

Lemma FI_wput_file f p i : FI f -> iget f i <> None -> FI (wput f p (EFile i)).
Proof.
  intros [B W O I] Hi; split; intros *; fsrw; eauto.
  destruct (beqb p p0); [intros [= <-]; auto|eauto].
Qed.

Lemma FI_dput f d w : FI f -> FI (dput f d w).
Proof. intros [B W O I]; split; intros *; fsrw; eauto. Qed.

Lemma FI_tick f : FI f -> FI (tick f).
Proof. intros [B W O I]; split; intros *; fsrw; eauto. Qed.

Lemma FI_cleared f p : FI f -> FI (cleared f p).
Proof. intros F; unfold cleared. destruct (ws_exists f p); auto using FI_wdel. Qed.

Lemma FI_odel f a : FI f -> FI (odel f a).
Proof.
  intros [B W O I]; split; intros *; fsrw; eauto.
  - destruct (caddr_eqb a a0); [discriminate|eauto].
  - destruct (caddr_eqb a a1); [discriminate|]. destruct (caddr_eqb a a2); [discriminate|eauto].
Qed.

(* a new inode *)
Lemma FI_alloc f n : FI f -> FI (alloc f n).
Proof.
  intros [B W O I]; unfold alloc; split; intros *; fsrw.
  - destruct (N.eqb_spec (next_ino f) i) as [<-|Hne]; [lia|]. intros H; apply B in H; lia.
  - intros H. destruct (N.eqb_spec (next_ino f) i); [congruence|eauto].
  - intros H. destruct (O _ _ H) as (i & n0 & -> & Hi & Hw & Hf). exists i, n0. fsrw.
    destruct (N.eqb_spec (next_ino f) i) as [<-|Hne]; [apply B in Hi; lia|auto].
  - eauto.
Qed.

(* an existing inode keeps its bytes and its permission (touch) or becomes read-only *)
Lemma FI_iput_same f i n n' : FI f -> iget f i = Some n -> i_bytes n' = i_bytes n ->
  (i_w n' = i_w n \/ i_w n' = false) -> FI (iput f i n').
Proof.
  intros [B W O I] Hi Hb Hw; split; intros *; fsrw.
  - destruct (N.eqb_spec i i0) as [<-|Hne]; eauto.
  - intros H. destruct (N.eqb_spec i i0); [congruence|eauto].
  - intros H. destruct (O _ _ H) as (j & m & -> & Hj & Hjw & Hf). exists j.
    destruct (N.eqb_spec i j) as [<-|Hne].
    + exists n'. rewrite Hi in Hj; injection Hj as <-. fsrw. rewrite N.eqb_refl, Hb.
      repeat split; auto. destruct Hw; congruence.
    + exists m. fsrw. destruct (N.eqb_spec i j); [congruence|auto].
  - eauto.
Qed.

(* an inode that no cache entry uses may change freely *)
Lemma FI_iput_nonobj f i n n' : FI f -> iget f i = Some n -> ~ obj_ino f i -> FI (iput f i n').
Proof.
  intros [B W O I] Hi Hn; split; intros *; fsrw.
  - destruct (N.eqb_spec i i0) as [<-|Hne]; eauto.
  - intros H. destruct (N.eqb_spec i i0); [congruence|eauto].
  - intros H. destruct (O _ _ H) as (j & m & -> & Hj & Hjw & Hf). exists j, m.
    destruct (N.eqb_spec i j) as [<-|Hne]; [exfalso; apply Hn; eexists; eauto|].
    fsrw. destruct (N.eqb_spec i j); [congruence|auto].
  - eauto.
Qed.

(* a regular file with a read-only inode that fits enters the cache at an address *)
Lemma FI_oput f a j n : FI f -> iget f j = Some n -> i_w n = false -> fits (a_digest a) (i_bytes n) ->
  (forall b, b <> a -> oget f b <> Some (EFile j)) -> FI (oput f a (EFile j)).
Proof.
  intros [B W O I] Hj Hw Hf Hn; split; intros *; fsrw; eauto.
  - destruct (caddr_eqb_spec a a0) as [<-|Hne]; [|eauto].
    intros [= <-]. eauto 8.
  - destruct (caddr_eqb_spec a a1) as [<-|H1], (caddr_eqb_spec a a2) as [<-|H2]; auto.
    + intros [= <-] H. exfalso; eapply Hn; eauto.
    + intros H [= <-]. exfalso; eapply Hn; eauto.
    + eauto.
Qed.

(* ---- user actions preserve FI ----------------------------------------------------------------------- *)
Lemma user_write_eq f p c :
  user_write f p c = wput (alloc (tick f) {| i_bytes := c; i_w := true; i_mt := clock (tick f) |}) p (EFile (next_ino f)).
Proof. reflexivity. Qed.

Lemma iget_alloc_new f n : iget (alloc f n) (next_ino f) = Some n.
Proof. unfold alloc; fsrw. now rewrite N.eqb_refl. Qed.

Lemma FI_user_write f p c : FI f -> FI (user_write f p c).
Proof.
  intros F. rewrite user_write_eq. apply FI_wput_file; [apply FI_alloc, FI_tick, F|].
  change (next_ino f) with (next_ino (tick f)). rewrite iget_alloc_new. discriminate.
Qed.

Lemma FI_user_delete f p : FI f -> FI (user_delete f p).
Proof. apply FI_wdel. Qed.

(* a writable inode is no cache object's *)
Lemma writable_not_obj f i n : FI f -> iget f i = Some n -> i_w n = true -> ~ obj_ino f i.
Proof.
  intros F Hi Hw [a Ha]. destruct (FI_obj_file _ _ _ F Ha) as (n' & Hi' & Hw' & _). congruence.
Qed.

Lemma FI_user_write_through f p c : FI f -> FI (user_write_through f p c).
Proof.
  intros F; unfold user_write_through.
  destruct (wget f p) as [e|]; [|now apply FI_user_write].
  destruct (resolve f link_fuel e) as [i|]; auto.
  destruct (iget f i) as [n|] eqn:Hi; auto.
  destruct (i_w n) eqn:Hw; auto.
  eapply FI_iput_nonobj with (n := n); [apply FI_tick, F|exact Hi|].
  intros [a Ha]. eapply writable_not_obj; eauto. exists a; exact Ha.
Qed.

Lemma FI_user_touch f p : FI f -> FI (user_touch f p).
Proof.
  intros F; unfold user_touch.
  destruct (wget f p) as [[i|a]|]; auto.
  destruct (iget f i) as [n|] eqn:Hi; auto.
  eapply FI_iput_same with (n := n); [apply FI_tick, F|exact Hi|reflexivity|left; reflexivity].
Qed.

(* ---- the boolean classes, decided at every call of carry_one ----------------------------------------- *)
Definition is_link_entry (f : fsys) (p : path) : bool :=
  match wget f p with Some (ELink _) => true | _ => false end.
Definition shares_obj_ino (f : fsys) (i : N) : bool :=
  existsb (fun ae => match snd ae with EFile j => N.eqb i j | ELink _ => false end) (objs f).
(* the workspace entry is a symbolic link, or a hard link to a cache object *)
Definition is_cache_link (f : fsys) (p : path) : bool :=
  match wget f p with
  | Some (ELink _) => true
  | Some (EFile i) => shares_obj_ino f i
  | None => false
  end.
(* carry_one renames the workspace entry into the cache *)
Definition moves_entry (f : fsys) (p : path) (a : caddr) (force : bool) : bool :=
  if obj_exists f a then force && negb (is_link_entry f p) else true.
(* class [relink]: a link is renamed into the cache *)
Definition relink (f : fsys) (p : path) (a : caddr) (force : bool) : bool :=
  is_cache_link f p && moves_entry f p a force.
(* class [alias] (P2): the content committed at p meets a different byte string stored at its address *)
Definition alias_meet (f : fsys) (p : path) (a : caddr) (force : bool) : bool :=
  match obj_read f a, ws_read f p with
  | Some c', Some c => negb (beqb c c')
  | _, _ => false
  end.
(* ... and --force replaces the one by the other *)
Definition alias_swap (f : fsys) (p : path) (a : caddr) (force : bool) : bool :=
  force && negb (is_link_entry f p) && alias_meet f p a force.

Lemma shares_false f i : shares_obj_ino f i = false -> forall b, oget f b <> Some (EFile i).
Proof.
  unfold shares_obj_ino; intros H b Hb.
  apply (get_In _ caddr_eqb_spec) in Hb.
  assert (E : existsb (fun ae : caddr * entry => match snd ae with EFile j => N.eqb i j | ELink _ => false end) (objs f) = true).
  { apply existsb_exists. exists (b, EFile i); split; auto. cbn. apply N.eqb_refl. }
  congruence.
Qed.

(* ---- carry_one: the part that commits ----------------------------------------------------------------- *)
Definition commit_part (f : fsys) (p : path) (a : caddr) (force : bool) : fsys * outcome :=
  if obj_exists f a then
    if force && negb (match wget f p with Some (ELink _) => true | _ => false end) then
      let f' := dput f (a_digest a) true in
      let f' := match oget f' a with
                | Some e => match resolve f' link_fuel e with
                            | Some i => match iget f' i with
                                        | Some n => iput f' i {| i_bytes := i_bytes n; i_w := true; i_mt := i_mt n |}
                                        | None => f' end
                            | None => f' end
                | None => f' end in
      move_to_cache (odel f' a) p a
    else (f, Ok)
  else move_to_cache f p a.

Lemma carry_one_eq f p a m force :
  carry_one f p a m force =
  let '(f1, o1) := commit_part f p a force in
  match o1 with Ok => recheck_from_cache (cleared f1 p) p a m | _ => (f1, Panic) end.
Proof. reflexivity. Qed.

(* the state in which the rename happens: the address is free, or --force freed it *)
Definition pre_state (f : fsys) (a : caddr) (force : bool) (g : fsys) : Prop :=
  (oget f a = None /\ g = f) \/
  (force = true /\ exists i ni, oget f a = Some (EFile i) /\ iget f i = Some ni /\
                               g = iput (odel (dput f (a_digest a) true) a) i (rw ni)).

Inductive commit_case (f : fsys) (p : path) (a : caddr) (force : bool) : fsys * outcome -> Prop :=
| CKept : oget f a <> None -> (force = false \/ is_link_entry f p = true) ->
    commit_case f p a force (f, Ok)
| CMoved g j n : wget f p = Some (EFile j) -> iget f j = Some n -> iget g j = Some n ->
    (forall b, oget f b <> Some (EFile j)) -> pre_state f a force g ->
    commit_case f p a force (dput (oput (iput (wdel g p) j (ro n)) a (EFile j)) (a_digest a) false, Ok)
| CFailed g : wget f p = None -> pre_state f a force g ->
    commit_case f p a force (dput g (a_digest a) true, Err).

Definition R_bytes (f f' : fsys) : Prop :=
  forall i n, iget f i = Some n -> exists n', iget f' i = Some n' /\ i_bytes n' = i_bytes n.

Lemma R_bytes_refl f : R_bytes f f.
Proof. intros i n H; eauto. Qed.
Lemma R_bytes_trans f g h : R_bytes f g -> R_bytes g h -> R_bytes f h.
Proof.
  intros A B i n H. destruct (A _ _ H) as (n1 & H1 & E1). destruct (B _ _ H1) as (n2 & H2 & E2).
  exists n2; split; congruence.
Qed.

Lemma pre_state_facts f a force g : FI f -> pre_state f a force g ->
  FI g /\ (forall q, wget g q = wget f q) /\
  (forall b, oget g b = if caddr_eqb a b then None else oget f b) /\
  R_bytes f g /\ (forall j, ~ obj_ino f j -> iget g j = iget f j) /\
  (forall d, d <> a_digest a -> dget g d = dget f d) /\ next_ino g = next_ino f.
Proof.
  intros F [[Hn ->]|(-> & i & ni & Ho & Hi & ->)].
  - split; [auto|]. split; [auto|]. split; [|split; [apply R_bytes_refl|auto]].
    intros b. destruct (caddr_eqb_spec a b) as [<-|]; auto.
  - assert (Fg : FI (odel (dput f (a_digest a) true) a)) by auto using FI_odel, FI_dput.
    split; [|split; [|split; [|split; [|split; [|split; [|reflexivity]]]]]].
    + eapply FI_iput_nonobj with (n := ni); auto.
      unfold obj_ino; intros [b Hb]. rewrite oget_odel, oget_dput in Hb.
      destruct (caddr_eqb_spec a b) as [E|Hne]; [discriminate|].
      apply Hne. eapply (fi_inj F); eauto.
    + intros q; now fsrw.
    + intros b; now fsrw.
    + intros i0 n Hn. fsrw. destruct (N.eqb_spec i i0) as [<-|]; eauto.
      exists (rw ni); split; auto. rewrite Hi in Hn. now injection Hn as <-.
    + intros j Hj. fsrw. destruct (N.eqb_spec i j) as [<-|]; auto.
      exfalso; apply Hj. now exists a.
    + intros d Hd. fsrw. destruct (digest_eqb_spec (a_digest a) d); congruence.
Qed.

Lemma commit_part_cases f p a force :
  FI f -> relink f p a force = false -> commit_case f p a force (commit_part f p a force).
Proof.
  intros F G. unfold commit_part.
  destruct (obj_exists f a) eqn:Ex.
  - assert (Hoa : oget f a <> None) by (apply obj_exists_spec; auto).
    destruct (oget f a) as [e|] eqn:Eo; [|congruence].
    destruct (fi_obj F _ _ Eo) as (i & ni & -> & Hi & Hw & Hf).
    change (match wget f p with Some (ELink _) => true | _ => false end) with (is_link_entry f p).
    destruct force; cbn [andb]; [|apply CKept; [rewrite Eo; discriminate|auto]].
    destruct (is_link_entry f p) eqn:El; cbn [negb]; [apply CKept; [rewrite Eo; discriminate|auto]|].
    cbv zeta. rewrite oget_dput, Eo, resolve_file, iget_dput, Hi.
    set (g := iput (dput f (a_digest a) true) i _).
    assert (Eg : odel g a = iput (odel (dput f (a_digest a) true) a) i (rw ni)) by reflexivity.
    assert (P : pre_state f a true (odel g a)) by (right; split; auto; exists i, ni; auto).
    destruct (pre_state_facts _ _ _ _ F P) as (Fg & Wg & Og & Bg & Ig & _).
    unfold relink, moves_entry in G. rewrite Ex, El in G. cbn in G. rewrite andb_true_r in G.
    unfold is_cache_link in G. unfold is_link_entry in El.
    destruct (wget f p) as [[j|b]|] eqn:Ew; [| discriminate |].
    + pose proof (shares_false _ _ G) as Hs.
      destruct (iget f j) as [n|] eqn:Hj; [|exfalso; eapply (fi_ws F); eauto].
      assert (Hgj : iget (odel g a) j = Some n).
      { rewrite Ig; auto. unfold obj_ino; intros [b Hb]. eapply Hs; eauto. }
      rewrite (mtc_file (odel g a) p a j n); [|now rewrite Wg|auto].
      eapply CMoved; eauto.
    + rewrite mtc_none by now rewrite Wg. now apply CFailed.
  - pose proof (obj_exists_false _ _ F Ex) as Hn.
    assert (P : pre_state f a force f) by (left; auto).
    unfold relink, moves_entry in G. rewrite Ex, andb_true_r in G. unfold is_cache_link in G.
    destruct (wget f p) as [[j|b]|] eqn:Ew; [| discriminate |].
    + pose proof (shares_false _ _ G) as Hs.
      destruct (iget f j) as [n|] eqn:Hj; [|exfalso; eapply (fi_ws F); eauto].
      rewrite (mtc_file f p a j n); auto. eapply CMoved; eauto.
    + rewrite mtc_none by auto. now apply CFailed.
Qed.

(* ---- what one carry_one does to the file system -------------------------------------------------------- *)
Definition DRO (f : fsys) : Prop := forall b, oget f b <> None -> dget f (a_digest b) = Some false.
(* the bytes of the regular file at p (if it is one) fit the address it is committed to *)
Definition fits_pre (f : fsys) (p : path) (a : caddr) : Prop :=
  forall j n, wget f p = Some (EFile j) -> iget f j = Some n -> fits (a_digest a) (i_bytes n).

Record CarrySpec (f : fsys) (p : path) (a : caddr) (force : bool) (f' : fsys) (oc : outcome) : Prop := {
  cs_FI : FI f';
  cs_ws : forall q, q <> p -> wget f' q = wget f q;
  cs_bytes : R_bytes f f';
  cs_objs : forall b, b <> a -> oget f' b = oget f b;
  cs_mono : force = false -> forall e, oget f a = Some e -> oget f' a = Some e;
  cs_keep : alias_swap f p a force = false -> forall i n, oget f a = Some (EFile i) -> iget f i = Some n ->
            oget f' a = None \/
            exists i' n', oget f' a = Some (EFile i') /\ iget f' i' = Some n' /\ i_bytes n' = i_bytes n;
  cs_present : oc <> Panic -> oget f' a <> None;
  cs_dro : oc <> Panic -> DRO f -> DRO f';
  cs_ni : (next_ino f <= next_ino f')%N
}.

Arguments cs_FI {f p a force f' oc}. Arguments cs_ws {f p a force f' oc}. Arguments cs_bytes {f p a force f' oc}.
Arguments cs_objs {f p a force f' oc}. Arguments cs_mono {f p a force f' oc}. Arguments cs_keep {f p a force f' oc}.
Arguments cs_present {f p a force f' oc}. Arguments cs_dro {f p a force f' oc}.
Arguments cs_ni {f p a force f' oc}.

Lemma commit_part_spec f p a force :
  FI f -> relink f p a force = false -> fits_pre f p a ->
  CarrySpec f p a force (fst (commit_part f p a force))
            (match snd (commit_part f p a force) with Ok => Ok | _ => Panic end).
Proof.
  intros F G Hfit. destruct (commit_part_cases f p a force F G) as [Hoa Hk | g j n Hw Hj Hgj Hs P | g Hw P].
  - (* kept *) cbn [fst snd].
    split; [exact F|auto|apply R_bytes_refl|auto|auto| |auto|auto|lia].
    intros _ i n Ho Hi. right; eauto.
  - (* moved *) cbn [fst snd].
    destruct (pre_state_facts _ _ _ _ F P) as (Fg & Wg & Og & Bg & Ig & Dg & Ng).
    assert (Hro : iget (iput (wdel g p) j (ro n)) j = Some (ro n)) by (fsrw; now rewrite N.eqb_refl).
    split.
    + apply FI_dput. eapply FI_oput; [eapply FI_iput_same with (n := n); [apply FI_wdel, Fg|now fsrw|reflexivity|now right]
                                     |exact Hro|reflexivity|cbn; eapply Hfit; eauto|].
      intros b Hb. fsrw. rewrite Og. destruct (caddr_eqb_spec a b); [congruence|apply Hs].
    + intros q Hq. fsrw. rewrite Wg. destruct (beqb_spec p q); [congruence|reflexivity].
    + intros i0 n0 H0. destruct (Bg _ _ H0) as (n1 & H1 & E1). fsrw.
      destruct (N.eqb_spec j i0) as [<-|]; [|eauto].
      exists (ro n). split; auto. cbn. rewrite Hgj in H1. injection H1 as ->. exact E1.
    + intros b Hb. fsrw. rewrite Og. destruct (caddr_eqb_spec a b); [congruence|auto].
    + intros -> e He. destruct P as [[Hn _]|[Hx _]]; congruence.
    + intros Ha i ni Ho Hi. right. exists j, (ro n). fsrw. rewrite caddr_eqb_refl, N.eqb_refl.
      split; [auto|split; [auto|]]. cbn.
      destruct P as [[Hn _]|[-> _]]; [congruence|].
      unfold alias_swap, is_link_entry in Ha. rewrite Hw in Ha. cbn in Ha.
      unfold alias_meet in Ha.
      assert (Er : obj_read f a = Some (i_bytes ni)) by (apply obj_read_spec; eauto).
      assert (Ew : ws_read f p = Some (i_bytes n)) by (unfold ws_read; now rewrite Hw, read_file, Hj).
      rewrite Er, Ew in Ha. apply negb_false_iff in Ha. destruct (beqb_spec (i_bytes n) (i_bytes ni)); congruence.
    + intros _. fsrw. rewrite caddr_eqb_refl. discriminate.
    + intros _ D b Hb. fsrw. destruct (digest_eqb_spec (a_digest a) (a_digest b)) as [E|Hne]; auto.
      rewrite Dg by congruence. apply D. rewrite Og in Hb.
      destruct (caddr_eqb_spec a b) as [E'|]; [congruence|auto].
    + fsrw. lia.
  - (* failed *) cbn [fst snd].
    destruct (pre_state_facts _ _ _ _ F P) as (Fg & Wg & Og & Bg & Ig & Dg & Ng).
    split; try (intros; congruence).
    + now apply FI_dput.
    + intros q _. fsrw. apply Wg.
    + intros i0 n0 H0. destruct (Bg _ _ H0) as (n1 & H1 & E1). fsrw. eauto.
    + intros b Hb. fsrw. rewrite Og. destruct (caddr_eqb_spec a b); [congruence|auto].
    + intros -> e He. destruct P as [[Hn _]|[Hx _]]; congruence.
    + intros _ i ni Ho Hi. left. fsrw. rewrite Og. now rewrite caddr_eqb_refl.
    + fsrw. lia.
Qed.

(* recheck_from_cache changes the workspace entry at p and may add one inode; nothing else *)
Lemma rfc_spec f p a m : FI f ->
  FI (fst (recheck_from_cache f p a m)) /\
  (forall q, q <> p -> wget (fst (recheck_from_cache f p a m)) q = wget f q) /\
  (forall b, oget (fst (recheck_from_cache f p a m)) b = oget f b) /\
  (forall i n, iget f i = Some n -> iget (fst (recheck_from_cache f p a m)) i = Some n) /\
  (forall d, dget (fst (recheck_from_cache f p a m)) d = dget f d) /\
  (next_ino f <= next_ino (fst (recheck_from_cache f p a m)))%N.
Proof.
  intros F. rewrite rfc_unfold. cbv zeta.
  pose proof (FI_cleared f p F) as F0.
  assert (W0 : forall q, q <> p -> wget (cleared f p) q = wget f q) by (intros; apply cleared_other; congruence).
  assert (Base : FI (cleared f p) /\ (forall q, q <> p -> wget (cleared f p) q = wget f q) /\
                 (forall b, oget (cleared f p) b = oget f b) /\
                 (forall i n, iget f i = Some n -> iget (cleared f p) i = Some n) /\
                 (forall d, dget (cleared f p) d = dget f d) /\ (next_ino f <= next_ino (cleared f p))%N).
  { split; [auto|split; [auto|split; [intros; now fsrw|split; [intros; now fsrw|split; [intros; now fsrw|fsrw; lia]]]]]. }
  assert (Copy_case : forall c,
    let g := wput (alloc (tick (cleared f p)) {| i_bytes := c; i_w := true; i_mt := clock (tick (cleared f p)) |}) p
                  (EFile (next_ino (cleared f p))) in
    FI g /\ (forall q, q <> p -> wget g q = wget f q) /\ (forall b, oget g b = oget f b) /\
    (forall i n, iget f i = Some n -> iget g i = Some n) /\ (forall d, dget g d = dget f d) /\ (next_ino f <= next_ino g)%N).
  { intros c g. unfold g. split; [|split; [|split; [|split; [|split]]]].
    - apply FI_wput_file; [apply FI_alloc, FI_tick, F0|].
      change (next_ino (cleared f p)) with (next_ino (tick (cleared f p))). rewrite iget_alloc_new. discriminate.
    - intros q Hq. unfold alloc. fsrw. rewrite W0 by auto. destruct (beqb_spec p q); [congruence|reflexivity].
    - intros b. unfold alloc. now fsrw.
    - intros i n Hi. unfold alloc. fsrw. destruct (N.eqb_spec (next_ino f) i) as [<-|]; auto.
      apply (fi_bound F) in Hi. lia.
    - intros d. unfold alloc. now fsrw.
    - unfold alloc. fsrw. lia. }
  assert (Put_case : forall e, (forall i, e = EFile i -> iget f i <> None) ->
    let g := wput (cleared f p) p e in
    FI g /\ (forall q, q <> p -> wget g q = wget f q) /\ (forall b, oget g b = oget f b) /\
    (forall i n, iget f i = Some n -> iget g i = Some n) /\ (forall d, dget g d = dget f d) /\ (next_ino f <= next_ino g)%N).
  { intros e He g. unfold g. split; [|split; [|split; [|split; [|split]]]].
    - destruct e as [i|b]; [apply FI_wput_file; auto; fsrw; now apply He|now apply FI_wput_link].
    - intros q Hq. fsrw. rewrite W0 by auto. destruct (beqb_spec p q); [congruence|reflexivity].
    - intros b'. now fsrw.
    - intros i n Hi. now fsrw.
    - intros d. now fsrw.
    - fsrw. lia. }
  destruct m.
  - destruct (obj_read (cleared f p) a) as [c|]; [|exact Base].
    destruct (wget (cleared f p) p) as [[i|l]|]; [apply Copy_case|exact Base|apply Copy_case].
  - destruct (wget (cleared f p) p); [exact Base|].
    destruct (oget (cleared f p) a) as [[i|l]|] eqn:Eo; [| |exact Base].
    + apply Put_case. intros i' [= <-]. fsrw.
      destruct (FI_obj_file _ _ _ F Eo) as (n & Hn & _). congruence.
    + apply Put_case. discriminate.
  - destruct (wget (cleared f p) p); [exact Base|]. apply Put_case. discriminate.
  - destruct (obj_read (cleared f p) a) as [c|]; [|exact Base].
    destruct (wget (cleared f p) p) as [[i|l]|]; [apply Copy_case|exact Base|apply Copy_case].
Qed.

Lemma carry_one_spec f p a m force :
  FI f -> relink f p a force = false -> fits_pre f p a ->
  CarrySpec f p a force (fst (carry_one f p a m force)) (snd (carry_one f p a m force)).
Proof.
  intros F G Hfit. pose proof (commit_part_spec f p a force F G Hfit) as S.
  rewrite carry_one_eq. destruct (commit_part f p a force) as [f1 o1]. cbn [fst snd] in S.
  destruct o1; [|exact S|exact S].
  destruct S as [S1 S2 S3 S4 S5 S6 S7 S8 S10].
  destruct (rfc_spec (cleared f1 p) p a m (FI_cleared _ _ S1)) as (R1 & R2 & R3 & R4 & R5 & R6).
  destruct (recheck_from_cache (cleared f1 p) p a m) as [f2 o2]. cbn [fst snd] in *.
  assert (O2 : forall b, oget f2 b = oget f1 b) by (intros; rewrite R3; now fsrw).
  assert (I2 : forall i n, iget f1 i = Some n -> iget f2 i = Some n) by (intros; apply R4; now fsrw).
  assert (Pres : oget f1 a <> None) by (apply S7; discriminate).
  split; auto.
  - intros q Hq. rewrite R2 by auto. rewrite cleared_other by congruence. auto.
  - intros i n Hi. destruct (S3 _ _ Hi) as (n1 & H1 & E1). eauto.
  - intros b Hb. rewrite O2. auto.
  - intros Hf e He. rewrite O2. auto.
  - intros Ha i n Ho Hi. destruct (S6 Ha i n Ho Hi) as [Hn|(i' & n' & H1 & H2 & H3)]; [congruence|].
    right. exists i', n'. rewrite O2. auto.
  - intros _. now rewrite O2.
  - intros _ D b Hb. rewrite O2 in Hb. rewrite R5. fsrw. apply S8; auto. discriminate.
  - fsrw. lia.
Qed.

Lemma rfc_no_panic f p a m : snd (recheck_from_cache f p a m) <> Panic.
Proof.
  rewrite rfc_unfold. cbv zeta. destruct m.
  - destruct (obj_read _ a); [|discriminate]. destruct (wget _ p) as [[|]|]; discriminate.
  - destruct (wget _ p); [discriminate|]. destruct (oget _ a) as [[|]|]; discriminate.
  - destruct (wget _ p); discriminate.
  - destruct (obj_read _ a); [|discriminate]. destruct (wget _ p) as [[|]|]; discriminate.
Qed.

(* with an entry at p the commit cannot fail: carry_one does not panic *)
Lemma carry_one_no_panic f p a m force :
  FI f -> relink f p a force = false -> wget f p <> None -> snd (carry_one f p a m force) <> Panic.
Proof.
  intros F G Hw. rewrite carry_one_eq.
  destruct (commit_part_cases f p a force F G) as [Hoa Hk | g j n Hw' Hj Hgj Hs P | g Hw' P];
    [apply rfc_no_panic|apply rfc_no_panic|congruence].
Qed.

(* ---- records ------------------------------------------------------------------------------------------ *)
Record RI (r : repo) : Prop := {
  ri_nodup : NoDup (keys (recs r));
  ri_path : forall e1 x1 e2 x2, rget r e1 = Some x1 -> rget r e2 = Some x2 -> r_path x1 = r_path x2 -> e1 = e2;
  ri_bound : forall e x, rget r e = Some x -> (e < next_ent r)%N
}.
Arguments ri_nodup {r}. Arguments ri_path {r}. Arguments ri_bound {r}.

Lemma find_path_In rs p e x : find_path rs p = Some (e, x) -> In (e, x) rs /\ r_path x = p.
Proof.
  induction rs as [|[e0 x0] t IH]; cbn; [discriminate|].
  destruct (beqb_spec (r_path x0) p) as [E|Hne].
  - intros [= <- <-]. auto.
  - intros H. destruct (IH H). auto.
Qed.

Lemma find_path_None rs p : find_path rs p = None -> forall e x, In (e, x) rs -> r_path x <> p.
Proof.
  induction rs as [|[e0 x0] t IH]; cbn; [tauto|].
  destruct (beqb_spec (r_path x0) p) as [E|Hne]; [discriminate|].
  intros H e x [[= <- <-]|Hin]; eauto.
Qed.

Lemma find_path_complete rs p e x : In (e, x) rs -> r_path x = p -> find_path rs p <> None.
Proof. intros Hin Hp Hn. eapply find_path_None; eauto. Qed.

Lemma find_path_spec r p e x : RI r ->
  (find_path (recs r) p = Some (e, x) <-> rget r e = Some x /\ r_path x = p).
Proof.
  intros R; split.
  - intros H. apply find_path_In in H. destruct H as [Hin Hp]. split; auto.
    apply (In_get_nodup _ Neqb_spec); auto. apply (ri_nodup R).
  - intros [Hg Hp]. destruct (find_path (recs r) p) as [[e' x']|] eqn:E.
    + pose proof E as E2. apply find_path_In in E2. destruct E2 as [Hin' Hp'].
      apply (In_get_nodup _ Neqb_spec) in Hin'; [|apply (ri_nodup R)].
      assert (e' = e) by (eapply (ri_path R); eauto; congruence). subst e'.
      unfold rget in *. congruence.
    + exfalso. eapply find_path_None; eauto. apply (get_In _ Neqb_spec). exact Hg.
Qed.

Lemma find_path_none_spec r p : RI r ->
  (find_path (recs r) p = None <-> (forall e x, rget r e = Some x -> r_path x <> p)).
Proof.
  intros R; split.
  - intros H e x Hg. eapply find_path_None; eauto. apply (get_In _ Neqb_spec). exact Hg.
  - intros H. destruct (find_path (recs r) p) as [[e x]|] eqn:E; auto.
    apply (find_path_spec r p e x R) in E. destruct E as [Hg Hp]. exfalso. eapply H; eauto.
Qed.

Lemma rget_rput r e x e' : rget (rput r e x) e' = if N.eqb e e' then Some x else rget r e'.
Proof. unfold rget, rput; cbn. apply get_put, Neqb_spec. Qed.

Lemma RI_put_existing r e x x' : RI r -> rget r e = Some x -> r_path x' = r_path x -> RI (rput r e x').
Proof.
  intros R Hg Hp; split.
  - unfold rput; cbn. apply nodup_put; [apply Neqb_spec|apply (ri_nodup R)].
  - intros e1 x1 e2 x2. rewrite !rget_rput.
    destruct (N.eqb_spec e e1) as [<-|H1], (N.eqb_spec e e2) as [<-|H2]; auto.
    + intros [= <-] H2' Hpp. eapply (ri_path R); eauto. congruence.
    + intros H1' [= <-] Hpp. eapply (ri_path R); eauto. congruence.
    + apply (ri_path R).
  - intros e0 x0. rewrite rget_rput. destruct (N.eqb_spec e e0) as [<-|]; [|apply (ri_bound R)].
    intros _. apply (ri_bound R _ _ Hg).
Qed.

Definition radd (r : repo) (x : frec) : repo :=
  {| fs := fs r; recs := put N.eqb N.ltb (recs r) (next_ent r) x; next_ent := N.succ (next_ent r);
     cfg_algo := cfg_algo r; cfg_method := cfg_method r; cfg_tob := cfg_tob r |}.

Lemma rget_radd r x e' : rget (radd r x) e' = if N.eqb (next_ent r) e' then Some x else rget r e'.
Proof. unfold rget, radd; cbn. apply get_put, Neqb_spec. Qed.

Lemma RI_radd r x : RI r -> find_path (recs r) (r_path x) = None -> RI (radd r x).
Proof.
  intros R Hn. pose proof (proj1 (find_path_none_spec r (r_path x) R) Hn) as Hnp. split.
  - unfold radd; cbn. apply nodup_put; [apply Neqb_spec|apply (ri_nodup R)].
  - intros e1 x1 e2 x2. rewrite !rget_radd.
    destruct (N.eqb_spec (next_ent r) e1) as [<-|H1], (N.eqb_spec (next_ent r) e2) as [<-|H2]; auto.
    + intros [= <-] H2' Hpp. exfalso. eapply Hnp; eauto.
    + intros H1' [= <-] Hpp. exfalso. eapply Hnp; eauto.
    + apply (ri_path R).
  - intros e0 x0. rewrite rget_radd. cbn [next_ent radd].
    destruct (N.eqb_spec (next_ent r) e0) as [<-|]; [lia|]. intros H. apply (ri_bound R) in H. lia.
Qed.

Lemma RI_set_fs r f : RI r -> RI (set_fs r f).
Proof. intros [A B C]; split; auto. Qed.

Lemma find_path_ext r r' q : RI r -> RI r' ->
  (forall e x, r_path x = q -> (rget r' e = Some x <-> rget r e = Some x)) ->
  find_path (recs r') q = find_path (recs r) q.
Proof.
  intros R R' H.
  destruct (find_path (recs r) q) as [[e x]|] eqn:E.
  - apply (find_path_spec r q e x R) in E. destruct E as [Hg Hp].
    apply (find_path_spec r' q e x R'). split; auto. apply H; auto.
  - apply (find_path_none_spec r' q R'). intros e x Hg Hp.
    apply (proj1 (find_path_none_spec r q R) E e x); auto. apply H; auto.
Qed.

(* replacing the record of p, or adding one for p, is invisible to the look-up of another path *)
Lemma find_path_rput_other r e x x' q : RI r -> rget r e = Some x -> r_path x' = r_path x -> r_path x <> q ->
  find_path (recs (rput r e x')) q = find_path (recs r) q.
Proof.
  intros R Hg Hp Hq. apply find_path_ext; auto; [eapply RI_put_existing; eauto|].
  intros e0 x0 H0. rewrite rget_rput. destruct (N.eqb_spec e e0) as [<-|]; [|tauto].
  split; intros H1; [injection H1 as <-; congruence|congruence].
Qed.

Lemma find_path_radd_other r x q : RI r -> find_path (recs r) (r_path x) = None -> r_path x <> q ->
  find_path (recs (radd r x)) q = find_path (recs r) q.
Proof.
  intros R Hn Hq. apply find_path_ext; auto; [now apply RI_radd|].
  intros e0 x0 H0. rewrite rget_radd. destruct (N.eqb_spec (next_ent r) e0) as [<-|]; [|tauto].
  split; intros H1; [injection H1 as <-; congruence|].
  apply (ri_bound R) in H1. lia.
Qed.

Lemma find_path_rput_same r e x x' : RI r -> rget r e = Some x -> r_path x' = r_path x ->
  find_path (recs (rput r e x')) (r_path x) = Some (e, x').
Proof.
  intros R Hg Hp. apply find_path_spec; [eapply RI_put_existing; eauto|].
  rewrite rget_rput, N.eqb_refl. auto.
Qed.

Lemma find_path_radd_same r x : RI r -> find_path (recs r) (r_path x) = None ->
  find_path (recs (radd r x)) (r_path x) = Some (next_ent r, x).
Proof.
  intros R Hn. apply find_path_spec; [now apply RI_radd|].
  rewrite rget_radd, N.eqb_refl. auto.
Qed.

(* ---- track: the carry_one call it makes, if any ---------------------------------------------------------- *)
Definition track_method (o : track_opts) (r : repo) : method :=
  match t_method o with Some m => m | None => cfg_method r end.
Definition track_tob (o : track_opts) (r : repo) : tob :=
  match t_tob o with Some t => t | None => cfg_tob r end.

Definition track_one_call (o : track_opts) (walked : bool) (r : repo) (p : path) : option (caddr * method) :=
  let f := fs r in
  if walked && is_link_entry f p then None else
  match ws_meta f p with
  | None => None
  | Some sm =>
      match find_path (recs r) p with
      | None =>
          match ws_read f p with
          | None => None
          | Some c => if t_no_commit o then None
                      else Some (cache_addr p (digest_of (cfg_algo r) (track_tob o r) c), track_method o r)
          end
      | Some (e, x) =>
          if meta_eqb (r_meta x) (Some sm) then None
          else match digest_diff r x (cfg_algo r) (track_tob o r) with
               | DDifferent d | DRecordMissing d =>
                   if t_no_commit o then None else Some (cache_addr p d, track_method o r)
               | _ => None
               end
      end
  end.

Lemma ws_meta_some f p sm : ws_meta f p = Some sm -> wget f p <> None.
Proof. unfold ws_meta. destruct (wget f p); [discriminate|discriminate]. Qed.

Lemma ws_read_file f p j n : wget f p = Some (EFile j) -> iget f j = Some n -> ws_read f p = Some (i_bytes n).
Proof. intros Hw Hi. unfold ws_read. now rewrite Hw, read_file, Hi. Qed.

Lemma fits_pre_digest f p al t c : ws_read f p = Some c -> fits_pre f p (cache_addr p (digest_of al t c)).
Proof.
  intros Hr j n Hw Hi. rewrite (ws_read_file f p j n Hw Hi) in Hr. injection Hr as <-. cbn. apply digest_of_fits.
Qed.

Lemma digest_diff_new r x al t d :
  (digest_diff r x al t = DDifferent d \/ digest_diff r x al t = DRecordMissing d) ->
  exists c, ws_read (fs r) (r_path x) = Some c /\ d = digest_of al t c.
Proof.
  unfold digest_diff. destruct (meta_eqb _ _); [intros [H|H]; discriminate|].
  destruct (ws_meta _ _); [|intros [H|H]; discriminate].
  destruct (ws_read (fs r) (r_path x)) as [c|]; [|intros [H|H]; discriminate].
  destruct (r_digest x) as [rd|].
  - destruct (digest_eqb _ rd); intros [H|H]; try discriminate. injection H as <-. eauto.
  - intros [H|H]; try discriminate. injection H as <-. eauto.
Qed.

Definition same_cfg (r r' : repo) : Prop :=
  cfg_algo r' = cfg_algo r /\ cfg_method r' = cfg_method r /\ cfg_tob r' = cfg_tob r.
Lemma same_cfg_refl r : same_cfg r r. Proof. repeat split. Qed.
Lemma same_cfg_trans a b c : same_cfg a b -> same_cfg b c -> same_cfg a c.
Proof. unfold same_cfg; intuition congruence. Qed.

Lemma track_one_spec o w r p : RI r ->
  let r' := fst (track_one o w r p) in
  let oc := snd (track_one o w r p) in
  RI r' /\ same_cfg r r' /\ (forall q, q <> p -> find_path (recs r') q = find_path (recs r) q) /\
  match track_one_call o w r p with
  | None => fs r' = fs r /\ oc <> Panic
  | Some (a, m) => fs r' = fst (carry_one (fs r) p a m (t_force o)) /\ oc = snd (carry_one (fs r) p a m (t_force o)) /\
                   fits_pre (fs r) p a /\ wget (fs r) p <> None
  end.
Proof.
  intros R. unfold track_one, track_one_call. cbv zeta.
  change (match wget (fs r) p with Some (ELink _) => true | _ => false end) with (is_link_entry (fs r) p).
  fold (track_method o r). fold (track_tob o r).
  assert (Triv : RI r /\ same_cfg r r /\ (forall q, q <> p -> find_path (recs r) q = find_path (recs r) q))
    by (split; [auto|split; [apply same_cfg_refl|auto]]).
  destruct (w && is_link_entry (fs r) p); [cbn; intuition congruence|].
  destruct (ws_meta (fs r) p) as [sm|] eqn:Em; [|cbn; intuition congruence].
  pose proof (ws_meta_some _ _ _ Em) as Hw.
  destruct (find_path (recs r) p) as [[e x]|] eqn:Ef.
  - pose proof (proj1 (find_path_spec r p e x R) Ef) as [Hg Hp].
    destruct (meta_eqb (r_meta x) (Some sm)); [cbn; intuition congruence|].
    set (x1 := fun d => {| r_path := p; r_meta := Some sm; r_digest := Some d; r_hist := d :: r_hist x;
                           r_method := track_method o r; r_tob := track_tob o r |}).
    assert (Put : forall x', r_path x' = p ->
              RI (rput r e x') /\ same_cfg r (rput r e x') /\
              (forall q, q <> p -> find_path (recs (rput r e x')) q = find_path (recs r) q)).
    { intros x' Hx'. split; [eapply RI_put_existing; eauto; congruence|split; [repeat split|]].
      intros q Hq. eapply find_path_rput_other; eauto; congruence. }
    assert (New : forall d, (digest_diff r x (cfg_algo r) (track_tob o r) = DDifferent d \/
                             digest_diff r x (cfg_algo r) (track_tob o r) = DRecordMissing d) ->
              fits_pre (fs r) p (cache_addr p d)).
    { intros d Hd. apply digest_diff_new in Hd. destruct Hd as (c & Hc & ->). rewrite Hp in Hc.
      now apply fits_pre_digest. }
    destruct (digest_diff r x (cfg_algo r) (track_tob o r)) as [| |d| |d] eqn:Ed;
      try (destruct (Put {| r_path := p; r_meta := Some sm; r_digest := r_digest x; r_hist := r_hist x;
                            r_method := track_method o r; r_tob := track_tob o r |} eq_refl) as (P1 & P2 & P3);
           cbn [fst snd]; split; [exact P1|split; [exact P2|split; [exact P3|split; [reflexivity|discriminate]]]]).
    + destruct (Put (x1 d) eq_refl) as (P1 & P2 & P3).
      destruct (t_no_commit o); [cbn [fst snd]; split; [exact P1|split; [exact P2|split; [exact P3|split; [reflexivity|discriminate]]]]|].
      destruct (carry_one (fs r) p (cache_addr p d) (track_method o r) (t_force o)) as [f2 oc] eqn:Ec.
      cbn [fst snd]. split; [now apply RI_set_fs|split; [exact P2|split; [exact P3|]]].
      split; [reflexivity|split; [reflexivity|split; [apply New; auto|exact Hw]]].
    + destruct (Put (x1 d) eq_refl) as (P1 & P2 & P3).
      destruct (t_no_commit o); [cbn [fst snd]; split; [exact P1|split; [exact P2|split; [exact P3|split; [reflexivity|discriminate]]]]|].
      destruct (carry_one (fs r) p (cache_addr p d) (track_method o r) (t_force o)) as [f2 oc] eqn:Ec.
      cbn [fst snd]. split; [now apply RI_set_fs|split; [exact P2|split; [exact P3|]]].
      split; [reflexivity|split; [reflexivity|split; [apply New; auto|exact Hw]]].
  - destruct (ws_read (fs r) p) as [c|] eqn:Er; [|cbn; intuition congruence].
    set (x0 := {| r_path := p; r_meta := Some sm; r_digest := Some (digest_of (cfg_algo r) (track_tob o r) c);
                  r_hist := [digest_of (cfg_algo r) (track_tob o r) c]; r_method := track_method o r; r_tob := track_tob o r |}).
    change {| fs := fs r; recs := put N.eqb N.ltb (recs r) (next_ent r) x0; next_ent := N.succ (next_ent r);
              cfg_algo := cfg_algo r; cfg_method := cfg_method r; cfg_tob := cfg_tob r |} with (radd r x0).
    assert (P1 : RI (radd r x0)) by (apply RI_radd; auto).
    assert (P2 : same_cfg r (radd r x0)) by (repeat split).
    assert (P3 : forall q, q <> p -> find_path (recs (radd r x0)) q = find_path (recs r) q)
      by (intros q Hq; apply find_path_radd_other; auto; cbn; congruence).
    destruct (t_no_commit o); [cbn [fst snd]; split; [exact P1|split; [exact P2|split; [exact P3|split; [reflexivity|discriminate]]]]|].
    destruct (carry_one (fs r) p _ (track_method o r) (t_force o)) as [f2 oc] eqn:Ec.
    cbn [fst snd]. split; [now apply RI_set_fs|split; [exact P2|split; [exact P3|]]].
    split; [reflexivity|split; [reflexivity|split; [now apply fits_pre_digest|exact Hw]]].
Qed.

(* ---- recheck --------------------------------------------------------------------------------------------- *)
(* everything in a record except the recheck method *)
Definition rec_core (x : frec) := (r_path x, r_meta x, r_digest x, r_hist x, r_tob x).
Definition view_core (v : option (N * frec)) := option_map (fun ex => (fst ex, rec_core (snd ex))) v.

Definition recheck_method (o : recheck_opts) (x : frec) : method :=
  match k_method o with Some m => m | None => r_method x end.
Definition with_method (x : frec) (m : method) : frec :=
  {| r_path := r_path x; r_meta := r_meta x; r_digest := r_digest x; r_hist := r_hist x; r_method := m; r_tob := r_tob x |}.

(* the file-system frame of recheck: only the workspace entry at p, and new inodes *)
Definition ws_only (p : path) (f f' : fsys) : Prop :=
  (forall q, q <> p -> wget f' q = wget f q) /\ (forall b, oget f' b = oget f b) /\
  (forall i n, iget f i = Some n -> iget f' i = Some n) /\ (forall d, dget f' d = dget f d) /\
  (next_ino f <= next_ino f')%N.
Lemma ws_only_refl p f : ws_only p f f.
Proof. unfold ws_only; intuition lia. Qed.

Lemma recheck_one_spec o r p : FI (fs r) -> RI r ->
  let r' := fst (recheck_one o r p) in
  FI (fs r') /\ RI r' /\ same_cfg r r' /\ ws_only p (fs r) (fs r') /\ snd (recheck_one o r p) <> Panic /\
  (forall q, view_core (find_path (recs r') q) = view_core (find_path (recs r) q)) /\
  (forall q, q <> p -> find_path (recs r') q = find_path (recs r) q).
Proof.
  intros F R. unfold recheck_one.
  assert (Triv : FI (fs r) /\ RI r /\ same_cfg r r /\ ws_only p (fs r) (fs r) /\
                 (forall q, view_core (find_path (recs r) q) = view_core (find_path (recs r) q)) /\
                 (forall q, q <> p -> find_path (recs r) q = find_path (recs r) q))
    by (split; [auto|split; [auto|split; [apply same_cfg_refl|split; [apply ws_only_refl|auto]]]]).
  destruct Triv as (T1 & T2 & T3 & T4 & T5 & T6).
  destruct (find_path (recs r) p) as [[e x]|] eqn:Ef; [|cbn; intuition congruence].
  pose proof (proj1 (find_path_spec r p e x R) Ef) as [Hg Hp].
  destruct (r_meta x) as [sm|] eqn:Emx; [|cbn; intuition congruence]. cbv zeta.
  fold (recheck_method o x).
  match goal with |- context [if negb ?s then _ else _] => destruct s end; cbn [negb];
    [|cbn [fst snd]; split; [auto|split; [auto|split; [auto|split; [auto|split; [|auto]]]]];
      match goal with |- context [if ?c then _ else _] => destruct c; discriminate end].
  destruct (r_digest x) as [d|] eqn:Ed; [|cbn; intuition congruence].
  set (x' := {| r_path := p; r_meta := Some sm; r_digest := Some d; r_hist := r_hist x;
                r_method := recheck_method o x; r_tob := r_tob x |}).
  assert (Hx' : r_path x' = r_path x) by (cbn; congruence).
  assert (P1 : RI (rput r e x')) by (eapply RI_put_existing; eauto).
  assert (P3 : forall q, q <> p -> find_path (recs (rput r e x')) q = find_path (recs r) q)
    by (intros q Hq; eapply find_path_rput_other; eauto; congruence).
  assert (P2 : forall q, view_core (find_path (recs (rput r e x')) q) = view_core (find_path (recs r) q)).
  { intros q. destruct (beqb_spec p q) as [<-|Hne]; [|rewrite P3 by congruence; reflexivity].
    rewrite <- Hp at 1. rewrite (find_path_rput_same r e x x' R Hg Hx'), Ef. cbn.
    unfold rec_core; cbn. rewrite Hp, Emx, Ed. reflexivity. }
  destruct (obj_exists (fs r) (cache_addr p d));
    [|cbn [fst snd]; split; [auto|split; [auto|split; [repeat split|split; [auto|split; [discriminate|auto]]]]]].
  change (if ws_exists (fs r) p then wdel (fs r) p else fs r) with (cleared (fs r) p).
  destruct (rfc_spec (cleared (fs r) p) p (cache_addr p d) (recheck_method o x) (FI_cleared _ _ F)) as (Q1 & Q2 & Q3 & Q4 & Q5 & Q6).
  pose proof (rfc_no_panic (cleared (fs r) p) p (cache_addr p d) (recheck_method o x)) as Q7.
  destruct (recheck_from_cache (cleared (fs r) p) p (cache_addr p d) (recheck_method o x)) as [f2 oc].
  cbn [fst snd] in *. split; [auto|split; [now apply RI_set_fs|split; [repeat split|split; [|split; [auto|split; [exact P2|exact P3]]]]]].
  split; [|split; [|split; [|split]]].
  - intros q Hq. rewrite Q2 by auto. apply cleared_other; congruence.
  - intros b. rewrite Q3. now fsrw.
  - intros i n Hi. apply Q4. now fsrw.
  - intros d0. rewrite Q5. now fsrw.
  - revert Q6. fsrw. auto.
Qed.

(* ---- relations between the cache before and after ---------------------------------------------------------- *)
Definition R_mono (f f' : fsys) : Prop := forall b e, oget f b = Some e -> oget f' b = Some e.
Definition R_keep (f f' : fsys) : Prop :=
  forall b i n, oget f b = Some (EFile i) -> iget f i = Some n ->
  exists i' n', oget f' b = Some (EFile i') /\ iget f' i' = Some n' /\ i_bytes n' = i_bytes n.
Definition R_weak (f f' : fsys) : Prop :=
  forall b i n, oget f b = Some (EFile i) -> iget f i = Some n ->
  oget f' b = None \/ exists i' n', oget f' b = Some (EFile i') /\ iget f' i' = Some n' /\ i_bytes n' = i_bytes n.

Lemma R_mono_refl f : R_mono f f. Proof. intros b e H; auto. Qed.
Lemma R_mono_trans f g h : R_mono f g -> R_mono g h -> R_mono f h.
Proof. intros A B b e H. auto. Qed.
Lemma R_keep_refl f : R_keep f f. Proof. intros b i n H1 H2; eauto. Qed.
Lemma R_keep_trans f g h : R_keep f g -> R_keep g h -> R_keep f h.
Proof.
  intros A B b i n H1 H2. destruct (A _ _ _ H1 H2) as (i1 & n1 & G1 & G2 & G3).
  destruct (B _ _ _ G1 G2) as (i2 & n2 & K1 & K2 & K3). exists i2, n2. intuition congruence.
Qed.
Lemma R_keep_weak f g : R_keep f g -> R_weak f g.
Proof. intros A b i n H1 H2. right. eauto. Qed.
Lemma R_keep_weak_trans f g h : R_keep f g -> R_weak g h -> R_weak f h.
Proof.
  intros A B b i n H1 H2. destruct (A _ _ _ H1 H2) as (i1 & n1 & G1 & G2 & G3).
  destruct (B _ _ _ G1 G2) as [K|(i2 & n2 & K1 & K2 & K3)]; [now left|].
  right. exists i2, n2. intuition congruence.
Qed.
Lemma R_mono_bytes_keep f g : R_mono f g -> R_bytes f g -> R_keep f g.
Proof.
  intros A B b i n H1 H2. destruct (B _ _ H2) as (n' & G1 & G2). exists i, n'. auto.
Qed.

Lemma cs_rel f p a force f' oc : CarrySpec f p a force f' oc ->
  (force = false -> R_mono f f') /\
  (alias_swap f p a force = false -> R_weak f f' /\ (oc <> Panic -> R_keep f f')).
Proof.
  intros S. split.
  - intros Hf b e Hb. destruct (caddr_eqb_spec b a) as [->|Hne]; [eapply cs_mono; eauto|].
    rewrite (cs_objs S) by auto. auto.
  - intros Ha.
    assert (W : R_weak f f').
    { intros b i n Ho Hi. destruct (caddr_eqb_spec b a) as [->|Hne]; [eapply cs_keep; eauto|].
      right. destruct (cs_bytes S _ _ Hi) as (n' & G1 & G2). exists i, n'.
      rewrite (cs_objs S) by auto. auto. }
    split; auto. intros Hoc b i n Ho Hi. destruct (W b i n Ho Hi) as [Hn|H]; auto.
    exfalso. destruct (caddr_eqb_spec b a) as [->|Hne]; [eapply cs_present; eauto|].
    rewrite (cs_objs S) in Hn by auto. congruence.
Qed.

(* ---- carry-in ----------------------------------------------------------------------------------------------- *)
Definition fits_b (d : digest) (c : bytes) : bool := beqb (d_norm d) c || beqb (d_norm d) (strip_crlf c).
Lemma fits_b_spec d c : fits_b d c = true <-> fits d c.
Proof.
  unfold fits_b, fits. rewrite orb_true_iff.
  destruct (beqb_spec (d_norm d) c), (beqb_spec (d_norm d) (strip_crlf c)); intuition congruence.
Qed.
(* class [misfit]: the regular file committed at an address does not fit it.  It concerns only
   carry-in --force of a path whose metadata equals the record (digest Skipped) *)
Definition misfit (f : fsys) (p : path) (a : caddr) (force : bool) : bool :=
  match wget f p, ws_read f p with
  | Some (EFile _), Some c => negb (fits_b (a_digest a) c)
  | _, _ => false
  end.
Definition unclean (f : fsys) (p : path) (a : caddr) (force : bool) : bool := relink f p a force || misfit f p a force.

Lemma misfit_false f p a force : misfit f p a force = false -> fits_pre f p a.
Proof.
  unfold misfit. intros H j n Hw Hi. rewrite Hw, (ws_read_file f p j n Hw Hi) in H.
  apply negb_false_iff, fits_b_spec in H. exact H.
Qed.
Lemma fits_pre_misfit f p a force : fits_pre f p a -> misfit f p a force = false.
Proof.
  unfold misfit. intros H. destruct (wget f p) as [[j|]|] eqn:Hw; auto.
  destruct (ws_read f p) as [c|] eqn:Hr; auto. unfold ws_read in Hr. rewrite Hw, read_file in Hr.
  destruct (iget f j) as [n|] eqn:Hi; [|discriminate]. injection Hr as <-.
  apply negb_false_iff, fits_b_spec. eapply H; eauto.
Qed.

Section Monitor.
Variable bad : fsys -> path -> caddr -> bool -> bool.

Definition mon_track_one (o : track_opts) (w : bool) (r : repo) (p : path) : bool :=
  match track_one_call o w r p with Some (a, _) => bad (fs r) p a (t_force o) | None => false end.

Fixpoint mon_each (step : repo -> path -> repo * outcome) (mon : repo -> path -> bool) (r : repo) (ps : list path) : bool :=
  match ps with
  | [] => false
  | p :: t => mon r p || mon_each step mon (fst (step r p)) t
  end.

Fixpoint mon_carry_phase (f : fsys) (cs : list cplan) (force : bool) : bool :=
  match cs with
  | [] => false
  | c :: t =>
      match cp_sel c, cp_addr c with
      | true, Some a =>
          bad f (r_path (cp_rec c)) a force ||
          match snd (carry_one f (r_path (cp_rec c)) a (r_method (cp_rec c)) force) with
          | Ok => mon_carry_phase (fst (carry_one f (r_path (cp_rec c)) a (r_method (cp_rec c)) force)) t force
          | _ => false
          end
      | _, _ => mon_carry_phase f t force
      end
  end.

Definition walked_of (ps : list path) : bool := existsb (fun p => existsb (N.eqb slash) p) ps.

Definition mon_item (r : repo) (it : item) : bool :=
  match it with
  | XTrack o ps => mon_each (track_one o (walked_of ps)) (mon_track_one o (walked_of ps)) r ps
  | XCarryIn o ps =>
      let cs := plans o r ps in
      if existsb (fun c => cp_sel c && match cp_addr c with None => true | Some _ => false end) cs then false
      else mon_carry_phase (fs r) cs (c_force o)
  | _ => false
  end.

Fixpoint mon_run (r : repo) (h : list item) : bool :=
  match h with
  | [] => false
  | it :: t => mon_item r it || mon_run (fst (do_item r it)) t
  end.
End Monitor.

Lemma mon_or_each bad1 bad2 step o w r ps :
  mon_each step (mon_track_one (fun f p a force => bad1 f p a force || bad2 f p a force) o w) r ps =
  mon_each step (mon_track_one bad1 o w) r ps || mon_each step (mon_track_one bad2 o w) r ps.
Proof.
  revert r; induction ps as [|p t IH]; intros r; cbn; auto.
  rewrite IH. unfold mon_track_one. destruct (track_one_call o w r p) as [[a m]|]; cbn; auto.
  destruct (bad1 (fs r) p a (t_force o)), (bad2 (fs r) p a (t_force o)); cbn; auto using orb_true_r.
Qed.

Definition paths_of (cs : list cplan) : list path := map (fun c => r_path (cp_rec c)) cs.

Lemma carry_phase_spec force cs : forall f,
  FI f -> mon_carry_phase unclean f cs force = false ->
  let f' := fst (carry_phase f cs force) in
  let oc := snd (carry_phase f cs force) in
  FI f' /\ R_bytes f f' /\ (force = false -> R_mono f f') /\
  (mon_carry_phase alias_swap f cs force = false -> R_weak f f' /\ (oc <> Panic -> R_keep f f')) /\
  (oc <> Panic -> DRO f -> DRO f') /\
  (forall q, ~ In q (paths_of cs) -> wget f' q = wget f q) /\ (oc = Ok \/ oc = Panic).
Proof.
  induction cs as [|c t IH]; intros f F G.
  - cbn. split; [auto|split; [apply R_bytes_refl|split; [intros; apply R_mono_refl|split; [|auto]]]].
    intros _. split; [apply R_keep_weak, R_keep_refl|intros; apply R_keep_refl].
  - cbn [carry_phase mon_carry_phase paths_of map] in *.
    destruct (cp_sel c); [|destruct (IH f F G) as (A1 & A2 & A3 & A4 & A5 & A6 & A7);
                           split; [auto|split; [auto|split; [auto|split; [auto|split; [auto|split; [|auto]]]]]];
                           intros q Hq; apply A6; intros Hin; apply Hq; now right].
    destruct (cp_addr c) as [a|]; [|destruct (IH f F G) as (A1 & A2 & A3 & A4 & A5 & A6 & A7);
                           split; [auto|split; [auto|split; [auto|split; [auto|split; [auto|split; [|auto]]]]]];
                           intros q Hq; apply A6; intros Hin; apply Hq; now right].
    apply orb_false_iff in G. destruct G as [G1 G2]. unfold unclean in G1. apply orb_false_iff in G1. destruct G1 as [G1 G1'].
    pose proof (carry_one_spec f (r_path (cp_rec c)) a (r_method (cp_rec c)) force F G1 (misfit_false _ _ _ _ G1')) as S.
    destruct (carry_one f (r_path (cp_rec c)) a (r_method (cp_rec c)) force) as [f1 o1]. cbn [fst snd] in *.
    destruct (cs_rel _ _ _ _ _ _ S) as [M1 M2].
    destruct o1.
    + destruct (IH f1 (cs_FI S) G2) as (A1 & A2 & A3 & A4 & A5 & A6 & A7).
      destruct (carry_phase f1 t force) as [f2 o2]. cbn [fst snd] in *.
      split; [auto|split; [eapply R_bytes_trans; [apply (cs_bytes S)|auto]|split; [|split; [|split; [|split; [|auto]]]]]].
      * intros Hf. eapply R_mono_trans; eauto.
      * intros Ha. apply orb_false_iff in Ha. destruct Ha as [Ha1 Ha2].
        destruct (M2 Ha1) as [W K]. destruct (A4 Ha2) as [W2 K2].
        assert (K1 : R_keep f f1) by (apply K; discriminate).
        split; [eapply R_keep_weak_trans; eauto|intros Ho; eapply R_keep_trans; eauto].
      * intros Ho D. apply A5; auto. apply (cs_dro S); auto. discriminate.
      * intros q Hq. rewrite A6 by (intros Hin; apply Hq; now right).
        apply (cs_ws S). intros ->. apply Hq. now left.
    + cbn [fst snd].
      split; [apply (cs_FI S)|split; [apply (cs_bytes S)|split; [auto|split; [|split; [congruence|split; [|auto]]]]]].
      * intros Ha. rewrite orb_false_r in Ha. destruct (M2 Ha) as [W K]. split; [auto|congruence].
      * intros q Hq. apply (cs_ws S). intros ->. apply Hq. now left.
    + cbn [fst snd].
      split; [apply (cs_FI S)|split; [apply (cs_bytes S)|split; [auto|split; [|split; [congruence|split; [|auto]]]]]].
      * intros Ha. rewrite orb_false_r in Ha. destruct (M2 Ha) as [W K]. split; [auto|congruence].
      * intros q Hq. apply (cs_ws S). intros ->. apply Hq. now left.
Qed.

(* ---- commands over target lists ---------------------------------------------------------------------------- *)
Lemma each_cons step r p t :
  fst (each step r (p :: t)) = fst (each step (fst (step r p)) t) /\
  snd (each step r (p :: t)) = worst (snd (step r p)) (snd (each step (fst (step r p)) t)).
Proof. cbn. destruct (step r p) as [r1 o1]. cbn. destruct (each step r1 t) as [r2 o2]. auto. Qed.

Lemma each_spec step mon (P : repo -> Prop) (Rel : repo -> repo -> Prop) :
  (forall r, Rel r r) -> (forall a b c, Rel a b -> Rel b c -> Rel a c) ->
  (forall r p, P r -> mon r p = false -> P (fst (step r p)) /\ Rel r (fst (step r p))) ->
  forall ps r, P r -> mon_each step mon r ps = false ->
  P (fst (each step r ps)) /\ Rel r (fst (each step r ps)).
Proof.
  intros Hrefl Htrans Hstep ps; induction ps as [|p t IH]; intros r HP Hm.
  - cbn. auto.
  - cbn [mon_each] in Hm. apply orb_false_iff in Hm. destruct Hm as [Hm1 Hm2].
    destruct (Hstep r p HP Hm1) as [HP1 HR1]. destruct (IH _ HP1 Hm2) as [HP2 HR2].
    destruct (each_cons step r p t) as [E _]. rewrite E. split; eauto.
Qed.

Lemma each_no_panic step mon (P : repo -> Prop) :
  (forall r p, P r -> mon r p = false -> P (fst (step r p)) /\ snd (step r p) <> Panic) ->
  forall ps r, P r -> mon_each step mon r ps = false -> snd (each step r ps) <> Panic.
Proof.
  intros Hstep ps; induction ps as [|p t IH]; intros r HP Hm.
  - cbn. discriminate.
  - cbn [mon_each] in Hm. apply orb_false_iff in Hm. destruct Hm as [Hm1 Hm2].
    destruct (Hstep r p HP Hm1) as [HP1 HN1]. specialize (IH _ HP1 Hm2).
    destruct (each_cons step r p t) as [_ E]. rewrite E.
    destruct (snd (step r p)), (snd (each step (fst (step r p)) t)); cbn; congruence.
Qed.

Lemma mon_each_or step m1 m2 r ps :
  mon_each step (fun r p => m1 r p || m2 r p) r ps = mon_each step m1 r ps || mon_each step m2 r ps.
Proof.
  revert r; induction ps as [|p t IH]; intros r; cbn; auto. rewrite IH.
  destruct (m1 r p), (m2 r p), (mon_each step m1 (fst (step r p)) t); cbn; auto.
Qed.

Definition unforced (it : item) : bool :=
  match it with XTrack o _ => negb (t_force o) | XCarryIn o _ => negb (c_force o) | _ => true end.

Definition INV (r : repo) : Prop := FI (fs r) /\ RI r.

(* one track target *)
Lemma track_one_step o w r p : INV r -> mon_track_one unclean o w r p = false ->
  let r' := fst (track_one o w r p) in
  INV r' /\ same_cfg r r' /\ snd (track_one o w r p) <> Panic /\ (DRO (fs r) -> DRO (fs r')) /\
  R_bytes (fs r) (fs r') /\ (t_force o = false -> R_mono (fs r) (fs r')) /\
  (mon_track_one alias_swap o w r p = false -> R_keep (fs r) (fs r')) /\
  (forall q, q <> p -> wget (fs r') q = wget (fs r) q) /\
  (forall q, q <> p -> find_path (recs r') q = find_path (recs r) q).
Proof.
  intros [F R] G. destruct (track_one_spec o w r p R) as (S1 & S2 & S3 & S4).
  unfold mon_track_one in *. destruct (track_one_call o w r p) as [[a m]|].
  - destruct S4 as (E1 & E2 & Hfit & Hw). unfold unclean in G. apply orb_false_iff in G. destruct G as [G1 G2].
    pose proof (carry_one_spec (fs r) p a m (t_force o) F G1 Hfit) as S.
    pose proof (carry_one_no_panic (fs r) p a m (t_force o) F G1 Hw) as NP.
    destruct (cs_rel _ _ _ _ _ _ S) as [M1 M2]. cbv zeta. unfold INV. rewrite E1, E2.
    split; [split; [apply (cs_FI S)|auto]|split; [auto|split; [auto|split; [apply (cs_dro S); auto|
      split; [apply (cs_bytes S)|split; [auto|split; [|split; [apply (cs_ws S)|auto]]]]]]]].
    intros Ha. apply M2; auto.
  - destruct S4 as [E1 E2]. cbv zeta. unfold INV. rewrite E1.
    split; [split; auto|split; [auto|split; [auto|split; [auto|split; [apply R_bytes_refl|
      split; [intros; apply R_mono_refl|split; [intros; apply R_keep_refl|auto]]]]]]].
Qed.

Lemma recheck_one_step o r p : INV r ->
  let r' := fst (recheck_one o r p) in
  INV r' /\ same_cfg r r' /\ snd (recheck_one o r p) <> Panic /\ (DRO (fs r) -> DRO (fs r')) /\
  R_bytes (fs r) (fs r') /\ R_mono (fs r) (fs r').
Proof.
  intros [F R]. destruct (recheck_one_spec o r p F R) as (S1 & S2 & S3 & (W1 & W2 & W3 & W4 & W5) & S5 & S6 & S7).
  cbv zeta. split; [split; auto|split; [auto|split; [auto|split; [|split]]]].
  - intros D b Hb. rewrite W2 in Hb. rewrite W4. auto.
  - intros i n Hi. eauto.
  - intros b e Hb. now rewrite W2.
Qed.

(* the plans of carry-in name records of the repository *)
Lemma carry_plan_rec o r p c : carry_plan o r p = Some c ->
  find_path (recs r) p = Some (cp_ent c, cp_rec c) /\ r_path (cp_rec c) = p.
Proof.
  unfold carry_plan. destruct (find_path (recs r) p) as [[e x]|] eqn:Ef; [|discriminate].
  destruct (r_meta x); [|discriminate]. intros [= <-]. cbn. split; auto.
  apply find_path_In in Ef. tauto.
Qed.

Lemma plans_rec o r ps c : In c (plans o r ps) ->
  find_path (recs r) (r_path (cp_rec c)) = Some (cp_ent c, cp_rec c).
Proof.
  induction ps as [|p t IH]; cbn; [tauto|].
  destruct (carry_plan o r p) as [c0|] eqn:E; auto.
  intros [<-|Hin]; auto. destruct (carry_plan_rec o r p c0 E) as [H1 H2]. now rewrite H2.
Qed.

Definition plan_record (c : cplan) : frec :=
  let x := cp_rec c in
  {| r_path := r_path x;
     r_meta := match cp_meta c with Some sm => Some sm | None => None end;
     r_digest := match cp_dd c with DDifferent d => Some d | _ => r_digest x end;
     r_hist := match cp_dd c with DDifferent d => d :: r_hist x | _ => r_hist x end;
     r_method := r_method x; r_tob := cp_tob c |}.

Lemma record_phase_cons r c cs : record_phase r (c :: cs) = record_phase (rput r (cp_ent c) (plan_record c)) cs.
Proof. reflexivity. Qed.

Lemma record_phase_spec cs : forall r, RI r ->
  (forall c, In c cs -> exists x, rget r (cp_ent c) = Some x /\ r_path x = r_path (cp_rec c)) ->
  RI (record_phase r cs) /\ same_cfg r (record_phase r cs) /\ fs (record_phase r cs) = fs r /\
  (forall q, ~ In q (paths_of cs) -> find_path (recs (record_phase r cs)) q = find_path (recs r) q).
Proof.
  induction cs as [|c t IH]; intros r R H.
  - cbn. split; [auto|split; [apply same_cfg_refl|auto]].
  - rewrite record_phase_cons.
    destruct (H c (or_introl eq_refl)) as (x & Hg & Hp).
    assert (R1 : RI (rput r (cp_ent c) (plan_record c))) by (eapply RI_put_existing; eauto).
    destruct (IH _ R1) as (A1 & A2 & A3 & A4).
    { intros c' Hin. destruct (H c' (or_intror Hin)) as (x' & Hg' & Hp').
      rewrite rget_rput. destruct (N.eqb_spec (cp_ent c) (cp_ent c')) as [E|]; eauto.
      exists (plan_record c). split; auto. cbn. rewrite <- Hp', <- Hp.
      rewrite <- E in Hg'. congruence. }
    split; [auto|split; [eapply same_cfg_trans; [|exact A2]; repeat split|split; [auto|]]].
    intros q Hq. rewrite A4 by (intros Hin; apply Hq; now right).
    eapply find_path_rput_other; eauto. intros E. apply Hq. left. cbn. congruence.
Qed.

Lemma set_fs_fs r f : fs (set_fs r f) = f. Proof. reflexivity. Qed.
Lemma set_fs_recs r f : recs (set_fs r f) = recs r. Proof. reflexivity. Qed.

(* ---- one item ------------------------------------------------------------------------------------------------ *)
Lemma user_frame r f' : INV r -> FI f' -> (forall b, oget f' b = oget (fs r) b) -> (forall d, dget f' d = dget (fs r) d) ->
  (forall i n, obj_ino (fs r) i -> iget (fs r) i = Some n -> exists n', iget f' i = Some n' /\ i_bytes n' = i_bytes n) ->
  INV (set_fs r f') /\ R_mono (fs r) f' /\ R_keep (fs r) f' /\ (DRO (fs r) -> DRO f').
Proof.
  intros [F R] F' Ho Hd Hi. split; [split; [auto|now apply RI_set_fs]|split; [|split]].
  - intros b e Hb. now rewrite Ho.
  - intros b i n Hb Hn. destruct (Hi i n) as (n' & H1 & H2); [now exists b|auto|].
    exists i, n'. rewrite Ho. auto.
  - intros D b Hb. rewrite Ho in Hb. rewrite Hd. auto.
Qed.

Lemma user_item_done r f' : INV (set_fs r f') /\ R_mono (fs r) f' /\ R_keep (fs r) f' /\ (DRO (fs r) -> DRO f') ->
  INV (set_fs r f') /\ same_cfg r (set_fs r f') /\
  (true = true -> R_mono (fs r) (fs (set_fs r f')) /\ R_keep (fs r) (fs (set_fs r f'))) /\
  (false = false -> R_weak (fs r) (fs (set_fs r f'))) /\
  (Ok <> Panic -> DRO (fs r) -> DRO (fs (set_fs r f'))).
Proof.
  intros (A1 & A2 & A3 & A4). cbn [fs set_fs].
  split; [auto|split; [repeat split|split; [auto|split; [intros; now apply R_keep_weak|auto]]]].
Qed.

Lemma item_user_write r p c : INV r ->
  INV (set_fs r (user_write (fs r) p c)) /\ R_mono (fs r) (user_write (fs r) p c) /\
  R_keep (fs r) (user_write (fs r) p c) /\ (DRO (fs r) -> DRO (user_write (fs r) p c)).
Proof.
  intros I. pose proof I as [F R].
  apply user_frame; auto using FI_user_write.
  intros i n _ Hi. exists n. split; auto. rewrite user_write_eq. unfold alloc. fsrw.
  destruct (N.eqb_spec (next_ino (fs r)) i) as [E|]; auto. apply (fi_bound F) in Hi. lia.
Qed.

Lemma item_spec r it : INV r -> mon_item unclean r it = false ->
  let r' := fst (do_item r it) in
  INV r' /\ same_cfg r r' /\
  (unforced it = true -> R_mono (fs r) (fs r') /\ R_keep (fs r) (fs r')) /\
  (mon_item alias_swap r it = false -> R_weak (fs r) (fs r')) /\
  (snd (do_item r it) <> Panic -> DRO (fs r) -> DRO (fs r')).
Proof.
  intros I G. pose proof I as [F R]. destruct it as [p c|p c|p|p|o ps|o ps|o ps]; cbn [do_item fst snd mon_item unforced] in *.
  - (* write *) apply user_item_done. now apply item_user_write.
  - (* write through *) apply user_item_done.
    unfold user_write_through. destruct (wget (fs r) p) as [e|]; [|now apply item_user_write].
    assert (Same : INV (set_fs r (fs r)) /\ R_mono (fs r) (fs r) /\ R_keep (fs r) (fs r) /\ (DRO (fs r) -> DRO (fs r)))
      by (split; [split; [auto|now apply RI_set_fs]|split; [apply R_mono_refl|split; [apply R_keep_refl|auto]]]).
    destruct (resolve (fs r) link_fuel e) as [j|]; auto. destruct (iget (fs r) j) as [nj|] eqn:Hj; auto.
    destruct (i_w nj) eqn:Hw; auto.
    apply user_frame; auto.
    + eapply FI_iput_nonobj with (n := nj); [apply FI_tick, F|exact Hj|].
      unfold obj_ino. intros [a Ha]. eapply writable_not_obj; eauto. exists a; exact Ha.
    + intros i n Hob Hi. exists n. split; auto. fsrw. destruct (N.eqb_spec j i) as [E|]; auto.
      exfalso. subst i. eapply writable_not_obj; [exact F|exact Hj|exact Hw|exact Hob].
  - (* delete *) apply user_item_done. apply user_frame; auto using FI_user_delete.
    intros i n _ Hi. exists n. auto.
  - (* touch *) apply user_item_done.
    assert (Same : INV (set_fs r (fs r)) /\ R_mono (fs r) (fs r) /\ R_keep (fs r) (fs r) /\ (DRO (fs r) -> DRO (fs r)))
      by (split; [split; [auto|now apply RI_set_fs]|split; [apply R_mono_refl|split; [apply R_keep_refl|auto]]]).
    unfold user_touch. destruct (wget (fs r) p) as [[j|a]|]; auto.
    destruct (iget (fs r) j) as [nj|] eqn:Hj; auto.
    apply user_frame; auto.
    + eapply FI_iput_same with (n := nj); [apply FI_tick, F|exact Hj|reflexivity|left; reflexivity].
    + intros i n Hob Hi. fsrw. destruct (N.eqb_spec j i) as [E|]; [|eauto].
      subst i. rewrite Hi in Hj. injection Hj as <-. eexists; split; [reflexivity|reflexivity].
  - (* track *)
    set (w := walked_of ps) in *.
    set (P := fun r => INV r /\ True).
    destruct (each_spec (track_one o w) (mon_track_one unclean o w) (fun r => INV r)
               (fun a b => same_cfg a b /\ (DRO (fs a) -> DRO (fs b)) /\ (t_force o = false -> R_mono (fs a) (fs b) /\ R_bytes (fs a) (fs b))))
      with (ps := ps) (r := r) as [E1 (E2 & E3 & E4)]; auto.
    + intros r0. split; [apply same_cfg_refl|split; [auto|intros; split; [apply R_mono_refl|apply R_bytes_refl]]].
    + intros a b c0 (A1 & A2 & A3) (B1 & B2 & B3). split; [eapply same_cfg_trans; eauto|split; [auto|]].
      intros Hf. destruct (A3 Hf), (B3 Hf). split; [eapply R_mono_trans; eauto|eapply R_bytes_trans; eauto].
    + intros r0 p0 I0 G0. destruct (track_one_step o w r0 p0 I0 G0) as (T1 & T2 & T3 & T4 & T5 & T6 & T7 & T8 & T9).
      split; [auto|split; [auto|split; [auto|auto]]].
    + split; [auto|split; [auto|split; [|split; [|auto]]]].
      * intros Hf. apply negb_true_iff in Hf. destruct (E4 Hf). split; [auto|now apply R_mono_bytes_keep].
      * intros Ha. apply R_keep_weak.
        destruct (each_spec (track_one o w) (fun r p => mon_track_one unclean o w r p || mon_track_one alias_swap o w r p)
                   (fun r => INV r) (fun a b => R_keep (fs a) (fs b))) with (ps := ps) (r := r) as [_ K]; auto.
        -- intros; apply R_keep_refl.
        -- intros a b c0; apply R_keep_trans.
        -- intros r0 p0 I0 G0. apply orb_false_iff in G0. destruct G0 as [G1 G2].
           destruct (track_one_step o w r0 p0 I0 G1) as (T1 & T2 & T3 & T4 & T5 & T6 & T7 & T8 & T9). auto.
        -- rewrite mon_each_or. now rewrite G, Ha.
  - (* carry-in *)
    unfold carry_in_cmd.
    set (cs := plans o r ps) in *.
    destruct (existsb _ cs); [cbn [fst snd]; split; [auto|split; [apply same_cfg_refl|split;
       [intros; split; [apply R_mono_refl|apply R_keep_refl]|split; [intros; apply R_keep_weak, R_keep_refl|auto]]]]|].
    destruct (carry_phase_spec (c_force o) cs (fs r) F G) as (A1 & A2 & A3 & A4 & A5 & A6 & A7).
    destruct (carry_phase (fs r) cs (c_force o)) as [f1 oc]. cbn [fst snd] in *.
    assert (Common : (negb (c_force o) = true -> R_mono (fs r) f1 /\ R_keep (fs r) f1) /\
                     (mon_carry_phase alias_swap (fs r) cs (c_force o) = false -> R_weak (fs r) f1)).
    { split.
      - intros Hf. apply negb_true_iff in Hf. split; [auto|apply R_mono_bytes_keep; auto].
      - intros Ha. apply A4; auto. }
    destruct Common as [C1 C2].
    destruct A7 as [->| ->].
    + destruct (record_phase_spec cs (set_fs r f1) (RI_set_fs r f1 R)) as (B1 & B2 & B3 & B4).
      { intros c Hin. pose proof (plans_rec o r ps c Hin) as Hf.
        apply (find_path_spec r _ _ _ R) in Hf. destruct Hf as [Hg Hp]. exists (cp_rec c). auto. }
      cbn [fst snd]. unfold INV. rewrite B3. cbn [fs set_fs].
      split; [split; [auto|auto]|split; [eapply same_cfg_trans; [|exact B2]; repeat split|split; [auto|split; [auto|auto]]]].
    + unfold INV. cbn [fst snd fs set_fs].
      split; [split; [auto|now apply RI_set_fs]|split; [repeat split|split; [auto|split; [auto|congruence]]]].
  - (* recheck *)
    destruct (each_spec (recheck_one o) (fun _ _ => false) (fun r => INV r)
               (fun a b => same_cfg a b /\ (DRO (fs a) -> DRO (fs b)) /\ R_mono (fs a) (fs b) /\ R_bytes (fs a) (fs b)))
      with (ps := ps) (r := r) as [E1 (E2 & E3 & E4 & E5)]; auto.
    + intros r0. split; [apply same_cfg_refl|split; [auto|split; [apply R_mono_refl|apply R_bytes_refl]]].
    + intros a b c0 (A1 & A2 & A3 & A4) (B1 & B2 & B3 & B4).
      split; [eapply same_cfg_trans; eauto|split; [auto|split; [eapply R_mono_trans; eauto|eapply R_bytes_trans; eauto]]].
    + intros r0 p0 I0 _. destruct (recheck_one_step o r0 p0 I0) as (T1 & T2 & T3 & T4 & T5 & T6). auto.
    + clear. generalize r. induction ps; intros r0; cbn; auto.
    + assert (K : R_keep (fs r) (fs (fst (each (recheck_one o) r ps)))) by (apply R_mono_bytes_keep; auto).
      split; [auto|split; [auto|split; [auto|split; [intros; now apply R_keep_weak|auto]]]].
Qed.

(* ---- all histories ------------------------------------------------------------------------------------------- *)
Lemma run_items_cons r it t : run_items r (it :: t) = run_items (fst (do_item r it)) t.
Proof. reflexivity. Qed.

Lemma INV_init a m t : INV (init_repo a m t).
Proof.
  split; split; cbn; try discriminate; try (intros; discriminate).
  - constructor.
Qed.

Lemma DRO_init a m t : DRO (fs (init_repo a m t)).
Proof. intros b H. cbn in H. congruence. Qed.

Theorem inv_run h : forall r, INV r -> mon_run unclean r h = false -> INV (run_items r h).
Proof.
  induction h as [|it t IH]; intros r I G; [exact I|].
  cbn [mon_run] in G. apply orb_false_iff in G. destruct G as [G1 G2].
  rewrite run_items_cons. apply IH; auto. apply (item_spec r it I G1).
Qed.

(* some command of the history panicked *)
Fixpoint panics (r : repo) (h : list item) : bool :=
  match h with
  | [] => false
  | it :: t => match snd (do_item r it) with Panic => true | _ => false end || panics (fst (do_item r it)) t
  end.

Theorem ro_run h : forall r, INV r -> DRO (fs r) -> mon_run unclean r h = false -> panics r h = false ->
  DRO (fs (run_items r h)).
Proof.
  induction h as [|it t IH]; intros r I D G P; [exact D|].
  cbn [mon_run] in G. apply orb_false_iff in G. destruct G as [G1 G2].
  cbn [panics] in P. apply orb_false_iff in P. destruct P as [P1 P2].
  rewrite run_items_cons. destruct (item_spec r it I G1) as (A1 & A2 & A3 & A4 & A5).
  apply IH; auto. apply A5; auto. intros E. rewrite E in P1. discriminate.
Qed.

(* a repository reached from an initialised one by a history outside the class *)
Definition reachable (r : repo) : Prop :=
  exists a m t h, mon_run unclean (init_repo a m t) h = false /\ r = run_items (init_repo a m t) h.

Lemma reachable_INV r : reachable r -> INV r.
Proof. intros (a & m & t & h & G & ->). apply inv_run; auto using INV_init. Qed.

Lemma reachable_step r it : reachable r -> mon_item unclean r it = false -> reachable (fst (do_item r it)).
Proof.
  intros (a & m & t & h & G & ->) Gi. exists a, m, t, (h ++ [it]). split.
  - clear -G Gi. revert Gi G. generalize (init_repo a m t) as r. induction h as [|x h IH]; intros r Gi G.
    + cbn in *. now rewrite Gi.
    + cbn [app mon_run] in *. apply orb_false_iff in G. destruct G as [G1 G2]. rewrite G1. cbn. apply IH; auto.
  - unfold run_items. now rewrite fold_left_app.
Qed.

(* I_cas: every cache object's bytes fit its address *)
Theorem cas_reachable r a c : reachable r -> obj_read (fs r) a = Some c -> fits (a_digest a) c.
Proof. intros Hr. apply FI_cas. apply (reachable_INV r Hr). Qed.

(* cache entries are regular files with read-only inodes; two addresses never share an inode *)
Theorem objects_plain r a e : reachable r -> oget (fs r) a = Some e ->
  exists i n, e = EFile i /\ iget (fs r) i = Some n /\ i_w n = false.
Proof.
  intros Hr H. destruct (reachable_INV r Hr) as [F _].
  destruct (fi_obj F _ _ H) as (i & n & A & B & C & D). eauto.
Qed.

Theorem objects_private_inodes r a1 a2 i : reachable r ->
  oget (fs r) a1 = Some (EFile i) -> oget (fs r) a2 = Some (EFile i) -> a1 = a2.
Proof. intros Hr. destruct (reachable_INV r Hr) as [F _]. apply (fi_inj F). Qed.

(* immutability: an address present before and after an item reads the same bytes *)
Theorem immutable_step r it a c c' : reachable r ->
  mon_item unclean r it = false -> mon_item alias_swap r it = false ->
  obj_read (fs r) a = Some c -> obj_read (fs (fst (do_item r it))) a = Some c' -> c = c'.
Proof.
  intros Hr G Ga H1 H2. pose proof (reachable_INV r Hr) as I.
  destruct (item_spec r it I G) as ([F' _] & _ & _ & W & _). specialize (W Ga).
  destruct I as [F _].
  apply (obj_read_spec _ _ _ F) in H1. destruct H1 as (i & n & Ho & Hi & <-).
  apply (obj_read_spec _ _ _ F') in H2. destruct H2 as (i' & n' & Ho' & Hi' & <-).
  destruct (W a i n Ho Hi) as [Hn|(i2 & n2 & K1 & K2 & K3)]; [congruence|].
  rewrite Ho' in K1. injection K1 as <-. rewrite Hi' in K2. injection K2 as <-. auto.
Qed.

(* without --force nothing in the cache is deleted, replaced or altered: entry (inode) and bytes stay *)
Theorem cache_monotone_step r it a e : reachable r -> mon_item unclean r it = false -> unforced it = true ->
  oget (fs r) a = Some e ->
  oget (fs (fst (do_item r it))) a = Some e /\ obj_read (fs (fst (do_item r it))) a = obj_read (fs r) a.
Proof.
  intros Hr G U H. pose proof (reachable_INV r Hr) as I.
  destruct (item_spec r it I G) as ([F' _] & _ & M & _ & _). destruct (M U) as [M1 M2].
  destruct I as [F _]. split; [auto|].
  destruct (fi_obj F _ _ H) as (i & n & -> & Hi & _).
  destruct (M2 a i n H Hi) as (i' & n' & K1 & K2 & K3).
  transitivity (Some (i_bytes n)); [|symmetry]; apply obj_read_spec; eauto.
Qed.

(* I_ro: in a history without panics, every object's directory is read-only (the object's inode is
   read-only in every reachable repository: objects_plain) *)
Theorem readonly_run a m t h b : mon_run unclean (init_repo a m t) h = false -> panics (init_repo a m t) h = false ->
  oget (fs (run_items (init_repo a m t) h)) b <> None ->
  dget (fs (run_items (init_repo a m t) h)) (a_digest b) = Some false.
Proof. intros G P. apply (ro_run h _ (INV_init a m t) (DRO_init a m t) G P). Qed.

(* the same statements for histories from an initialised repository *)
Lemma reachable_run a m t h : mon_run unclean (init_repo a m t) h = false -> reachable (run_items (init_repo a m t) h).
Proof. intros G. exists a, m, t, h. auto. Qed.

Theorem cas_run a m t h b c : mon_run unclean (init_repo a m t) h = false ->
  obj_read (fs (run_items (init_repo a m t) h)) b = Some c -> fits (a_digest b) c.
Proof. intros G. apply cas_reachable. now apply reachable_run. Qed.

Theorem objects_plain_run a m t h b e : mon_run unclean (init_repo a m t) h = false ->
  oget (fs (run_items (init_repo a m t) h)) b = Some e ->
  exists i n, e = EFile i /\ iget (fs (run_items (init_repo a m t) h)) i = Some n /\ i_w n = false /\
              (forall b', oget (fs (run_items (init_repo a m t) h)) b' = Some (EFile i) -> b' = b).
Proof.
  intros G H. pose proof (reachable_run a m t h G) as Hr.
  destruct (objects_plain _ _ _ Hr H) as (i & n & -> & Hi & Hw). exists i, n.
  split; [auto|split; [auto|split; [auto|]]]. intros b' Hb'. eapply objects_private_inodes; eauto.
Qed.
