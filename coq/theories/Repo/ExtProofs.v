(* Proofs about the extension of M-REPO (copy / move / remove / untrack). *)
From Coq Require Import List Bool NArith Lia.
From XV Require Import Base.Amap Base.Bytes Repo.Model Glob.Match Repo.Ext.
Import ListNotations.

(* ---- concrete material for the Examples and the refutation witnesses ------------------------- *)
Definition s_a_txt : bytes := [97; 46; 116; 120; 116].          (* a.txt *)
Definition s_b_txt : bytes := [98; 46; 116; 120; 116].          (* b.txt *)
Definition s_c_txt : bytes := [99; 46; 116; 120; 116].          (* c.txt *)
Definition s_b_dat : bytes := [98; 46; 100; 97; 116].           (* b.dat *)
Definition s_hello : bytes := [104; 101; 108; 108; 111; 10].    (* hello\n *)
Definition s_other : bytes := [111; 116; 104; 101; 114].        (* other *)
Definition t_plain : track_opts := {| t_method := None; t_tob := None; t_no_commit := false; t_force := false |}.
Definition t_with (m : method) : track_opts := {| t_method := Some m; t_tob := None; t_no_commit := false; t_force := false |}.
Definition c_plain : copy_opts := {| c_as := None; c_cforce := false; c_no_recheck := false; c_name_only := false |}.
Definition m_plain : move_opts := {| m_as := None; m_no_recheck := false |}.
Definition r0 : xrepo := xinit B3 Copy Auto.
(* ---- decidable equalities ---------------------------------------------------------------------- *)
Lemma algo_eqb_spec a b : reflect (a = b) (algo_eqb a b).
Proof. destruct a, b; cbn; constructor; congruence. Qed.
Lemma digest_eqb_spec a b : reflect (a = b) (digest_eqb a b).
Proof.
  destruct a as [a1 n1], b as [a2 n2]; unfold digest_eqb; cbn [d_algo d_norm].
  destruct (algo_eqb_spec a1 a2) as [->|H]; cbn [andb]; [|constructor; congruence].
  destruct (beqb_spec n1 n2) as [->|H]; constructor; congruence.
Qed.
Lemma caddr_eqb_spec a b : reflect (a = b) (caddr_eqb a b).
Proof.
  destruct a as [d1 e1], b as [d2 e2]; unfold caddr_eqb; cbn [a_digest a_ext].
  destruct (digest_eqb_spec d1 d2) as [->|H]; cbn [andb]; [|constructor; congruence].
  destruct (beqb_spec e1 e2) as [->|H]; constructor; congruence.
Qed.
Lemma Neqb_sp a b : reflect (a = b) (N.eqb a b).
Proof. apply N.eqb_spec. Qed.

(* ---- the file system: reads of the accessors after the updates ----------------------------------- *)
Lemma wget_wput f p e q : wget (wput f p e) q = if beqb p q then Some e else wget f q.
Proof. unfold wget, wput, set_ws; cbn [ws]. apply (@get_put _ _ _ beqb_spec). Qed.
Lemma wget_wdel f p q : wget (wdel f p) q = if beqb p q then None else wget f q.
Proof. unfold wget, wdel, set_ws; cbn [ws]. apply (@get_del _ _ _ beqb_spec). Qed.
Lemma oget_odel f a b : oget (odel f a) b = if caddr_eqb a b then None else oget f b.
Proof. unfold oget, odel, set_objs; cbn [objs]. apply (@get_del _ _ _ caddr_eqb_spec). Qed.
Lemma iget_iput f i n j : iget (iput f i n) j = if N.eqb i j then Some n else iget f j.
Proof. unfold iget, iput, set_inodes; cbn [inodes]. apply (@get_put _ _ _ Neqb_sp). Qed.

(* the inode table only has numbers below next_ino: what fresh_ino returns is unused *)
Definition wf_fs (f : fsys) : Prop := forall i n, iget f i = Some n -> (i < next_ino f)%N.

(* the cache object at address a is a regular file with bytes c *)
Definition holds (f : fsys) (a : caddr) (c : bytes) : Prop :=
  exists i n, oget f a = Some (EFile i) /\ iget f i = Some n /\ i_bytes n = c.

Lemma holds_obj_read f a c : holds f a c -> obj_read f a = Some c.
Proof.
  intros (i & n & Ho & Hi & Hb). unfold obj_read, read_entry. rewrite Ho. cbn [resolve link_fuel]. rewrite Hi. now rewrite Hb.
Qed.

(* what a step leaves alone: the object table, the object directories, every existing inode *)
Record fs_frame (f f' : fsys) : Prop := {
  fr_objs : objs f' = objs f;
  fr_dirw : dirw f' = dirw f;
  fr_inodes : forall i n, iget f i = Some n -> iget f' i = Some n;
  fr_next : (next_ino f <= next_ino f')%N;
  fr_wf : wf_fs f'
}.
Lemma fs_frame_refl f : wf_fs f -> fs_frame f f.
Proof. intros; constructor; auto; lia. Qed.
Lemma fs_frame_trans f g h : fs_frame f g -> fs_frame g h -> fs_frame f h.
Proof.
  intros [A B C D E] [A' B' C' D' E']; constructor; try congruence; auto. lia.
Qed.
Lemma frame_holds f f' a c : fs_frame f f' -> holds f a c -> holds f' a c.
Proof.
  intros [A B Ci D E] (i & n & Ho & Hi & Hb). exists i, n. unfold oget in *. rewrite A. auto.
Qed.
Lemma frame_oget f f' a : fs_frame f f' -> oget f' a = oget f a.
Proof. intros [A B Ci D E]; unfold oget; now rewrite A. Qed.

(* ws-only updates *)
Lemma frame_wdel f p : wf_fs f -> fs_frame f (wdel f p).
Proof. intros W; constructor; cbn; auto; lia. Qed.
Lemma frame_wput f p e : wf_fs f -> fs_frame f (wput f p e).
Proof. intros W; constructor; cbn; auto; lia. Qed.

(* ---- recheck_from_cache ---------------------------------------------------------------------------- *)
Ltac dm := match goal with |- context [match ?x with _ => _ end] => destruct x eqn:? end.
Ltac inv H := injection H as <- <- || injection H; intros; subst.

Lemma wf_tick f : wf_fs f -> wf_fs (tick f).
Proof. intros W i n; cbn. apply W. Qed.

Lemma fresh_copy_frame f p c :
  wf_fs f ->
  let i := next_ino f in
  let f1 := snd (fresh_ino (tick f)) in
  fs_frame f (wput (iput f1 i {| i_bytes := c; i_w := true; i_mt := clock f1 |}) p (EFile i)).
Proof.
  intros W i f1. constructor; cbn; auto.
  - intros j n Hj. unfold iget; cbn [inodes iput set_inodes wput set_ws].
    change (get N.eqb (put N.eqb N.ltb (inodes f) (next_ino f) {| i_bytes := c; i_w := true; i_mt := N.succ (clock f) |}) j = Some n).
    rewrite (@get_put _ _ _ Neqb_sp). destruct (N.eqb_spec (next_ino f) j) as [E|E]; [|exact Hj].
    apply W in Hj. lia.
  - lia.
  - intros j n. unfold iget; cbn [inodes iput set_inodes wput set_ws next_ino].
    change (get N.eqb (put N.eqb N.ltb (inodes f) (next_ino f) {| i_bytes := c; i_w := true; i_mt := N.succ (clock f) |}) j = Some n -> (j < N.succ (next_ino f))%N).
    rewrite (@get_put _ _ _ Neqb_sp). destruct (N.eqb_spec (next_ino f) j) as [E|E]; intros H.
    + lia.
    + apply W in H. lia.
Qed.

Lemma rfc_frame f p a m f' oc :
  wf_fs f -> recheck_from_cache f p a m = (f', oc) ->
  fs_frame f f' /\ (forall q, q <> p -> wget f' q = wget f q).
Proof.
  intros W. unfold recheck_from_cache. cbv zeta.
  set (f0 := if ws_exists f p then wdel f p else f).
  assert (F0 : fs_frame f f0) by (unfold f0; destruct (ws_exists f p); [apply frame_wdel | apply fs_frame_refl]; auto).
  assert (W0 : forall q, q <> p -> wget f0 q = wget f q).
  { intros q Hq; unfold f0; destruct (ws_exists f p); auto. rewrite wget_wdel. destruct (beqb_spec p q); congruence. }
  assert (Wf0 : wf_fs f0) by (destruct F0; auto).
  assert (PUT : forall e, fs_frame f (wput f0 p e) /\ (forall q, q <> p -> wget (wput f0 p e) q = wget f q)).
  { intros e; split; [eapply fs_frame_trans; [exact F0| apply frame_wput; auto]|].
    intros q Hq. rewrite wget_wput. destruct (beqb_spec p q); [congruence|auto]. }
  destruct m.
  1,4: (destruct (obj_read f0 a) as [c|]; [|intros H; inv H; auto];
        assert (CP : forall f'' oc', (let '(i, f1) := fresh_ino (tick f0) in
                   (wput (iput f1 i {| i_bytes := c; i_w := true; i_mt := clock f1 |}) p (EFile i), Ok)) = (f'', oc') ->
                   fs_frame f f'' /\ (forall q, q <> p -> wget f'' q = wget f q));
        [ intros f'' oc' H; cbn [fresh_ino tick next_ino] in H; inv H; split;
          [ eapply fs_frame_trans; [exact F0|]; apply (fresh_copy_frame f0 p c Wf0)
          | intros q Hq; rewrite wget_wput; destruct (beqb_spec p q); [congruence|]; change (wget f0 q = wget f q); auto ]
        | destruct (wget f0 p) as [[j|b]|]; [apply CP | intros H; inv H; auto | apply CP] ]).
  - destruct (wget f0 p) as [e0|]; [intros H; inv H; auto|].
    destruct (oget f0 a) as [[i|b]|]; intros H; inv H; auto; apply PUT.
  - destruct (wget f0 p) as [e0|]; intros H; inv H; auto; apply PUT.
Qed.

Lemma resolve_objs f f' k e : objs f' = objs f -> resolve f' k e = resolve f k e.
Proof.
  intros E; revert e; induction k as [|k IH]; intros [i|b]; cbn [resolve]; auto.
  unfold oget; rewrite E. destruct (get caddr_eqb (objs f) b); auto.
Qed.
Lemma resolve_file f k i : resolve f k (EFile i) = Some i.
Proof. destruct k; reflexivity. Qed.

Lemma holds_frame0 f p a c : wf_fs f -> holds f a c -> holds (if ws_exists f p then wdel f p else f) a c.
Proof. intros W H; destruct (ws_exists f p); exact H. Qed.

Lemma ws_read_wput_file g p i n c :
  iget g i = Some n -> i_bytes n = c -> ws_read (wput g p (EFile i)) p = Some c.
Proof.
  intros Hi Hb. unfold ws_read. rewrite wget_wput, beqb_refl. unfold read_entry. rewrite resolve_file.
  change (iget (wput g p (EFile i)) i) with (iget g i). rewrite Hi. now rewrite Hb.
Qed.

(* a successful recheck makes the path read the bytes of the object *)
Lemma rfc_reads f p a m f' c :
  wf_fs f -> holds f a c -> recheck_from_cache f p a m = (f', Ok) -> ws_read f' p = Some c.
Proof.
  intros W H. unfold recheck_from_cache. cbv zeta.
  pose proof (holds_frame0 f p a c W H) as H0.
  set (f0 := if ws_exists f p then wdel f p else f) in *.
  destruct H0 as (i & n & Ho & Hi & Hb).
  assert (R : obj_read f0 a = Some c) by (apply holds_obj_read; exists i, n; auto).
  destruct m.
  1,4: (rewrite R;
        assert (CP : forall f'', (let '(j, f1) := fresh_ino (tick f0) in
                   (wput (iput f1 j {| i_bytes := c; i_w := true; i_mt := clock f1 |}) p (EFile j), Ok)) = (f'', Ok) ->
                   ws_read f'' p = Some c);
        [ intros f'' E; cbn [fresh_ino tick next_ino] in E; injection E as <-;
          eapply ws_read_wput_file; [rewrite iget_iput, N.eqb_refl; reflexivity | reflexivity]
        | destruct (wget f0 p) as [[j|b]|]; [apply CP | discriminate | apply CP] ]).
  - destruct (wget f0 p); [discriminate|]. rewrite Ho. intros E; injection E as <-.
    eapply ws_read_wput_file; eauto.
  - destruct (wget f0 p); [discriminate|]. intros E; injection E as <-.
    unfold ws_read. rewrite wget_wput, beqb_refl. unfold read_entry, link_fuel. cbn [resolve].
    change (oget (wput f0 p (ELink a)) a) with (oget f0 a). rewrite Ho.
    change (iget (wput f0 p (ELink a)) i) with (iget f0 i). rewrite Hi. now rewrite Hb.
Qed.

(* ... and as a copy it is a fresh, writable, private inode *)
Lemma rfc_copy_entry f p a f' c :
  wf_fs f -> holds f a c -> recheck_from_cache f p a Copy = (f', Ok) ->
  wget f' p = Some (EFile (next_ino f)) /\
  iget f' (next_ino f) = Some {| i_bytes := c; i_w := true; i_mt := N.succ (clock f) |} /\
  next_ino f' = N.succ (next_ino f).
Proof.
  intros W H. unfold recheck_from_cache. cbv zeta.
  pose proof (holds_frame0 f p a c W H) as H0.
  assert (NX : next_ino (if ws_exists f p then wdel f p else f) = next_ino f) by (destruct (ws_exists f p); reflexivity).
  assert (CK : clock (if ws_exists f p then wdel f p else f) = clock f) by (destruct (ws_exists f p); reflexivity).
  set (f0 := if ws_exists f p then wdel f p else f) in *.
  rewrite (holds_obj_read _ _ _ H0).
  assert (CP : forall f'', (let '(j, f1) := fresh_ino (tick f0) in
                   (wput (iput f1 j {| i_bytes := c; i_w := true; i_mt := clock f1 |}) p (EFile j), Ok)) = (f'', Ok) ->
                   wget f'' p = Some (EFile (next_ino f)) /\
                   iget f'' (next_ino f) = Some {| i_bytes := c; i_w := true; i_mt := N.succ (clock f) |} /\
                   next_ino f'' = N.succ (next_ino f)).
  { intros f'' E; cbn [fresh_ino tick next_ino clock] in E; injection E as <-. rewrite NX, CK.
    split; [rewrite wget_wput, beqb_refl; reflexivity|]. split; [|reflexivity].
    change (iget (iput (snd (fresh_ino (tick f0))) (next_ino f) {| i_bytes := c; i_w := true; i_mt := N.succ (clock f) |}) (next_ino f) = Some {| i_bytes := c; i_w := true; i_mt := N.succ (clock f) |}).
    rewrite iget_iput, N.eqb_refl. reflexivity. }
  destruct (wget f0 p) as [[j|b]|]; [apply CP | discriminate | apply CP].
Qed.

(* when it succeeds: the object is there and no dangling link sits at the path *)
Lemma rfc_succeeds f p a m c :
  wf_fs f -> holds f a c -> (ws_exists f p = true \/ wget f p = None) ->
  exists f', recheck_from_cache f p a m = (f', Ok).
Proof.
  intros W H Hp. unfold recheck_from_cache. cbv zeta.
  pose proof (holds_frame0 f p a c W H) as H0.
  assert (N0 : wget (if ws_exists f p then wdel f p else f) p = None).
  { destruct (ws_exists f p) eqn:E; [rewrite wget_wdel, beqb_refl; reflexivity|]. destruct Hp; [discriminate|auto]. }
  set (f0 := if ws_exists f p then wdel f p else f) in *.
  destruct H0 as (i & n & Ho & Hi & Hb).
  assert (R : obj_read f0 a = Some c) by (apply holds_obj_read; exists i, n; auto).
  destruct m; rewrite ?R, N0, ?Ho; cbn [fresh_ino tick]; eauto.
Qed.

(* ---- records ------------------------------------------------------------------------------------------ *)
Definition paths_unique (l : list (N * frec)) : Prop :=
  forall e1 x1 e2 x2, In (e1, x1) l -> In (e2, x2) l -> r_path x1 = r_path x2 -> e1 = e2.
Record wf_recs (b : repo) : Prop := {
  wk : NoDup (keys (recs b));
  wp : paths_unique (recs b);
  we : forall e x, In (e, x) (recs b) -> (e < next_ent b)%N
}.

Lemma find_path_In l p e x : find_path l p = Some (e, x) -> In (e, x) l /\ r_path x = p.
Proof.
  induction l as [|[e0 x0] t IH]; cbn; [discriminate|].
  destruct (beqb_spec (r_path x0) p) as [E|E].
  - intros H; injection H as <- <-. auto.
  - intros H; destruct (IH H); auto.
Qed.
Lemma find_path_None l p : find_path l p = None -> forall e x, In (e, x) l -> r_path x <> p.
Proof.
  induction l as [|[e0 x0] t IH]; cbn; [tauto|].
  destruct (beqb_spec (r_path x0) p) as [E|E]; [discriminate|].
  intros H e x [I|I]; [injection I as <- <-; auto | eauto].
Qed.
Lemma find_path_some_of_In l p e x : In (e, x) l -> r_path x = p -> exists ex, find_path l p = Some ex.
Proof.
  intros I E. destruct (find_path l p) eqn:F; [eauto|]. exfalso. eapply find_path_None; eauto.
Qed.
Lemma In_get {V} (l : list (N * V)) e x : NoDup (keys l) -> (In (e, x) l <-> get N.eqb l e = Some x).
Proof. intros ND; split; [apply (@In_get_nodup _ _ _ Neqb_sp); auto | apply (@get_In _ _ _ Neqb_sp)]. Qed.
Lemma find_path_unique b p e x :
  wf_recs b -> In (e, x) (recs b) -> r_path x = p -> find_path (recs b) p = Some (e, x).
Proof.
  intros [K P _] I E. destruct (find_path_some_of_In _ _ _ _ I E) as [[e' x'] F].
  destruct (find_path_In _ _ _ _ F) as [I' E'].
  assert (e' = e) by (eapply P; eauto; congruence). subst e'.
  apply (In_get _ _ _ K) in I. apply (In_get _ _ _ K) in I'. rewrite F. congruence.
Qed.

Lemma In_put {V} (l : list (N * V)) e y k v : NoDup (keys l) ->
  (In (k, v) (put N.eqb N.ltb l e y) <-> (k = e /\ v = y) \/ (k <> e /\ In (k, v) l)).
Proof.
  intros ND. rewrite (In_get _ _ _ (@nodup_put _ _ _ Neqb_sp N.ltb l e y ND)), (In_get _ _ _ ND).
  rewrite (@get_put _ _ _ Neqb_sp). destruct (N.eqb_spec e k) as [<-|Hne].
  - split; [intros H; injection H as <-; auto | intros [[_ ->]|[H _]]; [auto|congruence]].
  - split; [intros H; right; split; [congruence|auto] | intros [[H _]|[_ H]]; [congruence|auto]].
Qed.
Lemma length_put_existing (l : list (N * frec)) e y x : NoDup (keys l) -> In (e, x) l ->
  length (put N.eqb N.ltb l e y) = length l.
Proof.
  intros ND I. unfold put.
  assert (LI : forall m, length (ins_sorted N.ltb m e y) = S (length m)).
  { induction m as [|[k v] t IH]; cbn; auto. destruct (N.ltb e k); cbn; auto. }
  rewrite LI. clear LI. revert ND I. induction l as [|[k v] t IH]; cbn; [tauto|].
  intros ND [I|I].
  - injection I as -> ->. rewrite N.eqb_refl. inversion ND as [|? ? Hn ND']; subst.
    assert (D : del N.eqb t e = t).
    { clear -Hn. induction t as [|[k v] t IH]; cbn; auto. cbn in Hn.
      destruct (N.eqb_spec k e) as [->|]; [tauto|]. f_equal. apply IH. tauto. }
    now rewrite D.
  - inversion ND as [|? ? Hn ND']; subst. destruct (N.eqb_spec k e) as [->|Hne].
    + exfalso. apply Hn. change e with (fst (e, x)). now apply in_map.
    + cbn. f_equal. rewrite <- (IH ND' I). reflexivity.
Qed.

Lemma wf_recs_ext b b' : recs b' = recs b -> (next_ent b <= next_ent b')%N -> wf_recs b -> wf_recs b'.
Proof.
  intros E L [K P F]; constructor; rewrite ?E; auto. intros e x I. specialize (F e x I). lia.
Qed.

(* add_parent_dirs only creates directory records (and consumes entity numbers) *)
Lemma add_parent_dirs_base r p :
  recs (base (add_parent_dirs r p)) = recs (base r) /\ fs (base (add_parent_dirs r p)) = fs (base r) /\
  (next_ent (base r) <= next_ent (base (add_parent_dirs r p)))%N.
Proof.
  unfold add_parent_dirs. generalize (parents p) as l. intros l; revert r.
  induction l as [|q t IH]; intros r; cbn [fold_left]; [repeat split; lia|].
  match goal with |- context [fold_left ?f t ?r1] => specialize (IH r1) end.
  destruct (stored r q); [exact IH|].
  cbn [base set_next_ent recs fs next_ent] in IH. destruct IH as (A & B & C). repeat split; auto. lia.
Qed.

(* ---- copy: the records ------------------------------------------------------------------------------------ *)
Definition plan_acc (l : list (N * frec)) (c : cpair) : Prop :=
  match cd_ent c with
  | Some e => exists y, In (e, y) l /\ r_path y = cd_path c
  | None => forall e y, In (e, y) l -> r_path y <> cd_path c
  end.
Definition copied_as (o : copy_opts) (x y : frec) (d : path) : Prop :=
  r_path y = d /\ (forall dg, r_digest x = Some dg -> r_digest y = Some dg) /\ r_tob y = r_tob x /\
  r_method y = match c_as o with Some m => m | None => r_method x end /\ r_meta y = r_meta x.

Lemma plan_pair_acc r x d : plan_acc (recs (base r)) (plan_pair r x d).
Proof.
  unfold plan_acc, plan_pair; cbn [cd_ent cd_path].
  destruct (find_path (recs (base r)) d) as [[e y]|] eqn:F.
  - destruct (find_path_In _ _ _ _ F); eauto.
  - apply find_path_None; auto.
Qed.

Lemma copy_records_one_spec o r c :
  wf_recs (base r) -> plan_acc (recs (base r)) c ->
  let r' := copy_records_one o r c in
  wf_recs (base r') /\ xfs r' = xfs r /\
  (exists e y, In (e, y) (recs (base r')) /\ copied_as o (cs_rec c) y (cd_path c)) /\
  (forall e y, r_path y <> cd_path c -> (In (e, y) (recs (base r')) <-> In (e, y) (recs (base r)))).
Proof.
  intros W A. destruct W as [K P F]. unfold copy_records_one. cbv zeta.
  set (x := cs_rec c). set (b := base r).
  destruct (cd_ent c) as [e|] eqn:CE; unfold plan_acc in A; rewrite CE in A.
  - (* the destination entity is reused *)
    destruct A as (y0 & I0 & E0).
    match goal with |- context [mk_frec ?a1 ?a2 ?a3 ?a4 ?a5 ?a6] => set (y := mk_frec a1 a2 a3 a4 a5 a6) end.
    match goal with |- context [add_parent_dirs ?rr _] => set (r1 := rr) end.
    destruct (add_parent_dirs_base r1 (cd_path c)) as (R & Fs & Nx).
    assert (R1 : recs (base r1) = put N.eqb N.ltb (recs b) e y) by reflexivity.
    assert (INP : forall k v, In (k, v) (recs (base (add_parent_dirs r1 (cd_path c)))) <-> (k = e /\ v = y) \/ (k <> e /\ In (k, v) (recs b))).
    { intros; rewrite R, R1. apply In_put; auto. }
    split; [|split; [|split]].
    + apply (wf_recs_ext (base r1)); auto. constructor.
      * rewrite R1. apply (@nodup_put _ _ _ Neqb_sp); auto.
      * rewrite R1. intros e1 x1 e2 x2 I1 I2 EP. apply In_put in I1; auto. apply In_put in I2; auto.
        destruct I1 as [[-> ->]|[N1 I1]], I2 as [[-> ->]|[N2 I2]]; auto.
        -- symmetry. eapply P; [exact I2|exact I0|]. cbn in EP. congruence.
        -- eapply P; [exact I1|exact I0|]. cbn in EP. congruence.
        -- eapply P; eauto.
      * rewrite R1. intros k v I. apply In_put in I; auto. change (next_ent (base r1)) with (next_ent b).
        destruct I as [[-> ->]|[_ I]]; eauto.
    + unfold xfs. rewrite Fs. reflexivity.
    + exists e, y. split; [apply INP; auto|]. unfold copied_as, y; cbn. repeat split; auto.
      intros dg ->; reflexivity.
    + intros k v NP. rewrite INP. split.
      * intros [[-> ->]|[_ I]]; [cbn in NP; congruence|auto].
      * intros I. right. split; auto. intros ->. apply NP. 
        apply (In_get _ _ _ K) in I. apply (In_get _ _ _ K) in I0. congruence.
  - (* a new entity *)
    match goal with |- context [mk_frec ?a1 ?a2 ?a3 ?a4 ?a5 ?a6] => set (y := mk_frec a1 a2 a3 a4 a5 a6) end.
    match goal with |- context [add_parent_dirs ?rr _] => set (r1 := rr) end.
    destruct (add_parent_dirs_base r1 (cd_path c)) as (R & Fs & Nx).
    set (e := next_ent b) in *.
    assert (R1 : recs (base r1) = put N.eqb N.ltb (recs b) e y) by reflexivity.
    assert (NE : forall v, ~ In (e, v) (recs b)) by (intros v I; apply F in I; unfold e, b in I; lia).
    assert (INP : forall k v, In (k, v) (recs (base (add_parent_dirs r1 (cd_path c)))) <-> (k = e /\ v = y) \/ (k <> e /\ In (k, v) (recs b))).
    { intros; rewrite R, R1. apply In_put; auto. }
    split; [|split; [|split]].
    + apply (wf_recs_ext (base r1)); auto. constructor.
      * rewrite R1. apply (@nodup_put _ _ _ Neqb_sp); auto.
      * rewrite R1. intros e1 x1 e2 x2 I1 I2 EP. apply In_put in I1; auto. apply In_put in I2; auto.
        destruct I1 as [[-> ->]|[N1 I1]], I2 as [[-> ->]|[N2 I2]]; auto.
        -- exfalso. eapply A; [exact I2|]. cbn in EP. congruence.
        -- exfalso. eapply A; [exact I1|]. cbn in EP. congruence.
        -- eapply P; eauto.
      * rewrite R1. intros k v I. apply In_put in I; auto. change (next_ent (base r1)) with (N.succ e).
        destruct I as [[-> ->]|[_ I]]; [lia|]. apply F in I. unfold e, b. lia.
    + unfold xfs. rewrite Fs. reflexivity.
    + exists e, y. split; [apply INP; auto|]. unfold copied_as, y; cbn. repeat split; auto.
      intros dg ->; reflexivity.
    + intros k v NP. rewrite INP. split.
      * intros [[-> ->]|[_ I]]; [cbn in NP; congruence|auto].
      * intros I. right. split; auto. intros ->. eapply NE; eauto.
Qed.

Lemma plan_acc_transfer l l' c :
  (forall e y, r_path y = cd_path c -> (In (e, y) l' <-> In (e, y) l)) -> plan_acc l c -> plan_acc l' c.
Proof.
  intros T. unfold plan_acc. destruct (cd_ent c) as [e|].
  - intros (y & I & E). exists y. split; auto. apply T; auto.
  - intros H e y I E. apply (H e y); auto. apply T; auto.
Qed.

Lemma copy_records_spec o plan : forall r,
  wf_recs (base r) -> NoDup (map cd_path plan) -> (forall c, In c plan -> plan_acc (recs (base r)) c) ->
  let r' := fold_left (copy_records_one o) plan r in
  wf_recs (base r') /\ xfs r' = xfs r /\
  (forall c, In c plan -> exists e y, In (e, y) (recs (base r')) /\ copied_as o (cs_rec c) y (cd_path c)) /\
  (forall e y, ~ In (r_path y) (map cd_path plan) -> (In (e, y) (recs (base r')) <-> In (e, y) (recs (base r)))).
Proof.
  induction plan as [|c t IH]; intros r W ND A; cbn [fold_left].
  - split; [exact W|]. split; [reflexivity|]. split; [intros c []|tauto].
  - cbn [map] in ND. inversion ND as [|? ? Hn ND']; subst.
    destruct (copy_records_one_spec o r c W (A c (or_introl eq_refl))) as (W1 & F1 & (e & y & I1 & C1) & O1).
    set (r1 := copy_records_one o r c) in *.
    assert (A1 : forall c', In c' t -> plan_acc (recs (base r1)) c').
    { intros c' I'. apply (plan_acc_transfer (recs (base r))); [|apply A; now right].
      intros e' y' E'. apply O1. rewrite E'. intros EQ. apply Hn. rewrite <- EQ. now apply in_map. }
    destruct (IH r1 W1 ND' A1) as (W2 & F2 & C2 & O2).
    split; [exact W2|]. split; [congruence|]. split.
    + intros c' [<-|I']; [|auto]. exists e, y. split; auto. apply O2; auto.
      destruct C1 as (EP & _). now rewrite EP.
    + intros e' y' NI. cbn [map In] in NI. rewrite O2 by tauto. apply O1. intros EQ; apply NI; left; congruence.
Qed.

(* ---- recheck_dests -------------------------------------------------------------------------------------------- *)
Lemma ws_read_frame f f' p c :
  fs_frame f f' -> wget f' p = wget f p -> ws_read f p = Some c -> ws_read f' p = Some c.
Proof.
  intros [A B Ci D E] Hw. unfold ws_read. rewrite Hw. destruct (wget f p) as [en|]; [|discriminate].
  unfold read_entry. rewrite (resolve_objs f f' link_fuel en A).
  destruct (resolve f link_fuel en) as [i|]; [|discriminate].
  destruct (iget f i) as [n|] eqn:Hi; [|discriminate]. now rewrite (Ci _ _ Hi).
Qed.
Lemma ws_exists_frame f f' p :
  fs_frame f f' -> wget f' p = wget f p -> ws_exists f' p = ws_exists f p.
Proof.
  intros [A B Ci D E] Hw. unfold ws_exists. rewrite Hw. destruct (wget f p) as [en|]; auto.
  now rewrite (resolve_objs f f' link_fuel en A).
Qed.

Ltac rsplit := repeat match goal with |- _ /\ _ => split end.

Lemma recheck_dests_spec : forall ps r r' oc,
  wf_fs (xfs r) -> recheck_dests r ps = (r', oc) ->
  recs (base r') = recs (base r) /\ next_ent (base r') = next_ent (base r) /\ dirs r' = dirs r /\
  fs_frame (xfs r) (xfs r') /\
  (forall q, ~ In q ps -> wget (xfs r') q = wget (xfs r) q) /\
  (oc = Ok -> NoDup ps -> forall p e x d c, In p ps -> find_path (recs (base r)) p = Some (e, x) ->
     r_digest x = Some d -> holds (xfs r) (cache_addr p d) c -> ws_read (xfs r') p = Some c).
Proof.
  induction ps as [|p t IH]; intros r r' oc W; cbn [recheck_dests].
  - intros E; injection E as <- <-. rsplit; auto using fs_frame_refl. intros _ _ p e x d c [].
  - assert (TRIV : forall oc', oc' <> Ok -> (r, oc') = (r', oc) ->
        recs (base r') = recs (base r) /\ next_ent (base r') = next_ent (base r) /\ dirs r' = dirs r /\
        fs_frame (xfs r) (xfs r') /\ (forall q, ~ In q (p :: t) -> wget (xfs r') q = wget (xfs r) q) /\
        (oc = Ok -> NoDup (p :: t) -> forall p0 e x d c, In p0 (p :: t) -> find_path (recs (base r)) p0 = Some (e, x) ->
           r_digest x = Some d -> holds (xfs r) (cache_addr p0 d) c -> ws_read (xfs r') p0 = Some c)).
    { intros oc' NO E; injection E as <- <-. rsplit; auto using fs_frame_refl. intros ->; congruence. }
    destruct (find_path (recs (base r)) p) as [[e0 x0]|] eqn:FP; [|apply TRIV; discriminate].
    destruct (r_digest x0) as [d0|] eqn:RD; [|apply TRIV; discriminate].
    destruct (recheck_from_cache (xfs r) p (cache_addr p d0) (r_method x0)) as [f1 oc1] eqn:RF.
    destruct (rfc_frame _ _ _ _ _ _ W RF) as (FR & WS).
    assert (W1 : wf_fs f1) by (destruct FR; auto).
    destruct oc1.
    + (* this destination is done, the others follow *)
      intros E. specialize (IH (set_xfs r f1) r' oc W1 E).
      destruct IH as (R & NX & DS & FR' & WS' & RD').
      change (xfs (set_xfs r f1)) with f1 in *. change (recs (base (set_xfs r f1))) with (recs (base r)) in *.
      rsplit; auto.
      * eapply fs_frame_trans; eauto.
      * intros q NI. cbn [In] in NI. rewrite WS' by tauto. apply WS. intros ->; tauto.
      * intros OK ND p0 e x d c IN FP0 RD0 H. inversion ND as [|? ? Hn ND']; subst.
        destruct IN as [<-|IN].
        -- rewrite FP in FP0. injection FP0 as <- <-. rewrite RD in RD0. injection RD0 as <-.
           eapply ws_read_frame; [exact FR'|apply WS'; auto|]. exact (rfc_reads (xfs r) p (cache_addr p d0) (r_method x0) f1 c W H RF).
        -- eapply RD'; eauto. eapply frame_holds; eauto.
    + intros E; injection E as <- <-. change (xfs (set_xfs r f1)) with f1. rsplit; auto.
      * intros q NI. apply WS. intros ->; apply NI; now left.
      * discriminate.
    + intros E; injection E as <- <-. change (xfs (set_xfs r f1)) with f1. rsplit; auto.
      * intros q NI. apply WS. intros ->; apply NI; now left.
      * discriminate.
Qed.

Lemma recheck_dests_oc : forall ps r r' oc, recheck_dests r ps = (r', oc) -> oc = Ok \/ oc = Panic.
Proof.
  induction ps as [|p t IH]; intros r r' oc; cbn [recheck_dests].
  - intros E; injection E as <- <-; auto.
  - destruct (find_path (recs (base r)) p) as [[e0 x0]|]; [|intros E; injection E as <- <-; auto].
    destruct (r_digest x0); [|intros E; injection E as <- <-; auto].
    destruct (recheck_from_cache (xfs r) p (cache_addr p d) (r_method x0)) as [f1 [| |]]; eauto;
      intros E; injection E as <- <-; auto.
Qed.

Lemma same_ext_same_addr p q d : extension p = extension q -> cache_addr p d = cache_addr q d.
Proof. unfold cache_addr; intros ->; reflexivity. Qed.

(* ---- copy: the command ------------------------------------------------------------------------------------------ *)
Definition copy_result (o : copy_opts) (r r' : xrepo) (oc : outcome) (c : cpair) : Prop :=
  exists e y, In (e, y) (recs (base r')) /\ copied_as o (cs_rec c) y (cd_path c) /\
  forall dg, r_digest (cs_rec c) = Some dg -> extension (cd_path c) = extension (r_path (cs_rec c)) ->
    cache_addr (cd_path c) dg = cache_addr (r_path (cs_rec c)) dg /\
    (c_no_recheck o = false -> oc <> Panic ->
     forall b, holds (xfs r) (cache_addr (r_path (cs_rec c)) dg) b -> ws_read (xfs r') (cd_path c) = Some b).

Lemma copy_apply_shares o r plan skipped r' oc :
  wf_fs (xfs r) -> wf_recs (base r) -> NoDup (map cd_path plan) ->
  (forall c, In c plan -> plan_acc (recs (base r)) c) ->
  copy_apply o r plan skipped = (r', oc) ->
  objs (xfs r') = objs (xfs r) /\ (forall a b, holds (xfs r) a b -> holds (xfs r') a b) /\
  wf_recs (base r') /\ wf_fs (xfs r') /\
  (forall e y, ~ In (r_path y) (map cd_path plan) -> (In (e, y) (recs (base r')) <-> In (e, y) (recs (base r)))) /\
  (forall q, ~ In q (map cd_path plan) -> wget (xfs r') q = wget (xfs r) q) /\
  forall c, In c plan -> copy_result o r r' oc c.
Proof.
  intros Wf Wr ND A. unfold copy_apply.
  destruct (copy_records_spec o plan r Wr ND A) as (W1 & F1 & C1 & O1).
  set (r1 := fold_left (copy_records_one o) plan r) in *.
  destruct (c_no_recheck o) eqn:NR.
  - intros E; injection E as <- <-. rewrite F1. rsplit; auto.
    intros c I. destruct (C1 c I) as (e & y & IN & CA). exists e, y. rsplit; auto.
    intros dg RD EX. split; [apply same_ext_same_addr; auto|intros X; congruence].
  - destruct (recheck_dests r1 (map cd_path plan)) as [r2 oc2] eqn:RDs. intros E; injection E as <- <-.
    assert (Wf1 : wf_fs (xfs r1)) by (rewrite F1; auto).
    destruct (recheck_dests_spec _ _ _ _ Wf1 RDs) as (R & NX & DS & FR & WS & RD).
    rewrite F1 in FR, WS.
    assert (W2 : wf_recs (base r2)) by (apply (wf_recs_ext (base r1)); auto; lia).
    rsplit; auto.
    + destruct FR; auto.
    + intros a b H. eapply frame_holds; eauto.
    + destruct FR; auto.
    + intros e y NI. rewrite R. auto.
    + intros c I. destruct (C1 c I) as (e & y & IN & CA). exists e, y. rewrite R. rsplit; auto.
      intros dg RDG EX. split; [apply same_ext_same_addr; auto|]. intros _ NP b H.
      destruct (recheck_dests_oc _ _ _ _ RDs) as [-> | ->]; [|destruct skipped; cbn in NP; congruence].
      destruct CA as (EP & DG & _).
      eapply (RD eq_refl ND (cd_path c) e y dg b); [now apply in_map| apply find_path_unique; auto| auto|].
      rewrite F1. rewrite (same_ext_same_addr _ _ dg EX). exact H.
Qed.

(* what copy_plan plans: accurate pairs whose sources are selected, recorded files *)
Lemma copy_plan_pairs o src dst r plan sk :
  copy_plan o src dst r = CPlanned plan sk ->
  forall c, In c plan -> plan_acc (recs (base r)) c /\ (exists e, In (e, cs_rec c) (sources r src)) /\
                         changed r (cs_rec c) = false /\
                         cd_path c = (if ends_slash dst then dest_path (c_name_only o) (removelast dst) (cs_rec c) else dst) /\
                         (c_cforce o = false -> pair_taken c = false /\ ws_lexists (xfs r) (cd_path c) = false).
Proof.
  unfold copy_plan.
  assert (SRC : forall x, In x (map snd (sources r src)) -> exists e, In (e, x) (sources r src)).
  { intros x I. apply in_map_iff in I. destruct I as ([e x'] & <- & I). eauto. }
  assert (CHK : forall pl s, copy_checked o r pl s = CPlanned plan sk ->
                pl = plan /\ s = sk /\ (c_cforce o = false -> forall c, In c plan -> pair_taken c = false -> ws_lexists (xfs r) (cd_path c) = false)).
  { intros pl s. unfold copy_checked. destruct (negb (c_cforce o) && untracked_dest_exists r pl) eqn:U; [discriminate|].
    intros E; injection E as <- <-. rsplit; auto. intros NF c I NT. rewrite NF in U. cbn in U.
    destruct (ws_lexists (xfs r) (cd_path c)) eqn:L; auto.
    assert (untracked_dest_exists r pl = true) by (apply existsb_exists; exists c; split; auto; rewrite NT, L; reflexivity). congruence. }
  destruct (Nat.ltb 1 (length (map snd (sources r src))) && negb (ends_slash dst)); [discriminate|].
  destruct (ends_slash dst).
  - destruct (recorded_as_file r (removelast dst)); [discriminate|].
    destruct (existsb (changed r) (map snd (sources r src))) eqn:CH; [discriminate|].
    intros E. apply CHK in E. destruct E as (<- & <- & LX). intros c I. pose proof I as I0. apply filter_In in I. destruct I as (I & FI).
    apply in_map_iff in I. destruct I as (x & <- & I). rsplit; auto using plan_pair_acc.
    + cbn [cs_rec plan_pair]. destruct (changed r x) eqn:CX; auto.
      assert (existsb (changed r) (map snd (sources r src)) = true) by (apply existsb_exists; eauto). congruence.
    + intros NF. assert (NT : pair_taken (plan_pair r x (dest_path (c_name_only o) (removelast dst) x)) = false).
      { rewrite NF in FI. cbn in FI. now destruct (pair_taken (plan_pair r x _)). }
      split; auto.
  - destruct (existsb (changed r) (map snd (sources r src))) eqn:CH; [discriminate|].
    destruct (map snd (sources r src)) as [|x t] eqn:SR; [discriminate|].
    destruct (pair_taken (plan_pair r x dst) && negb (c_cforce o)) eqn:PT; [discriminate|].
    intros E. apply CHK in E. destruct E as (<- & <- & LX). intros c [<-|[]]. rsplit; auto using plan_pair_acc.
    + apply SRC. now left.
    + cbn [cs_rec plan_pair]. cbn [existsb] in CH. now destruct (changed r x).
    + intros NF. assert (NT : pair_taken (plan_pair r x dst) = false).
      { rewrite NF in PT. cbn in PT. now destruct (pair_taken (plan_pair r x dst)). }
      split; auto. apply LX; auto. now left.
Qed.

Theorem copy_cmd_shares o src dst r r' oc plan sk :
  wf_fs (xfs r) -> wf_recs (base r) ->
  copy_plan o src dst r = CPlanned plan sk -> NoDup (map cd_path plan) ->
  copy_cmd o src dst r = (r', oc) ->
  objs (xfs r') = objs (xfs r) /\ (forall a b, holds (xfs r) a b -> holds (xfs r') a b) /\
  wf_recs (base r') /\ wf_fs (xfs r') /\
  forall c, In c plan -> copy_result o r r' oc c.
Proof.
  intros Wf Wr PL ND. unfold copy_cmd. rewrite PL. intros E.
  destruct (copy_apply_shares o r plan sk r' oc Wf Wr ND (fun c I => proj1 (copy_plan_pairs _ _ _ _ _ _ PL c I)) E)
    as (A & B & C & D & _ & _ & F). auto.
Qed.

(* refusals: nothing changes *)
Lemma beqb_sym a b : beqb a b = beqb b a.
Proof. destruct (beqb_spec a b), (beqb_spec b a); congruence. Qed.
Lemma mem_paths_find l d :
  mem d (map (fun ex : N * frec => r_path (snd ex)) l) = match find_path l d with Some _ => true | None => false end.
Proof.
  unfold mem. induction l as [|[e x] t IH]; cbn; auto. rewrite beqb_sym. destruct (beqb (r_path x) d); cbn; auto.
Qed.
Lemma mem_app d a b : mem d (a ++ b) = mem d a || mem d b.
Proof. apply existsb_app. Qed.
Lemma pair_taken_stored r x d : pair_taken (plan_pair r x d) = stored r d.
Proof.
  unfold pair_taken, plan_pair, stored, all_stored; cbn [cd_ent cd_isdir]. rewrite mem_app, mem_paths_find.
  destruct (find_path (recs (base r)) d) as [[e y]|]; reflexivity.
Qed.

Lemma copy_refuses_modified o src dst r :
  existsb (changed r) (map snd (sources r src)) = true -> copy_cmd o src dst r = (r, Err).
Proof.
  intros CH. unfold copy_cmd, copy_plan. rewrite CH.
  destruct (Nat.ltb 1 (length (map snd (sources r src))) && negb (ends_slash dst)); auto.
  destruct (ends_slash dst); auto. destruct (recorded_as_file r (removelast dst)); auto.
Qed.
Lemma copy_refuses_tracked o src dst r :
  ends_slash dst = false -> c_cforce o = false -> stored r dst = true ->
  exists oc, copy_cmd o src dst r = (r, oc) /\ oc <> Ok.
Proof.
  intros ES NF ST. unfold copy_cmd, copy_plan. rewrite ES, NF.
  destruct (Nat.ltb 1 (length (map snd (sources r src))) && negb false); [exists Err; split; auto; discriminate|].
  destruct (existsb (changed r) (map snd (sources r src))); [exists Err; split; auto; discriminate|].
  destruct (map snd (sources r src)) as [|x t]; [exists Panic; split; auto; discriminate|].
  rewrite pair_taken_stored, ST. cbn. exists Err; split; auto; discriminate.
Qed.

(* ---- move: the records ------------------------------------------------------------------------------------------ *)
Definition moved (x : frec) (d : path) : frec := mk_frec d (r_meta x) (r_digest x) (r_hist x) (r_method x) (r_tob x).
Definition ents (l : list (N * frec * path)) : list N := map (fun ed => fst (fst ed)) l.

Lemma move_paths_spec l : forall r,
  NoDup (keys (recs (base r))) -> NoDup (ents l) ->
  let r' := fold_left move_path_one l r in
  NoDup (keys (recs (base r'))) /\ xfs r' = xfs r /\ (next_ent (base r) <= next_ent (base r'))%N /\
  (forall k v, In (k, v) (recs (base r')) <->
      (exists x d, In (k, x, d) l /\ v = moved x d) \/ (~ In k (ents l) /\ In (k, v) (recs (base r)))) /\
  ((forall e x d, In (e, x, d) l -> exists x0, In (e, x0) (recs (base r))) ->
   length (recs (base r')) = length (recs (base r))).
Proof.
  induction l as [|[[e x] d] t IH]; intros r K ND; cbn [fold_left].
  - rsplit; auto; try lia. intros k v; split; [intros I; right; split; auto|intros [(x & d & [] & _)|[_ I]]; auto].
  - cbn [ents map fst] in ND. inversion ND as [|? ? Hn ND']; subst.
    assert (EQ : move_path_one r (e, x, d) = add_parent_dirs (set_base r (rput (base r) e (moved x d))) d) by reflexivity.
    rewrite EQ. set (r1 := set_base r (rput (base r) e (moved x d))).
    destruct (add_parent_dirs_base r1 d) as (R & Fs & Nx).
    assert (R1 : recs (base (add_parent_dirs r1 d)) = put N.eqb N.ltb (recs (base r)) e (moved x d)) by (rewrite R; reflexivity).
    assert (K1 : NoDup (keys (recs (base (add_parent_dirs r1 d))))) by (rewrite R1; apply (@nodup_put _ _ _ Neqb_sp); auto).
    destruct (IH (add_parent_dirs r1 d) K1 ND') as (K2 & F2 & N2 & C2 & L2).
    rsplit; auto.
    + rewrite F2. unfold xfs. rewrite Fs. reflexivity.
    + change (next_ent (base r1)) with (next_ent (base r)) in Nx. lia.
    + intros k v. rewrite C2, R1. split.
      * intros [(x' & d' & I & ->)|[NI I]]; [left; exists x', d'; split; auto; now right|].
        apply In_put in I; auto. destruct I as [[-> ->]|[NE I]].
        -- left. exists x, d. split; auto. now left.
        -- right. split; auto. cbn [ents map fst In]. intros [X|X]; [congruence|exact (NI X)].
      * intros [(x' & d' & [I|I] & ->)|[NI I]].
        -- injection I as <- <- <-. right. split; auto. apply In_put; auto.
        -- left. eauto.
        -- right. cbn [ents map fst In] in NI. split; [intros X; apply NI; right; exact X|]. apply In_put; auto. right; split; auto.
    + intros EX. rewrite L2.
      * rewrite R1. destruct (EX e x d (or_introl eq_refl)) as (x0 & I0). eapply length_put_existing; eauto.
      * intros e' x' d' I'. destruct (EX e' x' d' (or_intror I')) as (x0 & I0). rewrite R1.
        destruct (N.eq_dec e' e) as [->|NE]; [exists (moved x d)|exists x0]; apply In_put; auto.
Qed.

(* what a plan of move looks like *)
Record move_plan_ok (r : xrepo) (l : list (N * frec * path)) : Prop := {
  mp_in : forall e x d, In (e, x, d) l -> In (e, x) (recs (base r));
  mp_new : forall e x d, In (e, x, d) l -> stored r d = false;
  mp_inj : forall e1 x1 d1 e2 x2 d2, In (e1, x1, d1) l -> In (e2, x2, d2) l -> d1 = d2 -> e1 = e2;
  mp_nodup : NoDup (ents l)
}.
(* (only the records and the directory records are looked at: the plan stays accurate when objects are added to the
   cache; that the sources are unmodified and the destinations free in the workspace is in move_plan_sources) *)

Lemma stored_false_no_record r d : stored r d = false -> forall e y, In (e, y) (recs (base r)) -> r_path y <> d.
Proof.
  unfold stored, all_stored. rewrite mem_app, mem_paths_find. intros H.
  destruct (find_path (recs (base r)) d) eqn:F; [discriminate|]. apply find_path_None; auto.
Qed.

Lemma sublist_filter_nodup {A B} (f : A -> B) (p : A -> bool) (l : list A) : NoDup (map f l) -> NoDup (map f (filter p l)).
Proof.
  induction l as [|a t IH]; cbn; auto. intros ND; inversion ND as [|? ? Hn ND']; subst.
  destruct (p a); cbn; auto. constructor; auto. intros I; apply Hn.
  apply in_map_iff in I. destruct I as (a' & E & I). apply filter_In in I. rewrite <- E. apply in_map. tauto.
Qed.

Lemma join_inj dir p q : join dir p = join dir q -> p = q.
Proof. unfold join. destruct dir; auto. intros H. apply app_inv_head in H. congruence. Qed.

Lemma sources_in r src e x : In (e, x) (sources r src) -> In (e, x) (recs (base r)) /\ is_file x = true.
Proof. unfold sources, select. intros I. apply filter_In in I. destruct I as (I & F). apply filter_In in I. tauto. Qed.
Lemma sources_nodup r src : NoDup (keys (recs (base r))) -> NoDup (map fst (sources r src)).
Proof. intros K. unfold sources, select. apply sublist_filter_nodup. apply sublist_filter_nodup. exact K. Qed.

Lemma move_plan_is_ok src dst r l :
  wf_recs (base r) -> move_plan src dst r = MPlanned l -> move_plan_ok r l.
Proof.
  intros [K P F]. unfold move_plan.
  assert (CHK : forall l0, move_checked r l0 = MPlanned l -> l0 = l /\ forall e x d, In (e, x, d) l -> ws_lexists (xfs r) d = false).
  { intros l0. unfold move_checked. destruct (existsb (fun ed : N * frec * path => ws_lexists (xfs r) (snd ed)) l0) eqn:U; [discriminate|].
    intros E; injection E as <-. split; auto. intros e x d I. destruct (ws_lexists (xfs r) d) eqn:L; auto.
    assert (existsb (fun ed : N * frec * path => ws_lexists (xfs r) (snd ed)) l0 = true) by (apply existsb_exists; exists (e, x, d); auto). congruence. }
  destruct (Nat.ltb 1 (length (sources r src)) && negb (ends_slash dst)); [discriminate|].
  destruct (ends_slash dst).
  - destruct (recorded_as_file r (removelast dst)); [discriminate|].
    destruct (existsb (fun ex => changed r (snd ex)) (sources r src)) eqn:CH; [discriminate|].
    match goal with |- (if existsb ?f ?l0 then _ else _) = _ -> _ => destruct (existsb f l0) eqn:ST; [discriminate|] end.
    intros E. apply CHK in E. destruct E as (<- & FREE).
    assert (INV : forall e x d, In (e, x, d) (map (fun ex => (fst ex, snd ex, join (removelast dst) (r_path (snd ex)))) (sources r src)) ->
                  In (e, x) (sources r src) /\ d = join (removelast dst) (r_path x)).
    { intros e x d I. apply in_map_iff in I. destruct I as ([e' x'] & E & I). cbn in E. injection E as <- <- <-. auto. }
    constructor.
    + intros e x d I. apply INV in I. destruct I as (I & _). apply sources_in in I. tauto.
    + intros e x d I. destruct (stored r d) eqn:S; auto.
      assert (existsb (fun ed : N * frec * path => stored r (snd ed)) (map (fun ex => (fst ex, snd ex, join (removelast dst) (r_path (snd ex)))) (sources r src)) = true).
      { apply existsb_exists. exists (e, x, d). split; auto. }
      congruence.
    + intros e1 x1 d1 e2 x2 d2 I1 I2 ED. apply INV in I1. apply INV in I2. destruct I1 as (I1 & ->), I2 as (I2 & ->).
      apply join_inj in ED. apply sources_in in I1. apply sources_in in I2. eapply P; [apply I1|apply I2|auto].
    + unfold ents. rewrite map_map. cbn [fst]. apply sources_nodup; auto.
  - destruct (existsb (fun ex => changed r (snd ex)) (sources r src)) eqn:CH; [discriminate|].
    destruct (sources r src) as [|[e x] t] eqn:SR; [discriminate|].
    destruct (stored r dst) eqn:ST; [discriminate|]. intros E. apply CHK in E. destruct E as (<- & FREE).
    assert (I0 : In (e, x) (sources r src)) by (rewrite SR; now left).
    constructor.
    + intros e' x' d' [I|[]]. injection I as <- <- <-. apply sources_in in I0. tauto.
    + intros e' x' d' [I|[]]. injection I as <- <- <-. auto.
    + intros e1 x1 d1 e2 x2 d2 [I1|[]] [I2|[]] _. congruence.
    + cbn. constructor; [tauto|constructor].
Qed.

Lemma move_plan_sources src dst r l :
  move_plan src dst r = MPlanned l ->
  forall e x d, In (e, x, d) l -> In (e, x) (sources r src) /\ changed r x = false /\ ws_lexists (xfs r) d = false.
Proof.
  unfold move_plan.
  assert (CHK : forall l0, move_checked r l0 = MPlanned l -> l0 = l /\ forall e x d, In (e, x, d) l -> ws_lexists (xfs r) d = false).
  { intros l0. unfold move_checked. destruct (existsb (fun ed : N * frec * path => ws_lexists (xfs r) (snd ed)) l0) eqn:U; [discriminate|].
    intros E; injection E as <-. split; auto. intros e x d I. destruct (ws_lexists (xfs r) d) eqn:L; auto.
    assert (existsb (fun ed : N * frec * path => ws_lexists (xfs r) (snd ed)) l0 = true) by (apply existsb_exists; exists (e, x, d); auto). congruence. }
  assert (UNCH : existsb (fun ex => changed r (snd ex)) (sources r src) = false -> forall e x, In (e, x) (sources r src) -> changed r x = false).
  { intros CH e x I. destruct (changed r x) eqn:C; auto.
    assert (existsb (fun ex => changed r (snd ex)) (sources r src) = true) by (apply existsb_exists; exists (e, x); auto). congruence. }
  destruct (Nat.ltb 1 (length (sources r src)) && negb (ends_slash dst)); [discriminate|].
  destruct (ends_slash dst).
  - destruct (recorded_as_file r (removelast dst)); [discriminate|].
    destruct (existsb (fun ex => changed r (snd ex)) (sources r src)) eqn:CH; [discriminate|].
    match goal with |- (if existsb ?f ?l0 then _ else _) = _ -> _ => destruct (existsb f l0) eqn:ST; [discriminate|] end.
    intros E. apply CHK in E. destruct E as (<- & FREE). intros e x d I. pose proof (FREE e x d I) as FR.
    apply in_map_iff in I. destruct I as ([e' x'] & E & I). cbn in E. injection E as <- <- <-. eauto.
  - destruct (existsb (fun ex => changed r (snd ex)) (sources r src)) eqn:CH; [discriminate|].
    destruct (sources r src) as [|[e x] t] eqn:SR; [discriminate|].
    destruct (stored r dst) eqn:ST; [discriminate|]. intros E. apply CHK in E. destruct E as (<- & FREE).
    intros e' x' d' I. pose proof (FREE e' x' d' I) as FR. destruct I as [I|[]]. injection I as <- <- <-.
    split; [now left|]. split; auto. apply (UNCH eq_refl e x). now left.
Qed.

(* ---- move: the loop over the sources (workspace only) ---------------------------------------------------------------- *)
Lemma ws_exists_ext f g q : objs g = objs f -> wget g q = wget f q -> ws_exists g q = ws_exists f q.
Proof.
  intros A Hw. unfold ws_exists. rewrite Hw. destruct (wget f q) as [en|]; auto. now rewrite (resolve_objs f g link_fuel en A).
Qed.
Lemma ws_exists_none g q : wget g q = None -> ws_exists g q = false.
Proof. unfold ws_exists; now intros ->. Qed.
Lemma ws_exists_wdel f s q : ws_exists f q = false -> ws_exists (wdel f s) q = false.
Proof.
  intros H. destruct (beqb_spec s q) as [->|NE].
  - apply ws_exists_none. now rewrite wget_wdel, beqb_refl.
  - rewrite <- H. apply ws_exists_ext; auto. rewrite wget_wdel. destruct (beqb_spec s q); congruence.
Qed.
Lemma ws_exists_wput_other f d en q : d <> q -> ws_exists (wput f d en) q = ws_exists f q.
Proof. intros NE. apply ws_exists_ext; auto. rewrite wget_wput. destruct (beqb_spec d q); congruence. Qed.

Definition ws_only (f f' : fsys) : Prop := f' = set_ws f (ws f').
Lemma ws_only_refl f : ws_only f f.
Proof. unfold ws_only, set_ws. destruct f; reflexivity. Qed.
Lemma ws_only_frame f f' : wf_fs f -> ws_only f f' -> fs_frame f f'.
Proof. intros W ->. constructor; cbn; auto; lia. Qed.

Section MoveLoop.
Variable fl : flags.
Variable o : move_opts.

Lemma move_loop_ws_only : forall l f ups rechk f' res,
  move_loop fl o f l ups rechk = (f', res) -> ws_only f f'.
Proof.
  induction l as [|[[e x] d] t IH]; intros f ups rechk f' res; cbn [move_loop].
  - intros E; injection E as <- <-. apply ws_only_refl.
  - assert (G : forall f1 u k, ws_only f f1 -> move_loop fl o f1 t u k = (f', res) -> ws_only f f').
    { intros f1 u k A E. apply IH in E. unfold ws_only in *. rewrite E. rewrite A at 1. reflexivity. }
    assert (D : ws_only f (wdel f (r_path x))) by reflexivity.
    destruct (r_method x) eqn:SM; destruct (match m_as o with Some m => m | None => _ end) eqn:DM;
      try (destruct (ws_exists f (r_path x)); apply G; [exact D | apply ws_only_refl]).
    destruct (beqb (r_path x) d); [apply G, ws_only_refl|].
    destruct (fixed_mv_absent fl && negb (ws_exists f (r_path x))); [apply G, ws_only_refl|].
    destruct (wget f (r_path x)) as [en|]; [|intros E; injection E as <- <-; apply ws_only_refl].
    destruct (m_no_recheck o); apply G; reflexivity.
Qed.

Lemma move_loop_stable : forall l f ups rechk f' res,
  move_loop fl o f l ups rechk = (f', res) ->
  forall q, (forall e x d, In (e, x, d) l -> d <> q) -> ws_exists f q = false -> ws_exists f' q = false.
Proof.
  induction l as [|[[e x] d] t IH]; intros f ups rechk f' res; cbn [move_loop].
  - intros E; injection E as <- <-. auto.
  - intros E q ND A.
    assert (NDt : forall e' x' d', In (e', x', d') t -> d' <> q) by (intros; eapply ND; right; eauto).
    assert (Dq : d <> q) by (eapply ND; left; eauto).
    assert (G : forall f1 u k, ws_exists f1 q = false -> move_loop fl o f1 t u k = (f', res) -> ws_exists f' q = false).
    { intros f1 u k A1 E1. eapply IH; eauto. }
    revert E.
    destruct (r_method x) eqn:SM; destruct (match m_as o with Some m => m | None => _ end) eqn:DM;
      try (destruct (ws_exists f (r_path x)); apply G; auto using ws_exists_wdel).
    destruct (beqb (r_path x) d); [apply G; auto|].
    destruct (fixed_mv_absent fl && negb (ws_exists f (r_path x))); [apply G; auto|].
    destruct (wget f (r_path x)) as [en|]; [|intros E; injection E as <- <-; auto].
    destruct (m_no_recheck o); apply G; auto using ws_exists_wdel.
    rewrite ws_exists_wput_other; auto using ws_exists_wdel.
Qed.

Lemma move_loop_absent : forall l f ups rechk f' ups' rechk',
  move_loop fl o f l ups rechk = (f', Some (ups', rechk')) ->
  forall e x d, In (e, x, d) l -> d <> r_path x -> (forall e' x' d', In (e', x', d') l -> d' <> r_path x) ->
  ws_exists f' (r_path x) = false.
Proof.
  induction l as [|[[e0 x0] d0] t IH]; intros f ups rechk f' ups' rechk'; cbn [move_loop].
  - intros _ e x d [].
  - intros E e x d IN NS ND.
    assert (NDt : forall e' x' d', In (e', x', d') t -> d' <> r_path x) by (intros; eapply ND; right; eauto).
    destruct IN as [IN|IN].
    + injection IN as -> -> ->.
      assert (G : forall f1 u k, ws_exists f1 (r_path x) = false -> move_loop fl o f1 t u k = (f', Some (ups', rechk')) -> ws_exists f' (r_path x) = false).
      { intros f1 u k A1 E1. eapply move_loop_stable; eauto. }
      assert (DEL : ws_exists (wdel f (r_path x)) (r_path x) = false) by (apply ws_exists_none; now rewrite wget_wdel, beqb_refl).
      revert E.
      destruct (r_method x) eqn:SM; destruct (match m_as o with Some m => m | None => _ end) eqn:DM;
        try (destruct (ws_exists f (r_path x)) eqn:EX; apply G; auto).
      destruct (beqb_spec (r_path x) d) as [EQ|NE]; [congruence|].
      destruct (fixed_mv_absent fl && negb (ws_exists f (r_path x))) eqn:FX.
      { apply G. apply andb_true_iff in FX. destruct FX as (_ & FX). now destruct (ws_exists f (r_path x)). }
      destruct (wget f (r_path x)) as [en|]; [|discriminate].
      destruct (m_no_recheck o); apply G; auto. rewrite ws_exists_wput_other; auto.
    + assert (G : forall f1 u k, move_loop fl o f1 t u k = (f', Some (ups', rechk')) -> ws_exists f' (r_path x) = false).
      { intros f1 u k E1. eapply IH; eauto. }
      revert E.
      destruct (r_method x0) eqn:SM; destruct (match m_as o with Some m => m | None => _ end) eqn:DM;
        try (destruct (ws_exists f (r_path x0)); apply G).
      destruct (beqb (r_path x0) d0); [apply G|].
      destruct (fixed_mv_absent fl && negb (ws_exists f (r_path x0))); [apply G|].
      destruct (wget f (r_path x0)) as [en|]; [|discriminate].
      destruct (m_no_recheck o); apply G.
Qed.

Lemma move_loop_rechk : forall l f ups rechk f' ups' rechk',
  move_loop fl o f l ups rechk = (f', Some (ups', rechk')) ->
  forall q, In q rechk' -> In q rechk \/ exists e x, In (e, x, q) l.
Proof.
  induction l as [|[[e0 x0] d0] t IH]; intros f ups rechk f' ups' rechk'; cbn [move_loop].
  - intros E; injection E as <- <- <-. auto.
  - assert (G : forall f1 u k, (forall q, In q k -> In q rechk \/ q = d0) -> move_loop fl o f1 t u k = (f', Some (ups', rechk')) ->
                forall q, In q rechk' -> In q rechk \/ exists e x, In (e, x, q) ((e0, x0, d0) :: t)).
    { intros f1 u k A E1 q I. destruct (IH _ _ _ _ _ _ E1 q I) as [I1|(e & x & I1)].
      - destruct (A q I1) as [ | ->]; auto. right. exists e0, x0. now left.
      - right. exists e, x. now right. }
    assert (K0 : forall q, In q rechk -> In q rechk \/ q = d0) by auto.
    assert (K1 : forall q, In q (rechk ++ [d0]) -> In q rechk \/ q = d0).
    { intros q I. apply in_app_iff in I. destruct I as [|[<-|[]]]; auto. }
    destruct (r_method x0) eqn:SM; destruct (match m_as o with Some m => m | None => _ end) eqn:DM;
      try (destruct (ws_exists f (r_path x0)); apply G; auto).
    destruct (beqb (r_path x0) d0); [apply G; auto|].
    destruct (fixed_mv_absent fl && negb (ws_exists f (r_path x0))); [apply G; auto|].
    destruct (wget f (r_path x0)) as [en|]; [|discriminate].
    destruct (m_no_recheck o); apply G; auto.
Qed.
End MoveLoop.

(* ---- move: method updates, the command ---------------------------------------------------------------------------------- *)
Definition same_but_method (v v' : frec) : Prop :=
  r_path v' = r_path v /\ r_meta v' = r_meta v /\ r_digest v' = r_digest v /\ r_hist v' = r_hist v /\ r_tob v' = r_tob v.
Lemma sbm_refl v : same_but_method v v.
Proof. unfold same_but_method; auto. Qed.
Lemma sbm_trans a b c : same_but_method a b -> same_but_method b c -> same_but_method a c.
Proof. unfold same_but_method; intuition congruence. Qed.

Lemma set_methods_spec ups : forall b,
  NoDup (keys (recs b)) ->
  let b' := fold_left set_method ups b in
  NoDup (keys (recs b')) /\ fs b' = fs b /\ next_ent b' = next_ent b /\ length (recs b') = length (recs b) /\
  (forall k v', In (k, v') (recs b') -> exists v, In (k, v) (recs b) /\ same_but_method v v') /\
  (forall k v, In (k, v) (recs b) -> exists v', In (k, v') (recs b') /\ same_but_method v v').
Proof.
  induction ups as [|[e m] t IH]; intros b K; cbn [fold_left].
  - rsplit; auto; intros k v I; exists v; auto using sbm_refl.
  - assert (EQ : set_method b (e, m) = match rget b e with
                                        | Some x => rput b e (mk_frec (r_path x) (r_meta x) (r_digest x) (r_hist x) m (r_tob x))
                                        | None => b end) by reflexivity.
    rewrite EQ. clear EQ. destruct (rget b e) as [x|] eqn:G; [|apply IH; auto].
    set (y := mk_frec (r_path x) (r_meta x) (r_digest x) (r_hist x) m (r_tob x)).
    assert (Ix : In (e, x) (recs b)) by (apply (In_get _ _ _ K); exact G).
    assert (K1 : NoDup (keys (recs (rput b e y)))) by (apply (@nodup_put _ _ _ Neqb_sp); auto).
    destruct (IH (rput b e y) K1) as (K2 & F2 & N2 & L2 & B2 & C2).
    assert (S : same_but_method x y) by (unfold same_but_method, y; cbn; auto).
    rsplit; auto.
    + rewrite L2. eapply length_put_existing; eauto.
    + intros k v' I. destruct (B2 k v' I) as (v & I1 & S1). apply In_put in I1; auto.
      destruct I1 as [[-> ->]|[NE I1]]; [exists x; split; auto; eapply sbm_trans; eauto | exists v; auto].
    + intros k v I. destruct (N.eq_dec k e) as [->|NE].
      * assert (v = x) by (apply (In_get _ _ _ K) in I; apply (In_get _ _ _ K) in Ix; congruence). subst v.
        destruct (C2 e y) as (v' & I' & S'); [apply In_put; auto|]. exists v'; split; [auto | exact (sbm_trans _ _ _ S S')].
      * destruct (C2 k v) as (v' & I' & S'); [apply In_put; auto|]. exists v'; auto.
Qed.

Definition move_result (r r' : xrepo) (e : N) (x : frec) (d : path) : Prop :=
  (forall e' y, In (e', y) (recs (base r')) -> r_path y <> r_path x) /\
  exists y, In (e, y) (recs (base r')) /\ r_path y = d /\ r_digest y = r_digest x /\ r_hist y = r_hist x /\
            r_tob y = r_tob x /\ r_meta y = r_meta x.

Theorem move_apply_spec fl o r l r' oc :
  wf_fs (xfs r) -> wf_recs (base r) -> move_plan_ok r l -> move_apply fl o r l = (r', oc) ->
  length (recs (base r')) = length (recs (base r)) /\
  objs (xfs r') = objs (xfs r) /\ (forall a b, holds (xfs r) a b -> holds (xfs r') a b) /\
  (forall e x d, In (e, x, d) l -> move_result r r' e x d) /\
  (oc = Ok -> forall e x d, In (e, x, d) l -> ws_exists (xfs r') (r_path x) = false).
Proof.
  intros Wf [K P F] [MI MN MJ MD]. unfold move_apply.
  destruct (move_paths_spec l r K MD) as (K1 & F1 & N1 & C1 & L1).
  set (r1 := fold_left move_path_one l r) in *.
  assert (LEN1 : length (recs (base r1)) = length (recs (base r))) by (apply L1; intros e x d I; exists x; eauto).
  (* sources and destinations never coincide *)
  assert (DS : forall e x d e' x' d', In (e, x, d) l -> In (e', x', d') l -> d' <> r_path x).
  { intros e x d e' x' d' I I' EQ. eapply (stored_false_no_record r d'); [eapply MN; eauto| eapply MI; exact I|auto]. }
  (* the records after the path updates *)
  assert (REC1 : forall e x d, In (e, x, d) l ->
            (forall k v, In (k, v) (recs (base r1)) -> r_path v <> r_path x) /\ In (e, moved x d) (recs (base r1))).
  { intros e x d I. split.
    - intros k v I1 EQ. apply C1 in I1. destruct I1 as [(x' & d' & I' & ->)|[NI I1]].
      + cbn in EQ. exact (DS e x d k x' d' I I' EQ).
      + apply NI. assert (k = e) by (eapply P; [exact I1|eapply MI; exact I|auto]). subst k.
        unfold ents. apply in_map_iff. exists (e, x, d). split; auto.
    - apply C1. left; eauto. }
  destruct (move_loop fl o (xfs r1) l [] []) as [f2 res] eqn:ML.
  assert (Wf1 : wf_fs (xfs r1)) by (rewrite F1; auto).
  pose proof (ws_only_frame _ _ Wf1 (move_loop_ws_only fl o _ _ _ _ _ _ ML)) as FR2.
  rewrite F1 in FR2.
  (* results that only depend on the records being those of r1 up to the method *)
  assert (FIN : forall r3 : xrepo, length (recs (base r3)) = length (recs (base r1)) ->
            (forall k v', In (k, v') (recs (base r3)) -> exists v, In (k, v) (recs (base r1)) /\ same_but_method v v') ->
            (forall k v, In (k, v) (recs (base r1)) -> exists v', In (k, v') (recs (base r3)) /\ same_but_method v v') ->
            length (recs (base r3)) = length (recs (base r)) /\ forall e x d, In (e, x, d) l -> move_result r r3 e x d).
  { intros r3 L3 B3 C3. split; [congruence|]. intros e x d I. destruct (REC1 e x d I) as (NO & YES). split.
    - intros k v' I3. destruct (B3 k v' I3) as (v & Iv & (SP & _)). rewrite SP. eauto.
    - destruct (C3 _ _ YES) as (y & Iy & (SP & SM & SD & SH & ST)). exists y. cbn in *. rsplit; auto. }
  destruct res as [[ups rechk]|].
  - destruct (set_methods_spec ups (base (set_xfs r1 f2))) as (K3 & F3 & N3 & L3 & B3 & C3); [exact K1|].
    set (r3 := set_base (set_xfs r1 f2) (fold_left set_method ups (base (set_xfs r1 f2)))) in *.
    assert (X3 : xfs r3 = f2) by (unfold r3, xfs; cbn [base set_base]; rewrite F3; reflexivity).
    destruct (FIN r3 L3 B3 C3) as (LEN & RES).
    assert (ABS : forall e x d, In (e, x, d) l -> ws_exists f2 (r_path x) = false).
    { intros e x d I. eapply move_loop_absent; [exact ML|exact I|exact (DS e x d e x d I I)|intros e' x' d' I'; exact (DS e x d e' x' d' I I')]. }
    destruct (m_no_recheck o).
    + intros E; injection E as <- <-. rewrite X3. rsplit; auto.
      * destruct FR2; auto.
      * intros a b H; eapply frame_holds; eauto.
    + intros E. assert (W3 : wf_fs (xfs r3)) by (rewrite X3; destruct FR2; auto).
      destruct (recheck_dests_spec _ _ _ _ W3 E) as (R4 & N4 & D4 & FR4 & WS4 & _).
      rewrite X3 in FR4, WS4.
      assert (FRT : fs_frame (xfs r) (xfs r')) by (eapply fs_frame_trans; eauto).
      rsplit.
      * rewrite R4; auto.
      * destruct FRT; auto.
      * intros a b H; eapply frame_holds; eauto.
      * intros e x d I. destruct (RES e x d I) as (A & B). split; rewrite R4; auto.
      * intros _ e x d I. rewrite (ws_exists_frame f2 (xfs r') (r_path x) FR4); eauto.
        apply WS4. intros IN. destruct (move_loop_rechk fl o _ _ _ _ _ _ _ ML _ IN) as [[]|(e' & x' & I')].
        exact (DS e x d e' x' (r_path x) I I' eq_refl).
  - intros E; injection E as <- <-.
    destruct (FIN (set_xfs r1 f2)) as (LEN & RES); auto; try (intros k v I; exists v; auto using sbm_refl).
    change (xfs (set_xfs r1 f2)) with f2. rsplit; auto.
    + destruct FR2; auto.
    + intros a b H; eapply frame_holds; eauto.
    + discriminate.
Qed.

Theorem move_cmd_spec fl o src dst r r' oc l :
  wf_fs (xfs r) -> wf_recs (base r) -> move_plan src dst r = MPlanned l -> move_cmd fl o src dst r = (r', oc) ->
  length (recs (base r')) = length (recs (base r)) /\
  objs (xfs r') = objs (xfs r) /\ (forall a b, holds (xfs r) a b -> holds (xfs r') a b) /\
  (forall e x d, In (e, x, d) l -> move_result r r' e x d) /\
  (oc = Ok -> forall e x d, In (e, x, d) l -> ws_exists (xfs r') (r_path x) = false).
Proof.
  intros Wf Wr PL. unfold move_cmd. rewrite PL. apply move_apply_spec; auto. eapply move_plan_is_ok; eauto.
Qed.

Lemma move_refuses_modified fl o src dst r :
  existsb (fun ex => changed r (snd ex)) (sources r src) = true -> move_cmd fl o src dst r = (r, Err).
Proof.
  intros CH. unfold move_cmd, move_plan. rewrite CH.
  destruct (Nat.ltb 1 (length (sources r src)) && negb (ends_slash dst)); auto.
  destruct (ends_slash dst); auto. destruct (recorded_as_file r (removelast dst)); auto.
Qed.
Lemma move_refuses_tracked fl o src dst r :
  ends_slash dst = false -> stored r dst = true -> exists oc, move_cmd fl o src dst r = (r, oc) /\ oc <> Ok.
Proof.
  intros ES ST. unfold move_cmd, move_plan. rewrite ES, ST.
  destruct (Nat.ltb 1 (length (sources r src)) && negb false); [exists Err; split; auto; discriminate|].
  destruct (existsb (fun ex => changed r (snd ex)) (sources r src)); [exists Err; split; auto; discriminate|].
  destruct (sources r src) as [|[e x] t]; [exists Panic|exists Err]; split; auto; discriminate.
Qed.

(* ---- XvcCachePath::remove ------------------------------------------------------------------------------------------------ *)
(* what a removal step preserves: the workspace; objects are only taken away; inodes keep their bytes
   (a removed object's inode is made writable first) *)
Record rm_rel (f f' : fsys) : Prop := {
  rm_ws : ws f' = ws f;
  rm_next : next_ino f' = next_ino f;
  rm_objs : forall b e, oget f' b = Some e -> oget f b = Some e;
  rm_ino : forall i n, iget f i = Some n -> exists n', iget f' i = Some n' /\ i_bytes n' = i_bytes n /\ (i_w n = true -> i_w n' = true);
  rm_ino_back : forall i n', iget f' i = Some n' -> exists n, iget f i = Some n /\ i_bytes n' = i_bytes n
}.
Lemma rm_rel_refl f : rm_rel f f.
Proof. constructor; auto; intros i n H; exists n; auto. Qed.
Lemma rm_rel_trans f g h : rm_rel f g -> rm_rel g h -> rm_rel f h.
Proof.
  intros [A1 N1 B1 C1 D1] [A2 N2 B2 C2 D2]. constructor; try congruence; auto.
  - intros i n H. destruct (C1 _ _ H) as (n1 & H1 & E1 & W1). destruct (C2 _ _ H1) as (n2 & H2 & E2 & W2).
    exists n2. rsplit; auto; congruence.
  - intros i n' H. destruct (D2 _ _ H) as (n1 & H1 & E1). destruct (D1 _ _ H1) as (n0 & H0 & E0). exists n0. split; auto; congruence.
Qed.

Lemma rm_rel_dirw f d w : rm_rel f (dput f d w).
Proof. constructor; auto; intros i n H; exists n; auto. Qed.
Lemma rm_rel_ddel f d : rm_rel f (ddel f d).
Proof. constructor; auto; intros i n H; exists n; auto. Qed.
Lemma rm_rel_prune f d : rm_rel f (prune f d).
Proof. unfold prune. destruct (digest_dir_used f d); [apply rm_rel_refl|apply rm_rel_ddel]. Qed.
Lemma rm_rel_chmod f e : rm_rel f (chmod_w_through f e).
Proof.
  unfold chmod_w_through. destruct (resolve f link_fuel e) as [i|]; [|apply rm_rel_refl].
  destruct (iget f i) as [n|] eqn:Hi; [|apply rm_rel_refl].
  constructor; auto.
  - intros j m H. rewrite iget_iput. destruct (N.eqb_spec i j) as [<-|NE]; [|exists m; auto].
    rewrite Hi in H. injection H as <-. eexists; rsplit; [reflexivity| |]; auto.
  - intros j m'. rewrite iget_iput. destruct (N.eqb_spec i j) as [<-|NE]; [|intros H; exists m'; auto].
    intros H; injection H as <-. exists n. auto.
Qed.
Lemma rm_rel_odel f a : rm_rel f (odel f a).
Proof.
  constructor; auto; try (intros i n H; exists n; auto).
  intros b e. rewrite oget_odel. destruct (caddr_eqb a b); [discriminate|auto].
Qed.

Lemma rm_rel_reseal p50 f d : rm_rel f (reseal p50 f d).
Proof. unfold reseal. destruct (p50 && digest_dir_used f d); [apply rm_rel_dirw|apply rm_rel_refl]. Qed.
Lemma cache_remove_rel p50 f a : rm_rel f (cache_remove p50 f a).
Proof.
  unfold cache_remove. destruct (obj_exists f a); [|apply rm_rel_prune].
  eapply rm_rel_trans; [apply (rm_rel_dirw f (a_digest a) true)|].
  set (f1 := dput f (a_digest a) true).
  eapply rm_rel_trans; [|apply rm_rel_prune].
  eapply rm_rel_trans; [|apply rm_rel_reseal].
  eapply rm_rel_trans; [|apply rm_rel_odel].
  destruct (oget f1 a); [apply rm_rel_chmod|apply rm_rel_refl].
Qed.
(* only the address itself can disappear *)
Lemma cache_remove_other p50 f a b : b <> a -> oget (cache_remove p50 f a) b = oget f b.
Proof.
  intros NE. unfold cache_remove, prune.
  assert (P : forall g d, oget (if digest_dir_used g d then g else ddel g d) b = oget g b) by (intros g d; destruct (digest_dir_used g d); reflexivity).
  assert (Q : forall g d, oget (reseal p50 g d) b = oget g b) by (intros g d; unfold reseal; destruct (p50 && digest_dir_used g d); reflexivity).
  destruct (obj_exists f a); rewrite P; auto. rewrite Q.
  rewrite oget_odel. destruct (caddr_eqb_spec a b); [congruence|].
  destruct (oget (dput f (a_digest a) true) a) as [e|]; auto.
  unfold chmod_w_through. destruct (resolve _ link_fuel e); auto. destruct (iget _ n0); auto.
Qed.

Lemma cache_removes_rel p50 l : forall f, rm_rel f (fold_left (cache_remove p50) l f).
Proof.
  induction l as [|a t IH]; intros f; cbn [fold_left]; [apply rm_rel_refl|].
  eapply rm_rel_trans; [apply cache_remove_rel|apply IH].
Qed.
Lemma cache_removes_other p50 l b : ~ In b l -> forall f, oget (fold_left (cache_remove p50) l f) b = oget f b.
Proof.
  induction l as [|a t IH]; intros NI f; cbn [fold_left]; auto. cbn [In] in NI.
  rewrite IH by tauto. apply cache_remove_other. intros ->; tauto.
Qed.
Lemma rm_rel_holds f f' b c : rm_rel f f' -> oget f' b = oget f b -> holds f b c -> holds f' b c.
Proof.
  intros [A N B C D] E (i & n & Ho & Hi & Hb). destruct (C _ _ Hi) as (n' & Hi' & E' & _).
  exists i, n'. rsplit; congruence.
Qed.

(* ---- remove --from-cache ------------------------------------------------------------------------------------------------------ *)
Lemma deletable_spec all tg a : deletable all tg a = true ->
  forall e x, In (e, x) all -> refers x a = true -> is_target tg e = true.
Proof.
  unfold deletable. rewrite forallb_forall. intros H e x I R. specialize (H (e, x) I). cbn in H. rewrite R in H. exact H.
Qed.

Definition obj_present (f : fsys) (a : caddr) : Prop := oget f a <> None.

(* what remove and untrack do to the cache: [del] is what they delete *)
Lemma removal_respects p50 all tg del f :
  (forall a, In a del -> deletable all tg a = true) ->
  let f' := fold_left (cache_remove p50) del f in
  rm_rel f f' /\
  (forall a, obj_present f a -> ~ obj_present f' a ->
     forall e x, In (e, x) all -> refers x a = true -> is_target tg e = true) /\
  (forall e x d c, In (e, x) all -> is_target tg e = false -> In d (r_hist x) ->
     holds f (cache_addr (r_path x) d) c -> holds f' (cache_addr (r_path x) d) c).
Proof.
  intros D f'. split; [apply cache_removes_rel|]. split.
  - intros a P NP e x I R. destruct (in_dec (fun u v => reflect_dec _ _ (caddr_eqb_spec u v)) a del) as [IN|NI].
    + eapply deletable_spec; eauto.
    + exfalso. apply NP. unfold obj_present, f'. rewrite cache_removes_other; auto.
  - intros e x d c I NT IH H.
    assert (NI : ~ In (cache_addr (r_path x) d) del).
    { intros IN. apply D in IN. pose proof (deletable_spec _ _ _ IN e x I) as T.
      assert (refers x (cache_addr (r_path x) d) = true).
      { unfold refers, addrs_of. apply existsb_exists. exists (cache_addr (r_path x) d). split; [now apply in_map|].
        destruct (caddr_eqb_spec (cache_addr (r_path x) d) (cache_addr (r_path x) d)); congruence. }
      rewrite T in NT; auto; discriminate. }
    eapply rm_rel_holds; [apply cache_removes_rel| |exact H]. apply cache_removes_other; auto.
Qed.

Lemma remove_like_spec p50 (force : bool) all tg l f :
  let f' := fold_left (cache_remove p50) (filter (fun a => force || deletable all tg a) l) f in
  rm_rel f f' /\
  (force = false ->
   (forall a, obj_present f a -> ~ obj_present f' a ->
      forall e x, In (e, x) all -> refers x a = true -> is_target tg e = true) /\
   (forall e x d c, In (e, x) all -> is_target tg e = false -> In d (r_hist x) ->
      holds f (cache_addr (r_path x) d) c -> holds f' (cache_addr (r_path x) d) c)).
Proof.
  intros f'. split; [apply cache_removes_rel|]. intros ->.
  destruct (removal_respects p50 all tg (filter (fun a => false || deletable all tg a) l) f) as (_ & A & B); auto.
  intros a I. apply filter_In in I. tauto.
Qed.

Theorem remove_cmd_spec fl o targets r r' oc :
  remove_cmd fl o targets r = (r', oc) ->
  recs (base r') = recs (base r) /\ dirs r' = dirs r /\ rm_rel (xfs r) (xfs r') /\
  (rm_force o = false ->
   (forall a, obj_present (xfs r) a -> ~ obj_present (xfs r') a ->
      forall e x, In (e, x) (recs (base r)) -> refers x a = true -> is_target (select r targets) e = true) /\
   (forall e x d c, In (e, x) (recs (base r)) -> is_target (select r targets) e = false -> In d (r_hist x) ->
      holds (xfs r) (cache_addr (r_path x) d) c -> holds (xfs r') (cache_addr (r_path x) d) c)).
Proof.
  unfold remove_cmd. cbv zeta.
  match goal with |- (match ?cands with Some _ => _ | None => _ end) = _ -> _ => destruct cands as [l|] end.
  - intros E; injection E as <- <-. change (xfs (set_xfs r ?f)) with f.
    destruct (remove_like_spec (fixed_P50 fl) (rm_force o) (recs (base r)) (select r targets) l (xfs r)) as (A & B).
    split; [reflexivity|]. split; [reflexivity|]. split; [exact A|exact B].
  - intros E; injection E as <- <-. split; [reflexivity|]. split; [reflexivity|]. split; [apply rm_rel_refl|]. intros _. split.
    + intros a P NP; contradiction.
    + auto.
Qed.

(* ---- untrack ---------------------------------------------------------------------------------------------------------------------- *)
Definition objs_bounded (f : fsys) : Prop := forall a j, oget f a = Some (EFile j) -> (j < next_ino f)%N.
Lemma bounded_frame f f' : fs_frame f f' -> objs_bounded f -> objs_bounded f'.
Proof. intros [A B Ci D E] H a j. unfold oget. rewrite A. intros G. specialize (H a j G). lia. Qed.

(* a regular file with an inode of its own (no cache object is that inode), writable, with bytes c *)
Definition private_file (f : fsys) (p : path) (c : bytes) : Prop :=
  exists j n, wget f p = Some (EFile j) /\ iget f j = Some n /\ i_w n = true /\ i_bytes n = c /\
              forall a, oget f a <> Some (EFile j).

(* the shapes in which a tracked path with bytes c can be in the workspace when untrack meets it:
   a symlink to its current object, a hard link to its current object (re-materialised by the repair
   of P7 only), or a private writable file *)
Definition mat_pre (fl : flags) (f : fsys) (x : frec) (c : bytes) : Prop :=
  let p := r_path x in
  match wget f p with
  | Some (ELink b) => exists d, r_digest x = Some d /\ b = cache_addr p d /\ holds f b c
  | Some (EFile i) => (fixed_P7 fl = true /\ exists d n, r_digest x = Some d /\ oget f (cache_addr p d) = Some (EFile i) /\
                                                       iget f i = Some n /\ i_bytes n = c)
                      \/ private_file f p c
  | None => False
  end.

Lemma resolve_is_object f k : forall b i, resolve f k (ELink b) = Some i -> exists a, oget f a = Some (EFile i).
Proof.
  induction k as [|k IH]; intros b i; cbn [resolve]; [discriminate|].
  destruct (oget f b) as [[j|b']|] eqn:G; [|apply IH|discriminate].
  rewrite resolve_file. intros E; injection E as <-. eauto.
Qed.
Lemma private_not_object f p c j a :
  private_file f p c -> wget f p = Some (EFile j) -> same_inode_as_object f j a = false.
Proof.
  intros (j' & n & Hw & _ & _ & _ & NO) Hw'. rewrite Hw in Hw'. injection Hw' as ->.
  unfold same_inode_as_object. destruct (oget f a) as [[i|b]|] eqn:G; auto.
  - rewrite resolve_file. destruct (N.eqb_spec j i) as [<-|]; auto. exfalso; eapply NO; eauto.
  - destruct (resolve f link_fuel (ELink b)) as [i|] eqn:R; auto.
    destruct (N.eqb_spec j i) as [<-|]; auto. exfalso. destruct (resolve_is_object _ _ _ _ R) as (a' & G'). eapply NO; eauto.
Qed.

Lemma private_stable f f' p c : fs_frame f f' -> wget f' p = wget f p -> private_file f p c -> private_file f' p c.
Proof.
  intros [A B Ci D E] Hw (j & n & W & I & Wr & Bt & NO). exists j, n. rsplit; auto; try congruence.
  intros a. unfold oget. rewrite A. apply NO.
Qed.
Lemma mat_pre_stable fl f f' x c :
  fs_frame f f' -> wget f' (r_path x) = wget f (r_path x) -> mat_pre fl f x c -> mat_pre fl f' x c.
Proof.
  intros FR Hw. unfold mat_pre. cbv zeta. rewrite Hw. destruct (wget f (r_path x)) as [[i|b]|] eqn:G; auto.
  - intros [(F7 & d & n & RD & O & I & Bt)|P].
    + left. split; auto. exists d, n. rsplit; auto. rewrite (frame_oget _ _ _ FR); auto. destruct FR; auto.
    + right. eapply private_stable; eauto. congruence.
  - intros (d & RD & -> & H). exists d. rsplit; auto. eapply frame_holds; eauto.
Qed.
Lemma private_rm f f' p c : rm_rel f f' -> private_file f p c -> private_file f' p c.
Proof.
  intros [A N B C D] (j & n & W & I & Wr & Bt & NO). destruct (C _ _ I) as (n' & I' & E' & W').
  exists j, n'. rsplit; auto; try congruence.
  - unfold wget in *. rewrite A. exact W.
  - intros a G. apply B in G. eapply NO; eauto.
Qed.

Lemma holds_obj_exists f a c : holds f a c -> obj_exists f a = true.
Proof. intros (i & n & Ho & _ & _). unfold obj_exists. rewrite Ho, resolve_file. reflexivity. Qed.

(* the first target of the loop *)
Lemma mat_head fl f e x t f' oc :
  wf_fs f -> objs_bounded f -> materialise fl f ((e, x) :: t) = (f', oc) ->
  exists f1, fs_frame f f1 /\ objs_bounded f1 /\ (forall q, q <> r_path x -> wget f1 q = wget f q) /\
    ((oc = Panic /\ f' = f1) \/
     (materialise fl f1 t = (f', oc) /\ forall c, mat_pre fl f x c -> private_file f1 (r_path x) c)).
Proof.
  intros W OB. cbn [materialise]. cbv zeta.
  assert (SAME : forall P : Prop, P -> fs_frame f f /\ objs_bounded f /\ (forall q, q <> r_path x -> wget f q = wget f q) /\ P)
    by (intros; rsplit; auto using fs_frame_refl).
  unfold mat_pre. cbv zeta.
  destruct (wget f (r_path x)) as [en|] eqn:G.
  2:{ destruct (fixed_P8 fl); intros E; exists f; apply SAME; [right; split; auto; intros c []|left; injection E as <- <-; auto]. }
  destruct (r_digest x) as [d|] eqn:RD.
  2:{ destruct en as [i|b].
      - intros E; exists f; apply SAME. right; split; auto. intros c [(_ & d & n & X & _)|P]; [discriminate|exact P].
      - destruct (fixed_P8 fl); intros E; exists f; apply SAME; [right; split; auto; intros c (d & X & _); discriminate|left; injection E as <- <-; auto]. }
  destruct (needs_copy fl f en (cache_addr (r_path x) d)) eqn:NC.
  - destruct (fixed_P47 fl && negb (obj_exists f (cache_addr (r_path x) d))) eqn:SK.
    { (* the object is not in the cache: the entry is left as it is; no precondition of the claim holds *)
      intros E; exists f; apply SAME. right; split; auto. intros c PRE. exfalso.
      apply andb_true_iff in SK as [_ SK]. apply negb_true_iff in SK.
      assert (H : holds f (cache_addr (r_path x) d) c).
      { destruct en as [i|b].
        - destruct PRE as [(_ & d' & n & RD' & O & I & Bt)|P].
          + injection RD' as <-. exists i, n. auto.
          + cbn [needs_copy] in NC. rewrite (private_not_object f (r_path x) c i _ P G) in NC. rewrite andb_false_r in NC. discriminate.
        - destruct PRE as (d' & RD' & -> & H). injection RD' as <-. exact H. }
      rewrite (holds_obj_exists _ _ _ H) in SK. discriminate. }
    destruct (recheck_from_cache f (r_path x) (cache_addr (r_path x) d) Copy) as [f1 oc1] eqn:RF.
    destruct (rfc_frame _ _ _ _ _ _ W RF) as (FR & WS).
    assert (OB1 : objs_bounded f1) by (eapply bounded_frame; eauto).
    destruct oc1.
    2,3: (intros E; injection E as <- <-; exists f1; split; [exact FR|]; split; [exact OB1|]; split; [exact WS|]; left; auto).
    intros E. exists f1. split; [exact FR|]. split; [exact OB1|]. split; [exact WS|]. right. split; [exact E|]. intros c PRE.
    assert (H : holds f (cache_addr (r_path x) d) c).
    { destruct en as [i|b].
      - destruct PRE as [(_ & d' & n & RD' & O & I & Bt)|P].
        + injection RD' as <-. exists i, n. auto.
        + cbn [needs_copy] in NC. rewrite (private_not_object f (r_path x) c i _ P G) in NC. rewrite andb_false_r in NC. discriminate.
      - destruct PRE as (d' & RD' & -> & H). injection RD' as <-. exact H. }
    destruct (rfc_copy_entry _ _ _ _ _ W H RF) as (Hw & Hi & Nx).
    eexists _, _. rsplit; [exact Hw|exact Hi|reflexivity|reflexivity|].
    intros a O. rewrite (frame_oget _ _ _ FR) in O. apply OB in O. lia.
  - intros E; exists f; apply SAME. right; split; auto. intros c PRE.
    destruct en as [i|b]; [|discriminate].
    destruct PRE as [(F7 & d' & n & RD' & O & I & Bt)|P]; auto.
    exfalso. injection RD' as <-. cbn [needs_copy] in NC. rewrite F7 in NC. cbn in NC.
    unfold same_inode_as_object in NC. rewrite O, resolve_file, N.eqb_refl in NC. discriminate.
Qed.

Lemma materialise_spec fl : forall tg f f' oc,
  wf_fs f -> objs_bounded f -> materialise fl f tg = (f', oc) ->
  fs_frame f f' /\ objs_bounded f' /\
  (forall q, (forall e x, In (e, x) tg -> r_path x <> q) -> wget f' q = wget f q) /\
  (oc = Ok \/ oc = Panic) /\
  (oc = Ok -> NoDup (map (fun ex : N * frec => r_path (snd ex)) tg) ->
     forall e x c, In (e, x) tg -> mat_pre fl f x c -> private_file f' (r_path x) c).
Proof.
  induction tg as [|[e0 x0] t IH]; intros f f' oc W OB E.
  - cbn in E. injection E as <- <-. rsplit; auto using fs_frame_refl. intros _ _ e x c [].
  - destruct (mat_head _ _ _ _ _ _ _ W OB E) as (f1 & FR1 & OB1 & WS1 & [(-> & ->)|(E1 & HEAD)]).
    + rsplit; auto.
      * intros q NQ. apply WS1. intros ->. eapply NQ; [left; reflexivity|reflexivity].
      * discriminate.
    + assert (W1 : wf_fs f1) by (destruct FR1; auto).
      destruct (IH f1 f' oc W1 OB1 E1) as (FR2 & OB2 & WS2 & OC2 & PF2).
      rsplit; auto.
      * eapply fs_frame_trans; eauto.
      * intros q NQ. rewrite WS2; [apply WS1|]; [intros ->; eapply NQ; [left; reflexivity|reflexivity] | intros e x I; eapply NQ; right; eauto].
      * intros OK ND e x c IN PRE. cbn [map snd] in ND. inversion ND as [|? ? Hn ND']; subst.
        destruct IN as [IN|IN].
        -- injection IN as <- <-. eapply private_stable; [exact FR2| |apply HEAD; auto].
           apply WS2. intros e x I EQ. apply Hn. rewrite <- EQ. apply in_map_iff. exists (e, x). auto.
        -- eapply PF2; eauto. eapply mat_pre_stable; eauto. apply WS1. intros EQ. apply Hn. rewrite <- EQ.
           apply in_map_iff. exists (e, x). auto.
Qed.

Lemma paths_nodup b : wf_recs b -> NoDup (map (fun ex : N * frec => r_path (snd ex)) (recs b)).
Proof.
  intros [K P _]. revert K P. generalize (recs b) as l. induction l as [|[e x] t IH]; cbn; [constructor|].
  intros K P. inversion K as [|? ? Hn K']; subst. constructor.
  - intros I. apply in_map_iff in I. destruct I as ([e' x'] & E & I). cbn in E.
    assert (e = e') by (eapply P; [left; reflexivity|right; exact I|auto]). subst e'.
    apply Hn. change e with (fst (e, x')). now apply in_map.
  - apply IH; auto. intros e1 x1 e2 x2 I1 I2. apply P; now right.
Qed.

Lemma select_target r targets e x k v :
  In (e, x) (select r targets) -> In (k, v) (recs (base r)) -> r_path v = r_path x -> is_target (select r targets) k = true.
Proof.
  intros I Ik EP. unfold is_target. apply existsb_exists. exists (k, v). split; [|cbn; apply N.eqb_refl].
  unfold select in *. apply filter_In in I. apply filter_In. cbn [snd] in *. rewrite EP. tauto.
Qed.
Lemma is_target_in tg e x : In (e, x) tg -> is_target tg e = true.
Proof. intros I. unfold is_target. apply existsb_exists. exists (e, x). split; auto. cbn. apply N.eqb_refl. Qed.

Theorem untrack_cmd_spec fl targets r r' oc :
  wf_fs (xfs r) -> objs_bounded (xfs r) -> wf_recs (base r) ->
  untrack_cmd fl targets r = (r', oc) ->
  let tg := select r targets in
  (* objects: only deleted, and only when every referrer is a target *)
  (forall a, obj_present (xfs r) a -> ~ obj_present (xfs r') a ->
     forall e x, In (e, x) (recs (base r)) -> refers x a = true -> is_target tg e = true) /\
  (forall a en, oget (xfs r') a = Some en -> oget (xfs r) a = Some en) /\
  (* the other paths keep their records and every recorded version that was in the cache *)
  (forall e x, In (e, x) (recs (base r)) -> is_target tg e = false ->
     In (e, x) (recs (base r')) /\
     forall d c, In d (r_hist x) -> holds (xfs r) (cache_addr (r_path x) d) c -> holds (xfs r') (cache_addr (r_path x) d) c) /\
  (* the targets *)
  (oc = Ok -> forall e x, In (e, x) tg ->
     (forall k v, In (k, v) (recs (base r')) -> r_path v <> r_path x) /\
     forall c, mat_pre fl (xfs r) x c -> private_file (xfs r') (r_path x) c).
Proof.
  intros W OB WR. unfold untrack_cmd. cbv zeta.
  set (all := recs (base r)). set (tg := select r targets). set (tdirs := select_dirs r targets).
  assert (TRIV : forall f1 oc1, fs_frame (xfs r) f1 -> oc1 <> Ok ->
            (set_xfs r f1, oc1) = (r', oc) ->
            (forall a, obj_present (xfs r) a -> ~ obj_present (xfs r') a -> forall e x, In (e, x) all -> refers x a = true -> is_target tg e = true) /\
            (forall a en, oget (xfs r') a = Some en -> oget (xfs r) a = Some en) /\
            (forall e x, In (e, x) all -> is_target tg e = false -> In (e, x) (recs (base r')) /\
               forall d c, In d (r_hist x) -> holds (xfs r) (cache_addr (r_path x) d) c -> holds (xfs r') (cache_addr (r_path x) d) c) /\
            (oc = Ok -> forall e x, In (e, x) tg -> (forall k v, In (k, v) (recs (base r')) -> r_path v <> r_path x) /\
               forall c, mat_pre fl (xfs r) x c -> private_file (xfs r') (r_path x) c)).
  { intros f1 oc1 FR NO E; injection E as <- <-. change (xfs (set_xfs r f1)) with f1. rsplit.
    - intros a P NP. exfalso. apply NP. unfold obj_present in *. rewrite (frame_oget _ _ _ FR). exact P.
    - intros a en. rewrite (frame_oget _ _ _ FR). auto.
    - intros e x I NT. split; [exact I|]. intros d c _ H. eapply frame_holds; eauto.
    - intros ->; congruence. }
  destruct (negb (fixed_P8 fl) && match tdirs with [] => false | _ => true end).
  { intros E. apply (TRIV (xfs r) Panic); [apply fs_frame_refl; auto|discriminate|].
    rewrite <- E. unfold set_xfs, set_base, set_fs, xfs. destruct r as [[? ? ? ? ? ?] ?]; reflexivity. }
  destruct (materialise fl (xfs r) tg) as [f1 oc1] eqn:MT.
  destruct (materialise_spec fl tg _ _ _ W OB MT) as (FR & OB1 & WS & OC & PF).
  destruct oc1.
  2,3: (intros E; apply (TRIV f1 Panic); [exact FR|discriminate|exact E]).
  intros E; injection E as <- <-.
  match goal with |- context [fold_left (cache_remove _) ?dl _] => set (del := dl) end.
  match goal with |- context [set_xfs ?rr _] => set (r1 := rr) end.
  change (xfs (set_xfs r1 ?f)) with f. change (recs (base (set_xfs r1 ?f))) with (filter (fun ex : N * frec => negb (is_target tg (fst ex))) all).
  change (xfs r1) with f1.
  destruct (removal_respects (fixed_P50 fl) all tg del f1) as (RM & RESP & KEEP).
  { intros a I. unfold del in I. apply filter_In in I. tauto. }
  rsplit.
  - intros a P NP. apply RESP; auto. unfold obj_present in *. rewrite (frame_oget _ _ _ FR). exact P.
  - intros a en G. destruct RM as [_ _ B _ _]. apply B in G. rewrite (frame_oget _ _ _ FR) in G. exact G.
  - intros e x I NT. split.
    + apply filter_In. split; auto. cbn. now rewrite NT.
    + intros d c ID H. apply (KEEP e x d c I NT ID). eapply frame_holds; eauto.
  - intros _ e x IT. split.
    + intros k v I EP. apply filter_In in I. destruct I as (I & NT). cbn in NT.
      pose proof (select_target r targets e x k v IT I EP) as TT. fold tg in TT. rewrite TT in NT. discriminate.
    + intros c PRE. eapply private_rm; [exact RM|]. apply (PF eq_refl) with (e := e); auto.
      unfold tg, select. apply sublist_filter_nodup. apply paths_nodup; auto.
Qed.

(* ---- a source that is not in the workspace ------------------------------------------------------------------------------------------ *)
Lemma absent_not_changed r x : ws_meta (xfs r) (r_path x) = None -> changed r x = false.
Proof.
  intros A. unfold changed, digest_diff. cbv zeta. change (fs (base r)) with (xfs r). rewrite A.
  destruct (meta_eqb (r_meta x) None); reflexivity.
Qed.

Lemma recheck_dests_succeeds : forall ps r,
  wf_fs (xfs r) -> NoDup ps ->
  (forall p, In p ps -> exists e x d c, find_path (recs (base r)) p = Some (e, x) /\ r_digest x = Some d /\
       holds (xfs r) (cache_addr p d) c /\ (ws_exists (xfs r) p = true \/ wget (xfs r) p = None)) ->
  exists r', recheck_dests r ps = (r', Ok).
Proof.
  induction ps as [|p t IH]; intros r W ND H; cbn [recheck_dests]; [eauto|].
  destruct (H p (or_introl eq_refl)) as (e & x & d & c & FP & RD & HO & WS). rewrite FP, RD.
  destruct (rfc_succeeds (xfs r) p (cache_addr p d) (r_method x) c W HO WS) as (f1 & RF). rewrite RF.
  destruct (rfc_frame _ _ _ _ _ _ W RF) as (FR & WSF).
  inversion ND as [|? ? Hn ND']; subst.
  apply IH; auto.
  - change (xfs (set_xfs r f1)) with f1. destruct FR; auto.
  - intros q I. destruct (H q (or_intror I)) as (e' & x' & d' & c' & FP' & RD' & HO' & WS').
    exists e', x', d', c'. change (xfs (set_xfs r f1)) with f1. change (recs (base (set_xfs r f1))) with (recs (base r)).
    assert (NE : q <> p) by (intros ->; auto).
    rsplit; auto; [eapply frame_holds; eauto|].
    rewrite (ws_exists_frame _ _ q FR (WSF q NE)), (WSF q NE). exact WS'.
Qed.

(* one source that is absent from the workspace, a new destination file with the same extension, the
   committed object in the cache: copy goes through, the destination is tracked with the source's
   digest and (unless --no-recheck) reads the committed bytes *)
Theorem copy_absent_source o src dst r e x dg c :
  wf_fs (xfs r) -> wf_recs (base r) ->
  sources r src = [(e, x)] -> ends_slash dst = false -> stored r dst = false ->
  ws_meta (xfs r) (r_path x) = None ->
  r_digest x = Some dg -> extension dst = extension (r_path x) -> holds (xfs r) (cache_addr (r_path x) dg) c ->
  ws_lexists (xfs r) dst = false ->
  exists r', copy_cmd o src dst r = (r', Ok) /\
    (exists e' y, In (e', y) (recs (base r')) /\ copied_as o x y dst) /\
    (c_no_recheck o = false -> ws_read (xfs r') dst = Some c).
Proof.
  intros Wf Wr SR ES ST AB RD EX HO LX.
  assert (WS : ws_exists (xfs r) dst = true \/ wget (xfs r) dst = None).
  { right. unfold ws_lexists in LX. destruct (wget (xfs r) dst); [discriminate|reflexivity]. }
  assert (PL : copy_plan o src dst r = CPlanned [plan_pair r x dst] false).
  { unfold copy_plan. rewrite SR, ES. cbn [map snd length Nat.ltb Nat.leb andb existsb].
    rewrite (absent_not_changed r x AB). cbn [orb]. rewrite pair_taken_stored, ST. cbn [andb].
    unfold copy_checked, untracked_dest_exists. cbn [existsb cd_path plan_pair]. rewrite LX, andb_false_r. cbn [orb].
    rewrite andb_false_r. reflexivity. }
  assert (ND : NoDup (map cd_path [plan_pair r x dst])) by (cbn; constructor; [tauto|constructor]).
  assert (AC : forall c0, In c0 [plan_pair r x dst] -> plan_acc (recs (base r)) c0) by (intros c0 [<-|[]]; apply plan_pair_acc).
  unfold copy_cmd. rewrite PL.
  destruct (copy_records_spec o [plan_pair r x dst] r Wr ND AC) as (W1 & F1 & C1 & O1).
  destruct (C1 _ (or_introl eq_refl)) as (e' & y & IN & CA). cbn [cs_rec cd_path plan_pair] in CA.
  unfold copy_apply. set (r1 := fold_left (copy_records_one o) [plan_pair r x dst] r) in *.
  destruct (c_no_recheck o) eqn:NR.
  - exists r1. rsplit; eauto. discriminate.
  - assert (Wf1 : wf_fs (xfs r1)) by (rewrite F1; auto).
    destruct (recheck_dests_succeeds [dst] r1 Wf1) as (r2 & RDS).
    + constructor; [tauto|constructor].
    + intros p [<-|[]]. destruct CA as (EP & DG & _). exists e', y, dg, c. rewrite F1.
      rsplit; auto; [apply find_path_unique; auto|]. rewrite (same_ext_same_addr _ _ dg EX). exact HO.
    + assert (RDS' : recheck_dests r1 (map cd_path [plan_pair r x dst]) = (r2, Ok)) by exact RDS.
      exists r2. rewrite RDS'. cbn [worst].
      destruct (recheck_dests_spec _ _ _ _ Wf1 RDS) as (R & _ & _ & _ & _ & RD2).
      rsplit; auto.
      * exists e', y. rewrite R. auto.
      * intros _. destruct CA as (EP & DG & _).
        assert (NDd : NoDup [dst]) by (constructor; [intros []|constructor]).
        assert (FPd : find_path (recs (base r1)) dst = Some (e', y)) by (apply find_path_unique; auto).
        assert (HOd : holds (xfs r1) (cache_addr dst dg) c) by (rewrite F1, (same_ext_same_addr _ _ dg EX); exact HO).
        exact (RD2 eq_refl NDd dst e' y dg c (or_introl eq_refl) FPd (DG dg RD) HOd).
Qed.

From Coq Require Import PeanoNat.
Lemma remove_ambiguous fl any ds f targets r :
  (1 < length (flat_map (fun ex => filter (version_matches any ds) (addrs_of (snd ex))) (select r targets)))%nat ->
  remove_cmd fl {| rm_versions := VOnly any ds; rm_force := f |} targets r = (r, Err).
Proof.
  intros H. unfold remove_cmd. cbn [rm_versions]. apply Nat.ltb_lt in H. rewrite H. reflexivity.
Qed.

Lemma restorable f p a m c :
  wf_fs f -> holds f a c -> (ws_exists f p = true \/ wget f p = None) ->
  exists f', recheck_from_cache f p a m = (f', Ok) /\ ws_read f' p = Some c.
Proof.
  intros W H P. destruct (rfc_succeeds f p a m c W H P) as (f' & E). exists f'. split; [exact E|].
  exact (rfc_reads f p a m f' c W H E).
Qed.

(* the repair of P4: a destination that exists in the workspace is never replaced without --force *)
Lemma copy_refuses_existing o src dst r :
  ends_slash dst = false -> c_cforce o = false -> ws_lexists (xfs r) dst = true ->
  exists oc, copy_cmd o src dst r = (r, oc) /\ oc <> Ok.
Proof.
  intros ES NF LX. unfold copy_cmd, copy_plan. rewrite ES, NF.
  destruct (Nat.ltb 1 (length (map snd (sources r src))) && negb false); [exists Err; split; auto; discriminate|].
  destruct (existsb (changed r) (map snd (sources r src))); [exists Err; split; auto; discriminate|].
  destruct (map snd (sources r src)) as [|x t]; [exists Panic; split; auto; discriminate|].
  destruct (pair_taken (plan_pair r x dst)) eqn:PT; cbn [andb negb]; [exists Err; split; auto; discriminate|].
  unfold copy_checked, untracked_dest_exists. rewrite NF. cbn [existsb negb andb cd_path plan_pair]. rewrite PT, LX. cbn.
  exists Err; split; auto; discriminate.
Qed.
Lemma move_refuses_existing fl o src dst r :
  ends_slash dst = false -> ws_lexists (xfs r) dst = true ->
  exists oc, move_cmd fl o src dst r = (r, oc) /\ oc <> Ok.
Proof.
  intros ES LX. unfold move_cmd, move_plan. rewrite ES.
  destruct (Nat.ltb 1 (length (sources r src)) && negb false); [exists Err; split; auto; discriminate|].
  destruct (existsb (fun ex => changed r (snd ex)) (sources r src)); [exists Err; split; auto; discriminate|].
  destruct (sources r src) as [|[e x] t]; [exists Panic; split; auto; discriminate|].
  destruct (stored r dst); [exists Err; split; auto; discriminate|].
  unfold move_checked. cbn [existsb snd]. rewrite LX. cbn. exists Err; split; auto; discriminate.
Qed.

(* ---- move of one source that is absent from the workspace ---------------------------------------------------------------------------- *)
Definition dest_method (o : move_opts) (x : frec) : method := match m_as o with Some m => m | None => r_method x end.
Definition both_copy (o : move_opts) (x : frec) : bool :=
  match r_method x, dest_method o x with Copy, Copy => true | _, _ => false end.

Lemma move_loop_absent_single fl o f e x d :
  ws_exists f (r_path x) = false -> beqb (r_path x) d = false ->
  (fixed_mv_absent fl = true \/ both_copy o x = false) ->
  exists ups, move_loop fl o f [(e, x, d)] [] [] = (f, Some (ups, [d])).
Proof.
  intros A NE H. cbn [move_loop]. unfold both_copy, dest_method in H.
  destruct (r_method x) eqn:SM; destruct (match m_as o with Some m => m | None => _ end) eqn:DM;
    rewrite ?A; cbn [app]; eauto.
  rewrite NE. destruct H as [H|H]; [|discriminate]. rewrite H. cbn. eauto.
Qed.

Theorem move_absent_source fl o src dst r e x dg c :
  wf_fs (xfs r) -> wf_recs (base r) ->
  sources r src = [(e, x)] -> ends_slash dst = false -> stored r dst = false -> ws_lexists (xfs r) dst = false ->
  wget (xfs r) (r_path x) = None ->
  r_digest x = Some dg -> extension dst = extension (r_path x) -> holds (xfs r) (cache_addr (r_path x) dg) c ->
  (fixed_mv_absent fl = true \/ both_copy o x = false) ->
  exists r', move_cmd fl o src dst r = (r', Ok) /\
    (forall e' y, In (e', y) (recs (base r')) -> r_path y <> r_path x) /\
    (m_no_recheck o = false -> ws_read (xfs r') dst = Some c).
Proof.
  intros Wf Wr SR ES ST LX AB RD EX HO FX.
  assert (IN : In (e, x) (recs (base r))) by (apply (sources_in r src); rewrite SR; now left).
  assert (NE : beqb (r_path x) dst = false).
  { destruct (beqb_spec (r_path x) dst) as [EQ|]; auto. exfalso. eapply (stored_false_no_record r dst ST); eauto. }
  assert (WD : wget (xfs r) dst = None) by (unfold ws_lexists in LX; destruct (wget (xfs r) dst); [discriminate|reflexivity]).
  assert (ABm : ws_meta (xfs r) (r_path x) = None) by (unfold ws_meta; rewrite AB; reflexivity).
  assert (ABe : ws_exists (xfs r) (r_path x) = false) by (apply ws_exists_none; auto).
  assert (PL : move_plan src dst r = MPlanned [(e, x, dst)]).
  { unfold move_plan. rewrite SR, ES. cbn [length Nat.ltb Nat.leb andb existsb snd].
    rewrite (absent_not_changed r x ABm), ST. cbn [orb]. unfold move_checked. cbn [existsb snd]. rewrite LX. reflexivity. }
  pose proof (move_plan_is_ok src dst r _ Wr PL) as OKP.
  unfold move_cmd. rewrite PL.
  destruct (move_apply fl o r [(e, x, dst)]) as [r' oc] eqn:E.
  destruct (move_apply_spec fl o r _ r' oc Wf Wr OKP E) as (_ & _ & _ & RES & _).
  destruct (RES e x dst (or_introl eq_refl)) as (NOS & _).
  (* the run of move_apply on the single pair *)
  unfold move_apply in E. destruct Wr as [K P F]. destruct OKP as [MI MN MJ MD].
  destruct (move_paths_spec [(e, x, dst)] r K MD) as (K1 & F1 & N1 & C1 & L1).
  set (r1 := fold_left move_path_one [(e, x, dst)] r) in *.
  assert (ABe1 : ws_exists (xfs r1) (r_path x) = false) by (rewrite F1; exact ABe).
  destruct (move_loop_absent_single fl o (xfs r1) e x dst ABe1 NE FX) as (ups & ML).
  match type of E with context [move_loop ?a1 ?a2 ?a3 ?a4 ?a5 ?a6] =>
    replace (move_loop a1 a2 a3 a4 a5 a6) with (xfs r1, Some (ups, [dst])) in E by (symmetry; exact ML) end.
  destruct (set_methods_spec ups (base (set_xfs r1 (xfs r1))) K1) as (K3 & F3 & N3 & L3 & B3 & C3).
  set (r3 := set_base (set_xfs r1 (xfs r1)) (fold_left set_method ups (base (set_xfs r1 (xfs r1))))) in *.
  assert (X3 : xfs r3 = xfs r).
  { change (fs (fold_left set_method ups (base (set_xfs r1 (xfs r1)))) = xfs r). rewrite F3. exact F1. }
  destruct (m_no_recheck o) eqn:NR.
  - injection E as <- <-. exists r3. rsplit; auto. discriminate.
  - (* the record of the destination in r3 *)
    assert (I1 : In (e, moved x dst) (recs (base r1))) by (apply C1; left; exists x, dst; split; [now left|reflexivity]).
    destruct (C3 _ _ I1) as (y & Iy & (SP & SM & SD & SH & ST')).
    assert (FP : find_path (recs (base r3)) dst = Some (e, y)).
    { destruct (find_path_some_of_In _ dst _ _ Iy SP) as ([e' y'] & FP). transitivity (Some (e', y')); [exact FP|].
      destruct (find_path_In _ _ _ _ FP) as (I' & P').
      destruct (B3 _ _ I') as (v & Iv & (SPv & _)).
      apply C1 in Iv. destruct Iv as [(x0 & d0 & [J|[]] & ->)|[_ Iv]].
      - injection J as -> _ _. apply (In_get _ _ _ K3) in I'. apply (In_get _ _ _ K3) in Iy. congruence.
      - exfalso. eapply (stored_false_no_record r dst ST); [exact Iv|congruence]. }
    assert (HO3 : holds (xfs r3) (cache_addr dst dg) c) by (rewrite X3, (same_ext_same_addr _ _ dg EX); exact HO).
    assert (Wf3 : wf_fs (xfs r3)) by (rewrite X3; exact Wf).
    destruct (recheck_dests_succeeds [dst] r3 Wf3) as (r4 & RDS).
    + constructor; [intros []|constructor].
    + intros p [<-|[]]. exists e, y, dg, c. rsplit; auto; [cbn in SD; congruence|]. right. rewrite X3. exact WD.
    + assert (E' : recheck_dests r3 [dst] = (r', oc)) by exact E. rewrite RDS in E'. injection E' as <- <-.
      exists r4. rsplit; auto. intros _.
      destruct (recheck_dests_spec _ _ _ _ Wf3 RDS) as (_ & _ & _ & _ & _ & RD2).
      assert (NDd : NoDup [dst]) by (constructor; [intros []|constructor]).
      assert (DGy : r_digest y = Some dg) by (cbn in SD; congruence).
      exact (RD2 eq_refl NDd dst e y dg c (or_introl eq_refl) FP DGy HO3).
Qed.
