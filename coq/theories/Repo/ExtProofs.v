(* Proofs about the extension of M-REPO (copy / move / remove / untrack). *)
From Coq Require Import List Bool NArith Lia.
From XV Require Import Base.Amap Base.Bytes Repo.Model Glob.Match Repo.Ext.
Import ListNotations.

(* ---- concrete material for the Examples and the refutation witnesses ------------------------- *)
Definition s_a_txt : bytes := [97; 46; 116; 120; 116].          (* a.txt *)
Definition s_b_txt : bytes := [98; 46; 116; 120; 116].          (* b.txt *)
Definition s_c_txt : bytes := [99; 46; 116; 120; 116].          (* c.txt *)
Definition s_b_dat : bytes := [98; 46; 100; 97; 116].           (* b.dat *)
Definition s_hello : bytes := [104; 101; 108; 108; 111; 10].    (* hello\n *)
Definition s_other : bytes := [111; 116; 104; 101; 114].        (* other *)
Definition t_plain : track_opts := {| t_method := None; t_tob := None; t_no_commit := false; t_force := false |}.
Definition t_with (m : method) : track_opts := {| t_method := Some m; t_tob := None; t_no_commit := false; t_force := false |}.
Definition c_plain : copy_opts := {| c_as := None; c_cforce := false; c_no_recheck := false; c_name_only := false |}.
Definition m_plain : move_opts := {| m_as := None; m_no_recheck := false |}.
Definition r0 : xrepo := xinit B3 Copy Auto.
