(* Part B: the effect lists of the modelled commands obey the discipline of Crash/Model.v
   ([all_ok], [all_meta_ok]) from every file system whose cache objects are intact; with
   Crash/Proofs.v this gives the clauses of C07 at every crash point of every command. *)
From Coq Require Import List Bool NArith Lia.
From XV Require Import Base.Amap Base.Bytes Crash.Model Crash.Proofs.
Import ListNotations.

(* ---- running a list ---------------------------------------------------------------------------------- *)
Definition opened_all (op : list path) (l : list fsop) : list path := fold_left opened_after l op.

Lemma apply_all_app l1 l2 f : apply_all (l1 ++ l2) f = apply_all l2 (apply_all l1 f).
Proof. unfold apply_all. apply fold_left_app. Qed.

Lemma all_ok_app s l1 : forall f op l2,
  all_ok s f op (l1 ++ l2) = all_ok s f op l1 && all_ok s (apply_all l1 f) (opened_all op l1) l2.
Proof.
  induction l1 as [|o r IH]; intros f op l2; cbn; [reflexivity|].
  rewrite IH. now rewrite andb_assoc.
Qed.

Lemma all_meta_ok_app l1 : forall f l2,
  all_meta_ok f (l1 ++ l2) = all_meta_ok f l1 && all_meta_ok (apply_all l1 f) l2.
Proof.
  induction l1 as [|o r IH]; intros f l2; cbn; [reflexivity|].
  rewrite IH. now rewrite andb_assoc.
Qed.

Lemma intact_apply_all s l : forall f op, all_ok s f op l = true -> objects_intact f = true ->
  objects_intact (apply_all l f) = true.
Proof.
  induction l as [|o r IH]; intros f op A I; cbn; [exact I|].
  cbn in A. apply andb_true_iff in A as [A1 A2]. eapply IH; eauto. eapply intact_step; eauto.
Qed.

Lemma holds_apply_all s l c : forall f op, all_ok s f op l = true -> obj_holds f c = true ->
  obj_holds (apply_all l f) c = true.
Proof.
  induction l as [|o r IH]; intros f op A H; cbn; [exact H|].
  cbn in A. apply andb_true_iff in A as [A1 A2]. eapply IH; eauto. eapply holds_step; eauto.
Qed.

(* ---- frame: an effect changes only the locations it names ------------------------------------------------ *)
Definition touches (o : fsop) (x : loc) : bool :=
  match o with
  | Mkdir p | Creat p | Touch p | Append p _ | WriteMeta p _ | Unlink p | Chmod p _ => loc_eqb p x
  | Rename p q => loc_eqb p x || loc_eqb q x
  | Link _ q => loc_eqb q x
  | Symlink _ p => loc_eqb p x
  | CopyChunk _ dst _ => loc_eqb dst x
  end.

Lemma fget_frame o f x : touches o x = false -> fget (apply o f) x = fget f x.
Proof.
  intros T. rewrite fget_apply.
  destruct o; cbn [touches written removed] in *;
    try (apply orb_false_iff in T as [T1 T2]);
    repeat match goal with
           | |- context [match fget ?f ?y with _ => _ end] => destruct (fget f y) as [[| [|] | |]|]
           end;
    rewrite ?T, ?T1, ?T2; reflexivity.
Qed.

Definition avoids (x : loc) (l : list fsop) : bool := forallb (fun o => negb (touches o x)) l.

Lemma fget_frame_all x l : forall f, avoids x l = true -> fget (apply_all l f) x = fget f x.
Proof.
  induction l as [|o r IH]; intros f A; cbn; [reflexivity|].
  cbn in A. apply andb_true_iff in A as [A1 A2]. apply negb_true_iff in A1.
  rewrite IH by exact A2. now apply fget_frame.
Qed.

Lemma avoids_app x l1 l2 : avoids x (l1 ++ l2) = avoids x l1 && avoids x l2.
Proof. unfold avoids. apply forallb_app. Qed.

(* ---- effects that never put anything under a listed name ---------------------------------------------------- *)
Definition benign (o : fsop) : bool :=
  match o with
  | Rename _ q => negb (listed_meta q)
  | Unlink _ => true
  | Mkdir l | Creat l | Touch l | Append l _ | WriteMeta l _ | Link _ l | Symlink _ l | Chmod l _ | CopyChunk _ l _ =>
      negb (listed_meta l)
  end.

Lemma benign_meta_ok o f : benign o = true -> meta_ok f o = true.
Proof. destruct o; cbn; intros H; rewrite ?H; reflexivity. Qed.

Lemma benign_all_meta_ok l : forall f, forallb benign l = true -> all_meta_ok f l = true.
Proof.
  induction l as [|o r IH]; intros f H; cbn; [reflexivity|].
  cbn in H. apply andb_true_iff in H as [H1 H2]. rewrite benign_meta_ok by exact H1. now apply IH.
Qed.

(* ---- saving stores and the counter ---------------------------------------------------------------------------- *)
Section Blocks.
Variable fixed : bool.
Variable chunk : N.

Lemma save_file_store_ok s f op sd n pl :
  all_ok s f op (save_file fixed (LStore sd n) (LStoreTmp sd n) pl) = true /\
  opened_all op (save_file fixed (LStore sd n) (LStoreTmp sd n) pl) = op.
Proof. unfold save_file; destruct fixed; cbn; auto. Qed.

Lemma save_file_ec_ok s f op n pl :
  all_ok s f op (save_file fixed (LEc n) (LEcTmp n) pl) = true /\
  opened_all op (save_file fixed (LEc n) (LEcTmp n) pl) = op.
Proof. unfold save_file; destruct fixed; cbn; auto. Qed.

Lemma save_store_ok s f op sd evs :
  all_ok s f op (save_store fixed f sd evs) = true /\ opened_all op (save_store fixed f sd evs) = op.
Proof. unfold save_store. destruct evs; [cbn; auto|]. apply save_file_store_ok. Qed.

Lemma save_store_avoids f sd evs x : is_meta_loc x = false -> avoids x (save_store fixed f sd evs) = true.
Proof.
  intros H. unfold save_store, save_file. destruct evs; [reflexivity|].
  destruct fixed; destruct x; cbn in *; try discriminate; reflexivity.
Qed.

Lemma save_ec_avoids f k x : is_meta_loc x = false -> avoids x (save_ec fixed f k) = true.
Proof.
  intros H. unfold save_ec, save_file. destruct fixed; destruct x; cbn in *; try discriminate; reflexivity.
Qed.

Lemma save_stores_ok s l : forall f op,
  all_ok s f op (save_stores fixed f l) = true /\ opened_all op (save_stores fixed f l) = op.
Proof.
  induction l as [|[sd evs] r IH]; intros f op; cbn [save_stores]; [cbn; auto|].
  unfold then_ops. rewrite all_ok_app. unfold opened_all. rewrite fold_left_app.
  destruct (save_store_ok s f op sd evs) as [A B]. unfold opened_all in B. rewrite A, B.
  apply IH.
Qed.

Lemma save_stores_avoids x l : is_meta_loc x = false -> forall f, avoids x (save_stores fixed f l) = true.
Proof.
  intros H. induction l as [|[sd evs] r IH]; intros f; cbn [save_stores]; [reflexivity|].
  unfold then_ops. rewrite avoids_app, save_store_avoids by exact H. apply IH.
Qed.

End Blocks.

(* the fixed way of saving puts only a complete payload under a listed name *)
Lemma save_file_store_meta_ok f sd n evs :
  all_meta_ok f (save_file true (LStore sd n) (LStoreTmp sd n) (PEvents evs)) = true.
Proof.
  unfold save_file. cbn [all_meta_ok meta_ok listed_meta negb andb orb].
  rewrite fget_apply. cbn [written]. rewrite fget_apply. cbn [written is_meta_loc].
  rewrite !loc_eqb_refl. reflexivity.
Qed.

Lemma save_file_ec_meta_ok f n k :
  all_meta_ok f (save_file true (LEc n) (LEcTmp n) (PCounter k)) = true.
Proof.
  unfold save_file. cbn [all_meta_ok meta_ok listed_meta negb andb orb].
  rewrite fget_apply. cbn [written]. rewrite fget_apply. cbn [written is_meta_loc].
  rewrite !loc_eqb_refl. reflexivity.
Qed.

Lemma save_stores_meta_ok l : forall f, all_meta_ok f (save_stores true f l) = true.
Proof.
  induction l as [|[sd evs] r IH]; intros f; cbn [save_stores]; [reflexivity|].
  unfold then_ops. rewrite all_meta_ok_app, IH, andb_true_r.
  unfold save_store. destruct evs; [reflexivity|]. apply save_file_store_meta_ok.
Qed.

(* ---- moving content -------------------------------------------------------------------------------------------- *)
Lemma exists_intact_holds f c : objects_intact f = true -> obj_exists f c = true -> obj_holds f c = true.
Proof.
  unfold obj_exists, exists_at, obj_holds. intros I E.
  destruct (fget f (LObj c)) as [n|] eqn:G; [|discriminate].
  destruct (intact_get _ _ _ I G) as (w & s & ->). apply beqb_refl.
Qed.

Lemma mem_head p op : mem p (p :: op) = true.
Proof. unfold mem. cbn. now rewrite N.eqb_refl. Qed.

Section Moves.
Variable fixed : bool.
Variable chunk : N.

Lemma copy_calls_ok s c p fuel : forall left f op, mem p op = true ->
  all_ok s f op (copy_calls chunk (LObj c) (LWs p) fuel left) = true /\
  opened_all op (copy_calls chunk (LObj c) (LWs p) fuel left) = op.
Proof.
  induction fuel as [|k IH]; intros left f op M; cbn [copy_calls]; [cbn; auto|].
  destruct (N.eqb left 0); cbn; rewrite M; cbn; auto.
  apply IH. exact M.
Qed.

Lemma copy_calls_avoids c p fuel x : loc_eqb (LWs p) x = false -> forall left,
  avoids x (copy_calls chunk (LObj c) (LWs p) fuel left) = true.
Proof.
  intros H. induction fuel as [|k IH]; intros left; cbn [copy_calls]; [reflexivity|].
  destruct (N.eqb left 0); unfold avoids; cbn [forallb touches]; rewrite H; cbn [negb andb]; auto. apply IH.
Qed.

Lemma copy_calls_benign c p fuel : forall left, forallb benign (copy_calls chunk (LObj c) (LWs p) fuel left) = true.
Proof.
  induction fuel as [|k IH]; intros left; cbn [copy_calls]; [reflexivity|].
  destruct (N.eqb left 0); cbn; auto.
Qed.

(* recheck_from_cache from a state in which the workspace path is free and the object is there *)
Lemma recheck_free_ok s f op p c m :
  fget f (LWs p) = None -> obj_holds f c = true ->
  all_ok s f op (recheck_from_cache chunk f p c m) = true.
Proof.
  intros G H. unfold recheck_from_cache, ws_exists, ws_stamp. rewrite G. cbn [app].
  destruct m.
  - unfold fs_copy. cbn [app all_ok step_ok opened_after]. unfold exists_at. rewrite G. cbn [negb andb].
    destruct (N.eqb chunk 0).
    + cbn. reflexivity.
    + rewrite all_ok_app.
      destruct (copy_calls_ok s c p (S (copy_fuel chunk (Nlen c))) (Nlen c)
                  (apply (Chmod (LWs p) false) (apply (Creat (LWs p)) f)) (p :: op) (mem_head p op)) as [A B].
      rewrite A, B. cbn. reflexivity.
  - cbn. reflexivity.
  - cbn. now rewrite H.
Qed.

Lemma recheck_avoids f p c m x : loc_eqb (LWs p) x = false -> avoids x (recheck_from_cache chunk f p c m) = true.
Proof.
  intros H. unfold recheck_from_cache. rewrite avoids_app.
  assert (A1 : avoids x (if ws_exists f p then [Unlink (LWs p)] else []) = true).
  { destruct (ws_exists f p); unfold avoids; cbn [forallb touches]; rewrite ?H; reflexivity. }
  rewrite A1. destruct m; cbn [andb].
  - unfold fs_copy. rewrite !avoids_app. unfold avoids at 1 3. cbn [forallb touches]. rewrite H. cbn [negb andb].
    destruct (N.eqb chunk 0); [reflexivity|]. rewrite copy_calls_avoids by exact H. reflexivity.
  - unfold avoids. cbn [forallb touches]. now rewrite H.
  - unfold avoids. cbn [forallb touches]. now rewrite H.
Qed.

Lemma recheck_benign f p c m : forallb benign (recheck_from_cache chunk f p c m) = true.
Proof.
  unfold recheck_from_cache. rewrite forallb_app.
  assert (A1 : forallb benign (if ws_exists f p then [Unlink (LWs p)] else []) = true) by (destruct (ws_exists f p); reflexivity).
  rewrite A1. destruct m; cbn [andb]; [|reflexivity|reflexivity].
  unfold fs_copy. rewrite !forallb_app.
  destruct (N.eqb chunk 0); [reflexivity|]. rewrite copy_calls_benign. reflexivity.
Qed.

(* carry_in's closure for one regular workspace file whose bytes are c *)
Lemma carry_one_ok s f op p c m w st :
  fget f (LWs p) = Some (NData c w st) -> objects_intact f = true ->
  all_ok s f op (carry_one chunk f p c m) = true.
Proof.
  intros G I. unfold carry_one, then_ops.
  destruct (obj_exists f c) eqn:E.
  - (* the object is there: the workspace file is removed and rechecked *)
    cbn [app apply_all fold_left].
    assert (WE : ws_exists f p = true) by (unfold ws_exists, ws_stamp; now rewrite G).
    rewrite WE. cbn [app all_ok step_ok opened_after].
    pose proof (exists_intact_holds f c I E) as H.
    rewrite G, H, !orb_true_r. cbn [andb].
    change (apply_all [Unlink (LWs p)] f) with (apply (Unlink (LWs p)) f).
    apply recheck_free_ok.
    + rewrite fget_apply. cbn [written removed]. now rewrite loc_eqb_refl.
    + apply (holds_step false (Unlink (LWs p)) f [] c); [reflexivity|exact H].
  - (* move_to_cache, then recheck *)
    unfold move_to_cache.
    set (mk := if exists_at f (LObjDir c) then [] else [Mkdir (LObjDir c)]).
    set (l1 := mk ++ [Chmod (LObjDir c) true; Rename (LWs p) (LObj c); Chmod (LObj c) false; Chmod (LObjDir c) false]).
    assert (Gmk : fget (apply_all mk f) (LWs p) = Some (NData c w st)).
    { rewrite fget_frame_all; [exact G|]. unfold mk. destruct (exists_at f (LObjDir c)); reflexivity. }
    assert (Omk : forall op0, opened_all op0 mk = op0) by (intros; unfold mk; destruct (exists_at f (LObjDir c)); reflexivity).
    assert (Amk : forall op0, all_ok s f op0 mk = true) by (intros; unfold mk; destruct (exists_at f (LObjDir c)); reflexivity).
    set (f1 := apply_all mk f) in *.
    set (f2 := apply (Chmod (LObjDir c) true) f1).
    assert (G2 : fget f2 (LWs p) = Some (NData c w st)) by (unfold f2; rewrite fget_frame; [exact Gmk|reflexivity]).
    set (f3 := apply (Rename (LWs p) (LObj c)) f2).
    assert (G3 : fget f3 (LWs p) = None).
    { unfold f3. rewrite fget_apply. cbn [written removed]. rewrite G2. cbn. now rewrite N.eqb_refl. }
    assert (H3 : obj_holds f3 c = true).
    { unfold f3, obj_holds. rewrite fget_apply. cbn [written]. rewrite G2, loc_eqb_refl. apply beqb_refl. }
    set (f4 := apply (Chmod (LObj c) false) f3).
    set (f5 := apply (Chmod (LObjDir c) false) f4).
    assert (G5 : fget f5 (LWs p) = None).
    { unfold f5, f4. rewrite !fget_frame by reflexivity. exact G3. }
    assert (H5 : obj_holds f5 c = true).
    { unfold f5, f4. apply (holds_step false (Chmod (LObjDir c) false) _ []); [reflexivity|].
      apply (holds_step false (Chmod (LObj c) false) _ []); [reflexivity|exact H3]. }
    assert (E5 : apply_all l1 f = f5).
    { unfold l1. rewrite apply_all_app. reflexivity. }
    rewrite all_ok_app. fold l1. rewrite E5.
    assert (A1 : all_ok s f op l1 = true).
    { unfold l1. rewrite all_ok_app, Amk, Omk. fold f1. cbn [all_ok step_ok opened_after andb]. fold f2.
      rewrite G2, beqb_refl. reflexivity. }
    rewrite A1. cbn [andb].
    assert (WE : ws_exists f5 p = false) by (unfold ws_exists, ws_stamp; now rewrite G5).
    rewrite WE. cbn [app apply_all fold_left].
    apply recheck_free_ok; assumption.
Qed.

Lemma carry_one_avoids f p c m x :
  loc_eqb (LWs p) x = false -> loc_eqb (LObj c) x = false -> loc_eqb (LObjDir c) x = false ->
  avoids x (carry_one chunk f p c m) = true.
Proof.
  intros H1 H2 H3. unfold carry_one, then_ops. rewrite !avoids_app.
  rewrite recheck_avoids by exact H1.
  assert (A1 : avoids x (if obj_exists f c then [] else move_to_cache f p c) = true).
  { destruct (obj_exists f c); [reflexivity|]. unfold move_to_cache. rewrite avoids_app.
    destruct (exists_at f (LObjDir c)); unfold avoids; cbn [forallb touches]; rewrite ?H1, ?H2, ?H3; reflexivity. }
  rewrite A1. cbn [andb].
  match goal with |- context [if ?b then [Unlink (LWs p)] else []] => destruct b end;
    unfold avoids; cbn [forallb touches]; rewrite ?H1; reflexivity.
Qed.

Lemma carry_one_benign f p c m : forallb benign (carry_one chunk f p c m) = true.
Proof.
  unfold carry_one, then_ops. rewrite !forallb_app, recheck_benign.
  assert (A1 : forallb benign (if obj_exists f c then [] else move_to_cache f p c) = true).
  { destruct (obj_exists f c); [reflexivity|]. unfold move_to_cache. rewrite forallb_app.
    destruct (exists_at f (LObjDir c)); reflexivity. }
  rewrite A1. cbn [andb].
  match goal with |- context [if ?b then [Unlink (LWs p)] else []] => destruct b end; reflexivity.
Qed.

Definition todo_path (x : path * bytes * method) : path := fst (fst x).

Lemma carry_all_ok s todo : forall f op,
  NoDup (map todo_path todo) ->
  (forall p c m, In (p, c, m) todo -> exists w st, fget f (LWs p) = Some (NData c w st)) ->
  objects_intact f = true ->
  all_ok s f op (carry_all chunk f todo) = true.
Proof.
  induction todo as [|[[p c] m] r IH]; intros f op ND H I; cbn [carry_all]; [reflexivity|].
  unfold then_ops. rewrite all_ok_app.
  destruct (H p c m (or_introl eq_refl)) as (w & st & G).
  pose proof (carry_one_ok s f op p c m w st G I) as A1. rewrite A1. cbn [andb].
  cbn in ND. inversion ND as [|? ? Hn ND']; subst.
  apply IH; [exact ND'| |eapply intact_apply_all; eauto].
  intros q c' m' Hin.
  destruct (H q c' m' (or_intror Hin)) as (w' & st' & G').
  exists w', st'. rewrite fget_frame_all; [exact G'|].
  apply carry_one_avoids; try reflexivity.
  cbn. apply N.eqb_neq. intros ->. apply Hn.
  change q with (todo_path (q, c', m')). now apply in_map.
Qed.

Lemma carry_all_avoids x todo : is_meta_loc x = true \/ x = LIgn -> forall f, avoids x (carry_all chunk f todo) = true.
Proof.
  intros Hx. induction todo as [|[[p c] m] r IH]; intros f; cbn [carry_all]; [reflexivity|].
  unfold then_ops. rewrite avoids_app, IH, andb_true_r.
  apply carry_one_avoids; destruct Hx as [Hx| ->]; try reflexivity; destruct x; cbn in *; try discriminate; reflexivity.
Qed.

Lemma carry_all_benign todo : forall f, forallb benign (carry_all chunk f todo) = true.
Proof.
  induction todo as [|[[p c] m] r IH]; intros f; cbn [carry_all]; [reflexivity|].
  unfold then_ops. now rewrite forallb_app, carry_one_benign, IH.
Qed.

End Moves.

(* ---- target lists ------------------------------------------------------------------------------------------------ *)
Lemma in_dedup p l : In p (dedup l) -> In p l.
Proof.
  revert p. induction l as [|x r IH]; intros p; cbn; [tauto|].
  intros [->|H]; [now left|]. apply filter_In in H as [H _]. right. now apply IH.
Qed.

Lemma NoDup_dedup l : NoDup (dedup l).
Proof.
  induction l as [|x r IH]; cbn; constructor.
  - intros H. apply filter_In in H as [_ H]. now rewrite N.eqb_refl in H.
  - now apply NoDup_filter.
Qed.

(* a list built from a duplicate-free list of paths by keeping, for some of them, one element with
   that path as its key *)
Lemma NoDup_keyed {B} (key : B -> path) (F : path -> list B) :
  (forall p x, In x (F p) -> key x = p) -> (forall p, length (F p) <= 1) ->
  forall l, NoDup l -> NoDup (map key (flat_map F l)).
Proof.
  intros HK HL l ND. induction ND as [|p r Hn ND IH]; cbn; [constructor|].
  rewrite map_app. specialize (HL p).
  destruct (F p) as [|x [|y t]] eqn:E; cbn in *; [exact IH| |lia].
  constructor; [|exact IH].
  intros Hin. apply in_map_iff in Hin as (z & Hz & Hin). apply in_flat_map in Hin as (q & Hq & Hin).
  assert (key x = p) by (apply HK; rewrite E; now left).
  assert (key z = q) by (now apply HK). congruence.
Qed.

Section Cmds.
Variable fixed : bool.
Variable chunk : N.

(* ---- track -------------------------------------------------------------------------------------------------------- *)
Definition track_todo_of (f : fsys) (mreq : option method) (p : path) : list (path * bytes * method) :=
  match track_plan f mreq p with
  | Some t => sel (tp_digest_ev t) (tp_p t, tp_data t, tp_method t)
  | None => []
  end.

Lemma track_todo_eq f mreq l :
  flat_map (fun t => sel (tp_digest_ev t) (tp_p t, tp_data t, tp_method t))
           (flat_map (fun p => match track_plan f mreq p with Some t => [t] | None => [] end) l)
  = flat_map (track_todo_of f mreq) l.
Proof.
  induction l as [|p r IH]; cbn; [reflexivity|].
  rewrite flat_map_app, IH. unfold track_todo_of. destruct (track_plan f mreq p); cbn; now rewrite ?app_nil_r.
Qed.

Lemma track_todo_of_spec f mreq p x : In x (track_todo_of f mreq p) ->
  todo_path x = p /\ exists w s, fget f (LWs p) = Some (NData (snd (fst x)) w s).
Proof.
  unfold track_todo_of, track_plan.
  destruct (fget f (LWs p)) as [[b w s| | |]|] eqn:G; cbn; try tauto.
  match goal with |- context [sel ?c _] => destruct c end; cbn; [|tauto].
  intros [<-|[]]. cbn. eauto.
Qed.

Lemma track_todo_len f mreq p : length (track_todo_of f mreq p) <= 1.
Proof.
  unfold track_todo_of. destruct (track_plan f mreq p); cbn; [|lia].
  destruct (tp_digest_ev t); cbn; lia.
Qed.

Lemma ign_ops_ok s f op x :
  let l := match x with [] => [] | _ => [Touch LIgn; Append LIgn x; Append LIgn []] end in
  all_ok s f op l = true /\ opened_all op l = op /\ forallb benign l = true /\
  (forall q, avoids (LWs q) l = true).
Proof. destruct x; cbn; auto. Qed.

Lemma track_ok s f mreq ps : objects_intact f = true ->
  all_ok s f [] (track_effects fixed chunk f mreq ps) = true.
Proof.
  intros I. unfold track_effects. destruct (partial_records f (dedup ps)); [reflexivity|].
  cbv zeta. unfold track_plans. rewrite track_todo_eq. unfold then_ops.
  match goal with |- context [save_stores fixed f ?l] => set (stores := l) end.
  match goal with |- context [match ?x with [] => [] | _ :: _ => [Touch LIgn; Append LIgn ?x; Append LIgn []] end] =>
    set (newign := x) end.
  clearbody stores newign.
  destruct (save_stores_ok fixed s stores f []) as [A1 B1].
  rewrite all_ok_app, A1, B1. cbn [andb].
  set (f1 := apply_all (save_stores fixed f stores) f) in *.
  match goal with |- all_ok s f1 [] (?l ++ _) = true => set (ign := l) end.
  assert (P2 : all_ok s f1 [] ign = true /\ opened_all [] ign = [] /\ forall q, avoids (LWs q) ign = true).
  { unfold ign. destruct newign; cbn; auto. }
  destruct P2 as (A2 & B2 & V2).
  rewrite all_ok_app, A2, B2. cbn [andb].
  set (f2 := apply_all ign f1).
  assert (I2 : objects_intact f2 = true).
  { unfold f2. eapply intact_apply_all; [exact A2|]. unfold f1. eapply intact_apply_all; [exact A1|exact I]. }
  rewrite all_ok_app.
  assert (A3 : all_ok s f2 [] (carry_all chunk f2 (flat_map (track_todo_of f mreq) (dedup ps))) = true).
  { apply carry_all_ok; [| |exact I2].
    - apply (NoDup_keyed todo_path (track_todo_of f mreq)); [| |apply NoDup_dedup].
      + intros p x Hx. now apply track_todo_of_spec in Hx.
      + apply track_todo_len.
    - intros p c m Hin. apply in_flat_map in Hin as (q & _ & Hin).
      apply track_todo_of_spec in Hin as (E & w & st & G). cbn in E, G. subst q.
      exists w, st. unfold f2. rewrite fget_frame_all by apply V2.
      unfold f1. rewrite fget_frame_all; [exact G|]. now apply save_stores_avoids. }
  rewrite A3. cbn [andb].
  match goal with |- context [if ?b then [] else _] => destruct b end; [reflexivity|].
  apply save_file_ec_ok.
Qed.

Lemma track_meta_ok f mreq ps : all_meta_ok f (track_effects true chunk f mreq ps) = true.
Proof.
  unfold track_effects. destruct (partial_records f (dedup ps)); [reflexivity|].
  cbv zeta. unfold then_ops.
  rewrite all_meta_ok_app, save_stores_meta_ok. cbn [andb].
  rewrite all_meta_ok_app.
  match goal with |- context [match ?x with [] => [] | _ :: _ => [Touch LIgn; Append LIgn ?x; Append LIgn []] end] =>
    destruct x end.
  - cbn [all_meta_ok andb apply_all fold_left].
    rewrite all_meta_ok_app, benign_all_meta_ok by apply carry_all_benign. cbn [andb].
    match goal with |- context [if ?b then [] else _] => destruct b end; [reflexivity|]. apply save_file_ec_meta_ok.
  - rewrite benign_all_meta_ok by reflexivity. cbn [andb].
    rewrite all_meta_ok_app, benign_all_meta_ok by apply carry_all_benign. cbn [andb].
    match goal with |- context [if ?b then [] else _] => destruct b end; [reflexivity|]. apply save_file_ec_meta_ok.
Qed.

(* ---- carry-in ----------------------------------------------------------------------------------------------------- *)
Definition carry_todo_of (f : fsys) (p : path) : list (path * bytes * method) :=
  match carry_diff f p with
  | CDifferent _ b => [(p, b, or_default (rec_method f p) MCopy)]
  | _ => []
  end.

Lemma carry_todo_eq f l :
  flat_map (fun pd : path * cdiff => match snd pd with
                      | CDifferent _ b => [(fst pd, b, or_default (rec_method f (fst pd)) MCopy)]
                      | _ => [] end) (map (fun p => (p, carry_diff f p)) l)
  = flat_map (carry_todo_of f) l.
Proof.
  induction l as [|p r IH]; cbn; [reflexivity|]. rewrite IH. reflexivity.
Qed.

Lemma carry_todo_of_spec f p x : In x (carry_todo_of f p) ->
  todo_path x = p /\ exists w s, fget f (LWs p) = Some (NData (snd (fst x)) w s).
Proof.
  unfold carry_todo_of, carry_diff.
  destruct (fget f (LWs p)) as [[b w s| | |]|] eqn:G; cbn; try tauto.
  destruct (opt_N_eqb (rec_stamp f p) (Some s)); cbn; [tauto|].
  destruct (rec_digest f p); cbn; [|tauto].
  destruct (beqb b0 b); cbn; [tauto|].
  intros [<-|[]]. cbn. eauto.
Qed.

Lemma carry_todo_len f p : length (carry_todo_of f p) <= 1.
Proof. unfold carry_todo_of. destruct (carry_diff f p); cbn; lia. Qed.

Lemma NoDup_carry_targets f ps : NoDup (carry_targets f ps).
Proof. unfold carry_targets. apply NoDup_filter, NoDup_dedup. Qed.

Lemma carry_in_ok s f ps : objects_intact f = true ->
  all_ok s f [] (carry_in_effects fixed chunk f ps) = true.
Proof.
  intros I. unfold carry_in_effects. destruct (partial_records f (dedup ps)); [reflexivity|].
  cbv zeta. match goal with |- context [if ?b then [] else _] => destruct b end; [reflexivity|].
  rewrite carry_todo_eq. unfold then_ops. rewrite all_ok_app.
  assert (A1 : all_ok s f [] (carry_all chunk f (flat_map (carry_todo_of f) (carry_targets f ps))) = true).
  { apply carry_all_ok; [| |exact I].
    - apply (NoDup_keyed todo_path (carry_todo_of f)); [| |apply NoDup_carry_targets].
      + intros p x Hx. now apply carry_todo_of_spec in Hx.
      + apply carry_todo_len.
    - intros p c m Hin. apply in_flat_map in Hin as (q & _ & Hin).
      apply carry_todo_of_spec in Hin as (E & w & st & G). cbn in E, G. subst q. eauto. }
  rewrite A1. cbn [andb]. apply save_stores_ok.
Qed.

Lemma carry_in_meta_ok f ps : all_meta_ok f (carry_in_effects true chunk f ps) = true.
Proof.
  unfold carry_in_effects. destruct (partial_records f (dedup ps)); [reflexivity|].
  cbv zeta. match goal with |- context [if ?b then [] else _] => destruct b end; [reflexivity|].
  unfold then_ops. rewrite all_meta_ok_app, benign_all_meta_ok by apply carry_all_benign.
  apply save_stores_meta_ok.
Qed.

(* ---- commands that only save stores -------------------------------------------------------------------------------- *)
Lemma stores_only_ok s f saves ec : all_ok s f [] (stores_only_effects fixed f saves ec) = true.
Proof.
  unfold stores_only_effects, then_ops. rewrite all_ok_app.
  destruct (save_stores_ok fixed s saves f []) as [A B]. rewrite A, B. cbn [andb].
  destruct ec; [apply save_file_ec_ok|reflexivity].
Qed.

Lemma stores_only_meta_ok f saves ec : all_meta_ok f (stores_only_effects true f saves ec) = true.
Proof.
  unfold stores_only_effects, then_ops. rewrite all_meta_ok_app, save_stores_meta_ok. cbn [andb].
  destruct ec; [apply save_file_ec_meta_ok|reflexivity].
Qed.

End Cmds.

(* ---- recheck -------------------------------------------------------------------------------------------------------- *)
(* every workspace entry is a regular file or a link to an object that is there (Path::exists holds
   for every entry) *)
Definition ws_wf (f : fsys) : Prop :=
  forall p n, fget f (LWs p) = Some n ->
    (exists b w s, n = NData b w s) \/ (exists c, n = NSym c /\ obj_holds f c = true).

Lemma ws_wf_free f p : ws_wf f -> ws_exists f p = false -> fget f (LWs p) = None.
Proof.
  intros W E. destruct (fget f (LWs p)) as [n|] eqn:G; [|reflexivity].
  unfold ws_exists, ws_stamp in E. rewrite G in E.
  destruct (W p n G) as [(b & w & s & ->)|(c & -> & H)]; [discriminate|].
  unfold obj_holds in H. destruct (fget f (LObj c)) as [[]|]; discriminate.
Qed.

Lemma ws_wf_step s o f op : step_ok s f op o = true -> objects_intact f = true -> ws_wf f -> ws_wf (apply o f).
Proof.
  intros S I W p n G. rewrite fget_apply in G.
  assert (OLD : fget f (LWs p) = Some n ->
          (exists b w s0, n = NData b w s0) \/ (exists c, n = NSym c /\ obj_holds (apply o f) c = true)).
  { intros G'. destruct (W p n G') as [?|(c & -> & H)]; [now left|right]. exists c. split; [reflexivity|]. eapply holds_step; eauto. }
  destruct (written o f) as [[l' n']|] eqn:Wr.
  2:{ destruct (removed o (LWs p)); [discriminate|auto]. }
  destruct (loc_eqb_spec l' (LWs p)) as [->|].
  2:{ destruct (removed o (LWs p)); [discriminate|auto]. }
  injection G as <-.
  destruct o; cbn [written] in Wr.
  - destruct d; cbn in S; try discriminate. split_written Wr; discriminate.
  - injection Wr as -> <-. left. cbn. eauto.
  - destruct p0; cbn in S; try discriminate. split_written Wr; discriminate.
  - split_written Wr; try discriminate. injection Wr as _ <-. left; eauto.
  - split_written Wr; try discriminate. injection Wr as -> _. discriminate.
  - destruct (fget f p0) as [n0|] eqn:G0; [|discriminate]. injection Wr as -> ->.
    destruct p0; cbn in S; try (apply andb_true_iff in S as [_ S]); discriminate.
  - discriminate.
  - destruct p0; cbn in S; try discriminate. destruct q; try discriminate.
    destruct (fget f (LObj c)) as [n0|] eqn:G0; [|discriminate].
    destruct (intact_get _ _ _ I G0) as (w0 & s0 & ->).
    split_written Wr; try discriminate. injection Wr as _ <-. left; eauto.
  - destruct p0; cbn in S; try discriminate. split_written Wr; try discriminate.
    injection Wr as _ <-. right. exists c. split; [reflexivity|]. apply (holds_step s (Symlink c (LWs p0)) f op c); exact S.
  - destruct p0; cbn in S; try discriminate; split_written Wr; try discriminate.
    + injection Wr as _ <-. left; eauto.
    + injection Wr as -> _. destruct (W p _ Heqo) as [(?&?&?&?)|(?&?&?)]; discriminate.
  - destruct src; cbn in S; try discriminate. destruct dst; try discriminate.
    split_written Wr; try discriminate. injection Wr as _ <-. left; eauto.
Qed.

Lemma ws_wf_apply_all s l : forall f op, all_ok s f op l = true -> objects_intact f = true -> ws_wf f ->
  ws_wf (apply_all l f).
Proof.
  induction l as [|o r IH]; intros f op A I W; cbn; [exact W|].
  cbn in A. apply andb_true_iff in A as [A1 A2].
  eapply IH; eauto; [eapply intact_step; eauto | eapply ws_wf_step; eauto].
Qed.

Section Recheck.
Variable fixed : bool.
Variable chunk : N.

Definition recheck_block (f : fsys) (r : rplan) : list fsop :=
  if obj_exists f (rp_c r)
  then then_ops f (if ws_exists f (rp_p r) then [Unlink (LWs (rp_p r))] else [])
                  (fun f1 => recheck_from_cache chunk f1 (rp_p r) (rp_c r) (rp_m r))
  else [].

Lemma recheck_block_ok s f op r :
  objects_intact f = true -> ws_wf f ->
  (s = true -> forall b w st, fget f (LWs (rp_p r)) = Some (NData b w st) -> obj_holds f b = true) ->
  all_ok s f op (recheck_block f r) = true.
Proof.
  intros I W C. unfold recheck_block. destruct (obj_exists f (rp_c r)) eqn:E; [|reflexivity].
  pose proof (exists_intact_holds f _ I E) as H.
  unfold then_ops. destruct (ws_exists f (rp_p r)) eqn:WE.
  - cbn [app all_ok apply_all fold_left].
    assert (S1 : step_ok s f op (Unlink (LWs (rp_p r))) = true).
    { cbn. destruct s; [|reflexivity]. cbn.
      destruct (fget f (LWs (rp_p r))) as [[b w st| | |]|] eqn:G; rewrite ?orb_true_r; auto.
      rewrite (C eq_refl b w st eq_refl). apply orb_true_r. }
    rewrite S1. cbn [andb]. apply recheck_free_ok.
    + rewrite fget_apply. cbn [written removed]. now rewrite loc_eqb_refl.
    + eapply holds_step; eauto.
  - cbn [app apply_all fold_left]. apply recheck_free_ok; [now apply ws_wf_free|exact H].
Qed.

Lemma recheck_block_avoids f r x : loc_eqb (LWs (rp_p r)) x = false -> avoids x (recheck_block f r) = true.
Proof.
  intros H. unfold recheck_block. destruct (obj_exists f (rp_c r)); [|reflexivity].
  unfold then_ops. rewrite avoids_app, recheck_avoids by exact H.
  destruct (ws_exists f (rp_p r)); unfold avoids; cbn [forallb touches]; rewrite ?H; reflexivity.
Qed.

Lemma recheck_block_benign f r : forallb benign (recheck_block f r) = true.
Proof.
  unfold recheck_block. destruct (obj_exists f (rp_c r)); [|reflexivity].
  unfold then_ops. rewrite forallb_app, recheck_benign. destruct (ws_exists f (rp_p r)); reflexivity.
Qed.

Lemma recheck_all_unfold f r t :
  recheck_all chunk f (r :: t) = then_ops f (recheck_block f r) (fun f1 => recheck_all chunk f1 t).
Proof. reflexivity. Qed.

Lemma recheck_all_ok s rps : forall f op,
  objects_intact f = true -> ws_wf f -> NoDup (map rp_p rps) ->
  (s = true -> forall r b w st, In r rps -> fget f (LWs (rp_p r)) = Some (NData b w st) -> obj_holds f b = true) ->
  all_ok s f op (recheck_all chunk f rps) = true.
Proof.
  induction rps as [|r t IH]; intros f op I W ND C; [reflexivity|].
  rewrite recheck_all_unfold. unfold then_ops. rewrite all_ok_app.
  assert (A1 : all_ok s f op (recheck_block f r) = true).
  { apply recheck_block_ok; auto. intros E b w st G. eapply C; eauto. now left. }
  rewrite A1. cbn [andb]. cbn in ND. inversion ND as [|? ? Hn ND']; subst.
  apply IH; [eapply intact_apply_all; eauto | eapply ws_wf_apply_all; eauto | exact ND' |].
  intros E r' b w st Hin G.
  assert (Hne : loc_eqb (LWs (rp_p r)) (LWs (rp_p r')) = false).
  { cbn. apply N.eqb_neq. intros Heq. apply Hn. rewrite Heq. now apply in_map. }
  rewrite fget_frame_all in G by (now apply recheck_block_avoids).
  eapply holds_apply_all; [exact A1|]. eapply C; eauto. now right.
Qed.

Lemma recheck_all_benign rps : forall f, forallb benign (recheck_all chunk f rps) = true.
Proof.
  induction rps as [|r t IH]; intros f; [reflexivity|].
  rewrite recheck_all_unfold. unfold then_ops. now rewrite forallb_app, recheck_block_benign, IH.
Qed.

Definition recheck_plans_of (f : fsys) (mreq : option method) (force : bool) (p : path) : list rplan :=
  match recheck_plan f mreq force p with Some r => [r] | None => [] end.

Lemma recheck_plan_path f mreq force p r : In r (recheck_plans_of f mreq force p) -> rp_p r = p.
Proof.
  unfold recheck_plans_of, recheck_plan. destruct (rec_digest f p); [|intros []].
  match goal with |- context [if ?b then Some _ else None] => destruct b end; [|intros []].
  intros [<-|[]]. reflexivity.
Qed.

Lemma recheck_plans_len f mreq force p : length (recheck_plans_of f mreq force p) <= 1.
Proof. unfold recheck_plans_of. destruct (recheck_plan f mreq force p); cbn; lia. Qed.

(* [strict] = true needs: the regular files among the targets hold committed bytes (otherwise
   `recheck --force` destroys them even when it is NOT interrupted: the subject of C03) *)
Lemma recheck_ok s f mreq force ps :
  objects_intact f = true -> ws_wf f ->
  (s = true -> forall p b w st, In p ps -> fget f (LWs p) = Some (NData b w st) -> obj_holds f b = true) ->
  all_ok s f [] (recheck_effects fixed chunk f mreq force ps) = true.
Proof.
  intros I W C. unfold recheck_effects. destruct (partial_records f (dedup ps)); [reflexivity|].
  cbv zeta. unfold then_ops. rewrite all_ok_app.
  fold (recheck_plans_of f mreq force).
  assert (A1 : all_ok s f [] (recheck_all chunk f (flat_map (recheck_plans_of f mreq force) (carry_targets f ps))) = true).
  { apply recheck_all_ok; auto.
    - apply (NoDup_keyed rp_p (recheck_plans_of f mreq force)); [| |apply NoDup_carry_targets].
      + intros p x Hx. now apply recheck_plan_path in Hx.
      + apply recheck_plans_len.
    - intros E r b w st Hin G. apply in_flat_map in Hin as (q & Hq & Hin).
      apply recheck_plan_path in Hin. subst q.
      eapply C; eauto. unfold carry_targets in Hq. apply filter_In in Hq as [Hq _]. now apply in_dedup. }
  rewrite A1. cbn [andb]. apply save_store_ok.
Qed.

Lemma recheck_meta_ok f mreq force ps : all_meta_ok f (recheck_effects true chunk f mreq force ps) = true.
Proof.
  unfold recheck_effects. destruct (partial_records f (dedup ps)); [reflexivity|].
  cbv zeta. unfold then_ops. rewrite all_meta_ok_app, benign_all_meta_ok by apply recheck_all_benign.
  unfold save_store. match goal with |- context [match ?e with [] => [] | _ :: _ => _ end] => destruct e end;
    [reflexivity|apply save_file_store_meta_ok].
Qed.

End Recheck.

(* ---- every command of the modelled set ------------------------------------------------------------------------------ *)
(* what recheck needs: the workspace entries resolve; and for clause (c) the regular files among
   its targets hold committed bytes *)
Definition cmd_pre (strict : bool) (f : fsys) (c : command) : Prop :=
  match c with
  | Recheck _ _ ps =>
      ws_wf f /\
      (strict = true -> forall p b w st, In p ps -> fget f (LWs p) = Some (NData b w st) -> obj_holds f b = true)
  | _ => True
  end.

Lemma effects_ok fixed chunk strict f c :
  objects_intact f = true -> cmd_pre strict f c ->
  all_ok strict f [] (effects fixed chunk f c) = true.
Proof.
  intros I P. destruct c; cbn [effects].
  - now apply track_ok.
  - now apply carry_in_ok.
  - destruct P as [W C]. now apply recheck_ok.
  - apply stores_only_ok.
Qed.

Lemma effects_meta_ok chunk f c : all_meta_ok f (effects true chunk f c) = true.
Proof.
  destruct c; cbn [effects].
  - apply track_meta_ok.
  - apply carry_in_meta_ok.
  - apply recheck_meta_ok.
  - apply stores_only_meta_ok.
Qed.

Lemma crashed_all l f : crashed (length l) l f = apply_all l f.
Proof. unfold crashed. now rewrite firstn_all. Qed.

(* ---- reachable file systems --------------------------------------------------------------------------------------------- *)
Record wf (f : fsys) : Prop := { wf_intact : objects_intact f = true; wf_ws : ws_wf f }.

Lemma wf_apply_all l f : all_ok false f [] l = true -> wf f -> wf (apply_all l f).
Proof.
  intros A [I W]. split; [eapply intact_apply_all; eauto | eapply ws_wf_apply_all; eauto].
Qed.

Lemma user_write_ok f p b : all_ok false f [] [Unlink (LWs p); Creat (LWs p); Append (LWs p) b] = true.
Proof.
  cbn [all_ok step_ok opened_after negb orb andb].
  assert (E : exists_at (apply (Unlink (LWs p)) f) (LWs p) = false).
  { unfold exists_at. rewrite fget_apply. cbn [written removed]. now rewrite loc_eqb_refl. }
  rewrite E. cbn. now rewrite N.eqb_refl.
Qed.

Lemma do_item_wf fixed chunk f it : wf f -> wf (do_item fixed chunk f it).
Proof.
  intros Wf. destruct it; cbn [do_item].
  - unfold user_write. apply wf_apply_all; [apply user_write_ok|exact Wf].
  - change (apply (Unlink (LWs p)) f) with (apply_all [Unlink (LWs p)] f). apply wf_apply_all; [reflexivity|exact Wf].
  - unfold run_cmd. apply wf_apply_all; [|exact Wf].
    apply effects_ok; [apply Wf|]. destruct c; cbn; auto. split; [apply Wf|discriminate].
Qed.

Lemma init_wf : wf init_fs.
Proof.
  split; [reflexivity|]. intros p n G. cbn in G. discriminate.
Qed.

Lemma run_items_wf fixed chunk h : wf (run_items fixed chunk h).
Proof.
  unfold run_items. generalize init_wf. generalize init_fs.
  induction h as [|it r IH]; intros f Wf; cbn; [exact Wf|]. apply IH. now apply do_item_wf.
Qed.

Lemma loads_apply_all l f : all_meta_ok f l = true -> loads f = true -> loads (apply_all l f) = true.
Proof. intros A L. rewrite <- crashed_all. now apply loads_prefix. Qed.

Lemma do_item_loads chunk f it : loads f = true -> loads (do_item true chunk f it) = true.
Proof.
  intros L. destruct it; cbn [do_item].
  - unfold user_write. apply loads_apply_all; [|exact L]. apply benign_all_meta_ok. reflexivity.
  - apply loads_step; [reflexivity|exact L].
  - unfold run_cmd. apply loads_apply_all; [apply effects_meta_ok|exact L].
Qed.

Lemma run_items_loads chunk h : loads (run_items true chunk h) = true.
Proof.
  unfold run_items. assert (L : loads init_fs = true) by reflexivity. revert L. generalize init_fs.
  induction h as [|it r IH]; intros f L; cbn; [exact L|]. apply IH. now apply do_item_loads.
Qed.

(* ---- the statements Props/C07.v exports ------------------------------------------------------------------------------------ *)
Lemma crash_prefix_safe_lemma fixed chunk f c n :
  wf f -> cmd_pre true f c ->
  let f' := crashed n (effects fixed chunk f c) f in
  (fixed = true -> loads f = true -> loads f' = true) /\
  (forall v, obj_holds f v = true -> obj_holds f' v = true) /\
  (forall p b w s, fget f (LWs p) = Some (NData b w s) ->
     obj_holds f' b = true \/ exists q w' s', fget f' (LWs q) = Some (NData b w' s')) /\
  objects_intact f' = true.
Proof.
  intros Wf P f'.
  assert (P' : cmd_pre true f c) by exact P.
  pose proof (effects_ok fixed chunk true f c (wf_intact f Wf) P) as A.
  destruct (disciplined_prefix_safe true f _ n (wf_intact f Wf) A) as (D & B & C).
  split; [|split; [exact B|split; [apply C; reflexivity|exact D]]].
  intros -> L. apply loads_prefix; [apply effects_meta_ok|exact L].
Qed.

(* without the hypothesis on recheck's targets: everything but clause (c) *)
Lemma crash_prefix_keeps_cache_lemma fixed chunk f c n :
  wf f ->
  let f' := crashed n (effects fixed chunk f c) f in
  (fixed = true -> loads f = true -> loads f' = true) /\
  (forall v, obj_holds f v = true -> obj_holds f' v = true) /\
  objects_intact f' = true.
Proof.
  intros Wf f'.
  assert (P : cmd_pre false f c) by (destruct c; cbn; auto; split; [apply Wf|discriminate]).
  pose proof (effects_ok fixed chunk false f c (wf_intact f Wf) P) as A.
  destruct (disciplined_prefix_safe false f _ n (wf_intact f Wf) A) as (D & B & _).
  split; [|split; [exact B|exact D]].
  intros -> L. apply loads_prefix; [apply effects_meta_ok|exact L].
Qed.

(* ---- the same, for the file systems reachable from `xvc init` ------------------------------------------------------------ *)
Lemma crash_prefix_safe_reachable fixed chunk (h : list item) (c : command) (n : nat) :
  let f := run_items fixed chunk h in
  cmd_pre true f c ->
  let f' := crashed n (effects fixed chunk f c) f in
  (fixed = true -> loads f' = true) /\
  (forall v, obj_holds f v = true -> obj_holds f' v = true) /\
  (forall p b w s, fget f (LWs p) = Some (NData b w s) ->
     obj_holds f' b = true \/ exists q w' s', fget f' (LWs q) = Some (NData b w' s')) /\
  objects_intact f' = true.
Proof.
  intros f P f'.
  destruct (crash_prefix_safe_lemma fixed chunk f c n (run_items_wf fixed chunk h) P) as (A & B & C & D).
  split; [|split; [exact B|split; [exact C|exact D]]].
  intros E. apply A; [exact E|]. subst fixed. apply run_items_loads.
Qed.

Lemma crash_prefix_keeps_cache_reachable fixed chunk (h : list item) (c : command) (n : nat) :
  let f := run_items fixed chunk h in
  let f' := crashed n (effects fixed chunk f c) f in
  (fixed = true -> loads f' = true) /\
  (forall v, obj_holds f v = true -> obj_holds f' v = true) /\
  objects_intact f' = true.
Proof.
  intros f f'.
  destruct (crash_prefix_keeps_cache_lemma fixed chunk f c n (run_items_wf fixed chunk h)) as (A & B & D).
  split; [|split; [exact B|exact D]].
  intros E. apply A; [exact E|]. subst fixed. apply run_items_loads.
Qed.

Lemma store_saves_prefix_lemma chunk (h : list item) saves ec (n : nat) :
  let f := run_items true chunk h in
  let f' := crashed n (effects true chunk f (StoresOnly saves ec)) f in
  loads f' = true /\
  (forall v, obj_holds f v = true -> obj_holds f' v = true) /\
  (forall p b w s, fget f (LWs p) = Some (NData b w s) ->
     obj_holds f' b = true \/ exists q w' s', fget f' (LWs q) = Some (NData b w' s')).
Proof.
  intros f f'.
  destruct (crash_prefix_safe_reachable true chunk h (StoresOnly saves ec) n I) as (A & B & C & _).
  split; [now apply A|split; [exact B|exact C]].
Qed.

Lemma reachable_wf_lemma fixed chunk (h : list item) :
  objects_intact (run_items fixed chunk h) = true /\ ws_wf (run_items fixed chunk h).
Proof. destruct (run_items_wf fixed chunk h); auto. Qed.
