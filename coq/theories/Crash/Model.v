(* M-CRASH: xvc commands as lists of atomic file-system effects; a crash point is a prefix.
   Self-contained small file system (the shape of Repo/Model.v — records as loaded maps — does not
   expose the event FILES, which are what a crash tears).

   Written from  file/src/track/mod.rs::cmd_track, file/src/carry_in/mod.rs::{cmd_carry_in,carry_in},
   file/src/recheck/mod.rs::{cmd_recheck,recheck}, file/src/common/mod.rs::{move_to_cache,
   recheck_from_cache,copy_file,update_store_records}, file/src/common/gitignore.rs::
   update_file_gitignores, ecs/src/ecs/event.rs::EventLog::{to_dir,from_dir}, ecs/src/ecs/mod.rs::
   {XvcEntityGenerator::save,sorted_files}, core/src/types/xvcroot.rs::{record,Drop},
   and from strace logs of the real binary in serial mode (the order of the calls).

   Conventions: hash functions are ideal and digests are taken of the exact bytes (binary mode), so
   a cache address IS the content stored under it (extension and algorithm are not modelled);
   workspace paths and stores are identifiers; an event file is an atomically written payload
   (one write(2) call, as observed) or still empty; modification times are logical stamps.
   [fixed_P22] selects how a store / counter file is written: false = fs::write to the final name
   (the unchanged tree), true = write to a temporary name the sorted listing ignores, then rename
   (repo-patches/58-fix-P22-atomic-event-file).
   No proofs in this file. *)
From Coq Require Import List Bool NArith.
From XV Require Import Base.Amap Base.Bytes.
Import ListNotations.

(* ---- vocabulary ------------------------------------------------------------------------------ *)
Definition path := N.
Inductive method := MCopy | MHardlink | MSymlink.
Definition method_eqb (a b : method) : bool :=
  match a, b with MCopy, MCopy | MHardlink, MHardlink | MSymlink, MSymlink => true | _, _ => false end.

(* the five stores of a tracked file, and any other store (pipeline stores) by number *)
Inductive sid := SPath | SMeta | SMethod | STob | SDigest | SOther (k : N).
Definition sid_eqb (a b : sid) : bool :=
  match a, b with
  | SPath, SPath | SMeta, SMeta | SMethod, SMethod | STob, STob | SDigest, SDigest => true
  | SOther x, SOther y => N.eqb x y
  | _, _ => false
  end.

Inductive loc :=
| LStore (s : sid) (n : N)        (* .xvc/store/<s>-store/<n>.json : a name sorted_files lists  *)
| LStoreTmp (s : sid) (n : N)     (* .xvc/store/<s>-store/.tmp-<n>.json : skipped by sorted_files *)
| LEc (n : N)                     (* .xvc/ec/<n> *)
| LEcTmp (n : N)                  (* .xvc/ec/.tmp-<n> *)
| LObj (c : bytes)                (* the cache object whose address is the digest of c *)
| LObjDir (c : bytes)             (* its directory *)
| LWs (p : path)                  (* a workspace path *)
| LIgn.                           (* the .gitignore of the workspace directory *)

Definition loc_eqb (a b : loc) : bool :=
  match a, b with
  | LStore s n, LStore s' n' | LStoreTmp s n, LStoreTmp s' n' => sid_eqb s s' && N.eqb n n'
  | LEc n, LEc n' | LEcTmp n, LEcTmp n' => N.eqb n n'
  | LObj c, LObj c' | LObjDir c, LObjDir c' => beqb c c'
  | LWs p, LWs p' => N.eqb p p'
  | LIgn, LIgn => true
  | _, _ => false
  end.

(* event payloads: Add events only (track / carry-in / recheck never remove a record); the entity
   is identified with the path it belongs to *)
Inductive value := VPath | VMeta (stamp : N) | VMethod (m : method) | VTob | VDigest (c : bytes) | VOther (k : N).
Record ev := { ev_p : path; ev_v : value }.
Inductive payload := PEvents (l : list ev) | PCounter (k : N).

Inductive node :=
| NData (b : bytes) (w : bool) (stamp : N)     (* regular file: content, u+w, mtime *)
| NMeta (pl : option payload)                  (* store / counter file: None = created, nothing written yet *)
| NSym (c : bytes)                             (* symbolic link to the cache object of c *)
| NDir (w : bool).

Record fsys := { ents : list (loc * node); clock : N }.

Definition nolt (_ _ : loc) := false.
Definition fget (f : fsys) (l : loc) : option node := get loc_eqb (ents f) l.
Definition tick (f : fsys) (e : list (loc * node)) : fsys := {| ents := e; clock := N.succ (clock f) |}.
Definition fput (f : fsys) (l : loc) (n : node) : fsys := tick f (put loc_eqb nolt (ents f) l n).
Definition fdel (f : fsys) (l : loc) : fsys := tick f (del loc_eqb (ents f) l).
Definition fnop (f : fsys) : fsys := tick f (ents f).
Definition exists_at (f : fsys) (l : loc) : bool := match fget f l with Some _ => true | None => false end.

(* ---- atomic effects ---------------------------------------------------------------------------- *)
Inductive fsop :=
| Mkdir (d : loc)
| Creat (p : loc)                       (* open(O_WRONLY|O_CREAT|O_TRUNC): empty file, truncates an existing one *)
| Touch (p : loc)                       (* open(O_WRONLY|O_CREAT|O_APPEND): creates when absent *)
| Append (p : loc) (b : bytes)          (* write(2) of data *)
| WriteMeta (p : loc) (pl : payload)    (* write(2) of a whole event log / counter *)
| Rename (p q : loc)
| Unlink (p : loc)
| Link (p q : loc)                      (* hard link q -> the file at p *)
| Symlink (c : bytes) (p : loc)         (* symlink p -> cache object of c *)
| Chmod (p : loc) (w : bool)            (* chmod / fchmod: set or clear u+w *)
| CopyChunk (src dst : loc) (n : N).    (* copy_file_range: up to n bytes from offset |dst| *)

Definition is_meta_loc (l : loc) : bool :=
  match l with LStore _ _ | LStoreTmp _ _ | LEc _ | LEcTmp _ => true | _ => false end.

(* N-indexed take / drop by recursion on the list (a chunk size like 2^30 is never turned into a nat) *)
Fixpoint Ndrop {A} (n : N) (l : list A) : list A :=
  match l with [] => [] | x :: r => if N.eqb n 0 then l else Ndrop (N.pred n) r end.
Fixpoint Ntake {A} (n : N) (l : list A) : list A :=
  match l with [] => [] | x :: r => if N.eqb n 0 then [] else x :: Ntake (N.pred n) r end.
Definition Nlen {A} (l : list A) : N := N.of_nat (length l).

(* what the kernel does; a call that would fail leaves the file system as it is (the commands
   below never issue one) *)
Definition apply (o : fsop) (f : fsys) : fsys :=
  match o with
  | Mkdir d => match fget f d with None => fput f d (NDir true) | Some _ => fnop f end
  | Creat p => fput f p (if is_meta_loc p then NMeta None else NData [] true (clock f))
  | Touch p => match fget f p with None => fput f p (NData [] true (clock f)) | Some _ => fnop f end
  | Append p b => match fget f p with
                  | Some (NData c w _) => fput f p (NData (c ++ b) w (clock f))
                  | _ => fnop f end
  | WriteMeta p pl => match fget f p with
                      | Some (NMeta None) => fput f p (NMeta (Some pl))
                      | _ => fnop f end
  | Rename p q => match fget f p with
                  | Some n => tick f (put loc_eqb nolt (del loc_eqb (ents f) p) q n)
                  | None => fnop f end
  | Unlink p => fdel f p
  | Link p q => match fget f p, fget f q with
                | Some n, None => fput f q n
                | _, _ => fnop f end
  | Symlink c p => match fget f p with None => fput f p (NSym c) | Some _ => fnop f end
  | Chmod p w => match fget f p with
                 | Some (NData c _ s) => fput f p (NData c w s)
                 | Some (NDir _) => fput f p (NDir w)
                 | _ => fnop f end
  | CopyChunk src dst n =>
      match fget f src, fget f dst with
      | Some (NData s _ _), Some (NData d w _) => fput f dst (NData (d ++ Ntake n (Ndrop (Nlen d) s)) w (clock f))
      | _, _ => fnop f end
  end.

Definition apply_all (l : list fsop) (f : fsys) : fsys := fold_left (fun f o => apply o f) l f.
(* the file system after a kill before the (n+1)-th effect *)
Definition crashed (n : nat) (l : list fsop) (f : fsys) : fsys := apply_all (firstn n l) f.

(* ---- loading -------------------------------------------------------------------------------------- *)
(* EventLog::from_dir: every entry of the directory that sorted_files lists is parsed; an entry
   that does not parse panics.  A torn file is one that was created and not written. *)
Definition listed_meta (l : loc) : bool := match l with LStore _ _ | LEc _ => true | _ => false end.
Definition entry_loads (e : loc * node) : bool :=
  match e with
  | (LStore _ _, NMeta (Some (PEvents _))) => true
  | (LEc _, NMeta (Some (PCounter _))) => true
  | (LStore _ _, _) | (LEc _, _) => false
  | _ => true
  end.
(* no two entries for the same location (the model's file systems are built by put / del only) *)
Definition loads (f : fsys) : bool := forallb entry_loads (ents f).

(* the files of store s in name order: name |-> events *)
Definition store_dir (f : fsys) (s : sid) : list (N * list ev) :=
  fold_left (fun acc e => match e with
                          | (LStore s' n, NMeta (Some (PEvents l))) => if sid_eqb s s' then put N.eqb N.ltb acc n l else acc
                          | _ => acc end) (ents f) [].
Definition store_events (f : fsys) (s : sid) : list ev := concat (map snd (store_dir f s)).
(* the newest counter file *)
Definition ec_dir (f : fsys) : list (N * N) :=
  fold_left (fun acc e => match e with
                          | (LEc n, NMeta (Some (PCounter k))) => put N.eqb N.ltb acc n k
                          | _ => acc end) (ents f) [].
Definition ec_value (f : fsys) : N := match rev (ec_dir f) with (_, k) :: _ => k | [] => 1 end.

(* latest value / all values of path p in an event list *)
Definition evs_of (l : list ev) (p : path) : list value :=
  flat_map (fun e => if N.eqb (ev_p e) p then [ev_v e] else []) l.
Definition last_value (l : list ev) (p : path) : option value :=
  match rev (evs_of l p) with v :: _ => Some v | [] => None end.

Definition tracked (f : fsys) (p : path) : bool :=
  match last_value (store_events f SPath) p with Some _ => true | None => false end.
Definition rec_stamp (f : fsys) (p : path) : option N :=
  match last_value (store_events f SMeta) p with Some (VMeta s) => Some s | _ => None end.
Definition rec_method (f : fsys) (p : path) : option method :=
  match last_value (store_events f SMethod) p with Some (VMethod m) => Some m | _ => None end.
Definition rec_digest (f : fsys) (p : path) : option bytes :=
  match last_value (store_events f SDigest) p with Some (VDigest c) => Some c | _ => None end.
(* every digest ever recorded for p: the version history, oldest first *)
Definition rec_history (f : fsys) (p : path) : list bytes :=
  flat_map (fun v => match v with VDigest c => [c] | _ => [] end) (evs_of (store_events f SDigest) p).

(* ---- what commands look at ------------------------------------------------------------------------- *)
Definition obj_exists (f : fsys) (c : bytes) : bool := exists_at f (LObj c).
(* fs::metadata follows a symlink into the cache *)
Definition ws_stamp (f : fsys) (p : path) : option N :=
  match fget f (LWs p) with
  | Some (NData _ _ s) => Some s
  | Some (NSym c) => match fget f (LObj c) with Some (NData _ _ s) => Some s | _ => None end
  | _ => None
  end.
Definition ws_read (f : fsys) (p : path) : option bytes :=
  match fget f (LWs p) with
  | Some (NData b _ _) => Some b
  | Some (NSym c) => match fget f (LObj c) with Some (NData b _ _) => Some b | _ => None end
  | _ => None
  end.
Definition ws_exists (f : fsys) (p : path) : bool := match ws_stamp f p with Some _ => true | None => false end.
Definition opt_N_eqb (a b : option N) : bool :=
  match a, b with Some x, Some y => N.eqb x y | None, None => true | _, _ => false end.
Definition ignored (f : fsys) (p : path) : bool :=
  match fget f LIgn with Some (NData b _ _) => existsb (N.eqb p) b | _ => false end.

(* ---- building blocks --------------------------------------------------------------------------------- *)
Section Commands.
Variable fixed_P22 : bool.
Variable chunk : N.          (* bytes per copy_file_range call (2^30 in std::fs::copy) *)

(* EventLog::to_dir / XvcEntityGenerator::save, the file name being the current time *)
Definition save_file (final tmp : loc) (pl : payload) : list fsop :=
  if fixed_P22 then [Creat tmp; WriteMeta tmp pl; Rename tmp final]
  else [Creat final; WriteMeta final pl].
Definition save_store (f : fsys) (s : sid) (evs : list ev) : list fsop :=
  match evs with
  | [] => []                                            (* to_dir: nothing when there is no new event *)
  | _ => save_file (LStore s (clock f)) (LStoreTmp s (clock f)) (PEvents evs)
  end.
Definition save_ec (f : fsys) (k : N) : list fsop :=
  save_file (LEc (clock f)) (LEcTmp (clock f)) (PCounter k).

(* move_to_cache: mkdir -p dir; dir +w; rename; object -w; dir -w *)
Definition move_to_cache (f : fsys) (p : path) (c : bytes) : list fsop :=
  (if exists_at f (LObjDir c) then [] else [Mkdir (LObjDir c)]) ++
  [Chmod (LObjDir c) true; Rename (LWs p) (LObj c); Chmod (LObj c) false; Chmod (LObjDir c) false].

(* std::fs::copy: open(dst, O_CREAT|O_TRUNC, mode of src); fchmod; copy_file_range until it returns 0 *)
Fixpoint copy_calls (src dst : loc) (fuel : nat) (left : N) : list fsop :=
  match fuel with
  | O => []
  | S k => if N.eqb left 0 then [CopyChunk src dst chunk]        (* the call that returns 0 *)
           else CopyChunk src dst chunk :: copy_calls src dst k (left - N.min left chunk)
  end.
Definition copy_fuel (len : N) : nat := S (N.to_nat (if N.eqb chunk 0 then 0 else len / chunk)).
Definition fs_copy (src dst : loc) (len : N) : list fsop :=
  [Creat dst; Chmod dst false] ++
  (if N.eqb chunk 0 then [] else copy_calls src dst (S (copy_fuel len)) len).

(* recheck_from_cache (single directory: no parent to create): remove what is there, then
   copy + chmod u+w / hard_link / symlink *)
Definition recheck_from_cache (f : fsys) (p : path) (c : bytes) (m : method) : list fsop :=
  (if ws_exists f p then [Unlink (LWs p)] else []) ++
  match m with
  | MCopy => fs_copy (LObj c) (LWs p) (Nlen c) ++ [Chmod (LWs p) true]
  | MHardlink => [Link (LObj c) (LWs p)]
  | MSymlink => [Symlink c (LWs p)]
  end.

(* carry_in's closure for one path, force = false:
   object there => nothing moved; else move_to_cache; then remove the workspace file if it is
   still there; then recheck_from_cache with the stored method.  The effects are computed along
   the file system as it evolves. *)
Definition then_ops (f : fsys) (l : list fsop) (k : fsys -> list fsop) : list fsop :=
  l ++ k (apply_all l f).
Definition carry_one (f : fsys) (p : path) (c : bytes) (m : method) : list fsop :=
  then_ops f (if obj_exists f c then [] else move_to_cache f p c) (fun f1 =>
  then_ops f1 (if ws_exists f1 p then [Unlink (LWs p)] else []) (fun f2 =>
  recheck_from_cache f2 p c m)).

Fixpoint carry_all (f : fsys) (todo : list (path * bytes * method)) : list fsop :=
  match todo with
  | [] => []
  | (p, c, m) :: r => then_ops f (carry_one f p c m) (fun f1 => carry_all f1 r)
  end.

Fixpoint save_stores (f : fsys) (l : list (sid * list ev)) : list fsop :=
  match l with
  | [] => []
  | (s, evs) :: r => then_ops f (save_store f s evs) (fun f1 => save_stores f1 r)
  end.

Fixpoint dedup (l : list path) : list path :=
  match l with [] => [] | p :: r => p :: filter (fun q => negb (N.eqb p q)) (dedup r) end.
Definition or_default (o : option method) (d : method) : method := match o with Some m => m | None => d end.

(* ---- track ------------------------------------------------------------------------------------------------ *)
(* `xvc file track [--recheck-method m] p...` (serial, no --force, no --no-commit) on regular
   workspace files of one directory; the order of the targets is the order in which the HStore
   iteration visits them (a parameter).  Symlinked and missing targets are not targets. *)
Record tplan := { tp_p : path; tp_new : bool; tp_changed : bool; tp_stamp : N; tp_data : bytes;
                  tp_method : method;       (* the method in force after the records are updated *)
                  tp_method_ev : bool;      (* a method event is written *)
                  tp_digest_ev : bool }.    (* RecordMissing | Different: a digest event, and carry-in *)
Definition track_plan (f : fsys) (mreq : option method) (p : path) : option tplan :=
  match fget f (LWs p) with
  | Some (NData b _ s) =>
      let isnew := negb (tracked f p) in
      let changed := isnew || negb (opt_N_eqb (rec_stamp f p) (Some s)) in
      let stored := rec_method f p in
      (* TrackCLI::update_from_conf replaces a missing --recheck-method by the configured default (copy)
         BEFORE diff_recheck_method sees it: the stored method of an edited file is not kept *)
      let m := match mreq with Some m => m | None => MCopy end in
      Some {| tp_p := p; tp_new := isnew; tp_changed := changed; tp_stamp := s; tp_data := b;
              tp_method := if changed then m else or_default stored MCopy;
              tp_method_ev := changed && match stored with Some sm => negb (method_eqb sm m) | None => true end;
              tp_digest_ev := changed && match rec_digest f p with Some d => negb (beqb d b) | None => true end |}
  | _ => None
  end.
Definition track_plans (f : fsys) (mreq : option method) (ps : list path) : list tplan :=
  flat_map (fun p => match track_plan f mreq p with Some t => [t] | None => [] end) (dedup ps).

Definition sel {A} (c : bool) (x : A) : list A := if c then [x] else [].
(* a path with a path record and no metadata record: diff_file_content_digest panics ("We have path
   but no metadata for entity"), only_file_targets trips its length assertion; both before any effect *)
Definition partial_records (f : fsys) (ps : list path) : bool :=
  existsb (fun p => tracked f p && match rec_stamp f p with Some _ => false | None => true end) ps.
Definition track_effects (f : fsys) (mreq : option method) (ps : list path) : list fsop :=
  if partial_records f (dedup ps) then [] else
  let tps := track_plans f mreq ps in
  let evs_path   := flat_map (fun t => sel (tp_new t) {| ev_p := tp_p t; ev_v := VPath |}) tps in
  let evs_meta   := flat_map (fun t => sel (tp_changed t) {| ev_p := tp_p t; ev_v := VMeta (tp_stamp t) |}) tps in
  let evs_method := flat_map (fun t => sel (tp_method_ev t) {| ev_p := tp_p t; ev_v := VMethod (tp_method t) |}) tps in
  let evs_tob    := flat_map (fun t => sel (tp_new t) {| ev_p := tp_p t; ev_v := VTob |}) tps in
  let evs_digest := flat_map (fun t => sel (tp_digest_ev t) {| ev_p := tp_p t; ev_v := VDigest (tp_data t) |}) tps in
  let newign := flat_map (fun t => sel (negb (ignored f (tp_p t))) (tp_p t)) tps in
  let n_new := Nlen (filter tp_new tps) in
  then_ops f (save_stores f [(SPath, evs_path); (SMeta, evs_meta); (SMethod, evs_method); (STob, evs_tob); (SDigest, evs_digest)]) (fun f1 =>
  then_ops f1 (match newign with [] => [] | _ => [Touch LIgn; Append LIgn newign; Append LIgn []] end) (fun f2 =>
  then_ops f2 (carry_all f2 (flat_map (fun t => sel (tp_digest_ev t) (tp_p t, tp_data t, tp_method t)) tps)) (fun f3 =>
  if N.eqb n_new 0 then [] else save_ec f3 (ec_value f + n_new)))).

(* ---- carry-in --------------------------------------------------------------------------------------------- *)
(* `xvc file carry-in p...` (serial, no --force): content moves first, THEN metadata and digest
   records are saved (update_store_records(.., false, false)) *)
Inductive cdiff := CSkipped | CIdentical | CDifferent (stamp : N) (b : bytes) | CMissing.
Definition carry_diff (f : fsys) (p : path) : cdiff :=
  match fget f (LWs p) with
  | Some (NData b _ s) =>
      if opt_N_eqb (rec_stamp f p) (Some s) then CSkipped
      else match rec_digest f p with
           | Some d => if beqb d b then CIdentical else CDifferent s b
           | None => CMissing       (* RecordMissing: warned about and skipped, like a missing file *)
           end
  | Some (NSym _) => CSkipped       (* a link into the cache has the metadata of the object: unchanged *)
  | _ => CMissing
  end.
Definition carry_targets (f : fsys) (ps : list path) : list path :=
  filter (fun p => tracked f p && match rec_stamp f p with Some _ => true | None => false end) (dedup ps).
Definition carry_in_effects (f : fsys) (ps : list path) : list fsop :=
  if partial_records f (dedup ps) then [] else
  let ts := carry_targets f ps in
  let ds := map (fun p => (p, carry_diff f p)) ts in
  (* a selected target without a cache path trips the length assertion of carry_in(): panic
     before anything is done *)
  if existsb (fun pd => match snd pd with CMissing => true | _ => false end) ds then []
  else
    let todo := flat_map (fun pd => match snd pd with
                                    | CDifferent _ b => [(fst pd, b, or_default (rec_method f (fst pd)) MCopy)]
                                    | _ => [] end) ds in
    let evs_meta := flat_map (fun pd => match snd pd with
                                        | CDifferent s _ => [{| ev_p := fst pd; ev_v := VMeta s |}]
                                        | CIdentical => match ws_stamp f (fst pd) with
                                                        | Some s => [{| ev_p := fst pd; ev_v := VMeta s |}] | None => [] end
                                        | _ => [] end) ds in
    let evs_digest := flat_map (fun pd => match snd pd with
                                          | CDifferent _ b => [{| ev_p := fst pd; ev_v := VDigest b |}]
                                          | _ => [] end) ds in
    then_ops f (carry_all f todo) (fun f1 => save_stores f1 [(SMeta, evs_meta); (SDigest, evs_digest)]).

(* ---- recheck ---------------------------------------------------------------------------------------------- *)
(* `xvc file recheck [--recheck-method m] [--force] p...` (serial): content first, then the
   recheck-method store.  After the fix of P1 the digest store is not written. *)
Record rplan := { rp_p : path; rp_c : bytes; rp_m : method; rp_mchanged : bool }.
Definition recheck_plan (f : fsys) (mreq : option method) (force : bool) (p : path) : option rplan :=
  match rec_digest f p with
  | None => None
  | Some c =>
      let stored := or_default (rec_method f p) MCopy in
      let m := or_default mreq stored in
      let mchanged := negb (method_eqb m stored) in
      let differs := match ws_stamp f p, ws_read f p with
                     | Some s, Some b => negb (opt_N_eqb (rec_stamp f p) (Some s)) && negb (beqb c b)
                     | _, _ => false end in
      let missing := negb (ws_exists f p) in
      if force || (mchanged && negb differs) || missing
      then Some {| rp_p := p; rp_c := c; rp_m := m; rp_mchanged := mchanged |} else None
  end.
Fixpoint recheck_all (f : fsys) (l : list rplan) : list fsop :=
  match l with
  | [] => []
  | r :: t =>
      then_ops f (if obj_exists f (rp_c r)
                  then then_ops f (if ws_exists f (rp_p r) then [Unlink (LWs (rp_p r))] else [])
                                  (fun f1 => recheck_from_cache f1 (rp_p r) (rp_c r) (rp_m r))
                  else [])                                  (* "cannot found in cache": skipped *)
               (fun f1 => recheck_all f1 t)
  end.
Definition recheck_effects (f : fsys) (mreq : option method) (force : bool) (ps : list path) : list fsop :=
  if partial_records f (dedup ps) then [] else
  let rps := flat_map (fun p => match recheck_plan f mreq force p with Some r => [r] | None => [] end)
                      (carry_targets f ps) in
  let evs := flat_map (fun r => sel (rp_mchanged r) {| ev_p := rp_p r; ev_v := VMethod (rp_m r) |}) rps in
  then_ops f (recheck_all f rps) (fun f1 => save_store f1 SMethod evs).

(* ---- commands that only save stores (pipeline new, step new, step dependency, ...) ------------------------ *)
Definition stores_only_effects (f : fsys) (saves : list (sid * list ev)) (ec : option N) : list fsop :=
  then_ops f (save_stores f saves) (fun f1 => match ec with Some k => save_ec f1 k | None => [] end).

Inductive command :=
| Track (m : option method) (ps : list path)
| CarryIn (ps : list path)
| Recheck (m : option method) (force : bool) (ps : list path)
| StoresOnly (saves : list (sid * list ev)) (ec : option N).

Definition effects (f : fsys) (c : command) : list fsop :=
  match c with
  | Track m ps => track_effects f m ps
  | CarryIn ps => carry_in_effects f ps
  | Recheck m force ps => recheck_effects f m force ps
  | StoresOnly saves ec => stores_only_effects f saves ec
  end.
Definition run_cmd (f : fsys) (c : command) : fsys := apply_all (effects f c) f.

End Commands.

(* ---- user actions and histories ------------------------------------------------------------------------------ *)
Inductive item :=
| UWrite (p : path) (b : bytes)      (* create or replace a regular workspace file (unlink, then create) *)
| UDelete (p : path)
| Xvc (c : command).
Definition user_write (f : fsys) (p : path) (b : bytes) : fsys :=
  apply_all [Unlink (LWs p); Creat (LWs p); Append (LWs p) b] f.
Definition do_item (fixed : bool) (chunk : N) (f : fsys) (it : item) : fsys :=
  match it with
  | UWrite p b => user_write f p b
  | UDelete p => apply (Unlink (LWs p)) f
  | Xvc c => run_cmd fixed chunk f c
  end.
(* `xvc init`: the first counter file *)
Definition init_fs : fsys := {| ents := [(LEc 0, NMeta (Some (PCounter 1)))]; clock := 1 |}.
Definition run_items (fixed : bool) (chunk : N) (h : list item) : fsys := fold_left (do_item fixed chunk) h init_fs.

(* ---- the four safety clauses, as executable checks ---------------------------------------------------------- *)
(* (d) every object holds exactly the bytes its address names (ideal hash: address = content) *)
Definition entry_intact (e : loc * node) : bool :=
  match e with
  | (LObj c, NData b _ _) => beqb b c
  | (LObj _, _) => false
  | _ => true
  end.
Definition objects_intact (f : fsys) : bool := forallb entry_intact (ents f).
Definition obj_holds (f : fsys) (c : bytes) : bool :=
  match fget f (LObj c) with Some (NData b _ _) => beqb b c | _ => false end.
(* (b) every object that was there (every committed version) is still there, intact *)
Definition objects_kept (f0 f : fsys) : bool :=
  forallb (fun e => match e with (LObj c, _) => obj_holds f c | _ => true end) (ents f0).
(* (c) every byte string a regular workspace file held is still held by a workspace file or an object *)
Definition ws_holds (f : fsys) (b : bytes) : bool :=
  existsb (fun e => match e with (LWs _, NData b' _ _) => beqb b' b | _ => false end) (ents f).
Definition bytes_kept (f0 f : fsys) : bool :=
  forallb (fun e => match e with (LWs _, NData b _ _) => ws_holds f b || obj_holds f b | _ => true end) (ents f0).

(* ---- the discipline of effect lists (executable; Crash/Proofs.v shows it implies the clauses at every
   prefix, and that the effect lists of the commands obey it) -------------------------------------------- *)
Definition mem (p : path) (l : list path) : bool := existsb (N.eqb p) l.
Definition rm (p : path) (l : list path) : list path := filter (fun q => negb (N.eqb p q)) l.
(* [opened]: workspace paths whose present file was created by this command (it holds no bytes of the
   user).  [strict] = also clause (c): a workspace file is removed only when its bytes are in the cache. *)
Definition step_ok (strict : bool) (f : fsys) (opened : list path) (o : fsop) : bool :=
  match o with
  | Mkdir (LObjDir _) => true
  | Creat (LWs p) => negb (exists_at f (LWs p))
  | Creat l => is_meta_loc l
  | Touch LIgn => true
  | Append LIgn _ => true
  | Append (LWs p) _ => mem p opened
  | WriteMeta l _ => is_meta_loc l
  | Rename (LWs p) (LObj c) => match fget f (LWs p) with Some (NData b _ _) => beqb b c | _ => false end
  | Rename a b => is_meta_loc a && is_meta_loc b
  | Unlink (LWs p) => negb strict || mem p opened
                      || match fget f (LWs p) with Some (NData b _ _) => obj_holds f b | _ => true end
  | Unlink l => is_meta_loc l
  | Link (LObj _) (LWs _) => true
  | Symlink c (LWs _) => obj_holds f c                 (* links are made to objects that are there *)
  | Chmod (LObj _) _ | Chmod (LObjDir _) _ | Chmod (LWs _) _ => true
  | CopyChunk (LObj _) (LWs p) _ => mem p opened
  | _ => false
  end.
Definition opened_after (opened : list path) (o : fsop) : list path :=
  match o with
  | Creat (LWs p) => p :: opened
  | Unlink (LWs p) | Rename (LWs p) _ | Link _ (LWs p) | Symlink _ (LWs p) => rm p opened
  | _ => opened
  end.
Fixpoint all_ok (strict : bool) (f : fsys) (opened : list path) (l : list fsop) : bool :=
  match l with
  | [] => true
  | o :: r => step_ok strict f opened o && all_ok strict (apply o f) (opened_after opened o) r
  end.
(* clause (a): nothing but a complete payload ever appears under a listed name *)
Definition meta_ok (f : fsys) (o : fsop) : bool :=
  match o with
  | Rename p q => negb (listed_meta q)
                  || match q, fget f p with
                     | LStore _ _, Some (NMeta (Some (PEvents _))) => true
                     | LEc _, Some (NMeta (Some (PCounter _))) => true
                     | _, _ => false end
  | Unlink _ => true
  | Mkdir l | Creat l | Touch l | Append l _ | WriteMeta l _ | Link _ l | Symlink _ l | Chmod l _ | CopyChunk _ l _ =>
      negb (listed_meta l)
  end.
Fixpoint all_meta_ok (f : fsys) (l : list fsop) : bool :=
  match l with [] => true | o :: r => meta_ok f o && all_meta_ok (apply o f) r end.

(* ---- observation, for "re-running converges" ------------------------------------------------------------------ *)
(* what a user can see of path p, without modification times *)
Inductive wsobs := ONone | OFile (b : bytes) (w : bool) | OLink (c : bytes).
Definition obs_ws (f : fsys) (p : path) : wsobs :=
  match fget f (LWs p) with
  | Some (NData b w _) => OFile b w
  | Some (NSym c) => OLink c
  | _ => ONone
  end.
Definition wsobs_eqb (a b : wsobs) : bool :=
  match a, b with
  | ONone, ONone => true
  | OFile x w, OFile y v => beqb x y && Bool.eqb w v
  | OLink x, OLink y => beqb x y
  | _, _ => false
  end.
Definition opt_bytes_eqb (a b : option bytes) : bool :=
  match a, b with Some x, Some y => beqb x y | None, None => true | _, _ => false end.
Definition opt_method_eqb (a b : option method) : bool :=
  match a, b with Some x, Some y => method_eqb x y | None, None => true | _, _ => false end.
(* permission bits of an object and of its directory (read-only after every complete command) *)
Definition obj_mode (f : fsys) (c : bytes) : option (bool * bool) :=
  match fget f (LObj c), fget f (LObjDir c) with
  | Some (NData _ w _), Some (NDir dw) => Some (w, dw)
  | _, _ => None
  end.
Definition obj_mode_eqb (a b : option (bool * bool)) : bool :=
  match a, b with
  | Some (w, d), Some (w', d') => Bool.eqb w w' && Bool.eqb d d'
  | None, None => true
  | _, _ => false
  end.
(* same workspace view, same recorded version and method, same version restorable, same object
   permissions, for the paths ps *)
Definition same_obs (ps : list path) (f g : fsys) : bool :=
  forallb (fun p => wsobs_eqb (obs_ws f p) (obs_ws g p)
                    && opt_bytes_eqb (rec_digest f p) (rec_digest g p)
                    && opt_method_eqb (rec_method f p) (rec_method g p)
                    && Bool.eqb (tracked f p) (tracked g p)
                    && match rec_digest f p with
                       | Some c => Bool.eqb (obj_holds f c) (obj_holds g c) && obj_mode_eqb (obj_mode f c) (obj_mode g c)
                       | None => true end) ps.

(* "re-running the interrupted command and then `xvc file recheck`" vs the uninterrupted run (+ recheck) *)
Definition rerun (fixed : bool) (chunk : N) (c : command) (ps : list path) (f : fsys) : fsys :=
  run_cmd fixed chunk (run_cmd fixed chunk f c) (Recheck None false ps).
Definition converges_at (fixed : bool) (chunk : N) (f : fsys) (c : command) (ps : list path) (n : nat) : bool :=
  same_obs ps (rerun fixed chunk c ps (crashed n (effects fixed chunk f c) f))
              (run_cmd fixed chunk (run_cmd fixed chunk f c) (Recheck None false ps)).

(* ---- the known classes, decided by the call the kill preceded -------------------------------------------------- *)
(* P22: the kill preceded the write(2) into a store or counter file that sits under a listed name *)
Definition next_op (n : nat) (l : list fsop) : option fsop := nth_error l n.
Definition K_torn_event_file (n : nat) (l : list fsop) : bool :=
  match next_op n l with Some (WriteMeta p _) => listed_meta p | _ => false end.
(* the kill fell inside std::fs::copy into the workspace: after the open(O_CREAT|O_TRUNC) of the
   workspace file and before its final chmod u+w *)
Definition K_crash_during_workspace_copy (n : nat) (l : list fsop) : bool :=
  match next_op n l with
  | Some (Chmod (LWs _) _) | Some (CopyChunk _ (LWs _) _) => true
  | _ => false
  end.
(* P23: the kill fell between the save of a record store and the arrival of the content in the
   cache (track: records first), or between the move of the content into the cache and the save of
   a record store (carry-in: content first) *)
Definition completes_record_save (o : fsop) : bool :=
  match o with
  | WriteMeta (LStore _ _) _ => true
  | Rename (LStoreTmp _ _) (LStore _ _) => true
  | _ => false
  end.
Definition moves_into_cache (o : fsop) : bool :=
  match o with Rename (LWs _) (LObj _) => true | _ => false end.
Definition K_crash_between_records_and_content (n : nat) (l : list fsop) : bool :=
  let done := firstn n l in
  let todo := skipn n l in
  (existsb completes_record_save done && existsb moves_into_cache todo)
  || (existsb moves_into_cache done && existsb completes_record_save todo).
(* P30: the kill fell between the saves of two record stores of the same command *)
Definition K_partial_record_set (n : nat) (l : list fsop) : bool :=
  existsb completes_record_save (firstn n l) && existsb completes_record_save (skipn n l).
(* P31: the kill preceded the chmod that makes a new object, or its directory, read-only again: the
   object stays writable for ever (and a later hard link of it in the workspace is writable too) *)
Definition K_object_left_writable (n : nat) (l : list fsop) : bool :=
  match next_op n l with
  | Some (Chmod (LObj _) false) | Some (Chmod (LObjDir _) false) => true
  | _ => false
  end.
Definition K_any (n : nat) (l : list fsop) : bool :=
  K_torn_event_file n l || K_crash_during_workspace_copy n l
  || K_crash_between_records_and_content n l || K_partial_record_set n l || K_object_left_writable n l.

(* P23 restated for content that is ALREADY in the cache (the bytes to commit are those of an older
   version or of another file): move_to_cache is skipped, no rename happens and
   K_crash_between_records_and_content does not fire, but the order of effects is the same: the content
   step of carry_in() is then the removal of the workspace file (followed by the link / copy out of the
   cache).  A candidate widening of the class; not part of K_any (Props/C07.v: the statement "outside the
   four classes" is refuted for track and carry-in, and holds on the swept instances with this one). *)
Definition replaces_content (o : fsop) : bool :=
  match o with Rename (LWs _) (LObj _) | Unlink (LWs _) => true | _ => false end.
Definition K_crash_between_records_and_replacement (n : nat) (l : list fsop) : bool :=
  let done := firstn n l in
  let todo := skipn n l in
  (existsb completes_record_save done && existsb replaces_content todo)
  || (existsb replaces_content done && existsb completes_record_save todo).
