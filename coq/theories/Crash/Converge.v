(* Part C: re-running an interrupted command converges (recheck), and store directories of a
   store-only command are old-or-new at every prefix. *)
From Coq Require Import List Bool Arith NArith Lia.
From XV Require Import Base.Amap Base.Bytes Crash.Model Crash.Proofs Crash.EffectsOk.
Import ListNotations.

(* ---- store directories as folds over the raw entries -------------------------------------------------- *)
Definition sstep (s : sid) (acc : list (N * list ev)) (e : loc * node) : list (N * list ev) :=
  match e with
  | (LStore s' n, NMeta (Some (PEvents l))) => if sid_eqb s s' then put N.eqb N.ltb acc n l else acc
  | _ => acc
  end.

Lemma store_dir_fold f s : store_dir f s = fold_left (sstep s) (ents f) [].
Proof. reflexivity. Qed.

(* a location whose entry never contributes to the directory of store s *)
Definition irr (s : sid) (k : loc) : bool :=
  match k with LStore s' _ => negb (sid_eqb s s') | _ => true end.

Lemma sstep_irr s acc k v : irr s k = true -> sstep s acc (k, v) = acc.
Proof.
  destruct k; cbn; try reflexivity.
  intros H. apply negb_true_iff in H. rewrite H.
  destruct v as [| [[]|] | |]; reflexivity.
Qed.

Lemma ins_nolt (m : list (loc * node)) k v : ins_sorted nolt m k v = m ++ [(k, v)].
Proof. induction m as [|[k' v'] r IH]; cbn; [reflexivity|]. now rewrite IH. Qed.

(* folds over the entries that ignore the entries of some locations *)
Section FoldFrame.
Variable Acc : Type.
Variable step : Acc -> loc * node -> Acc.
Variable irrk : loc -> bool.
Hypothesis step_irr : forall acc k v, irrk k = true -> step acc (k, v) = acc.

Lemma fold_del_irr k : irrk k = true -> forall m acc,
  fold_left step (del loc_eqb m k) acc = fold_left step m acc.
Proof.
  intros H. induction m as [|[k' v] r IH]; intros acc; cbn [del fold_left]; [reflexivity|].
  destruct (loc_eqb_spec k' k) as [->|Hne].
  - rewrite step_irr by exact H. apply IH.
  - cbn [fold_left]. apply IH.
Qed.

Lemma fold_put_irr k v : irrk k = true -> forall m acc,
  fold_left step (put loc_eqb nolt m k v) acc = fold_left step m acc.
Proof.
  intros H m acc. unfold put. rewrite ins_nolt, fold_left_app. cbn [fold_left].
  rewrite step_irr by exact H. now apply fold_del_irr.
Qed.

Definition op_irrk (o : fsop) : bool :=
  match o with
  | Mkdir p | Creat p | Touch p | Append p _ | WriteMeta p _ | Unlink p | Chmod p _ => irrk p
  | Rename p q => irrk p && irrk q
  | Link _ q => irrk q
  | Symlink _ p => irrk p
  | CopyChunk _ d _ => irrk d
  end.

Lemma fold_frame o f init : op_irrk o = true ->
  fold_left step (ents (apply o f)) init = fold_left step (ents f) init.
Proof.
  intros H.
  destruct o; cbn [apply op_irrk] in *;
    try (apply andb_true_iff in H as [H1 H2]);
    repeat match goal with
           | |- context [match fget ?f ?x with _ => _ end] => destruct (fget f x) as [[| [|] | |]|]
           end;
    cbn [fput fdel fnop tick ents];
    rewrite ?fold_put_irr, ?fold_del_irr by assumption; reflexivity.
Qed.
End FoldFrame.

Definition op_irr (s : sid) : fsop -> bool := op_irrk (irr s).

Lemma store_dir_frame s o f : op_irr s o = true -> store_dir (apply o f) s = store_dir f s.
Proof. intros H. rewrite !store_dir_fold. apply (fold_frame _ (sstep s) (irr s) (sstep_irr s)). exact H. Qed.

Lemma store_dir_frame_all s l : forall f, forallb (op_irr s) l = true -> store_dir (apply_all l f) s = store_dir f s.
Proof.
  induction l as [|o r IH]; intros f H; cbn; [reflexivity|].
  cbn in H. apply andb_true_iff in H as [H1 H2]. rewrite IH by exact H2. now apply store_dir_frame.
Qed.

Lemma del_absent (m : list (loc * node)) k : get loc_eqb m k = None -> del loc_eqb m k = m.
Proof.
  induction m as [|[k' v] r IH]; cbn; [reflexivity|].
  destruct (loc_eqb k' k); [discriminate|]. intros H. now rewrite IH.
Qed.

Lemma sid_eqb_refl s : sid_eqb s s = true.
Proof. destruct (sid_eqb_spec s s); congruence. Qed.

Lemma store_dir_rename_in s n f l :
  fget f (LStoreTmp s n) = Some (NMeta (Some (PEvents l))) -> fget f (LStore s n) = None ->
  store_dir (apply (Rename (LStoreTmp s n) (LStore s n)) f) s = put N.eqb N.ltb (store_dir f s) n l.
Proof.
  intros G1 G2. rewrite !store_dir_fold. cbn [apply]. rewrite G1. cbn [tick ents].
  unfold put at 1. rewrite ins_nolt, fold_left_app. cbn [fold_left sstep]. rewrite sid_eqb_refl.
  rewrite del_absent.
  - rewrite (fold_del_irr _ (sstep s) (irr s) (sstep_irr s)) by reflexivity. reflexivity.
  - rewrite fget_del_raw. cbn [loc_eqb]. exact G2.
Qed.

(* appending under a name larger than every name in the directory *)
Lemma put_fresh_app {V} (m : list (N * V)) n v :
  (forall k, In k (keys m) -> (k < n)%N) -> put N.eqb N.ltb m n v = m ++ [(n, v)].
Proof.
  unfold put. induction m as [|[k' v'] r IH]; intros H; cbn; [reflexivity|].
  assert (Hk : (k' < n)%N) by (apply H; now left).
  destruct (N.eqb_spec k' n) as [->|_]; [lia|]. cbn.
  destruct (N.ltb_spec n k'); [lia|]. rewrite IH; [reflexivity|].
  intros k Hin. apply H. now right.
Qed.

Lemma keys_put_in {V} (m : list (N * V)) k v k' : In k' (keys (put N.eqb N.ltb m k v)) -> k' = k \/ In k' (keys m).
Proof.
  unfold put. intros H. apply keys_ins_in in H as [H|H]; [now left|right].
  now apply (keys_del_in N.eqb Neqb_spec) in H as [H _].
Qed.

Lemma fold_keys s k : forall m acc,
  In k (keys (fold_left (sstep s) m acc)) -> In k (keys acc) \/ exists nd, In (LStore s k, nd) m.
Proof.
  induction m as [|[x nd] r IH]; intros acc H; cbn [fold_left] in H; [now left|].
  apply IH in H as [H|(nd' & H)]; [|right; exists nd'; now right].
  destruct x; cbn [sstep] in H; try (now left).
  destruct nd as [| [[l|]|] | |]; try (now left).
  destruct (sid_eqb_spec s s0) as [<-|]; [|now left].
  apply keys_put_in in H as [->|H]; [|now left]. right. eexists. left. reflexivity.
Qed.

Lemma store_dir_keys f s k : In k (keys (store_dir f s)) -> exists nd, In (LStore s k, nd) (ents f).
Proof. rewrite store_dir_fold. intros H. apply fold_keys in H as [[]|H]. exact H. Qed.

(* ---- store file names are older than the clock ------------------------------------------------------------ *)
Definition fresh_entry (c : N) (e : loc * node) : bool :=
  match fst e with LStore _ n => N.ltb n c | _ => true end.
Definition names_fresh (f : fsys) : bool := forallb (fresh_entry (clock f)) (ents f).

Lemma fresh_entry_mono c c' e : (c <= c')%N -> fresh_entry c e = true -> fresh_entry c' e = true.
Proof.
  unfold fresh_entry. destruct (fst e); auto. intros L H. apply N.ltb_lt in H. apply N.ltb_lt. lia.
Qed.

Lemma forallb_mono {A} (P Q : A -> bool) l : (forall x, P x = true -> Q x = true) -> forallb P l = true -> forallb Q l = true.
Proof. intros H. rewrite !forallb_forall. auto. Qed.

Lemma clock_apply o f : clock (apply o f) = N.succ (clock f).
Proof.
  destruct o; cbn [apply];
    repeat match goal with
           | |- context [match fget ?f ?x with _ => _ end] => destruct (fget f x) as [[| [|] | |]|]
           end; reflexivity.
Qed.

Lemma clock_apply_all l : forall f, (clock f <= clock (apply_all l f))%N.
Proof.
  induction l as [|o r IH]; intros f; [cbn; lia|]. change (apply_all (o :: r) f) with (apply_all r (apply o f)).
  specialize (IH (apply o f)). rewrite clock_apply in IH. lia.
Qed.

Definition dest (o : fsop) : loc :=
  match o with
  | Mkdir p | Creat p | Touch p | Append p _ | WriteMeta p _ | Unlink p | Chmod p _ => p
  | Rename _ q | Link _ q => q
  | Symlink _ p => p
  | CopyChunk _ d _ => d
  end.

Lemma written_dest o f l n : written o f = Some (l, n) -> l = dest o.
Proof.
  destruct o; cbn [written dest];
    repeat match goal with
           | |- context [match fget ?f ?x with _ => _ end] => destruct (fget f x) as [[| [|] | |]|]
           end; intros H; try discriminate; now injection H as <- _.
Qed.

Definition name_ok (f : fsys) (o : fsop) : bool :=
  match o with
  | Unlink _ => true
  | _ => match dest o with LStore _ n => N.leb n (clock f) | _ => true end
  end.
Fixpoint all_name_ok (f : fsys) (l : list fsop) : bool :=
  match l with [] => true | o :: r => name_ok f o && all_name_ok (apply o f) r end.

Lemma names_fresh_step o f : name_ok f o = true -> names_fresh f = true -> names_fresh (apply o f) = true.
Proof.
  intros Nk F. unfold names_fresh. rewrite clock_apply.
  apply forallb_apply.
  - eapply forallb_mono; [|exact F]. intros e. apply fresh_entry_mono. lia.
  - intros l n W. assert (U : match o with Unlink _ => False | _ => True end) by (destruct o; auto; discriminate).
    apply written_dest in W. subst l. unfold fresh_entry. cbn [fst].
    destruct (dest o) eqn:D; auto.
    assert (Nk' : N.leb n0 (clock f) = true) by (destruct o; try contradiction; cbn [name_ok] in Nk; rewrite D in Nk; exact Nk).
    apply N.leb_le in Nk'. apply N.ltb_lt. lia.
Qed.

Lemma names_fresh_all l : forall f, all_name_ok f l = true -> names_fresh f = true -> names_fresh (apply_all l f) = true.
Proof.
  induction l as [|o r IH]; intros f A F; cbn; [exact F|].
  cbn in A. apply andb_true_iff in A as [A1 A2]. apply IH; [exact A2|]. now apply names_fresh_step.
Qed.

Lemma all_name_ok_app l1 : forall f l2,
  all_name_ok f (l1 ++ l2) = all_name_ok f l1 && all_name_ok (apply_all l1 f) l2.
Proof.
  induction l1 as [|o r IH]; intros f l2; cbn; [reflexivity|]. rewrite IH. now rewrite andb_assoc.
Qed.

Lemma all_name_ok_firstn l : forall f n, all_name_ok f l = true -> all_name_ok f (firstn n l) = true.
Proof.
  induction l as [|o r IH]; intros f n A; destruct n; cbn; auto.
  cbn in A. apply andb_true_iff in A as [A1 A2]. rewrite A1. cbn. now apply IH.
Qed.

Lemma benign_name_ok o f : benign o = true -> name_ok f o = true.
Proof.
  destruct o; cbn [benign dest name_ok]; intros H; try reflexivity;
    match goal with |- match ?l with _ => _ end = true => destruct l end; try reflexivity; try discriminate.
Qed.

Lemma benign_all_name_ok l : forall f, forallb benign l = true -> all_name_ok f l = true.
Proof.
  induction l as [|o r IH]; intros f H; cbn; [reflexivity|].
  cbn in H. apply andb_true_iff in H as [H1 H2]. rewrite benign_name_ok by exact H1. now apply IH.
Qed.

Lemma save_file_store_name_ok fixed f s pl :
  all_name_ok f (save_file fixed (LStore s (clock f)) (LStoreTmp s (clock f)) pl) = true.
Proof.
  unfold save_file. destruct fixed; cbn [all_name_ok name_ok dest andb]; rewrite ?clock_apply.
  - rewrite andb_true_r. apply N.leb_le. lia.
  - rewrite andb_true_r. apply andb_true_iff. split; apply N.leb_le; lia.
Qed.

Lemma save_ec_name_ok fixed f k : all_name_ok f (save_ec fixed f k) = true.
Proof. unfold save_ec, save_file. destruct fixed; reflexivity. Qed.

Lemma save_store_name_ok fixed f s evs : all_name_ok f (save_store fixed f s evs) = true.
Proof. unfold save_store. destruct evs; [reflexivity|]. apply save_file_store_name_ok. Qed.

Lemma save_stores_name_ok fixed l : forall f, all_name_ok f (save_stores fixed f l) = true.
Proof.
  induction l as [|[sd evs] r IH]; intros f; cbn [save_stores]; [reflexivity|].
  unfold then_ops. now rewrite all_name_ok_app, save_store_name_ok, IH.
Qed.

Lemma track_name_ok fixed chunk f mreq ps : all_name_ok f (track_effects fixed chunk f mreq ps) = true.
Proof.
  unfold track_effects. destruct (partial_records f (dedup ps)); [reflexivity|].
  cbv zeta. unfold then_ops.
  rewrite all_name_ok_app, save_stores_name_ok. cbn [andb].
  rewrite all_name_ok_app.
  match goal with |- context [match ?x with [] => [] | _ :: _ => [Touch LIgn; Append LIgn ?x; Append LIgn []] end] =>
    destruct x end.
  - cbn [all_name_ok andb apply_all fold_left].
    rewrite all_name_ok_app, benign_all_name_ok by apply carry_all_benign. cbn [andb].
    match goal with |- context [if ?b then [] else _] => destruct b end; [reflexivity|]. apply save_ec_name_ok.
  - rewrite benign_all_name_ok by reflexivity. cbn [andb].
    rewrite all_name_ok_app, benign_all_name_ok by apply carry_all_benign. cbn [andb].
    match goal with |- context [if ?b then [] else _] => destruct b end; [reflexivity|]. apply save_ec_name_ok.
Qed.

Lemma carry_in_name_ok fixed chunk f ps : all_name_ok f (carry_in_effects fixed chunk f ps) = true.
Proof.
  unfold carry_in_effects. destruct (partial_records f (dedup ps)); [reflexivity|].
  cbv zeta. match goal with |- context [if ?b then [] else _] => destruct b end; [reflexivity|].
  unfold then_ops. rewrite all_name_ok_app, benign_all_name_ok by apply carry_all_benign.
  apply save_stores_name_ok.
Qed.

Lemma recheck_name_ok fixed chunk f mreq force ps : all_name_ok f (recheck_effects fixed chunk f mreq force ps) = true.
Proof.
  unfold recheck_effects. destruct (partial_records f (dedup ps)); [reflexivity|].
  cbv zeta. unfold then_ops. rewrite all_name_ok_app, benign_all_name_ok by apply recheck_all_benign.
  apply save_store_name_ok.
Qed.

Lemma stores_only_name_ok fixed f saves ec : all_name_ok f (stores_only_effects fixed f saves ec) = true.
Proof.
  unfold stores_only_effects, then_ops. rewrite all_name_ok_app, save_stores_name_ok. cbn [andb].
  destruct ec; [apply save_ec_name_ok|reflexivity].
Qed.

Lemma effects_name_ok fixed chunk f c : all_name_ok f (effects fixed chunk f c) = true.
Proof.
  destruct c; cbn [effects].
  - apply track_name_ok.
  - apply carry_in_name_ok.
  - apply recheck_name_ok.
  - apply stores_only_name_ok.
Qed.

Lemma do_item_fresh fixed chunk f it : names_fresh f = true -> names_fresh (do_item fixed chunk f it) = true.
Proof.
  intros F. destruct it; cbn [do_item].
  - unfold user_write. apply names_fresh_all; [|exact F]. apply benign_all_name_ok. reflexivity.
  - apply names_fresh_step; [reflexivity|exact F].
  - unfold run_cmd. apply names_fresh_all; [apply effects_name_ok|exact F].
Qed.

Lemma run_items_fresh fixed chunk h : names_fresh (run_items fixed chunk h) = true.
Proof.
  unfold run_items. assert (F : names_fresh init_fs = true) by reflexivity. revert F. generalize init_fs.
  induction h as [|it r IH]; intros f F; cbn; [exact F|]. apply IH. now apply do_item_fresh.
Qed.

(* ---- what a completed (fixed) save does to the event list of its store -------------------------------------- *)
Lemma fresh_absent f s n : names_fresh f = true -> (clock f <= n)%N -> fget f (LStore s n) = None.
Proof.
  intros F L. destruct (fget f (LStore s n)) as [nd|] eqn:G; [|reflexivity].
  apply (get_In loc_eqb loc_eqb_spec) in G. unfold names_fresh in F. rewrite forallb_forall in F.
  apply F in G. unfold fresh_entry in G. cbn [fst] in G. apply N.ltb_lt in G. lia.
Qed.

Lemma fresh_keys f s k : names_fresh f = true -> In k (keys (store_dir f s)) -> (k < clock f)%N.
Proof.
  intros F H. apply store_dir_keys in H as (nd & H). unfold names_fresh in F. rewrite forallb_forall in F.
  apply F in H. unfold fresh_entry in H. cbn [fst] in H. now apply N.ltb_lt.
Qed.

Lemma save_store_irr s' f s evs : s' <> s -> forallb (op_irr s') (save_store true f s evs) = true.
Proof.
  intros H. unfold save_store, save_file. destruct evs; [reflexivity|]. cbn.
  destruct (sid_eqb_spec s' s); [contradiction|reflexivity].
Qed.

Lemma save_store_events f s evs : names_fresh f = true ->
  store_events (apply_all (save_store true f s evs) f) s = store_events f s ++ evs.
Proof.
  intros F. unfold save_store. destruct evs as [|e evs]; [cbn; now rewrite app_nil_r|].
  set (pl := e :: evs). unfold save_file.
  change (apply_all [Creat (LStoreTmp s (clock f)); WriteMeta (LStoreTmp s (clock f)) (PEvents pl);
                     Rename (LStoreTmp s (clock f)) (LStore s (clock f))] f)
    with (apply (Rename (LStoreTmp s (clock f)) (LStore s (clock f)))
            (apply (WriteMeta (LStoreTmp s (clock f)) (PEvents pl)) (apply (Creat (LStoreTmp s (clock f))) f))).
  set (f1 := apply (Creat (LStoreTmp s (clock f))) f).
  set (f2 := apply (WriteMeta (LStoreTmp s (clock f)) (PEvents pl)) f1).
  assert (G1 : fget f1 (LStoreTmp s (clock f)) = Some (NMeta None)).
  { unfold f1. rewrite fget_apply. cbn [written is_meta_loc]. now rewrite loc_eqb_refl. }
  assert (G2 : fget f2 (LStoreTmp s (clock f)) = Some (NMeta (Some (PEvents pl)))).
  { unfold f2. rewrite fget_apply. cbn [written]. rewrite G1. now rewrite loc_eqb_refl. }
  assert (G3 : fget f2 (LStore s (clock f)) = None).
  { unfold f2, f1. rewrite !fget_frame by reflexivity. apply fresh_absent; [exact F|lia]. }
  unfold store_events. rewrite (store_dir_rename_in s (clock f) f2 pl G2 G3).
  assert (D : store_dir f2 s = store_dir f s).
  { unfold f2, f1. rewrite !store_dir_frame by reflexivity. reflexivity. }
  rewrite D, put_fresh_app by (intros k; now apply fresh_keys).
  rewrite map_app, concat_app. cbn. now rewrite app_nil_r.
Qed.

(* ---- std::fs::copy copies the whole object (chunk > 0) ------------------------------------------------------- *)
Lemma Nlen_cons {A} (x : A) r : Nlen (x :: r) = N.succ (Nlen r).
Proof. unfold Nlen. cbn [length]. now rewrite Nat2N.inj_succ. Qed.

Lemma Ntake_0 {A} (l : list A) : Ntake 0 l = [].
Proof. destruct l; reflexivity. Qed.

Lemma Ntake_all {A} (l : list A) : forall n, (Nlen l <= n)%N -> Ntake n l = l.
Proof.
  induction l as [|x r IH]; intros n H; cbn [Ntake]; [reflexivity|].
  rewrite Nlen_cons in H. destruct (N.eqb_spec n 0); [lia|]. rewrite IH; [reflexivity|lia].
Qed.

Lemma Nlen_Ntake {A} (l : list A) : forall n, (n <= Nlen l)%N -> Nlen (Ntake n l) = n.
Proof.
  induction l as [|x r IH]; intros n H; cbn [Ntake].
  - unfold Nlen in *. cbn in *. lia.
  - rewrite Nlen_cons in H. destruct (N.eqb_spec n 0); [subst; reflexivity|].
    rewrite Nlen_cons, IH; lia.
Qed.

Lemma Ntake_app_drop {A} (l : list A) : forall j k, Ntake j l ++ Ntake k (Ndrop j l) = Ntake (j + k) l.
Proof.
  induction l as [|x r IH]; intros j k; cbn [Ntake Ndrop]; [reflexivity|].
  destruct (N.eqb_spec j 0) as [->|Hj].
  - cbn [app]. rewrite N.add_0_l. reflexivity.
  - destruct (N.eqb_spec (j + k) 0); [lia|]. cbn [app]. rewrite IH. f_equal. f_equal. lia.
Qed.

Section Copy.
Variable chunk : N.
Hypothesis chunk_pos : chunk <> 0%N.

Lemma copy_calls_result c p wo so fuel : forall left f j w s0,
  fget f (LObj c) = Some (NData c wo so) ->
  fget f (LWs p) = Some (NData (Ntake j c) w s0) ->
  (j <= Nlen c)%N -> left = (Nlen c - j)%N -> (left + chunk <= N.of_nat fuel * chunk)%N ->
  exists s', fget (apply_all (copy_calls chunk (LObj c) (LWs p) fuel left) f) (LWs p) = Some (NData c w s').
Proof.
  induction fuel as [|k IH]; intros left f j w s0 Go Gw Hj Hl Hf; [cbn in Hf; lia|].
  cbn [copy_calls].
  assert (STEP : forall j', (j' <= Nlen c)%N -> Ntake (j + chunk) c = Ntake j' c ->
            fget (apply (CopyChunk (LObj c) (LWs p) chunk) f) (LWs p) = Some (NData (Ntake j' c) w (clock f))).
  { intros j' _ E. rewrite fget_apply. cbn [written]. rewrite Go, Gw, loc_eqb_refl.
    rewrite Nlen_Ntake by exact Hj. rewrite Ntake_app_drop, E. reflexivity. }
  destruct (N.eqb_spec left 0) as [H0|H0].
  - (* the call that returns 0 *)
    exists (clock f). cbn [apply_all fold_left].
    assert (j = Nlen c) by lia. subst j.
    rewrite (STEP (Nlen c)); [now rewrite Ntake_all by lia|lia|].
    rewrite !Ntake_all by lia. reflexivity.
  - change (apply_all (CopyChunk (LObj c) (LWs p) chunk :: ?r) f)
      with (apply_all r (apply (CopyChunk (LObj c) (LWs p) chunk) f)).
    rewrite Nat2N.inj_succ, N.mul_succ_l in Hf.
    apply (IH _ _ (j + N.min left chunk)%N w (clock f)).
    + rewrite fget_frame by reflexivity. exact Go.
    + apply STEP; [lia|].
      destruct (N.le_ge_cases left chunk).
      * rewrite N.min_l by assumption. rewrite !Ntake_all by lia. reflexivity.
      * rewrite N.min_r by assumption. reflexivity.
    + lia.
    + lia.
    + destruct (N.le_ge_cases left chunk).
      * rewrite N.min_l by assumption. destruct k; [cbn in Hf; lia|].
        rewrite Nat2N.inj_succ, N.mul_succ_l. lia.
      * rewrite N.min_r by assumption. lia.
Qed.

Lemma fs_copy_result c p wo so f :
  fget f (LObj c) = Some (NData c wo so) -> fget f (LWs p) = None ->
  exists s', fget (apply_all (fs_copy chunk (LObj c) (LWs p) (Nlen c) ++ [Chmod (LWs p) true]) f) (LWs p)
             = Some (NData c true s').
Proof.
  intros Go Gw. unfold fs_copy. destruct (N.eqb_spec chunk 0) as [|_]; [contradiction|].
  rewrite <- app_assoc, !apply_all_app.
  change (apply_all [Creat (LWs p); Chmod (LWs p) false] f) with (apply (Chmod (LWs p) false) (apply (Creat (LWs p)) f)).
  set (f2 := apply (Chmod (LWs p) false) (apply (Creat (LWs p)) f)).
  assert (G2 : fget f2 (LWs p) = Some (NData (Ntake 0 c) false (clock f))).
  { unfold f2. rewrite fget_apply. cbn [written]. rewrite fget_apply. cbn [written is_meta_loc].
    rewrite !loc_eqb_refl, Ntake_0. reflexivity. }
  assert (O2 : fget f2 (LObj c) = Some (NData c wo so)).
  { unfold f2. rewrite !fget_frame by reflexivity. exact Go. }
  destruct (copy_calls_result c p wo so (S (copy_fuel chunk (Nlen c))) (Nlen c) f2 0 false (clock f) O2 G2) as (s' & G3).
  - lia.
  - lia.
  - unfold copy_fuel. destruct (N.eqb_spec chunk 0) as [|_]; [contradiction|].
    rewrite !Nat2N.inj_succ, N2Nat.id.
    pose proof (N.mul_succ_div_gt (Nlen c) chunk chunk_pos). lia.
  - exists s'. change (apply_all [Chmod (LWs p) true] ?g) with (apply (Chmod (LWs p) true) g).
    rewrite fget_apply. cbn [written]. rewrite G3, loc_eqb_refl. reflexivity.
Qed.
End Copy.

(* ---- what recheck does to the workspace ------------------------------------------------------------------- *)
Definition ws_op (o : fsop) : bool :=
  match o with
  | Unlink (LWs _) | Creat (LWs _) | Chmod (LWs _) _ | CopyChunk _ (LWs _) _ | Link _ (LWs _) | Symlink _ (LWs _) => true
  | _ => false
  end.
Definition is_ws (x : loc) : bool := match x with LWs _ => true | _ => false end.

Lemma ws_op_touches o x : ws_op o = true -> is_ws x = false -> touches o x = false.
Proof.
  destruct o; cbn [ws_op touches]; try discriminate;
    try (destruct p; try discriminate); try (destruct q; try discriminate); try (destruct dst; try discriminate);
    intros _ H; destruct x; cbn in *; try reflexivity; discriminate.
Qed.

Lemma ws_op_irr s o : ws_op o = true -> op_irr s o = true.
Proof.
  destruct o; cbn [ws_op op_irr]; try discriminate;
    try (destruct p; try discriminate); try (destruct q; try discriminate); try (destruct dst; try discriminate);
    reflexivity.
Qed.

Lemma ws_ops_avoid x l : forallb ws_op l = true -> is_ws x = false -> avoids x l = true.
Proof.
  intros H X. unfold avoids. eapply forallb_mono; [|exact H].
  intros o Ho. cbn. now rewrite ws_op_touches.
Qed.

Lemma ws_ops_irr s l : forallb ws_op l = true -> forallb (op_irr s) l = true.
Proof. apply forallb_mono. intros o. apply ws_op_irr. Qed.

Lemma forallb_firstn {A} (P : A -> bool) l : forall n, forallb P l = true -> forallb P (firstn n l) = true.
Proof.
  induction l as [|x r IH]; intros n H; destruct n; cbn; auto.
  cbn in H. apply andb_true_iff in H as [H1 H2]. rewrite H1. now apply IH.
Qed.

Definition fresh_node (f : fsys) (c : bytes) (m : method) (n : node) : Prop :=
  match m with
  | MCopy => exists s, n = NData c true s
  | MHardlink => fget f (LObj c) = Some n
  | MSymlink => n = NSym c
  end.

Lemma fresh_node_ext f g c m n : fget f (LObj c) = fget g (LObj c) -> fresh_node f c m n -> fresh_node g c m n.
Proof. destruct m; cbn; auto. intros <-. auto. Qed.

Section RecheckSpec.
Variable chunk : N.
Hypothesis chunk_pos : chunk <> 0%N.

Lemma copy_calls_ws_op c p fuel : forall left, forallb ws_op (copy_calls chunk (LObj c) (LWs p) fuel left) = true.
Proof.
  induction fuel as [|k IH]; intros left; cbn [copy_calls]; [reflexivity|].
  destruct (N.eqb left 0); cbn; auto.
Qed.

Lemma recheck_from_cache_ws_op f p c m : forallb ws_op (recheck_from_cache chunk f p c m) = true.
Proof.
  unfold recheck_from_cache. rewrite forallb_app.
  assert (A1 : forallb ws_op (if ws_exists f p then [Unlink (LWs p)] else []) = true) by (destruct (ws_exists f p); reflexivity).
  rewrite A1. destruct m; cbn [andb]; [|reflexivity|reflexivity].
  unfold fs_copy. rewrite !forallb_app.
  destruct (N.eqb chunk 0); [reflexivity|]. rewrite copy_calls_ws_op. reflexivity.
Qed.

Lemma recheck_block_ws_op f r : forallb ws_op (recheck_block chunk f r) = true.
Proof.
  unfold recheck_block. destruct (obj_exists f (rp_c r)); [|reflexivity].
  unfold then_ops. rewrite forallb_app, recheck_from_cache_ws_op. destruct (ws_exists f (rp_p r)); reflexivity.
Qed.

Lemma recheck_all_ws_op rps : forall f, forallb ws_op (recheck_all chunk f rps) = true.
Proof.
  induction rps as [|r t IH]; intros f; [reflexivity|].
  rewrite recheck_all_unfold. unfold then_ops. now rewrite forallb_app, recheck_block_ws_op, IH.
Qed.

Lemma recheck_block_result f r : objects_intact f = true -> ws_wf f -> obj_exists f (rp_c r) = true ->
  exists n, fget (apply_all (recheck_block chunk f r) f) (LWs (rp_p r)) = Some n /\ fresh_node f (rp_c r) (rp_m r) n.
Proof.
  intros I W E. unfold recheck_block. rewrite E. unfold then_ops.
  destruct r as [p c m mc]. cbn [rp_p rp_c rp_m] in *.
  set (U := if ws_exists f p then [Unlink (LWs p)] else []).
  set (fU := apply_all U f).
  assert (GU : fget fU (LWs p) = None).
  { unfold fU, U. destruct (ws_exists f p) eqn:WE.
    - change (apply_all [Unlink (LWs p)] f) with (apply (Unlink (LWs p)) f).
      rewrite fget_apply. cbn [written removed]. now rewrite loc_eqb_refl.
    - now apply ws_wf_free. }
  assert (OU : fget fU (LObj c) = fget f (LObj c)).
  { unfold fU. apply fget_frame_all. unfold U. destruct (ws_exists f p); reflexivity. }
  unfold obj_exists, exists_at in E. destruct (fget f (LObj c)) as [no|] eqn:Go; [|discriminate].
  destruct (intact_get _ _ _ I Go) as (wo & so & ->).
  rewrite apply_all_app. fold fU.
  unfold recheck_from_cache.
  assert (WE : ws_exists fU p = false) by (unfold ws_exists, ws_stamp; now rewrite GU).
  rewrite WE. cbn [app].
  destruct m; cbn [fresh_node].
  - destruct (fs_copy_result chunk chunk_pos c p wo so fU) as (s' & G); [congruence|exact GU|].
    exists (NData c true s'). split; [exact G|]. eauto.
  - exists (NData c wo so). split; [|exact Go].
    change (apply_all [Link (LObj c) (LWs p)] fU) with (apply (Link (LObj c) (LWs p)) fU).
    rewrite fget_apply. cbn [written]. rewrite OU, GU, loc_eqb_refl. reflexivity.
  - exists (NSym c). split; [|reflexivity].
    change (apply_all [Symlink c (LWs p)] fU) with (apply (Symlink c (LWs p)) fU).
    rewrite fget_apply. cbn [written]. rewrite GU, loc_eqb_refl. reflexivity.
Qed.

Lemma recheck_block_wf f r : wf f -> wf (apply_all (recheck_block chunk f r) f).
Proof.
  intros Wf. apply wf_apply_all; [|exact Wf].
  apply recheck_block_ok; [apply Wf|apply Wf|discriminate].
Qed.

Lemma recheck_all_spec rps : forall f, wf f -> NoDup (map rp_p rps) ->
  let f' := apply_all (recheck_all chunk f rps) f in
  (forall p, ~ In p (map rp_p rps) -> fget f' (LWs p) = fget f (LWs p)) /\
  (forall r, In r rps ->
     if obj_exists f (rp_c r)
     then exists n, fget f' (LWs (rp_p r)) = Some n /\ fresh_node f (rp_c r) (rp_m r) n
     else fget f' (LWs (rp_p r)) = fget f (LWs (rp_p r))).
Proof.
  induction rps as [|r t IH]; intros f Wf ND f'; [split; [reflexivity|intros r []]|].
  unfold f'. rewrite recheck_all_unfold. unfold then_ops. rewrite apply_all_app.
  set (f1 := apply_all (recheck_block chunk f r) f).
  cbn [map] in ND. inversion ND as [|? ? Hn ND']; subst.
  destruct (IH f1 (recheck_block_wf f r Wf) ND') as [IH1 IH2].
  assert (FR : forall x, is_ws x = false -> fget f1 x = fget f x).
  { intros x X. unfold f1. apply fget_frame_all. apply ws_ops_avoid; [apply recheck_block_ws_op|exact X]. }
  assert (FO : forall q, q <> rp_p r -> fget f1 (LWs q) = fget f (LWs q)).
  { intros q Hq. unfold f1. apply fget_frame_all. apply recheck_block_avoids. cbn. apply N.eqb_neq. congruence. }
  split.
  - intros p Hp. cbn [map In] in Hp. rewrite IH1 by tauto. apply FO. intros ->. tauto.
  - intros r' [<-|Hin].
    + rewrite IH1 by exact Hn.
      destruct (obj_exists f (rp_c r)) eqn:E.
      * apply recheck_block_result; [apply Wf|apply Wf|exact E].
      * unfold f1, recheck_block. rewrite E. reflexivity.
    + specialize (IH2 r' Hin).
      assert (Hne : rp_p r' <> rp_p r) by (intros Heq; apply Hn; rewrite <- Heq; now apply in_map).
      unfold obj_exists, exists_at in *. rewrite (FR (LObj (rp_c r'))) in IH2 by reflexivity.
      destruct (fget f (LObj (rp_c r'))) eqn:Go.
      * destruct IH2 as (nn & G & Fn). exists nn. split; [exact G|].
        eapply fresh_node_ext; [|exact Fn]. now apply FR.
      * rewrite IH2. now apply FO.
Qed.

End RecheckSpec.

(* ---- the plan of recheck, path by path ------------------------------------------------------------------------ *)
Definition differs (f : fsys) (p : path) (c : bytes) : bool :=
  match ws_stamp f p, ws_read f p with
  | Some s, Some b => negb (opt_N_eqb (rec_stamp f p) (Some s)) && negb (beqb c b)
  | _, _ => false
  end.
Definition stored_method (f : fsys) (p : path) : method := or_default (rec_method f p) MCopy.
Definition plan_rec (f : fsys) (mreq : option method) (p : path) (c : bytes) : rplan :=
  {| rp_p := p; rp_c := c; rp_m := or_default mreq (stored_method f p);
     rp_mchanged := negb (method_eqb (or_default mreq (stored_method f p)) (stored_method f p)) |}.
Definition plan_due (f : fsys) (mreq : option method) (force : bool) (p : path) (c : bytes) : bool :=
  force || (rp_mchanged (plan_rec f mreq p c) && negb (differs f p c)) || negb (ws_exists f p).

Lemma recheck_plan_eq f mreq force p :
  recheck_plan f mreq force p =
  match rec_digest f p with
  | None => None
  | Some c => if plan_due f mreq force p c then Some (plan_rec f mreq p c) else None
  end.
Proof. reflexivity. Qed.

Definition the_plan (f : fsys) mreq force ps (p : path) : option rplan :=
  if partial_records f (dedup ps) then None
  else if mem p (carry_targets f ps) then recheck_plan f mreq force p else None.

Definition ev_of (f : fsys) mreq force (p : path) : list ev :=
  match recheck_plan f mreq force p with
  | Some r => sel (rp_mchanged r) {| ev_p := rp_p r; ev_v := VMethod (rp_m r) |}
  | None => []
  end.
Definition method_evs (f : fsys) mreq force ps : list ev :=
  if partial_records f (dedup ps) then [] else flat_map (ev_of f mreq force) (carry_targets f ps).

Lemma method_evs_eq f mreq force l :
  flat_map (fun r => sel (rp_mchanged r) {| ev_p := rp_p r; ev_v := VMethod (rp_m r) |})
           (flat_map (fun p => match recheck_plan f mreq force p with Some r => [r] | None => [] end) l)
  = flat_map (ev_of f mreq force) l.
Proof.
  induction l as [|p r IH]; cbn; [reflexivity|].
  rewrite flat_map_app, IH. unfold ev_of. destruct (recheck_plan f mreq force p); cbn; now rewrite ?app_nil_r.
Qed.

Lemma mem_In p l : mem p l = true <-> In p l.
Proof.
  unfold mem. rewrite existsb_exists. split.
  - intros (x & Hx & E). apply N.eqb_eq in E. now subst.
  - intros H. exists p. split; [exact H|apply N.eqb_refl].
Qed.

Lemma the_plan_in f mreq force ps p r : the_plan f mreq force ps p = Some r ->
  partial_records f (dedup ps) = false /\ rp_p r = p /\
  In r (flat_map (recheck_plans_of f mreq force) (carry_targets f ps)).
Proof.
  unfold the_plan. destruct (partial_records f (dedup ps)); [discriminate|].
  destruct (mem p (carry_targets f ps)) eqn:M; [|discriminate]. intros H.
  assert (Hin : In r (recheck_plans_of f mreq force p)) by (unfold recheck_plans_of; rewrite H; now left).
  split; [reflexivity|split; [now apply recheck_plan_path in Hin|]].
  apply in_flat_map. exists p. split; [now apply mem_In|exact Hin].
Qed.

Lemma in_the_plan f mreq force ps r : partial_records f (dedup ps) = false ->
  In r (flat_map (recheck_plans_of f mreq force) (carry_targets f ps)) ->
  the_plan f mreq force ps (rp_p r) = Some r.
Proof.
  intros P Hin. apply in_flat_map in Hin as (q & Hq & Hin).
  pose proof (recheck_plan_path _ _ _ _ _ Hin) as E. subst q.
  unfold the_plan. rewrite P. apply mem_In in Hq. rewrite Hq.
  unfold recheck_plans_of in Hin. destruct (recheck_plan f mreq force (rp_p r)); [|destruct Hin].
  destruct Hin as [->|[]]. reflexivity.
Qed.

Lemma the_plan_none f mreq force ps p : partial_records f (dedup ps) = false ->
  the_plan f mreq force ps p = None ->
  ~ In p (map rp_p (flat_map (recheck_plans_of f mreq force) (carry_targets f ps))).
Proof.
  intros P H Hin. apply in_map_iff in Hin as (r & <- & Hin).
  rewrite (in_the_plan f mreq force ps r P Hin) in H. discriminate.
Qed.

(* ---- last values ---------------------------------------------------------------------------------------------- *)
Lemma evs_of_app l1 l2 p : evs_of (l1 ++ l2) p = evs_of l1 p ++ evs_of l2 p.
Proof. unfold evs_of. apply flat_map_app. Qed.

Lemma last_value_app l1 l2 p :
  last_value (l1 ++ l2) p = match last_value l2 p with Some v => Some v | None => last_value l1 p end.
Proof.
  unfold last_value. rewrite evs_of_app, rev_app_distr.
  destruct (rev (evs_of l2 p)); reflexivity.
Qed.

Lemma evs_of_none t p : (forall e, In e t -> ev_p e <> p) -> evs_of t p = [].
Proof.
  unfold evs_of. induction t as [|e t IH]; intros H; [reflexivity|]. cbn [flat_map].
  rewrite IH by (intros e' H'; apply H; now right).
  destruct (N.eqb_spec (ev_p e) p) as [E|]; [|reflexivity]. exfalso. apply (H e); [now left|exact E].
Qed.

Lemma last_value_flat (E : path -> list ev) p :
  (forall q e, In e (E q) -> ev_p e = q) ->
  forall l, last_value (flat_map E l) p = if mem p l then last_value (E p) p else None.
Proof.
  intros HE. induction l as [|q r IH]; [reflexivity|].
  cbn [flat_map]. rewrite last_value_app, IH. unfold mem. cbn [existsb]. fold (mem p r).
  destruct (N.eqb_spec p q) as [->|Hne]; cbn [orb].
  - destruct (mem q r); [|reflexivity]. destruct (last_value (E q) q); reflexivity.
  - assert (N0 : last_value (E q) p = None).
    { unfold last_value. rewrite evs_of_none; [reflexivity|].
      intros e He Hp. apply HE in He. congruence. }
    rewrite N0. destruct (mem p r); [|reflexivity]. destruct (last_value (E p) p); reflexivity.
Qed.

(* ---- what a completed recheck leaves ----------------------------------------------------------------------------- *)
Definition objs_eq (f g : fsys) : Prop :=
  forall c, fget f (LObj c) = fget g (LObj c) /\ fget f (LObjDir c) = fget g (LObjDir c).
Definition ws_result (X Y : fsys) (ro : option rplan) (p : path) : Prop :=
  match ro with
  | Some r => if obj_exists X (rp_c r)
              then exists n, fget Y (LWs p) = Some n /\ fresh_node X (rp_c r) (rp_m r) n
              else fget Y (LWs p) = fget X (LWs p)
  | None => fget Y (LWs p) = fget X (LWs p)
  end.
Definition evs_for (s : sid) (evs : list ev) : list ev := match s with SMethod => evs | _ => [] end.

Lemma NoDup_plans f mreq force ps :
  NoDup (map rp_p (flat_map (recheck_plans_of f mreq force) (carry_targets f ps))).
Proof.
  apply (NoDup_keyed rp_p (recheck_plans_of f mreq force)); [| |apply NoDup_carry_targets].
  - intros p x Hx. now apply recheck_plan_path in Hx.
  - apply recheck_plans_len.
Qed.

Section RunSpec.
Variable chunk : N.
Hypothesis chunk_pos : chunk <> 0%N.

Lemma run_recheck_spec X mreq force ps : wf X -> names_fresh X = true ->
  let Y := run_cmd true chunk X (Recheck mreq force ps) in
  objs_eq X Y /\
  (forall s, store_events Y s = store_events X s ++ evs_for s (method_evs X mreq force ps)) /\
  (forall p, ws_result X Y (the_plan X mreq force ps p) p).
Proof.
  intros Wf Fr Y. unfold Y, run_cmd. cbn [effects]. unfold recheck_effects.
  destruct (partial_records X (dedup ps)) eqn:P.
  - cbn [apply_all fold_left]. split; [intros c; split; reflexivity|split].
    + intros s. unfold method_evs. rewrite P. destruct s; cbn; now rewrite app_nil_r.
    + intros p. unfold the_plan. rewrite P. reflexivity.
  - cbv zeta. rewrite method_evs_eq. fold (recheck_plans_of X mreq force).
    set (rps := flat_map (recheck_plans_of X mreq force) (carry_targets X ps)).
    set (evs := flat_map (ev_of X mreq force) (carry_targets X ps)).
    unfold then_ops. rewrite apply_all_app.
    set (A := recheck_all chunk X rps). set (f1 := apply_all A X).
    assert (WA : forallb ws_op A = true) by apply recheck_all_ws_op.
    assert (FR : forall x, is_ws x = false -> fget f1 x = fget X x).
    { intros x Hx. unfold f1. apply fget_frame_all. now apply ws_ops_avoid. }
    assert (F1 : names_fresh f1 = true).
    { unfold f1. apply names_fresh_all; [|exact Fr]. apply benign_all_name_ok. apply recheck_all_benign. }
    assert (FS : forall x, is_meta_loc x = false ->
              fget (apply_all (save_store true f1 SMethod evs) f1) x = fget f1 x).
    { intros x Hx. apply fget_frame_all. now apply save_store_avoids. }
    split; [|split].
    + intros c. split; rewrite FS, FR by reflexivity; reflexivity.
    + intros s. assert (D1 : store_events f1 s = store_events X s).
      { unfold store_events, f1. rewrite store_dir_frame_all; [reflexivity|]. now apply ws_ops_irr. }
      unfold method_evs. rewrite P. fold evs.
      destruct (sid_eqb_spec s SMethod) as [->|Hs].
      * cbn [evs_for]. rewrite save_store_events by exact F1. now rewrite D1.
      * replace (evs_for s evs) with (@nil ev) by (destruct s; try reflexivity; contradiction).
        rewrite app_nil_r, <- D1. unfold store_events.
        rewrite store_dir_frame_all; [reflexivity|]. now apply save_store_irr.
    + intros p. destruct (recheck_all_spec chunk chunk_pos rps X Wf (NoDup_plans X mreq force ps)) as [S1 S2].
      fold A in S1, S2. fold f1 in S1, S2.
      unfold ws_result. rewrite FS by reflexivity.
      destruct (the_plan X mreq force ps p) as [r|] eqn:TP.
      * apply the_plan_in in TP as (_ & <- & Hin). apply (S2 r Hin).
      * apply S1. now apply the_plan_none.
Qed.

End RunSpec.

(* ---- similar file systems: same records, same cache, same workspace up to the times of fresh copies ----------------- *)
Definition recs_eq (f g : fsys) : Prop := forall s, store_events f s = store_events g s.
Definition wsim (f g : fsys) (p : path) : Prop :=
  fget f (LWs p) = fget g (LWs p) \/
  exists b w s s', fget f (LWs p) = Some (NData b w s) /\ fget g (LWs p) = Some (NData b w s') /\ rec_digest f p = Some b.
Definition sim (f g : fsys) : Prop := recs_eq f g /\ objs_eq f g /\ forall p, wsim f g p.

Lemma objs_eq_refl f : objs_eq f f.
Proof. intros c; split; reflexivity. Qed.
Lemma objs_eq_sym f g : objs_eq f g -> objs_eq g f.
Proof. intros H c. destruct (H c). split; congruence. Qed.
Lemma objs_eq_trans f g h : objs_eq f g -> objs_eq g h -> objs_eq f h.
Proof. intros H1 H2 c. destruct (H1 c), (H2 c). split; congruence. Qed.

Lemma recs_digest f g p : recs_eq f g -> rec_digest f p = rec_digest g p.
Proof. intros H. unfold rec_digest. now rewrite H. Qed.
Lemma recs_method f g p : recs_eq f g -> rec_method f p = rec_method g p.
Proof. intros H. unfold rec_method. now rewrite H. Qed.
Lemma recs_stamp f g p : recs_eq f g -> rec_stamp f p = rec_stamp g p.
Proof. intros H. unfold rec_stamp. now rewrite H. Qed.
Lemma recs_tracked f g p : recs_eq f g -> tracked f p = tracked g p.
Proof. intros H. unfold tracked. now rewrite H. Qed.

Lemma existsb_ext_all {A} (P Q : A -> bool) l : (forall x, P x = Q x) -> existsb P l = existsb Q l.
Proof. intros H. induction l as [|x r IH]; cbn; [reflexivity|]. now rewrite H, IH. Qed.
Lemma filter_ext_all {A} (P Q : A -> bool) l : (forall x, P x = Q x) -> filter P l = filter Q l.
Proof. intros H. induction l as [|x r IH]; cbn; [reflexivity|]. now rewrite H, IH. Qed.
Lemma flat_map_ext_in {A B} (F G : A -> list B) l : (forall x, In x l -> F x = G x) -> flat_map F l = flat_map G l.
Proof.
  induction l as [|x r IH]; intros H; cbn; [reflexivity|].
  rewrite H by (now left). rewrite IH; [reflexivity|]. intros y Hy. apply H. now right.
Qed.

(* the three record stores that select the targets *)
Definition sel_recs_eq (f g : fsys) : Prop :=
  store_events f SPath = store_events g SPath /\ store_events f SMeta = store_events g SMeta.

Lemma sel_partial f g l : sel_recs_eq f g -> partial_records f l = partial_records g l.
Proof.
  intros [H1 H2]. unfold partial_records. apply existsb_ext_all. intros p.
  unfold tracked, rec_stamp. now rewrite H1, H2.
Qed.
Lemma sel_targets f g ps : sel_recs_eq f g -> carry_targets f ps = carry_targets g ps.
Proof.
  intros [H1 H2]. unfold carry_targets. apply filter_ext_all. intros p.
  unfold tracked, rec_stamp. now rewrite H1, H2.
Qed.
Lemma recs_sel f g : recs_eq f g -> sel_recs_eq f g.
Proof. intros H. split; apply H. Qed.

Lemma ws_view_eq f g p : objs_eq f g -> fget f (LWs p) = fget g (LWs p) ->
  ws_stamp f p = ws_stamp g p /\ ws_read f p = ws_read g p.
Proof.
  intros O E. unfold ws_stamp, ws_read. rewrite <- E.
  destruct (fget f (LWs p)) as [[| |c|]|]; try (split; reflexivity).
  destruct (O c) as [-> _]. split; reflexivity.
Qed.

Lemma plan_same f g mreq force p :
  rec_digest f p = rec_digest g p -> rec_method f p = rec_method g p -> rec_stamp f p = rec_stamp g p ->
  objs_eq f g -> wsim f g p -> recheck_plan f mreq force p = recheck_plan g mreq force p.
Proof.
  intros Hd Hm Hs O W. rewrite !recheck_plan_eq, <- Hd.
  destruct (rec_digest f p) as [c|] eqn:D; [|reflexivity].
  assert (PR : plan_rec f mreq p c = plan_rec g mreq p c) by (unfold plan_rec, stored_method; now rewrite Hm).
  assert (PD : plan_due f mreq force p c = plan_due g mreq force p c).
  { unfold plan_due. rewrite PR. f_equal; [f_equal; f_equal; f_equal|f_equal].
    - unfold differs. rewrite <- Hs. destruct W as [E|(b & w & s & s' & E1 & E2 & E3)].
      + destruct (ws_view_eq f g p O E) as [-> ->]. reflexivity.
      + unfold ws_stamp, ws_read. rewrite E1, E2. assert (c = b) by congruence. subst b.
        now rewrite beqb_refl, !andb_false_r.
    - unfold ws_exists. destruct W as [E|(b & w & s & s' & E1 & E2 & E3)].
      + destruct (ws_view_eq f g p O E) as [-> _]. reflexivity.
      + unfold ws_stamp. now rewrite E1, E2. }
  now rewrite PR, PD.
Qed.

Lemma plan_digest f mreq force p r : recheck_plan f mreq force p = Some r ->
  rec_digest f p = Some (rp_c r) /\ r = plan_rec f mreq p (rp_c r).
Proof.
  rewrite recheck_plan_eq. destruct (rec_digest f p) as [c|]; [|discriminate].
  destruct (plan_due f mreq force p c); [|discriminate]. intros H. injection H as <-. split; reflexivity.
Qed.

(* a path that recheck has just written: nothing differs, it exists *)
Lemma fresh_view g p c m n wo so :
  fget g (LObj c) = Some (NData c wo so) -> fget g (LWs p) = Some n -> fresh_node g c m n ->
  differs g p c = false /\ ws_exists g p = true.
Proof.
  intros Go Gp Fn. unfold differs, ws_exists, ws_stamp, ws_read. rewrite Gp.
  destruct m; cbn [fresh_node] in Fn.
  - destruct Fn as (s & ->). now rewrite beqb_refl, andb_false_r.
  - rewrite Go in Fn. injection Fn as <-. now rewrite beqb_refl, andb_false_r.
  - subst n. rewrite Go. now rewrite beqb_refl, andb_false_r.
Qed.

Lemma fresh_wsim f Y1 Y2 p c m n1 n2 :
  fresh_node f c m n1 -> fresh_node f c m n2 -> fget Y1 (LWs p) = Some n1 -> fget Y2 (LWs p) = Some n2 ->
  rec_digest Y1 p = Some c -> wsim Y1 Y2 p.
Proof.
  intros F1 F2 G1 G2 D. destruct m; cbn [fresh_node] in F1, F2.
  - destruct F1 as (s1 & ->), F2 as (s2 & ->). right. exists c, true, s1, s2. auto.
  - left. congruence.
  - left. congruence.
Qed.

Lemma wsim_transport f g Y1 Y2 p :
  wsim f g p -> fget Y1 (LWs p) = fget f (LWs p) -> fget Y2 (LWs p) = fget g (LWs p) ->
  rec_digest Y1 p = rec_digest f p -> wsim Y1 Y2 p.
Proof.
  intros [E|(b & w & s & s' & E1 & E2 & E3)] G1 G2 D; [left; congruence|].
  right. exists b, w, s, s'. rewrite G1, G2, D. auto.
Qed.

(* g is f with part of the workspace work of `recheck mreq force ps` already done *)
Definition adv (f g : fsys) mreq force ps (p : path) : Prop :=
  wsim f g p \/
  exists r, the_plan f mreq force ps p = Some r /\ obj_exists f (rp_c r) = true /\
    (fget g (LWs p) = None \/ exists n, fget g (LWs p) = Some n /\ fresh_node f (rp_c r) (rp_m r) n).

Lemma rec_digest_after X Y evs p :
  store_events Y SDigest = store_events X SDigest ++ evs_for SDigest evs -> rec_digest Y p = rec_digest X p.
Proof. intros H. unfold rec_digest. rewrite H. cbn [evs_for]. now rewrite app_nil_r. Qed.

Lemma the_plan_recheck f mreq force ps p r : the_plan f mreq force ps p = Some r ->
  recheck_plan f mreq force p = Some r /\ rec_digest f p = Some (rp_c r).
Proof.
  unfold the_plan. destruct (partial_records f (dedup ps)); [discriminate|].
  destruct (mem p (carry_targets f ps)); [|discriminate]. intros H. split; [exact H|].
  now apply plan_digest in H as [H _].
Qed.

Section Rerun.
Variable chunk : N.
Hypothesis chunk_pos : chunk <> 0%N.

Lemma rerun_sim f g mreq force ps :
  wf f -> wf g -> names_fresh f = true -> names_fresh g = true ->
  recs_eq f g -> objs_eq f g -> (forall p, adv f g mreq force ps p) ->
  sim (run_cmd true chunk f (Recheck mreq force ps)) (run_cmd true chunk g (Recheck mreq force ps)).
Proof.
  intros Wf Wg Ff Fg R O A.
  destruct (run_recheck_spec chunk chunk_pos f mreq force ps Wf Ff) as (Of & Sf & Pf).
  destruct (run_recheck_spec chunk chunk_pos g mreq force ps Wg Fg) as (Og & Sg & Pg).
  set (Yf := run_cmd true chunk f (Recheck mreq force ps)) in *.
  set (Yg := run_cmd true chunk g (Recheck mreq force ps)) in *.
  pose proof (sel_partial f g (dedup ps) (recs_sel f g R)) as EP.
  pose proof (sel_targets f g ps (recs_sel f g R)) as ET.
  (* path by path: same method event, similar result *)
  assert (PATH : forall p, (In p (carry_targets f ps) -> ev_of f mreq force p = ev_of g mreq force p) /\ wsim Yf Yg p).
  { intros p. specialize (Pf p). specialize (Pg p).
    assert (Df : rec_digest Yf p = rec_digest f p) by (eapply rec_digest_after; apply Sf).
    assert (OE : forall c, obj_exists g c = obj_exists f c).
    { intros c. unfold obj_exists, exists_at. destruct (O c) as [-> _]. reflexivity. }
    destruct (A p) as [W|(r & TP & E & G)].
    - (* nothing done for p yet *)
      assert (PS : recheck_plan f mreq force p = recheck_plan g mreq force p).
      { apply plan_same; auto using recs_digest, recs_method, recs_stamp. }
      split; [intros _; unfold ev_of; now rewrite PS|].
      assert (TE : the_plan g mreq force ps p = the_plan f mreq force ps p).
      { unfold the_plan. now rewrite <- EP, <- ET, PS. }
      rewrite TE in Pg. unfold ws_result in Pf, Pg.
      destruct (the_plan f mreq force ps p) as [r|] eqn:TP.
      + rewrite OE in Pg. destruct (obj_exists f (rp_c r)) eqn:E.
        * destruct Pf as (n1 & G1 & F1), Pg as (n2 & G2 & F2).
          apply (fresh_wsim f Yf Yg p (rp_c r) (rp_m r) n1 n2 F1); auto.
          -- eapply fresh_node_ext; [|exact F2]. symmetry. apply O.
          -- rewrite Df. now apply the_plan_recheck in TP as [_ TP].
        * eapply wsim_transport; eauto.
      + eapply wsim_transport; eauto.
    - (* p is a target of f's plan, and g has it removed or already restored *)
      pose proof TP as TP0.
      apply the_plan_in in TP as (Pn & Ep & Hin). subst p.
      assert (RPf : recheck_plan f mreq force (rp_p r) = Some r).
      { unfold the_plan in TP0. rewrite Pn in TP0. destruct (mem (rp_p r) (carry_targets f ps)); [exact TP0|discriminate]. }
      destruct (plan_digest _ _ _ _ _ RPf) as [Dg Er].
      assert (Mem : mem (rp_p r) (carry_targets g ps) = true).
      { rewrite <- ET. unfold the_plan in TP0. rewrite Pn in TP0. destruct (mem (rp_p r) (carry_targets f ps)); [reflexivity|discriminate]. }
      assert (PRg : plan_rec g mreq (rp_p r) (rp_c r) = r).
      { rewrite Er at 3. unfold plan_rec, stored_method. now rewrite (recs_method f g _ R). }
      assert (RPg : recheck_plan g mreq force (rp_p r) =
                    if plan_due g mreq force (rp_p r) (rp_c r) then Some r else None).
      { rewrite recheck_plan_eq, <- (recs_digest f g _ R), Dg, PRg. reflexivity. }
      rewrite TP0 in Pf. unfold ws_result in Pf. rewrite E in Pf. destruct Pf as (n1 & G1 & F1).
      assert (DONE : forall n2, fget Yg (LWs (rp_p r)) = Some n2 -> fresh_node f (rp_c r) (rp_m r) n2 -> wsim Yf Yg (rp_p r)).
      { intros n2 G2 F2. apply (fresh_wsim f Yf Yg _ (rp_c r) (rp_m r) n1 n2 F1 F2 G1 G2). now rewrite Df. }
      assert (REDO : recheck_plan g mreq force (rp_p r) = Some r -> wsim Yf Yg (rp_p r)).
      { intros RP. unfold the_plan in Pg. rewrite <- EP, Pn, Mem, RP in Pg. unfold ws_result in Pg.
        rewrite OE, E in Pg. destruct Pg as (n2 & G2 & F2). apply (DONE n2 G2).
        eapply fresh_node_ext; [|exact F2]. symmetry. apply O. }
      destruct G as [G0|(n0 & G0 & F0)].
      + assert (RP : recheck_plan g mreq force (rp_p r) = Some r).
        { rewrite RPg. unfold plan_due, ws_exists, ws_stamp. rewrite G0. now rewrite orb_true_r. }
        split; [intros _; unfold ev_of; now rewrite RPf, RP|now apply REDO].
      + destruct (plan_due g mreq force (rp_p r) (rp_c r)) eqn:PD.
        * split; [intros _; unfold ev_of; now rewrite RPf, RPg|now apply REDO].
        * (* not due again: the method did not change *)
          unfold obj_exists, exists_at in E. destruct (fget f (LObj (rp_c r))) as [no|] eqn:Go; [|discriminate].
          destruct (intact_get _ _ _ (wf_intact f Wf) Go) as (wo & so & ->).
          assert (Gog : fget g (LObj (rp_c r)) = Some (NData (rp_c r) wo so)) by (destruct (O (rp_c r)) as [<- _]; exact Go).
          destruct (fresh_view g (rp_p r) (rp_c r) (rp_m r) n0 wo so Gog G0) as [Dz Ex].
          { eapply fresh_node_ext; [|exact F0]. apply O. }
          unfold plan_due in PD. rewrite PRg, Dz, Ex in PD. cbn [negb] in PD. rewrite andb_true_r, orb_false_r in PD.
          apply orb_false_iff in PD as [_ Mc].
          split.
          -- intros _. unfold ev_of. rewrite RPf, RPg, Mc. reflexivity.
          -- unfold the_plan in Pg. rewrite <- EP, Pn, Mem, RPg in Pg. cbn [ws_result] in Pg.
             apply (DONE n0); [congruence|exact F0]. }
  split; [|split].
  - intros s. rewrite Sf, Sg, R. f_equal. f_equal. unfold method_evs. rewrite <- EP, <- ET.
    destruct (partial_records f (dedup ps)); [reflexivity|].
    apply flat_map_ext_in. intros p Hp. now apply PATH.
  - eapply objs_eq_trans; [apply objs_eq_sym; exact Of|]. eapply objs_eq_trans; [exact O|exact Og].
  - intros p. apply PATH.
Qed.

End Rerun.

(* ---- a completed recheck, run again, changes nothing a user can see ------------------------------------------------- *)
Lemma method_eqb_true a b : method_eqb a b = true -> a = b.
Proof. destruct a, b; cbn; congruence. Qed.
Lemma method_eqb_refl a : method_eqb a a = true.
Proof. destruct a; reflexivity. Qed.

Lemma flat_map_nil {A B} (F : A -> list B) l : (forall x, In x l -> F x = []) -> flat_map F l = [].
Proof.
  induction l as [|x r IH]; intros H; cbn; [reflexivity|].
  rewrite H by (now left). apply IH. intros y Hy. apply H. now right.
Qed.

Lemma ev_of_path f mreq force q e : In e (ev_of f mreq force q) -> ev_p e = q.
Proof.
  unfold ev_of. destruct (recheck_plan f mreq force q) as [r|] eqn:RP; [|intros []].
  destruct (rp_mchanged r); [|intros []]. intros [<-|[]]. cbn.
  assert (Hin : In r (recheck_plans_of f mreq force q)) by (unfold recheck_plans_of; rewrite RP; now left).
  now apply recheck_plan_path in Hin.
Qed.

Section Idem.
Variable chunk : N.
Hypothesis chunk_pos : chunk <> 0%N.

Lemma rerun_done f mreq force ps : wf f -> names_fresh f = true ->
  let F := run_cmd true chunk f (Recheck mreq force ps) in
  sim (run_cmd true chunk F (Recheck mreq force ps)) F.
Proof.
  intros Wf Ff F.
  destruct (run_recheck_spec chunk chunk_pos f mreq force ps Wf Ff) as (Of & Sf & Pf). fold F in Of, Sf, Pf.
  assert (WF : wf F) by apply (do_item_wf true chunk f (Xvc (Recheck mreq force ps)) Wf).
  assert (FF : names_fresh F = true) by apply (do_item_fresh true chunk f (Xvc (Recheck mreq force ps)) Ff).
  destruct (run_recheck_spec chunk chunk_pos F mreq force ps WF FF) as (OF & SF & PF).
  set (Y := run_cmd true chunk F (Recheck mreq force ps)) in *.
  assert (SEL : sel_recs_eq f F).
  { split; rewrite Sf; cbn [evs_for]; now rewrite app_nil_r. }
  pose proof (sel_partial f F (dedup ps) SEL) as EP.
  pose proof (sel_targets f F ps SEL) as ET.
  assert (Dg : forall p, rec_digest F p = rec_digest f p) by (intros p; eapply rec_digest_after; apply Sf).
  assert (St : forall p, rec_stamp F p = rec_stamp f p).
  { intros p. unfold rec_stamp. rewrite Sf. cbn [evs_for]. now rewrite app_nil_r. }
  assert (OE : forall c, obj_exists F c = obj_exists f c).
  { intros c. unfold obj_exists, exists_at. destruct (Of c) as [<- _]. reflexivity. }
  (* the method record of p after the first run *)
  assert (LV : forall p, last_value (store_events F SMethod) p =
            match (if partial_records f (dedup ps) then None
                   else if mem p (carry_targets f ps) then last_value (ev_of f mreq force p) p else None) with
            | Some v => Some v | None => last_value (store_events f SMethod) p end).
  { intros p. rewrite Sf. cbn [evs_for]. rewrite last_value_app. unfold method_evs.
    destruct (partial_records f (dedup ps)); [reflexivity|].
    rewrite (last_value_flat (ev_of f mreq force) p (ev_of_path f mreq force)). reflexivity. }
  assert (PATH : forall p, (partial_records f (dedup ps) = false -> In p (carry_targets f ps) -> ev_of F mreq force p = []) /\ wsim Y F p).
  { intros p. specialize (Pf p). specialize (PF p). specialize (LV p).
    assert (DY : rec_digest Y p = rec_digest f p) by (rewrite <- Dg; eapply rec_digest_after; apply SF).
    unfold the_plan in Pf, PF. rewrite <- EP, <- ET in PF.
    destruct (partial_records f (dedup ps)) eqn:Pn.
    { split; [discriminate|]. left. exact PF. }
    destruct (mem p (carry_targets f ps)) eqn:Mem.
    2:{ split; [|left; exact PF]. intros _ Hin. apply mem_In in Hin. congruence. }
    destruct (recheck_plan f mreq force p) as [r|] eqn:RPf.
    - (* p had a plan *)
      destruct (plan_digest _ _ _ _ _ RPf) as [Dp Er].
      assert (Ep : rp_p r = p) by (rewrite Er; reflexivity).
      assert (Em : rp_m r = or_default mreq (stored_method f p)) by (rewrite Er; reflexivity).
      assert (Ec : rp_mchanged r = negb (method_eqb (rp_m r) (stored_method f p))) by (rewrite Er; reflexivity).
      assert (SM : stored_method F p = rp_m r).
      { unfold stored_method at 1, rec_method. rewrite LV. unfold ev_of. rewrite RPf.
        destruct (rp_mchanged r) eqn:Mc; cbn [sel].
        - unfold last_value, evs_of. cbn [flat_map ev_p ev_v]. rewrite Ep, N.eqb_refl. reflexivity.
        - cbn. symmetry in Ec. apply negb_false_iff, method_eqb_true in Ec. rewrite Ec. reflexivity. }
      assert (OM : or_default mreq (rp_m r) = rp_m r).
      { rewrite Em. destruct mreq; reflexivity. }
      assert (PRF : plan_rec F mreq p (rp_c r) = {| rp_p := p; rp_c := rp_c r; rp_m := rp_m r; rp_mchanged := false |}).
      { unfold plan_rec. rewrite SM, OM, method_eqb_refl. reflexivity. }
      assert (RPF : recheck_plan F mreq force p =
                    if plan_due F mreq force p (rp_c r) then Some (plan_rec F mreq p (rp_c r)) else None).
      { rewrite recheck_plan_eq, Dg, Dp. reflexivity. }
      split.
      + intros _ _. unfold ev_of. rewrite RPF. destruct (plan_due F mreq force p (rp_c r)); [|reflexivity].
        rewrite PRF. reflexivity.
      + rewrite RPF in PF. destruct (plan_due F mreq force p (rp_c r)); [|left; exact PF].
        rewrite PRF in PF. cbn [ws_result rp_c rp_m] in PF, Pf. rewrite OE in PF.
        destruct (obj_exists f (rp_c r)); [|left; exact PF].
        destruct PF as (n2 & G2 & F2), Pf as (n1 & G1 & F1).
        apply (fresh_wsim f Y F p (rp_c r) (rp_m r) n2 n1); auto.
        * eapply fresh_node_ext; [|exact F2]. symmetry. apply Of.
        * now rewrite DY.
    - (* p had none, and has none now *)
      cbn [ws_result] in Pf.
      assert (PS : recheck_plan F mreq force p = recheck_plan f mreq force p).
      { apply plan_same; auto.
        - unfold rec_method. rewrite LV. unfold ev_of. rewrite RPf. reflexivity.
        - apply objs_eq_sym. exact Of.
        - left. exact Pf. }
      rewrite PS, RPf in PF. split; [|left; exact PF].
      intros _ _. unfold ev_of. now rewrite PS, RPf. }
  assert (ME : method_evs F mreq force ps = []).
  { unfold method_evs. rewrite <- EP, <- ET. destruct (partial_records f (dedup ps)) eqn:Pn; [reflexivity|].
    apply flat_map_nil. intros p Hp. now apply PATH. }
  split; [|split].
  - intros s. rewrite SF, ME. destruct s; cbn [evs_for]; apply app_nil_r.
  - apply objs_eq_sym. exact OF.
  - intros p. apply PATH.
Qed.

End Idem.

(* ---- the crash points outside K_crash_during_workspace_copy -------------------------------------------------------- *)
Definition unstable (o : fsop) : bool :=
  match o with Chmod (LWs _) _ | CopyChunk _ (LWs _) _ => true | _ => false end.

Lemma K_copy_unstable n l :
  K_crash_during_workspace_copy n l = match nth_error l n with Some o => unstable o | None => false end.
Proof.
  unfold K_crash_during_workspace_copy, next_op. destruct (nth_error l n) as [o|]; [|reflexivity].
  destruct o; try reflexivity; try (destruct p; reflexivity); try (destruct dst; reflexivity).
Qed.

Lemma forallb_nth {A} (P : A -> bool) l : forall i x, forallb P l = true -> nth_error l i = Some x -> P x = true.
Proof.
  induction l as [|y r IH]; intros i x H N; destruct i; cbn in N; try discriminate.
  - injection N as <-. cbn in H. now apply andb_true_iff in H as [H _].
  - cbn in H. apply andb_true_iff in H as [_ H]. eapply IH; eauto.
Qed.

(* a block: maybe an unlink, one stable call, then only calls the class covers *)
Lemma shape_prefix (U : list fsop) o1 tl n :
  forallb unstable tl = true -> (n < length (U ++ o1 :: tl))%nat ->
  K_crash_during_workspace_copy n (U ++ o1 :: tl) = false -> (n <= length U)%nat.
Proof.
  intros T L K. destruct (Nat.le_gt_cases n (length U)) as [|Hgt]; [assumption|exfalso].
  rewrite K_copy_unstable in K. rewrite nth_error_app2 in K by lia.
  rewrite app_length in L. cbn [length] in L.
  destruct (n - length U)%nat as [|i] eqn:E; [lia|]. cbn [nth_error] in K.
  destruct (nth_error tl i) as [o|] eqn:N.
  - rewrite (forallb_nth unstable tl i o T N) in K. discriminate.
  - apply nth_error_None in N. lia.
Qed.

Lemma firstn_app_le {A} (l1 l2 : list A) n : (n <= length l1)%nat -> firstn n (l1 ++ l2) = firstn n l1.
Proof. intros H. rewrite firstn_app. replace (n - length l1)%nat with 0%nat by lia. cbn. apply app_nil_r. Qed.
Lemma firstn_app_ge {A} (l1 l2 : list A) n : (length l1 <= n)%nat -> firstn n (l1 ++ l2) = l1 ++ firstn (n - length l1) l2.
Proof. intros H. rewrite firstn_app, firstn_all2 by exact H. reflexivity. Qed.

Section Prefix.
Variable chunk : N.
Hypothesis chunk_pos : chunk <> 0%N.

Lemma copy_calls_unstable c p fuel : forall left, forallb unstable (copy_calls chunk (LObj c) (LWs p) fuel left) = true.
Proof.
  induction fuel as [|k IH]; intros left; cbn [copy_calls]; [reflexivity|].
  destruct (N.eqb left 0); cbn; auto.
Qed.

Lemma body_shape fU p c m : ws_exists fU p = false ->
  exists o1 tl, recheck_from_cache chunk fU p c m = o1 :: tl /\ forallb unstable tl = true.
Proof.
  intros WE. unfold recheck_from_cache. rewrite WE. cbn [app]. destruct m.
  - unfold fs_copy. cbn [app]. eexists _, _. split; [reflexivity|].
    cbn [forallb unstable andb]. rewrite forallb_app.
    destruct (N.eqb chunk 0); [reflexivity|]. rewrite copy_calls_unstable. reflexivity.
  - eexists _, _. split; reflexivity.
  - eexists _, _. split; reflexivity.
Qed.

Lemma block_prefix f r n : wf f -> let B := recheck_block chunk f r in
  (n < length B)%nat -> K_crash_during_workspace_copy n B = false ->
  let g := crashed n B f in
  fget g (LWs (rp_p r)) = fget f (LWs (rp_p r)) \/ (obj_exists f (rp_c r) = true /\ fget g (LWs (rp_p r)) = None).
Proof.
  intros Wf B L K g. unfold g, crashed, B in *. unfold recheck_block in *.
  destruct (obj_exists f (rp_c r)) eqn:E; [|cbn in L; lia].
  unfold then_ops in *.
  set (U := if ws_exists f (rp_p r) then [Unlink (LWs (rp_p r))] else []) in *.
  assert (GU : fget (apply_all U f) (LWs (rp_p r)) = None).
  { unfold U. destruct (ws_exists f (rp_p r)) eqn:WE.
    - change (apply_all [Unlink (LWs (rp_p r))] f) with (apply (Unlink (LWs (rp_p r))) f).
      rewrite fget_apply. cbn [written removed]. now rewrite loc_eqb_refl.
    - apply ws_wf_free; [apply Wf|exact WE]. }
  assert (WE : ws_exists (apply_all U f) (rp_p r) = false) by (unfold ws_exists, ws_stamp; now rewrite GU).
  destruct (body_shape (apply_all U f) (rp_p r) (rp_c r) (rp_m r) WE) as (o1 & tl & EB & T).
  rewrite EB in *.
  pose proof (shape_prefix U o1 tl n T L K) as Hn.
  rewrite firstn_app_le by exact Hn.
  unfold U in *. destruct (ws_exists f (rp_p r)).
  - destruct n as [|[|n']]; [left; reflexivity| |cbn in Hn; lia].
    right. split; [reflexivity|]. exact GU.
  - destruct n; [left; reflexivity|cbn in Hn; lia].
Qed.

Lemma crashed_nil n f : crashed n [] f = f.
Proof. unfold crashed. now rewrite firstn_nil. Qed.

Lemma K_copy_app1 n l1 l2 : (n < length l1)%nat ->
  K_crash_during_workspace_copy n (l1 ++ l2) = K_crash_during_workspace_copy n l1.
Proof. intros H. rewrite !K_copy_unstable, nth_error_app1 by exact H. reflexivity. Qed.
Lemma K_copy_app2 n l1 l2 : (length l1 <= n)%nat ->
  K_crash_during_workspace_copy n (l1 ++ l2) = K_crash_during_workspace_copy (n - length l1) l2.
Proof. intros H. rewrite !K_copy_unstable, nth_error_app2 by exact H. reflexivity. Qed.

Lemma recheck_all_prefix rps : forall f n, wf f -> NoDup (map rp_p rps) ->
  let A := recheck_all chunk f rps in
  K_crash_during_workspace_copy n A = false ->
  let g := crashed n A f in
  forall p, fget g (LWs p) = fget f (LWs p) \/
    exists r, In r rps /\ rp_p r = p /\ obj_exists f (rp_c r) = true /\
       (fget g (LWs p) = None \/ exists nd, fget g (LWs p) = Some nd /\ fresh_node f (rp_c r) (rp_m r) nd).
Proof.
  induction rps as [|r t IH]; intros f n Wf ND A K g p.
  { left. unfold g, A. cbn [recheck_all]. now rewrite crashed_nil. }
  unfold g, A in *. rewrite recheck_all_unfold in *. unfold then_ops in *.
  set (B := recheck_block chunk f r) in *. set (f1 := apply_all B f) in *.
  cbn [map] in ND. inversion ND as [|? ? Hn ND']; subst.
  assert (FO : forall q, q <> rp_p r -> forall k, fget (crashed k B f) (LWs q) = fget f (LWs q)).
  { intros q Hq k. unfold crashed. apply fget_frame_all. unfold avoids. apply forallb_firstn.
    apply recheck_block_avoids. cbn. apply N.eqb_neq. congruence. }
  destruct (Nat.lt_ge_cases n (length B)) as [Hlt|Hge].
  - (* the kill fell inside the block of r *)
    rewrite K_copy_app1 in K by exact Hlt.
    assert (EC : crashed n (B ++ recheck_all chunk f1 t) f = crashed n B f).
    { unfold crashed. rewrite firstn_app_le by lia. reflexivity. }
    rewrite EC. destruct (N.eqb_spec p (rp_p r)) as [->|Hne]; [|left; now apply FO].
    destruct (block_prefix f r n Wf Hlt K) as [H|[E H]]; [left; exact H|].
    right. exists r. split; [now left|split; [reflexivity|split; [exact E|left; exact H]]].
  - rewrite K_copy_app2 in K by exact Hge.
    assert (EC : crashed n (B ++ recheck_all chunk f1 t) f = crashed (n - length B) (recheck_all chunk f1 t) f1).
    { unfold crashed. rewrite firstn_app_ge by exact Hge. now rewrite apply_all_app. }
    rewrite EC.
    assert (FR : forall x, is_ws x = false -> fget f1 x = fget f x).
    { intros x X. unfold f1. apply fget_frame_all. apply ws_ops_avoid; [apply recheck_block_ws_op|exact X]. }
    destruct (IH f1 (n - length B)%nat (recheck_block_wf chunk f r Wf) ND' K p) as [H|(r' & Hin & Ep & E & H)].
    + destruct (N.eqb_spec p (rp_p r)) as [->|Hne].
      * destruct (obj_exists f (rp_c r)) eqn:E.
        -- right. exists r. split; [now left|split; [reflexivity|split; [exact E|right]]].
           rewrite H. apply recheck_block_result; [exact chunk_pos|apply Wf|apply Wf|exact E].
        -- left. rewrite H. unfold f1, B, recheck_block. rewrite E. reflexivity.
      * left. rewrite H. specialize (FO p Hne (length B)). rewrite crashed_all in FO. exact FO.
    + right. exists r'. split; [now right|split; [exact Ep|split]].
      * unfold obj_exists, exists_at in *. now rewrite <- (FR (LObj (rp_c r'))).
      * destruct H as [H|(nd & H & Fn)]; [left; exact H|right]. exists nd. split; [exact H|].
        eapply fresh_node_ext; [|exact Fn]. now apply FR.
Qed.

End Prefix.

(* ---- similar file systems look the same ------------------------------------------------------------------------------ *)
Lemma sim_sym f g : sim f g -> sim g f.
Proof.
  intros (R & O & W). split; [|split].
  - intros s. symmetry. apply R.
  - now apply objs_eq_sym.
  - intros p. destruct (W p) as [E|(b & w & s & s' & E1 & E2 & E3)]; [left; congruence|].
    right. exists b, w, s', s. rewrite <- (recs_digest f g p R). auto.
Qed.

Lemma sim_same_obs ps f g : sim f g -> same_obs ps f g = true.
Proof.
  intros (R & O & W). unfold same_obs. apply forallb_forall. intros p _.
  rewrite <- (recs_digest f g p R), <- (recs_method f g p R), <- (recs_tracked f g p R).
  assert (E1 : wsobs_eqb (obs_ws f p) (obs_ws g p) = true).
  { unfold obs_ws. destruct (W p) as [<-|(b & w & s & s' & -> & -> & _)].
    - destruct (fget f (LWs p)) as [[b w s| |c|]|]; cbn; rewrite ?beqb_refl, ?Bool.eqb_reflx; reflexivity.
    - cbn. now rewrite beqb_refl, Bool.eqb_reflx. }
  assert (E2 : opt_bytes_eqb (rec_digest f p) (rec_digest f p) = true).
  { destruct (rec_digest f p); cbn; [apply beqb_refl|reflexivity]. }
  assert (E3 : opt_method_eqb (rec_method f p) (rec_method f p) = true).
  { destruct (rec_method f p) as [[]|]; reflexivity. }
  rewrite E1, E2, E3, Bool.eqb_reflx. cbn [andb].
  destruct (rec_digest f p) as [c|]; [|reflexivity].
  unfold obj_holds, obj_mode. destruct (O c) as [<- <-].
  rewrite Bool.eqb_reflx. cbn [andb].
  destruct (fget f (LObj c)) as [[b w s| | |]|]; try reflexivity.
  destruct (fget f (LObjDir c)) as [[| | |dw]|]; try reflexivity.
  cbn. now rewrite !Bool.eqb_reflx.
Qed.

Lemma all_ok_firstn s l : forall f op n, all_ok s f op l = true -> all_ok s f op (firstn n l) = true.
Proof.
  induction l as [|o r IH]; intros f op n A; destruct n; cbn; auto.
  cbn in A. apply andb_true_iff in A as [A1 A2]. rewrite A1. cbn. now apply IH.
Qed.

Lemma recheck_cmd_pre f mreq force ps : wf f -> cmd_pre false f (Recheck mreq force ps).
Proof. intros Wf. split; [apply Wf|discriminate]. Qed.

Lemma crashed_wf fixed chunk f c n : wf f -> wf (crashed n (effects fixed chunk f c) f).
Proof.
  intros Wf. unfold crashed. apply wf_apply_all; [|exact Wf]. apply all_ok_firstn.
  apply effects_ok; [apply Wf|]. destruct c; cbn; auto. split; [apply Wf|discriminate].
Qed.

Lemma crashed_fresh fixed chunk f c n : names_fresh f = true -> names_fresh (crashed n (effects fixed chunk f c) f) = true.
Proof.
  intros F. unfold crashed. apply names_fresh_all; [|exact F]. apply all_name_ok_firstn, effects_name_ok.
Qed.

Lemma run_cmd_wf fixed chunk f c : wf f -> wf (run_cmd fixed chunk f c).
Proof. intros Wf. apply (do_item_wf fixed chunk f (Xvc c) Wf). Qed.
Lemma run_cmd_fresh fixed chunk f c : names_fresh f = true -> names_fresh (run_cmd fixed chunk f c) = true.
Proof. intros F. apply (do_item_fresh fixed chunk f (Xvc c) F). Qed.

(* ---- re-running an interrupted recheck converges ----------------------------------------------------------------------- *)
Section Converge.
Variable chunk : N.
Hypothesis chunk_pos : chunk <> 0%N.

Lemma sim_then_recheck f g mreq force ps : wf f -> wf g -> names_fresh f = true -> names_fresh g = true ->
  sim f g -> sim (run_cmd true chunk f (Recheck mreq force ps)) (run_cmd true chunk g (Recheck mreq force ps)).
Proof.
  intros Wf Wg Ff Fg (R & O & W). apply rerun_sim; auto. intros p. left. apply W.
Qed.

Definition prog (f g : fsys) mreq force ps : Prop :=
  recs_eq f g /\ objs_eq f g /\ forall p, adv f g mreq force ps p.

Lemma prog_frame f g g' mreq force ps : prog f g mreq force ps ->
  (forall s, store_dir g' s = store_dir g s) -> (forall x, is_meta_loc x = false -> fget g' x = fget g x) ->
  prog f g' mreq force ps.
Proof.
  intros (R & O & A) D G. split; [|split].
  - intros s. unfold store_events. rewrite D. apply R.
  - intros c. rewrite !G by reflexivity. apply O.
  - intros p. destruct (A p) as [[E|(b & w & s & s' & E1 & E2 & E3)]|(r & TP & E & H)].
    + left. left. rewrite G by reflexivity. exact E.
    + left. right. exists b, w, s, s'. rewrite G by reflexivity. auto.
    + right. exists r. rewrite G by reflexivity. auto.
Qed.

(* the crash points inside the workspace phase *)
Lemma prog_workspace f mreq force ps n : wf f -> partial_records f (dedup ps) = false ->
  let rps := flat_map (recheck_plans_of f mreq force) (carry_targets f ps) in
  let A := recheck_all chunk f rps in
  K_crash_during_workspace_copy n A = false ->
  prog f (crashed n A f) mreq force ps.
Proof.
  intros Wf Pn rps A K.
  assert (WA : forallb ws_op (firstn n A) = true) by (apply forallb_firstn, recheck_all_ws_op).
  split; [|split].
  - intros s. unfold store_events, crashed. rewrite store_dir_frame_all; [reflexivity|]. now apply ws_ops_irr.
  - intros c. unfold crashed. rewrite !fget_frame_all by (now apply ws_ops_avoid). split; reflexivity.
  - intros p.
    destruct (recheck_all_prefix chunk chunk_pos rps f n Wf (NoDup_plans f mreq force ps) K p) as [H|(r & Hin & Ep & E & H)].
    + left. left. symmetry. exact H.
    + right. exists r. split; [|split; [exact E|exact H]]. subst p. now apply in_the_plan.
Qed.

Lemma K_copy_end l : K_crash_during_workspace_copy (length l) l = false.
Proof.
  rewrite K_copy_unstable. replace (nth_error l (length l)) with (@None fsop); [reflexivity|].
  symmetry. apply nth_error_None. lia.
Qed.

Lemma prog_crashed f mreq force ps n : wf f ->
  let l := effects true chunk f (Recheck mreq force ps) in
  (n < length l)%nat -> K_crash_during_workspace_copy n l = false ->
  prog f (crashed n l f) mreq force ps.
Proof.
  intros Wf l L K. unfold l in *. cbn [effects] in *. unfold recheck_effects in *.
  destruct (partial_records f (dedup ps)) eqn:Pn; [cbn in L; lia|].
  cbv zeta in *. unfold then_ops in *.
  fold (recheck_plans_of f mreq force) in *.
  set (rps := flat_map (recheck_plans_of f mreq force) (carry_targets f ps)) in *.
  set (A := recheck_all chunk f rps) in *.
  set (fA := apply_all A f) in *.
  match goal with |- context [save_store true fA SMethod ?e] => set (evs := e) in * end.
  set (Sv := save_store true fA SMethod evs) in *.
  destruct (Nat.le_gt_cases n (length A)) as [Hle|Hgt].
  - assert (EC : crashed n (A ++ Sv) f = crashed n A f) by (unfold crashed; now rewrite firstn_app_le).
    rewrite EC. apply prog_workspace; [exact Wf|exact Pn|].
    destruct (Nat.eq_dec n (length A)) as [->|Hne]; [apply K_copy_end|].
    rewrite K_copy_app1 in K by lia. exact K.
  - (* inside the save of the recheck-method store: only the temporary file is touched *)
    assert (PA : prog f fA mreq force ps).
    { unfold fA. rewrite <- crashed_all. apply prog_workspace; [exact Wf|exact Pn|apply K_copy_end]. }
    assert (EC : crashed n (A ++ Sv) f = apply_all (firstn (n - length A) Sv) fA).
    { unfold crashed. rewrite firstn_app_ge by lia. now rewrite apply_all_app. }
    rewrite EC. rewrite app_length in L.
    unfold Sv, save_store, save_file in *. destruct evs as [|e evs']; [cbn in L; lia|].
    cbn [length] in L.
    destruct (n - length A)%nat as [|[|[|k]]] eqn:Ek; [lia| | |lia].
    + apply (prog_frame f fA); [exact PA| |].
      * intros s. cbn [firstn apply_all fold_left]. now rewrite store_dir_frame by reflexivity.
      * intros x Hx. cbn [firstn apply_all fold_left]. rewrite fget_frame; [reflexivity|]. destruct x; try reflexivity; discriminate.
    + apply (prog_frame f fA); [exact PA| |].
      * intros s. cbn [firstn apply_all fold_left]. now rewrite !store_dir_frame by reflexivity.
      * intros x Hx. cbn [firstn apply_all fold_left]. rewrite !fget_frame; [reflexivity| |]; destruct x; try reflexivity; discriminate.
Qed.

Theorem rerun_recheck_converges f mreq force ps obs n :
  wf f -> names_fresh f = true ->
  let c := Recheck mreq force ps in
  K_crash_during_workspace_copy n (effects true chunk f c) = false ->
  converges_at true chunk f c obs n = true.
Proof.
  intros Wf Ff c K. unfold converges_at, rerun.
  set (l := effects true chunk f c) in *. set (F := run_cmd true chunk f c).
  set (g := crashed n l f).
  assert (WF : wf F) by (now apply run_cmd_wf).
  assert (FF : names_fresh F = true) by (now apply run_cmd_fresh).
  assert (Wg : wf g) by (now apply crashed_wf).
  assert (Fg : names_fresh g = true) by (now apply crashed_fresh).
  apply sim_same_obs.
  apply sim_then_recheck; try (now apply run_cmd_wf); try (now apply run_cmd_fresh).
  destruct (Nat.lt_ge_cases n (length l)) as [Hlt|Hge].
  - apply sim_sym. destruct (prog_crashed f mreq force ps n Wf Hlt K) as (R & O & A).
    apply rerun_sim; auto.
  - assert (Eg : g = F) by (unfold g, crashed, F, run_cmd; now rewrite firstn_all2).
    rewrite Eg. now apply rerun_done.
Qed.

End Converge.

(* for the file systems reachable from `xvc init` *)
Lemma crash_rerun_converges_recheck_lemma chunk (h : list item) mreq force ps obs (n : nat) :
  chunk <> 0%N ->
  let f := run_items true chunk h in
  let c := Recheck mreq force ps in
  K_crash_during_workspace_copy n (effects true chunk f c) = false ->
  converges_at true chunk f c obs n = true.
Proof.
  intros Hc f c K. apply rerun_recheck_converges; auto.
  - apply run_items_wf.
  - apply run_items_fresh.
Qed.

(* ---- store-only commands: every store directory is the old or the new one at every prefix ------------------------------ *)
Definition estep (acc : list (N * N)) (e : loc * node) : list (N * N) :=
  match e with (LEc n, NMeta (Some (PCounter k))) => put N.eqb N.ltb acc n k | _ => acc end.
Definition eirr (k : loc) : bool := match k with LEc _ => false | _ => true end.

Lemma ec_dir_fold f : ec_dir f = fold_left estep (ents f) [].
Proof. reflexivity. Qed.

Lemma estep_irr acc k v : eirr k = true -> estep acc (k, v) = acc.
Proof. destruct k; cbn; try reflexivity. discriminate. Qed.

Lemma ec_dir_frame o f : op_irrk eirr o = true -> ec_dir (apply o f) = ec_dir f.
Proof. intros H. rewrite !ec_dir_fold. apply (fold_frame _ estep eirr estep_irr). exact H. Qed.

Lemma ec_dir_frame_all l : forall f, forallb (op_irrk eirr) l = true -> ec_dir (apply_all l f) = ec_dir f.
Proof.
  induction l as [|o r IH]; intros f H; cbn; [reflexivity|].
  cbn in H. apply andb_true_iff in H as [H1 H2]. rewrite IH by exact H2. now apply ec_dir_frame.
Qed.

Lemma save_store_eirr f s evs : forallb (op_irrk eirr) (save_store true f s evs) = true.
Proof. unfold save_store, save_file. destruct evs; reflexivity. Qed.

Lemma save_stores_eirr l : forall f, forallb (op_irrk eirr) (save_stores true f l) = true.
Proof.
  induction l as [|[sd evs] r IH]; intros f; cbn [save_stores]; [reflexivity|].
  unfold then_ops. now rewrite forallb_app, save_store_eirr, IH.
Qed.

Lemma save_stores_irr s l : ~ In s (map fst l) -> forall f, forallb (op_irr s) (save_stores true f l) = true.
Proof.
  induction l as [|[sd evs] r IH]; intros H f; cbn [save_stores]; [reflexivity|].
  cbn [map fst In] in H. unfold then_ops. rewrite forallb_app, IH by tauto.
  rewrite save_store_irr; [reflexivity|]. intros ->. tauto.
Qed.

Lemma save_ec_irr s f k : forallb (op_irr s) (save_ec true f k) = true.
Proof. reflexivity. Qed.

(* before its rename, the save of a store changes no store directory *)
Lemma save_store_before s0 f evs n s : (n < length (save_store true f s0 evs))%nat ->
  store_dir (crashed n (save_store true f s0 evs) f) s = store_dir f s.
Proof.
  unfold save_store, save_file, crashed. destruct evs as [|e evs]; [cbn; lia|]. cbn [length]. intros H.
  destruct n as [|[|[|n]]]; [reflexivity| | |lia]; cbn [firstn apply_all fold_left];
    now rewrite !store_dir_frame by reflexivity.
Qed.

Lemma save_stores_old_or_new saves : forall f n, NoDup (map fst saves) ->
  forall s, store_dir (crashed n (save_stores true f saves) f) s = store_dir f s \/
            store_dir (crashed n (save_stores true f saves) f) s = store_dir (apply_all (save_stores true f saves) f) s.
Proof.
  induction saves as [|[s0 evs] r IH]; intros f n ND s.
  { left. cbn [save_stores]. now rewrite crashed_nil. }
  cbn [save_stores]. unfold then_ops.
  set (S0 := save_store true f s0 evs). set (f1 := apply_all S0 f).
  cbn [map fst] in ND. inversion ND as [|? ? Hn ND']; subst.
  assert (TAIL : store_dir (apply_all (save_stores true f1 r) f1) s0 = store_dir f1 s0).
  { apply store_dir_frame_all. now apply save_stores_irr. }
  assert (HEAD : s <> s0 -> store_dir f1 s = store_dir f s).
  { intros Hs. unfold f1, S0. apply store_dir_frame_all. now apply save_store_irr. }
  rewrite apply_all_app. fold f1.
  destruct (Nat.lt_ge_cases n (length S0)) as [Hlt|Hge].
  - left. unfold crashed. rewrite firstn_app_le by lia. now apply save_store_before.
  - assert (EC : crashed n (S0 ++ save_stores true f1 r) f = crashed (n - length S0) (save_stores true f1 r) f1).
    { unfold crashed. rewrite firstn_app_ge by exact Hge. now rewrite apply_all_app. }
    rewrite EC. destruct (IH f1 (n - length S0)%nat ND' s) as [H|H]; [|right; exact H].
    rewrite H. destruct (sid_eqb_spec s s0) as [->|Hs].
    + right. now rewrite TAIL.
    + left. now apply HEAD.
Qed.

Lemma stores_only_old_or_new chunk f saves ec n : NoDup (map fst saves) ->
  let c := StoresOnly saves ec in
  let g := crashed n (effects true chunk f c) f in
  let F := run_cmd true chunk f c in
  (forall s, store_dir g s = store_dir f s \/ store_dir g s = store_dir F s) /\
  (ec_dir g = ec_dir f \/ ec_dir g = ec_dir F) /\
  (forall x, is_meta_loc x = false -> fget g x = fget f x).
Proof.
  intros ND c g F. unfold g, F, c, run_cmd. cbn [effects]. unfold stores_only_effects, then_ops.
  set (L := save_stores true f saves). set (f2 := apply_all L f).
  set (E := match ec with Some k => save_ec true f2 k | None => [] end).
  assert (EI : forall s, forallb (op_irr s) E = true) by (intros s; unfold E; destruct ec; reflexivity).
  assert (LE : forallb (op_irrk eirr) L = true) by apply save_stores_eirr.
  rewrite apply_all_app. fold f2.
  split; [|split].
  - intros s. rewrite (store_dir_frame_all s E f2 (EI s)).
    destruct (Nat.le_gt_cases n (length L)) as [Hle|Hgt].
    + unfold crashed. rewrite firstn_app_le by exact Hle. apply (save_stores_old_or_new saves f n ND s).
    + right. unfold crashed. rewrite firstn_app_ge by lia. rewrite apply_all_app. fold f2.
      apply store_dir_frame_all. apply forallb_firstn, EI.
  - destruct (Nat.le_gt_cases n (length L)) as [Hle|Hgt].
    + left. unfold crashed. rewrite firstn_app_le by exact Hle. apply ec_dir_frame_all. now apply forallb_firstn.
    + unfold crashed. rewrite firstn_app_ge by lia. rewrite apply_all_app. fold f2.
      unfold E. destruct ec as [k|]; [|left; rewrite firstn_nil; cbn; now apply ec_dir_frame_all].
      unfold save_ec, save_file.
      destruct (n - length L)%nat as [|[|[|m]]]; cbn [firstn].
      * left. cbn. now apply ec_dir_frame_all.
      * left. cbn [apply_all fold_left]. rewrite ec_dir_frame by reflexivity. now apply ec_dir_frame_all.
      * left. cbn [apply_all fold_left]. rewrite !ec_dir_frame by reflexivity. now apply ec_dir_frame_all.
      * right. rewrite firstn_nil. reflexivity.
  - intros x Hx. unfold crashed. apply fget_frame_all. unfold avoids. apply forallb_firstn.
    fold (avoids x (L ++ E)). rewrite avoids_app. unfold L. rewrite save_stores_avoids by exact Hx.
    unfold E. destruct ec; [now apply save_ec_avoids|reflexivity].
Qed.

(* ---- the statements Props/C07.v exports ---------------------------------------------------------------------------------- *)
Lemma store_saves_prefix_consistent_lemma chunk (h : list item) saves ec (n : nat) :
  NoDup (map fst saves) ->
  let f := run_items true chunk h in
  let c := StoresOnly saves ec in
  let f' := crashed n (effects true chunk f c) f in
  let F := run_cmd true chunk f c in
  loads f' = true /\
  (forall s, store_dir f' s = store_dir f s \/ store_dir f' s = store_dir F s) /\
  (ec_dir f' = ec_dir f \/ ec_dir f' = ec_dir F) /\
  (forall x, is_meta_loc x = false -> fget f' x = fget f x).
Proof.
  intros ND f c f' F.
  destruct (store_saves_prefix_lemma chunk h saves ec n) as (L & _ & _).
  destruct (stores_only_old_or_new chunk f saves ec n ND) as (A & B & C).
  split; [exact L|split; [exact A|split; [exact B|exact C]]].
Qed.

Lemma sim_refl f : sim f f.
Proof. split; [intros s; reflexivity|split; [apply objs_eq_refl|intros p; now left]]. Qed.

Lemma converges_at_start fixed chunk f c obs : converges_at fixed chunk f c obs 0 = true.
Proof. unfold converges_at, rerun, crashed. cbn [firstn apply_all fold_left]. apply sim_same_obs, sim_refl. Qed.

(* what is proved of "re-running converges", command by command *)
Definition rerun_proved (c : command) (n : nat) (l : list fsop) : bool :=
  match c with
  | Recheck _ _ _ => negb (K_crash_during_workspace_copy n l)
  | _ => Nat.eqb n 0
  end.

Lemma crash_rerun_converges_partial_lemma chunk (h : list item) (c : command) obs (n : nat) :
  chunk <> 0%N ->
  let f := run_items true chunk h in
  rerun_proved c n (effects true chunk f c) = true ->
  converges_at true chunk f c obs n = true.
Proof.
  intros Hc f P. destruct c; cbn [rerun_proved] in P;
    try (apply Nat.eqb_eq in P; subst n; apply converges_at_start).
  apply negb_true_iff in P. now apply crash_rerun_converges_recheck_lemma.
Qed.
