(* Proofs about M-CRASH.
   Part A: an effect list that obeys the discipline [all_ok] / [all_meta_ok] keeps the clauses of C07
           at EVERY prefix (generic: no reference to any command).
   Part B: the effect lists of track, carry-in, recheck and of the store-only commands obey the
           discipline from every file system whose objects are intact. *)
From Coq Require Import List Bool NArith Lia.
From XV Require Import Base.Amap Base.Bytes Crash.Model.
Import ListNotations.

(* ---- decidable equalities ------------------------------------------------------------------------ *)
Lemma sid_eqb_spec a b : reflect (a = b) (sid_eqb a b).
Proof.
  destruct a, b; cbn; try (constructor; congruence).
  destruct (N.eqb_spec k k0); constructor; congruence.
Qed.

Lemma loc_eqb_spec a b : reflect (a = b) (loc_eqb a b).
Proof.
  destruct a, b; cbn; try (constructor; congruence).
  - destruct (sid_eqb_spec s s0), (N.eqb_spec n n0); cbn; constructor; congruence.
  - destruct (sid_eqb_spec s s0), (N.eqb_spec n n0); cbn; constructor; congruence.
  - destruct (N.eqb_spec n n0); constructor; congruence.
  - destruct (N.eqb_spec n n0); constructor; congruence.
  - destruct (beqb_spec c c0); constructor; congruence.
  - destruct (beqb_spec c c0); constructor; congruence.
  - destruct (N.eqb_spec p p0); constructor; congruence.
Qed.

Lemma loc_eqb_refl l : loc_eqb l l = true.
Proof. destruct (loc_eqb_spec l l); congruence. Qed.

(* ---- association lists under forallb ---------------------------------------------------------------- *)
Section Forallb.
Variable P : loc * node -> bool.

Lemma forallb_del m k : forallb P m = true -> forallb P (del loc_eqb m k) = true.
Proof.
  induction m as [|[k' v] r IH]; cbn; auto.
  intros H; apply andb_true_iff in H as [H1 H2].
  destruct (loc_eqb k' k); cbn; auto. now rewrite H1, IH.
Qed.

Lemma forallb_ins m k v : forallb P m = true -> P (k, v) = true -> forallb P (ins_sorted nolt m k v) = true.
Proof.
  induction m as [|[k' v'] r IH]; cbn; intros H Hp.
  - now rewrite Hp.
  - apply andb_true_iff in H as [H1 H2]. rewrite H1. cbn. now apply IH.
Qed.

Lemma forallb_put m k v : forallb P m = true -> P (k, v) = true -> forallb P (put loc_eqb nolt m k v) = true.
Proof. intros; unfold put. apply forallb_ins; auto. now apply forallb_del. Qed.

Lemma forallb_get m k v : forallb P m = true -> get loc_eqb m k = Some v -> P (k, v) = true.
Proof.
  intros H G. apply (get_In loc_eqb loc_eqb_spec) in G. rewrite forallb_forall in H. now apply H.
Qed.
End Forallb.

(* ---- what one effect writes and removes ---------------------------------------------------------------- *)
Definition written (o : fsop) (f : fsys) : option (loc * node) :=
  match o with
  | Mkdir d => match fget f d with None => Some (d, NDir true) | Some _ => None end
  | Creat p => Some (p, if is_meta_loc p then NMeta None else NData [] true (clock f))
  | Touch p => match fget f p with None => Some (p, NData [] true (clock f)) | Some _ => None end
  | Append p b => match fget f p with Some (NData c w _) => Some (p, NData (c ++ b) w (clock f)) | _ => None end
  | WriteMeta p pl => match fget f p with Some (NMeta None) => Some (p, NMeta (Some pl)) | _ => None end
  | Rename p q => match fget f p with Some n => Some (q, n) | None => None end
  | Unlink _ => None
  | Link p q => match fget f p, fget f q with Some n, None => Some (q, n) | _, _ => None end
  | Symlink c p => match fget f p with None => Some (p, NSym c) | Some _ => None end
  | Chmod p w => match fget f p with
                 | Some (NData c _ s) => Some (p, NData c w s)
                 | Some (NDir _) => Some (p, NDir w)
                 | _ => None end
  | CopyChunk src dst n =>
      match fget f src, fget f dst with
      | Some (NData s _ _), Some (NData d w _) => Some (dst, NData (d ++ Ntake n (Ndrop (Nlen d) s)) w (clock f))
      | _, _ => None end
  end.
Definition removed (o : fsop) (l : loc) : bool :=
  match o with Unlink p | Rename p _ => loc_eqb p l | _ => false end.

Lemma fget_put_raw (e : list (loc * node)) k v l :
  get loc_eqb (put loc_eqb nolt e k v) l = if loc_eqb k l then Some v else get loc_eqb e l.
Proof. apply (get_put loc_eqb loc_eqb_spec). Qed.
Lemma fget_del_raw (e : list (loc * node)) k l :
  get loc_eqb (del loc_eqb e k) l = if loc_eqb k l then None else get loc_eqb e l.
Proof. apply (get_del loc_eqb loc_eqb_spec). Qed.

Lemma fget_apply o f l :
  fget (apply o f) l =
  match written o f with
  | Some (l', n) => if loc_eqb l' l then Some n else if removed o l then None else fget f l
  | None => if removed o l then None else fget f l
  end.
Proof.
  unfold fget at 1.
  destruct o; cbn [apply written removed];
    repeat match goal with
           | |- context [match fget ?f ?x with _ => _ end] => destruct (fget f x) as [[]|] eqn:?
           | |- context [match ?o with Some _ => _ | None => _ end] => destruct o
           end;
    cbn [fput fdel fnop tick ents]; rewrite ?fget_put_raw, ?fget_del_raw; try reflexivity.
  (* Rename of a missing source: nothing is at p *)
  all: try (destruct (loc_eqb_spec p l) as [->|]; [unfold fget in *; congruence | reflexivity]).
Qed.

Lemma forallb_apply P o f :
  forallb P (ents f) = true ->
  (forall l n, written o f = Some (l, n) -> P (l, n) = true) ->
  forallb P (ents (apply o f)) = true.
Proof.
  intros H W.
  destruct o; cbn [apply written] in *;
    repeat match goal with
           | |- context [match fget ?f ?x with _ => _ end] => destruct (fget f x) as [[]|] eqn:?
           | |- context [match ?o with Some _ => _ | None => _ end] => destruct o
           end;
    cbn [fput fdel fnop tick ents]; auto;
    try (apply forallb_put; [try apply forallb_del; assumption | eapply W; reflexivity]);
    try (apply forallb_del; assumption).
Qed.

(* ---- clause (a): the repository loads ------------------------------------------------------------------- *)
Lemma entry_loads_unlisted l n : listed_meta l = false -> entry_loads (l, n) = true.
Proof. destruct l; cbn; try discriminate; destruct n as [| [[]|] | |]; reflexivity. Qed.

Lemma loads_step o f : meta_ok f o = true -> loads f = true -> loads (apply o f) = true.
Proof.
  unfold loads. intros M L. apply forallb_apply; auto.
  intros l n W.
  destruct o; cbn [meta_ok written] in *;
    try (apply negb_true_iff in M);
    repeat match type of W with
           | context [match fget ?f ?x with _ => _ end] => destruct (fget f x) as [[]|] eqn:?
           | context [match ?o with Some _ => _ | None => _ end] => destruct o
           end;
    try discriminate; try (injection W as <- <-; now apply entry_loads_unlisted).
  (* Rename *)
  all: injection W as <- <-.
  all: apply orb_true_iff in M as [M|M]; [apply negb_true_iff in M; now apply entry_loads_unlisted|].
  all: destruct q; try discriminate; cbn in *; try assumption; try discriminate.
Qed.

Lemma loads_prefix l : forall f, all_meta_ok f l = true -> loads f = true ->
  forall n, loads (crashed n l f) = true.
Proof.
  unfold crashed. induction l as [|o r IH]; intros f A L n.
  - destruct n; exact L.
  - cbn in A. apply andb_true_iff in A as [A1 A2].
    destruct n; cbn; [exact L|]. apply IH; auto. now apply loads_step.
Qed.

(* ---- clauses (b), (c), (d) ----------------------------------------------------------------------------------- *)
Lemma intact_get f c n : objects_intact f = true -> fget f (LObj c) = Some n ->
  exists w s, n = NData c w s.
Proof.
  unfold objects_intact, fget. intros H G.
  pose proof (forallb_get _ _ _ _ H G) as E. cbn in E.
  destruct n; try discriminate. destruct (beqb_spec b c); [subst; eauto | discriminate].
Qed.

Ltac split_written W :=
  repeat match type of W with
         | context [match fget ?f ?x with _ => _ end] => destruct (fget f x) as [[]|] eqn:?
         | context [match ?o with Some _ => _ | None => _ end] => destruct o
         end.

Lemma intact_step s o f op : step_ok s f op o = true -> objects_intact f = true -> objects_intact (apply o f) = true.
Proof.
  intros S I. unfold objects_intact. apply forallb_apply; [exact I|].
  intros l n W.
  destruct o; cbn [written] in W.
  - (* Mkdir *) destruct d; cbn in S; try discriminate. split_written W; try discriminate. now injection W as <- <-.
  - (* Creat *) injection W as <- <-. destruct p; cbn in S |- *; try discriminate; reflexivity.
  - destruct p; cbn in S; try discriminate. split_written W; try discriminate. now injection W as <- <-.
  - destruct p; cbn in S; try discriminate; split_written W; try discriminate; now injection W as <- <-.
  - split_written W; try discriminate. injection W as <- <-. destruct p; cbn in S |- *; try discriminate; reflexivity.
  - (* Rename *)
    destruct (fget f p) as [n0|] eqn:G; [|discriminate]. injection W as <- <-.
    destruct p; cbn in S; try (apply andb_true_iff in S as [_ S]); try discriminate;
      destruct q; cbn in S |- *; try discriminate; try reflexivity.
    rewrite G in S. destruct n0; try discriminate. exact S.
  - discriminate.
  - destruct p; cbn in S; try discriminate. destruct q; try discriminate.
    split_written W; try discriminate; now injection W as <- <-.
  - destruct p; cbn in S; try discriminate. split_written W; try discriminate. now injection W as <- <-.
  - (* Chmod *)
    destruct p; cbn in S; try discriminate.
    + destruct (fget f (LObj c)) as [n0|] eqn:G; [|discriminate].
      destruct (intact_get _ _ _ I G) as (w0 & s0 & ->). injection W as <- <-. cbn. apply beqb_refl.
    + split_written W; try discriminate; now injection W as <- <-.
    + split_written W; try discriminate; now injection W as <- <-.
  - destruct src; cbn in S; try discriminate. destruct dst; try discriminate.
    split_written W; try discriminate; now injection W as <- <-.
Qed.

Lemma holds_step s o f op c :
  step_ok s f op o = true -> obj_holds f c = true -> obj_holds (apply o f) c = true.
Proof.
  intros S H. unfold obj_holds in *. rewrite fget_apply.
  assert (R : removed o (LObj c) = false).
  { destruct o; cbn; auto.
    - destruct p; cbn in S |- *; try (apply andb_true_iff in S as [S _]); try discriminate; reflexivity.
    - destruct p; cbn in S |- *; try discriminate; reflexivity. }
  rewrite R.
  destruct (written o f) as [[l' n]|] eqn:W; [|exact H].
  destruct (loc_eqb_spec l' (LObj c)) as [->|]; [|exact H].
  destruct o; cbn [written] in W.
  - destruct d; cbn in S; try discriminate. split_written W; try discriminate.
  - injection W as E _. subst p. discriminate.
  - destruct p; cbn in S; try discriminate. split_written W; discriminate.
  - destruct p; cbn in S; try discriminate; split_written W; discriminate.
  - split_written W; try discriminate. injection W as E _. subst p. discriminate.
  - destruct (fget f p) as [n0|] eqn:G; [|discriminate]. injection W as -> ->.
    destruct p; cbn in S; try (apply andb_true_iff in S as [_ S]); try discriminate.
    rewrite G in S. destruct n; try discriminate. exact S.
  - discriminate.
  - destruct p; cbn in S; try discriminate. destruct q; try discriminate. split_written W; discriminate.
  - destruct p; cbn in S; try discriminate. split_written W; discriminate.
  - destruct p; cbn in S; try discriminate; split_written W; try discriminate.
    all: injection W as -> <-; rewrite Heqo in H; exact H.
  - destruct src; cbn in S; try discriminate. destruct dst; try discriminate. split_written W; discriminate.
Qed.

(* clause (c) relative to the file system f0 the command started from *)
Definition bytes_inv (f0 : fsys) (opened : list path) (f : fsys) : Prop :=
  forall p b w s, fget f0 (LWs p) = Some (NData b w s) ->
    obj_holds f b = true \/
    exists q w' s', mem q opened = false /\ fget f (LWs q) = Some (NData b w' s').

Lemma mem_rm_false q p op : mem q op = false -> mem q (rm p op) = false.
Proof.
  unfold mem, rm. induction op as [|x r IH]; cbn; auto.
  intros H. apply orb_false_iff in H as [H1 H2].
  destruct (N.eqb p x); cbn; auto. now rewrite H1, IH.
Qed.

Lemma bytes_step o f0 f op :
  step_ok true f op o = true -> bytes_inv f0 op f -> bytes_inv f0 (opened_after op o) (apply o f).
Proof.
  intros S B p b w s G0.
  destruct (B p b w s G0) as [H|(q & w' & s' & M & G)].
  { left. eapply holds_step; eauto. }
  (* the witness q *)
  pose proof (fget_apply o f (LWs q)) as FA.
  destruct o; cbn [written removed opened_after] in *.
  - (* Mkdir *) destruct d; cbn in S; try discriminate.
    right; exists q, w', s'; split; [exact M|]. rewrite FA. destruct (fget f (LObjDir c)); cbn; exact G.
  - (* Creat *)
    destruct p0; cbn in S; try discriminate;
      try (right; exists q, w', s'; split; [exact M|]; rewrite FA; cbn; exact G).
    apply negb_true_iff in S. unfold exists_at in S.
    destruct (N.eqb_spec p0 q) as [->|Hne]; [rewrite G in S; discriminate|].
    right; exists q, w', s'; split.
    + cbn. apply N.eqb_neq in Hne. rewrite N.eqb_sym in Hne. now rewrite Hne.
    + rewrite FA. cbn. apply N.eqb_neq in Hne. rewrite Hne. exact G.
  - (* Touch *) destruct p0; cbn in S; try discriminate.
    right; exists q, w', s'; split; [exact M|]. rewrite FA. destruct (fget f LIgn); cbn; exact G.
  - (* Append *)
    destruct p0; cbn in S; try discriminate.
    + destruct (N.eqb_spec p0 q) as [->|Hne]; [congruence|].
      right; exists q, w', s'; split; [exact M|]. rewrite FA.
      apply N.eqb_neq in Hne. destruct (fget f (LWs p0)) as [[]|]; cbn; rewrite ?Hne; exact G.
    + right; exists q, w', s'; split; [exact M|]. rewrite FA. destruct (fget f LIgn) as [[]|]; cbn; exact G.
  - (* WriteMeta *)
    right; exists q, w', s'; split; [exact M|]. rewrite FA.
    destruct p0; cbn in S; try discriminate;
      match goal with |- context [fget f ?x] => destruct (fget f x) as [[| [|] | |]|] end; cbn; exact G.
  - (* Rename *)
    destruct p0; cbn in S; try (apply andb_true_iff in S as [S1 S2]); try discriminate.
    + (* meta -> meta *) right; exists q, w', s'; split; [exact M|]. rewrite FA.
      destruct q0; try discriminate; match goal with |- context [fget f ?x] => destruct (fget f x) end; cbn; exact G.
    + right; exists q, w', s'; split; [exact M|]. rewrite FA.
      destruct q0; try discriminate; match goal with |- context [fget f ?x] => destruct (fget f x) end; cbn; exact G.
    + right; exists q, w', s'; split; [exact M|]. rewrite FA.
      destruct q0; try discriminate; match goal with |- context [fget f ?x] => destruct (fget f x) end; cbn; exact G.
    + right; exists q, w', s'; split; [exact M|]. rewrite FA.
      destruct q0; try discriminate; match goal with |- context [fget f ?x] => destruct (fget f x) end; cbn; exact G.
    + (* workspace file into the cache *)
      destruct q0; try discriminate.
      destruct (fget f (LWs p0)) as [[b0 w0 s0| | |]|] eqn:Gp; try discriminate.
      destruct (N.eqb_spec p0 q) as [->|Hne].
      * left. rewrite G in Gp. injection Gp as <- <- <-.
        destruct (beqb_spec b c) as [->|]; [|discriminate].
        unfold obj_holds. rewrite fget_apply. cbn [written]. rewrite G, loc_eqb_refl. apply beqb_refl.
      * right; exists q, w', s'; split; [now apply mem_rm_false|]. rewrite FA. cbn.
        apply N.eqb_neq in Hne. rewrite Hne. exact G.
  - (* Unlink *)
    destruct p0; cbn in S; try discriminate;
      try (right; exists q, w', s'; split; [exact M|]; rewrite FA; cbn; exact G).
    destruct (N.eqb_spec p0 q) as [->|Hne].
    + rewrite M, G in S. cbn in S. left. apply (holds_step false (Unlink (LWs q)) f [] b); [reflexivity | exact S].
    + right; exists q, w', s'; split; [now apply mem_rm_false|]. rewrite FA. cbn.
      apply N.eqb_neq in Hne. rewrite Hne. exact G.
  - (* Link *)
    destruct p0; cbn in S; try discriminate. destruct q0; try discriminate.
    right; exists q, w', s'; split; [now apply mem_rm_false|]. rewrite FA.
    destruct (fget f (LObj c)); [|exact G].
    destruct (N.eqb_spec p0 q) as [->|Hne].
    * rewrite G. reflexivity.
    * apply N.eqb_neq in Hne. destruct (fget f (LWs p0)); cbn; rewrite ?Hne; exact G.
  - (* Symlink *)
    destruct p0; cbn in S; try discriminate.
    right; exists q, w', s'; split; [now apply mem_rm_false|]. rewrite FA.
    destruct (N.eqb_spec p0 q) as [->|Hne].
    * rewrite G. reflexivity.
    * apply N.eqb_neq in Hne. destruct (fget f (LWs p0)); cbn; rewrite ?Hne; exact G.
  - (* Chmod *)
    destruct p0; cbn in S; try discriminate.
    + right; exists q, w', s'; split; [exact M|]. rewrite FA. destruct (fget f (LObj c)) as [[]|]; cbn; exact G.
    + right; exists q, w', s'; split; [exact M|]. rewrite FA. destruct (fget f (LObjDir c)) as [[]|]; cbn; exact G.
    + destruct (N.eqb_spec p0 q) as [->|Hne].
      * right; exists q, w0, s'; split; [exact M|]. rewrite FA, G. cbn. now rewrite N.eqb_refl.
      * right; exists q, w', s'; split; [exact M|]. rewrite FA.
        apply N.eqb_neq in Hne. destruct (fget f (LWs p0)) as [[]|]; cbn; rewrite ?Hne; exact G.
  - (* CopyChunk *)
    destruct src; cbn in S; try discriminate. destruct dst; try discriminate.
    destruct (N.eqb_spec p0 q) as [->|Hne]; [congruence|].
    right; exists q, w', s'; split; [exact M|]. rewrite FA.
    apply N.eqb_neq in Hne.
    destruct (fget f (LObj c)) as [[]|]; try exact G; destruct (fget f (LWs p0)) as [[]|]; cbn; rewrite ?Hne; exact G.
Qed.

Definition safe_inv (strict : bool) (f0 : fsys) (opened : list path) (f : fsys) : Prop :=
  objects_intact f = true /\
  (forall c, obj_holds f0 c = true -> obj_holds f c = true) /\
  (strict = true -> bytes_inv f0 opened f).

Lemma safe_step strict o f0 f op :
  step_ok strict f op o = true -> safe_inv strict f0 op f -> safe_inv strict f0 (opened_after op o) (apply o f).
Proof.
  intros S (I & K & B). split; [|split].
  - eapply intact_step; eauto.
  - intros c H. eapply holds_step; eauto.
  - intros ->. apply bytes_step; auto.
Qed.

Lemma safe_prefix strict f0 l : forall f op, all_ok strict f op l = true -> safe_inv strict f0 op f ->
  forall n, exists op', safe_inv strict f0 op' (crashed n l f).
Proof.
  unfold crashed. induction l as [|o r IH]; intros f op A S n.
  - destruct n; cbn; eauto.
  - cbn in A. apply andb_true_iff in A as [A1 A2].
    destruct n; cbn; [eauto|]. eapply IH; eauto. now apply safe_step.
Qed.

Lemma safe_init strict f0 : objects_intact f0 = true -> safe_inv strict f0 [] f0.
Proof.
  intros I. split; [exact I|split; [auto|]].
  intros _ p b w s G. right. exists p, w, s. split; [reflexivity|exact G].
Qed.

(* the generic statement: an effect list that obeys the discipline is safe at every crash point *)
Theorem disciplined_prefix_safe strict f l n :
  objects_intact f = true -> all_ok strict f [] l = true ->
  let f' := crashed n l f in
  objects_intact f' = true /\
  (forall c, obj_holds f c = true -> obj_holds f' c = true) /\
  (strict = true -> forall p b w s, fget f (LWs p) = Some (NData b w s) ->
     obj_holds f' b = true \/ exists q w' s', fget f' (LWs q) = Some (NData b w' s')).
Proof.
  intros I A f'.
  destruct (safe_prefix strict f l f [] A (safe_init strict f I) n) as (op' & I' & K' & B').
  split; [exact I'|split; [exact K'|]].
  intros E p b w s G. destruct (B' E p b w s G) as [H|(q & w' & s' & _ & G')]; eauto.
Qed.
