(* The transliterated matcher finds a last component: "**/<name>" matches every string that ends in
   "/<name>", for a name of plain bytes (no metacharacter, no separator). *)
From Coq Require Import List NArith Bool Lia Arith.
From XV Require Import Glob.Match.
Import ListNotations.
Open Scope N_scope.

Lemma lenN_nil : lenN [] = 0.
Proof. reflexivity. Qed.
Lemma lenN_cons x l : lenN (x :: l) = 1 + lenN l.
Proof. unfold lenN. cbn [length]. lia. Qed.
Lemma lenN_app l1 l2 : lenN (l1 ++ l2) = lenN l1 + lenN l2.
Proof. unfold lenN. rewrite app_length. lia. Qed.

Lemma nthN_app_r l1 : forall l2 i, nthN (l1 ++ l2) (lenN l1 + i) = nthN l2 i.
Proof.
  induction l1 as [|x l1 IH]; intros l2 i.
  - rewrite lenN_nil, N.add_0_l. reflexivity.
  - cbn [app nthN]. rewrite lenN_cons. destruct (N.eqb_spec (1 + lenN l1 + i) 0) as [E|_]; [lia|].
    replace (1 + lenN l1 + i - 1) with (lenN l1 + i) by lia. apply IH.
Qed.

Lemma at_app_r l1 l2 i : at_ (l1 ++ l2) (lenN l1 + i) = at_ l2 i.
Proof. unfold at_. rewrite nthN_app_r. reflexivity. Qed.

Lemma at_app_r0 l1 l2 : at_ (l1 ++ l2) (lenN l1) = at_ l2 0.
Proof. rewrite <- (N.add_0_r (lenN l1)) at 1. apply at_app_r. Qed.

Lemma at_cons0 x l : at_ (x :: l) 0 = x.
Proof. reflexivity. Qed.

(* a plain byte: not a metacharacter of the matcher and not the separator *)
Definition plain (c : byte) : Prop :=
  N.eqb c c_star = false /\ N.eqb c c_q = false /\ N.eqb c c_lb = false /\ N.eqb c c_bs = false /\ N.eqb c c_slash = false.

Lemma loop_S fuel neg g P s s' : body neg g P s = Cont s' -> loop (S fuel) neg g P s = loop fuel neg g P s'.
Proof. intros H. cbn [loop]. rewrite H. reflexivity. Qed.
Lemma loop_done fuel neg g P s b : body neg g P s = Done b -> loop (S fuel) neg g P s = Some b.
Proof. intros H. cbn [loop]. rewrite H. reflexivity. Qed.

Lemma loop_mono f : forall f' neg g P s b, (f <= f')%nat -> loop f neg g P s = Some b -> loop f' neg g P s = Some b.
Proof.
  induction f as [|f IH]; intros f' neg g P s b Hle H; [discriminate|].
  destruct f' as [|f']; [lia|]. cbn [loop] in *. destruct (body neg g P s) as [b'|s']; [exact H|].
  apply (IH f'); [lia|exact H].
Qed.

(* one step on a plain glob byte *)
Lemma body_plain g P gI pI W GS c :
  gI < lenN g -> at_ g gI = c -> plain c -> pI < lenN P ->
  body false g P {| gi := gI; pi_ := pI; wild := W; gstar := GS |} =
  if N.eqb (at_ P pI) c then Cont {| gi := gI + 1; pi_ := pI + 1; wild := W; gstar := GS |}
  else backtrack_or false P {| gi := gI; pi_ := pI; wild := W; gstar := GS |}.
Proof.
  intros Hg Hc (H1 & H2 & H3 & H4 & H5) Hp. unfold body. cbn [gi pi_ wild gstar].
  apply N.ltb_lt in Hg. apply N.ltb_lt in Hp. rewrite Hg, Hp, Hc. cbn [orb negb andb].
  rewrite H1, H2, H3. cbn [andb]. unfold unescape. rewrite H4, H5.
  unfold is_sep. destruct (N.eqb (at_ P pI) c); reflexivity.
Qed.

Lemma body_plain_end g P gI pI W GS c :
  gI < lenN g -> at_ g gI = c -> plain c -> lenN P <= pI ->
  body false g P {| gi := gI; pi_ := pI; wild := W; gstar := GS |} =
  backtrack_or false P {| gi := gI; pi_ := pI; wild := W; gstar := GS |}.
Proof.
  intros Hg Hc (H1 & H2 & H3 & H4 & H5) Hp. unfold body. cbn [gi pi_ wild gstar].
  apply N.ltb_lt in Hg. apply N.ltb_ge in Hp. rewrite Hg, Hp, Hc. cbn [orb negb andb].
  rewrite H1, H2, H3. cbn [andb]. reflexivity.
Qed.

Lemma body_glob_end g P pI W GS :
  pI < lenN P ->
  body false g P {| gi := lenN g; pi_ := pI; wild := W; gstar := GS |} =
  backtrack_or false P {| gi := lenN g; pi_ := pI; wild := W; gstar := GS |}.
Proof.
  intros Hp. unfold body. cbn [gi pi_ wild gstar]. apply N.ltb_lt in Hp. rewrite Hp, N.ltb_irrefl. reflexivity.
Qed.

Lemma body_both_end g P W GS :
  body false g P {| gi := lenN g; pi_ := lenN P; wild := W; gstar := GS |} = Done true.
Proof. unfold body. cbn [gi pi_ wild gstar]. rewrite !N.ltb_irrefl. reflexivity. Qed.

Lemma backtrack_to P s : 0 < w_p (wild s) -> w_p (wild s) <= lenN P ->
  backtrack_or false P s = Cont {| gi := w_g (wild s); pi_ := w_p (wild s); wild := wild s; gstar := gstar s |}.
Proof.
  intros H1 H2. unfold backtrack_or. apply N.ltb_lt in H1. apply N.leb_le in H2. rewrite H1, H2. reflexivity.
Qed.

Section LastComponent.
Variable n0 : byte.
Variable n' : bytes.
Let n := n0 :: n'.
Hypothesis Hplain : Forall plain n.
Let g := c_star :: c_star :: c_slash :: n.

Lemma plain_n0 : plain n0.
Proof. inversion Hplain. assumption. Qed.

Lemma glen : lenN g = 3 + lenN n.
Proof. unfold g. rewrite !lenN_cons. lia. Qed.

Lemma at_g_lit i : at_ g (3 + i) = at_ n i.
Proof. change g with ([c_star; c_star; c_slash] ++ n). change 3 with (lenN [c_star; c_star; c_slash]). apply at_app_r. Qed.

Lemma skip_globstars_g : skip_globstars g 0 = 0.
Proof.
  destruct plain_n0 as (H1 & _).
  assert (E : N.eqb c_star n0 = false) by (rewrite N.eqb_sym; exact H1).
  assert (S1 : forall l, slice_eq_from g 2 (c_slash :: c_star :: l) = false).
  { intros l. cbn [slice_eq_from]. change (nthN g 2) with (Some c_slash). change (nthN g (2 + 1)) with (Some n0).
    cbv iota beta. rewrite E. cbn [andb]. apply andb_false_r. }
  unfold skip_globstars. change (0 + 2) with 2.
  assert (M : skip_mid (@length byte g) g 2 = 2).
  { unfold g. cbn [length skip_mid]. fold n. fold g. rewrite S1, andb_false_r. reflexivity. }
  rewrite M. rewrite S1, andb_false_r. reflexivity.
Qed.

(* the globstar step at the start of the glob: remember the start of the next path component *)
Lemma body_star P pI W GS : pI < lenN P ->
  body false g P {| gi := 0; pi_ := pI; wild := W; gstar := GS |} =
  Cont {| gi := 3; pi_ := pI;
          wild := {| w_g := 0; w_p := scan_sep (length P) P pI + 1 |};
          gstar := {| w_g := 0; w_p := scan_sep (length P) P pI + 1 |} |}.
Proof.
  intros Hp. unfold body. cbn [gi pi_ wild gstar].
  assert (G0 : 0 <? lenN g = true) by (apply N.ltb_lt; rewrite glen; lia).
  assert (G1 : 0 + 1 <? lenN g = true) by (apply N.ltb_lt; rewrite glen; lia).
  rewrite G0. cbn [orb negb]. change (at_ g 0) with c_star. change (at_ g (0 + 1)) with c_star.
  rewrite G1. change (N.eqb c_star c_star) with true. cbn [andb]. rewrite skip_globstars_g.
  change (0 + 2) with 2. change (2 <? 3) with true. cbn [orb]. change (at_ g 2) with c_slash.
  assert (G2 : N.eqb 2 (lenN g) = false) by (apply N.eqb_neq; rewrite glen; lia).
  rewrite G2. cbn [negb andb orb]. change (N.eqb c_slash c_slash) with true. cbn [andb].
  assert (Hne : N.eqb pI (lenN P) = false) by (apply N.eqb_neq; lia).
  rewrite Hne. change (2 + 1) with 3. reflexivity.
Qed.

Definition noslash (s : bytes) : Prop := forall b, In b s -> is_sep b = false.
(* empty, or begins with the separator *)
Definition sl (s : bytes) : Prop := match s with [] => True | c :: _ => is_sep c = true end.

Lemma scan_sep_comp pre post : sl post -> forall c2 c1 fuel, (length c2 <= fuel)%nat -> noslash c2 ->
  scan_sep fuel (pre ++ (c1 ++ c2) ++ post) (lenN pre + lenN c1) = lenN pre + lenN c1 + lenN c2.
Proof.
  intros Hpost. induction c2 as [|x c2 IH]; intros c1 fuel Hf Hns.
  - rewrite lenN_nil, N.add_0_r, app_nil_r. destruct fuel as [|f]; [reflexivity|]. cbn [scan_sep].
    destruct post as [|y post].
    + rewrite app_nil_r. replace (lenN pre + lenN c1 <? lenN (pre ++ c1)) with false; [reflexivity|].
      symmetry. apply N.ltb_ge. rewrite lenN_app. lia.
    + rewrite N.add_comm. rewrite app_assoc. rewrite N.add_comm, <- lenN_app, at_app_r0, at_cons0. cbn in Hpost. rewrite Hpost.
      rewrite andb_false_r. reflexivity.
  - destruct fuel as [|f]; [cbn in Hf; lia|]. cbn [scan_sep].
    assert (Hlt : lenN pre + lenN c1 <? lenN (pre ++ (c1 ++ x :: c2) ++ post) = true).
    { apply N.ltb_lt. rewrite !lenN_app, lenN_cons. lia. }
    assert (Hat : at_ (pre ++ (c1 ++ x :: c2) ++ post) (lenN pre + lenN c1) = x).
    { rewrite at_app_r. rewrite <- app_assoc. rewrite at_app_r0. reflexivity. }
    rewrite Hlt, Hat. rewrite (Hns x (or_introl eq_refl)). cbn [negb andb].
    replace (c1 ++ x :: c2) with ((c1 ++ [x]) ++ c2) by (rewrite <- app_assoc; reflexivity).
    replace (lenN pre + lenN c1 + 1) with (lenN pre + lenN (c1 ++ [x])) by (rewrite lenN_app, lenN_cons, lenN_nil; lia).
    rewrite IH.
    + rewrite lenN_app, !lenN_cons, lenN_nil. lia.
    + cbn in Hf. lia.
    + intros b Hb. apply Hns. right. exact Hb.
Qed.

Lemma n_at n1 y n2 : n = n1 ++ y :: n2 -> at_ g (3 + lenN n1) = y.
Proof. intros E. rewrite at_g_lit, E, at_app_r0. reflexivity. Qed.

Lemma plain_in y : In y n -> plain y.
Proof. intros H. rewrite Forall_forall in Hplain. apply Hplain. exact H. Qed.

Lemma plain_not_sep y : plain y -> is_sep y = false.
Proof. intros (_ & _ & _ & _ & H). exact H. Qed.

(* the attempt to match the name against a component that is followed by more path fails and falls back
   to the remembered start of the next component *)
Lemma lit_fail pre : forall n2 n1 R2 W GS,
  n = n1 ++ n2 -> In c_slash R2 -> w_g W = 0 -> 0 < w_p W -> w_p W <= lenN (pre ++ n1 ++ R2) ->
  exists m, (m <= S (length n2))%nat /\
    forall f, loop (m + f) false g (pre ++ n1 ++ R2)
                {| gi := 3 + lenN n1; pi_ := lenN pre + lenN n1; wild := W; gstar := GS |}
            = loop f false g (pre ++ n1 ++ R2) {| gi := 0; pi_ := w_p W; wild := W; gstar := GS |}.
Proof.
  induction n2 as [|y n2 IH]; intros n1 R2 W GS En Hin Hg0 Hw0 Hw1.
  - rewrite app_nil_r in En. subst n1. exists 1%nat. split; [lia|]. intros f. cbn [Nat.add].
    destruct R2 as [|z R2]; [contradiction|].
    replace (3 + lenN n) with (lenN g) by (rewrite glen; reflexivity).
    erewrite loop_S; [reflexivity|]. rewrite body_glob_end.
    + rewrite backtrack_to by assumption. cbn [wild gstar]. rewrite Hg0. reflexivity.
    + rewrite !lenN_app, lenN_cons. lia.
  - destruct R2 as [|z R2]; [contradiction|].
    assert (Hy : plain y) by (apply plain_in; rewrite En; apply in_or_app; right; left; reflexivity).
    assert (Hpi : lenN pre + lenN n1 < lenN (pre ++ n1 ++ z :: R2)) by (rewrite !lenN_app, lenN_cons; lia).
    assert (Hgi : 3 + lenN n1 < lenN g) by (rewrite glen, En, lenN_app, lenN_cons; lia).
    assert (Hat : at_ (pre ++ n1 ++ z :: R2) (lenN pre + lenN n1) = z) by (rewrite at_app_r, at_app_r0; reflexivity).
    assert (Hb := body_plain g (pre ++ n1 ++ z :: R2) (3 + lenN n1) (lenN pre + lenN n1) W GS y Hgi (n_at n1 y n2 En) Hy Hpi).
    rewrite Hat in Hb. destruct (N.eqb_spec z y) as [->|Hne].
    + assert (Hin' : In c_slash R2).
      { destruct Hin as [E|Hin]; [|exact Hin]. exfalso. apply plain_not_sep in Hy. unfold is_sep in Hy. rewrite <- E, N.eqb_refl in Hy. discriminate. }
      destruct (IH (n1 ++ [y]) R2 W GS) as (m & Hm & Hl).
      * rewrite <- app_assoc. exact En.
      * exact Hin'.
      * exact Hg0.
      * exact Hw0.
      * rewrite <- app_assoc. exact Hw1.
      * exists (S m). split; [cbn [length]; lia|]. intros f. cbn [Nat.add]. erewrite loop_S; [|exact Hb].
        specialize (Hl f). rewrite <- !app_assoc in Hl. cbn [app] in Hl. rewrite lenN_app, lenN_cons, lenN_nil in Hl.
        replace (3 + lenN n1 + 1) with (3 + (lenN n1 + (1 + 0))) by lia.
        replace (lenN pre + lenN n1 + 1) with (lenN pre + (lenN n1 + (1 + 0))) by lia. exact Hl.
    + exists 1%nat. split; [cbn [length]; lia|]. intros f. cbn [Nat.add]. erewrite loop_S; [reflexivity|]. rewrite Hb.
      rewrite backtrack_to by assumption. cbn [wild gstar]. rewrite Hg0. reflexivity.
Qed.

(* the attempt against the last component succeeds *)
Lemma lit_ok pre : forall n2 n1 W GS f, n = n1 ++ n2 ->
  loop (S (length n2) + f) false g (pre ++ n1 ++ n2)
       {| gi := 3 + lenN n1; pi_ := lenN pre + lenN n1; wild := W; gstar := GS |} = Some true.
Proof.
  induction n2 as [|y n2 IH]; intros n1 W GS f En.
  - rewrite app_nil_r in *. subst n1. cbn [length Nat.add].
    replace (3 + lenN n) with (lenN g) by (rewrite glen; reflexivity).
    replace (lenN pre + lenN n) with (lenN (pre ++ n)) by (rewrite lenN_app; reflexivity).
    apply loop_done. apply body_both_end.
  - assert (Hy : plain y) by (apply plain_in; rewrite En; apply in_or_app; right; left; reflexivity).
    assert (Hpi : lenN pre + lenN n1 < lenN (pre ++ n1 ++ y :: n2)) by (rewrite !lenN_app, lenN_cons; lia).
    assert (Hgi : 3 + lenN n1 < lenN g) by (rewrite glen, En, lenN_app, lenN_cons; lia).
    assert (Hat : at_ (pre ++ n1 ++ y :: n2) (lenN pre + lenN n1) = y) by (rewrite at_app_r, at_app_r0; reflexivity).
    assert (Hb := body_plain g (pre ++ n1 ++ y :: n2) (3 + lenN n1) (lenN pre + lenN n1) W GS y Hgi (n_at n1 y n2 En) Hy Hpi).
    rewrite Hat, N.eqb_refl in Hb. cbn [length Nat.add]. erewrite loop_S; [|exact Hb].
    specialize (IH (n1 ++ [y]) W GS f). rewrite <- !app_assoc in IH. cbn [app] in IH. rewrite lenN_app, lenN_cons, lenN_nil in IH.
    replace (3 + lenN n1 + 1) with (3 + (lenN n1 + (1 + 0))) by lia.
    replace (lenN pre + lenN n1 + 1) with (lenN pre + (lenN n1 + (1 + 0))) by lia. apply IH. exact En.
Qed.

(* a string that ends with the name as its last component *)
Inductive tail_ok : bytes -> Prop :=
| T_last : tail_ok n
| T_more comp rest : noslash comp -> tail_ok rest -> tail_ok (comp ++ c_slash :: rest).

Lemma n_noslash : noslash n.
Proof. intros b Hb. apply plain_not_sep. apply plain_in. exact Hb. Qed.

Lemma main_loop R : tail_ok R -> forall pre W GS,
  exists m, (m <= (length R + 1) * (length n + 3))%nat /\
            loop m false g (pre ++ R) {| gi := 0; pi_ := lenN pre; wild := W; gstar := GS |} = Some true.
Proof.
  induction 1 as [|comp rest Hc Ht IH]; intros pre W GS.
  - exists (S (S (length n) + 0)). split; [nia|].
    assert (Hp : lenN pre < lenN (pre ++ n)) by (rewrite lenN_app; unfold n; rewrite lenN_cons; lia).
    erewrite loop_S; [|apply body_star; exact Hp].
    assert (H := lit_ok pre n [] {| w_g := 0; w_p := scan_sep (length (pre ++ n)) (pre ++ n) (lenN pre) + 1 |}
                        {| w_g := 0; w_p := scan_sep (length (pre ++ n)) (pre ++ n) (lenN pre) + 1 |} O eq_refl).
    cbn [app] in H. rewrite lenN_nil, !N.add_0_r in H. exact H.
  - set (P := pre ++ comp ++ c_slash :: rest).
    assert (Hp : lenN pre < lenN P) by (unfold P; rewrite !lenN_app, lenN_cons; lia).
    assert (Hs : scan_sep (length P) P (lenN pre) = lenN pre + lenN comp).
    { assert (H := scan_sep_comp pre (c_slash :: rest) eq_refl comp [] (length P)). cbn [app] in H. rewrite lenN_nil, N.add_0_r in H.
      apply H; [|exact Hc]. unfold P. rewrite !app_length. lia. }
    set (Wn := {| w_g := 0; w_p := lenN pre + lenN comp + 1 |}).
    destruct (lit_fail pre n [] (comp ++ c_slash :: rest) Wn Wn eq_refl) as (m1 & Hm1 & Hl1).
    + apply in_or_app. right. left. reflexivity.
    + reflexivity.
    + cbn [w_p Wn]. lia.
    + cbn [w_p Wn app]. rewrite !lenN_app, lenN_cons. lia.
    + destruct (IH (pre ++ comp ++ [c_slash]) Wn Wn) as (m2 & Hm2 & Hl2).
      exists (S (m1 + m2)). split.
      * rewrite app_length. cbn [length]. nia.
      * erewrite loop_S; [|apply body_star; exact Hp]. fold P. rewrite Hs. fold Wn.
        specialize (Hl1 m2). cbn [app] in Hl1. rewrite lenN_nil, !N.add_0_r in Hl1. fold P in Hl1. rewrite Hl1.
        cbn [w_p Wn]. rewrite <- !app_assoc in Hl2. cbn [app] in Hl2. fold P in Hl2.
        assert (E : lenN (pre ++ comp ++ [c_slash]) = lenN pre + lenN comp + 1) by (rewrite !lenN_app; change (lenN [c_slash]) with 1; lia).
        rewrite E in Hl2. exact Hl2.
Qed.

Lemma split_slash : forall X : bytes, noslash X \/ exists comp X', X = comp ++ c_slash :: X' /\ noslash comp.
Proof.
  induction X as [|x X IH]; [left; intros b []|].
  destruct (N.eqb_spec x c_slash) as [->|Hx].
  - right. exists [], X. split; [reflexivity|intros b []].
  - destruct IH as [Hn|(comp & X' & -> & Hc)].
    + left. intros b [<-|Hb]; [unfold is_sep; apply N.eqb_neq; exact Hx|apply Hn; exact Hb].
    + right. exists (x :: comp), X'. split; [reflexivity|]. intros b [<-|Hb]; [unfold is_sep; apply N.eqb_neq; exact Hx|apply Hc; exact Hb].
Qed.

Lemma tail_ok_any : forall k (X : bytes), (length X <= k)%nat -> tail_ok (X ++ c_slash :: n).
Proof.
  induction k as [|k IH]; intros X Hk.
  - destruct X; [|cbn in Hk; lia]. apply (T_more [] n); [intros b []|apply T_last].
  - destruct (split_slash X) as [Hn|(comp & X' & -> & Hc)].
    + apply T_more; [exact Hn|apply T_last].
    + rewrite <- app_assoc. cbn [app]. apply T_more; [exact Hc|]. apply IH. rewrite app_length in Hk. cbn [length] in Hk. unfold bytes, byte in *. lia.
Qed.

Lemma glob_matches_last_component (X : bytes) : glob_matches g (X ++ c_slash :: n) = true.
Proof.
  destruct (main_loop _ (tail_ok_any (length X) X (le_n _)) [] {| w_g := 0; w_p := 0 |} {| w_g := 0; w_p := 0 |}) as (m & Hm & Hl).
  cbn [app] in Hl. unfold glob_matches, glob_match, glob_match_fuel.
  assert (Hb : skip_bangs (@length byte g) g 0 false = (0, false)) by reflexivity.
  rewrite Hb. unfold st0.
  rewrite (loop_mono m (default_fuel g (X ++ c_slash :: n)) false g _ _ true); [reflexivity| |exact Hl].
  unfold default_fuel. unfold g at 1. cbn [length]. fold n. nia.
Qed.
End LastComponent.
