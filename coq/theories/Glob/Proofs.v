(* Proofs about M-GLOB: string helpers and the locality test [applies] of the P17 fix. *)
From Coq Require Import List NArith Bool Lia.
From XV Require Import Glob.Match Glob.Pattern.
Import ListNotations.
Open Scope N_scope.

Lemma strip_prefix_spec pre : forall s rest, strip_prefix pre s = Some rest -> s = pre ++ rest.
Proof.
  induction pre as [|x pre IH]; intros s rest H.
  - cbn in H. injection H as <-. reflexivity.
  - destruct s as [|y s]; cbn in H; [discriminate|].
    destruct (N.eqb_spec x y) as [->|]; [|discriminate].
    cbn. f_equal. apply IH. exact H.
Qed.

Lemma starts_with_spec c s : starts_with c s = true -> exists r, s = c :: r.
Proof.
  destruct s as [|x r]; cbn; [discriminate|].
  intros H. apply N.eqb_eq in H. subst. eauto.
Qed.

(* trimming a string that does not begin / end with a trimmed byte is the identity *)
Lemma trim_start_by_id f x s : f x = false -> trim_start_by f (x :: s) = x :: s.
Proof. intros H. cbn. rewrite H. reflexivity. Qed.

Lemma trim_end_by_nonempty f s x : f x = false -> trim_end_by f (s ++ [x]) = s ++ [x].
Proof.
  intros Hx. induction s as [|y s IH]; cbn [app trim_end_by].
  - rewrite Hx. reflexivity.
  - rewrite IH. destruct (s ++ [x]) eqn:E; [destruct s; discriminate|]. reflexivity.
Qed.

(* the source of a pattern is the source it was built with *)
Lemma pattern_new_src src l : p_src (pattern_new src l) = src.
Proof.
  unfold pattern_new. destruct (pattern_body l) as [[line be] es].
  destruct es; destruct (existsb _ _); reflexivity.
Qed.

Lemma content_to_patterns_src src content pat :
  In pat (content_to_patterns src content) -> p_src pat = src.
Proof.
  unfold content_to_patterns. intros H. apply in_map_iff in H as (l & <- & _).
  apply pattern_new_src.
Qed.

(* The locality test: a pattern whose source is the ignore file of a directory with the non-empty
   (slash-trimmed) name d is consulted only for strings "d/..." (after leading slashes). *)
Lemma applies_local pat dir s :
  p_src pat = SFile dir -> trim_slashes dir <> [] -> applies pat s = true ->
  exists rest, trim_start_by is_sep s = trim_slashes dir ++ c_slash :: rest.
Proof.
  intros Hsrc Hne H. unfold applies in H. rewrite Hsrc in H.
  destruct (trim_slashes dir) as [|d0 d] eqn:E; [contradiction|].
  destruct (strip_prefix (d0 :: d) (trim_start_by is_sep s)) as [rest|] eqn:Es; [|discriminate].
  apply strip_prefix_spec in Es. apply starts_with_spec in H as (r & ->).
  exists r. exact Es.
Qed.
