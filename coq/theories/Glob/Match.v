(* M-GLOB, part 1: the matcher.
   A transliteration of fast-glob 0.3.3 [glob_match_normal] (src/glob.rs), the function behind
   [fast_glob::glob_match] that xvc-walker's [IgnoreRules::check] calls for every (pattern, path)
   pair.  Bytes are [N], strings are [list N], indices are [N].  The Rust [while] loop becomes
   recursion on explicit fuel; running out of fuel is the explicit outcome [None] (never a
   default answer).  [longest_index] is dropped: [glob_match] discards it (`.0`).
   No proofs in this file. *)
From Coq Require Import List NArith Bool.
Import ListNotations.
Open Scope N_scope.

Definition byte := N.
Definition bytes := list byte.

Fixpoint nthN (l : bytes) (i : N) : option byte :=
  match l with [] => None | x :: r => if N.eqb i 0 then Some x else nthN r (i - 1) end.
Definition lenN (l : bytes) : N := N.of_nat (length l).
(* glob[i] / path[i]; only evaluated under an [i < len] guard, exactly where the Rust code indexes *)
Definition at_ (l : bytes) (i : N) : byte := match nthN l i with Some b => b | None => 0 end.

Definition c_star := 42.  Definition c_q := 63.     Definition c_lb := 91.  Definition c_rb := 93.
Definition c_bs := 92.    Definition c_bang := 33.  Definition c_caret := 94.
Definition c_dash := 45.  Definition c_slash := 47. Definition c_hash := 35.
Definition c_space := 32. Definition c_nl := 10.    Definition c_cr := 13.
(* std::path::is_separator on Unix *)
Definition is_sep (b : byte) : bool := N.eqb b c_slash.

Record wc := { w_g : N; w_p : N }.                       (* struct Wildcard *)
Record st := { gi : N; pi_ : N; wild : wc; gstar : wc }. (* struct State *)

Definition unescape_char (c : byte) : byte :=
  if N.eqb c 97 then 97 else if N.eqb c 98 then 8 else if N.eqb c 110 then 10
  else if N.eqb c 114 then 13 else if N.eqb c 116 then 9 else c.

(* fn unescape: [None] is "return false"; otherwise the character and the new glob_index *)
Definition unescape (glob : bytes) (c : byte) (g : N) : option (byte * N) :=
  if N.eqb c c_bs then
    let g' := g + 1 in
    if lenN glob <=? g' then None else Some (unescape_char (at_ glob g'), g')
  else Some (c, g).

Fixpoint slice_eq_from (glob : bytes) (i : N) (pat : bytes) : bool :=
  match pat with
  | [] => true
  | x :: r => match nthN glob i with Some y => N.eqb x y && slice_eq_from glob (i + 1) r | None => false end
  end.

(* while glob_index + 4 <= glob.len() && glob[glob_index..glob_index+4] == "/**/" { glob_index += 3 } *)
Fixpoint skip_mid (fuel : nat) (glob : bytes) (g : N) : N :=
  match fuel with
  | O => g
  | S f => if (g + 4 <=? lenN glob) && slice_eq_from glob g [c_slash; c_star; c_star; c_slash]
           then skip_mid f glob (g + 3) else g
  end.

(* State::skip_globstars; the loop advances by 3 each round, so |glob| rounds always suffice *)
Definition skip_globstars (glob : bytes) (g0 : N) : N :=
  let g := skip_mid (length glob) glob (g0 + 2) in
  let g := if N.eqb (g + 3) (lenN glob) && slice_eq_from glob g [c_slash; c_star; c_star] then g + 3 else g in
  g - 2.

(* while path_index < path.len() && !is_separator(path[path_index]) { path_index += 1 } *)
Fixpoint scan_sep (fuel : nat) (path : bytes) (p : N) : N :=
  match fuel with
  | O => p
  | S f => if (p <? lenN path) && negb (is_sep (at_ path p)) then scan_sep f path (p + 1) else p
  end.

(* the [...] loop: [None] is "return false"; otherwise (is_match, glob_index after the loop).
   Every round advances glob_index, so |glob| rounds always suffice. *)
Fixpoint class_loop (fuel : nat) (glob : bytes) (c : byte) (g : N) (first is_match : bool)
  : option (bool * N) :=
  match fuel with
  | O => Some (is_match, g)
  | S f =>
    if (g <? lenN glob) && (first || negb (N.eqb (at_ glob g) c_rb)) then
      match unescape glob (at_ glob g) g with
      | None => None
      | Some (low, g1) =>
        let g2 := g1 + 1 in
        if (g2 + 1 <? lenN glob) && N.eqb (at_ glob g2) c_dash && negb (N.eqb (at_ glob (g2 + 1)) c_rb) then
          let g3 := g2 + 1 in
          match unescape glob (at_ glob g3) g3 with
          | None => None
          | Some (high, g4) =>
            class_loop f glob c (g4 + 1) false (is_match || ((low <=? c) && (c <=? high)))
          end
        else class_loop f glob c g2 false (is_match || ((low <=? c) && (c <=? low)))
      end
    else Some (is_match, g)
  end.

Inductive res := Done (b : bool) | Cont (s : st).

(* the tail of the loop body: backtrack to the last wildcard or return [negated] *)
Definition backtrack_or (negated : bool) (path : bytes) (s : st) : res :=
  if (0 <? w_p (wild s)) && (w_p (wild s) <=? lenN path)
  then Cont {| gi := w_g (wild s); pi_ := w_p (wild s); wild := wild s; gstar := gstar s |}
  else Done negated.

(* one iteration of the main [while] loop *)
Definition body (negated : bool) (glob path : bytes) (s : st) : res :=
  let glen := lenN glob in
  let plen := lenN path in
  if negb ((gi s <? glen) || (pi_ s <? plen)) then Done (negb negated) else
  if gi s <? glen then
    let c := at_ glob (gi s) in
    if N.eqb c c_star then
      let is_globstar := (gi s + 1 <? glen) && N.eqb (at_ glob (gi s + 1)) c_star in
      let g0 := if is_globstar then skip_globstars glob (gi s) else gi s in
      let w := {| w_g := g0; w_p := pi_ s + 1 |} in
      if is_globstar then
        let g2 := g0 + 2 in
        let is_end_invalid := negb (N.eqb g2 glen) in
        if ((g2 <? 3) || N.eqb (at_ glob (g2 - 3)) c_slash)
           && (negb is_end_invalid || N.eqb (at_ glob g2) c_slash) then
          let g3 := if is_end_invalid then g2 + 1 else g2 in
          (* skip_to_separator *)
          if N.eqb (pi_ s) plen then
            Cont {| gi := g3; pi_ := pi_ s; wild := {| w_g := g0; w_p := pi_ s + 2 |}; gstar := gstar s |}
          else
            let p := scan_sep (length path) path (pi_ s) in
            let p := if is_end_invalid || negb (N.eqb p plen) then p + 1 else p in
            let w' := {| w_g := g0; w_p := p |} in
            Cont {| gi := g3; pi_ := pi_ s; wild := w'; gstar := w' |}
        else
          let w2 := if (pi_ s <? plen) && is_sep (at_ path (pi_ s)) then gstar s else w in
          Cont {| gi := g2; pi_ := pi_ s; wild := w2; gstar := gstar s |}
      else
        let w2 := if (pi_ s <? plen) && is_sep (at_ path (pi_ s)) then gstar s else w in
        Cont {| gi := g0 + 1; pi_ := pi_ s; wild := w2; gstar := gstar s |}
    else if N.eqb c c_q && (pi_ s <? plen) then
      if negb (is_sep (at_ path (pi_ s)))
      then Cont {| gi := gi s + 1; pi_ := pi_ s + 1; wild := wild s; gstar := gstar s |}
      else backtrack_or negated path s
    else if N.eqb c c_lb && (pi_ s <? plen) then
      let g1 := gi s + 1 in
      let '(neg, g2) := if (g1 <? glen) && (N.eqb (at_ glob g1) c_caret || N.eqb (at_ glob g1) c_bang)
                        then (true, g1 + 1) else (false, g1) in
      match class_loop (length glob) glob (at_ path (pi_ s)) g2 true false with
      | None => Done false
      | Some (is_match, g3) =>
        if glen <=? g3 then Done false else
        let g4 := g3 + 1 in
        if negb (Bool.eqb is_match neg)
        then Cont {| gi := g4; pi_ := pi_ s + 1; wild := wild s; gstar := gstar s |}
        else backtrack_or negated path {| gi := g4; pi_ := pi_ s; wild := wild s; gstar := gstar s |}
      end
    else if pi_ s <? plen then
      match unescape glob c (gi s) with
      | None => Done false
      | Some (c', g1) =>
        let is_match := if N.eqb c' c_slash then is_sep (at_ path (pi_ s)) else N.eqb (at_ path (pi_ s)) c' in
        if is_match then
          Cont {| gi := g1 + 1; pi_ := pi_ s + 1;
                  wild := if N.eqb c' c_slash then gstar s else wild s; gstar := gstar s |}
        else backtrack_or negated path {| gi := g1; pi_ := pi_ s; wild := wild s; gstar := gstar s |}
      end
    else backtrack_or negated path s
  else backtrack_or negated path s.

Fixpoint loop (fuel : nat) (negated : bool) (glob path : bytes) (s : st) : option bool :=
  match fuel with
  | O => None                                  (* OutOfFuel *)
  | S f => match body negated glob path s with
           | Done b => Some b
           | Cont s' => loop f negated glob path s'
           end
  end.

(* the leading run of '!' *)
Fixpoint skip_bangs (fuel : nat) (glob : bytes) (g : N) (neg : bool) : N * bool :=
  match fuel with
  | O => (g, neg)
  | S f => if (g <? lenN glob) && N.eqb (at_ glob g) c_bang then skip_bangs f glob (g + 1) (negb neg) else (g, neg)
  end.

Definition st0 (g : N) : st :=
  {| gi := g; pi_ := 0; wild := {| w_g := 0; w_p := 0 |}; gstar := {| w_g := 0; w_p := 0 |} |}.

Definition glob_match_fuel (fuel : nat) (glob path : bytes) : option bool :=
  let '(g, neg) := skip_bangs (length glob) glob 0 false in
  loop fuel neg glob path (st0 g).

Definition default_fuel (glob path : bytes) : nat :=
  ((length glob + 2) * (length path + 2) * (length path + 2) + 16)%nat.

(* [None] = OutOfFuel (never observed in the correspondence runs; reported there if it happens) *)
Definition glob_match (glob path : bytes) : option bool :=
  glob_match_fuel (default_fuel glob path) glob path.

(* the boolean the walker model uses: an out-of-fuel run is NOT a match, and the correspondence
   check (globdrv vs globmodel) reports every OutOfFuel separately *)
Definition glob_matches (glob path : bytes) : bool :=
  match glob_match glob path with Some true => true | _ => false end.
