(* The transliterated matcher finds a directory: "**/<name>/**" -- the glob Pattern::new builds for the
   ignore line "<name>/" -- matches every string that ends in "/<name>/", for a name of plain bytes (no
   metacharacter, no separator).  This is what IgnoreRules::check_dir relies on when it shows the path of a
   directory with a final slash to the directory-only patterns (repair of P37).
   The run of the matcher: the leading globstar remembers the start of the next component; the literal
   name is tried against each component in turn and falls back to the remembered position when the
   component is another name; at the first component that is <name> the '/' matches as well and the
   trailing globstar swallows whatever is left, component by component. *)
From Coq Require Import List NArith Bool Lia Arith.
From XV Require Import Glob.Match Glob.LastComponent.
Import ListNotations.
Open Scope N_scope.

(* one step on the glob byte '/' *)
Lemma body_slash g P gI pI W GS :
  gI < lenN g -> at_ g gI = c_slash -> pI < lenN P ->
  body false g P {| gi := gI; pi_ := pI; wild := W; gstar := GS |} =
  if is_sep (at_ P pI) then Cont {| gi := gI + 1; pi_ := pI + 1; wild := GS; gstar := GS |}
  else backtrack_or false P {| gi := gI; pi_ := pI; wild := W; gstar := GS |}.
Proof.
  intros Hg Hc Hp. unfold body. cbn [gi pi_ wild gstar].
  apply N.ltb_lt in Hg. apply N.ltb_lt in Hp. rewrite Hg, Hp, Hc. cbn [orb negb andb].
  change (N.eqb c_slash c_star) with false. change (N.eqb c_slash c_q) with false. change (N.eqb c_slash c_lb) with false.
  cbn [andb]. unfold unescape. change (N.eqb c_slash c_bs) with false. cbv iota. change (N.eqb c_slash c_slash) with true. cbv iota.
  destruct (is_sep (at_ P pI)); reflexivity.
Qed.

Lemma scan_sep_bounds P : forall fuel p, p <= scan_sep fuel P p /\ (p <= lenN P -> scan_sep fuel P p <= lenN P).
Proof.
  induction fuel as [|f IH]; intros p; cbn [scan_sep]; [split; lia|].
  destruct (p <? lenN P) eqn:E; cbn [andb]; [|split; lia].
  destruct (negb (is_sep (at_ P p))); [|split; lia].
  apply N.ltb_lt in E. destruct (IH (p + 1)) as [A B]. split; [lia|]. intros _. apply B. lia.
Qed.

Section DirComponent.
Variable n0 : byte.
Variable n' : bytes.
Let n := n0 :: n'.
Hypothesis Hplain : Forall plain n.
Let g := c_star :: c_star :: c_slash :: n ++ [c_slash; c_star; c_star].
(* the index of the trailing globstar *)
Let G := 4 + lenN n.

Lemma d_plain_n0 : plain n0.
Proof. inversion Hplain. assumption. Qed.

Lemma d_glen : lenN g = 6 + lenN n.
Proof. unfold g, lenN. cbn [length]. rewrite app_length. cbn [length]. lia. Qed.

Lemma d_at_lit i : at_ g (3 + i) = at_ (n ++ [c_slash; c_star; c_star]) i.
Proof.
  change g with ([c_star; c_star; c_slash] ++ (n ++ [c_slash; c_star; c_star])).
  change 3 with (lenN [c_star; c_star; c_slash]). apply at_app_r.
Qed.

Lemma d_at_tail i : at_ g (3 + lenN n + i) = at_ [c_slash; c_star; c_star] i.
Proof. rewrite <- N.add_assoc, d_at_lit. apply at_app_r. Qed.

Lemma d_nthN_tail i : nthN g (3 + lenN n + i) = nthN [c_slash; c_star; c_star] i.
Proof.
  change g with ([c_star; c_star; c_slash] ++ (n ++ [c_slash; c_star; c_star])).
  change 3 with (lenN [c_star; c_star; c_slash]). rewrite <- N.add_assoc, nthN_app_r. apply nthN_app_r.
Qed.

Lemma d_n_at n1 y n2 : n = n1 ++ y :: n2 -> at_ g (3 + lenN n1) = y.
Proof. intros E. rewrite d_at_lit, E, <- app_assoc, at_app_r0. reflexivity. Qed.

Lemma d_plain_in y : In y n -> plain y.
Proof. intros H. rewrite Forall_forall in Hplain. apply Hplain. exact H. Qed.

Lemma d_plain_not_sep y : plain y -> is_sep y = false.
Proof. intros (_ & _ & _ & _ & H). exact H. Qed.

(* ---- the leading globstar ------------------------------------------------------------------------- *)
Lemma d_skip_globstars_0 : skip_globstars g 0 = 0.
Proof.
  destruct d_plain_n0 as (H1 & _).
  assert (E : N.eqb c_star n0 = false) by (rewrite N.eqb_sym; exact H1).
  assert (S1 : forall l, slice_eq_from g 2 (c_slash :: c_star :: l) = false).
  { intros l. cbn [slice_eq_from]. change (nthN g 2) with (Some c_slash). change (nthN g (2 + 1)) with (Some n0).
    cbv iota beta. rewrite E. cbn [andb]. apply andb_false_r. }
  unfold skip_globstars. change (0 + 2) with 2.
  assert (M : skip_mid (@length byte g) g 2 = 2).
  { unfold g. cbn [length skip_mid]. fold n. fold g. rewrite S1, andb_false_r. reflexivity. }
  rewrite M. rewrite S1, andb_false_r. reflexivity.
Qed.

Lemma d_body_star P pI W GS : pI < lenN P ->
  body false g P {| gi := 0; pi_ := pI; wild := W; gstar := GS |} =
  Cont {| gi := 3; pi_ := pI;
          wild := {| w_g := 0; w_p := scan_sep (length P) P pI + 1 |};
          gstar := {| w_g := 0; w_p := scan_sep (length P) P pI + 1 |} |}.
Proof.
  intros Hp. unfold body. cbn [gi pi_ wild gstar].
  assert (G0 : 0 <? lenN g = true) by (apply N.ltb_lt; rewrite d_glen; lia).
  assert (G1 : 0 + 1 <? lenN g = true) by (apply N.ltb_lt; rewrite d_glen; lia).
  rewrite G0. cbn [orb negb]. change (at_ g 0) with c_star. change (at_ g (0 + 1)) with c_star.
  rewrite G1. change (N.eqb c_star c_star) with true. cbn [andb]. rewrite d_skip_globstars_0.
  change (0 + 2) with 2. change (2 <? 3) with true. cbn [orb]. change (at_ g 2) with c_slash.
  assert (G2 : N.eqb 2 (lenN g) = false) by (apply N.eqb_neq; rewrite d_glen; lia).
  rewrite G2. cbn [negb andb orb]. change (N.eqb c_slash c_slash) with true. cbn [andb].
  assert (Hne : N.eqb pI (lenN P) = false) by (apply N.eqb_neq; lia).
  rewrite Hne. change (2 + 1) with 3. reflexivity.
Qed.

(* ---- the trailing globstar swallows the rest of the path ------------------------------------------- *)
Lemma d_skip_globstars_G : skip_globstars g G = G.
Proof.
  unfold skip_globstars.
  assert (EG : G + 2 = lenN g) by (unfold G; rewrite d_glen; lia).
  rewrite EG.
  assert (M : forall f, skip_mid f g (lenN g) = lenN g).
  { intros [|f]; [reflexivity|]. cbn [skip_mid]. replace (lenN g + 4 <=? lenN g) with false; [reflexivity|]. symmetry. apply N.leb_gt. lia. }
  rewrite M. replace (N.eqb (lenN g + 3) (lenN g)) with false by (symmetry; apply N.eqb_neq; lia).
  cbn [andb]. lia.
Qed.

Lemma d_body_tail_end P W GS :
  body false g P {| gi := G; pi_ := lenN P; wild := W; gstar := GS |} =
  Cont {| gi := lenN g; pi_ := lenN P; wild := {| w_g := G; w_p := lenN P + 2 |}; gstar := GS |}.
Proof.
  assert (EG : G + 2 = lenN g) by (unfold G; rewrite d_glen; lia).
  unfold body. cbn [gi pi_ wild gstar].
  assert (G0 : G <? lenN g = true) by (apply N.ltb_lt; lia).
  assert (G1 : G + 1 <? lenN g = true) by (apply N.ltb_lt; lia).
  rewrite G0. cbn [orb negb].
  assert (A0 : at_ g G = c_star) by (unfold G; replace (4 + lenN n) with (3 + lenN n + 1) by lia; rewrite d_at_tail; reflexivity).
  assert (A1 : at_ g (G + 1) = c_star) by (unfold G; replace (4 + lenN n + 1) with (3 + lenN n + 2) by lia; rewrite d_at_tail; reflexivity).
  rewrite A0, A1, G1. change (N.eqb c_star c_star) with true. cbn [andb]. rewrite d_skip_globstars_G, EG.
  rewrite N.eqb_refl. cbn [negb orb andb].
  assert (A3 : at_ g (lenN g - 3) = c_slash).
  { replace (lenN g - 3) with (3 + lenN n + 0) by (rewrite d_glen; lia). rewrite d_at_tail. reflexivity. }
  rewrite A3. change (N.eqb c_slash c_slash) with true. rewrite orb_true_r. cbn [andb]. rewrite N.eqb_refl. reflexivity.
Qed.

Lemma d_body_tail P pI W GS : pI < lenN P ->
  exists p', pI < p' /\ p' <= lenN P /\
  body false g P {| gi := G; pi_ := pI; wild := W; gstar := GS |} =
  Cont {| gi := lenN g; pi_ := pI; wild := {| w_g := G; w_p := p' |}; gstar := {| w_g := G; w_p := p' |} |}.
Proof.
  intros Hp.
  assert (EG : G + 2 = lenN g) by (unfold G; rewrite d_glen; lia).
  destruct (scan_sep_bounds P (length P) pI) as [B1 B2]. specialize (B2 (N.lt_le_incl _ _ Hp)).
  set (p := scan_sep (length P) P pI) in *.
  exists (if N.eqb p (lenN P) then p else p + 1). split; [|split].
  - destruct (N.eqb_spec p (lenN P)); lia.
  - destruct (N.eqb_spec p (lenN P)); lia.
  - unfold body. cbn [gi pi_ wild gstar].
    assert (G0 : G <? lenN g = true) by (apply N.ltb_lt; lia).
    assert (G1 : G + 1 <? lenN g = true) by (apply N.ltb_lt; lia).
    rewrite G0. cbn [orb negb].
    assert (A0 : at_ g G = c_star) by (unfold G; replace (4 + lenN n) with (3 + lenN n + 1) by lia; rewrite d_at_tail; reflexivity).
    assert (A1 : at_ g (G + 1) = c_star) by (unfold G; replace (4 + lenN n + 1) with (3 + lenN n + 2) by lia; rewrite d_at_tail; reflexivity).
    rewrite A0, A1, G1. change (N.eqb c_star c_star) with true. cbn [andb]. rewrite d_skip_globstars_G, EG.
    rewrite N.eqb_refl. cbn [negb orb andb].
    assert (A3 : at_ g (lenN g - 3) = c_slash).
    { replace (lenN g - 3) with (3 + lenN n + 0) by (rewrite d_glen; lia). rewrite d_at_tail. reflexivity. }
    rewrite A3. change (N.eqb c_slash c_slash) with true. rewrite orb_true_r. cbn [andb].
    assert (Hne : N.eqb pI (lenN P) = false) by (apply N.eqb_neq; lia). rewrite Hne. fold p.
    destruct (N.eqb p (lenN P)); reflexivity.
Qed.

Lemma d_swallow P : forall m pI W GS, (N.to_nat (lenN P - pI) <= m)%nat -> pI <= lenN P ->
  loop (2 * m + 2) false g P {| gi := G; pi_ := pI; wild := W; gstar := GS |} = Some true.
Proof.
  induction m as [|m IH]; intros pI W GS Hm Hle.
  - assert (pI = lenN P) by lia. subst pI. change (2 * 0 + 2)%nat with 2%nat.
    erewrite loop_S; [|apply d_body_tail_end]. apply loop_done. apply body_both_end.
  - destruct (N.eq_dec pI (lenN P)) as [->|Hne].
    + replace (2 * S m + 2)%nat with (S (S (2 * m + 2))) by lia.
      erewrite loop_S; [|apply d_body_tail_end]. apply loop_done. apply body_both_end.
    + assert (Hp : pI < lenN P) by lia.
      destruct (d_body_tail P pI W GS Hp) as (p' & H1 & H2 & Hb).
      replace (2 * S m + 2)%nat with (S (S (2 * m + 2))) by lia.
      erewrite loop_S; [|exact Hb].
      erewrite loop_S; [|rewrite body_glob_end by exact Hp; apply backtrack_to; cbn [wild w_p]; lia].
      cbn [wild gstar w_g w_p]. apply IH; lia.
Qed.

(* ---- the literal name against one component ----------------------------------------------------------- *)
(* the component is <name> and a separator follows: the name and the '/' are consumed *)
Lemma d_lit_ok pre Y : forall n2 n1 W GS f, n = n1 ++ n2 ->
  loop (S (length n2) + f) false g (pre ++ n1 ++ n2 ++ c_slash :: Y)
       {| gi := 3 + lenN n1; pi_ := lenN pre + lenN n1; wild := W; gstar := GS |}
  = loop f false g (pre ++ n1 ++ n2 ++ c_slash :: Y)
       {| gi := G; pi_ := lenN pre + lenN n + 1; wild := GS; gstar := GS |}.
Proof.
  induction n2 as [|y n2 IH]; intros n1 W GS f En.
  - rewrite app_nil_r in En. subst n1. cbn [length Nat.add app].
    assert (Hgi : 3 + lenN n < lenN g) by (rewrite d_glen; lia).
    assert (Hat : at_ g (3 + lenN n) = c_slash) by (rewrite <- (N.add_0_r (3 + lenN n)), d_at_tail; reflexivity).
    assert (Hpi : lenN pre + lenN n < lenN (pre ++ n ++ c_slash :: Y)) by (rewrite !lenN_app, lenN_cons; lia).
    assert (Hb := body_slash g _ _ _ W GS Hgi Hat Hpi).
    rewrite at_app_r, at_app_r0, at_cons0 in Hb. change (is_sep c_slash) with true in Hb. cbv iota in Hb.
    erewrite loop_S; [|exact Hb].
    unfold G. replace (3 + lenN n + 1) with (4 + lenN n) by lia. reflexivity.
  - assert (Hy : plain y) by (apply d_plain_in; rewrite En; apply in_or_app; right; left; reflexivity).
    set (P := pre ++ n1 ++ (y :: n2) ++ c_slash :: Y).
    assert (Hpi : lenN pre + lenN n1 < lenN P) by (unfold P; rewrite !lenN_app, !lenN_cons; lia).
    assert (Hgi : 3 + lenN n1 < lenN g) by (rewrite d_glen, En, lenN_app, lenN_cons; lia).
    assert (Hat : at_ P (lenN pre + lenN n1) = y) by (unfold P; rewrite at_app_r, at_app_r0; reflexivity).
    assert (Hb := body_plain g P (3 + lenN n1) (lenN pre + lenN n1) W GS y Hgi (d_n_at n1 y n2 En) Hy Hpi).
    rewrite Hat, N.eqb_refl in Hb. cbn [length Nat.add]. erewrite loop_S; [|exact Hb].
    specialize (IH (n1 ++ [y]) W GS f). rewrite <- !app_assoc in IH. cbn [app] in IH. rewrite lenN_app, lenN_cons, lenN_nil in IH.
    replace (3 + lenN n1 + 1) with (3 + (lenN n1 + (1 + 0))) by lia.
    replace (lenN pre + lenN n1 + 1) with (lenN pre + (lenN n1 + (1 + 0))) by lia.
    unfold P. cbn [app]. apply IH. exact En.
Qed.

(* the component is another name: the attempt falls back to the remembered start of the next component *)
Lemma d_lit_fail pre rest : forall n2 n1 c2 W GS,
  n = n1 ++ n2 -> noslash c2 -> c2 <> n2 -> w_g W = 0 -> 0 < w_p W -> w_p W <= lenN (pre ++ n1 ++ c2 ++ c_slash :: rest) ->
  exists m, (m <= S (length n2))%nat /\
    forall f, loop (m + f) false g (pre ++ n1 ++ c2 ++ c_slash :: rest)
                {| gi := 3 + lenN n1; pi_ := lenN pre + lenN n1; wild := W; gstar := GS |}
            = loop f false g (pre ++ n1 ++ c2 ++ c_slash :: rest) {| gi := 0; pi_ := w_p W; wild := W; gstar := GS |}.
Proof.
  induction n2 as [|y n2 IH]; intros n1 c2 W GS En Hns Hne Hg0 Hw0 Hw1.
  - (* the whole name is consumed, the component goes on: the '/' of the glob meets another byte *)
    rewrite app_nil_r in En. subst n1. destruct c2 as [|z c2]; [contradiction|].
    exists 1%nat. split; [cbn [length]; lia|]. intros f. cbn [Nat.add].
    set (P := pre ++ n ++ (z :: c2) ++ c_slash :: rest) in *.
    assert (Hgi : 3 + lenN n < lenN g) by (rewrite d_glen; lia).
    assert (Hat : at_ g (3 + lenN n) = c_slash) by (rewrite <- (N.add_0_r (3 + lenN n)), d_at_tail; reflexivity).
    assert (Hpi : lenN pre + lenN n < lenN P) by (unfold P; rewrite !lenN_app, !lenN_cons; lia).
    erewrite loop_S; [reflexivity|]. rewrite (body_slash g P _ _ W GS Hgi Hat Hpi).
    assert (Hz : at_ P (lenN pre + lenN n) = z) by (unfold P; rewrite at_app_r, at_app_r0; reflexivity).
    rewrite Hz, (Hns z (or_introl eq_refl)). cbv iota.
    rewrite backtrack_to by assumption. cbn [wild gstar]. rewrite Hg0. reflexivity.
  - assert (Hy : plain y) by (apply d_plain_in; rewrite En; apply in_or_app; right; left; reflexivity).
    set (P := pre ++ n1 ++ c2 ++ c_slash :: rest) in *.
    assert (Hpi : lenN pre + lenN n1 < lenN P) by (unfold P; rewrite !lenN_app, lenN_cons; lia).
    assert (Hgi : 3 + lenN n1 < lenN g) by (rewrite d_glen, En, lenN_app, lenN_cons; lia).
    assert (Hb := body_plain g P (3 + lenN n1) (lenN pre + lenN n1) W GS y Hgi (d_n_at n1 y n2 En) Hy Hpi).
    destruct c2 as [|z c2].
    + (* the component is a proper prefix of the name: the next path byte is the separator *)
      assert (Hat : at_ P (lenN pre + lenN n1) = c_slash) by (unfold P; cbn [app]; rewrite at_app_r, at_app_r0; reflexivity).
      rewrite Hat in Hb.
      assert (Hys : N.eqb c_slash y = false).
      { apply d_plain_not_sep in Hy. unfold is_sep in Hy. rewrite N.eqb_sym. exact Hy. }
      rewrite Hys in Hb.
      exists 1%nat. split; [cbn [length]; lia|]. intros f. cbn [Nat.add]. erewrite loop_S; [reflexivity|]. rewrite Hb.
      rewrite backtrack_to by assumption. cbn [wild gstar]. rewrite Hg0. reflexivity.
    + assert (Hat : at_ P (lenN pre + lenN n1) = z) by (unfold P; rewrite at_app_r, at_app_r0; reflexivity).
      rewrite Hat in Hb. destruct (N.eqb_spec z y) as [->|Hzy].
      * destruct (IH (n1 ++ [y]) c2 W GS) as (m & Hm & Hl).
        -- rewrite <- app_assoc. exact En.
        -- intros b Hb'. apply Hns. right. exact Hb'.
        -- intros E. apply Hne. rewrite E. reflexivity.
        -- exact Hg0.
        -- exact Hw0.
        -- rewrite <- app_assoc. exact Hw1.
        -- exists (S m). split; [cbn [length]; lia|]. intros f. cbn [Nat.add]. erewrite loop_S; [|exact Hb].
           specialize (Hl f). rewrite <- !app_assoc in Hl. cbn [app] in Hl. rewrite lenN_app, lenN_cons, lenN_nil in Hl.
           replace (3 + lenN n1 + 1) with (3 + (lenN n1 + (1 + 0))) by lia.
           replace (lenN pre + lenN n1 + 1) with (lenN pre + (lenN n1 + (1 + 0))) by lia. exact Hl.
      * exists 1%nat. split; [cbn [length]; lia|]. intros f. cbn [Nat.add]. erewrite loop_S; [reflexivity|]. rewrite Hb.
        rewrite backtrack_to by assumption. cbn [wild gstar]. rewrite Hg0. reflexivity.
Qed.

(* ---- the whole run ---------------------------------------------------------------------------------------- *)
(* a string in which some component is <name> followed by a separator *)
Inductive d_tail_ok : bytes -> Prop :=
| DT_here Y : d_tail_ok (n ++ c_slash :: Y)
| DT_more comp rest : noslash comp -> d_tail_ok rest -> d_tail_ok (comp ++ c_slash :: rest).

Lemma d_n_noslash : noslash n.
Proof. intros b Hb. apply d_plain_not_sep. apply d_plain_in. exact Hb. Qed.

Lemma d_found pre Y W GS :
  loop (S (S (length n)) + (2 * length (pre ++ n ++ c_slash :: Y) + 2)) false g (pre ++ n ++ c_slash :: Y)
       {| gi := 0; pi_ := lenN pre; wild := W; gstar := GS |} = Some true.
Proof.
  set (P := pre ++ n ++ c_slash :: Y).
  assert (Hp : lenN pre < lenN P) by (unfold P; rewrite !lenN_app, lenN_cons; unfold n; rewrite lenN_cons; lia).
  cbn [Nat.add]. erewrite loop_S; [|apply d_body_star; exact Hp].
  assert (H := d_lit_ok pre Y n [] {| w_g := 0; w_p := scan_sep (length P) P (lenN pre) + 1 |}
                       {| w_g := 0; w_p := scan_sep (length P) P (lenN pre) + 1 |} (2 * length P + 2) eq_refl).
  cbn [app] in H. rewrite lenN_nil, !N.add_0_r in H. fold P in H. cbn [Nat.add] in H. rewrite H.
  apply d_swallow.
  - unfold lenN. lia.
  - unfold P. rewrite !lenN_app, lenN_cons. lia.
Qed.

Lemma d_main_loop R : d_tail_ok R -> forall pre W GS,
  exists m, (m <= (length R + 1) * (length n + 3) + 2 * length (pre ++ R) + 4)%nat /\
            loop m false g (pre ++ R) {| gi := 0; pi_ := lenN pre; wild := W; gstar := GS |} = Some true.
Proof.
  induction 1 as [Y|comp rest Hc Ht IH]; intros pre W GS.
  - eexists. split; [|apply d_found]. rewrite !app_length. cbn [length]. nia.
  - destruct (list_eq_dec N.eq_dec comp n) as [->|Hcn].
    + eexists. split; [|apply d_found]. rewrite !app_length. cbn [length]. nia.
    + set (P := pre ++ comp ++ c_slash :: rest).
      assert (Hp : lenN pre < lenN P) by (unfold P; rewrite !lenN_app, lenN_cons; lia).
      assert (Hs : scan_sep (length P) P (lenN pre) = lenN pre + lenN comp).
      { assert (H := scan_sep_comp pre (c_slash :: rest) eq_refl comp [] (length P)). cbn [app] in H. rewrite lenN_nil, N.add_0_r in H.
        apply H; [|exact Hc]. unfold P. rewrite !app_length. lia. }
      set (Wn := {| w_g := 0; w_p := lenN pre + lenN comp + 1 |}).
      destruct (d_lit_fail pre rest n [] comp Wn Wn eq_refl Hc Hcn) as (m1 & Hm1 & Hl1).
      * reflexivity.
      * cbn [w_p Wn]. lia.
      * cbn [w_p Wn app]. rewrite !lenN_app, lenN_cons. lia.
      * destruct (IH (pre ++ comp ++ [c_slash]) Wn Wn) as (m2 & Hm2 & Hl2).
        exists (S (m1 + m2)). split.
        -- rewrite <- !app_assoc in Hm2. cbn [app] in Hm2. unfold P. rewrite ?app_length in *. cbn [length] in *. rewrite ?app_length in *. cbn [length] in *. nia.
        -- erewrite loop_S; [|apply d_body_star; exact Hp]. fold P. rewrite Hs. fold Wn.
           specialize (Hl1 m2). cbn [app] in Hl1. rewrite lenN_nil, !N.add_0_r in Hl1. fold P in Hl1. rewrite Hl1.
           cbn [w_p Wn]. rewrite <- !app_assoc in Hl2. cbn [app] in Hl2. fold P in Hl2.
           assert (E : lenN (pre ++ comp ++ [c_slash]) = lenN pre + lenN comp + 1) by (rewrite !lenN_app; change (lenN [c_slash]) with 1; lia).
           rewrite E in Hl2. exact Hl2.
Qed.

Lemma d_tail_ok_any : forall k (X : bytes), (length X <= k)%nat -> d_tail_ok (X ++ c_slash :: n ++ [c_slash]).
Proof.
  induction k as [|k IH]; intros X Hk.
  - destruct X; [|cbn in Hk; lia]. apply (DT_more [] (n ++ [c_slash])); [intros b []|apply DT_here].
  - destruct (split_slash X) as [Hn|(comp & X' & -> & Hc)].
    + apply DT_more; [exact Hn|apply DT_here].
    + rewrite <- app_assoc. cbn [app]. apply DT_more; [exact Hc|]. apply IH. rewrite app_length in Hk. cbn [length] in Hk. unfold bytes, byte in *. lia.
Qed.

Lemma glob_matches_dir_component (X : bytes) : glob_matches g (X ++ c_slash :: n ++ [c_slash]) = true.
Proof.
  set (P := X ++ c_slash :: n ++ [c_slash]).
  destruct (d_main_loop _ (d_tail_ok_any (length X) X (le_n _)) [] {| w_g := 0; w_p := 0 |} {| w_g := 0; w_p := 0 |}) as (m & Hm & Hl).
  cbn [app] in Hl, Hm. fold P in Hl, Hm. unfold glob_matches, glob_match, glob_match_fuel.
  assert (Hb : skip_bangs (@length byte g) g 0 false = (0, false)) by reflexivity.
  rewrite Hb. unfold st0.
  rewrite (loop_mono m (default_fuel g P) false g _ _ true); [reflexivity| |exact Hl].
  assert (Hg : @length byte g = (length n + 6)%nat) by (unfold g; cbn [length]; rewrite app_length; cbn [length]; lia).
  unfold default_fuel. unfold bytes, byte in *. rewrite Hg. nia.
Qed.
End DirComponent.
