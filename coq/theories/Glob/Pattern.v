(* M-GLOB, part 2: ignore-file lines.
   [pattern_new] mirrors xvc-walker [Pattern::new] (walker/src/pattern.rs),
   [content_to_patterns] mirrors walker/src/lib.rs [content_to_patterns] (str::lines, blank lines,
   comments, trailing blanks), [applies] is the locality test of the P17 fix in
   [IgnoreRules::check] (walker/src/ignore_rules.rs), consulted only when [fixed_P17 = true].
   Strings are byte lists holding valid UTF-8 (a Rust &str); every test of the Rust code on
   characters ('!', '/', '#', '\\', white space) is a test on their UTF-8 bytes here: the ASCII ones
   are single bytes that never occur inside a multi-byte sequence, and [ws_len] knows the UTF-8
   encodings of the non-ASCII characters with the Unicode property White_Space (what str::trim_end
   and str::trim strip).  A line whose last character is multi-byte made [Pattern::new] panic at
   `line[..line.len() - 1]` (finding P36): [pattern_new_panics fixed_P36] says when; with the repair
   (the last CHARACTER is dropped) the result is the one [pattern_new] computes on bytes, because
   no byte of a multi-byte sequence is '/'.
   No proofs in this file. *)
From Coq Require Import List NArith Bool.
From XV Require Import Glob.Match.
Import ListNotations.
Open Scope N_scope.

(* ---- byte-string helpers ------------------------------------------------------------------ *)
Fixpoint bytes_eqb (a b : bytes) : bool :=
  match a, b with
  | [], [] => true
  | x :: a', y :: b' => N.eqb x y && bytes_eqb a' b'
  | _, _ => false
  end.

(* str::strip_prefix *)
Fixpoint strip_prefix (pre s : bytes) : option bytes :=
  match pre, s with
  | [], _ => Some s
  | x :: pre', y :: s' => if N.eqb x y then strip_prefix pre' s' else None
  | _ :: _, [] => None
  end.

Definition starts_with (c : byte) (s : bytes) : bool :=
  match s with x :: _ => N.eqb x c | [] => false end.

(* char::is_whitespace restricted to ASCII: \t \n \v \f \r and space *)
Definition is_ws (b : byte) : bool := ((9 <=? b) && (b <=? 13)) || N.eqb b 32.

(* drop the longest suffix of bytes satisfying f  (str::trim_end / trim_end_matches) *)
Fixpoint trim_end_by (f : byte -> bool) (s : bytes) : bytes :=
  match s with
  | [] => []
  | x :: r => match trim_end_by f r with
              | [] => if f x then [] else [x]
              | r' => x :: r'
              end
  end.
Fixpoint trim_start_by (f : byte -> bool) (s : bytes) : bytes :=
  match s with
  | [] => []
  | x :: r => if f x then trim_start_by f r else s
  end.
(* char::is_whitespace = the Unicode property White_Space.  [ws_len r]: the number of bytes of the white-space
   character that ENDS the string whose reversal is r (0 = the string does not end in white space):
   ASCII \t \n \v \f \r ' ' | U+0085 (C2 85) | U+00A0 (C2 A0) | U+1680 (E1 9A 80) | U+2000..U+200A (E2 80 80..8A)
   | U+2028 U+2029 (E2 80 A8/A9) | U+202F (E2 80 AF) | U+205F (E2 81 9F) | U+3000 (E3 80 80) *)
Definition ws_len (r : bytes) : nat :=
  match r with
  | [] => O
  | b :: r1 =>
    if is_ws b then 1%nat else
    match r1 with
    | [] => O
    | b1 :: r2 =>
      if N.eqb b1 194 && (N.eqb b 133 || N.eqb b 160) then 2%nat else
      match r2 with
      | [] => O
      | b2 :: _ =>
        if N.eqb b2 225 && N.eqb b1 154 && N.eqb b 128 then 3%nat
        else if N.eqb b2 226 && N.eqb b1 128 &&
                (((128 <=? b) && (b <=? 138)) || N.eqb b 168 || N.eqb b 169 || N.eqb b 175) then 3%nat
        else if N.eqb b2 226 && N.eqb b1 129 && N.eqb b 159 then 3%nat
        else if N.eqb b2 227 && N.eqb b1 128 && N.eqb b 128 then 3%nat
        else O
      end
    end
  end.
(* every round removes at least one byte, so |r| rounds always suffice *)
Fixpoint drop_ws_rev (fuel : nat) (r : bytes) : bytes :=
  match fuel with
  | O => r
  | S f => match ws_len r with O => r | k => drop_ws_rev f (skipn k r) end
  end.
(* str::trim_end *)
Definition trim_end (s : bytes) : bytes := rev (drop_ws_rev (length s) (rev s)).
(* line.trim().is_empty(): nothing but white space *)
Definition all_ws (s : bytes) : bool := match trim_end s with [] => true | _ => false end.

Fixpoint last_byte (s : bytes) : option byte :=
  match s with [] => None | [x] => Some x | _ :: r => last_byte r end.
Definition ends_with (c : byte) (s : bytes) : bool :=
  match last_byte s with Some x => N.eqb x c | None => false end.
(* line.ends_with("\\ ") *)
Fixpoint ends_with_bs_space (s : bytes) : bool :=
  match s with
  | [] => false
  | [a; b] => N.eqb a c_bs && N.eqb b c_space
  | _ :: r => ends_with_bs_space r
  end.
(* s[..len-1] *)
Fixpoint drop_last (s : bytes) : bytes :=
  match s with [] => [] | [_] => [] | x :: r => x :: drop_last r end.

(* ---- Pattern --------------------------------------------------------------------------------- *)
(* Source::Global, or Source::File given by the string of [path.parent()] of the ignore file
   relative to the ignore root ("" at the root, "a/b" below).  Source::CommandLine is not used by
   the walkers. *)
Inductive source := SGlobal | SFile (dir : bytes).

Record pattern := {
  p_glob : bytes;            (* Pattern::glob *)
  p_white : bool;            (* effect = Whitelist *)
  p_src : source;
  p_rel : option bytes;      (* relativity: None = Anywhere, Some d = RelativeTo{directory: d} *)
  p_dironly : bool           (* path_kind = Directory *)
}.

Definition strip_trailing_blanks (line : bytes) : bytes :=
  if ends_with_bs_space line then line else trim_end line.

(* the line after '!' / '\!' removal, blank trimming and final-slash removal *)
Definition pattern_body (original : bytes) : bytes * bool * bool :=
  let begin_exclamation := starts_with c_bang original in
  let escaped := match original with a :: b :: _ => N.eqb a c_bs && N.eqb b c_bang | _ => false end in
  let line := if begin_exclamation || escaped then tl original else original in
  let line := strip_trailing_blanks line in
  let end_slash := ends_with c_slash line in
  let line := if end_slash then drop_last line else line in
  (line, begin_exclamation, end_slash).

(* `line[..line.len() - 1]` is not on a char boundary when the last character is multi-byte (finding P36);
   [fixed_P36 = true]: the repair drops the last character with chars().next_back(), no panic *)
Definition pattern_new_panics (fixed_P36 : bool) (original : bytes) : bool :=
  if fixed_P36 then false else
  let '(line, _, _) := pattern_body original in
  match last_byte line with Some b => 128 <=? b | None => false end.

Definition pattern_new (src : source) (original : bytes) : pattern :=
  let current_dir := match src with
                     | SGlobal => []
                     | SFile d => if starts_with c_slash d then d else c_slash :: d
                     end in
  let '(line, begin_exclamation, end_slash) := pattern_body original in
  let begin_slash := starts_with c_slash line in
  let non_final_slash := existsb (N.eqb c_slash) (drop_last line) in
  let line := if begin_slash then tl line else line in
  let current_dir := if ends_with c_slash current_dir then drop_last current_dir else current_dir in
  let rel := if non_final_slash then Some current_dir else None in
  (* transform_pattern_for_glob *)
  let star2 := [c_star; c_star] in
  let glob := match end_slash, rel with
              | false, None => star2 ++ [c_slash] ++ line
              | false, Some d => d ++ [c_slash] ++ star2 ++ [c_slash] ++ line
              | true, None => star2 ++ [c_slash] ++ line ++ [c_slash] ++ star2
              | true, Some d => d ++ [c_slash] ++ star2 ++ [c_slash] ++ line ++ [c_slash] ++ star2
              end in
  {| p_glob := glob; p_white := begin_exclamation; p_src := src; p_rel := rel; p_dironly := end_slash |}.

(* ---- content_to_patterns ---------------------------------------------------------------------- *)
(* str::lines: split after every '\n'; a piece that ends in '\n' loses it and then one '\r' *)
Fixpoint lines_aux (cur : bytes) (s : bytes) : list bytes :=
  match s with
  | [] => match cur with [] => [] | _ => [rev cur] end
  | x :: r =>
    if N.eqb x c_nl
    then rev (match cur with c :: cur' => if N.eqb c c_cr then cur' else cur | [] => cur end) :: lines_aux [] r
    else lines_aux (x :: cur) r
  end.
Definition lines (s : bytes) : list bytes := lines_aux [] s.

Definition is_rule_line (line : bytes) : bool := negb (all_ws line || starts_with c_hash line).

Definition content_to_patterns (src : source) (content : bytes) : list pattern :=
  map (fun l => pattern_new src (strip_trailing_blanks l)) (filter is_rule_line (lines content)).
(* content_to_patterns panics when Pattern::new panics on one of the rule lines *)
Definition content_panics (fixed_P36 : bool) (content : bytes) : bool :=
  existsb (fun l => pattern_new_panics fixed_P36 (strip_trailing_blanks l)) (filter is_rule_line (lines content)).

(* ---- the locality test of the P17 fix --------------------------------------------------------- *)
Definition trim_slashes (s : bytes) : bytes := trim_end_by is_sep (trim_start_by is_sep s).

(* a pattern read from the ignore file of directory D is consulted only for paths "D/..." *)
Definition applies (p : pattern) (path : bytes) : bool :=
  match p_src p with
  | SGlobal => true
  | SFile dir =>
    match trim_slashes dir with
    | [] => true
    | d => match strip_prefix d (trim_start_by is_sep path) with
           | Some rest => starts_with c_slash rest
           | None => false
           end
    end
  end.
