(* Proofs about M-STORAGE (Storage/Model.v): closed forms of send and bring when every transfer command
   succeeds, the invariants kept under every fault sequence, and the theorems of C06 derived from them. *)
From Coq Require Import List Bool NArith Lia.
From XV Require Import Base.Amap Base.Bytes Storage.Model.
Import ListNotations.

(* ---- boolean equalities -------------------------------------------------------------------------- *)
Lemma algo_eqb_spec a b : reflect (a = b) (algo_eqb a b).
Proof. destruct a, b; cbn; constructor; congruence. Qed.

Lemma digest_eqb_spec a b : reflect (a = b) (digest_eqb a b).
Proof.
  destruct a as [a1 n1], b as [a2 n2]; unfold digest_eqb; cbn [d_algo d_norm].
  destruct (algo_eqb_spec a1 a2) as [->|H]; cbn [andb]; [|constructor; congruence].
  destruct (beqb_spec n1 n2) as [->|H]; constructor; congruence.
Qed.

Lemma caddr_eqb_spec a b : reflect (a = b) (caddr_eqb a b).
Proof.
  destruct a as [d1 e1], b as [d2 e2]; unfold caddr_eqb; cbn [a_digest a_ext].
  destruct (digest_eqb_spec d1 d2) as [->|H]; cbn [andb]; [|constructor; congruence].
  destruct (beqb_spec e1 e2) as [->|H]; constructor; congruence.
Qed.

Lemma skey_eqb_spec a b : reflect (a = b) (skey_eqb a b).
Proof.
  destruct a as [g1 a1], b as [g2 a2]; unfold skey_eqb; cbn [fst snd].
  destruct (N.eqb_spec g1 g2) as [->|H]; cbn [andb]; [|constructor; congruence].
  destruct (caddr_eqb_spec a1 a2) as [->|H]; constructor; congruence.
Qed.

Lemma caddr_eqb_refl a : caddr_eqb a a = true.
Proof. destruct (caddr_eqb_spec a a); congruence. Qed.
Lemma caddr_eqb_sym a b : caddr_eqb a b = caddr_eqb b a.
Proof. destruct (caddr_eqb_spec a b), (caddr_eqb_spec b a); congruence. Qed.
Lemma caddr_eqb_eq a b : caddr_eqb a b = true -> a = b.
Proof. destruct (caddr_eqb_spec a b); congruence. Qed.
Lemma caddr_eqb_neq a b : a <> b -> caddr_eqb a b = false.
Proof. destruct (caddr_eqb_spec a b); congruence. Qed.

(* ---- maps -------------------------------------------------------------------------------------------- *)
Lemma cget_cput c a b a' : cget (cput c a b) a' = if caddr_eqb a a' then Some b else cget c a'.
Proof. apply (@get_put _ _ _ caddr_eqb_spec). Qed.
Lemma cget_cdel c a a' : cget (cdel c a) a' = if caddr_eqb a a' then None else cget c a'.
Proof. apply (@get_del _ _ _ caddr_eqb_spec). Qed.
Lemma sget_sput s k b k' : sget (sput s k b) k' = if skey_eqb k k' then Some b else sget s k'.
Proof. apply (@get_put _ _ _ skey_eqb_spec). Qed.
Lemma sget_sdel s k k' : sget (sdel s k) k' = if skey_eqb k k' then None else sget s k'.
Proof. apply (@get_del _ _ _ skey_eqb_spec). Qed.
Lemma wget_wput w p e p' : wget (wput w p e) p' = if beqb p p' then Some e else wget w p'.
Proof. apply (@get_put _ _ _ beqb_spec). Qed.

Lemma chas_true c a : chas c a = true <-> exists b, cget c a = Some b.
Proof. unfold chas. destruct (cget c a); split; intros H; try discriminate; eauto. destruct H; discriminate. Qed.
Lemma chas_false c a : chas c a = false <-> cget c a = None.
Proof. unfold chas. destruct (cget c a); split; congruence. Qed.

Definition shas (st : storage) (k : skey) : bool := match sget st k with Some _ => true | None => false end.

(* ---- membership ---------------------------------------------------------------------------------------- *)
Lemma mem_addr_In a l : mem_addr a l = true <-> In a l.
Proof.
  unfold mem_addr. rewrite existsb_exists. split.
  - intros [x [Hi He]]. apply caddr_eqb_eq in He. now subst.
  - intros H. exists a. split; [exact H|apply caddr_eqb_refl].
Qed.
Lemma mem_addr_cons a a0 l : mem_addr a (a0 :: l) = caddr_eqb a a0 || mem_addr a l.
Proof. reflexivity. Qed.
Lemma mem_addr_false a l : mem_addr a l = false <-> ~ In a l.
Proof. rewrite <- mem_addr_In. destruct (mem_addr a l); split; congruence. Qed.

Definition mem_path (p : path) (l : list path) : bool := existsb (beqb p) l.
Lemma mem_path_In p l : mem_path p l = true <-> In p l.
Proof.
  unfold mem_path. rewrite existsb_exists. split.
  - intros [x [Hi He]]. destruct (beqb_spec p x); [now subst|discriminate].
  - intros H. exists p. split; [exact H|apply beqb_refl].
Qed.

Lemma mem_dedup a l : mem_addr a (dedup l) = mem_addr a l.
Proof.
  induction l as [|a0 t IH]; [reflexivity|].
  cbn [dedup]. destruct (existsb (caddr_eqb a0) t) eqn:E.
  - rewrite IH, mem_addr_cons. destruct (caddr_eqb_spec a a0) as [->|Hn]; [|reflexivity].
    cbn [orb]. exact E.
  - rewrite !mem_addr_cons, IH. reflexivity.
Qed.

Lemma NoDup_dedup l : NoDup (dedup l).
Proof.
  induction l as [|a0 t IH]; [constructor|].
  cbn [dedup]. destruct (existsb (caddr_eqb a0) t) eqn:E; [exact IH|].
  constructor; [|exact IH].
  intros Hi. apply mem_addr_In in Hi. rewrite mem_dedup in Hi. unfold mem_addr in Hi. congruence.
Qed.

(* ---- addresses of targets ------------------------------------------------------------------------------ *)
Lemma addrs_In r ts a :
  In a (addrs r ts) <-> exists p x, In p ts /\ rget r p = Some x /\ a = cache_addr p (r_digest x).
Proof.
  induction ts as [|p t IH]; cbn [addrs].
  - split; [intros []|intros [p [x [[] _]]]].
  - unfold addr_of. destruct (rget r p) as [x|] eqn:E.
    + cbn [In]. rewrite IH. split.
      * intros [<-|[q [y [Hq [Hy Ha]]]]]; [exists p, x; auto|exists q, y; auto].
      * intros [q [y [[<-|Hq] [Hy Ha]]]].
        -- left. rewrite E in Hy. injection Hy as <-. now symmetry.
        -- right. exists q, y; auto.
    + rewrite IH. split.
      * intros [q [y [Hq [Hy Ha]]]]. exists q, y; cbn [In]; auto.
      * intros [q [y [[<-|Hq] [Hy Ha]]]]; [congruence|exists q, y; auto].
Qed.

Lemma addrs_same_recs r r' ts : r_recs r' = r_recs r -> addrs r' ts = addrs r ts.
Proof.
  intros H. induction ts as [|p t IH]; [reflexivity|].
  cbn [addrs]. unfold addr_of, rget. rewrite H, IH. reflexivity.
Qed.

(* ---- faults ---------------------------------------------------------------------------------------------- *)
Definition is_ok (f : fault) : bool := match f with FOk => true | _ => false end.
Definition all_ok (fs : list fault) : bool := forallb is_ok fs.
Definition no_partial (fs : list fault) : bool := forallb (fun f => match f with FPartial => false | _ => true end) fs.

Lemma zipf_all_ok {A} (l : list A) fs : all_ok fs = true -> zipf l fs = map (fun a => (a, FOk)) l.
Proof.
  revert fs; induction l as [|a t IH]; intros fs H; [reflexivity|].
  destruct fs as [|f r]; cbn [zipf map].
  - f_equal. apply (IH []). reflexivity.
  - cbn [all_ok forallb] in H. apply andb_true_iff in H as [Hf Hr].
    destruct f; try discriminate. f_equal. apply IH. exact Hr.
Qed.

Lemma zipf_fst {A} (l : list A) fs : map fst (zipf l fs) = l.
Proof.
  revert fs; induction l as [|a t IH]; intros fs; [reflexivity|].
  destruct fs as [|f r]; cbn [zipf map fst]; now rewrite IH.
Qed.

Lemma zipf_no_partial {A} (l : list A) fs af :
  no_partial fs = true -> In af (zipf l fs) -> snd af <> FPartial.
Proof.
  revert fs; induction l as [|a t IH]; intros fs H Hi; [destruct Hi|].
  destruct fs as [|f r]; cbn [zipf In] in Hi.
  - destruct Hi as [<-|Hi]; [cbn; discriminate|]. apply (IH [] eq_refl Hi).
  - cbn [no_partial forallb] in H. apply andb_true_iff in H as [Hf Hr].
    destruct Hi as [<-|Hi]; [cbn [snd]; destruct f; congruence|]. apply (IH r Hr Hi).
Qed.

(* ---- send: what changes, for every fault sequence ---------------------------------------------------------- *)
Lemma send_local_changes fdel g c l : forall st g' a,
  sget (fst (send_local fdel g c st l)) (g', a) <> sget st (g', a) -> g' = g /\ In a l.
Proof.
  induction l as [|a0 t IH]; intros st g' a H; cbn [send_local fst] in H; [congruence|].
  destruct (cget c a0) as [b|] eqn:E.
  - destruct (skey_eqb_spec (g, a0) (g', a)) as [Heq|Hne].
    + injection Heq as <- <-. split; [reflexivity|now left].
    + assert (Hs : sget (sput st (g, a0) b) (g', a) = sget st (g', a)).
      { rewrite sget_sput. destruct (skey_eqb_spec (g, a0) (g', a)); congruence. }
      rewrite <- Hs in H. apply IH in H as [Hg Hi]. split; [exact Hg|now right].
  - cbn [fst] in H. destruct fdel; [|congruence]. rewrite sget_sdel in H.
    destruct (skey_eqb_spec (g, a0) (g', a)) as [Heq|Hne]; [|congruence].
    injection Heq as <- <-. split; [reflexivity|now left].
Qed.

Lemma upload1_changes g c st af g' a :
  sget (upload1 g c st af) (g', a) <> sget st (g', a) -> g' = g /\ a = fst af.
Proof.
  unfold upload1. destruct (snd af), (cget c (fst af)); try congruence;
    rewrite sget_sput; destruct (skey_eqb_spec (g, fst af) (g', a)) as [Heq|Hne]; try congruence;
    injection Heq as <- <-; auto.
Qed.

Lemma option_eq_dec_bytes (x y : option bytes) : {x = y} + {x <> y}.
Proof.
  destruct x as [a|], y as [b|]; try (right; congruence); [|left; reflexivity].
  destruct (beqb_spec a b) as [->|H]; [left; reflexivity|right; congruence].
Qed.

Lemma fold_upload_changes g c z : forall st g' a,
  sget (fold_left (upload1 g c) z st) (g', a) <> sget st (g', a) -> g' = g /\ In a (map fst z).
Proof.
  induction z as [|af t IH]; intros st g' a H; cbn [fold_left] in H; [congruence|].
  destruct (option_eq_dec_bytes (sget (upload1 g c st af) (g', a)) (sget st (g', a))) as [Heq|Hne].
  - rewrite <- Heq in H. apply IH in H as [Hg Hi]. split; [exact Hg|cbn [map In]; now right].
  - apply upload1_changes in Hne as [Hg Ha]. split; [exact Hg|cbn [map In]; now left].
Qed.

(* ---- send: closed forms ---------------------------------------------------------------------------------- *)
(* the objects a local send copies before it stops at the first missing one *)
Fixpoint sendable (c : cache) (l : list caddr) : list caddr :=
  match l with [] => [] | a :: t => if chas c a then a :: sendable c t else [] end.

(* the object a local send stops at *)
Fixpoint first_missing (c : cache) (l : list caddr) : option caddr :=
  match l with [] => None | a :: t => if chas c a then first_missing c t else Some a end.
Definition is_first_missing (c : cache) (l : list caddr) (a : caddr) : bool :=
  match first_missing c l with Some m => caddr_eqb m a | None => false end.

Lemma first_missing_absent c l a : is_first_missing c l a = true -> chas c a = false.
Proof.
  unfold is_first_missing. induction l as [|a0 t IH]; cbn [first_missing]; [discriminate|].
  destruct (chas c a0) eqn:E; [exact IH|]. intros H. apply caddr_eqb_eq in H. now subst.
Qed.

Lemma first_missing_none c l : forallb (chas c) l = true -> first_missing c l = None.
Proof.
  induction l as [|a t IH]; cbn [forallb first_missing]; [reflexivity|].
  intros H; apply andb_true_iff in H as [Ha Ht]. rewrite Ha. exact (IH Ht).
Qed.

Lemma send_local_get fdel g c l : forall st g' a,
  sget (fst (send_local fdel g c st l)) (g', a) =
  if N.eqb g g' && mem_addr a (sendable c l) then cget c a
  else if fdel && N.eqb g g' && is_first_missing c l a then None else sget st (g', a).
Proof.
  induction l as [|a0 t IH]; intros st g' a; cbn [send_local sendable].
  - cbn [fst mem_addr existsb]. unfold is_first_missing; cbn [first_missing]. now rewrite !andb_false_r.
  - unfold is_first_missing; cbn [first_missing]. fold (is_first_missing c t a).
    destruct (cget c a0) as [b|] eqn:E.
    + assert (Hh : chas c a0 = true) by (unfold chas; now rewrite E). rewrite Hh.
      fold (is_first_missing c t a).
      rewrite IH, sget_sput, mem_addr_cons. unfold skey_eqb; cbn [fst snd].
      destruct (N.eqb g g'); cbn [andb]; [|now rewrite !andb_false_r].
      rewrite (caddr_eqb_sym a0 a), !andb_true_r.
      destruct (caddr_eqb_spec a a0) as [->|Hn]; cbn [orb]; [|reflexivity].
      rewrite E. destruct (mem_addr a0 (sendable c t)); [reflexivity|].
      destruct (is_first_missing c t a0) eqn:Em; [|now destruct fdel].
      apply first_missing_absent in Em. congruence.
    + assert (Hh : chas c a0 = false) by (unfold chas; now rewrite E). rewrite Hh.
      cbn [fst mem_addr existsb]. rewrite andb_false_r.
      destruct fdel; cbn [andb]; [|reflexivity].
      rewrite sget_sdel. unfold skey_eqb; cbn [fst snd]. now destruct (N.eqb g g').
Qed.

Lemma send_local_outcome fdel g c l : forall st,
  snd (send_local fdel g c st l) = if forallb (chas c) l then Ok else Err.
Proof.
  induction l as [|a0 t IH]; intros st; cbn [send_local forallb]; [reflexivity|].
  unfold chas at 1. destruct (cget c a0); cbn [andb]; [apply IH|reflexivity].
Qed.

Lemma fold_upload_ok_get g c l : forall st g' a,
  sget (fold_left (upload1 g c) (map (fun a => (a, FOk)) l) st) (g', a) =
  if N.eqb g g' && mem_addr a (filter (chas c) l) then cget c a else sget st (g', a).
Proof.
  induction l as [|a0 t IH]; intros st g' a; cbn [map fold_left filter].
  - cbn [mem_addr existsb]. now rewrite andb_false_r.
  - rewrite IH. unfold upload1; cbn [fst snd]. unfold chas at 2.
    destruct (cget c a0) as [b|] eqn:E; [|reflexivity].
    rewrite sget_sput, mem_addr_cons. unfold skey_eqb; cbn [fst snd].
    destruct (N.eqb g g'); cbn [andb]; [|reflexivity].
    rewrite (caddr_eqb_sym a0 a).
    destruct (caddr_eqb_spec a a0) as [->|Hn]; cbn [orb]; [|reflexivity].
    rewrite E. now destruct (mem_addr a0 (filter (chas c) t)).
Qed.

(* what a send without failing commands leaves: every key either holds the object of the sender's cache
   or what it held before *)
Definition sent_set (k : skind) (c : cache) (l : list caddr) : list caddr :=
  match k with Local => sendable c l | Generic => filter (chas c) l end.

(* the key a forced local send removes without replacing it (unrepaired tree) *)
Definition lost (cf : cfg) (k : skind) (force : bool) (c : cache) (l : list caddr) (g g' : guid) (a : caddr) : bool :=
  match k with
  | Local => (force && negb (fixed_send_force cf)) && N.eqb g g' && is_first_missing c l a
  | Generic => false
  end.

Lemma send_ok_get cf k r st ts force fs g' a : all_ok fs = true ->
  sget (fst (send cf k r st ts force fs)) (g', a) =
  if N.eqb (r_guid r) g' && mem_addr a (sent_set k (r_cache r) (addrs r ts)) then cget (r_cache r) a
  else if lost cf k force (r_cache r) (addrs r ts) (r_guid r) g' a then None else sget st (g', a).
Proof.
  intros H. destruct k; cbn [send sent_set lost].
  - apply send_local_get.
  - unfold send_generic; cbn [fst]. rewrite (zipf_all_ok _ _ H). apply fold_upload_ok_get.
Qed.

Lemma send_ok_outcome cf k r st st' ts force fs fs' : all_ok fs = true -> all_ok fs' = true ->
  snd (send cf k r st ts force fs) = snd (send cf k r st' ts force fs').
Proof.
  intros H H'. destruct k; cbn [send].
  - now rewrite !send_local_outcome.
  - unfold send_generic; cbn [snd]. now rewrite (zipf_all_ok _ _ H), (zipf_all_ok _ _ H').
Qed.

Lemma lost_none cf k force c l g g' a : forallb (chas c) l = true -> lost cf k force c l g g' a = false.
Proof.
  intros H. unfold lost, is_first_missing. rewrite (first_missing_none c l H). destruct k; [now rewrite andb_false_r|reflexivity].
Qed.

Lemma sendable_all c l : forallb (chas c) l = true -> sendable c l = l.
Proof.
  induction l as [|a t IH]; cbn [forallb sendable]; [reflexivity|].
  intros H; apply andb_true_iff in H as [Ha Ht]. rewrite Ha, (IH Ht). reflexivity.
Qed.
Lemma filter_all {A} (f : A -> bool) l : forallb f l = true -> filter f l = l.
Proof.
  induction l as [|a t IH]; cbn [forallb filter]; [reflexivity|].
  intros H; apply andb_true_iff in H as [Ha Ht]. rewrite Ha, (IH Ht). reflexivity.
Qed.

(* ---- soundness with respect to the committed objects ------------------------------------------------------- *)
Definition agrees (truth m : cache) : Prop := forall a b, cget m a = Some b -> cget truth a = Some b.
Definition storage_sound (truth : cache) (g : guid) (st : storage) : Prop :=
  forall a b, sget st (g, a) = Some b -> cget truth a = Some b.
Definition cas_ok (m : cache) : Prop := forall a b, cget m a = Some b -> fitsb a b = true.

Lemma agrees_cas truth m : cas_ok truth -> agrees truth m -> cas_ok m.
Proof. intros Hc Ha a b H. apply Hc, Ha, H. Qed.

Lemma upload1_sound truth g c st af :
  agrees truth c -> storage_sound truth g st -> snd af <> FPartial -> storage_sound truth g (upload1 g c st af).
Proof.
  intros Ha Hs Hf a b. unfold upload1.
  destruct (snd af) eqn:Ef; try congruence; try apply Hs.
  destruct (cget c (fst af)) as [b0|] eqn:E; [|apply Hs].
  rewrite sget_sput. destruct (skey_eqb_spec (g, fst af) (g, a)) as [Heq|Hne]; [|apply Hs].
  injection Heq as <-. intros H; injection H as <-. now apply Ha.
Qed.

Lemma fold_upload_sound truth g c z : forall st,
  agrees truth c -> storage_sound truth g st -> (forall af, In af z -> snd af <> FPartial) ->
  storage_sound truth g (fold_left (upload1 g c) z st).
Proof.
  induction z as [|af t IH]; intros st Ha Hs Hf; cbn [fold_left]; [exact Hs|].
  apply IH; [exact Ha| |intros x Hx; apply Hf; now right].
  apply upload1_sound; [exact Ha|exact Hs|apply Hf; now left].
Qed.

Lemma send_sound truth cf k r st ts force fs :
  agrees truth (r_cache r) -> storage_sound truth (r_guid r) st -> no_partial fs = true ->
  storage_sound truth (r_guid r) (fst (send cf k r st ts force fs)).
Proof.
  intros Ha Hs Hf. destruct k; cbn [send].
  - intros a b. rewrite send_local_get.
    destruct (N.eqb (r_guid r) (r_guid r) && mem_addr a (sendable (r_cache r) (addrs r ts))); [apply Ha|].
    destruct (force && negb (fixed_send_force cf) && N.eqb (r_guid r) (r_guid r) && is_first_missing (r_cache r) (addrs r ts) a);
      [discriminate|apply Hs].
  - unfold send_generic; cbn [fst]. apply fold_upload_sound; [exact Ha|exact Hs|].
    intros af Hi. eapply zipf_no_partial; eauto.
Qed.

(* a send never removes a stored object -- unless it is a forced local send of the unrepaired tree *)
Lemma send_local_present g c l : forall st key b,
  sget st key = Some b -> exists b', sget (fst (send_local false g c st l)) key = Some b'.
Proof.
  induction l as [|a0 t IH]; intros st key b H; cbn [send_local]; [now exists b|].
  destruct (cget c a0) as [b0|]; [|now exists b].
  destruct (skey_eqb_spec (g, a0) key) as [<-|Hn].
  - apply (IH _ _ b0). rewrite sget_sput. now destruct (skey_eqb_spec (g, a0) (g, a0)).
  - apply (IH _ _ b). rewrite sget_sput. destruct (skey_eqb_spec (g, a0) key); [contradiction|exact H].
Qed.

Lemma fold_upload_present g c z : forall st key b,
  sget st key = Some b -> exists b', sget (fold_left (upload1 g c) z st) key = Some b'.
Proof.
  induction z as [|af t IH]; intros st key b H; cbn [fold_left]; [now exists b|].
  assert (Hp : exists b1, sget (upload1 g c st af) key = Some b1).
  { unfold upload1. destruct (snd af), (cget c (fst af)); try (now exists b);
      rewrite sget_sput; destruct (skey_eqb (g, fst af) key); eauto. }
  destruct Hp as [b1 H1]. now apply (IH _ _ b1).
Qed.

Lemma send_present cf k r st ts force fs key b :
  force && negb (fixed_send_force cf) = false \/ k = Generic ->
  sget st key = Some b -> exists b', sget (fst (send cf k r st ts force fs)) key = Some b'.
Proof.
  intros Hc H. destruct k; cbn [send].
  - destruct Hc as [->|Hc]; [|discriminate]. now apply send_local_present with b.
  - unfold send_generic; cbn [fst]. now apply fold_upload_present with b.
Qed.

(* ---- the layout of the storage ------------------------------------------------------------------------------ *)
Lemma send_changes cf k r st ts force fs g' a :
  sget (fst (send cf k r st ts force fs)) (g', a) <> sget st (g', a) -> g' = r_guid r /\ In a (addrs r ts).
Proof.
  destruct k; cbn [send].
  - apply send_local_changes.
  - unfold send_generic; cbn [fst]. intros H. apply fold_upload_changes in H. now rewrite zipf_fst in H.
Qed.

(* ---- receive ---------------------------------------------------------------------------------------------------- *)
(* after a receive in which every command succeeded: the temporary directory holds exactly the requested
   objects the storage has, and exactly those are reported *)
Definition recv_ok (g : guid) (st : storage) (l : list caddr) (acc rv : recv) : Prop :=
  (forall a, cget (tmpd rv) a = if mem_addr a l && shas st (g, a) then sget st (g, a) else cget (tmpd acc) a) /\
  (forall a, mem_addr a (reported rv) = (mem_addr a l && shas st (g, a)) || mem_addr a (reported acc)).

Lemma receive_local_none g st l : forall acc,
  forallb (fun a => shas st (g, a)) l = false -> receive_local g st l acc = None.
Proof.
  induction l as [|a0 t IH]; intros acc H; cbn [forallb receive_local] in *; [discriminate|].
  unfold shas in H at 1. destruct (sget st (g, a0)); [|reflexivity].
  cbn [andb] in H. now apply IH.
Qed.

Lemma receive_local_some g st l : forall acc,
  forallb (fun a => shas st (g, a)) l = true ->
  exists rv, receive_local g st l acc = Some rv /\ recv_ok g st l acc rv.
Proof.
  induction l as [|a0 t IH]; intros acc H; cbn [forallb receive_local] in *.
  - exists acc. split; [reflexivity|]. split; intros a; reflexivity.
  - apply andb_true_iff in H as [H0 Ht]. unfold shas in H0. destruct (sget st (g, a0)) as [b|] eqn:E; [|discriminate].
    destruct (IH {| tmpd := cput (tmpd acc) a0 b; reported := a0 :: reported acc |} Ht) as [rv [Hr [Htm Hrep]]].
    exists rv. split; [exact Hr|]. cbn [tmpd reported] in *. split; intros a.
    + rewrite Htm, cget_cput, !mem_addr_cons, (caddr_eqb_sym a0 a).
      destruct (caddr_eqb_spec a a0) as [->|Hn]; cbn [orb]; [|reflexivity].
      unfold shas. rewrite E. cbn [andb]. now destruct (mem_addr a0 t).
    + rewrite Hrep, !mem_addr_cons.
      destruct (caddr_eqb_spec a a0) as [->|Hn]; cbn [orb]; [|reflexivity].
      unfold shas. rewrite E. cbn [andb]. now rewrite orb_true_r.
Qed.

Lemma fold_download_ok g st l : forall acc,
  recv_ok g st l acc (fold_left (download1 g st) (map (fun a => (a, FOk)) l) acc).
Proof.
  induction l as [|a0 t IH]; intros acc; cbn [map fold_left].
  - split; intros a; reflexivity.
  - destruct (IH (download1 g st acc (a0, FOk))) as [Htm Hrep]. split; intros a.
    + rewrite Htm, mem_addr_cons. unfold download1; cbn [fst snd].
      destruct (caddr_eqb_spec a a0) as [->|Hn]; cbn [orb].
      * unfold shas. destruct (sget st (g, a0)) as [b|] eqn:E.
        -- cbn [tmpd]. rewrite cget_cput, caddr_eqb_refl. now destruct (mem_addr a0 t).
        -- now rewrite !andb_false_r.
      * destruct (sget st (g, a0)) as [b|]; [|reflexivity].
        cbn [tmpd]. rewrite cget_cput, (caddr_eqb_neq a0 a) by congruence. reflexivity.
    + rewrite Hrep, mem_addr_cons. unfold download1; cbn [fst snd].
      destruct (caddr_eqb_spec a a0) as [->|Hn]; cbn [orb].
      * unfold shas. destruct (sget st (g, a0)) as [b|] eqn:E.
        -- cbn [reported]. rewrite mem_addr_cons, caddr_eqb_refl. cbn [orb andb]. now rewrite orb_true_r.
        -- now rewrite !andb_false_r.
      * destruct (sget st (g, a0)) as [b|]; [|reflexivity].
        cbn [reported]. rewrite mem_addr_cons, (caddr_eqb_neq a a0) by congruence. reflexivity.
Qed.

(* ---- moving to the cache ------------------------------------------------------------------------------------------ *)
Lemma move_all_spec orp rep l : forall tm c e,
  (forall a b, cget tm a = Some b -> negb orp || mem_addr a rep = true) ->
  exists c' o, move_all true orp rep l tm c e = (c', o) /\ o <> Panic /\
    forall a, cget c' a = if mem_addr a l then match cget tm a with Some b => Some b | None => cget c a end else cget c a.
Proof.
  induction l as [|a0 t IH]; intros tm c e H; cbn [move_all].
  - exists c, (if e then Err else Ok). split; [reflexivity|]. split; [destruct e; discriminate|reflexivity].
  - destruct (cget tm a0) as [b|] eqn:E.
    + rewrite (H a0 b E).
      destruct (IH (cdel tm a0) (cput c a0 b) e) as [c' [o [Hm [Ho Hc]]]].
      { intros a b'. rewrite cget_cdel. destruct (caddr_eqb a0 a); [discriminate|apply H]. }
      exists c', o. split; [exact Hm|]. split; [exact Ho|]. intros a.
      rewrite Hc, cget_cdel, cget_cput, mem_addr_cons, (caddr_eqb_sym a0 a).
      destruct (caddr_eqb_spec a a0) as [->|Hn]; cbn [orb]; [|reflexivity].
      rewrite E. now destruct (mem_addr a0 t).
    + destruct (IH tm c true H) as [c' [o [Hm [Ho Hc]]]].
      exists c', o. split; [exact Hm|]. split; [exact Ho|]. intros a.
      rewrite Hc, mem_addr_cons.
      destruct (caddr_eqb_spec a a0) as [->|Hn]; cbn [orb]; [|reflexivity].
      rewrite E. now destruct (mem_addr a0 t).
Qed.

(* every fault sequence: what is moved into the cache was reported, and what was reported is sound *)
Lemma move_all_sound truth can rep l : forall tm c e,
  agrees truth c ->
  (forall a b, cget tm a = Some b -> mem_addr a rep = true -> cget truth a = Some b) ->
  agrees truth (fst (move_all can true rep l tm c e)).
Proof.
  induction l as [|a0 t IH]; intros tm c e Ha Ht; cbn [move_all]; [exact Ha|].
  destruct (cget tm a0) as [b|] eqn:E; [|now apply IH].
  cbn [negb orb]. destruct (mem_addr a0 rep) eqn:Er; [|now apply IH].
  destruct can; [|exact Ha].
  apply IH.
  - intros a b'. rewrite cget_cput. destruct (caddr_eqb_spec a0 a) as [<-|Hn]; [|apply Ha].
    intros H; injection H as <-. now apply Ht.
  - intros a b'. rewrite cget_cdel. destruct (caddr_eqb a0 a); [discriminate|apply Ht].
Qed.

Lemma receive_local_sound truth g st l : forall acc rv,
  storage_sound truth g st ->
  (forall a b, cget (tmpd acc) a = Some b -> cget truth a = Some b) ->
  receive_local g st l acc = Some rv ->
  forall a b, cget (tmpd rv) a = Some b -> cget truth a = Some b.
Proof.
  induction l as [|a0 t IH]; intros acc rv Hs Ha; cbn [receive_local].
  - intros H; injection H as <-. exact Ha.
  - destruct (sget st (g, a0)) as [b0|] eqn:E; [|discriminate].
    apply IH; [exact Hs|]. cbn [tmpd]. intros a b. rewrite cget_cput.
    destruct (caddr_eqb_spec a0 a) as [<-|Hn]; [|apply Ha].
    intros H; injection H as <-. now apply Hs.
Qed.

Lemma fold_download_sound truth g st z : forall acc,
  storage_sound truth g st -> NoDup (map fst z) ->
  (forall a b, cget (tmpd acc) a = Some b -> mem_addr a (reported acc) = true -> cget truth a = Some b) ->
  (forall a, In a (map fst z) -> mem_addr a (reported acc) = false) ->
  let rv := fold_left (download1 g st) z acc in
  forall a b, cget (tmpd rv) a = Some b -> mem_addr a (reported rv) = true -> cget truth a = Some b.
Proof.
  induction z as [|af t IH]; intros acc Hs Hnd Ha Hn; cbn [fold_left]; [exact Ha|].
  cbn [map] in Hnd, Hn. inversion Hnd as [|? ? Hni Hnd']; subst.
  apply IH; [exact Hs|exact Hnd'| |].
  - intros a b. unfold download1.
    destruct (snd af) eqn:Ef; [|apply Ha|].
    + destruct (sget st (g, fst af)) as [b0|] eqn:E; [|apply Ha]. cbn [tmpd reported].
      rewrite cget_cput, mem_addr_cons, (caddr_eqb_sym (fst af) a).
      destruct (caddr_eqb_spec a (fst af)) as [->|Hne]; cbn [orb]; [|apply Ha].
      intros H _; injection H as <-. now apply Hs.
    + destruct (sget st (g, fst af)) as [b0|] eqn:E; [|apply Ha]. cbn [tmpd reported].
      rewrite cget_cput. destruct (caddr_eqb_spec (fst af) a) as [<-|Hne]; [|apply Ha].
      intros _ Hr. rewrite (Hn (fst af)) in Hr; [discriminate|now left].
  - intros a Hi. unfold download1.
    assert (Hne : a <> fst af) by (intros ->; contradiction).
    destruct (snd af); try (apply Hn; now right);
      destruct (sget st (g, fst af)); try (apply Hn; now right); cbn [reported].
    rewrite mem_addr_cons, (caddr_eqb_neq _ _ Hne). cbn [orb]. apply Hn; now right.
Qed.

(* ---- fetch ---------------------------------------------------------------------------------------------------------- *)
Definition cache_of (f : fetched) (c0 : cache) : cache :=
  match f with Done c _ => c | Panicked c => c | Aborted => c0 end.

(* the cache after a fetch in which nothing fails *)
Definition fetched_cache (cf : cfg) (r : repo) (st : storage) (ts : list path) (force : bool) (a : caddr) : option bytes :=
  if mem_addr a (requested cf r ts force) && shas st (r_guid r, a) then sget st (r_guid r, a) else cget (r_cache r) a.

Lemma fetch_spec cf k tmp r st ts force fs :
  all_ok fs = true -> tmp || fixed_P9 cf = true ->
  (k = Local /\ forallb (fun a => shas st (r_guid r, a)) (requested cf r ts force) = false /\
   fetch cf k tmp r st ts force fs = Aborted) \/
  (exists c' e, fetch cf k tmp r st ts force fs = Done c' e /\ forall a, cget c' a = fetched_cache cf r st ts force a).
Proof.
  intros Hok Hcan. unfold fetch, fetched_cache. rewrite Hcan.
  set (l := requested cf r ts force). set (g := r_guid r).
  assert (Hfin : forall rv e0, recv_ok g st l recv0 rv ->
            exists c' e, match move_all true (fixed_P10 cf) (reported rv) l (tmpd rv) (r_cache r) e0 with
                         | (c, Panic) => Panicked c | (c, Err) => Done c true | (c, Ok) => Done c false end = Done c' e /\
                         forall a, cget c' a = if mem_addr a l && shas st (g, a) then sget st (g, a) else cget (r_cache r) a).
  { intros rv e0 [Htm Hrep].
    destruct (move_all_spec (fixed_P10 cf) (reported rv) l (tmpd rv) (r_cache r) e0) as [c' [o [Hm [Ho Hc]]]].
    { intros a b Hb. rewrite Hrep. rewrite Htm in Hb. cbn [recv0 tmpd reported mem_addr existsb] in *.
      destruct (mem_addr a l && shas st (g, a)); [now rewrite orb_true_r|discriminate]. }
    rewrite Hm. exists c', (match o with Err => true | _ => false end).
    split; [destruct o; congruence|]. intros a. rewrite Hc, Htm. cbn [recv0 tmpd].
    destruct (mem_addr a l) eqn:El; cbn [andb]; [|reflexivity].
    unfold shas. destruct (sget st (g, a)); reflexivity. }
  destruct k.
  - destruct (forallb (fun a => shas st (g, a)) l) eqn:Ef.
    + right. destruct (receive_local_some g st l recv0 Ef) as [rv [Hr Hok']]. rewrite Hr. now apply Hfin.
    + left. split; [reflexivity|]. split; [reflexivity|]. now rewrite (receive_local_none g st l recv0 Ef).
  - right. apply Hfin. unfold receive_generic. rewrite (zipf_all_ok _ _ Hok). apply fold_download_ok.
Qed.

(* every fault sequence, temporary directory anywhere: the cache stays sound *)
Lemma fetch_sound truth cf k tmp r st ts force fs :
  fixed_P10 cf = true -> agrees truth (r_cache r) -> storage_sound truth (r_guid r) st ->
  agrees truth (cache_of (fetch cf k tmp r st ts force fs) (r_cache r)).
Proof.
  intros H10 Ha Hs. unfold fetch. rewrite H10.
  set (l := requested cf r ts force). set (g := r_guid r).
  assert (Hfin : forall rv e0,
            (forall a b, cget (tmpd rv) a = Some b -> mem_addr a (reported rv) = true -> cget truth a = Some b) ->
            agrees truth (cache_of match move_all (tmp || fixed_P9 cf) true (reported rv) l (tmpd rv) (r_cache r) e0 with
                                   | (c, Panic) => Panicked c | (c, Err) => Done c true | (c, Ok) => Done c false end (r_cache r))).
  { intros rv e0 Hrv.
    pose proof (move_all_sound truth (tmp || fixed_P9 cf) (reported rv) l (tmpd rv) (r_cache r) e0 Ha Hrv) as Hm.
    destruct (move_all (tmp || fixed_P9 cf) true (reported rv) l (tmpd rv) (r_cache r) e0) as [c o].
    destruct o; exact Hm. }
  destruct k.
  - destruct (receive_local g st l recv0) as [rv|] eqn:Er; [|exact Ha].
    apply Hfin. intros a b Hb _. eapply receive_local_sound; eauto. intros ? ? H; discriminate.
  - apply Hfin. unfold receive_generic. apply fold_download_sound.
    + exact Hs.
    + rewrite zipf_fst. unfold l, requested. rewrite H10. apply NoDup_dedup.
    + intros ? ? H; discriminate.
    + reflexivity.
Qed.

(* ---- recheck ---------------------------------------------------------------------------------------------------------- *)
Definition entry_for (x : frec) (a : caddr) (b : bytes) : wentry :=
  match r_method x with Symlink => WLink a | _ => WBytes b end.
(* the entry at p after one recheck of p *)
Definition recheck_val (force : bool) (c : cache) (recs : list (path * frec)) (w : list (path * wentry)) (p : path) : option wentry :=
  match get beqb recs p with
  | None => wget w p
  | Some x =>
      if force || match ws_read_in c w p with Some _ => false | None => true end
      then match cget c (cache_addr p (r_digest x)) with
           | Some b => Some (entry_for x (cache_addr p (r_digest x)) b)
           | None => wget w p
           end
      else wget w p
  end.

Lemma recheck1_get force c recs w e p q :
  wget (fst (recheck1 force c recs (w, e) p)) q = if beqb p q then recheck_val force c recs w p else wget w q.
Proof.
  unfold recheck1, recheck_val, entry_for.
  destruct (get beqb recs p) as [x|]; cbn [fst].
  - destruct (force || match ws_read_in c w p with Some _ => false | None => true end).
    + destruct (cget c (cache_addr p (r_digest x))) as [b|]; cbn [fst].
      * apply wget_wput.
      * destruct (beqb_spec p q) as [->|]; reflexivity.
    + cbn [fst]. destruct (beqb_spec p q) as [->|]; reflexivity.
  - destruct (beqb_spec p q) as [->|]; reflexivity.
Qed.

Lemma recheck_val_ext force c recs w w' p :
  wget w' p = wget w p -> recheck_val force c recs w' p = match get beqb recs p with
                                                          | None => wget w p
                                                          | Some _ => recheck_val force c recs w p end.
Proof.
  intros H. unfold recheck_val, ws_read_in. rewrite H. destruct (get beqb recs p); reflexivity.
Qed.

(* rechecking a path twice gives what rechecking it once gives *)
Lemma recheck_val_idem force c recs w w' p :
  wget w' p = recheck_val force c recs w p -> recheck_val force c recs w' p = recheck_val force c recs w p.
Proof.
  intros H. unfold recheck_val in *. unfold ws_read_in in *.
  destruct (get beqb recs p) as [x|]; [|exact H].
  destruct (force || match match wget w p with Some e => read_entry c e | None => None end with Some _ => false | None => true end) eqn:Esel.
  - destruct (cget c (cache_addr p (r_digest x))) as [b|] eqn:Ec.
    + rewrite H. unfold entry_for. destruct force; cbn [orb].
      * reflexivity.
      * destruct (r_method x); cbn [read_entry]; try reflexivity. rewrite Ec. reflexivity.
    + rewrite H. now rewrite Esel.
  - rewrite H. now rewrite Esel.
Qed.

Lemma recheck_all_get force c recs ts : forall w e q,
  wget (fst (fold_left (recheck1 force c recs) ts (w, e))) q =
  if mem_path q ts then recheck_val force c recs w q else wget w q.
Proof.
  induction ts as [|p t IH]; intros w e q; cbn [fold_left]; [reflexivity|].
  destruct (recheck1 force c recs (w, e) p) as [w1 e1] eqn:E1.
  assert (H1 : forall q', wget w1 q' = if beqb p q' then recheck_val force c recs w p else wget w q').
  { intros q'. rewrite <- (recheck1_get force c recs w e p q'). now rewrite E1. }
  rewrite IH. unfold mem_path; cbn [existsb]. fold (mem_path q t).
  destruct (beqb_spec q p) as [->|Hn]; cbn [orb].
  - destruct (mem_path p t).
    + apply recheck_val_idem. rewrite H1, beqb_refl. reflexivity.
    + rewrite H1, beqb_refl. reflexivity.
  - assert (Hq : wget w1 q = wget w q).
    { rewrite H1. destruct (beqb_spec p q); congruence. }
    destruct (mem_path q t); [|exact Hq].
    rewrite (recheck_val_ext force c recs w w1 q Hq). unfold recheck_val. now destruct (get beqb recs q).
Qed.

(* ---- bring ---------------------------------------------------------------------------------------------------------------- *)
Lemma bring_cache cf k tmp r st ts force fs :
  r_cache (fst (bring cf k tmp r st ts force fs)) = cache_of (fetch cf k tmp r st ts force fs) (r_cache r).
Proof.
  unfold bring. destruct (fetch cf k tmp r st ts force fs) as [c e| |c]; cbn [cache_of]; try reflexivity.
  destruct (recheck_all force c (r_recs r) (r_ws r) ts) as [w e2]. reflexivity.
Qed.

Lemma bring_keeps cf k tmp r st ts force fs :
  r_recs (fst (bring cf k tmp r st ts force fs)) = r_recs r /\ r_guid (fst (bring cf k tmp r st ts force fs)) = r_guid r
  /\ r_algo (fst (bring cf k tmp r st ts force fs)) = r_algo r.
Proof.
  unfold bring. destruct (fetch cf k tmp r st ts force fs) as [c e| |c]; cbn [fst]; try (repeat split; reflexivity).
  destruct (recheck_all force c (r_recs r) (r_ws r) ts) as [w e2]. repeat split; reflexivity.
Qed.

(* bring when nothing fails: either the local storage lacks a requested object and nothing at all happens,
   or the cache and the workspace are given by the closed forms *)
Lemma bring_spec cf k tmp r st ts force fs :
  all_ok fs = true -> tmp || fixed_P9 cf = true ->
  (k = Local /\ forallb (fun a => shas st (r_guid r, a)) (requested cf r ts force) = false /\
   bring cf k tmp r st ts force fs = (r, Err)) \/
  (snd (bring cf k tmp r st ts force fs) <> Panic /\
   (forall a, cget (r_cache (fst (bring cf k tmp r st ts force fs))) a = fetched_cache cf r st ts force a) /\
   (forall p, wget (r_ws (fst (bring cf k tmp r st ts force fs))) p =
              if mem_path p ts then recheck_val force (r_cache (fst (bring cf k tmp r st ts force fs))) (r_recs r) (r_ws r) p
              else wget (r_ws r) p)).
Proof.
  intros Hok Hcan.
  destruct (fetch_spec cf k tmp r st ts force fs Hok Hcan) as [[Hk [Hf Hab]]|[c' [e [Hd Hc]]]].
  - left. split; [exact Hk|]. split; [exact Hf|]. unfold bring. now rewrite Hab.
  - right. unfold bring. rewrite Hd. unfold recheck_all.
    pose proof (recheck_all_get force c' (r_recs r) ts (r_ws r) false) as Hw.
    destruct (fold_left (recheck1 force c' (r_recs r)) ts (r_ws r, false)) as [w e2]. cbn [fst snd] in *.
    split; [destruct (e || e2); discriminate|]. split; [exact Hc|exact Hw].
Qed.

(* ---- the round trip ------------------------------------------------------------------------------------------------------- *)
(* the workspace file of p in the clone is absent, or what a recheck of the committed version left there *)
Definition ws_unmodified (r0 clone : repo) (p : path) : Prop :=
  match wget (r_ws clone) p with
  | None => True
  | Some (WBytes b) => committed r0 p = Some b
  | Some (WLink a) => addr_of r0 p = Some a
  end.

Lemma committed_inv r p b :
  committed r p = Some b -> exists x, rget r p = Some x /\ cget (r_cache r) (cache_addr p (r_digest x)) = Some b.
Proof.
  unfold committed, addr_of. destruct (rget r p) as [x|]; [|discriminate]. intros H. now exists x.
Qed.

Lemma mem_requested_empty cf r ts force a :
  r_cache r = [] -> mem_addr a (requested cf r ts force) = mem_addr a (addrs r ts).
Proof.
  intros Hc. unfold requested.
  assert (Hf : filter (fun a0 => negb (chas (r_cache r) a0)) (addrs r ts) = addrs r ts).
  { apply filter_all. apply forallb_forall. intros x _. rewrite Hc. reflexivity. }
  destruct force, (fixed_P10 cf); rewrite ?Hf, ?mem_dedup; reflexivity.
Qed.

Lemma roundtrip cf k1 k2 tmp r0 st T fsend f1 clone T' force f2 :
  all_ok f1 = true -> all_ok f2 = true -> tmp || fixed_P9 cf = true ->
  (forall p, In p T -> exists b, committed r0 p = Some b) ->
  incl T' T ->
  r_guid clone = r_guid r0 -> r_recs clone = r_recs r0 -> r_cache clone = [] ->
  (force = true \/ forall p, In p T' -> ws_unmodified r0 clone p) ->
  snd (bring cf k2 tmp clone (fst (send cf k1 r0 st T fsend f1)) T' force f2) <> Panic /\
  forall p, In p T' ->
    ws_read (fst (bring cf k2 tmp clone (fst (send cf k1 r0 st T fsend f1)) T' force f2)) p = committed r0 p.
Proof.
  intros Hf1 Hf2 Hcan Hcom Hincl Hg Hrecs Hempty Hws.
  set (st1 := fst (send cf k1 r0 st T fsend f1)).
  (* everything sent is in the storage, under the guid of the origin, with the bytes of its cache *)
  assert (Hall : forallb (chas (r_cache r0)) (addrs r0 T) = true).
  { apply forallb_forall. intros a Ha. apply addrs_In in Ha as [p [x [Hp [Hx ->]]]].
    destruct (Hcom p Hp) as [b Hb]. apply committed_inv in Hb as [x' [Hx' Hb]].
    rewrite Hx in Hx'. injection Hx' as <-. apply chas_true. now exists b. }
  assert (Hsent : forall a, In a (addrs r0 T) -> sget st1 (r_guid r0, a) = cget (r_cache r0) a).
  { intros a Ha. unfold st1. rewrite (send_ok_get cf k1 r0 st T fsend f1 (r_guid r0) a Hf1), N.eqb_refl.
    replace (sent_set k1 (r_cache r0) (addrs r0 T)) with (addrs r0 T).
    - apply mem_addr_In in Ha. now rewrite Ha.
    - destruct k1; cbn [sent_set]; [now rewrite sendable_all|now rewrite filter_all]. }
  assert (Hsub : forall a, In a (addrs r0 T') -> In a (addrs r0 T)).
  { intros a Ha. apply addrs_In in Ha as [p [x [Hp H]]]. apply addrs_In. exists p, x. split; [now apply Hincl|exact H]. }
  assert (Haddrs : addrs clone T' = addrs r0 T') by now apply addrs_same_recs.
  destruct (bring_spec cf k2 tmp clone st1 T' force f2 Hf2 Hcan) as [[_ [Hab _]]|[Hnp [Hc Hw]]].
  - (* a local storage never lacks a requested object here *)
    exfalso. assert (Ht : forallb (fun a => shas st1 (r_guid clone, a)) (requested cf clone T' force) = true).
    { apply forallb_forall. intros a Ha. apply mem_addr_In in Ha. rewrite mem_requested_empty in Ha by exact Hempty.
      apply mem_addr_In in Ha. rewrite Haddrs in Ha. apply Hsub in Ha.
      unfold shas. rewrite Hg, (Hsent a Ha).
      pose proof (proj1 (forallb_forall _ _) Hall a Ha) as Hh. apply chas_true in Hh as [b ->]. reflexivity. }
    congruence.
  - split; [exact Hnp|]. intros p Hp.
    destruct (Hcom p (Hincl p Hp)) as [b Hb]. rewrite Hb.
    destruct (committed_inv r0 p b Hb) as [x [Hx Hob]].
    set (a := cache_addr p (r_digest x)) in *.
    assert (Ha : In a (addrs r0 T')) by (apply addrs_In; exists p, x; auto).
    set (r' := fst (bring cf k2 tmp clone st1 T' force f2)) in *.
    assert (Hca : cget (r_cache r') a = Some b).
    { rewrite Hc. unfold fetched_cache. rewrite mem_requested_empty by exact Hempty. rewrite Haddrs.
      apply mem_addr_In in Ha as Hm. rewrite Hm, Hg. unfold shas. rewrite (Hsent a (Hsub a Ha)), Hob. reflexivity. }
    unfold ws_read, ws_read_in. rewrite Hw. apply mem_path_In in Hp as Hmp. rewrite Hmp.
    unfold recheck_val. rewrite Hrecs. fold (rget r0 p). rewrite Hx. fold a. rewrite Hca.
    destruct (force || match ws_read_in (r_cache r') (r_ws clone) p with Some _ => false | None => true end) eqn:Esel.
    + unfold entry_for. destruct (r_method x); cbn [read_entry]; try reflexivity. exact Hca.
    + apply orb_false_iff in Esel as [Hforce Hmiss]. subst force.
      destruct Hws as [Hws|Hws]; [discriminate|]. specialize (Hws p Hp). unfold ws_unmodified in Hws.
      unfold ws_read_in in Hmiss. destruct (wget (r_ws clone) p) as [[b'|a']|]; [| |discriminate].
      * cbn [read_entry]. congruence.
      * cbn [read_entry]. unfold addr_of in Hws. rewrite Hx in Hws. injection Hws as <-. exact Hca.
Qed.

(* ---- idempotence -------------------------------------------------------------------------------------------------------------- *)
Lemma send_idem cf k r st ts force fs1 fs2 key :
  all_ok fs1 = true -> all_ok fs2 = true ->
  sget (fst (send cf k r (fst (send cf k r st ts force fs1)) ts force fs2)) key = sget (fst (send cf k r st ts force fs1)) key.
Proof.
  intros H1 H2. destruct key as [g' a].
  rewrite (send_ok_get cf k r _ ts force fs2 g' a H2), (send_ok_get cf k r st ts force fs1 g' a H1).
  destruct (N.eqb (r_guid r) g' && mem_addr a (sent_set k (r_cache r) (addrs r ts))); [reflexivity|].
  now destruct (lost cf k force (r_cache r) (addrs r ts) (r_guid r) g' a).
Qed.

Lemma mem_filter_addr f a l : mem_addr a (filter f l) = mem_addr a l && f a.
Proof.
  induction l as [|a0 t IH]; [reflexivity|]. cbn [filter].
  destruct (f a0) eqn:E; rewrite ?mem_addr_cons, IH.
  - destruct (caddr_eqb_spec a a0) as [->|]; cbn [orb]; [|reflexivity]. rewrite E. now destruct (mem_addr a0 t).
  - destruct (caddr_eqb_spec a a0) as [->|]; cbn [orb]; [|reflexivity]. rewrite E. now rewrite andb_false_r.
Qed.

Lemma mem_requested cf r ts force a :
  mem_addr a (requested cf r ts force) = mem_addr a (addrs r ts) && (force || negb (chas (r_cache r) a)).
Proof.
  unfold requested. destruct force, (fixed_P10 cf); rewrite ?mem_dedup, ?mem_filter_addr; cbn [orb]; try reflexivity;
    now rewrite andb_true_r.
Qed.

Lemma requested_ext cf r r' ts force :
  r_recs r' = r_recs r -> (forall a, cget (r_cache r') a = cget (r_cache r) a) ->
  requested cf r' ts force = requested cf r ts force.
Proof.
  intros Hr Hc. unfold requested. rewrite (addrs_same_recs r r' ts Hr).
  assert (Hf : filter (fun a => negb (chas (r_cache r') a)) (addrs r ts) = filter (fun a => negb (chas (r_cache r) a)) (addrs r ts)).
  { apply filter_ext. intros a. unfold chas. now rewrite Hc. }
  now rewrite Hf.
Qed.

Lemma recheck_val_cache_ext force c c' recs w p :
  (forall a, cget c' a = cget c a) -> recheck_val force c' recs w p = recheck_val force c recs w p.
Proof.
  intros H. unfold recheck_val, ws_read_in. destruct (get beqb recs p) as [x|]; [|reflexivity].
  rewrite H. destruct (wget w p) as [[b|a]|]; cbn [read_entry]; rewrite ?H; reflexivity.
Qed.

Lemma bring_idem cf k tmp r st ts force fs1 fs2 :
  all_ok fs1 = true -> all_ok fs2 = true -> tmp || fixed_P9 cf = true ->
  let r1 := fst (bring cf k tmp r st ts force fs1) in
  let r2 := fst (bring cf k tmp r1 st ts force fs2) in
  (forall a, cget (r_cache r2) a = cget (r_cache r1) a) /\ (forall p, wget (r_ws r2) p = wget (r_ws r1) p) /\
  r_recs r2 = r_recs r1.
Proof.
  intros H1 H2 Hcan r1 r2.
  destruct (bring_keeps cf k tmp r st ts force fs1) as [Hrec1 [Hg1 _]]. fold r1 in Hrec1, Hg1.
  destruct (bring_keeps cf k tmp r1 st ts force fs2) as [Hrec2 [Hg2 _]]. fold r2 in Hrec2, Hg2.
  destruct (bring_spec cf k tmp r st ts force fs1 H1 Hcan) as [[Hk [Hf Hab]]|[_ [Hc1 Hw1]]].
  - (* the first bring stopped before doing anything: so does the second *)
    assert (E1 : r1 = r) by (unfold r1; now rewrite Hab). subst k.
    assert (E2 : r2 = r1).
    { unfold r2. rewrite E1. unfold bring, fetch. cbv zeta.
      rewrite (receive_local_none (r_guid r) st (requested cf r ts force) recv0 Hf). reflexivity. }
    rewrite E2. repeat split; reflexivity.
  - fold r1 in Hc1, Hw1.
    (* the second bring requests nothing the first one could not get *)
    assert (Hcache : forall a, fetched_cache cf r1 st ts force a = cget (r_cache r1) a).
    { intros a. unfold fetched_cache. rewrite mem_requested, Hg1.
      rewrite (addrs_same_recs r r1 ts Hrec1).
      destruct (mem_addr a (addrs r ts)) eqn:Em; cbn [andb]; [|reflexivity].
      unfold shas. destruct (sget st (r_guid r, a)) as [b|] eqn:Es; [|now rewrite andb_false_r].
      rewrite andb_true_r. destruct force; cbn [orb].
      - rewrite Hc1. unfold fetched_cache. rewrite mem_requested, Em. cbn [orb andb]. unfold shas. now rewrite Es.
      - destruct (chas (r_cache r1) a) eqn:Eh; cbn [negb]; [reflexivity|].
        exfalso. apply chas_false in Eh. rewrite Hc1 in Eh. unfold fetched_cache in Eh.
        rewrite mem_requested, Em in Eh. cbn [orb andb] in Eh. unfold shas in Eh. rewrite Es in Eh.
        destruct (chas (r_cache r) a) eqn:Eh0; cbn [negb andb] in Eh; [|discriminate].
        apply chas_true in Eh0 as [b0 Hb0]. congruence. }
    destruct (bring_spec cf k tmp r1 st ts force fs2 H2 Hcan) as [[_ [_ Hab2]]|[_ [Hc2 Hw2]]].
    + assert (E2 : r2 = r1) by (unfold r2; now rewrite Hab2). rewrite E2. repeat split; reflexivity.
    + fold r2 in Hc2, Hw2.
      assert (Hcc : forall a, cget (r_cache r2) a = cget (r_cache r1) a) by (intros a; now rewrite Hc2, Hcache).
      split; [exact Hcc|]. split; [|congruence].
      intros p. rewrite Hw2, Hrec1. destruct (mem_path p ts) eqn:Em; [|reflexivity].
      rewrite (recheck_val_cache_ext force (r_cache r1) (r_cache r2) (r_recs r) (r_ws r1) p Hcc).
      rewrite (Hw1 p), Em. apply recheck_val_idem. now rewrite Hw1, Em.
Qed.

(* ---- every fault sequence ------------------------------------------------------------------------------------------------------ *)
Lemma bring_sound truth cf k tmp r st ts force fs :
  fixed_P10 cf = true -> agrees truth (r_cache r) -> storage_sound truth (r_guid r) st ->
  agrees truth (r_cache (fst (bring cf k tmp r st ts force fs))).
Proof. intros. rewrite bring_cache. now apply fetch_sound. Qed.

Lemma send_other_guid cf k r st ts force fs g' a :
  g' <> r_guid r -> sget (fst (send cf k r st ts force fs)) (g', a) = sget st (g', a).
Proof.
  intros Hn. destruct (option_eq_dec_bytes (sget (fst (send cf k r st ts force fs)) (g', a)) (sget st (g', a))) as [H|H]; [exact H|].
  apply send_changes in H as [Hg _]. congruence.
Qed.

(* histories of transfers between any number of repositories around one storage directory *)
Definition transfer_step (s : step) : bool :=
  match s with
  | SNew _ _ _ | STrack _ _ _ _ => false
  | SSend _ _ _ _ fs => no_partial fs
  | _ => true
  end.
(* truth g = the objects committed by the repositories with guid g *)
Definition world_sound (truth : guid -> cache) (w : world) : Prop :=
  (forall i r, wrepo w i = Some r -> agrees (truth (r_guid r)) (r_cache r)) /\
  (forall g, storage_sound (truth g) g (stor w)).

Lemma wrepo_set w i r j : wrepo (set_repo w i r) j = if N.eqb i j then Some r else wrepo w j.
Proof. unfold wrepo, set_repo; cbn [repos]. apply (@get_put _ _ _ Neqb_spec). Qed.

Lemma world_sound_set truth w i r :
  world_sound truth w -> agrees (truth (r_guid r)) (r_cache r) -> world_sound truth (set_repo w i r).
Proof.
  intros [Hr Hs] Ha. split; [|exact Hs]. intros j r'. rewrite wrepo_set.
  destruct (N.eqb i j); [|apply Hr]. intros H; injection H as <-. exact Ha.
Qed.

Lemma wstep_sound truth cf w s :
  fixed_P10 cf = true -> transfer_step s = true -> world_sound truth w -> world_sound truth (fst (wstep cf w s)).
Proof.
  intros H10 Ht Hw. pose proof Hw as [Hr Hs].
  destruct s; cbn [transfer_step] in Ht; try discriminate; cbn [wstep].
  - (* clone *) destruct (wrepo w i) as [r|] eqn:E; [|exact Hw]. cbn [fst].
    apply world_sound_set; [exact Hw|]. cbn [r_cache r_guid]. intros a b H; discriminate.
  - (* drop *) destruct (wrepo w i) as [r|] eqn:E; [|exact Hw]. cbn [fst].
    apply world_sound_set; [exact Hw|]. cbn [set_cache r_cache r_guid]. intros a b H; discriminate.
  - (* user delete *) destruct (wrepo w i) as [r|] eqn:E; [|exact Hw]. cbn [fst].
    apply world_sound_set; [exact Hw|]. cbn [set_ws r_cache r_guid]. now apply Hr with i.
  - (* user write *) destruct (wrepo w i) as [r|] eqn:E; [|exact Hw]. cbn [fst].
    apply world_sound_set; [exact Hw|]. cbn [set_ws r_cache r_guid]. now apply Hr with i.
  - (* send *) destruct (wrepo w i) as [r|] eqn:E; [|exact Hw].
    pose proof (send_sound (truth (r_guid r)) cf k r (stor w) ts force fs (Hr i r E) (Hs (r_guid r)) Ht) as Hsnd.
    pose proof (fun g' a => send_other_guid cf k r (stor w) ts force fs g' a) as Hoth.
    destruct (send cf k r (stor w) ts force fs) as [st o]. cbn [fst] in *. split; [exact Hr|]. cbn [stor].
    intros g. destruct (N.eq_dec g (r_guid r)) as [->|Hn]; [exact Hsnd|].
    intros a b. rewrite (Hoth g a Hn). apply Hs.
  - (* bring *) destruct (wrepo w i) as [r|] eqn:E; [|exact Hw].
    pose proof (bring_sound (truth (r_guid r)) cf k tmp_same_fs r (stor w) ts force fs H10 (Hr i r E) (Hs (r_guid r))) as Hb.
    destruct (bring_keeps cf k tmp_same_fs r (stor w) ts force fs) as [_ [Hg _]].
    destruct (bring cf k tmp_same_fs r (stor w) ts force fs) as [r' o]. cbn [fst] in *.
    apply world_sound_set; [exact Hw|]. now rewrite Hg.
Qed.

Lemma wrun_sound truth cf steps : forall w,
  fixed_P10 cf = true -> forallb transfer_step steps = true -> world_sound truth w -> world_sound truth (wrun cf w steps).
Proof.
  unfold wrun. induction steps as [|s t IH]; intros w H10 Ht Hw; cbn [fold_left]; [exact Hw|].
  cbn [forallb] in Ht. apply andb_true_iff in Ht as [Hs Ht].
  apply IH; [exact H10|exact Ht|]. now apply wstep_sound.
Qed.

(* ---- the storage keys of other repositories do not matter ------------------------------------------------------------------------ *)
Lemma receive_local_ext g st st' l : (forall a, sget st' (g, a) = sget st (g, a)) ->
  forall acc, receive_local g st' l acc = receive_local g st l acc.
Proof.
  intros H. induction l as [|a0 t IH]; intros acc; cbn [receive_local]; [reflexivity|].
  rewrite H. destruct (sget st (g, a0)); [apply IH|reflexivity].
Qed.

Lemma fold_download_ext g st st' z : (forall a, sget st' (g, a) = sget st (g, a)) ->
  forall acc, fold_left (download1 g st') z acc = fold_left (download1 g st) z acc.
Proof.
  intros H. induction z as [|af t IH]; intros acc; cbn [fold_left]; [reflexivity|].
  rewrite IH. unfold download1. now rewrite H.
Qed.

Lemma bring_ext cf k tmp r st st' ts force fs :
  (forall a, sget st' (r_guid r, a) = sget st (r_guid r, a)) ->
  bring cf k tmp r st' ts force fs = bring cf k tmp r st ts force fs.
Proof.
  intros H. unfold bring, fetch, receive_generic. cbv zeta.
  rewrite (receive_local_ext (r_guid r) st st' _ H), (fold_download_ext (r_guid r) st st' _ H).
  replace (existsb (download_fails (r_guid r) st') (zipf (requested cf r ts force) fs))
    with (existsb (download_fails (r_guid r) st) (zipf (requested cf r ts force) fs)); [reflexivity|].
  induction (zipf (requested cf r ts force) fs) as [|af t IH]; [reflexivity|].
  cbn [existsb]. rewrite IH. unfold download_fails. now rewrite H.
Qed.

(* ---- where the temporary directory is ---------------------------------------------------------------------------------------------- *)
Lemma tmp_irrelevant cf k r st ts force fs :
  fixed_P9 cf = true -> bring cf k true r st ts force fs = bring cf k false r st ts force fs.
Proof. intros H. unfold bring, fetch. rewrite H. reflexivity. Qed.

(* ---- layout ------------------------------------------------------------------------------------------------------------------------ *)
(* whatever fails: a send only writes keys <guid of the sending repository>/<cache address of the current
   digest of one of its file targets> *)
Lemma send_layout cf k r st ts force fs g' a :
  sget (fst (send cf k r st ts force fs)) (g', a) <> sget st (g', a) ->
  g' = r_guid r /\ exists p x, In p ts /\ rget r p = Some x /\ a = cache_addr p (r_digest x).
Proof. intros H. apply send_changes in H as [Hg Ha]. split; [exact Hg|]. now apply addrs_In. Qed.

(* repositories with distinct guids sharing a storage: what one sends (whatever fails) changes no object of
   the other and no outcome of the other's brings *)
Lemma no_collision cf k1 k2 tmp r1 r2 st ts1 ts2 force fsend fs1 fs2 :
  r_guid r1 <> r_guid r2 ->
  (forall a, sget (fst (send cf k2 r2 st ts2 fsend fs2)) (r_guid r1, a) = sget st (r_guid r1, a)) /\
  bring cf k1 tmp r1 (fst (send cf k2 r2 st ts2 fsend fs2)) ts1 force fs1 = bring cf k1 tmp r1 st ts1 force fs1.
Proof.
  intros Hn.
  assert (H : forall a, sget (fst (send cf k2 r2 st ts2 fsend fs2)) (r_guid r1, a) = sget st (r_guid r1, a))
    by (intros a; now apply send_other_guid).
  split; [exact H|]. now apply bring_ext.
Qed.

(* a successful send puts every target whose object the sender has at <guid>/<address>, with its bytes *)
Lemma send_ok_stores cf k r st ts force fs p b :
  all_ok fs = true -> (forall q, In q ts -> exists c, committed r q = Some c) -> In p ts -> committed r p = Some b ->
  exists a, addr_of r p = Some a /\ sget (fst (send cf k r st ts force fs)) (r_guid r, a) = Some b.
Proof.
  intros Hok Hall Hp Hb. destruct (committed_inv r p b Hb) as [x [Hx Hob]].
  exists (cache_addr p (r_digest x)). split; [unfold addr_of; now rewrite Hx|].
  rewrite (send_ok_get cf k r st ts force fs _ _ Hok), N.eqb_refl.
  assert (Hf : forallb (chas (r_cache r)) (addrs r ts) = true).
  { apply forallb_forall. intros a Ha. apply addrs_In in Ha as [q [y [Hq [Hy ->]]]].
    destruct (Hall q Hq) as [c Hc]. apply committed_inv in Hc as [y' [Hy' Hc]].
    rewrite Hy in Hy'. injection Hy' as <-. apply chas_true. now exists c. }
  replace (sent_set k (r_cache r) (addrs r ts)) with (addrs r ts)
    by (destruct k; cbn [sent_set]; [now rewrite sendable_all|now rewrite filter_all]).
  assert (Hm : mem_addr (cache_addr p (r_digest x)) (addrs r ts) = true).
  { apply mem_addr_In, addrs_In. exists p, x. auto. }
  rewrite Hm. exact Hob.
Qed.
