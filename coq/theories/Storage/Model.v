(* M-STORAGE: executable model of `xvc file send` / `xvc file bring` through a local or a generic
   (shell command) storage, written from file/src/send/mod.rs (cmd_send), file/src/bring/mod.rs (fetch,
   cmd_bring), file/src/common/mod.rs (move_to_cache), file/src/recheck/mod.rs (the recheck that bring
   ends with), storage/src/storage/local.rs (send, receive), storage/src/storage/generic.rs (send,
   receive, run_for_paths, run_for_paths_in_temp_dir), storage/src/storage/mod.rs (XvcStorageTempDir,
   XvcStoragePath).
   Self-contained (the vocabulary of addresses repeats Repo/Model.v so that the extraction has one
   Model module).  Hash functions are ideal: a digest IS (algorithm, normalised content).
   The commands of a generic storage are oracles: one fault (Ok | fail before writing | fail after
   writing half) per invocation; a fault list that runs out continues with Ok.
   The order in which a command visits its targets (HashMap iteration in the code) is the order of
   the target list: every theorem holds for every list.
   Two switches select the behaviour of the unchanged tree (false) or of the repaired one (true):
     fixed_P9   move_to_cache falls back to copy + rename inside the cache directory when the rename
                from the temporary directory fails with EXDEV
     fixed_P10  fetch asks for every address once and moves only what the storage reported as received
     fixed_send_force  `send --force` to a local storage removes the stored object only when the cache
                object that replaces it exists
   No proofs in this file. *)
From Coq Require Import List Bool NArith.
From XV Require Import Base.Amap Base.Bytes.
Import ListNotations.

(* ---- vocabulary (as in Repo/Model.v) ------------------------------------------------------------ *)
Inductive algo := B3 | B2 | S2 | S3.
Definition algo_eqb (a b : algo) : bool :=
  match a, b with B3, B3 | B2, B2 | S2, S2 | S3, S3 => true | _, _ => false end.
Inductive method := Copy | Hardlink | Symlink | Reflink.
Definition path := bytes.
Record digest := { d_algo : algo; d_norm : bytes }.
Definition digest_eqb (a b : digest) : bool := algo_eqb (d_algo a) (d_algo b) && beqb (d_norm a) (d_norm b).
(* ContentDigest::new with text_or_binary = auto *)
Definition digest_of (a : algo) (content : bytes) : digest :=
  {| d_algo := a; d_norm := if is_text content then strip_crlf content else content |}.
(* XvcCachePath::new: <prefix>/<3>/<3>/<58>/0.<extension of the tracked path> *)
Record caddr := { a_digest : digest; a_ext : bytes }.
Definition caddr_eqb (a b : caddr) : bool := digest_eqb (a_digest a) (a_digest b) && beqb (a_ext a) (a_ext b).
Definition cache_addr (p : path) (d : digest) : caddr := {| a_digest := d; a_ext := extension p |}.
(* an object fits its address: hashed as it is, or with CR/LF removed, it gives the digest *)
Definition fitsb (a : caddr) (b : bytes) : bool :=
  beqb (d_norm (a_digest a)) b || beqb (d_norm (a_digest a)) (strip_crlf b).

(* ---- state ------------------------------------------------------------------------------------------ *)
Definition nolt {K : Type} (_ _ : K) : bool := false.
Definition cache := list (caddr * bytes).
Definition cget (c : cache) (a : caddr) : option bytes := get caddr_eqb c a.
Definition cput (c : cache) (a : caddr) (b : bytes) : cache := put caddr_eqb nolt c a b.
Definition cdel (c : cache) (a : caddr) : cache := del caddr_eqb c a.
Definition chas (c : cache) (a : caddr) : bool := match cget c a with Some _ => true | None => false end.

(* a storage: <root>/<repository guid>/<cache path> |-> bytes *)
Definition guid := N.
Definition skey := (guid * caddr)%type.
Definition skey_eqb (x y : skey) : bool := N.eqb (fst x) (fst y) && caddr_eqb (snd x) (snd y).
Definition storage := list (skey * bytes).
Definition sget (s : storage) (k : skey) : option bytes := get skey_eqb s k.
Definition sput (s : storage) (k : skey) (b : bytes) : storage := put skey_eqb nolt s k b.
Definition sdel (s : storage) (k : skey) : storage := del skey_eqb s k.

(* the records of a tracked file: recorded content digest, recheck method (path, metadata and
   text-or-binary stores do not influence send and bring beyond selecting the file targets) *)
Record frec := { r_digest : digest; r_method : method }.
(* a workspace entry as a reader sees it: own bytes (copy, reflink; a hard link shares the inode of an
   object that is never written in place), or a symbolic link to a cache address *)
Inductive wentry := WBytes (b : bytes) | WLink (a : caddr).
Record repo := {
  r_guid : guid;
  r_algo : algo;
  r_recs : list (path * frec);
  r_cache : cache;
  r_ws : list (path * wentry)
}.
Definition rget (r : repo) (p : path) : option frec := get beqb (r_recs r) p.
Definition wget (w : list (path * wentry)) (p : path) : option wentry := get beqb w p.
Definition wput (w : list (path * wentry)) (p : path) (e : wentry) := put beqb nolt w p e.
Definition wdel (w : list (path * wentry)) (p : path) := del beqb w p.
Definition set_cache (r : repo) (c : cache) : repo :=
  {| r_guid := r_guid r; r_algo := r_algo r; r_recs := r_recs r; r_cache := c; r_ws := r_ws r |}.
Definition set_ws (r : repo) (w : list (path * wentry)) : repo :=
  {| r_guid := r_guid r; r_algo := r_algo r; r_recs := r_recs r; r_cache := r_cache r; r_ws := w |}.
Definition set_recs (r : repo) (x : list (path * frec)) : repo :=
  {| r_guid := r_guid r; r_algo := r_algo r; r_recs := x; r_cache := r_cache r; r_ws := r_ws r |}.

(* what reading the workspace path gives *)
Definition read_entry (c : cache) (e : wentry) : option bytes :=
  match e with WBytes b => Some b | WLink a => cget c a end.
Definition ws_read_in (c : cache) (w : list (path * wentry)) (p : path) : option bytes :=
  match wget w p with Some e => read_entry c e | None => None end.
Definition ws_read (r : repo) (p : path) : option bytes := ws_read_in (r_cache r) (r_ws r) p.

(* the bytes committed for a tracked path: the object at the address of its recorded digest *)
Definition addr_of (r : repo) (p : path) : option caddr :=
  match rget r p with Some x => Some (cache_addr p (r_digest x)) | None => None end.
Definition committed (r : repo) (p : path) : option bytes :=
  match addr_of r p with Some a => cget (r_cache r) a | None => None end.
(* cache paths of the file targets, in the order the command visits them; targets that are not
   tracked select nothing *)
Fixpoint addrs (r : repo) (ts : list path) : list caddr :=
  match ts with
  | [] => []
  | p :: t => match addr_of r p with Some a => a :: addrs r t | None => addrs r t end
  end.

(* ---- switches, faults, outcomes ---------------------------------------------------------------- *)
Record cfg := { fixed_P9 : bool; fixed_P10 : bool; fixed_send_force : bool }.
Definition as_is : cfg := {| fixed_P9 := false; fixed_P10 := false; fixed_send_force := false |}.
Definition all_fixed : cfg := {| fixed_P9 := true; fixed_P10 := true; fixed_send_force := true |}.

Inductive skind := Local | Generic.
Inductive fault := FOk | FClean | FPartial.
(* "after writing half" *)
Definition half (b : bytes) : bytes := firstn (Nat.div2 (length b)) b.
(* one fault per invocation, in invocation order; Ok when the schedule has run out *)
Fixpoint zipf {A : Type} (l : list A) (fs : list fault) : list (A * fault) :=
  match l with
  | [] => []
  | a :: t => match fs with
              | [] => (a, FOk) :: zipf t []
              | f :: r => (a, f) :: zipf t r
              end
  end.
Inductive outcome := Ok | Err | Panic.

(* ---- send ---------------------------------------------------------------------------------------- *)
(* XvcLocalStorage::send: per cache path: with --force the stored object is removed first (fdel: before
   looking whether the cache object exists); create_dir_all + fs::copy(object, <root>/<guid>/<path>);
   the first error returns, what was copied (and removed) stays so *)
Fixpoint send_local (fdel : bool) (g : guid) (c : cache) (st : storage) (l : list caddr) : storage * outcome :=
  match l with
  | [] => (st, Ok)
  | a :: t => match cget c a with
              | Some b => send_local fdel g c (sput st (g, a) b) t
              | None => (if fdel then sdel st (g, a) else st, Err)
              end
  end.
(* XvcGenericStorage::send: the upload command once per cache path; a failing command is reported
   and the loop goes on.  A command whose source object is missing fails before writing. *)
Definition upload1 (g : guid) (c : cache) (st : storage) (af : caddr * fault) : storage :=
  match snd af, cget c (fst af) with
  | FOk, Some b => sput st (g, fst af) b
  | FPartial, Some b => sput st (g, fst af) (half b)
  | _, _ => st
  end.
Definition upload_fails (c : cache) (af : caddr * fault) : bool :=
  match snd af, cget c (fst af) with FOk, Some _ => false | _, _ => true end.
Definition send_generic (g : guid) (c : cache) (st : storage) (l : list caddr) (fs : list fault) : storage * outcome :=
  let z := zipf l fs in
  (fold_left (upload1 g c) z st, if existsb (upload_fails c) z then Err else Ok).
(* cmd_send: file targets from the store, address from the CURRENT digest; --force is ignored by a
   generic storage *)
Definition send (cf : cfg) (k : skind) (r : repo) (st : storage) (ts : list path) (force : bool) (fs : list fault)
  : storage * outcome :=
  match k with
  | Local => send_local (force && negb (fixed_send_force cf)) (r_guid r) (r_cache r) st (addrs r ts)
  | Generic => send_generic (r_guid r) (r_cache r) st (addrs r ts) fs
  end.

(* ---- bring ----------------------------------------------------------------------------------------- *)
(* keep the last occurrence of every address *)
Fixpoint dedup (l : list caddr) : list caddr :=
  match l with
  | [] => []
  | a :: t => if existsb (caddr_eqb a) t then dedup t else a :: dedup t
  end.
(* fetch: addresses as in send, minus those already in the cache unless --force *)
Definition requested (cf : cfg) (r : repo) (ts : list path) (force : bool) : list caddr :=
  let l := addrs r ts in
  let l := if force then l else filter (fun a => negb (chas (r_cache r) a)) l in
  if fixed_P10 cf then dedup l else l.

(* what a storage leaves in the XvcStorageTempDir and what it reports in the Receive event *)
Record recv := { tmpd : cache; reported : list caddr }.
Definition recv0 : recv := {| tmpd := []; reported := [] |}.
(* XvcLocalStorage::receive: fs::copy each, the first error aborts everything *)
Fixpoint receive_local (g : guid) (st : storage) (l : list caddr) (acc : recv) : option recv :=
  match l with
  | [] => Some acc
  | a :: t => match sget st (g, a) with
              | Some b => receive_local g st t {| tmpd := cput (tmpd acc) a b; reported := a :: reported acc |}
              | None => None
              end
  end.
(* XvcGenericStorage::receive: the download command once per path, {ABSOLUTE_CACHE_PATH} = the
   temporary path; only paths whose command succeeded are reported *)
Definition download1 (g : guid) (st : storage) (acc : recv) (af : caddr * fault) : recv :=
  match snd af, sget st (g, fst af) with
  | FOk, Some b => {| tmpd := cput (tmpd acc) (fst af) b; reported := fst af :: reported acc |}
  | FPartial, Some b => {| tmpd := cput (tmpd acc) (fst af) (half b); reported := reported acc |}
  | _, _ => acc
  end.
Definition receive_generic (g : guid) (st : storage) (l : list caddr) (fs : list fault) : recv :=
  fold_left (download1 g st) (zipf l fs) recv0.
(* a failing command is reported with an error line *)
Definition download_fails (g : guid) (st : storage) (af : caddr * fault) : bool :=
  match snd af, sget st (g, fst af) with FOk, Some _ => false | _, _ => true end.

(* the loop of fetch over the requested addresses: a temporary file that exists (and, repaired, was
   reported) is moved to the cache; move_to_cache = rename, which fails with EXDEV when the temporary
   directory is on another file system (uwr! panics: the command ends there) *)
Definition mem_addr (a : caddr) (l : list caddr) : bool := existsb (caddr_eqb a) l.
Fixpoint move_all (can_rename only_reported : bool) (rep : list caddr) (l : list caddr) (tm c : cache) (err : bool)
  : cache * outcome :=
  match l with
  | [] => (c, if err then Err else Ok)
  | a :: t =>
      match cget tm a with
      | Some b =>
          if negb only_reported || mem_addr a rep
          then if can_rename then move_all can_rename only_reported rep t (cdel tm a) (cput c a b) err
               else (c, Panic)
          else move_all can_rename only_reported rep t tm c true       (* "Could not download" *)
      | None => move_all can_rename only_reported rep t tm c true       (* "Could not download" *)
      end
  end.

Inductive fetched := Done (c : cache) (err : bool) | Aborted | Panicked (c : cache).
Definition fetch (cf : cfg) (k : skind) (tmp_same_fs : bool) (r : repo) (st : storage) (ts : list path)
                 (force : bool) (fs : list fault) : fetched :=
  let l := requested cf r ts force in
  let rv := match k with
            | Local => receive_local (r_guid r) st l recv0
            | Generic => Some (receive_generic (r_guid r) st l fs)
            end in
  let e0 := match k with Local => false | Generic => existsb (download_fails (r_guid r) st) (zipf l fs) end in
  match rv with
  | None => Aborted                      (* "Remote error": nothing was moved, no recheck *)
  | Some rv =>
      match move_all (tmp_same_fs || fixed_P9 cf) (fixed_P10 cf) (reported rv) l (tmpd rv) (r_cache r) e0 with
      | (c, Panic) => Panicked c
      | (c, Err) => Done c true
      | (c, Ok) => Done c false
      end
  end.

(* the recheck bring ends with (cmd_recheck with force passed through, no --as): a file target is
   rechecked when --force or when nothing readable is at the path; object missing => error line *)
Definition recheck1 (force : bool) (c : cache) (recs : list (path * frec)) (wr : list (path * wentry) * bool) (p : path)
  : list (path * wentry) * bool :=
  let '(w, err) := wr in
  match get beqb recs p with
  | None => (w, err)
  | Some x =>
      let a := cache_addr p (r_digest x) in
      let missing := match ws_read_in c w p with Some _ => false | None => true end in
      if force || missing then
        match cget c a with
        | Some b => (wput w p (match r_method x with Symlink => WLink a | _ => WBytes b end), err)
        | None => (w, true)
        end
      else (w, err)
  end.
Definition recheck_all (force : bool) (c : cache) (recs : list (path * frec)) (w : list (path * wentry)) (ts : list path) :=
  fold_left (recheck1 force c recs) ts (w, false).

Definition bring (cf : cfg) (k : skind) (tmp_same_fs : bool) (r : repo) (st : storage) (ts : list path)
                 (force : bool) (fs : list fault) : repo * outcome :=
  match fetch cf k tmp_same_fs r st ts force fs with
  | Aborted => (r, Err)
  | Panicked c => (set_cache r c, Panic)
  | Done c e =>
      let '(w, e2) := recheck_all force c (r_recs r) (r_ws r) ts in
      (set_ws (set_cache r c) w, if e || e2 then Err else Ok)
  end.

(* ---- worlds: several repositories (clones share a guid) around one storage directory ---------------- *)
Record world := { repos : list (N * repo); stor : storage }.
Definition wrepo (w : world) (i : N) : option repo := get N.eqb (repos w) i.
Definition set_repo (w : world) (i : N) (r : repo) : world :=
  {| repos := put N.eqb N.ltb (repos w) i r; stor := stor w |}.

(* `xvc file track p` of a new file with the given bytes (auto text/binary): record, object unless
   its address is already there (carry_in leaves an existing object alone), workspace entry rechecked
   from the cache *)
Definition track (r : repo) (p : path) (m : method) (content : bytes) : repo :=
  let d := digest_of (r_algo r) content in
  let a := cache_addr p d in
  let c := match cget (r_cache r) a with Some _ => r_cache r | None => cput (r_cache r) a content end in
  let e := match m, cget c a with Symlink, _ => WLink a | _, Some b => WBytes b | _, None => WBytes content end in
  {| r_guid := r_guid r; r_algo := r_algo r; r_recs := put beqb nolt (r_recs r) p {| r_digest := d; r_method := m |};
     r_cache := c; r_ws := wput (r_ws r) p e |}.

Inductive step :=
| SNew (i : N) (g : guid) (al : algo)
| STrack (i : N) (p : path) (m : method) (content : bytes)
| SClone (i j : N)                             (* j := a copy of i without its cache and its workspace files *)
| SDropCache (i : N)
| SUserDel (i : N) (p : path)
| SUserWrite (i : N) (p : path) (content : bytes)
| SSend (i : N) (k : skind) (force : bool) (ts : list path) (fs : list fault)
| SBring (i : N) (k : skind) (tmp_same_fs force : bool) (ts : list path) (fs : list fault).

Definition wstep (cf : cfg) (w : world) (s : step) : world * outcome :=
  match s with
  | SNew i g al => (set_repo w i {| r_guid := g; r_algo := al; r_recs := []; r_cache := []; r_ws := [] |}, Ok)
  | STrack i p m content =>
      match wrepo w i with Some r => (set_repo w i (track r p m content), Ok) | None => (w, Err) end
  | SClone i j =>
      match wrepo w i with
      | Some r => (set_repo w j {| r_guid := r_guid r; r_algo := r_algo r; r_recs := r_recs r; r_cache := [];
                                   r_ws := [] |}, Ok)
      | None => (w, Err)
      end
  | SDropCache i =>
      match wrepo w i with Some r => (set_repo w i (set_cache r []), Ok) | None => (w, Err) end
  | SUserDel i p =>
      match wrepo w i with Some r => (set_repo w i (set_ws r (wdel (r_ws r) p)), Ok) | None => (w, Err) end
  | SUserWrite i p content =>
      match wrepo w i with Some r => (set_repo w i (set_ws r (wput (r_ws r) p (WBytes content))), Ok) | None => (w, Err) end
  | SSend i k force ts fs =>
      match wrepo w i with
      | Some r => let '(st, o) := send cf k r (stor w) ts force fs in ({| repos := repos w; stor := st |}, o)
      | None => (w, Err)
      end
  | SBring i k tmp force ts fs =>
      match wrepo w i with
      | Some r => let '(r', o) := bring cf k tmp r (stor w) ts force fs in (set_repo w i r', o)
      | None => (w, Err)
      end
  end.
Definition world0 : world := {| repos := []; stor := [] |}.
Definition wrun (cf : cfg) (w : world) (steps : list step) : world := fold_left (fun w s => fst (wstep cf w s)) steps w.
